(* C15 mechanism model, rANS-64 decoder and the header of the "FSE" decoder.
   src/entropy/rans.rs  Rans64Decoder::{decode, decode_single, decode_parallel, decode_symbol}
   src/entropy/fse.rs   FseDecoder::{decompress, decompress_single, decompress_parallel} up to and including
                        FseTable::new's validation (max symbol, checked frequency sum) and FastDivision::new
   Reused from coq/C01: ModelRans (table access `freq_of` / `start_of` / `slot_sym`, `dec_renorm`,
   `take_words`, `take_slices`, `stream_count`, `interleave`) and ModelFse (`read_pairs`, `sniff_sizes`).
   Added: the arithmetic of decode_symbol through the checked primitives, the reservations, the length
   argument as a machine integer (the symbol loop recurses on the binary representation of the count, so
   a caller-supplied 10^8 costs nothing when the input runs dry), the 100 MiB limit.

   FSE: the normalisation of the stored frequencies is floating-point code (entropy_optimization) and stays
   outside the model; everything a crafted header can reach BEFORE it is modelled exactly, and a header
   that passes is reported as `FAny` (the implementation may return a value or an error; it must not crash).
   Definitions only. *)
From ZV.Common Require Import Base Run.
From ZV.C01 Require ModelRans ModelFse.
From ZV.C15 Require Import Model ModelBlob.
Module R := ZV.C01.ModelRans.
Module F := ZV.C01.ModelFse.
Open Scope N_scope.

(* ---------- iteration on a machine-integer count ---------- *)
Fixpoint iter_pos {S : Type} (step : S -> res S) (p : positive) (s : S) : res S :=
  match p with
  | xH => step s
  | xO p' => s1 <- iter_pos step p' s ;; iter_pos step p' s1
  | xI p' => s0 <- step s ;; s1 <- iter_pos step p' s0 ;; iter_pos step p' s1
  end.
Definition iter_n {S : Type} (step : S -> res S) (n : N) (s : S) : res S :=
  match n with 0 => ret s | Npos p => iter_pos step p s end.

(* ---------- rANS ---------- *)
Definition MAX_PREALLOC : N := 65536.
(* state: (x, unread bytes newest first, output newest first) *)
Definition rstate : Type := (N * list N * list N)%type.
(* decode_symbol: renormalise, slot = x % 4096, symbol = decode_table[slot],
   x = freq * (x / 4096) + (x % 4096) - start *)
Definition rans_step (t : list N) (st : rstate) : res rstate :=
  let '(x, rin, out) := st in
  match R.dec_renorm x rin with
  | None => Err 0
  | Some (x1, rin1) =>
      let slot := x1 mod 4096 in
      let s := R.slot_sym t 0 0 slot in
      a <- mul_usize (R.freq_of t s) (x1 / 4096) ;;
      b <- add_usize a slot ;;
      c <- sub_usize b (R.start_of t s) ;;
      ret (c, rin1, s :: out)
  end.
Definition rans_run (t : list N) (count x : N) (data : list N) : res (list N) :=
  '(_, _, out) <- iter_n (rans_step t) count (x, rev data, []) ;; ret (rev out).

Definition rans_single (t : list N) (bytes : list N) (outlen : N) : res (list N) :=
  if nlen bytes <? 8 then Err 0 else
  let k := nlen bytes - 8 in
  _ <- with_capacity (N.min outlen MAX_PREALLOC) 1 ;;
  rans_run t outlen (from_le (skipn (N.to_nat k) bytes)) (firstn (N.to_nat k) bytes).

Fixpoint rans_streams (t : list N) (n outlen : N) (k : N) (sts : list N) (datas : list (list N)) : res (list (list N)) :=
  match sts, datas with
  | x :: sts', dta :: datas' =>
      let count := outlen / n + (if k <? outlen mod n then 1 else 0) in
      _ <- with_capacity (N.min count MAX_PREALLOC) 1 ;;
      syms <- rans_run t count x dta ;;
      r <- rans_streams t n outlen (k + 1) sts' datas' ;;
      ret (syms :: r)
  | _, _ => ret []
  end.
Definition opt_err {A} (o : option A) : res A := match o with Some a => ret a | None => Err 0 end.
Definition rans_parallel (n : N) (t : list N) (bytes : list N) (outlen : N) : res (list N) :=
  if outlen <? n then rans_single t bytes outlen else
  if nlen bytes <? n * 8 + n * 4 then Err 0 else
  _ <- with_capacity n 8 ;;
  '(sts, r1) <- opt_err (R.take_words (N.to_nat n) 8 bytes) ;;
  _ <- with_capacity n 8 ;;
  '(lens, r2) <- opt_err (R.take_words (N.to_nat n) 4 r1) ;;
  _ <- with_capacity n 16 ;;
  datas <- opt_err (R.take_slices lens r2) ;;
  _ <- with_capacity n 24 ;;
  per <- rans_streams t n outlen 0 sts datas ;;
  _ <- with_capacity outlen 1 ;;
  ret (R.interleave (N.to_nat n) (N.to_nat outlen) per).
(* Rans64Decoder<P>::decode, P::N = n *)
Definition rans_decode (n : N) (t : list N) (bytes : list N) (outlen : N) : res (list N) :=
  if outlen =? 0 then ret [] else
  if MAX_DECOMPRESSED <? outlen then Err 0 else
  if n =? 1 then rans_single t bytes outlen else rans_parallel n t bytes outlen.

(* a table as Rans64Encoder::new leaves it: 256 frequencies that sum to at most 4096 *)
Definition rans_table_ok (t : list N) : Prop := R.sum_list t <= 4096.

(* ---------- FSE ---------- *)
Inductive fsev : Type :=
| FVal (r : res (list N))
| FAny (alloc : N).

(* frequencies.iter().rposition(|f| f > 0).unwrap_or(0) *)
Fixpoint max_symbol_go (l : list N) (i best : N) : N :=
  match l with
  | [] => best
  | f :: r => max_symbol_go r (i + 1) (if 0 <? f then i else best)
  end.
Definition max_symbol (freqs : list N) : N := max_symbol_go freqs 0 0.
(* try_fold(0u32, checked_add) *)
Fixpoint checked_sum32 (l : list N) (acc : N) : option N :=
  match l with
  | [] => Some acc
  | f :: r => if acc + f <? W32 then checked_sum32 r (acc + f) else None
  end.
(* FastDivision::new(divisor): shift = 32 - leading_zeros; `fixed` = the widened (u128) arithmetic,
   else `1u64 << (32 + shift)` as it was before fix 7376e1a *)
Definition fast_div_new (fixed : bool) (d : N) : res (N * N * N) :=
  if d =? 0 then ret (1, 0, 0) else
  let shift := N.size d in
  if fixed then ret (d, ((2 ^ (32 + shift) + d - 1) / d) mod W64, shift)
  else
    p <- shl64 1 (32 + shift) ;;
    q <- add_usize p (d - 1) ;;
    ret (d, q / d, shift).
(* FseTable: states, nb_bits_table, alias_table (u8), state_deltas (u16), new_state_base *)
Definition FSE_TABLE_BYTES : N := 4096 * 5 + 512.

Definition fse_single_v (fixed_div : bool) (data : list N) : fsev :=
  match data with
  | [] => FVal (ret [])
  | _ =>
      if nlen data <? 5 then FVal (Err 0) else
      let osz := from_le (firstn 4 data) in
      if osz =? 0 then FVal (ret []) else
      if MAX_DECOMPRESSED <? osz then FVal (Err 0) else
      let tl := nth 4 data 0 in
      let body := skipn 5 data in
      if tl =? 255 then
        (if nlen body <? osz then FVal (Err 0)
         else FVal (_ <- reserve osz ;; ret (firstn (N.to_nat osz) body)))
      else if (tl <? 5) || (15 <? tl) then FVal (Err 0)
      else if nlen body <? 2 then FVal (Err 0)
      else
        let ns := from_le (firstn 2 body) in
        match F.read_pairs (N.to_nat ns) (skipn 2 body) (repeat 0 256) with
        | None => FVal (Err 0)
        | Some (freqs, rest) =>
            (* FseTable::new *)
            if max_symbol freqs =? 0 then FVal (Err 0) else
            match checked_sum32 freqs 0 with
            | None => FVal (Err 0)
            | Some total =>
                if total =? 0 then FVal (Err 0) else
                match fast_div_new fixed_div total with
                | Panic => FVal Panic
                | _ => FAny (FSE_TABLE_BYTES + N.min osz MAX_PREALLOC)
                end
            end
        end
  end.

Fixpoint fse_blocks_v (sizes : list N) (bytes : list N) (out : list N) (alloc : N) : fsev :=
  match sizes with
  | [] => FVal (Ok out alloc)
  | sz :: r =>
      if nlen bytes <? sz then FVal (Err alloc)
      else match fse_single_v true (firstn (N.to_nat sz) bytes) with
           | FVal (Ok o a) =>
               if MAX_DECOMPRESSED - nlen out <? nlen o then FVal (Err (alloc + a))
               else fse_blocks_v r (skipn (N.to_nat sz) bytes) (out ++ o) (alloc + a + nlen o)
           | FVal (Err a) => FVal (Err (alloc + a))
           | FVal Panic => FVal Panic
           | FAny a => FAny (alloc + a)
           end
  end.
(* FseDecoder::decompress: the block container is recognised by sniffing *)
Definition fse_decompress_v (data : list N) : fsev :=
  match data with
  | [] => FVal (ret [])
  | _ =>
      let k := from_le (firstn 4 data) in
      if (8 <=? nlen data) && (2 <=? k) && (k <=? 64) && (4 + 4 * k <=? nlen data) then
        match F.sniff_sizes (N.to_nat k) (skipn 4 data) (nlen data) 0 with
        | Some total =>
            if 4 + 4 * k + total =? nlen data then
              match R.take_words (N.to_nat k) 4 (skipn 4 data) with
              | None => FVal (Err 0)
              | Some (sizes, rest) => fse_blocks_v sizes rest [] (k * 8)
              end
            else fse_single_v true data
        | None => fse_single_v true data
        end
      else fse_single_v true data
  end.
Definition fsev_alloc (v : fsev) : N := match v with FVal r => alloc_of r | FAny a => a end.
Definition fsev_no_panic (v : fsev) : Prop := v <> FVal Panic.
