(* C15 mechanism model, DataInput::read_vec with the growth of the buffer in the accounting.
   Model.v records the explicit `Vec::with_capacity(len.min(CHUNK))` only; here every
   `buf.resize(start + step, 0)` that needs more room than the buffer has records the additional bytes
   (the amortised doubling of `Vec` is left out: it rounds a request up by less than a factor of two).
   The state of the loop is (got = buf.len(), cap = buf.capacity()).
   `regressed` = the seeded change `if start == CHUNK { buf.reserve_exact(len - start) }`: the whole
   declared length is reserved once the first chunk has arrived.
   Definitions only. *)
From ZV.Common Require Import Base Run.
From ZV.C15 Require Import Model.
Open Scope N_scope.

(* grow the buffer to hold `need` bytes: capacity overflow above isize::MAX, else the additional bytes *)
Definition grow_to (cap need : N) : res N :=
  if cap <? need then (if ISIZE_MAX <? need then Panic else Ok need (need - cap)) else ret cap.

Fixpoint read_vec_loop_g (regressed : bool) (fuel : nat) (len got cap : N) (rest acc : list N)
  : res (list N * list N) :=
  match fuel with
  | O => if len <=? got then ret (acc, rest) else Err 0
  | S f =>
      if len <=? got then ret (acc, rest) else
      let step := N.min (len - got) CHUNK in
      cap0 <- (if regressed && (got =? CHUNK) then grow_to cap len else ret cap) ;;
      need <- add_usize got step ;;
      cap1 <- grow_to cap0 need ;;
      if nlen rest <? step then Err 0 else
      read_vec_loop_g regressed f len need cap1 (skipn (N.to_nat step) rest) (acc ++ firstn (N.to_nat step) rest)
  end.
Definition read_vec_fuel (len : N) (rest : list N) : nat :=
  N.to_nat (N.min (len / CHUNK) (nlen rest / CHUNK) + 2).
Definition read_vec_g (regressed : bool) (len : N) (rest : list N) : res (list N * list N) :=
  _ <- with_capacity (N.min len CHUNK) 1 ;;
  read_vec_loop_g regressed (read_vec_fuel len rest) len 0 (N.min len CHUNK) rest [].

(* SliceDataInput::read_length_prefixed_bytes; obs: position, length, first 24 bytes *)
Definition sdi_lp_bytes_g (regressed : bool) (data : list N) : res (list Z) :=
  '(len, n) <- leb_u data ;;
  rest <- advance data n ;;
  '(v, rest') <- read_vec_g regressed len rest ;;
  ret (Z.of_N (nlen data - nlen rest') :: Z.of_N (nlen v) :: map Z.of_N (firstn 24 v)).
