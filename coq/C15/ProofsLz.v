(* C15: the dictionary / LZ decompressor never indexes outside its output, never overflows,
   and its output stays below the decompressed-size limit plus one byte per input byte. *)
From ZV.Common Require Import Base.
From ZV.C15 Require Import Model ProofsCore.
Open Scope N_scope.

Lemma sub_usize_good a b : b <= a -> good (fun _ => True) 0 (sub_usize a b).
Proof. intros H. unfold sub_usize. destruct (N.leb_spec b a); [|lia]. apply good_ret. exact I. Qed.

Lemma lz_loop_good : forall fuel data out_len,
  good (fun n => n <= N.max out_len MAX_DECOMPRESSED + nlen data) 0 (lz_loop true fuel data out_len).
Proof.
  induction fuel as [|f IH]; intros data out_len; cbn [lz_loop].
  - apply good_ret. lia.
  - destruct data as [|flag t]; [apply good_ret; lia|].
    destruct (flag =? 0).
    { destruct t as [|x rest]; [apply good_err|].
      eapply good_weaken; [apply IH| |lia]. intros n Hn. cbn [nlen]. cbn beta in Hn. lia. }
    destruct (flag =? 1); [|apply good_err].
    destruct t as [|o0 [|o1 [|o2 [|o3 [|l0 [|l1 [|l2 [|l3 rest]]]]]]]]; try apply good_err.
    set (offset := le32 o0 o1 o2 o3). set (len := le32 l0 l1 l2 l3).
    destruct ((offset =? 0) || (out_len <? offset)) eqn:E1; [apply good_err|].
    destruct (true && (MAX_DECOMPRESSED - out_len <? len)) eqn:E2; [apply good_err|].
    change 0 with (0 + 0) at 1.
    eapply good_bind.
    + apply sub_usize_good. apply Bool.orb_false_iff in E1. destruct E1 as [_ E1].
      apply N.ltb_ge in E1. exact E1.
    + intros start _. eapply good_weaken; [apply IH| |lia].
      intros n Hn. cbn beta in Hn. cbn [nlen].
      cbn [andb] in E2. apply N.ltb_ge in E2. clearbody len offset. lia.
Qed.

Lemma lz_dec_good data :
  good (fun n => n <= MAX_DECOMPRESSED + nlen data) 0 (lz_dec true data).
Proof.
  unfold lz_dec. eapply good_weaken; [apply lz_loop_good| |lia].
  intros n Hn. cbn beta in Hn. unfold MAX_DECOMPRESSED in *. lia.
Qed.

(* without the limit (the code before the fix) nine bytes of input declare 4 GiB of output *)
Lemma lz_unlimited_bomb :
  lz_dec false [0; 65; 1; 1; 0; 0; 0; 255; 255; 255; 255] = Ok 4294967296 0.
Proof. vm_compute. reflexivity. Qed.
