(* C15 property theorems.  Nothing but statements closed by `exact`, a pin, and Print Assumptions.
   `good P b r` (Model.v): r is not a Panic, its explicit reservations total at most b bytes, and a
   returned value satisfies P. *)
From ZV.Common Require Import Base.
From ZV.C15 Require Import Model ProofsCore ProofsSeq ProofsLz ProofsPz ProofsHex ProofsIo ProofsAll.
Open Scope N_scope.

(* every modelled parser (39 entry points), every argument, every byte string shorter than 2^60:
   the run is not a panic and reserves at most 8 bytes per input byte plus one 64 KiB chunk *)
Theorem parser_total :
  forall pid arg data, In pid model_ids -> nlen data < 2 ^ 60 ->
    exists r, run_model pid arg data = Some r /\ no_panic r /\ alloc_of r <= 8 * nlen data + 65536.
Proof. exact parser_total_proof. Qed.
Check parser_total :
  forall pid arg data, In pid model_ids -> nlen data < 2 ^ 60 ->
    exists r, run_model pid arg data = Some r /\ no_panic r /\ alloc_of r <= 8 * nlen data + 65536.
Print Assumptions parser_total.
Example parser_total_nontrivial :
  run_model 34 0 [2; 2; 44; 1; 1; 7] = Some (Ok [300; 7]%Z 16).
Proof. vm_compute. reflexivity. Qed.

(* LEB128: no panic (the shift is tested before it is used), no reservation, consumes 1..len bytes *)
Theorem leb128_decode_total :
  forall data, good (fun '(_, k) => 1 <= k <= nlen data) 0 (leb_u data).
Proof. exact leb_u_ok. Qed.
Check leb128_decode_total : forall data, good (fun '(_, k) => 1 <= k <= nlen data) 0 (leb_u data).
Print Assumptions leb128_decode_total.

(* count-prefixed sequences, for ANY element decoder that consumes at least one byte per element:
   output no longer than the input, reservation at most 8 bytes per input byte *)
Theorem sequence_decoder_total :
  forall (elem : list N -> res (Z * N)) data,
    elem_ok elem -> nlen data < 2 ^ 60 ->
    good (fun vs => nlen vs <= nlen data) (8 * nlen data) (seq_dec true elem data).
Proof. exact seq_dec_good. Qed.
Check sequence_decoder_total :
  forall (elem : list N -> res (Z * N)) data,
    elem_ok elem -> nlen data < 2 ^ 60 ->
    good (fun vs => nlen vs <= nlen data) (8 * nlen data) (seq_dec true elem data).
Print Assumptions sequence_decoder_total.
Example sequence_decoder_hypothesis_inhabited : elem_ok pf_s_elem.
Proof. exact pf_s_elem_ok. Qed.

Theorem delta_sequence_total :
  forall data, nlen data < 2 ^ 60 ->
    good (fun vs => nlen vs <= nlen data) (8 * nlen data) (delta_u_dec true data) /\
    good (fun vs => nlen vs <= nlen data) (8 * nlen data) (delta_s_dec true data).
Proof. intros data H. split; [exact (delta_u_dec_good data H) | exact (delta_s_dec_good data H)]. Qed.
Check delta_sequence_total :
  forall data, nlen data < 2 ^ 60 ->
    good (fun vs => nlen vs <= nlen data) (8 * nlen data) (delta_u_dec true data) /\
    good (fun vs => nlen vs <= nlen data) (8 * nlen data) (delta_s_dec true data).
Print Assumptions delta_sequence_total.

Theorem group_varint_sequence_total :
  forall data, nlen data < 2 ^ 60 ->
    good (fun vs => nlen vs <= nlen data) (8 * nlen data) (gv_dec true data).
Proof. exact gv_dec_good. Qed.
Check group_varint_sequence_total :
  forall data, nlen data < 2 ^ 60 ->
    good (fun vs => nlen vs <= nlen data) (8 * nlen data) (gv_dec true data).
Print Assumptions group_varint_sequence_total.

(* the decoder as it was before fix 1bc03e1 (no count check): ten bytes panic with a capacity
   overflow, six bytes request 2^44 bytes *)
Theorem sequence_decoder_unchecked_refuted :
  (exists data, nlen data = 10 /\ seq_dec false u_elem data = Panic) /\
  (exists data, nlen data = 6 /\ alloc_of (seq_dec false u_elem data) = 2 ^ 44).
Proof.
  split.
  - exists [255; 255; 255; 255; 255; 255; 255; 255; 255; 1]. split; [reflexivity | exact seq_dec_unchecked_panics].
  - exists [128; 128; 128; 128; 128; 64]. split; [reflexivity | exact seq_dec_unchecked_allocates].
Qed.
Check sequence_decoder_unchecked_refuted :
  (exists data, nlen data = 10 /\ seq_dec false u_elem data = Panic) /\
  (exists data, nlen data = 6 /\ alloc_of (seq_dec false u_elem data) = 2 ^ 44).
Print Assumptions sequence_decoder_unchecked_refuted.

(* dictionary / LZ decompression: never an out-of-range back reference, output bounded *)
Theorem lz_decompress_total :
  forall data, good (fun n => n <= MAX_DECOMPRESSED + nlen data) 0 (lz_dec true data).
Proof. exact lz_dec_good. Qed.
Check lz_decompress_total :
  forall data, good (fun n => n <= MAX_DECOMPRESSED + nlen data) 0 (lz_dec true data).
Print Assumptions lz_decompress_total.
Example lz_decompress_nontrivial : lz_dec true [0; 97; 0; 98; 1; 2; 0; 0; 0; 7; 0; 0; 0] = Ok 9 0.
Proof. vm_compute. reflexivity. Qed.

Theorem lz_decompress_unlimited_refuted :
  exists data, nlen data = 11 /\ lz_dec false data = Ok 4294967296 0.
Proof. exists [0; 65; 1; 1; 0; 0; 0; 255; 255; 255; 255]. split; [reflexivity | exact lz_unlimited_bomb]. Qed.
Check lz_decompress_unlimited_refuted :
  exists data, nlen data = 11 /\ lz_dec false data = Ok 4294967296 0.
Print Assumptions lz_decompress_unlimited_refuted.

(* PA-Zip match stream: the bit reader's position never underflows, casts fit, no reservation *)
Theorem pazip_decode_total :
  forall data,
    good (fun _ => True) 0 (decode_match_top true data) /\
    good (fun _ => True) 0 (decode_matches_m true data).
Proof. intros data. split; [apply decode_match_top_good | apply decode_matches_good]. Qed.
Check pazip_decode_total :
  forall data,
    good (fun _ => True) 0 (decode_match_top true data) /\
    good (fun _ => True) 0 (decode_matches_m true data).
Print Assumptions pazip_decode_total.
Example pazip_decode_nontrivial :
  decode_match_top true [166; 145; 80; 1] = Ok [27; 6; 4660; 55]%Z 0.
Proof. vm_compute. reflexivity. Qed.

Theorem pazip_far2long_unfixed_refuted :
  exists data, nlen data = 7 /\ decode_match_top false data = Panic.
Proof. exists [166; 145; 248; 255; 15; 0; 0]. split; [reflexivity | exact decode_match_unfixed_panics]. Qed.
Check pazip_far2long_unfixed_refuted :
  exists data, nlen data = 7 /\ decode_match_top false data = Panic.
Print Assumptions pazip_far2long_unfixed_refuted.

(* length-prefixed byte strings (read_vec after fix 93ba69b): whatever the prefix says, one chunk is reserved *)
Theorem length_prefixed_read_total :
  forall data, good (fun _ => True) CHUNK (sdi_lp_bytes data) /\ good (fun _ => True) 0 (sdi_skip data).
Proof. intros data. split; [apply sdi_lp_bytes_good | apply sdi_skip_good]. Qed.
Check length_prefixed_read_total :
  forall data, good (fun _ => True) CHUNK (sdi_lp_bytes data) /\ good (fun _ => True) 0 (sdi_skip data).
Print Assumptions length_prefixed_read_total.
Example length_prefixed_nontrivial :
  sdi_lp_bytes [255; 255; 255; 255; 15; 1; 2] = Err 65536.
Proof. vm_compute. reflexivity. Qed.

(* Vec<u32> decoder (fix 129e061): at most 4096 elements reserved, output bounded by the input *)
Theorem vec_u32_decode_total :
  forall data, good (fun vs => nlen vs * 4 <= nlen data) (4 * PREALLOC_CAP) (vec_u32_dec data).
Proof. exact vec_u32_dec_good. Qed.
Check vec_u32_decode_total :
  forall data, good (fun vs => nlen vs * 4 <= nlen data) (4 * PREALLOC_CAP) (vec_u32_dec data).
Print Assumptions vec_u32_decode_total.

(* hex: reserves half the input, output half the input; the slice variant stays inside the buffer *)
Theorem hex_decode_total :
  forall data, nlen data < W63 ->
    good (fun vs => nlen vs * 2 <= nlen data) (nlen data / 2) (hex_dec data).
Proof. exact hex_dec_good. Qed.
Check hex_decode_total :
  forall data, nlen data < W63 ->
    good (fun vs => nlen vs * 2 <= nlen data) (nlen data / 2) (hex_dec data).
Print Assumptions hex_decode_total.

Theorem hex_decode_to_slice_total :
  forall arg data, good (fun vs => nlen vs <= 1 + N.min arg 4096) 0 (hex_to_slice arg data).
Proof. exact hex_to_slice_good. Qed.
Check hex_decode_to_slice_total :
  forall arg data, good (fun vs => nlen vs <= 1 + N.min arg 4096) 0 (hex_to_slice arg data).
Print Assumptions hex_decode_to_slice_total.
Example hex_nontrivial : hex_dec [52; 56; 54; 53] = Ok [72; 101]%Z 2.
Proof. vm_compute. reflexivity. Qed.
