(* C15 property theorems.  Nothing but statements closed by `exact`, a pin, and Print Assumptions.
   `good P b r` (Model.v): r is not a Panic, its explicit reservations total at most b bytes, and a
   returned value satisfies P. *)
From ZV.Common Require Import Base.
From ZV.C15 Require Import Model ProofsCore ProofsSeq ProofsLz ProofsPz ProofsHex ProofsIo ProofsAll.
From ZV.C15 Require Import ModelBlob ModelCases ProofsBlob ModelIo2 ProofsIo2 ModelHuff ProofsHuff ModelEntropy ProofsEntropy ModelFiles ProofsFiles ModelB64 ProofsB64.
Open Scope N_scope.

(* every modelled parser (39 entry points), every argument, every byte string shorter than 2^60:
   the run is not a panic and reserves at most 8 bytes per input byte plus one 64 KiB chunk *)
Theorem parser_total :
  forall pid arg data, In pid model_ids -> nlen data < 2 ^ 60 ->
    exists r, run_model pid arg data = Some r /\ no_panic r /\ alloc_of r <= 8 * nlen data + 65536.
Proof. exact parser_total_proof. Qed.
Check parser_total :
  forall pid arg data, In pid model_ids -> nlen data < 2 ^ 60 ->
    exists r, run_model pid arg data = Some r /\ no_panic r /\ alloc_of r <= 8 * nlen data + 65536.
Print Assumptions parser_total.
Example parser_total_nontrivial :
  run_model 34 0 [2; 2; 44; 1; 1; 7] = Some (Ok [300; 7]%Z 16).
Proof. vm_compute. reflexivity. Qed.

(* LEB128: no panic (the shift is tested before it is used), no reservation, consumes 1..len bytes *)
Theorem leb128_decode_total :
  forall data, good (fun '(_, k) => 1 <= k <= nlen data) 0 (leb_u data).
Proof. exact leb_u_ok. Qed.
Check leb128_decode_total : forall data, good (fun '(_, k) => 1 <= k <= nlen data) 0 (leb_u data).
Print Assumptions leb128_decode_total.

(* count-prefixed sequences, for ANY element decoder that consumes at least one byte per element:
   output no longer than the input, reservation at most 8 bytes per input byte *)
Theorem sequence_decoder_total :
  forall (elem : list N -> res (Z * N)) data,
    elem_ok elem -> nlen data < 2 ^ 60 ->
    good (fun vs => nlen vs <= nlen data) (8 * nlen data) (seq_dec true elem data).
Proof. exact seq_dec_good. Qed.
Check sequence_decoder_total :
  forall (elem : list N -> res (Z * N)) data,
    elem_ok elem -> nlen data < 2 ^ 60 ->
    good (fun vs => nlen vs <= nlen data) (8 * nlen data) (seq_dec true elem data).
Print Assumptions sequence_decoder_total.
Example sequence_decoder_hypothesis_inhabited : elem_ok pf_s_elem.
Proof. exact pf_s_elem_ok. Qed.

Theorem delta_sequence_total :
  forall data, nlen data < 2 ^ 60 ->
    good (fun vs => nlen vs <= nlen data) (8 * nlen data) (delta_u_dec true data) /\
    good (fun vs => nlen vs <= nlen data) (8 * nlen data) (delta_s_dec true data).
Proof. intros data H. split; [exact (delta_u_dec_good data H) | exact (delta_s_dec_good data H)]. Qed.
Check delta_sequence_total :
  forall data, nlen data < 2 ^ 60 ->
    good (fun vs => nlen vs <= nlen data) (8 * nlen data) (delta_u_dec true data) /\
    good (fun vs => nlen vs <= nlen data) (8 * nlen data) (delta_s_dec true data).
Print Assumptions delta_sequence_total.

Theorem group_varint_sequence_total :
  forall data, nlen data < 2 ^ 60 ->
    good (fun vs => nlen vs <= nlen data) (8 * nlen data) (gv_dec true data).
Proof. exact gv_dec_good. Qed.
Check group_varint_sequence_total :
  forall data, nlen data < 2 ^ 60 ->
    good (fun vs => nlen vs <= nlen data) (8 * nlen data) (gv_dec true data).
Print Assumptions group_varint_sequence_total.

(* the decoder as it was before fix 1bc03e1 (no count check): ten bytes panic with a capacity
   overflow, six bytes request 2^44 bytes *)
Theorem sequence_decoder_unchecked_refuted :
  (exists data, nlen data = 10 /\ seq_dec false u_elem data = Panic) /\
  (exists data, nlen data = 6 /\ alloc_of (seq_dec false u_elem data) = 2 ^ 44).
Proof.
  split.
  - exists [255; 255; 255; 255; 255; 255; 255; 255; 255; 1]. split; [reflexivity | exact seq_dec_unchecked_panics].
  - exists [128; 128; 128; 128; 128; 64]. split; [reflexivity | exact seq_dec_unchecked_allocates].
Qed.
Check sequence_decoder_unchecked_refuted :
  (exists data, nlen data = 10 /\ seq_dec false u_elem data = Panic) /\
  (exists data, nlen data = 6 /\ alloc_of (seq_dec false u_elem data) = 2 ^ 44).
Print Assumptions sequence_decoder_unchecked_refuted.

(* dictionary / LZ decompression: never an out-of-range back reference, output bounded *)
Theorem lz_decompress_total :
  forall data, good (fun n => n <= MAX_DECOMPRESSED + nlen data) 0 (lz_dec true data).
Proof. exact lz_dec_good. Qed.
Check lz_decompress_total :
  forall data, good (fun n => n <= MAX_DECOMPRESSED + nlen data) 0 (lz_dec true data).
Print Assumptions lz_decompress_total.
Example lz_decompress_nontrivial : lz_dec true [0; 97; 0; 98; 1; 2; 0; 0; 0; 7; 0; 0; 0] = Ok 9 0.
Proof. vm_compute. reflexivity. Qed.

Theorem lz_decompress_unlimited_refuted :
  exists data, nlen data = 11 /\ lz_dec false data = Ok 4294967296 0.
Proof. exists [0; 65; 1; 1; 0; 0; 0; 255; 255; 255; 255]. split; [reflexivity | exact lz_unlimited_bomb]. Qed.
Check lz_decompress_unlimited_refuted :
  exists data, nlen data = 11 /\ lz_dec false data = Ok 4294967296 0.
Print Assumptions lz_decompress_unlimited_refuted.

(* PA-Zip match stream: the bit reader's position never underflows, casts fit, no reservation *)
Theorem pazip_decode_total :
  forall data,
    good (fun _ => True) 0 (decode_match_top true data) /\
    good (fun _ => True) 0 (decode_matches_m true data).
Proof. intros data. split; [apply decode_match_top_good | apply decode_matches_good]. Qed.
Check pazip_decode_total :
  forall data,
    good (fun _ => True) 0 (decode_match_top true data) /\
    good (fun _ => True) 0 (decode_matches_m true data).
Print Assumptions pazip_decode_total.
Example pazip_decode_nontrivial :
  decode_match_top true [166; 145; 80; 1] = Ok [27; 6; 4660; 55]%Z 0.
Proof. vm_compute. reflexivity. Qed.

Theorem pazip_far2long_unfixed_refuted :
  exists data, nlen data = 7 /\ decode_match_top false data = Panic.
Proof. exists [166; 145; 248; 255; 15; 0; 0]. split; [reflexivity | exact decode_match_unfixed_panics]. Qed.
Check pazip_far2long_unfixed_refuted :
  exists data, nlen data = 7 /\ decode_match_top false data = Panic.
Print Assumptions pazip_far2long_unfixed_refuted.

(* length-prefixed byte strings (read_vec after fix 93ba69b): whatever the prefix says, one chunk is reserved *)
Theorem length_prefixed_read_total :
  forall data, good (fun _ => True) CHUNK (sdi_lp_bytes data) /\ good (fun _ => True) 0 (sdi_skip data).
Proof. intros data. split; [apply sdi_lp_bytes_good | apply sdi_skip_good]. Qed.
Check length_prefixed_read_total :
  forall data, good (fun _ => True) CHUNK (sdi_lp_bytes data) /\ good (fun _ => True) 0 (sdi_skip data).
Print Assumptions length_prefixed_read_total.
Example length_prefixed_nontrivial :
  sdi_lp_bytes [255; 255; 255; 255; 15; 1; 2] = Err 65536.
Proof. vm_compute. reflexivity. Qed.

(* Vec<u32> decoder (fix 129e061): at most 4096 elements reserved, output bounded by the input *)
Theorem vec_u32_decode_total :
  forall data, good (fun vs => nlen vs * 4 <= nlen data) (4 * PREALLOC_CAP) (vec_u32_dec data).
Proof. exact vec_u32_dec_good. Qed.
Check vec_u32_decode_total :
  forall data, good (fun vs => nlen vs * 4 <= nlen data) (4 * PREALLOC_CAP) (vec_u32_dec data).
Print Assumptions vec_u32_decode_total.

(* hex: reserves half the input, output half the input; the slice variant stays inside the buffer *)
Theorem hex_decode_total :
  forall data, nlen data < W63 ->
    good (fun vs => nlen vs * 2 <= nlen data) (nlen data / 2) (hex_dec data).
Proof. exact hex_dec_good. Qed.
Check hex_decode_total :
  forall data, nlen data < W63 ->
    good (fun vs => nlen vs * 2 <= nlen data) (nlen data / 2) (hex_dec data).
Print Assumptions hex_decode_total.

Theorem hex_decode_to_slice_total :
  forall arg data, good (fun vs => nlen vs <= 1 + N.min arg 4096) 0 (hex_to_slice arg data).
Proof. exact hex_to_slice_good. Qed.
Check hex_decode_to_slice_total :
  forall arg data, good (fun vs => nlen vs <= 1 + N.min arg 4096) 0 (hex_to_slice arg data).
Print Assumptions hex_decode_to_slice_total.
Example hex_nontrivial : hex_dec [52; 56; 54; 53] = Ok [72; 101]%Z 2.
Proof. vm_compute. reflexivity. Qed.

(* ===================== extension: loaders, entropy decoders, file openers ===================== *)

(* SortedUintVec::from_bytes: for every image below 2^60 bytes no panic (in particular the division by
   offset_width comes after the configuration is validated), reservations within the image size, and
   the loaded vector satisfies the invariant the accessors rely on *)
Theorem sorted_uint_vec_load_total :
  forall bytes, nlen bytes < 2 ^ 60 ->
    good (fun s => suv_wf s /\ 32 + nlen (sv_index s) + nlen (sv_data s) = nlen bytes) (nlen bytes)
         (suv_from_bytes bytes).
Proof. exact suv_from_bytes_good. Qed.
Check sorted_uint_vec_load_total :
  forall bytes, nlen bytes < 2 ^ 60 ->
    good (fun s => suv_wf s /\ 32 + nlen (sv_index s) + nlen (sv_data s) = nlen bytes) (nlen bytes)
         (suv_from_bytes bytes).
Print Assumptions sorted_uint_vec_load_total.
Example sorted_uint_vec_load_nontrivial :
  (s <- suv_from_bytes [2; 0; 0; 0; 0; 0; 0; 0; 6; 8; 16; 0; 0; 0; 0; 0; 2; 0; 0; 0; 0; 0; 0; 0; 2; 0; 0; 0; 0; 0; 0; 0; 44; 1; 5; 9] ;;
   suv_get2 true s 0) = Ok (305, 309) 4.
Proof. vm_compute. reflexivity. Qed.

(* get / get2 / get_block on any vector that satisfies the load invariant: no panic, no reservation *)
Theorem sorted_uint_vec_get_total :
  forall s, suv_wf s -> forall i out_len,
    good (fun v => v < W64) 0 (suv_get true s i) /\
    good (fun '(a, b) => a < W64 /\ b < W64) 0 (suv_get2 true s i) /\
    good (fun _ => True) 0 (suv_get_block s i out_len).
Proof.
  intros s WF i out_len. split; [apply suv_get_good; exact WF|].
  split; [apply suv_get2_good; exact WF | apply suv_get_block_good; exact WF].
Qed.
Check sorted_uint_vec_get_total :
  forall s, suv_wf s -> forall i out_len,
    good (fun v => v < W64) 0 (suv_get true s i) /\
    good (fun '(a, b) => a < W64 /\ b < W64) 0 (suv_get2 true s i) /\
    good (fun _ => True) 0 (suv_get_block s i out_len).
Print Assumptions sorted_uint_vec_get_total.
Example sorted_uint_vec_wf_inhabited :
  exists s a, suv_from_bytes suv_overflow_image = Ok s a /\ suv_wf s.
Proof.
  pose proof (suv_from_bytes_good suv_overflow_image) as H.
  destruct (suv_from_bytes suv_overflow_image) as [s a| |] eqn:E; [|vm_compute in E; discriminate..].
  exists s, a. split; [reflexivity|]. apply H. vm_compute. reflexivity.
Qed.

(* `block_min + delta as u64` as it was: a 41-byte image with a 64-bit sample panics in get(0);
   with the division before the validation a 32-byte image of zeros divides by zero *)
Theorem sorted_uint_vec_unfixed_refuted :
  (exists bytes, nlen bytes = 41 /\ (s <- suv_from_bytes bytes ;; suv_get false s 0) = Panic) /\
  (exists bytes, nlen bytes = 32 /\ suv_from_bytes_div_first bytes = Panic).
Proof.
  split.
  - exists suv_overflow_image. split; [reflexivity | exact suv_get_unfixed_panics].
  - exists (repeat 0 32). split; [reflexivity | exact suv_div_first_panics].
Qed.
Check sorted_uint_vec_unfixed_refuted :
  (exists bytes, nlen bytes = 41 /\ (s <- suv_from_bytes bytes ;; suv_get false s 0) = Panic) /\
  (exists bytes, nlen bytes = 32 /\ suv_from_bytes_div_first bytes = Panic).
Print Assumptions sorted_uint_vec_unfixed_refuted.

(* ZipOffsetBlobStore::load_from_reader: no panic, at most twice the file size (+ padding) reserved
   whatever content_bytes / offsets_bytes declare, the loaded store satisfies the invariant of get;
   the padding skip is below 16 and restores 16-byte alignment *)
Theorem zip_offset_load_total :
  (forall bytes, nlen bytes < 2 ^ 60 ->
     good (fun z => zs_wf z /\ nlen (zs_content z) <= nlen bytes) (2 * nlen bytes + 16) (zo_load bytes)) /\
  (forall cb, (16 - cb mod 16) mod 16 < 16 /\ (cb + (16 - cb mod 16) mod 16) mod 16 = 0).
Proof. split; [exact zo_load_good | exact pad_expr]. Qed.
Check zip_offset_load_total :
  (forall bytes, nlen bytes < 2 ^ 60 ->
     good (fun z => zs_wf z /\ nlen (zs_content z) <= nlen bytes) (2 * nlen bytes + 16) (zo_load bytes)) /\
  (forall cb, (16 - cb mod 16) mod 16 < 16 /\ (cb + (16 - cb mod 16) mod 16) mod 16 = 0).
Print Assumptions zip_offset_load_total.

(* BlobStore::get on a loaded store: no panic (offsets validated before the subtraction and the
   slice), the record is no longer than the content section, nothing larger is reserved *)
Theorem zip_offset_get_total :
  forall z id, zs_wf z ->
    good (fun v => v = WILD \/ (0 <= v <= Z.of_N (nlen (zs_content z)))%Z) (nlen (zs_content z)) (zo_get z id).
Proof. exact zo_get_good. Qed.
Check zip_offset_get_total :
  forall z id, zs_wf z ->
    good (fun v => v = WILD \/ (0 <= v <= Z.of_N (nlen (zs_content z)))%Z) (nlen (zs_content z)) (zo_get z id).
Print Assumptions zip_offset_get_total.
Example zip_offset_wf_inhabited :
  zs_wf (mkZs [1; 2; 3] (mkSuv 2 6 8 16 false [44; 1] [0; 3]) 0 0) /\
  zo_get (mkZs [1; 2; 3] (mkSuv 2 6 8 16 false [44; 1] [0; 3]) 0 0) 0 = Err 0.
Proof.
  split; [|vm_compute; reflexivity].
  constructor; [constructor; [constructor; vm_compute; discriminate | vm_compute; discriminate | reflexivity | reflexivity]
               | reflexivity].
Qed.

(* DataInput::read_vec with the growth of the buffer counted: from the start and from EVERY state of the
   chunk loop (got bytes read, cap bytes reserved, got <= cap <= got + CHUNK) the bytes still to be
   reserved are bounded by the bytes really present plus one chunk, minus what is already reserved -
   whatever the declared length is *)
Theorem length_prefixed_read_bounded :
  (forall fuel len got cap rest acc,
     got <= cap -> cap <= got + CHUNK -> got + nlen rest + CHUNK <= ISIZE_MAX ->
     good (fun '(v, rest') => nlen rest' <= nlen rest) (nlen rest + CHUNK - (cap - got))
          (read_vec_loop_g false fuel len got cap rest acc)) /\
  (forall len rest, nlen rest < 2 ^ 60 ->
     good (fun '(v, rest') => nlen rest' <= nlen rest) (nlen rest + CHUNK) (read_vec_g false len rest)) /\
  (forall data, nlen data < 2 ^ 60 -> good (fun _ => True) (nlen data + CHUNK) (sdi_lp_bytes_g false data)).
Proof. split; [exact read_vec_loop_g_good | split; [exact read_vec_g_good | exact sdi_lp_bytes_g_good]]. Qed.
Check length_prefixed_read_bounded :
  (forall fuel len got cap rest acc,
     got <= cap -> cap <= got + CHUNK -> got + nlen rest + CHUNK <= ISIZE_MAX ->
     good (fun '(v, rest') => nlen rest' <= nlen rest) (nlen rest + CHUNK - (cap - got))
          (read_vec_loop_g false fuel len got cap rest acc)) /\
  (forall len rest, nlen rest < 2 ^ 60 ->
     good (fun '(v, rest') => nlen rest' <= nlen rest) (nlen rest + CHUNK) (read_vec_g false len rest)) /\
  (forall data, nlen data < 2 ^ 60 -> good (fun _ => True) (nlen data + CHUNK) (sdi_lp_bytes_g false data)).
Print Assumptions length_prefixed_read_bounded.
Example length_prefixed_read_bounded_nontrivial :
  sdi_lp_bytes_g false (lying_input [128; 128; 128; 128; 128; 32]) = Err 131072.
Proof. exact read_vec_fixed_on_witness. Qed.

(* the seeded change (reserve the whole declared length once the first chunk has arrived): 6 + 65536
   bytes request 2^40 bytes, 10 + 65536 bytes panic with a capacity overflow *)
Theorem length_prefixed_read_regressed_refuted :
  (exists data, nlen data = 65542 /\ alloc_of (sdi_lp_bytes_g true data) = 2 ^ 40) /\
  (exists data, nlen data = 65546 /\ sdi_lp_bytes_g true data = Panic).
Proof.
  split.
  - exists (lying_input [128; 128; 128; 128; 128; 32]). split; [vm_compute; reflexivity | exact read_vec_regressed_allocates].
  - exists (lying_input [128; 128; 128; 128; 128; 128; 128; 128; 128; 1]). split; [vm_compute; reflexivity | exact read_vec_regressed_panics].
Qed.
Check length_prefixed_read_regressed_refuted :
  (exists data, nlen data = 65542 /\ alloc_of (sdi_lp_bytes_g true data) = 2 ^ 40) /\
  (exists data, nlen data = 65546 /\ sdi_lp_bytes_g true data = Panic).
Print Assumptions length_prefixed_read_regressed_refuted.

(* HuffmanTree::deserialize and ContextualHuffmanEncoder::deserialize (byte strings = lists of numbers
   below 256): the parse never panics and reserves at most 8 (28) bytes per input byte; every code has
   at most 255 bits; the tree construction cannot panic for ANY insertion order (the HashMap order is
   not a function of the input) and nests at most |code| + 1 <= 256 calls of insert_code_into_tree; a
   deserialised contextual encoder has at least one tree and only valid tree indices in its context map *)
Theorem huffman_deserialize_total :
  (forall fixed data, nlen data < 2 ^ 60 -> bytes_ok data ->
     good (fun '(tb, _) => codes_short tb) (8 * nlen data) (ht_deser fixed data)) /\
  (forall ord, good (fun _ => True) 0 (ht_build ord)) /\
  (forall c t, (insert_calls t c <= length c + 1)%nat) /\
  (forall fixed data, nlen data < 2 ^ 58 -> bytes_ok data ->
     good ctx_idx_ok (28 * nlen data) (ctx_deser fixed data)).
Proof. split; [exact ht_deser_good | split; [exact ht_build_good | split; [exact insert_calls_le | exact ctx_deser_good]]]. Qed.
Check huffman_deserialize_total :
  (forall fixed data, nlen data < 2 ^ 60 -> bytes_ok data ->
     good (fun '(tb, _) => codes_short tb) (8 * nlen data) (ht_deser fixed data)) /\
  (forall ord, good (fun _ => True) 0 (ht_build ord)) /\
  (forall c t, (insert_calls t c <= length c + 1)%nat) /\
  (forall fixed data, nlen data < 2 ^ 58 -> bytes_ok data ->
     good ctx_idx_ok (28 * nlen data) (ctx_deser fixed data)).
Print Assumptions huffman_deserialize_total.
Example huffman_deserialize_nontrivial :
  ctx_deser true [1; 2; 0; 0; 0; 1; 0; 0; 0; 97; 0; 0; 0; 1; 0; 0; 0;
                  8; 0; 0; 0; 2; 0; 97; 1; 0; 98; 1; 1;  5; 0; 0; 0; 1; 0; 122; 1; 0]
  = Ok (HC.mkC 1 [H.mkHT (Some (H.Node (H.Leaf 97) (H.Leaf 98))) [(98, [true]); (97, [false])];
                  H.mkHT (Some (H.Leaf 122)) [(122, [false])]] [(97, 1%nat)]) 163.
Proof. vm_compute. reflexivity. Qed.

(* HuffmanDecoder::decode, ContextualHuffmanDecoder::decode (orders 0/1/2, for every encoder with valid
   indices), decode_x1..x8: no panic; the output is no longer than the expected length AND no longer
   than 8 * input + 1; nothing is reserved from the caller-supplied length alone *)
Theorem huffman_decode_total :
  (forall root bytes outlen, nlen bytes < 2 ^ 60 ->
     good (fun out => nlen out <= outlen /\ nlen out <= 8 * nlen bytes + 1)
          (N.min outlen (8 * nlen bytes + 1)) (huff_decode_o true root bytes outlen)) /\
  (forall e bytes outlen, ctx_idx_ok e -> nlen bytes < 2 ^ 60 ->
     good (fun out => nlen out <= outlen /\ nlen out <= 8 * nlen bytes + 1)
          (2 * N.min outlen (8 * nlen bytes + 1)) (ctx_decode_o e bytes outlen)) /\
  (forall e nst bytes outlen, nlen bytes < 2 ^ 60 ->
     good (fun _ => True) (XN_TABLE_BYTES + N.min outlen (8 * nlen bytes)) (xn_decode_o e nst bytes outlen)).
Proof. split; [exact huff_decode_o_good | split; [exact ctx_decode_o_good | exact xn_decode_o_good]]. Qed.
Check huffman_decode_total :
  (forall root bytes outlen, nlen bytes < 2 ^ 60 ->
     good (fun out => nlen out <= outlen /\ nlen out <= 8 * nlen bytes + 1)
          (N.min outlen (8 * nlen bytes + 1)) (huff_decode_o true root bytes outlen)) /\
  (forall e bytes outlen, ctx_idx_ok e -> nlen bytes < 2 ^ 60 ->
     good (fun out => nlen out <= outlen /\ nlen out <= 8 * nlen bytes + 1)
          (2 * N.min outlen (8 * nlen bytes + 1)) (ctx_decode_o e bytes outlen)) /\
  (forall e nst bytes outlen, nlen bytes < 2 ^ 60 ->
     good (fun _ => True) (XN_TABLE_BYTES + N.min outlen (8 * nlen bytes)) (xn_decode_o e nst bytes outlen)).
Print Assumptions huffman_decode_total.
Example huffman_decode_nontrivial :
  huff_decode_o true (Some (H.Node (H.Leaf 97) (H.Node (H.Leaf 98) (H.Leaf 99)))) [180; 1] 5
  = Ok [97; 97; 98; 99; 97] 5.
Proof. vm_compute. reflexivity. Qed.

(* the two code shapes that were repaired: Vec::with_capacity(output_length) (capacity overflow for
   usize::MAX, 4 GiB for 2^32-1 from one input byte), and a code of length zero accepted by deserialize
   (decode_next_symbol then returns its symbol without consuming a bit) *)
Theorem huffman_unfixed_refuted :
  (huff_decode_o false (Some (H.Leaf 1)) [0] (W64 - 1) = Panic /\
   alloc_of (huff_decode_o false (Some (H.Leaf 1)) [0] (W32 - 1)) = W32 - 1) /\
  (exists data, nlen data = 4 /\ ht_deser true data = Err 0 /\
     exists tb, ht_deser false data = Ok (tb, 0) 0 /\
       forall bits, HC.dns true (H.mkHT (Some (H.Leaf 97)) tb) bits = Some (97, bits)).
Proof.
  split; [split; [exact huff_decode_uncapped_panics | exact huff_decode_uncapped_allocates]|].
  exists [1; 0; 97; 0]. split; [reflexivity|]. split; [exact zero_len_rejected|].
  exists [(97, [])]. split; [exact zero_len_accepted | exact zero_len_no_progress].
Qed.
Check huffman_unfixed_refuted :
  (huff_decode_o false (Some (H.Leaf 1)) [0] (W64 - 1) = Panic /\
   alloc_of (huff_decode_o false (Some (H.Leaf 1)) [0] (W32 - 1)) = W32 - 1) /\
  (exists data, nlen data = 4 /\ ht_deser true data = Err 0 /\
     exists tb, ht_deser false data = Ok (tb, 0) 0 /\
       forall bits, HC.dns true (H.mkHT (Some (H.Leaf 97)) tb) bits = Some (97, bits)).
Print Assumptions huffman_unfixed_refuted.

(* Rans64Decoder::decode (1, 2, 4 or 8 streams) with ANY table whose frequencies sum to at most 4096 (what
   Rans64Encoder::new builds): no panic - the state update `freq * (x / 4096) + x % 4096 - start` neither
   overflows nor underflows for any 64-bit state, the header slices are in range - and, whatever the
   expected length says, at most 64 KiB per stream are reserved before the symbols exist; the final
   buffer is bounded by the 100 MiB limit *)
Theorem rans_decode_total :
  forall n t bytes outlen, n <= 8 -> rans_table_ok t -> bytes_ok bytes ->
    good (fun _ => True) (8 * (56 + MAX_PREALLOC) + N.min outlen MAX_DECOMPRESSED) (rans_decode n t bytes outlen).
Proof. exact rans_decode_good. Qed.
Check rans_decode_total :
  forall n t bytes outlen, n <= 8 -> rans_table_ok t -> bytes_ok bytes ->
    good (fun _ => True) (8 * (56 + MAX_PREALLOC) + N.min outlen MAX_DECOMPRESSED) (rans_decode n t bytes outlen).
Print Assumptions rans_decode_total.
Example rans_decode_nontrivial :
  rans_table_ok (repeat 16 256) /\
  rans_decode 1 (repeat 16 256) [7; 9; 0; 0; 2; 0; 0; 0; 0; 0] 3 = Ok [0; 0; 144] 3.
Proof. split; vm_compute; [discriminate | reflexivity]. Qed.

(* FseDecoder::decompress (single block and block container): for every input below 2^60 bytes the header
   path - size limit, table log range, frequency table, FseTable::new's checked frequency sum,
   FastDivision::new - never panics, and a single block reserves at most its own size, the table and
   64 KiB before the decoding loop *)
Theorem fse_decode_total :
  (forall data, nlen data < 2 ^ 60 ->
     fsev_no_panic (fse_single_v true data) /\
     fsev_alloc (fse_single_v true data) <= nlen data + FSE_TABLE_BYTES + MAX_PREALLOC) /\
  (forall data, nlen data < 2 ^ 60 -> fsev_no_panic (fse_decompress_v data)).
Proof. split; [exact fse_single_ok | exact fse_decompress_no_panic]. Qed.
Check fse_decode_total :
  (forall data, nlen data < 2 ^ 60 ->
     fsev_no_panic (fse_single_v true data) /\
     fsev_alloc (fse_single_v true data) <= nlen data + FSE_TABLE_BYTES + MAX_PREALLOC) /\
  (forall data, nlen data < 2 ^ 60 -> fsev_no_panic (fse_decompress_v data)).
Print Assumptions fse_decode_total.
Example fse_decode_nontrivial :
  fse_decompress_v [2; 0; 0; 0; 7; 0; 0; 0; 7; 0; 0; 0; 2; 0; 0; 0; 255; 120; 121; 2; 0; 0; 0; 255; 120; 121]
  = FVal (Ok [120; 121; 120; 121] 24).
Proof. vm_compute. reflexivity. Qed.

(* FastDivision::new before fix 7376e1a: a stored frequency sum of 2^31 shifts a u64 by 64 bits *)
Theorem fse_fastdiv_unfixed_refuted :
  fast_div_new false 2147483648 = Panic /\ fast_div_new true 2147483648 <> Panic.
Proof. split; [exact fast_div_unfixed_panics | apply fast_div_fixed_no_panic]. Qed.
Check fse_fastdiv_unfixed_refuted :
  fast_div_new false 2147483648 = Panic /\ fast_div_new true 2147483648 <> Panic.
Print Assumptions fse_fastdiv_unfixed_refuted.

(* MmapVecHeader::validate + MmapVec::<u64>::open (the C19 model mv_open with the outcome layer): no
   panic, at most twice the file size reserved, and an opened vector only addresses bytes of its file:
   80 + len * 8 <= file length, so get(i) / as_slice never leave the mapping *)
Theorem mmap_vec_open_total :
  forall f, nlen f < 2 ^ 60 ->
    good (fun '(len, _) => 80 + len * 8 <= nlen f) (2 * nlen f) (mv_open_o f).
Proof. exact mv_open_o_good. Qed.
Check mmap_vec_open_total :
  forall f, nlen f < 2 ^ 60 ->
    good (fun '(len, _) => 80 + len * 8 <= nlen f) (2 * nlen f) (mv_open_o f).
Print Assumptions mmap_vec_open_total.
Example mmap_vec_open_nontrivial :
  mv_cell ([67; 69; 86; 95; 80; 65; 77; 77; 1; 0; 0; 0; 8; 0; 0; 0; 1; 0; 0; 0; 0; 0; 0; 0; 2; 0; 0; 0; 0; 0; 0; 0]
           ++ repeat 0 48 ++ [7; 0; 0; 0; 0; 0; 0; 0] ++ repeat 0 8)
  = Ok [1; 7; -1; 7; 7; 7]%Z 192.
Proof. vm_compute. reflexivity. Qed.

(* ZReorderMap::open (the C19 model ro_parse with the outcome layer): no panic, nothing reserved, and an
   opened map has no empty run and runs that sum to exactly `size` - the iterator's `seq_length -= 1`
   cannot underflow and it ends with the last run *)
Theorem reorder_map_open_total :
  forall f, good (fun '(size, _, rs) => Forall (fun r => snd r <> 0) rs /\ runs_total rs = size) 0 (ro_open_o f).
Proof. exact ro_open_o_good. Qed.
Check reorder_map_open_total :
  forall f, good (fun '(size, _, rs) => Forall (fun r => snd r <> 0) rs /\ runs_total rs = size) 0 (ro_open_o f).
Print Assumptions reorder_map_open_total.
Example reorder_map_open_nontrivial :
  ro_cell [5; 0; 0; 0; 0; 0; 0; 0; 1; 0; 0; 0; 0; 0; 0; 0;  200; 0; 0; 0; 0; 3;  14; 0; 0; 0; 0; 2]
  = Ok [5; 5; 8]%Z 0.
Proof. vm_compute. reflexivity. Qed.

(* Dictionary::deserialize: no panic, the sequences copied never exceed the bytes present, whatever
   the entry count says *)
Theorem dictionary_deserialize_total :
  forall data, nlen data < 2 ^ 60 -> good (fun _ => True) (nlen data) (dict_deser data).
Proof. exact dict_deser_good. Qed.
Check dictionary_deserialize_total :
  forall data, nlen data < 2 ^ 60 -> good (fun _ => True) (nlen data) (dict_deser data).
Print Assumptions dictionary_deserialize_total.
Example dictionary_deserialize_nontrivial :
  dict_deser [2; 0; 0; 0;  1; 0; 97; 0; 0; 0; 0; 1; 0; 0; 0;  1; 0; 97; 5; 0; 0; 0; 1; 0; 0; 0] = Ok [1]%Z 2.
Proof. vm_compute. reflexivity. Qed.

(* SimdLz77Compressor::decompress: the match stream decodes without panic, copy_backward_reference is
   only reached with 1 <= distance <= output length (no underflow, no `i % 0`), the output stays within
   the 100 MiB limit; with the distance check left to a debug_assert a 10-byte stream divides by zero *)
Theorem simd_lz77_decompress_total :
  (forall data, good (fun n => n <= MAX_DECOMPRESSED) 0 (slz_dec true data)) /\
  (exists data, nlen data = 10 /\ slz_dec false data = Panic /\ slz_dec true data = Err 0).
Proof.
  split; [exact slz_dec_good|]. exists slz_dist0.
  split; [reflexivity | split; [exact slz_unchecked_panics | exact slz_checked_errs]].
Qed.
Check simd_lz77_decompress_total :
  (forall data, good (fun n => n <= MAX_DECOMPRESSED) 0 (slz_dec true data)) /\
  (exists data, nlen data = 10 /\ slz_dec false data = Panic /\ slz_dec true data = Err 0).
Print Assumptions simd_lz77_decompress_total.
Example simd_lz77_nontrivial : slz_dec true [2 + 8 * 1; 8 + 16 * 3; 0] = Ok 10 0.
Proof. vm_compute. reflexivity. Qed.

(* hex_decode(&str) = hex_decode_bytes on the UTF-8 bytes: any byte of a non-ASCII character (>= 128) is
   reported as an error, for every string (hex_decode_total gives no panic / the reservation) *)
Theorem hex_decode_str_total :
  forall data, nlen data < W63 -> Exists (fun b => 128 <= b) data -> exists a, hex_dec data = Err a.
Proof. exact hex_dec_nonascii. Qed.
Check hex_decode_str_total :
  forall data, nlen data < W63 -> Exists (fun b => 128 <= b) data -> exists a, hex_dec data = Err a.
Print Assumptions hex_decode_str_total.
Example hex_decode_str_nontrivial : hex_dec [52; 195; 169; 53] = Err 2.
Proof. vm_compute. reflexivity. Qed.

(* AdaptiveBase64::decode, all four configurations (standard / url-safe alphabet, padding required and
   canonical / refused): no panic, 3 bytes reserved per 4 input bytes, output no longer than the input *)
Theorem base64_decode_total :
  forall cfg data, nlen data < 2 ^ 60 ->
    good (fun out => nlen out <= nlen data) ((nlen data + 3) / 4 * 3) (b64_dec cfg data).
Proof. exact b64_dec_good. Qed.
Check base64_decode_total :
  forall cfg data, nlen data < 2 ^ 60 ->
    good (fun out => nlen out <= nlen data) ((nlen data + 3) / 4 * 3) (b64_dec cfg data).
Print Assumptions base64_decode_total.
Example base64_decode_nontrivial :
  b64_dec 0 [90; 109; 57; 118; 89; 103; 61; 61] = Ok [102; 111; 111; 98] 6 /\
  b64_dec 2 [90; 109; 57; 118; 89; 103; 61; 61] = Err 6 /\ b64_dec 0 [90; 109; 57; 118; 89; 104; 61; 61] = Err 6.
Proof. vm_compute. repeat split. Qed.
