(* C15 property theorems.  Nothing but statements closed by `exact`, a pin, and Print Assumptions. *)
From ZV.Common Require Import Base.
From ZV.C15 Require Import Model.
Open Scope N_scope.
