(* C15: SortedUintVec::from_bytes / get / get2 / get_block and ZipOffsetBlobStore load / get are total:
   no panic for any byte string (below 2^60 bytes), reservations bounded by the bytes present. *)
From ZV.Common Require Import Base Run.
From ZV.C15 Require Import Model ProofsCore ModelBlob.
Open Scope N_scope.

(* ---------- a more convenient bind rule ---------- *)
Lemma good_bind_le {A B} (P : A -> Prop) (Q : B -> Prop) b1 b2 b (m : res A) (f : A -> res B) :
  good P b1 m -> (forall a, P a -> good Q b2 (f a)) -> b1 + b2 <= b -> good Q b (bind m f).
Proof.
  intros Hm Hf Hb. eapply good_weaken; [eapply good_bind; eassumption | auto | exact Hb].
Qed.
Lemma good_err_le {A} (P : A -> Prop) a b : a <= b -> good P b (@Err A a).
Proof. cbn. auto. Qed.
Lemma good_ret_le {A} (P : A -> Prop) (x : A) b : P x -> good P b (ret x).
Proof. intros H. cbn. split; [assumption|lia]. Qed.

(* ---------- primitives ---------- *)
Lemma add_usize_good a b : a + b < W64 -> good (fun r => r = a + b) 0 (add_usize a b).
Proof. intros H. unfold add_usize. destruct (N.ltb_spec (a + b) W64); [|lia]. apply good_ret. reflexivity. Qed.
Lemma sub_usize_good a b : b <= a -> good (fun r => r = a - b) 0 (sub_usize a b).
Proof. intros H. unfold sub_usize. destruct (N.leb_spec b a); [|lia]. apply good_ret. reflexivity. Qed.
Lemma mul_usize_good a b : a * b < W64 -> good (fun r => r = a * b) 0 (mul_usize a b).
Proof. intros H. unfold mul_usize. destruct (N.ltb_spec (a * b) W64); [|lia]. apply good_ret. reflexivity. Qed.
Lemma div_usize_good a b : b <> 0 -> good (fun r => r = a / b) 0 (div_usize a b).
Proof. intros H. unfold div_usize. destruct (N.eqb_spec b 0); [contradiction|]. apply good_ret. reflexivity. Qed.
Lemma reserve_good n : n <= ISIZE_MAX -> good (fun _ => True) n (reserve n).
Proof.
  intros H. unfold reserve. eapply good_weaken; [apply with_capacity_good; lia | auto | lia].
Qed.
Lemma W60_lt_ISIZE n : n < 2 ^ 60 -> n <= ISIZE_MAX.
Proof.
  intros H. unfold ISIZE_MAX. rewrite W63_eq.
  assert (2 ^ 60 < 2 ^ 63) by (apply N.pow_lt_mono_r; lia). lia.
Qed.
Lemma or_neg1_good (r : res Z) b (P : Z -> Prop) :
  good P b r -> good (fun _ => True) b (or_neg1 r).
Proof. destruct r; cbn; intros H; [destruct H; split; [exact I|assumption] | split; [exact I|assumption] | assumption]. Qed.

Lemma sub_bytes_len bytes o n : o + n <= nlen bytes -> nlen (sub_bytes bytes o n) = n.
Proof.
  intros H. unfold sub_bytes. rewrite nlen_length in *. rewrite firstn_length, skipn_length. lia.
Qed.
Lemma sub_bytes_le bytes o n : nlen (sub_bytes bytes o n) <= n.
Proof. unfold sub_bytes. rewrite nlen_length, firstn_length. lia. Qed.

(* ---------- configuration facts ---------- *)
Lemma pow2_4_8 l : 4 <= l -> l <= 8 -> 16 <= 2 ^ l <= 256.
Proof.
  intros H1 H2. split.
  - change 16 with (2 ^ 4). apply N.pow_le_mono_r; lia.
  - change 256 with (2 ^ 8). apply N.pow_le_mono_r; lia.
Qed.

Record cfg_ok (l ow sw : N) : Prop := mkCfgOk {
  co_l1 : 4 <= l; co_l2 : l <= 8; co_o1 : 8 <= ow; co_o2 : ow <= 32; co_s1 : 16 <= sw; co_s2 : sw <= 64 }.
Lemma cfg_valid_ok l ow sw : cfg_valid l ow sw = true -> cfg_ok l ow sw.
Proof.
  unfold cfg_valid. rewrite !andb_true_iff. intros [[[[[[H1 H2] H3] H4] H5] H6] _].
  apply N.leb_le in H1, H2, H3, H4, H5, H6. constructor; assumption.
Qed.

(* the invariant from_bytes establishes *)
Record suv_wf (s : suv) : Prop := mkSuvWf {
  wf_cfg : cfg_ok (sv_log2 s) (sv_ow s) (sv_sw s);
  wf_size : sv_size s * sv_ow s <= 8 * nlen (sv_data s);
  wf_small : nlen (sv_data s) < 2 ^ 60;
  wf_small_i : nlen (sv_index s) < 2 ^ 60 }.

Lemma P60 : 2 ^ 60 = 1152921504606846976. Proof. reflexivity. Qed.

Lemma suv_from_bytes_good bytes :
  nlen bytes < 2 ^ 60 ->
  good (fun s => suv_wf s /\ 32 + nlen (sv_index s) + nlen (sv_data s) = nlen bytes) (nlen bytes)
       (suv_from_bytes bytes).
Proof.
  intros Hlen. unfold suv_from_bytes.
  destruct (nlen bytes <? 32); [apply good_err_le; lia|].
  set (size := le64_at bytes 0). set (il := le64_at bytes 16). set (dl := le64_at bytes 24).
  destruct (W64 <=? 32 + il); [apply good_err_le; lia|].
  destruct (W64 <=? 32 + il + dl); [apply good_err_le; lia|].
  destruct (N.eqb_spec (nlen bytes) (32 + il + dl)) as [Etot|]; cbn [negb]; [|apply good_err_le; lia].
  destruct (cfg_valid (byte_at bytes 8) (byte_at bytes 9) (byte_at bytes 10)) eqn:Ecfg; cbn [negb];
    [|apply good_err_le; lia].
  apply cfg_valid_ok in Ecfg. destruct Ecfg as [L1 L2 O1 O2 S1 S2].
  assert (Hsat : sat_mul dl 8 = dl * 8).
  { unfold sat_mul. apply N.min_l. rewrite P60 in Hlen. unfold W64. lia. }
  eapply good_bind_le with (b1 := 0) (b2 := nlen bytes); [apply div_usize_good; lia| |lia].
  intros q ->. rewrite Hsat.
  destruct (N.ltb_spec (dl * 8 / byte_at bytes 9) size) as [|Hsz]; [apply good_err_le; lia|].
  eapply good_bind_le with (b1 := il) (b2 := dl); [apply reserve_good, W60_lt_ISIZE; lia| |lia].
  intros _ _.
  eapply good_bind_le with (b1 := dl) (b2 := 0); [apply reserve_good, W60_lt_ISIZE; lia| |lia].
  intros _ _. apply good_ret.
  assert (Hi : nlen (sub_bytes bytes 32 il) = il) by (apply sub_bytes_len; lia).
  assert (Hd : nlen (sub_bytes bytes (32 + il) dl) = dl) by (apply sub_bytes_len; lia).
  split; [|cbn [sv_index sv_data]; lia].
  constructor; cbn [sv_log2 sv_ow sv_sw sv_size sv_data sv_index].
  - constructor; assumption.
  - rewrite Hd.
    assert (size * byte_at bytes 9 <= dl * 8 / byte_at bytes 9 * byte_at bytes 9) by (apply N.mul_le_mono_r; exact Hsz).
    assert (dl * 8 / byte_at bytes 9 * byte_at bytes 9 <= dl * 8) by (rewrite N.mul_comm; apply N.mul_div_le; lia).
    lia.
  - lia.
  - lia.
Qed.

(* the regression: a 33-byte image with offset_width = 0 divides by zero *)
Lemma suv_div_first_panics :
  suv_from_bytes_div_first (repeat 0 32) = Panic.
Proof. vm_compute. reflexivity. Qed.

(* ---------- get ---------- *)
Section Get.
  Variable s : suv.
  Hypothesis WF : suv_wf s.

  Notation B := (block_size s).
  Lemma B_range : 16 <= B <= 256.
  Proof. destruct WF as [[L1 L2 _ _ _ _] _ _ _]. apply pow2_4_8; assumption. Qed.

  Lemma size_small : sv_size s <= 2 ^ 60.
  Proof.
    destruct WF as [[_ _ O1 _ _ _] Hs Hd _].
    assert (sv_size s * 8 <= sv_size s * sv_ow s) by (apply N.mul_le_mono_l; exact O1).
    lia.
  Qed.

  Lemma num_blocks_good :
    good (fun nb => nb = (sv_size s + (B - 1)) / B) 0 (num_blocks s).
  Proof.
    unfold num_blocks. pose proof B_range. pose proof size_small. rewrite P60 in *.
    eapply good_bind_le with (b1 := 0) (b2 := 0); [apply add_usize_good; unfold W64; lia| |lia].
    intros t ->. apply good_ret. reflexivity.
  Qed.

  Lemma extract_bits_good data off w :
    off < W64 -> good (fun v => v < 2 ^ w) 0 (extract_bits data off w).
  Proof.
    intros Hoff. unfold extract_bits. unfold W64 in Hoff.
    destruct ((w =? 0) || (64 <? w)); [apply good_err|].
    eapply good_bind_le with (b1 := 0) (b2 := 0); [apply add_usize_good; unfold W64; lia| |lia].
    intros e _. destruct (nlen data <? e); [apply good_err|].
    apply good_ret. apply N.mod_lt. apply N.pow_nonzero. lia.
  Qed.

  Lemma get_block_min_val_good bi :
    good (fun v => v < 2 ^ sv_sw s) 0 (get_block_min_val s bi).
  Proof.
    unfold get_block_min_val. pose proof B_range as HB. pose proof size_small as HS.
    destruct WF as [[_ _ _ _ S1 S2] _ _ _].
    eapply good_bind_le with (b1 := 0) (b2 := 0); [apply num_blocks_good| |lia].
    intros nb ->.
    destruct (N.leb_spec ((sv_size s + (B - 1)) / B) bi) as [|Hbi]; [apply good_err|].
    rewrite P60 in HS.
    assert (Hm : bi * sv_sw s < 2 ^ 63).
    { assert (bi * sv_sw s <= bi * 64) by (apply N.mul_le_mono_l; exact S2).
      assert (B * ((sv_size s + (B - 1)) / B) <= sv_size s + (B - 1)) by (apply N.mul_div_le; lia).
      assert (B * (bi + 1) <= B * ((sv_size s + (B - 1)) / B)) by (apply N.mul_le_mono_l; lia).
      assert (16 * bi <= B * bi) by (apply N.mul_le_mono_r; lia).
      assert (2 ^ 63 = 9223372036854775808) by reflexivity. lia. }
    assert (2 ^ 63 = 9223372036854775808) by reflexivity.
    eapply good_bind_le with (b1 := 0) (b2 := 0); [apply mul_usize_good; unfold W64; lia| |lia].
    intros so ->.
    eapply good_bind_le with (b1 := 0) (b2 := 0); [apply add_usize_good; unfold W64; lia| |lia].
    intros e _. destruct (nlen (sv_index s) <? e); [apply good_err|].
    apply extract_bits_good. unfold W64. lia.
  Qed.

  (* the arithmetic of get_block_delta on plain variables *)
  Lemma delta_arith S O D bi Bv oi :
    S * O <= 8 * D -> D < 1152921504606846976 -> 8 <= O -> O <= 32 -> bi * Bv <= S -> oi <= 256 ->
    bi * Bv < W64 /\ bi * Bv * O < W64 /\ oi * O < W64 /\ bi * Bv * O + oi * O < 9223372036854775808 + 8192.
  Proof.
    intros H1 H2 H3 H4 H5 H6. unfold W64.
    assert (bi * Bv * O <= S * O) by (apply N.mul_le_mono_r; exact H5).
    assert (bi * Bv * 8 <= bi * Bv * O) by (apply N.mul_le_mono_l; exact H3).
    assert (oi * O <= 256 * 32) by (apply N.mul_le_mono; assumption).
    lia.
  Qed.

  Lemma get_block_delta_good bi oi :
    bi * B <= sv_size s -> oi <= 256 ->
    good (fun v => v < W32) 0 (get_block_delta s bi oi).
  Proof.
    intros Hbi Hoi. unfold get_block_delta.
    destruct WF as [[_ _ O1 O2 _ _] Hs Hd _]. rewrite P60 in Hd.
    destruct (delta_arith _ _ _ _ _ _ Hs Hd O1 O2 Hbi Hoi) as (A1 & A2 & A3 & A4).
    eapply good_bind_le with (b1 := 0) (b2 := 0); [apply mul_usize_good; exact A1| |lia]. intros a ->.
    eapply good_bind_le with (b1 := 0) (b2 := 0); [apply mul_usize_good; exact A2| |lia]. intros b ->.
    eapply good_bind_le with (b1 := 0) (b2 := 0); [apply mul_usize_good; exact A3| |lia]. intros c ->.
    eapply good_bind_le with (b1 := 0) (b2 := 0); [apply add_usize_good; unfold W64; lia| |lia]. intros d ->.
    eapply good_bind_le with (b1 := 0) (b2 := 0).
    - apply extract_bits_good. unfold W64. lia.
    - intros v _. apply good_ret. apply N.mod_lt. unfold W32. lia.
    - lia.
  Qed.

  Lemma add_value_fixed_good bm dl : good (fun v => v < W64) 0 (add_value true bm dl).
  Proof.
    unfold add_value. destruct (N.ltb_spec (bm + dl) W64); [apply good_ret; assumption | apply good_err].
  Qed.

  Lemma get_unchecked_good i :
    i < sv_size s -> good (fun v => v < W64) 0 (get_unchecked true s i).
  Proof.
    intros Hi. unfold get_unchecked. pose proof B_range as HB.
    eapply good_bind_le with (b1 := 0) (b2 := 0); [apply get_block_min_val_good| |lia]. intros bm _.
    eapply good_bind_le with (b1 := 0) (b2 := 0).
    - apply get_block_delta_good.
      + assert (B * (i / B) <= i) by (apply N.mul_div_le; lia). lia.
      + assert (i mod B < B) by (apply N.mod_lt; lia). lia.
    - intros dl _. apply add_value_fixed_good.
    - lia.
  Qed.

  Lemma suv_get_good i : good (fun v => v < W64) 0 (suv_get true s i).
  Proof.
    unfold suv_get. destruct (N.leb_spec (sv_size s) i); [apply good_err | apply get_unchecked_good; assumption].
  Qed.

  Lemma suv_get2_good i : good (fun '(a, b) => a < W64 /\ b < W64) 0 (suv_get2 true s i).
  Proof.
    unfold suv_get2. pose proof size_small as HS. rewrite P60 in HS.
    destruct (N.leb_spec (sv_size s) i); [apply good_err|].
    eapply good_bind_le with (b1 := 0) (b2 := 0); [apply add_usize_good; unfold W64; lia| |lia]. intros i1 ->.
    destruct (N.leb_spec (sv_size s) (i + 1)); [apply good_err|].
    eapply good_bind_le with (b1 := 0) (b2 := 0); [apply get_unchecked_good; assumption| |lia]. intros v1 H1.
    eapply good_bind_le with (b1 := 0) (b2 := 0); [apply get_unchecked_good; assumption| |lia]. intros v2 H2.
    apply good_ret. split; assumption.
  Qed.

  Lemma block_loop_good bi bm : bi * B <= sv_size s ->
    forall n i, i + N.of_nat n <= 256 -> good (fun _ => True) 0 (block_loop s bi bm n i).
  Proof.
    intros Hbi. induction n as [|n IH]; intros i Hi; cbn [block_loop].
    - apply good_ret. exact I.
    - eapply good_bind_le with (b1 := 0) (b2 := 0); [apply get_block_delta_good; [exact Hbi|lia]| |lia]. intros dl _.
      eapply good_bind_le with (b1 := 0) (b2 := 0); [apply add_value_fixed_good| |lia]. intros _ _.
      apply IH. lia.
  Qed.

  Lemma suv_get_block_good bi out_len : good (fun _ => True) 0 (suv_get_block s bi out_len).
  Proof.
    unfold suv_get_block. pose proof B_range as HB. pose proof size_small as HS. rewrite P60 in HS.
    eapply good_bind_le with (b1 := 0) (b2 := 0); [apply num_blocks_good| |lia]. intros nb ->.
    destruct (N.leb_spec ((sv_size s + (B - 1)) / B) bi) as [|Hbi]; [apply good_err|].
    destruct (out_len <? B); [apply good_err|].
    (* bi < ceil(size / B), so bi * B < size *)
    assert (Hstart : bi * B < sv_size s).
    { assert (bi + 1 <= (sv_size s + (B - 1)) / B) by lia.
      assert (B * ((sv_size s + (B - 1)) / B) <= sv_size s + (B - 1)) by (apply N.mul_div_le; lia).
      assert (B * (bi + 1) <= B * ((sv_size s + (B - 1)) / B)) by (apply N.mul_le_mono_l; assumption).
      lia. }
    eapply good_bind_le with (b1 := 0) (b2 := 0); [apply get_block_min_val_good| |lia]. intros bm _.
    eapply good_bind_le with (b1 := 0) (b2 := 0); [apply mul_usize_good; unfold W64; lia| |lia]. intros st ->.
    eapply good_bind_le with (b1 := 0) (b2 := 0); [apply add_usize_good; unfold W64; lia| |lia]. intros e0 ->.
    eapply good_bind_le with (b1 := 0) (b2 := 0); [apply sub_usize_good; lia| |lia]. intros act ->.
    apply block_loop_good; [lia|]. rewrite N2Nat.id. lia.
  Qed.
End Get.

Lemma suv_probe_good s : suv_wf s -> forall is, good (fun _ => True) 0 (suv_probe s is).
Proof.
  intros WF. induction is as [|i rest IH]; cbn [suv_probe]; [apply good_ret; exact I|].
  eapply good_bind_le with (b1 := 0) (b2 := 0); [| |lia].
  - eapply or_neg1_good with (P := fun _ => True). unfold zN.
    eapply good_bind_le with (b1 := 0) (b2 := 0); [apply suv_get_good; exact WF| |lia].
    intros v _. apply good_ret. exact I.
  - intros a _. eapply good_bind_le with (b1 := 0) (b2 := 0); [| |lia].
    + eapply or_neg1_good with (P := fun _ => True). unfold zN.
      eapply good_bind_le with (b1 := 0) (b2 := 0); [| |lia].
      * eapply good_bind_le with (b1 := 0) (b2 := 0); [apply suv_get2_good; exact WF| |lia].
        intros [x y] _. apply (good_ret (fun _ => True)). exact I.
      * intros v _. apply good_ret. exact I.
    + intros b _. eapply good_bind_le with (b1 := 0) (b2 := 0); [apply IH| |lia].
      intros vs _. apply good_ret. exact I.
Qed.

Lemma ok01_good (r : res unit) b : good (fun _ => True) b r -> good (fun _ => True) b (ok01 r).
Proof. destruct r; cbn; intros H; [destruct H; split; [exact I|assumption] | split; [exact I|assumption] | assumption]. Qed.

Lemma suv_cell_good bytes : nlen bytes < 2 ^ 60 -> good (fun _ => True) (nlen bytes) (suv_cell bytes).
Proof.
  intros Hlen. unfold suv_cell.
  eapply good_bind_le with (b2 := 0); [apply suv_from_bytes_good; exact Hlen| |lia].
  intros s [WF _].
  eapply good_bind_le with (b1 := 0) (b2 := 0); [apply suv_probe_good; exact WF| |lia]. intros vs _.
  eapply good_bind_le with (b1 := 0) (b2 := 0); [apply ok01_good, suv_get_block_good; exact WF| |lia]. intros g _.
  apply good_ret. exact I.
Qed.

(* before the repair: block_min + delta overflows for a 64-bit sample *)
Definition suv_overflow_image : list N :=
  [1; 0; 0; 0; 0; 0; 0; 0; 6; 8; 64; 0; 0; 0; 0; 0; 8; 0; 0; 0; 0; 0; 0; 0; 1; 0; 0; 0; 0; 0; 0; 0;
   255; 255; 255; 255; 255; 255; 255; 255; 1].
Lemma suv_get_unfixed_panics :
  (s <- suv_from_bytes suv_overflow_image ;; suv_get false s 0) = Panic.
Proof. vm_compute. reflexivity. Qed.
Lemma suv_get_fixed_errs :
  (s <- suv_from_bytes suv_overflow_image ;; suv_get true s 0) = Err 9.
Proof. vm_compute. reflexivity. Qed.

(* ---------- ZipOffsetBlobStore ---------- *)
Record zs_wf (z : zstore) : Prop := mkZsWf {
  zw_offs : suv_wf (zs_offsets z);
  zw_content : nlen (zs_content z) < 2 ^ 60 }.

Lemma firstn_nlen {A} (l : list A) n : n <= nlen l -> nlen (firstn (N.to_nat n) l) = n.
Proof. intros H. rewrite nlen_length in *. rewrite firstn_length. lia. Qed.
Lemma skipn_nlen {A} (l : list A) n : nlen (skipn (N.to_nat n) l) = nlen l - n.
Proof. rewrite !nlen_length, skipn_length. lia. Qed.
Lemma skipn_nlen_nat {A} (l : list A) n : nlen (skipn n l) = nlen l - N.of_nat n.
Proof. rewrite !nlen_length, skipn_length. lia. Qed.

Lemma zo_load_good bytes :
  nlen bytes < 2 ^ 60 ->
  good (fun z => zs_wf z /\ nlen (zs_content z) <= nlen bytes) (2 * nlen bytes + 16) (zo_load bytes).
Proof.
  intros Hlen. unfold zo_load.
  destruct (N.ltb_spec (nlen bytes) 128) as [|H128]; [apply good_err_le; lia|].
  destruct (eqb_ln (sub_bytes bytes 0 20) MAGIC); cbn [negb]; [|apply good_err_le; lia].
  destruct (eqb_ln (sub_bytes bytes 20 20) CLASS); cbn [negb]; [|apply good_err_le; lia].
  destruct ((le64_at bytes 56 / 2 ^ 48) mod 65536 =? 1); cbn [negb]; [|apply good_err_le; lia].
  destruct (22 <? byte_at bytes 82); [apply good_err_le; lia|].
  destruct (3 <? byte_at bytes 81); [apply good_err_le; lia|].
  destruct (cfg_valid (byte_at bytes 80) 16 32); cbn [negb]; [|apply good_err_le; lia].
  set (cb := le64_at bytes 64). set (ob := le64_at bytes 72).
  set (rest := skipn 128 bytes).
  assert (Hrest : nlen rest = nlen bytes - 128) by (unfold rest; rewrite skipn_nlen_nat; reflexivity).
  set (got := N.min cb (nlen rest)).
  assert (Hgot : got <= nlen rest) by (unfold got; lia).
  rewrite P60 in Hlen.
  eapply good_bind_le with (b1 := got) (b2 := 2 * nlen bytes + 16 - got);
    [apply reserve_good, W60_lt_ISIZE; rewrite P60; lia| |lia]. intros _ _.
  destruct (got =? cb); cbn [negb]; [|apply good_err_le; lia].
  eapply good_bind_le with (b1 := got) (b2 := 2 * nlen bytes + 16 - 2 * got);
    [apply reserve_good, W60_lt_ISIZE; rewrite P60; lia| |lia]. intros _ _.
  set (rest1 := skipn (N.to_nat got) rest).
  assert (Hrest1 : nlen rest1 = nlen rest - got) by (unfold rest1; apply skipn_nlen).
  set (pad := (16 - cb mod 16) mod 16).
  assert (Hpad : pad < 16) by (unfold pad; apply N.mod_lt; lia).
  eapply good_bind_le with (b1 := pad) (b2 := 2 * nlen bytes + 16 - 2 * got - pad);
    [apply reserve_good, W60_lt_ISIZE; rewrite P60; lia| |lia]. intros _ _.
  destruct (N.ltb_spec (nlen rest1) pad) as [|Hp]; [apply good_err_le; lia|].
  set (rest2 := skipn (N.to_nat pad) rest1).
  assert (Hrest2 : nlen rest2 = nlen rest1 - pad) by (unfold rest2; apply skipn_nlen).
  set (got2 := N.min ob (nlen rest2)).
  assert (Hgot2 : got2 <= nlen rest2) by (unfold got2; lia).
  eapply good_bind_le with (b1 := got2) (b2 := 2 * nlen bytes + 16 - 2 * got - pad - got2);
    [apply reserve_good, W60_lt_ISIZE; rewrite P60; lia| |lia]. intros _ _.
  destruct (got2 =? ob); cbn [negb]; [|apply good_err_le; lia].
  assert (Himg : nlen (firstn (N.to_nat got2) rest2) = got2) by (apply firstn_nlen; exact Hgot2).
  eapply good_bind_le with (b1 := got2) (b2 := 0).
  - eapply good_weaken; [apply suv_from_bytes_good; rewrite Himg, P60; lia | intros a H; exact H | rewrite Himg; lia].
  - intros offs [WF _].
    match goal with |- context [if ?c then _ else _] => destruct c end; [apply good_err|].
    apply good_ret.
    assert (Hc : nlen (firstn (N.to_nat got) rest) = got) by (apply firstn_nlen; exact Hgot).
    split; [constructor; cbn [zs_offsets zs_content]; [exact WF | rewrite Hc, P60; lia] | cbn [zs_content]; lia].
  - lia.
Qed.

Lemma zo_get_good z id : zs_wf z ->
  good (fun v => v = WILD \/ (0 <= v <= Z.of_N (nlen (zs_content z)))%Z) (nlen (zs_content z)) (zo_get z id).
Proof.
  intros [WF Hc]. unfold zo_get.
  destruct (zs_len z <=? id); [apply good_err_le; lia|].
  eapply good_bind_le with (b1 := 0) (b2 := nlen (zs_content z)); [apply suv_get2_good; exact WF| |lia].
  intros [s e] _.
  destruct (N.ltb_spec e s) as [|Hse]; cbn [orb]; [apply good_err_le; lia|].
  destruct (N.ltb_spec (nlen (zs_content z)) e) as [|He]; [apply good_err_le; lia|].
  eapply good_bind_le with (b1 := 0) (b2 := nlen (zs_content z)); [apply sub_usize_good; exact Hse| |lia].
  intros len0 ->.
  set (ck := if (zs_checksum z =? 2) || (zs_checksum z =? 3) then 4 else 0).
  destruct (N.ltb_spec (e - s) ck) as [|Hck]; [apply good_err_le; lia|].
  eapply good_bind_le with (b1 := 0) (b2 := nlen (zs_content z)); [apply sub_usize_good; exact Hck| |lia].
  intros len1 ->.
  match goal with |- context [if ?c then Err 0 else _] => destruct c end; [apply good_err_le; lia|].
  destruct (0 <? zs_compress z); [apply good_ret_le; left; reflexivity|].
  eapply good_bind_le with (b1 := e - s - ck) (b2 := 0); [apply reserve_good, W60_lt_ISIZE; lia| |lia].
  intros _ _. apply good_ret. right. lia.
Qed.

Lemma zo_probe_good z : zs_wf z ->
  forall ids, good (fun _ => True) (nlen ids * nlen (zs_content z)) (zo_probe z ids).
Proof.
  intros WF. induction ids as [|id rest IH]; cbn [zo_probe nlen]; [apply good_ret_le; exact I|].
  eapply good_bind_le with (b1 := nlen (zs_content z)) (b2 := nlen rest * nlen (zs_content z));
    [eapply or_neg1_good; apply zo_get_good; exact WF| |lia].
  intros a _. eapply good_bind_le with (b2 := 0); [apply IH| |lia].
  intros vs _. apply good_ret. exact I.
Qed.

Lemma zo_cell_good bytes : nlen bytes < 2 ^ 60 -> good (fun _ => True) (6 * nlen bytes + 16) (zo_cell bytes).
Proof.
  intros Hlen. unfold zo_cell.
  eapply good_bind_le with (b2 := 4 * nlen bytes); [apply zo_load_good; exact Hlen| |lia].
  intros z [WF Hc].
  eapply good_bind_le with (b2 := 0); [apply zo_probe_good; exact WF| |cbn [nlen]; lia].
  intros vs _. apply good_ret. exact I.
Qed.

(* the padding skip: the code's expression is below 16 and keeps the file 16-byte aligned; the seeded
   variant asks for 16 bytes after an already aligned section *)
Lemma pad_expr cb : (16 - cb mod 16) mod 16 < 16 /\ (cb + (16 - cb mod 16) mod 16) mod 16 = 0.
Proof.
  assert (cb mod 16 < 16) by (apply N.mod_lt; lia).
  split; [apply N.mod_lt; lia|].
  destruct (N.eq_dec (cb mod 16) 0) as [E|E].
  - rewrite E. change ((16 - 0) mod 16) with 0. rewrite N.add_0_r. exact E.
  - rewrite (N.mod_small (16 - cb mod 16)) by lia.
    rewrite (N.div_mod cb 16) at 1 by lia.
    replace (16 * (cb / 16) + cb mod 16 + (16 - cb mod 16)) with (16 * (cb / 16 + 1)) by lia.
    rewrite N.mul_comm. apply N.mod_mul. lia.
Qed.
Lemma pad_regressed_differs : pad_regressed 32 = 16 /\ (16 - 32 mod 16) mod 16 = 0.
Proof. split; reflexivity. Qed.
