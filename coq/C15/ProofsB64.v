(* C15: the Base64 decoding model is total: no panic, reserves 3 bytes per 4 input bytes (rounded up),
   the output is no longer than the input. *)
From ZV.Common Require Import Base Run.
From ZV.C15 Require Import Model ProofsCore ModelBlob ProofsBlob ModelB64.
Open Scope N_scope.

Lemma b64_quads_good_n : forall (n : nat) vals, (length vals <= n)%nat ->
  good (fun out => nlen out <= nlen vals) 0 (b64_quads vals).
Proof.
  induction n as [|n IH]; intros vals Hn.
  - destruct vals; [|cbn in Hn; lia]. cbn. split; [cbn; lia|lia].
  - destruct vals as [|a [|b [|c [|d rest]]]]; cbn [b64_quads].
    + apply good_ret. cbn [nlen]. lia.
    + apply good_err.
    + destruct (b mod 16 =? 0); [apply good_ret; cbn [nlen]; lia | apply good_err].
    + destruct (c mod 4 =? 0); [apply good_ret; cbn [nlen]; lia | apply good_err].
    + eapply good_bind_le with (b1 := 0) (b2 := 0); [apply IH; cbn [length] in Hn; lia| |lia].
      intros out Ho. apply good_ret. cbn [nlen] in *. cbn beta in Ho. lia.
Qed.

Lemma b64_vals_len url : forall body vals, b64_vals url body = Some vals -> nlen vals = nlen body.
Proof.
  induction body as [|c r IH]; intros vals H; cbn [b64_vals] in H.
  - injection H as <-. reflexivity.
  - destruct (b64_val url c); [|discriminate]. destruct (b64_vals url r) as [vs|] eqn:E; [|discriminate].
    injection H as <-. cbn [nlen]. rewrite (IH vs eq_refl). reflexivity.
Qed.
Lemma strip_pad_len : forall rdata n np rb, strip_pad rdata n = (np, rb) -> nlen rb <= nlen rdata.
Proof.
  induction rdata as [|x r IH]; intros n np rb H.
  - cbn [strip_pad] in H. injection H as _ <-. lia.
  - destruct (N.eq_dec x 61) as [->|Hx].
    + cbn [strip_pad] in H. apply IH in H. cbn [nlen]. lia.
    + assert (Hs : strip_pad (x :: r) n = (n, x :: r)).
      { destruct x as [|p]; [reflexivity|]. cbn [strip_pad].
        repeat (destruct p as [p|p|]; try reflexivity). exfalso. apply Hx. reflexivity. }
      rewrite Hs in H. injection H as _ <-. lia.
Qed.

Lemma b64_dec_good cfg data : nlen data < 2 ^ 60 ->
  good (fun out => nlen out <= nlen data) ((nlen data + 3) / 4 * 3) (b64_dec cfg data).
Proof.
  intros Hlen. unfold b64_dec, frev. rewrite <- !rev_alt. destruct (strip_pad (rev data) 0) as [npad rbody] eqn:Es.
  pose proof (strip_pad_len _ _ _ _ Es) as Hrb. rewrite !nlen_length, rev_length in Hrb. rewrite <- !nlen_length in Hrb.
  rewrite P60 in Hlen.
  eapply good_bind_le with (b1 := (nlen data + 3) / 4 * 3) (b2 := 0).
  - apply reserve_good. unfold ISIZE_MAX, W63. lia.
  - intros _ _. rewrite <- rev_alt. destruct (b64_vals (N.odd cfg) (rev rbody)) as [vals|] eqn:Ev; [|apply good_err].
    apply b64_vals_len in Ev. rewrite !nlen_length, rev_length in Ev. rewrite <- !nlen_length in Ev.
    destruct (_ =? 1); [apply good_err|]. destruct (2 <? npad); [apply good_err|].
    destruct (negb _); [apply good_err|].
    eapply good_weaken; [apply b64_quads_good_n with (n := length vals); lia | | lia].
    intros out Ho. cbn beta in Ho. lia.
  - lia.
Qed.
