(* C15: read_vec reserves no more than the bytes that are really there plus one chunk - from the start
   and from every intermediate state of its loop ("whatever chunk has already arrived"). *)
From ZV.Common Require Import Base Run.
From ZV.C15 Require Import Model ProofsCore ModelBlob ProofsBlob ModelIo2.
Open Scope N_scope.

Lemma grow_to_good cap need :
  need <= ISIZE_MAX -> good (fun c => c = N.max cap need) (need - cap) (grow_to cap need).
Proof.
  intros H. unfold grow_to. destruct (N.ltb_spec cap need).
  - destruct (N.ltb_spec ISIZE_MAX need); [lia|]. cbn. split; lia.
  - apply good_ret_le. lia.
Qed.

(* slack = cap - got is what has been reserved beyond the bytes read so far *)
Lemma read_vec_loop_g_good : forall fuel len got cap rest acc,
  got <= cap -> cap <= got + CHUNK -> got + nlen rest + CHUNK <= ISIZE_MAX ->
  good (fun '(v, rest') => nlen rest' <= nlen rest) (nlen rest + CHUNK - (cap - got))
       (read_vec_loop_g false fuel len got cap rest acc).
Proof.
  induction fuel as [|f IH]; intros len got cap rest acc H1 H2 H3; cbn [read_vec_loop_g andb].
  - destruct (len <=? got); [apply good_ret_le; lia | apply good_err_le; lia].
  - destruct (N.leb_spec len got) as [|Hlt]; [apply good_ret_le; lia|].
    set (step := N.min (len - got) CHUNK).
    assert (Hs : step <= CHUNK) by (unfold step; lia).
    assert (Hs0 : 0 < step) by (unfold step, CHUNK; lia).
    assert (HI : ISIZE_MAX < W64) by (unfold ISIZE_MAX, W63, W64; lia).
    eapply good_bind_le with (b1 := 0) (b2 := nlen rest + CHUNK - (cap - got));
      [apply (good_ret (fun c => c = cap)); reflexivity| |lia].
    intros cap0 ->.
    eapply good_bind_le with (b1 := 0) (b2 := nlen rest + CHUNK - (cap - got));
      [apply add_usize_good; lia| |lia].
    intros need ->.
    destruct (N.ltb_spec (nlen rest) step) as [Hshort|Hok].
    + (* the failing chunk: its growth is the last reservation *)
      eapply good_bind_le with (b1 := got + step - cap) (b2 := 0); [apply grow_to_good; lia| |lia].
      intros c _. destruct (nlen rest <? step) eqn:E; [apply good_err|apply N.ltb_ge in E; lia].
    + eapply good_bind_le with (b1 := got + step - cap)
                               (b2 := nlen rest - step + CHUNK - (N.max cap (got + step) - (got + step)));
        [apply grow_to_good; lia| |lia].
      intros c ->. destruct (nlen rest <? step) eqn:E; [apply N.ltb_lt in E; lia|].
      assert (Hr : nlen (skipn (N.to_nat step) rest) = nlen rest - step) by apply skipn_nlen.
      eapply good_weaken; [apply IH| |].
      * lia.
      * lia.
      * rewrite Hr. lia.
      * intros [v r']. rewrite Hr. lia.
      * rewrite Hr. lia.
Qed.

Lemma read_vec_g_good len rest :
  nlen rest < 2 ^ 60 ->
  good (fun '(v, rest') => nlen rest' <= nlen rest) (nlen rest + CHUNK) (read_vec_g false len rest).
Proof.
  intros Hlen. unfold read_vec_g. rewrite P60 in Hlen.
  assert (HC : CHUNK <= ISIZE_MAX) by (unfold CHUNK, ISIZE_MAX, W63; lia).
  eapply good_bind_le with (b1 := N.min len CHUNK) (b2 := nlen rest + CHUNK - (N.min len CHUNK - 0)).
  - change (with_capacity (N.min len CHUNK) 1) with (reserve (N.min len CHUNK)). apply reserve_good. lia.
  - intros _ _. apply read_vec_loop_g_good; [lia | lia | unfold ISIZE_MAX, W63, CHUNK; lia].
  - lia.
Qed.

Lemma sdi_lp_bytes_g_good data :
  nlen data < 2 ^ 60 -> good (fun _ => True) (nlen data + CHUNK) (sdi_lp_bytes_g false data).
Proof.
  intros Hlen. unfold sdi_lp_bytes_g.
  eapply good_bind_le with (b1 := 0) (b2 := nlen data + CHUNK); [apply leb_u_ok| |lia]. intros [len n] Hn.
  eapply good_bind_le with (b1 := 0) (b2 := nlen data + CHUNK); [apply advance_good; blia| |lia]. intros rest Hr.
  cbn beta iota in Hn, Hr.
  eapply good_bind_le with (b1 := nlen rest + CHUNK) (b2 := 0); [apply read_vec_g_good; lia| |lia].
  intros [v rest'] _. apply good_ret. exact I.
Qed.

(* the seeded change: 2^40 declared, one chunk present -> 1 TiB requested; 2^63 declared -> capacity overflow *)
Definition lying_input (prefix : list N) : list N := prefix ++ repeat 97 (N.to_nat 65536).
Lemma read_vec_regressed_allocates :
  alloc_of (sdi_lp_bytes_g true (lying_input [128; 128; 128; 128; 128; 32])) = 2 ^ 40.
Proof. vm_compute. reflexivity. Qed.
Lemma read_vec_regressed_panics :
  sdi_lp_bytes_g true (lying_input [128; 128; 128; 128; 128; 128; 128; 128; 128; 1]) = Panic.
Proof. vm_compute. reflexivity. Qed.
Lemma read_vec_fixed_on_witness :
  sdi_lp_bytes_g false (lying_input [128; 128; 128; 128; 128; 32]) = Err 131072.
Proof. vm_compute. reflexivity. Qed.
