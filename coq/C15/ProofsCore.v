(* C15: the outcome monad's compositional reasoning rule, LEB128 and element decoders,
   the generic count-prefixed sequence decoder. *)
From ZV.Common Require Import Base.
From ZV.C15 Require Import Model.
Open Scope N_scope.

Lemma good_ret {A} (P : A -> Prop) (a : A) : P a -> good P 0 (ret a).
Proof. intros H. cbn. split; [assumption|lia]. Qed.

Lemma good_err {A} (P : A -> Prop) b : good P b (@Err A 0).
Proof. cbn. lia. Qed.

Lemma good_bind {A B} (P : A -> Prop) (Q : B -> Prop) b1 b2 (m : res A) (f : A -> res B) :
  good P b1 m -> (forall a, P a -> good Q b2 (f a)) -> good Q (b1 + b2) (bind m f).
Proof.
  intros Hm Hf. destruct m as [a n| n |]; cbn in *.
  - destruct Hm as [Pa Hn]. specialize (Hf a Pa). destruct (f a) as [b k | k |]; cbn in *.
    + destruct Hf; split; [assumption|lia].
    + lia.
    + assumption.
  - lia.
  - assumption.
Qed.

Lemma good_weaken {A} (P P' : A -> Prop) b b' (r : res A) :
  good P b r -> (forall a, P a -> P' a) -> b <= b' -> good P' b' r.
Proof.
  intros H HP Hb. destruct r; cbn in *; [destruct H; split; [auto|lia] | lia | assumption].
Qed.

Lemma good_no_panic {A} (P : A -> Prop) b (r : res A) : good P b r -> no_panic r.
Proof. intros H E. rewrite E in H. exact H. Qed.

Lemma good_alloc {A} (P : A -> Prop) b (r : res A) : good P b r -> alloc_of r <= b.
Proof. destruct r; cbn; intros H; [destruct H; assumption | assumption | lia]. Qed.

Ltac blia := cbn beta iota in *; lia.

(* ---------- primitives ---------- *)
Lemma shl64_good x s : s < 64 -> good (fun _ => True) 0 (shl64 x s).
Proof.
  intros H. unfold shl64. destruct (N.ltb_spec s 64); [|lia]. apply good_ret. exact I.
Qed.

Lemma advance_good data n :
  n <= nlen data -> good (fun rest => nlen rest = nlen data - n) 0 (advance data n).
Proof.
  intros H. unfold advance. destruct (N.leb_spec n (nlen data)); [|lia].
  apply good_ret. rewrite !nlen_length, skipn_length. lia.
Qed.

Lemma with_capacity_good n sz :
  n * sz <= ISIZE_MAX -> good (fun _ => True) (n * sz) (with_capacity n sz).
Proof.
  intros H. unfold with_capacity. destruct (N.ltb_spec ISIZE_MAX (n * sz)); [lia|].
  cbn. split; [exact I|lia].
Qed.

Lemma check_count_good count remaining :
  good (fun _ => count <= remaining) 0 (check_count count remaining).
Proof.
  unfold check_count. destruct (N.ltb_spec remaining count).
  - apply good_err.
  - apply good_ret. assumption.
Qed.

(* ---------- element decoders: no panic, no reservation, consume between 1 and len bytes ---------- *)

Lemma leb_go_good data : forall shift acc n,
  good (fun '(_, k) => n + 1 <= k <= n + nlen data) 0 (leb_go data shift acc n).
Proof.
  induction data as [|b rest IH]; intros shift acc n; cbn [leb_go].
  - apply good_err.
  - destruct (N.leb_spec 64 shift) as [Hs|Hs]; [apply good_err|].
    change 0 with (0 + 0) at 1.
    eapply good_bind; [apply shl64_good; assumption|].
    intros v _. destruct (b <? 128).
    + apply good_ret. cbn [nlen]. lia.
    + eapply good_weaken; [apply IH| |lia].
      intros [v' k]. cbn [nlen]. lia.
Qed.

Lemma leb_u_ok : elem_ok leb_u.
Proof.
  intros data. unfold leb_u. eapply good_weaken; [apply leb_go_good| |lia].
  intros [v k]. lia.
Qed.

Lemma leb_s_go_good data : forall shift acc n,
  good (fun '(_, k) => n + 1 <= k <= n + nlen data) 0 (leb_s_go data shift acc n).
Proof.
  induction data as [|b rest IH]; intros shift acc n; cbn [leb_s_go].
  - apply good_err.
  - destruct (N.leb_spec 64 shift) as [Hs|Hs]; [apply good_err|].
    change 0 with (0 + 0) at 1.
    eapply good_bind; [apply shl64_good; assumption|].
    intros v _. destruct (b <? 128).
    + apply good_ret. cbn [nlen]. lia.
    + eapply good_weaken; [apply IH| |lia].
      intros [v' k]. cbn [nlen]. lia.
Qed.

Lemma leb_s_ok : elem_ok leb_s.
Proof.
  intros data. unfold leb_s. eapply good_weaken; [apply leb_s_go_good| |lia].
  intros [v k]. lia.
Qed.

Lemma map_elem_ok {V W} (f : V -> W) (elem : list N -> res (V * N)) :
  elem_ok elem -> elem_ok (fun data => '(v, n) <- elem data ;; ret (f v, n)).
Proof.
  intros H data. change 0 with (0 + 0) at 1.
  eapply good_bind; [apply H|]. intros [v k] Hk. apply good_ret. exact Hk.
Qed.

Lemma u_elem_ok : elem_ok u_elem.
Proof. exact (map_elem_ok Z.of_N leb_u leb_u_ok). Qed.
Lemma zz_elem_ok : elem_ok zz_elem.
Proof. exact (map_elem_ok zz_dec leb_u leb_u_ok). Qed.

Lemma pf_u_ok : elem_ok pf_u.
Proof.
  intros data. unfold pf_u. destruct data as [|l rest]; [apply good_err|].
  destruct ((l =? 0) || (8 <? l)) eqn:E1; [apply good_err|].
  destruct (N.ltb_spec (nlen (l :: rest)) (1 + l)); [apply good_err|].
  apply good_ret. cbn beta iota. lia.
Qed.
Lemma pf_elem_ok : elem_ok pf_elem.
Proof. exact (map_elem_ok Z.of_N pf_u pf_u_ok). Qed.
Lemma pf_s_elem_ok : elem_ok pf_s_elem.
Proof. exact (map_elem_ok zz_dec pf_u pf_u_ok). Qed.

(* ---------- the generic sequence loop ---------- *)
Lemma seq_loop_good (elem : list N -> res (Z * N)) :
  elem_ok elem ->
  forall fuel rest, good (fun vs => nlen vs <= nlen rest) 0 (seq_loop elem fuel rest).
Proof.
  intros He. induction fuel as [|f IH]; intros rest; cbn [seq_loop].
  - apply good_ret. cbn [nlen]. blia.
  - change 0 with (0 + (0 + (0 + 0))) at 1.
    eapply good_bind; [apply He|]. intros [v k] Hk. cbn beta iota in Hk.
    eapply good_bind; [apply advance_good; blia|]. intros rest' Hr.
    eapply good_bind; [apply IH|]. intros vs Hvs.
    apply good_ret. cbn [nlen]. blia.
Qed.

Lemma seq_dec_good (elem : list N -> res (Z * N)) data :
  elem_ok elem -> nlen data < 2 ^ 60 ->
  good (fun vs => nlen vs <= nlen data) (8 * nlen data) (seq_dec true elem data).
Proof.
  intros He Hlen. unfold seq_dec.
  eapply good_weaken with (b := 0 + (0 + (0 + (8 * nlen data + 0)))); [| intros a H; exact H | lia].
  eapply good_bind; [apply leb_u_ok|]. intros [count cb] Hcb. cbn beta iota in Hcb.
  eapply good_bind; [apply advance_good; blia|]. intros rest Hr.
  eapply good_bind; [apply check_count_good|]. intros u Hc.
  eapply good_bind.
  - eapply good_weaken; [apply with_capacity_good| intros a H; exact H |].
    + unfold ISIZE_MAX. rewrite W63_eq.
      assert (2 ^ 60 * 8 = 2 ^ 63) by reflexivity. blia.
    + blia.
  - intros _ _. eapply good_weaken; [apply seq_loop_good; assumption| |lia].
    intros vs Hvs. cbn beta in *. blia.
Qed.

(* the same decoder without check_sequence_count (the code before fix 1bc03e1) *)
Lemma seq_dec_unchecked_panics :
  seq_dec false u_elem [255; 255; 255; 255; 255; 255; 255; 255; 255; 1] = Panic.
Proof. vm_compute. reflexivity. Qed.
Lemma seq_dec_unchecked_allocates :
  alloc_of (seq_dec false u_elem [128; 128; 128; 128; 128; 64]) = 2 ^ 44.
Proof. vm_compute. reflexivity. Qed.
