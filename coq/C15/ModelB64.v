(* C15 mechanism model, Base64 decoding (src/system/base64.rs AdaptiveBase64::decode): a thin wrapper
   over the `base64` crate (0.22) with one of four engines - STANDARD, URL_SAFE (padding required and
   canonical), STANDARD_NO_PAD, URL_SAFE_NO_PAD (padding refused).  The crate is outside the repository;
   the model states what the wrapper relies on (RFC 4648 with the crate's strictness: no byte outside
   the alphabet, `=` only as canonical trailing padding, no symbol count of 1 mod 4, unused bits of the
   last symbol zero) and the correspondence check holds the compiled code against it.
   Definitions only. *)
From ZV.Common Require Import Base Run.
From ZV.C15 Require Import Model ModelBlob.
Open Scope N_scope.

Definition b64_val (url : bool) (c : N) : option N :=
  if (65 <=? c) && (c <=? 90) then Some (c - 65)
  else if (97 <=? c) && (c <=? 122) then Some (c - 71)
  else if (48 <=? c) && (c <=? 57) then Some (c + 4)
  else if url then (if c =? 45 then Some 62 else if c =? 95 then Some 63 else None)
  else (if c =? 43 then Some 62 else if c =? 47 then Some 63 else None).

(* List.rev is quadratic; the case files contain inputs of 200 000 bytes *)
Definition frev {A} (l : list A) : list A := rev_append l [].
Fixpoint strip_pad (rdata : list N) (n : N) : N * list N :=
  match rdata with
  | 61 :: r => strip_pad r (n + 1)
  | _ => (n, rdata)
  end.
Fixpoint b64_vals (url : bool) (body : list N) : option (list N) :=
  match body with
  | [] => Some []
  | c :: r => match b64_val url c, b64_vals url r with
              | Some v, Some vs => Some (v :: vs)
              | _, _ => None
              end
  end.
Fixpoint b64_quads (vals : list N) : res (list N) :=
  match vals with
  | a :: b :: c :: d :: rest =>
      out <- b64_quads rest ;;
      ret ((a * 4 + b / 16) :: ((b mod 16) * 16 + c / 4) :: ((c mod 4) * 64 + d) :: out)
  | [a; b; c] => if c mod 4 =? 0 then ret [a * 4 + b / 16; (b mod 16) * 16 + c / 4] else Err 0
  | [a; b] => if b mod 16 =? 0 then ret [a * 4 + b / 16] else Err 0
  | [_] => Err 0
  | [] => ret []
  end.
(* cfg: bit 0 = url-safe alphabet, bit 1 = no padding *)
Definition b64_dec (cfg : N) (data : list N) : res (list N) :=
  let url := N.odd cfg in
  let nopad := 2 <=? cfg in
  let '(npad, rbody) := strip_pad (frev data) 0 in
  let body := frev rbody in
  _ <- reserve ((nlen data + 3) / 4 * 3) ;;
  match b64_vals url body with
  | None => Err 0
  | Some vals =>
      let r := nlen body mod 4 in
      if r =? 1 then Err 0 else
      if 2 <? npad then Err 0 else
      if negb (npad =? (if nopad then 0 else (4 - r) mod 4)) then Err 0 else
      b64_quads vals
  end.
