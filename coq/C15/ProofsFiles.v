(* C15: MmapVec::open, ZReorderMap::open, Dictionary::deserialize and SimdLz77 decompress are total.
   - an opened MmapVec only ever addresses bytes of its file: 80 + len * 8 <= file length;
   - an opened ZReorderMap has no empty run and its runs sum to exactly `size` (the iterator's
     `seq_length -= 1` never underflows and it stops with the last run);
   - Dictionary::deserialize reserves no more than the bytes present;
   - SimdLz77 decompress: no division by zero / underflow in copy_backward_reference, output within the
     100 MiB limit. *)
From ZV.Common Require Import Base Run.
From ZV.C15 Require Import Model ProofsCore ProofsPz ModelBlob ProofsBlob ModelFiles.
Open Scope N_scope.

(* ---------- MmapVec ---------- *)
Lemma mv_open_in_bounds f len xs :
  M19.mv_open 8 f = Some (len, xs) -> M19.MV_HEADER + len * 8 <= nlen f.
Proof.
  unfold M19.mv_open. destruct (M19.mv_hdr_ok 8 (M19.mv_parse f) && M19.mv_len_ok 8 (M19.mv_parse f) (nlen f)) eqn:E; [|discriminate].
  intros H. injection H as <- _. apply andb_true_iff in E. destruct E as [E1 E2].
  unfold M19.mv_hdr_ok in E1. unfold M19.mv_len_ok in E2.
  rewrite !andb_true_iff in E1, E2. destruct E1 as [_ Hlc]. destruct E2 as [_ Hfit].
  apply N.leb_le in Hlc, Hfit. unfold M19.MV_HEADER, M19.mv_parse in *. cbn [M19.h_len M19.h_cap] in *. lia.
Qed.

Lemma mv_open_o_good f : nlen f < 2 ^ 60 ->
  good (fun '(len, _) => 80 + len * 8 <= nlen f) (2 * nlen f) (mv_open_o f).
Proof.
  intros Hlen. unfold mv_open_o.
  eapply good_bind_le with (b1 := nlen f) (b2 := nlen f); [apply reserve_good, W60_lt_ISIZE; exact Hlen| |lia]. intros _ _.
  eapply good_bind_le with (b1 := nlen f) (b2 := 0); [apply reserve_good, W60_lt_ISIZE; exact Hlen| |lia]. intros _ _.
  destruct (M19.mv_open 8 f) as [[len xs]|] eqn:E; [|apply good_err].
  apply good_ret. apply mv_open_in_bounds in E. unfold M19.MV_HEADER in E. exact E.
Qed.

Lemma mv_cell_good f : nlen f < 2 ^ 60 -> good (fun _ => True) (2 * nlen f) (mv_cell f).
Proof.
  intros Hlen. unfold mv_cell. eapply good_bind_le with (b2 := 0); [apply mv_open_o_good; exact Hlen| |lia].
  intros [n xs] _. apply good_ret. exact I.
Qed.

(* ---------- ZReorderMap ---------- *)
Lemma read_runs_spec : forall fuel d size covered rs,
  M19.read_runs fuel d size covered = Some rs ->
  Forall (fun r => snd r <> 0) rs /\ covered + runs_total rs = size.
Proof.
  induction fuel as [|k IH]; intros d size covered rs H; cbn [M19.read_runs] in H; [discriminate|].
  destruct (M19.read_entry d) as [[[base len] rest]|]; [|discriminate].
  destruct (N.eqb_spec len 0) as [|Hl]; [discriminate|].
  destruct (W64 <=? covered + len); [discriminate|].
  destruct (size <=? covered + len).
  - destruct (N.eqb_spec (covered + len) size) as [Hs|]; cbn [andb] in H; [|discriminate].
    destruct (nlen rest =? 0); [|discriminate]. injection H as <-.
    split; [constructor; [exact Hl|constructor] | cbn [runs_total fold_right snd]; lia].
  - destruct (M19.read_runs k rest size (covered + len)) as [rs'|] eqn:E; [|discriminate].
    injection H as <-. destruct (IH _ _ _ _ E) as [H1 H2].
    split; [constructor; [exact Hl|exact H1] | cbn [runs_total fold_right snd] in *; unfold runs_total in H2; lia].
Qed.

Lemma ro_open_o_good f :
  good (fun '(size, _, rs) => Forall (fun r => snd r <> 0) rs /\ runs_total rs = size) 0 (ro_open_o f).
Proof.
  unfold ro_open_o. destruct (M19.ro_parse f) as [[[size neg] rs]|] eqn:E; [|apply good_err].
  apply good_ret. unfold M19.ro_parse in E.
  remember (M19.le_val (firstn 8 f)) as sz eqn:Esz. clear Esz.
  destruct (nlen f <? 16); [discriminate|].
  destruct (M19.RO_MAXSIZE <? _); [discriminate|].
  destruct (negb _); [discriminate|].
  destruct (N.eqb_spec sz 0) as [Hz|].
  - destruct (nlen f =? 16); [|discriminate]. injection E as <- _ <-. split; [constructor|reflexivity].
  - destruct (M19.read_runs _ _ _ _) as [rs'|] eqn:Er; [|discriminate]. injection E as <- _ <-.
    destruct (read_runs_spec _ _ _ _ _ Er) as [H1 H2]. split; [exact H1|lia].
Qed.

Lemma ro_cell_good f : good (fun _ => True) 0 (ro_cell f).
Proof.
  unfold ro_cell. eapply good_bind_le with (b1 := 0) (b2 := 0); [apply ro_open_o_good| |lia].
  intros [[size neg] rs] _. apply good_ret. exact I.
Qed.

(* ---------- Dictionary::deserialize ---------- *)
Lemma dict_parse_good : forall n data rem seqs, rem < 2 ^ 60 ->
  good (fun _ => True) rem (dict_parse n data rem seqs).
Proof.
  induction n as [|n IH]; intros data rem seqs Hrem; cbn [dict_parse]; [apply good_ret_le; exact I|].
  destruct (rem <? 2); [apply good_err_le; lia|].
  set (sl := from_le (firstn 2 data)).
  destruct (N.ltb_spec (rem - 2) (sl + 8)) as [|Hfit]; [apply good_err_le; lia|].
  rewrite P60 in Hrem.
  eapply good_bind_le with (b1 := sl) (b2 := rem - 2 - sl - 8);
    [apply reserve_good, W60_lt_ISIZE; rewrite P60; lia| |lia].
  intros _ _. apply IH. rewrite P60. lia.
Qed.

Lemma dict_deser_good data : nlen data < 2 ^ 60 -> good (fun _ => True) (nlen data) (dict_deser data).
Proof.
  intros Hlen. unfold dict_deser. destruct (nlen data <? 4); [apply good_err_le; lia|].
  eapply good_bind_le with (b1 := nlen data - 4) (b2 := 0); [apply dict_parse_good; lia| |lia].
  intros seqs _. apply good_ret. exact I.
Qed.

(* ---------- SimdLz77 ---------- *)
Lemma slz_matches_good : forall fuel r acc, inv r -> good (fun _ => True) 0 (slz_matches fuel r acc).
Proof.
  induction fuel as [|f IH]; intros r acc Hr; cbn [slz_matches]; [apply good_ret; exact I|].
  destruct (has_bits 3 r); [|apply good_ret; exact I].
  eapply good_bind_le with (b1 := 0) (b2 := 0); [apply decode_match_good; exact Hr| |lia].
  intros [[obs bits] r'] Hi. apply IH. exact Hi.
Qed.

Lemma slz_copy_good out_len dist len :
  out_len + len <= MAX_DECOMPRESSED ->
  good (fun n => n = out_len + len) 0 (slz_copy true out_len dist len).
Proof.
  intros Hlim. unfold slz_copy. cbn [andb].
  destruct (N.eqb_spec dist 0) as [|Hd]; cbn [orb]; [apply good_err|].
  destruct (N.ltb_spec out_len dist) as [|Hle]; [apply good_err|].
  eapply good_bind_le with (b1 := 0) (b2 := 0); [apply sub_usize_good; exact Hle| |lia]. intros start ->.
  eapply good_bind_le with (P := fun _ => True) (b1 := 0) (b2 := 0); [| |lia].
  - destruct (len =? 0); [apply good_ret; exact I|].
    eapply good_weaken; [apply div_usize_good; lia | auto | lia].
  - intros _ _. apply good_ret. reflexivity.
Qed.

Lemma slz_rebuild_good : forall ms out_len, out_len <= MAX_DECOMPRESSED ->
  good (fun n => n <= MAX_DECOMPRESSED) 0 (slz_rebuild true ms out_len).
Proof.
  induction ms as [|m rest IH]; intros out_len Hlim; cbn [slz_rebuild]; [apply good_ret; exact Hlim|].
  destruct m as [|ty [|x [|len [|? ?]]]]; try apply good_err.
  destruct (N.ltb_spec (MAX_DECOMPRESSED - out_len) (Z.to_N len)) as [|Hfit]; [apply good_err|].
  assert (Hnew : out_len + Z.to_N len <= MAX_DECOMPRESSED) by lia.
  destruct ((Z.to_N ty =? 0) || (Z.to_N ty =? 1) || (Z.to_N ty =? 2)); [apply IH; exact Hnew|].
  destruct (Z.to_N x <=? out_len); [|apply IH; exact Hnew].
  eapply good_bind_le with (b1 := 0) (b2 := 0); [apply slz_copy_good; exact Hnew| |lia].
  intros n ->. apply IH. exact Hnew.
Qed.

Lemma slz_dec_good data : good (fun n => n <= MAX_DECOMPRESSED) 0 (slz_dec true data).
Proof.
  unfold slz_dec. destruct data as [|b data']; [apply good_ret; unfold MAX_DECOMPRESSED; lia|].
  eapply good_bind_le with (b1 := 0) (b2 := 0); [apply slz_matches_good, br_init_inv| |lia].
  intros ms _. apply slz_rebuild_good. unfold MAX_DECOMPRESSED. lia.
Qed.

(* the seeded variant (distance check left to a debug_assert): Global{0, 6} then Far2Long{distance 0}
   divides by zero in `i % (output.len() - start_pos)` *)
Definition slz_dist0 : list N := [1; 0; 0; 0; 48; 0; 48; 0; 0; 0].
Lemma slz_unchecked_panics : slz_dec false slz_dist0 = Panic.
Proof. vm_compute. reflexivity. Qed.
Lemma slz_checked_errs : slz_dec true slz_dist0 = Err 0.
Proof. vm_compute. reflexivity. Qed.

(* ---------- hex_decode(&str): bytes of non-ASCII characters ---------- *)
Lemma nibble_high b : 128 <= b -> nibble b = None.
Proof.
  intros H. unfold nibble.
  destruct (N.leb_spec 48 b); destruct (N.leb_spec b 57); cbn [andb]; try lia;
  destruct (N.leb_spec 97 b); destruct (N.leb_spec b 102); cbn [andb]; try lia;
  destruct (N.leb_spec 65 b); destruct (N.leb_spec b 70); cbn [andb]; try lia; reflexivity.
Qed.
Lemma hex_pairs_nonascii : forall (n : nat) data, (length data <= n)%nat ->
  Exists (fun b => 128 <= b) data -> (exists k, length data = (2 * k)%nat) ->
  exists a, hex_pairs data = Err a.
Proof.
  induction n as [|n IH]; intros data Hn Hex Hev.
  - destruct data; [inversion Hex | cbn in Hn; lia].
  - destruct data as [|h [|l rest]]; [inversion Hex | destruct Hev as [k Hk]; cbn [length] in Hk; lia |].
    cbn [hex_pairs].
    destruct (nibble h) as [a|] eqn:Eh; [|exists 0; reflexivity].
    destruct (nibble l) as [b|] eqn:El; [|exists 0; reflexivity].
    assert (Hrest : Exists (fun b => 128 <= b) rest).
    { inversion Hex as [? ? H1|? ? H1]; subst; [rewrite nibble_high in Eh by exact H1; discriminate|].
      inversion H1 as [? ? H2|? ? H2]; subst; [rewrite nibble_high in El by exact H2; discriminate|exact H2]. }
    destruct (IH rest) as [a' Ha']; [cbn [length] in Hn; lia | exact Hrest | |].
    + destruct Hev as [k Hk]. cbn [length] in Hk. exists (k - 1)%nat. lia.
    + rewrite Ha'. cbn [bind]. eexists. reflexivity.
Qed.
Lemma hex_dec_nonascii data :
  nlen data < W63 -> Exists (fun b => 128 <= b) data -> exists a, hex_dec data = Err a.
Proof.
  intros Hlen Hex. unfold hex_dec. destruct (N.eqb_spec (nlen data mod 2) 0) as [Hev|]; [|exists 0; reflexivity].
  destruct (hex_pairs_nonascii (length data) data) as [a Ha]; [lia | exact Hex | |].
  - exists (N.to_nat (nlen data / 2)). rewrite nlen_length in *.
    assert (N.of_nat (length data) = 2 * (N.of_nat (length data) / 2) + N.of_nat (length data) mod 2) by (apply N.div_mod; lia). lia.
  - unfold with_capacity. destruct (N.ltb_spec ISIZE_MAX (nlen data / 2 * 1)) as [Hb|_].
    + unfold ISIZE_MAX in Hb. generalize dependent (nlen data). intros. lia.
    + rewrite Ha. cbn [bind]. eexists. reflexivity.
Qed.
