(* C15: SliceDataInput length-prefixed reads, skip, and the Vec<u32> decoder. *)
From ZV.Common Require Import Base.
From ZV.C15 Require Import Model ProofsCore.
Open Scope N_scope.

Lemma read_vec_loop_good : forall fuel len got rest acc,
  good (fun _ => True) 0 (read_vec_loop fuel len got rest acc).
Proof.
  induction fuel as [|f IH]; intros len got rest acc; cbn [read_vec_loop].
  - destruct (len <=? got); [apply good_ret; exact I | apply good_err].
  - destruct (len <=? got); [apply good_ret; exact I |].
    destruct (nlen rest <? N.min (len - got) CHUNK); [apply good_err | apply IH].
Qed.

Lemma read_vec_good len rest : good (fun _ => True) CHUNK (read_vec len rest).
Proof.
  unfold read_vec.
  eapply good_weaken with (b := N.min len CHUNK * 1 + 0); [| intros a H; exact H | unfold CHUNK; lia].
  eapply good_bind.
  - apply with_capacity_good. unfold ISIZE_MAX, CHUNK. rewrite W63_eq.
    assert (65536 < 2 ^ 63) by (apply N.pow_lt_mono_r with (a := 2) (b := 16) (c := 63); lia). lia.
  - intros u _. apply read_vec_loop_good.
Qed.

Lemma sdi_lp_bytes_good data : good (fun _ => True) CHUNK (sdi_lp_bytes data).
Proof.
  unfold sdi_lp_bytes.
  eapply good_weaken with (b := 0 + (0 + (CHUNK + 0))); [| intros a H; exact H | lia].
  eapply good_bind; [apply leb_u_ok|]. intros [len n] Hn.
  eapply good_bind; [apply advance_good; blia|]. intros rest Hr.
  eapply good_bind; [apply read_vec_good|]. intros [v rest'] _.
  apply good_ret. exact I.
Qed.

Lemma sdi_skip_good data : good (fun _ => True) 0 (sdi_skip data).
Proof.
  unfold sdi_skip.
  eapply good_weaken with (b := 0 + (0 + 0)); [| intros a H; exact H | lia].
  eapply good_bind; [apply leb_u_ok|]. intros [n k] Hk.
  eapply good_bind; [apply advance_good; blia|]. intros rest Hr.
  destruct (nlen rest <? n); [apply good_err|].
  destruct (skipn (N.to_nat n) rest); [apply good_err | apply good_ret; exact I].
Qed.

Lemma read_u32_good rest :
  good (fun '(_, rest') => nlen rest' + 4 = nlen rest) 0 (read_u32 rest).
Proof.
  unfold read_u32. destruct rest as [|a [|b [|c [|d rest']]]]; try apply good_err.
  apply good_ret. cbn [nlen]. lia.
Qed.

Lemma vec_u32_loop_good : forall fuel rest,
  good (fun vs => nlen vs * 4 <= nlen rest) 0 (vec_u32_loop fuel rest).
Proof.
  induction fuel as [|f IH]; intros rest; cbn [vec_u32_loop].
  - apply good_ret. cbn [nlen]. lia.
  - change 0 with (0 + (0 + 0)) at 1.
    eapply good_bind; [apply read_u32_good|]. intros [v rest'] Hv.
    eapply good_bind; [apply IH|]. intros vs Hvs.
    apply good_ret. cbn [nlen]. blia.
Qed.

Lemma vec_u32_dec_good data :
  good (fun vs => nlen vs * 4 <= nlen data) (4 * PREALLOC_CAP) (vec_u32_dec data).
Proof.
  unfold vec_u32_dec.
  eapply good_weaken with (b := 0 + (4 * PREALLOC_CAP + 0)); [| intros a H; exact H | lia].
  eapply good_bind; [apply read_u32_good|]. intros [count rest] Hr.
  eapply good_bind.
  - eapply good_weaken; [apply with_capacity_good| intros a H; exact H |].
    + unfold ISIZE_MAX, PREALLOC_CAP. rewrite W63_eq.
      assert (16384 < 2 ^ 63) by (apply N.pow_lt_mono_r with (a := 2) (b := 14) (c := 63); lia). lia.
    + unfold PREALLOC_CAP. lia.
  - intros u _. eapply good_weaken; [apply vec_u32_loop_good| |lia].
    intros vs Hvs. blia.
Qed.
