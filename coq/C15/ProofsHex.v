(* C15: hex decoding is total, reserves half the input length, and never writes past the
   caller's buffer (hex_decode_to_slice checks the capacity before the first write). *)
From ZV.Common Require Import Base.
From ZV.C15 Require Import Model ProofsCore.
Open Scope N_scope.

Lemma hex_pairs_good_n : forall (n : nat) data, (length data <= n)%nat ->
  good (fun vs => nlen vs * 2 <= nlen data) 0 (hex_pairs data).
Proof.
  induction n as [|n IH]; intros data Hn.
  - destruct data; [|cbn in Hn; lia]. cbn. split; [cbn; lia|lia].
  - destruct data as [|h [|l rest]]; cbn [hex_pairs].
    + apply good_ret. cbn [nlen]. lia.
    + apply good_ret. cbn [nlen]. lia.
    + destruct (nibble h); [|apply good_err]. destruct (nibble l); [|apply good_err].
      change 0 with (0 + 0) at 1.
      eapply good_bind; [apply IH; cbn [length] in Hn; lia|].
      intros vs Hvs. apply good_ret. cbn [nlen] in *. blia.
Qed.

Lemma hex_pairs_good data : good (fun vs => nlen vs * 2 <= nlen data) 0 (hex_pairs data).
Proof. apply hex_pairs_good_n with (n := length data). lia. Qed.

Lemma hex_dec_good data :
  nlen data < W63 ->
  good (fun vs => nlen vs * 2 <= nlen data) (nlen data / 2) (hex_dec data).
Proof.
  intros Hlen. unfold hex_dec. destruct (nlen data mod 2 =? 0); [|cbn; lia].
  eapply good_weaken with (b := nlen data / 2 * 1 + 0); [| intros a H; exact H | lia].
  eapply good_bind.
  - apply with_capacity_good. unfold ISIZE_MAX. generalize dependent (nlen data). intros. lia.
  - intros u _. apply hex_pairs_good.
Qed.

(* the decoded prefix written into the caller's buffer never exceeds its capacity *)
Lemma hex_to_slice_good arg data :
  good (fun vs => nlen vs <= 1 + N.min arg 4096) 0 (hex_to_slice arg data).
Proof.
  unfold hex_to_slice. destruct (nlen data mod 2 =? 0); [|apply good_err].
  destruct (N.ltb_spec (N.min arg 4096) (nlen data / 2)) as [H|H]; [apply good_err|].
  change 0 with (0 + 0) at 1.
  eapply good_bind; [apply hex_pairs_good|]. intros vs Hvs.
  apply good_ret. cbn [nlen]. cbn beta in Hvs.
  generalize dependent (nlen data). intros. lia.
Qed.
