(* C15 mechanism model: byte parsers of zipora as written (after the fix: commits recorded in
   findings/C15.txt), with Rust's partiality made explicit.

   A parser run yields   Ok v a | Err a | Panic   where `a` is the number of bytes the run asked the
   allocator for through an explicit reservation (`Vec::with_capacity`, `vec![0; n]`, `reserve`).
   `Panic` stands for everything the property forbids that the model can exhibit: an arithmetic overflow
   in the checked profile, an out-of-range slice or index, a capacity overflow.  The code's own checks
   are kept in the code's order, so "the check comes too late" shows up as a reachable Panic.

   Bytes are N (< 256), u64 values N (< 2^64), i64 values Z.  Counters that are bounded by the length of
   the input slice (bytes_read, loop indices) are plain N additions; arithmetic on values that come out
   of the input (offset + length, count * size, casts) goes through the checked primitives.
   Definitions only - no proofs in this file. *)
From ZV.Common Require Import Base Run.
Open Scope N_scope.

(* ---------- outcome monad ---------- *)
Inductive res (A : Type) : Type :=
| Ok (a : A) (alloc : N)
| Err (alloc : N)
| Panic.
Arguments Ok {A} a alloc.
Arguments Err {A} alloc.
Arguments Panic {A}.

Definition ret {A} (a : A) : res A := Ok a 0.
Definition bind {A B} (m : res A) (f : A -> res B) : res B :=
  match m with
  | Ok a n => match f a with
              | Ok b k => Ok b (n + k)
              | Err k => Err (n + k)
              | Panic => Panic
              end
  | Err n => Err n
  | Panic => Panic
  end.
Notation "x <- m ;; f" := (bind m (fun x => f)) (at level 61, m at next level, right associativity).
Notation "' p <- m ;; f" := (bind m (fun x => match x with p => f end))
  (at level 61, p pattern, m at next level, right associativity).

Definition no_panic {A} (r : res A) : Prop := r <> Panic.
Definition alloc_of {A} (r : res A) : N :=
  match r with Ok _ a => a | Err a => a | Panic => 0 end.
Definition is_panic {A} (r : res A) : bool := match r with Panic => true | _ => false end.

(* `good P b r`: r is not a panic, its explicit reservations stay within b bytes, and a returned
   value satisfies P.  This is the shape of every positive theorem of this property. *)
Definition good {A} (P : A -> Prop) (b : N) (r : res A) : Prop :=
  match r with
  | Ok a n => P a /\ n <= b
  | Err n => n <= b
  | Panic => False
  end.

(* an element decoder that never panics, reserves nothing and consumes between 1 and len bytes *)
Definition elem_ok {V} (elem : list N -> res (V * N)) : Prop :=
  forall data, good (fun '(_, k) => 1 <= k <= nlen data) 0 (elem data).

Definition ISIZE_MAX : N := W63 - 1.

(* ---------- checked primitives ---------- *)
Definition add_usize (a b : N) : res N := if a + b <? W64 then ret (a + b) else Panic.
Definition sub_usize (a b : N) : res N := if b <=? a then ret (a - b) else Panic.
Definition add_u16 (a b : N) : res N := if a + b <? 65536 then ret (a + b) else Panic.
(* `x << s` on a u64: panics when s >= 64, drops the bits shifted out otherwise *)
Definition shl64 (x s : N) : res N := if s <? 64 then ret (w64 (x * 2 ^ s)) else Panic.
(* Vec::<T>::with_capacity(n): capacity overflow panic above isize::MAX bytes, else a request *)
Definition with_capacity (n elem_size : N) : res unit :=
  if ISIZE_MAX <? n * elem_size then Panic else Ok tt (n * elem_size).
(* &data[n..] *)
Definition advance (data : list N) (n : N) : res (list N) :=
  if n <=? nlen data then ret (skipn (N.to_nat n) data) else Panic.

(* ---------- two's complement views ---------- *)
Definition to_i64 (x : N) : Z :=
  if x <? W63 then Z.of_N x else (Z.of_N x - Z.of_N W64)%Z.
Definition of_i64 (z : Z) : N := Z.to_N (z mod (Z.of_N W64)).
(* ((e >> 1) as i64) ^ -((e & 1) as i64) *)
Definition zz_dec (e : N) : Z := Z.lxor (to_i64 (e / 2)) (- Z.of_N (e mod 2)).

(* ---------- LEB128 (VarInt::decode, VarIntEncoder::decode_leb128_u64) ---------- *)
(* for &byte in data { if shift >= 64 {Err}; result |= ((byte & 0x7F) as u64) << shift; bytes_read += 1;
     if byte & 0x80 == 0 { return Ok }; shift += 7 }  Err *)
Fixpoint leb_go (data : list N) (shift acc n : N) : res (N * N) :=
  match data with
  | [] => Err 0
  | b :: rest =>
      if 64 <=? shift then Err 0 else
      v <- shl64 (b mod 128) shift ;;
      let acc' := N.lor acc v in
      if b <? 128 then ret (acc', n + 1)
      else leb_go rest (shift + 7) acc' (n + 1)
  end.
Definition leb_u (data : list N) : res (N * N) := leb_go data 0 0 0.

(* decode_leb128_i64: the shift is advanced before the terminator test; sign extension *)
Fixpoint leb_s_go (data : list N) (shift acc n : N) : res (Z * N) :=
  match data with
  | [] => Err 0
  | b :: rest =>
      if 64 <=? shift then Err 0 else
      v <- shl64 (b mod 128) shift ;;
      let acc' := N.lor acc v in
      let shift' := shift + 7 in
      if b <? 128 then
        let r := if (shift' <? 64) && (64 <=? b mod 128)
                 then N.lor acc' (w64 ((W64 - 1) * 2 ^ shift')) else acc' in
        ret (to_i64 r, n + 1)
      else leb_s_go rest shift' acc' (n + 1)
  end.
Definition leb_s (data : list N) : res (Z * N) := leb_s_go data 0 0 0.

Definition zz_elem (data : list N) : res (Z * N) :=
  '(e, n) <- leb_u data ;; ret (zz_dec e, n).
Definition u_elem (data : list N) : res (Z * N) :=
  '(v, n) <- leb_u data ;; ret (Z.of_N v, n).

(* ---------- prefix-free: length byte + little-endian bytes ---------- *)
Fixpoint from_le (l : list N) : N :=
  match l with
  | [] => 0
  | b :: t => b + 256 * from_le t
  end.
Definition pf_u (data : list N) : res (N * N) :=
  match data with
  | [] => Err 0
  | l :: rest =>
      if (l =? 0) || (8 <? l) then Err 0
      else if nlen data <? 1 + l then Err 0
      else ret (from_le (firstn (N.to_nat l) rest), 1 + l)
  end.
Definition pf_elem (data : list N) : res (Z * N) :=
  '(v, n) <- pf_u data ;; ret (Z.of_N v, n).
Definition pf_s_elem (data : list N) : res (Z * N) :=
  '(v, n) <- pf_u data ;; ret (zz_dec v, n).

(* ---------- count-prefixed sequences ---------- *)
(* check_sequence_count (fix 1bc03e1): every element takes at least one byte *)
Definition check_count (count remaining : N) : res unit :=
  if remaining <? count then Err 0 else ret tt.

Fixpoint seq_loop (elem : list N -> res (Z * N)) (fuel : nat) (rest : list N) : res (list Z) :=
  match fuel with
  | O => ret []
  | S f =>
      '(v, n) <- elem rest ;;
      rest' <- advance rest n ;;
      vs <- seq_loop elem f rest' ;;
      ret (v :: vs)
  end.
(* the loop runs `count` times, but every iteration consumes a byte or fails: fuel beyond the
   remaining length + 1 is never used (this keeps the unchecked variant evaluable) *)
Definition loop_fuel (count : N) (rest : list N) : nat := N.to_nat (N.min count (nlen rest + 1)).

Definition seq_dec (checked : bool) (elem : list N -> res (Z * N)) (data : list N) : res (list Z) :=
  '(count, cb) <- leb_u data ;;
  rest <- advance data cb ;;
  _ <- (if checked then check_count count (nlen rest) else ret tt) ;;
  _ <- with_capacity count 8 ;;
  seq_loop elem (loop_fuel count rest) rest.

(* decode_zigzag_sequence_i64 = decode_leb128_sequence_u64 then map *)
Definition map_res {A B} (f : A -> B) (r : res (list A)) : res (list B) :=
  xs <- r ;; ret (map f xs).
Definition zz_of_Z (z : Z) : Z := zz_dec (Z.to_N z).

(* delta, u64: prev.wrapping_add(d >> 1) / prev.wrapping_sub(d >> 1)  (fix 80efa00) *)
Fixpoint delta_u_loop (fuel : nat) (rest : list N) (prev : N) : res (list Z) :=
  match fuel with
  | O => ret []
  | S f =>
      '(d, n) <- leb_u rest ;;
      let next := if d mod 2 =? 0 then w64 (prev + d / 2) else w64 (prev + W64 - d / 2) in
      rest' <- advance rest n ;;
      vs <- delta_u_loop f rest' next ;;
      ret (Z.of_N next :: vs)
  end.
Definition delta_u_dec (checked : bool) (data : list N) : res (list Z) :=
  '(count, cb) <- leb_u data ;;
  rest <- advance data cb ;;
  if count =? 0 then ret [] else
  _ <- (if checked then check_count count (nlen rest) else ret tt) ;;
  _ <- with_capacity count 8 ;;
  '(first, fb) <- leb_u rest ;;
  rest1 <- advance rest fb ;;
  vs <- delta_u_loop (loop_fuel (count - 1) rest1) rest1 first ;;
  ret (Z.of_N first :: vs).

(* delta, i64: first value signed LEB128, deltas zigzag, wrapping_add *)
Fixpoint delta_s_loop (fuel : nat) (rest : list N) (prev : Z) : res (list Z) :=
  match fuel with
  | O => ret []
  | S f =>
      '(d, n) <- zz_elem rest ;;
      let next := to_i64 (of_i64 (prev + d)) in
      rest' <- advance rest n ;;
      vs <- delta_s_loop f rest' next ;;
      ret (next :: vs)
  end.
Definition delta_s_dec (checked : bool) (data : list N) : res (list Z) :=
  '(count, cb) <- leb_u data ;;
  rest <- advance data cb ;;
  if count =? 0 then ret [] else
  _ <- (if checked then check_count count (nlen rest) else ret tt) ;;
  _ <- with_capacity count 8 ;;
  '(first, fb) <- leb_s rest ;;
  rest1 <- advance rest fb ;;
  vs <- delta_s_loop (loop_fuel (count - 1) rest1) rest1 first ;;
  ret (first :: vs).

(* group varint: selector byte, then up to four values of 1..4 bytes *)
Fixpoint gv_chunk (k : nat) (i : N) (sel : N) (rest : list N) : res (list Z * list N) :=
  match k with
  | O => ret ([], rest)
  | S k' =>
      let bn := (sel / 4 ^ i) mod 4 + 1 in
      if nlen rest <? bn then Err 0 else
      let v := from_le (firstn (N.to_nat bn) rest) in
      '(vs, rest') <- gv_chunk k' (i + 1) sel (skipn (N.to_nat bn) rest) ;;
      ret (Z.of_N v :: vs, rest')
  end.
Fixpoint gv_loop (fuel : nat) (remaining : N) (rest : list N) : res (list Z) :=
  match fuel with
  | O => if remaining =? 0 then ret [] else Err 0
  | S f =>
      if remaining =? 0 then ret [] else
      match rest with
      | [] => Err 0
      | sel :: rest1 =>
          let chunk := N.min remaining 4 in
          '(vs, rest') <- gv_chunk (N.to_nat chunk) 0 sel rest1 ;;
          ws <- gv_loop f (remaining - chunk) rest' ;;
          ret (vs ++ ws)
      end
  end.
Definition gv_dec (checked : bool) (data : list N) : res (list Z) :=
  '(count, cb) <- leb_u data ;;
  rest <- advance data cb ;;
  _ <- (if checked then check_count count (nlen rest) else ret tt) ;;
  _ <- with_capacity count 8 ;;
  gv_loop (loop_fuel count rest) count rest.

(* ---------- VarInt::decode_multiple ---------- *)
Fixpoint multi_loop (fuel : nat) (rest : list N) : res (list Z) :=
  match fuel with
  | O => ret []
  | S f =>
      match rest with
      | [] => ret []
      | _ =>
          '(v, n) <- leb_u rest ;;
          rest' <- advance rest n ;;
          vs <- multi_loop f rest' ;;
          ret (Z.of_N v :: vs)
      end
  end.
Definition multi_dec (data : list N) : res (list Z) := multi_loop (length data) data.

(* ---------- dictionary / LZ decompression (DictionaryCompressor, OptimizedDictionaryCompressor) ----
   Only the length of the output matters for bounds, indices and allocation, so the model tracks
   `result.len()`.  flag 0: literal byte;  flag 1: u32 offset, u32 length, copy with wrap-around. *)
Definition MAX_DECOMPRESSED : N := 104857600.
Definition le32 (a b c d : N) : N := a + 256 * b + 65536 * c + 16777216 * d.
Fixpoint lz_loop (limit : bool) (fuel : nat) (data : list N) (out_len : N) : res N :=
  match fuel with
  | O => ret out_len
  | S f =>
      match data with
      | [] => ret out_len
      | flag :: t =>
          if flag =? 0 then
            match t with
            | [] => Err 0
            | _ :: rest => lz_loop limit f rest (out_len + 1)
            end
          else if flag =? 1 then
            match t with
            | o0 :: o1 :: o2 :: o3 :: l0 :: l1 :: l2 :: l3 :: rest =>
                let offset := le32 o0 o1 o2 o3 in
                let len := le32 l0 l1 l2 l3 in
                if (offset =? 0) || (out_len <? offset) then Err 0
                else if limit && (MAX_DECOMPRESSED - out_len <? len) then Err 0
                else
                  (* start_pos = result.len() - offset; every source index start_pos + (i mod offset)
                     lies below the current length, so each of the `len` iterations pushes one byte *)
                  start <- sub_usize out_len offset ;;
                  lz_loop limit f rest (out_len + len)
            | _ => Err 0
            end
          else Err 0
      end
  end.
Definition lz_dec (limit : bool) (data : list N) : res N := lz_loop limit (length data) data 0.

(* ---------- PA-Zip bit stream (compression_types.rs BitReader, decode_match, decode_matches) ---------- *)
Record br : Type := mkBr { br_data : list N; br_buf : N; br_cnt : N; br_pos : N }.
Definition br_init (data : list N) : br := mkBr data 0 0 0.

(* while bit_count < bits && byte_pos < len { buffer |= (byte as u64) << bit_count; bit_count += 8; byte_pos += 1 } *)
Fixpoint br_refill (fuel : nat) (bits : N) (r : br) : br :=
  match fuel with
  | O => r
  | S f =>
      if br_cnt r <? bits then
        match br_data r with
        | [] => r
        | b :: rest => br_refill f bits (mkBr rest (N.lor (br_buf r) (w64 (b * 2 ^ br_cnt r))) (br_cnt r + 8) (br_pos r + 1))
        end
      else r
  end.
Definition read_bits (bits : N) (r : br) : res (N * br) :=
  if 32 <? bits then Err 0 else
  let r1 := br_refill 5 bits r in
  if br_cnt r1 <? bits then Err 0 else
  ret (br_buf r1 mod 2 ^ bits, mkBr (br_data r1) (br_buf r1 / 2 ^ bits) (br_cnt r1 - bits) (br_pos r1)).
Definition has_bits (bits : N) (r : br) : bool := bits <=? br_cnt r + nlen (br_data r) * 8.
(* (byte_pos * 8) - bit_count *)
Definition bit_position (r : br) : res N := sub_usize (br_pos r * 8) (br_cnt r).

Definition var_len (r : br) : res (N * br) :=
  '(b1, r1) <- read_bits 1 r ;;
  if b1 =? 0 then read_bits 7 r1 else
  '(b2, r2) <- read_bits 1 r1 ;;
  if b2 =? 0 then '(v, r3) <- read_bits 15 r2 ;; ret (v + 128, r3)
  else '(v, r3) <- read_bits 30 r2 ;; ret (v + 32768, r3).

(* result: (bits consumed, type, x, y) as reported by the harness, and the reader *)
Definition decode_match_m (fixed : bool) (r : br) : res (list Z * N * br) :=
  p0 <- bit_position r ;;
  '(ty, r1) <- read_bits 3 r ;;
  '(obs, r') <-
    (if ty =? 0 then '(l, r2) <- read_bits 5 r1 ;; ret ([0; 0; l + 1], r2)
     else if ty =? 1 then
       '(dp, r2) <- read_bits 32 r1 ;; '(l, r3) <- read_bits 16 r2 ;;
       if l <? 6 then Err 0 else ret ([1; dp; l], r3)
     else if ty =? 2 then '(bv, r2) <- read_bits 8 r1 ;; '(l, r3) <- read_bits 5 r2 ;; ret ([2; bv; l + 2], r3)
     else if ty =? 3 then '(d, r2) <- read_bits 3 r1 ;; '(l, r3) <- read_bits 2 r2 ;; ret ([3; d + 2; l + 2], r3)
     else if ty =? 4 then '(d, r2) <- read_bits 8 r1 ;; '(l, r3) <- read_bits 5 r2 ;; ret ([4; d + 2; l + 2], r3)
     else if ty =? 5 then '(d, r2) <- read_bits 16 r1 ;; '(l, r3) <- read_bits 5 r2 ;; ret ([5; d + 258; l + 2], r3)
     else if ty =? 6 then
       '(d, r2) <- read_bits 16 r1 ;; '(v, r3) <- var_len r2 ;;
       if fixed then
         (* fix: widen to u32, add 34, reject what does not fit u16 *)
         if 65535 <? v + 34 then Err 0 else ret ([6; d; v + 34], r3)
       else
         (* before the fix: `v as u16 + 34` in u16 arithmetic *)
         l <- add_u16 (v mod 65536) 34 ;; ret ([6; d; l], r3)
     else '(d, r2) <- read_bits 24 r1 ;; '(v, r3) <- var_len r2 ;; ret ([7; d; v + 34], r3)) ;;
  p1 <- bit_position r' ;;
  bits <- sub_usize p1 p0 ;;
  ret (map Z.of_N obs, bits, r').

Fixpoint decode_matches_loop (fixed : bool) (fuel : nat) (r : br) (total : N) (acc : list Z) : res (list Z) :=
  match fuel with
  | O => ret (Z.of_N total :: acc)
  | S f =>
      (* MIN_ENCODED_MATCH_BITS = 8: fewer than 8 remaining bits are BitWriter::finish padding
         (loop guard since fix 25f70e1; it was has_bits(3) before) *)
      if has_bits 8 r then
        '(obs, bits, r') <- decode_match_m fixed r ;;
        decode_matches_loop fixed f r' (total + bits) (acc ++ obs)
      else ret (Z.of_N total :: acc)
  end.
Definition decode_matches_m (fixed : bool) (data : list N) : res (list Z) :=
  decode_matches_loop fixed (3 * length data + 1) (br_init data) 0 [].
Definition decode_match_top (fixed : bool) (data : list N) : res (list Z) :=
  '(obs, bits, _) <- decode_match_m fixed (br_init data) ;; ret (Z.of_N bits :: obs).

(* ---------- hex ---------- *)
Definition nibble (c : N) : option N :=
  if (48 <=? c) && (c <=? 57) then Some (c - 48)
  else if (97 <=? c) && (c <=? 102) then Some (c - 97 + 10)
  else if (65 <=? c) && (c <=? 70) then Some (c - 65 + 10)
  else None.
Fixpoint hex_pairs (data : list N) : res (list Z) :=
  match data with
  | h :: l :: rest =>
      match nibble h, nibble l with
      | Some a, Some b => vs <- hex_pairs rest ;; ret (Z.of_N (a * 16 + b) :: vs)
      | _, _ => Err 0
      end
  | _ => ret []
  end.
Definition hex_dec (data : list N) : res (list Z) :=
  if nlen data mod 2 =? 0 then _ <- with_capacity (nlen data / 2) 1 ;; hex_pairs data else Err 0.
(* hex_decode_to_slice into a caller buffer of `cap` bytes; the harness passes min(arg, 4096) *)
Definition hex_to_slice (arg : N) (data : list N) : res (list Z) :=
  let cap := N.min arg 4096 in
  if nlen data mod 2 =? 0 then
    if cap <? nlen data / 2 then Err 0
    else vs <- hex_pairs data ;; ret (Z.of_N (nlen data / 2) :: vs)
  else Err 0.

(* ---------- DataInput over a slice (src/io/data_input.rs) and the Vec<T> decoder (smart_ptr.rs) ----------
   `read_var_int` = VarInt::read_from: at most 10 bytes, same bit arithmetic as leb_u (an 11th byte is
   never reached by either loop on a value that would be returned), so it is leb_u on the unread bytes. *)
Definition CHUNK : N := 65536.
Definition PREALLOC_CAP : N := 4096.
(* read_vec (fix 93ba69b): reserve min(len, CHUNK), then extend chunk by chunk; read_bytes checks
   `position + buf.len() > data.len()` *)
Fixpoint read_vec_loop (fuel : nat) (len got : N) (rest : list N) (acc : list N) : res (list N * list N) :=
  match fuel with
  | O => if len <=? got then ret (acc, rest) else Err 0
  | S f =>
      if len <=? got then ret (acc, rest) else
      let step := N.min (len - got) CHUNK in
      if nlen rest <? step then Err 0 else
      read_vec_loop f len (got + step) (skipn (N.to_nat step) rest) (acc ++ firstn (N.to_nat step) rest)
  end.
Definition read_vec (len : N) (rest : list N) : res (list N * list N) :=
  _ <- with_capacity (N.min len CHUNK) 1 ;;
  read_vec_loop (N.to_nat (N.min (len / CHUNK) (nlen rest / CHUNK) + 2)) len 0 rest [].
(* obs: position, length, first 24 bytes *)
Definition sdi_lp_bytes (data : list N) : res (list Z) :=
  '(len, n) <- leb_u data ;;
  rest <- advance data n ;;
  '(v, rest') <- read_vec len rest ;;
  ret (Z.of_N (nlen data - nlen rest') :: Z.of_N (nlen v) :: map Z.of_N (firstn 24 v)).
(* read_var_int; skip(n) with `n > len - position` (fix 93ba69b); read_u8 *)
Definition sdi_skip (data : list N) : res (list Z) :=
  '(n, k) <- leb_u data ;;
  rest <- advance data k ;;
  if nlen rest <? n then Err 0 else
  match skipn (N.to_nat n) rest with
  | [] => Err 0
  | x :: rest' => ret [Z.of_N n; Z.of_N x; Z.of_N (nlen data - nlen rest')]
  end.
(* Vec<u32>::deserialize: u32 count, reserve min(count, 4096) elements (fix 129e061), then count reads *)
Definition read_u32 (rest : list N) : res (N * list N) :=
  match rest with
  | a :: b :: c :: d :: rest' => ret (le32 a b c d, rest')
  | _ => Err 0
  end.
Fixpoint vec_u32_loop (fuel : nat) (rest : list N) : res (list Z) :=
  match fuel with
  | O => ret []
  | S f => '(v, rest') <- read_u32 rest ;; vs <- vec_u32_loop f rest' ;; ret (Z.of_N v :: vs)
  end.
Definition vec_u32_dec (data : list N) : res (list Z) :=
  '(count, rest) <- read_u32 data ;;
  _ <- with_capacity (N.min count PREALLOC_CAP) 4 ;;
  vec_u32_loop (N.to_nat (N.min count (nlen rest / 4 + 1))) rest.

(* ---------- dispatch used by the harness-generated case files ---------- *)
Definition pairZ (r : res (Z * N)) : res (list Z) := '(v, n) <- r ;; ret [v; Z.of_N n].
Definition as_i64_list (r : res (list Z)) : res (list Z) :=
  map_res (fun z => to_i64 (Z.to_N z)) r.

Definition run_model (pid arg : N) (data : list N) : option (res (list Z)) :=
  match pid with
  | 1 => Some (pairZ (u_elem data))
  | 2 => Some (multi_dec data)
  | 3 => Some (pairZ (zz_elem data))
  (* VarIntEncoder::decode_u64, strategies leb128 zigzag delta group prefix_free compact simd *)
  | 10 | 13 | 15 | 16 => Some (pairZ (u_elem data))
  | 11 | 12 => Some (Err 0)
  | 14 => Some (pairZ (pf_elem data))
  (* decode_i64 *)
  | 20 => Some (pairZ (leb_s data))
  | 21 | 25 | 26 => Some (pairZ (zz_elem data))
  | 22 => Some (Err 0)
  | 23 => Some ('(v, n) <- leb_u data ;; ret [to_i64 v; Z.of_N n])
  | 24 => Some (pairZ (pf_s_elem data))
  (* decode_u64_sequence *)
  | 30 | 35 | 36 => Some (seq_dec true u_elem data)
  | 31 => Some (Err 0)
  | 32 => Some (delta_u_dec true data)
  | 33 => Some (gv_dec true data)
  | 34 => Some (seq_dec true pf_elem data)
  (* decode_i64_sequence *)
  | 40 => Some (seq_dec true leb_s data)
  | 41 | 45 | 46 => Some (map_res zz_of_Z (seq_dec true u_elem data))
  | 42 => Some (delta_s_dec true data)
  | 43 => Some (as_i64_list (gv_dec true data))
  | 44 => Some (seq_dec true pf_s_elem data)
  | 50 => Some (sdi_lp_bytes data)
  | 51 => Some (sdi_skip data)
  | 52 => Some (vec_u32_dec data)
  | 61 => Some (n <- lz_dec true data ;; ret [Z.of_N n])
  | 70 => Some (decode_match_top true data)
  | 71 => Some (decode_matches_m true data)
  | 80 => Some (hex_dec data)
  | 81 => Some (hex_to_slice arg data)
  | _ => None
  end.

Definition model_ids : list N :=
  [1; 2; 3; 10; 11; 12; 13; 14; 15; 16; 20; 21; 22; 23; 24; 25; 26;
   30; 31; 32; 33; 34; 35; 36; 40; 41; 42; 43; 44; 45; 46; 50; 51; 52; 61; 70; 71; 80; 81].

(* what the child process reported: 0 = value, 1 = error, 2 = panic / abort / timeout.
   A run whose explicit reservations exceed the child's address-space limit is expected to crash. *)
Definition AS_LIMIT : N := 1073741824.
Fixpoint prefix_eq (a b : list Z) : bool :=
  match a, b with
  | [], _ => true
  | x :: a', y :: b' => Z.eqb x y && prefix_eq a' b'
  | _ :: _, [] => false
  end.
Definition check_case (pid arg : N) (data : list N) (code : N) (vals : list Z) : bool :=
  match run_model pid arg data with
  | None => false
  | Some Panic => code =? 2
  | Some (Err a) => if AS_LIMIT <=? a then code =? 2 else code =? 1
  | Some (Ok v a) =>
      if AS_LIMIT <=? a then code =? 2
      else (code =? 0) &&
           (* pid 61: the harness reports the output length followed by a prefix of the output;
              the model tracks the length only.  Long value lists are reported truncated to 200. *)
           (if pid =? 61 then prefix_eq v vals else if 200 <=? nlen v then prefix_eq vals v else eqb_lz v vals)
  end.
