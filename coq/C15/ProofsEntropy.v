(* C15: the rANS decoder is total for every table that sums to at most 4096 (no overflow in the state
   update, no underflow of `- start`), produces exactly the requested number of symbols or an error, and
   reserves at most 64 KiB per stream before the symbols exist; the FSE header never panics. *)
From ZV.Common Require Import Base Run.
From ZV.C15 Require Import Model ProofsCore ModelBlob ProofsBlob ModelEntropy.
Open Scope N_scope.

(* ---------- iteration ---------- *)
Lemma iter_pos_good {S} (step : S -> res S) (Inv : S -> Prop) :
  (forall s, Inv s -> good Inv 0 (step s)) ->
  forall p s, Inv s -> good Inv 0 (iter_pos step p s).
Proof.
  intros Hs. induction p as [p IH|p IH|]; intros s Hi; cbn [iter_pos].
  - eapply good_bind_le with (b1 := 0) (b2 := 0); [apply Hs; exact Hi| |lia]. intros s0 H0.
    eapply good_bind_le with (b1 := 0) (b2 := 0); [apply IH; exact H0| |lia]. intros s1 H1. apply IH. exact H1.
  - eapply good_bind_le with (b1 := 0) (b2 := 0); [apply IH; exact Hi| |lia]. intros s1 H1. apply IH. exact H1.
  - apply Hs. exact Hi.
Qed.
Lemma iter_n_good {S} (step : S -> res S) (Inv : S -> Prop) :
  (forall s, Inv s -> good Inv 0 (step s)) ->
  forall n s, Inv s -> good Inv 0 (iter_n step n s).
Proof.
  intros Hs n s Hi. destruct n as [|p]; cbn [iter_n]; [apply good_ret; exact Hi | apply iter_pos_good; assumption].
Qed.

(* ---------- the table ---------- *)
Lemma slot_sym_start : forall t sym acc slot, acc <= slot ->
  R.slot_sym t sym acc slot = 0 \/
  exists k : nat, R.slot_sym t sym acc slot = sym + N.of_nat k /\ acc + R.cum t k <= slot.
Proof.
  induction t as [|f t IH]; intros sym acc slot Ha; cbn [R.slot_sym].
  - left. reflexivity.
  - destruct (N.ltb_spec slot (acc + f)) as [|Hge].
    + right. exists 0%nat. cbn [R.cum]. split; lia.
    + destruct (IH (sym + 1) (acc + f) slot Hge) as [H0|[k [Hk Hc]]]; [left; exact H0|].
      right. exists (S k). cbn [R.cum]. split; [rewrite Hk; lia | lia].
Qed.

Lemma start_le_slot t slot : R.start_of t (R.slot_sym t 0 0 slot) <= slot.
Proof.
  unfold R.start_of. destruct (slot_sym_start t 0 0 slot) as [H0|[k [Hk Hc]]]; [lia| |].
  - rewrite H0. change (N.to_nat 0) with 0%nat. destruct t; cbn [R.cum]; lia.
  - rewrite Hk. replace (N.to_nat (0 + N.of_nat k)) with k by lia. lia.
Qed.

Lemma nth_le_sum : forall t n, nth n t 0 <= R.sum_list t.
Proof.
  induction t as [|f t IH]; intros n; destruct n; cbn [nth R.sum_list fold_right]; try lia.
  specialize (IH n). unfold R.sum_list in IH. lia.
Qed.
Lemma freq_le t s : rans_table_ok t -> R.freq_of t s <= 4096.
Proof. intros H. unfold R.freq_of. pose proof (nth_le_sum t (N.to_nat s)). unfold rans_table_ok in H. lia. Qed.

Lemma dec_renorm_bound : forall rin x x1 rin1,
  x < W64 -> bytes_ok rin -> R.dec_renorm x rin = Some (x1, rin1) -> x1 < W64 /\ bytes_ok rin1.
Proof.
  induction rin as [|b r IH]; intros x x1 rin1 Hx Hb H; cbn [R.dec_renorm] in H.
  - destruct (R.RANS_L <=? x); [injection H as <- <-; split; assumption | discriminate].
  - destruct (N.leb_spec R.RANS_L x) as [|Hlt]; [injection H as <- <-; split; assumption|].
    inversion Hb as [|? ? Hb1 Hb2]; subst. eapply IH; [|exact Hb2|exact H].
    unfold R.RANS_L in Hlt. unfold is_byte in Hb1. unfold W64. lia.
Qed.

(* ---------- one symbol ---------- *)
Definition rinv (st : rstate) : Prop := let '(x, rin, _) := st in x < W64 /\ bytes_ok rin.

Lemma rans_step_good t st : rans_table_ok t -> rinv st -> good rinv 0 (rans_step t st).
Proof.
  intros Ht Hi. destruct st as [[x rin] out]. destruct Hi as [Hx Hb]. unfold rans_step.
  destruct (R.dec_renorm x rin) as [[x1 rin1]|] eqn:E; [|apply good_err].
  destruct (dec_renorm_bound _ _ _ _ Hx Hb E) as [Hx1 Hb1].
  set (slot := x1 mod 4096). set (s := R.slot_sym t 0 0 slot).
  pose proof (freq_le t s Ht) as Hf. pose proof (start_le_slot t slot) as Hs. fold s in Hs.
  assert (Hslot : slot < 4096) by (unfold slot; apply N.mod_lt; lia).
  assert (Hdm : x1 = 4096 * (x1 / 4096) + slot) by (unfold slot; apply N.div_mod; lia).
  assert (Hmul : R.freq_of t s * (x1 / 4096) <= 4096 * (x1 / 4096)) by (apply N.mul_le_mono_r; exact Hf).
  eapply good_bind_le with (b1 := 0) (b2 := 0); [apply mul_usize_good; lia| |lia]. intros a ->.
  eapply good_bind_le with (b1 := 0) (b2 := 0); [apply add_usize_good; lia| |lia]. intros b ->.
  eapply good_bind_le with (b1 := 0) (b2 := 0); [apply sub_usize_good; lia| |lia]. intros c ->.
  apply good_ret. cbn. split; [lia|exact Hb1].
Qed.

Lemma Forall_rev_bytes l : bytes_ok l -> bytes_ok (rev l).
Proof. unfold bytes_ok. intros H. apply Forall_rev. exact H. Qed.

Lemma rans_run_good t count x data :
  rans_table_ok t -> x < W64 -> bytes_ok data -> good (fun _ => True) 0 (rans_run t count x data).
Proof.
  intros Ht Hx Hb. unfold rans_run.
  eapply good_bind_le with (b1 := 0) (b2 := 0).
  - apply iter_n_good with (Inv := rinv); [intros s Hs; apply rans_step_good; assumption|].
    cbn. split; [exact Hx | apply Forall_rev_bytes; exact Hb].
  - intros [[x' rin'] out'] _. apply good_ret. exact I.
  - lia.
Qed.

Lemma from_le_bound : forall l, bytes_ok l -> from_le l < 256 ^ nlen l.
Proof.
  induction l as [|b l IH]; intros Hb; cbn [from_le nlen]; [cbn; lia|].
  inversion Hb as [|? ? Hb1 Hb2]; subst. specialize (IH Hb2). unfold is_byte in Hb1.
  replace (256 ^ (1 + nlen l)) with (256 * 256 ^ nlen l) by (rewrite N.pow_add_r; reflexivity). nia.
Qed.
Lemma Forall_skipn' {A} (P : A -> Prop) : forall n (l : list A), Forall P l -> Forall P (skipn n l).
Proof.
  induction n as [|n IH]; intros l H; [exact H|]. destruct l as [|x l]; [exact H|].
  cbn [skipn]. apply IH. inversion H; assumption.
Qed.
Lemma Forall_firstn' {A} (P : A -> Prop) : forall n (l : list A), Forall P l -> Forall P (firstn n l).
Proof.
  induction n as [|n IH]; intros l H; [constructor|]. destruct l as [|x l]; [constructor|].
  cbn [firstn]. inversion H; subst. constructor; [assumption | apply IH; assumption].
Qed.

Lemma rans_single_good t bytes outlen :
  rans_table_ok t -> bytes_ok bytes ->
  good (fun _ => True) MAX_PREALLOC (rans_single t bytes outlen).
Proof.
  intros Ht Hb. unfold rans_single. destruct (N.ltb_spec (nlen bytes) 8) as [|H8]; [apply good_err_le; lia|].
  eapply good_bind_le with (b1 := N.min outlen MAX_PREALLOC) (b2 := 0).
  - change (with_capacity (N.min outlen MAX_PREALLOC) 1) with (reserve (N.min outlen MAX_PREALLOC)).
    apply reserve_good. unfold MAX_PREALLOC, ISIZE_MAX, W63. lia.
  - intros _ _. apply rans_run_good; [exact Ht | | apply Forall_firstn'; exact Hb].
    set (tail := skipn (N.to_nat (nlen bytes - 8)) bytes).
    assert (Hl : nlen tail = 8) by (unfold tail; rewrite skipn_nlen; lia).
    pose proof (from_le_bound tail (Forall_skipn' _ _ _ Hb)) as Hf. rewrite Hl in Hf.
    change (256 ^ 8) with W64 in Hf. exact Hf.
  - lia.
Qed.

(* ---------- parallel streams ---------- *)
Lemma take_words_ok : forall n w bytes vs rest, bytes_ok bytes ->
  R.take_words n w bytes = Some (vs, rest) ->
  Forall (fun v => v < 256 ^ N.of_nat w) vs /\ bytes_ok rest.
Proof.
  induction n as [|n IH]; intros w bytes vs rest Hb H; cbn [R.take_words] in H.
  - injection H as <- <-. split; [constructor|exact Hb].
  - destruct (Nat.ltb_spec (length bytes) w) as [|Hw]; [discriminate|].
    destruct (R.take_words n w (skipn w bytes)) as [[vs' rest']|] eqn:E; [|discriminate].
    injection H as <- <-. destruct (IH w _ _ _ (Forall_skipn' _ _ _ Hb) E) as [H1 H2].
    split; [|exact H2]. constructor; [|exact H1].
    pose proof (from_le_bound (firstn w bytes) (Forall_firstn' _ _ _ Hb)) as Hf.
    rewrite nlen_length, firstn_length, Nat.min_l in Hf by lia. exact Hf.
Qed.
Lemma take_slices_ok : forall lens bytes ss, bytes_ok bytes ->
  R.take_slices lens bytes = Some ss -> Forall bytes_ok ss.
Proof.
  induction lens as [|l r IH]; intros bytes ss Hb H; cbn [R.take_slices] in H.
  - injection H as <-. constructor.
  - destruct (nlen bytes <? l); [discriminate|].
    destruct (R.take_slices r (skipn (N.to_nat l) bytes)) as [ss'|] eqn:E; [|discriminate].
    injection H as <-. constructor; [apply Forall_firstn'; exact Hb|].
    eapply IH; [|exact E]. apply Forall_skipn'. exact Hb.
Qed.

Lemma rans_streams_good t n outlen : rans_table_ok t ->
  forall sts datas k, Forall (fun v => v < W64) sts -> Forall bytes_ok datas ->
  good (fun _ => True) (nlen sts * MAX_PREALLOC) (rans_streams t n outlen k sts datas).
Proof.
  intros Ht. induction sts as [|x sts IH]; intros datas k Hs Hd; cbn [rans_streams nlen].
  - apply good_ret_le. exact I.
  - destruct datas as [|dta datas]; [apply good_ret_le; exact I|].
    inversion Hs as [|? ? Hx Hs']; subst. inversion Hd as [|? ? Hb Hd']; subst.
    set (count := outlen / n + (if k <? outlen mod n then 1 else 0)).
    eapply good_bind_le with (b1 := N.min count MAX_PREALLOC) (b2 := nlen sts * MAX_PREALLOC).
    + change (with_capacity (N.min count MAX_PREALLOC) 1) with (reserve (N.min count MAX_PREALLOC)).
      apply reserve_good. unfold MAX_PREALLOC, ISIZE_MAX, W63. lia.
    + intros _ _. eapply good_bind_le with (b1 := 0) (b2 := nlen sts * MAX_PREALLOC);
        [apply rans_run_good; assumption| |lia].
      intros syms _. eapply good_bind_le with (b2 := 0); [apply IH; assumption| |lia].
      intros r _. apply good_ret. exact I.
    + unfold MAX_PREALLOC. lia.
Qed.

Lemma opt_err_good {A} (o : option A) (P : A -> Prop) :
  (forall a, o = Some a -> P a) -> good P 0 (opt_err o).
Proof. intros H. destruct o; [apply good_ret; apply H; reflexivity | apply good_err]. Qed.

Lemma take_words_length : forall n w bytes vs rest,
  R.take_words n w bytes = Some (vs, rest) -> length vs = n.
Proof.
  induction n as [|n IH]; intros w bytes vs rest H; cbn [R.take_words] in H.
  - injection H as <- <-. reflexivity.
  - destruct (length bytes <? w)%nat; [discriminate|].
    destruct (R.take_words n w (skipn w bytes)) as [[vs' rest']|] eqn:E; [|discriminate].
    injection H as <- <-. cbn [length]. f_equal. eapply IH. exact E.
Qed.

Lemma rans_parallel_good n t bytes outlen :
  n <= 8 -> outlen <= MAX_DECOMPRESSED -> rans_table_ok t -> bytes_ok bytes ->
  good (fun _ => True) (8 * (56 + MAX_PREALLOC) + outlen) (rans_parallel n t bytes outlen).
Proof.
  intros Hn Hout Ht Hb. unfold rans_parallel.
  destruct (outlen <? n).
  { eapply good_weaken; [apply rans_single_good; assumption | auto | unfold MAX_PREALLOC; lia]. }
  destruct (nlen bytes <? n * 8 + n * 4); [apply good_err_le; lia|].
  assert (HI : forall m, m <= 24 -> n * m <= ISIZE_MAX) by (intros m Hm; unfold ISIZE_MAX, W63; nia).
  eapply good_bind_le with (b1 := n * 8) (b2 := 8 * (48 + MAX_PREALLOC) + outlen);
    [apply with_capacity_good; apply HI; lia| |lia]. intros _ _.
  eapply good_bind_le with (P := fun '(sts, r1) => Forall (fun v => v < W64) sts /\ bytes_ok r1 /\ nlen sts = n)
                           (b1 := 0) (b2 := 8 * (48 + MAX_PREALLOC) + outlen).
  { apply opt_err_good. intros [sts r1] E. destruct (take_words_ok _ _ _ _ _ Hb E) as [H1 H2].
    split; [exact H1|]. split; [exact H2|]. rewrite nlen_length, (take_words_length _ _ _ _ _ E). lia. }
  2: lia.
  intros [sts r1] (Hsts & Hr1 & Hlen).
  eapply good_bind_le with (b1 := n * 8) (b2 := 8 * (40 + MAX_PREALLOC) + outlen);
    [apply with_capacity_good; apply HI; lia| |lia]. intros _ _.
  eapply good_bind_le with (P := fun '(lens, r2) => bytes_ok r2) (b1 := 0) (b2 := 8 * (40 + MAX_PREALLOC) + outlen).
  { apply opt_err_good. intros [lens r2] E. exact (proj2 (take_words_ok _ _ _ _ _ Hr1 E)). }
  2: lia.
  intros [lens r2] Hr2.
  eapply good_bind_le with (b1 := n * 16) (b2 := 8 * (24 + MAX_PREALLOC) + outlen);
    [apply with_capacity_good; apply HI; lia| |lia]. intros _ _.
  eapply good_bind_le with (P := fun datas => Forall bytes_ok datas) (b1 := 0) (b2 := 8 * (24 + MAX_PREALLOC) + outlen).
  { apply opt_err_good. intros datas E. exact (take_slices_ok _ _ _ Hr2 E). }
  2: lia.
  intros datas Hd.
  eapply good_bind_le with (b1 := n * 24) (b2 := 8 * MAX_PREALLOC + outlen);
    [apply with_capacity_good; apply HI; lia| |lia]. intros _ _.
  eapply good_bind_le with (b1 := nlen sts * MAX_PREALLOC) (b2 := outlen);
    [apply rans_streams_good; assumption| |rewrite Hlen; unfold MAX_PREALLOC; lia]. intros per _.
  eapply good_bind_le with (b1 := outlen) (b2 := 0).
  - change (with_capacity outlen 1) with (reserve outlen). apply reserve_good.
    unfold MAX_DECOMPRESSED in Hout. unfold ISIZE_MAX, W63. lia.
  - intros _ _. apply good_ret. exact I.
  - lia.
Qed.

Lemma rans_decode_good n t bytes outlen :
  n <= 8 -> rans_table_ok t -> bytes_ok bytes ->
  good (fun _ => True) (8 * (56 + MAX_PREALLOC) + N.min outlen MAX_DECOMPRESSED) (rans_decode n t bytes outlen).
Proof.
  intros Hn Ht Hb. unfold rans_decode.
  destruct (outlen =? 0); [apply good_ret_le; exact I|].
  destruct (N.ltb_spec MAX_DECOMPRESSED outlen) as [|Hout]; [apply good_err_le; lia|].
  rewrite N.min_l by exact Hout.
  destruct (n =? 1).
  - eapply good_weaken; [apply rans_single_good; assumption | auto | unfold MAX_PREALLOC; lia].
  - apply rans_parallel_good; assumption.
Qed.

(* ---------- FSE header ---------- *)
Lemma fast_div_fixed_no_panic d : fast_div_new true d <> Panic.
Proof. unfold fast_div_new. destruct (d =? 0); discriminate. Qed.
(* before fix 7376e1a: a frequency sum of 2^31 or more shifts a u64 by 64 *)
Lemma fast_div_unfixed_panics : fast_div_new false 2147483648 = Panic.
Proof. vm_compute. reflexivity. Qed.

Lemma fse_single_ok data :
  nlen data < 2 ^ 60 ->
  fsev_no_panic (fse_single_v true data) /\
  fsev_alloc (fse_single_v true data) <= nlen data + FSE_TABLE_BYTES + MAX_PREALLOC.
Proof.
  intros Hlen. rewrite P60 in Hlen. unfold fse_single_v, fsev_no_panic.
  destruct data as [|d0 data']; [split; [discriminate|cbn [fsev_alloc alloc_of ret]; lia]|].
  set (data := d0 :: data') in *.
  destruct (nlen data <? 5); [split; [discriminate|cbn [fsev_alloc alloc_of ret]; lia]|].
  destruct (from_le (firstn 4 data) =? 0); [split; [discriminate|cbn [fsev_alloc alloc_of ret]; lia]|].
  destruct (MAX_DECOMPRESSED <? from_le (firstn 4 data)); [split; [discriminate|cbn [fsev_alloc alloc_of ret]; lia]|].
  set (osz := from_le (firstn 4 data)).
  assert (Hbody : nlen (skipn 5 data) <= nlen data) by (rewrite skipn_nlen_nat; lia).
  destruct (nth 4 data 0 =? 255).
  { destruct (N.ltb_spec (nlen (skipn 5 data)) osz) as [|Hfit]; [split; [discriminate|cbn [fsev_alloc alloc_of ret]; lia]|].
    unfold reserve, with_capacity. destruct (N.ltb_spec ISIZE_MAX (osz * 1)) as [Hbig|_].
    - unfold ISIZE_MAX, W63 in Hbig. lia.
    - cbn [bind ret]. split; [discriminate|cbn [fsev_alloc alloc_of]; lia]. }
  destruct ((nth 4 data 0 <? 5) || (15 <? nth 4 data 0)); [split; [discriminate|cbn [fsev_alloc alloc_of ret]; lia]|].
  destruct (nlen (skipn 5 data) <? 2); [split; [discriminate|cbn [fsev_alloc alloc_of ret]; lia]|].
  destruct (F.read_pairs _ _ _) as [[freqs rest]|]; [|split; [discriminate|cbn [fsev_alloc alloc_of ret]; lia]].
  destruct (max_symbol freqs =? 0); [split; [discriminate|cbn [fsev_alloc alloc_of ret]; lia]|].
  destruct (checked_sum32 freqs 0) as [total|]; [|split; [discriminate|cbn [fsev_alloc alloc_of ret]; lia]].
  destruct (total =? 0); [split; [discriminate|cbn [fsev_alloc alloc_of ret]; lia]|].
  pose proof (fast_div_fixed_no_panic total) as Hfd.
  destruct (fast_div_new true total); [| |congruence]; (split; [discriminate | cbn [fsev_alloc]; unfold MAX_PREALLOC; lia]).
Qed.

Lemma fse_blocks_no_panic : forall sizes bytes out alloc,
  (forall b, nlen b < 2 ^ 60 -> fsev_no_panic (fse_single_v true b)) ->
  nlen bytes < 2 ^ 60 -> fsev_no_panic (fse_blocks_v sizes bytes out alloc).
Proof.
  induction sizes as [|sz r IH]; intros bytes out alloc Hs Hlen; cbn [fse_blocks_v]; unfold fsev_no_panic; [discriminate|].
  destruct (N.ltb_spec (nlen bytes) sz) as [|Hfit]; [discriminate|].
  assert (Hb : nlen (firstn (N.to_nat sz) bytes) < 2 ^ 60) by (rewrite firstn_nlen by exact Hfit; lia).
  pose proof (Hs _ Hb) as Hnp. unfold fsev_no_panic in Hnp.
  destruct (fse_single_v true (firstn (N.to_nat sz) bytes)) as [[o a|a|]|a]; try discriminate; [|congruence].
  destruct (MAX_DECOMPRESSED - nlen out <? nlen o); [discriminate|].
  apply IH; [exact Hs|]. rewrite skipn_nlen. lia.
Qed.

Lemma fse_decompress_no_panic data : nlen data < 2 ^ 60 -> fsev_no_panic (fse_decompress_v data).
Proof.
  intros Hlen. unfold fse_decompress_v.
  assert (Hs : forall b, nlen b < 2 ^ 60 -> fsev_no_panic (fse_single_v true b)) by (intros b Hb; apply fse_single_ok; exact Hb).
  destruct data as [|d0 data']; [unfold fsev_no_panic; discriminate|]. set (data := d0 :: data') in *.
  destruct (_ && _); [|apply Hs; exact Hlen].
  destruct (F.sniff_sizes _ _ _ _) as [total|]; [|apply Hs; exact Hlen].
  destruct (_ =? _); [|apply Hs; exact Hlen].
  destruct (R.take_words _ _ _) as [[sizes rest]|] eqn:E; [|unfold fsev_no_panic; discriminate].
  apply fse_blocks_no_panic; [exact Hs|].
  (* the rest is a suffix of the data *)
  assert (Hr : nlen rest <= nlen (skipn 4 data)).
  { clear -E. revert E. generalize (skipn 4 data). generalize (N.to_nat (from_le (firstn 4 data))).
    intros n. revert sizes rest. induction n as [|n IH]; intros sizes rest l E; cbn [R.take_words] in E.
    - injection E as <- <-. lia.
    - destruct (length l <? 4)%nat; [discriminate|].
      destruct (R.take_words n 4 (skipn 4 l)) as [[vs r]|] eqn:E2; [|discriminate].
      injection E as <- <-. specialize (IH _ _ _ E2). rewrite skipn_nlen_nat in IH. lia. }
  rewrite skipn_nlen_nat in Hr. lia.
Qed.
