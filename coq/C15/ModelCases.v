(* C15: entry point of the harness-generated case files.
   A case is (pid, arg, aux, bytes, (pad_count, pad_byte), code, vals):
     the parser `pid` was run on  bytes ++ repeat pad_byte pad_count  with argument `arg` (long inputs are
     shipped in this run-length form) and, for parsers with a trained / configured state, the auxiliary
     numbers `aux`; the implementation reported `code` (0 value, 1 error, 2 panic / abort / timeout) and
     the observed values `vals`.
   Parsers 1..81 are the ones of Model.v (run_model / check_case); the ids from 90 on are dispatched here.
   A model value WILD (-2) stands for a part the model leaves open (zstd) and matches anything;
   `OkOrErr` is the verdict of a parser whose acceptance depends on HashMap iteration order
   (HuffmanTree::deserialize on a table that is not prefix free). *)
From ZV.Common Require Import Base Run.
From ZV.C15 Require Import Model ModelBlob ModelIo2.
Open Scope N_scope.

Inductive verdict : Type :=
| Exact (r : res (list Z))
| OkOrErr (v : list Z) (alloc : N).

Definition xcase : Type := N * N * list N * list N * (N * N) * N * list Z.

Definition run_model2 (pid arg : N) (aux data : list N) : option verdict :=
  match pid with
  (* 50: read_length_prefixed_bytes with the growth of the buffer in the accounting (ModelIo2) *)
  | 50 => Some (Exact (sdi_lp_bytes_g false data))
  | 90 => Some (Exact (suv_cell data))
  | 91 => Some (Exact (zo_cell data))
  | _ => None
  end.

Definition model2_ids : list N := [50; 90; 91].

Fixpoint match_vals (m v : list Z) : bool :=
  match m, v with
  | [], [] => true
  | x :: m', y :: v' => (Z.eqb x WILD || Z.eqb x y) && match_vals m' v'
  | _, _ => false
  end.
Definition vals_ok (m v : list Z) : bool :=
  if 200 <=? nlen m then match_vals (firstn 200 m) v else match_vals m v.

Definition check_verdict (vd : verdict) (code : N) (vals : list Z) : bool :=
  match vd with
  | Exact Panic => code =? 2
  | Exact (Err a) => if AS_LIMIT <=? a then code =? 2 else code =? 1
  | Exact (Ok v a) => if AS_LIMIT <=? a then code =? 2 else (code =? 0) && vals_ok v vals
  | OkOrErr v a => if AS_LIMIT <=? a then code =? 2 else (code =? 1) || ((code =? 0) && vals_ok v vals)
  end.

Definition xdata (bytes : list N) (pad : N * N) : list N :=
  match fst pad with
  | 0 => bytes
  | n => bytes ++ repeat (snd pad) (N.to_nat n)
  end.

Definition xok (c : xcase) : bool :=
  let '(pid, arg, aux, bytes, pad, code, vals) := c in
  let data := xdata bytes pad in
  match run_model2 pid arg aux data with
  | Some vd => check_verdict vd code vals
  | None => check_case pid arg data code vals
  end.
