(* C15: entry point of the harness-generated case files.
   A case is (pid, arg, aux, bytes, (pad_count, pad_byte), code, vals):
     the parser `pid` was run on  bytes ++ repeat pad_byte pad_count  with argument `arg` (long inputs are
     shipped in this run-length form) and, for parsers with a trained / configured state, the auxiliary
     numbers `aux`; the implementation reported `code` (0 value, 1 error, 2 panic / abort / timeout) and
     the observed values `vals`.
   Parsers 1..81 are the ones of Model.v (run_model / check_case); the ids from 90 on are dispatched here.
   A model value WILD (-2) stands for a part the model leaves open (zstd) and matches anything;
   `OkOrErr` is the verdict of a parser whose acceptance depends on HashMap iteration order
   (HuffmanTree::deserialize on a table that is not prefix free). *)
From ZV.Common Require Import Base Run.
From ZV.C15 Require Import Model ModelBlob ModelIo2 ModelHuff ModelEntropy ModelFiles ModelB64.
Open Scope N_scope.

Inductive verdict : Type :=
| Exact (r : res (list Z))
| OkOrErr (v : list Z) (alloc : N)
(* a value or an error, both fine, the value is not predicted (decoding with a tree whose shape depends
   on the HashMap order) *)
| AnyValue
(* the model predicts a prefix of the observation (the output length, not its bytes) *)
| PrefixOf (r : res (list Z)).

(* contextual Huffman encoders parsed once per case file: (key, encoder) *)
Definition cenv_t : Type := list (N * HC.cenc).
(* The serialized encoders arrive packed, 7 bytes per primitive-integer literal (coqc reads those an order
   of magnitude faster than N literals).  The unpacking (`mk_cenv`, which needs Coq's Uint63 library and its
   axiomatised specification) is defined in the header of every generated case file, NOT here: nothing the
   theorems depend on imports primitive integers. *)
Definition cenv_get (env : cenv_t) (aux : list N) : option HC.cenc :=
  match aux with
  | k :: _ => match find (fun p => fst p =? k) env with Some p => Some (snd p) | None => None end
  | [] => None
  end.

Definition zlist (l : list N) : list Z := map Z.of_N l.
(* deserialize-then-use cells: exact when the table is order-free *)
Definition ht_then (data : list N) (free_k : H.table -> N -> res (list Z)) (other : list Z -> N -> verdict) : verdict :=
  match ht_deser true data with
  | Ok (tb, ml) a => if order_free tb then Exact ('(tb, ml) <- ht_deser true data ;; free_k tb ml) else other [Z.of_N ml] a
  | Err a => Exact (Err a)
  | Panic => Exact Panic
  end.
Definition neg1_len (r : res (list N)) : Z := match r with Ok v _ => Z.of_N (nlen v) | _ => (-1)%Z end.
Definition xn_streams (pid : N) : nat :=
  if pid =? 108 then 1%nat else if pid =? 109 then 2%nat else if pid =? 110 then 4%nat else 8%nat.

Definition xcase : Type := N * N * list N * list N * (N * N) * N * list Z.

Definition run_model2 (env : cenv_t) (pid arg : N) (aux data : list N) : option verdict :=
  match pid with
  (* HuffmanTree::deserialize: [max_code_length] *)
  | 100 => Some (ht_then data (fun tb ml => _ <- ht_build tb ;; ret [Z.of_N ml]) OkOrErr)
  (* HuffmanDecoder::decode with the trained tree (aux = tree.serialize()) *)
  | 101 => match tree_of_aux aux with
           | Some root => Some (Exact (obsR (huff_decode_o true root data arg)))
           | None => None
           end
  (* HuffmanTree::deserialize, then decode PAYLOAD *)
  | 102 => Some (ht_then data (fun tb _ => root <- ht_build tb ;; obsR (huff_decode_o true root PAYLOAD arg))
                         (fun _ _ => AnyValue))
  (* ContextualHuffmanEncoder::deserialize: [tree_count] *)
  | 103 => Some (match ctx_deser true data with
                 | Ok e a => let v := [Z.of_N (nlen (HC.c_trees e))] in if ctx_free e then Exact (Ok v a) else OkOrErr v a
                 | Err a => Exact (Err a)
                 | Panic => Exact Panic
                 end)
  (* deserialize, decode_x2(PAYLOAD, min(arg, 64)), ContextualHuffmanDecoder::decode(PAYLOAD, arg) *)
  | 104 => Some (match ctx_deser true data with
                 | Ok e a =>
                     if ctx_free e then
                       Exact (e <- ctx_deser true data ;;
                              let x := neg1_len (xn_decode_o e 2 PAYLOAD (N.min arg 64)) in
                              v <- ctx_decode_o e PAYLOAD arg ;;
                              ret [Z.of_N (nlen v); x])
                     else AnyValue
                 | Err a => Exact (Err a)
                 | Panic => Exact Panic
                 end)
  (* ContextualHuffmanDecoder::decode, orders 0 / 1 / 2, encoder from the environment *)
  | 105 => match cenv_get env aux with
           | Some e => Some (Exact (obsR (ctx_decode_o e data arg)))
           | None => None
           end
  (* hex_decode(&str): aux = [1] when the bytes are valid UTF-8 (the harness refuses others itself) *)
  | 82 => Some (Exact (match aux with 1 :: _ => hex_dec data | _ => Err 0 end))
  (* AdaptiveBase64::decode, configuration pid - 150; aux as for 82 *)
  | 150 | 151 | 152 | 153 => Some (Exact (match aux with 1 :: _ => obsR (b64_dec (pid - 150) data) | _ => Err 0 end))
  | 140 => Some (Exact (mv_cell data))
  | 141 => Some (Exact (ro_cell data))
  | 142 => Some (Exact (dict_deser data))
  | 143 => Some (PrefixOf (n <- slz_dec true data ;; ret [Z.of_N n]))
  (* Rans64Decoder<x1/x2/x4/x8>::decode, aux = the 256 normalised frequencies of the trained table *)
  | 120 | 121 | 122 | 123 =>
           Some (Exact (obsR (rans_decode (if pid =? 120 then 1 else if pid =? 121 then 2 else if pid =? 122 then 4 else 8) aux data arg)))
  (* fse_decompress / fse_decompress_with_config: exact up to the end of the header validation *)
  | 130 => Some (match fse_decompress_v data with
                 | FVal r => Exact (obsR r)
                 | FAny a => if AS_LIMIT <=? a then Exact Panic else AnyValue
                 end)
  (* decode_x1 / x2 / x4 / x8 *)
  | 108 | 109 | 110 | 111 =>
           match cenv_get env aux with
           | Some e => Some (Exact (obsR (xn_decode_o e (xn_streams pid) data arg)))
           | None => None
           end
  (* 50: read_length_prefixed_bytes with the growth of the buffer in the accounting (ModelIo2) *)
  | 50 => Some (Exact (sdi_lp_bytes_g false data))
  (* read_length_prefixed_bytes through ReaderDataInput / RangeReader / MmapDataInput (the provided
     read_vec over their read_bytes): [length; first 24 bytes] *)
  | 53 => Some (Exact ('(len, n) <- leb_u data ;; rest <- advance data n ;;
                       '(v, _) <- read_vec_g false len rest ;; ret (obs_bytes v)))
  (* DataInput::read_vec(arg) on every input kind *)
  | 54 => Some (Exact ('(v, _) <- read_vec_g false arg data ;; ret (obs_bytes v)))
  | 90 => Some (Exact (suv_cell data))
  | 91 => Some (Exact (zo_cell data))
  | _ => None
  end.

Definition model2_ids : list N := [50; 53; 54; 90; 91; 100; 101; 102; 103; 104; 105; 108; 109; 110; 111; 120; 121; 122; 123; 130; 82; 140; 141; 142; 143; 150; 151; 152; 153].

Fixpoint match_vals (m v : list Z) : bool :=
  match m, v with
  | [], [] => true
  | x :: m', y :: v' => (Z.eqb x WILD || Z.eqb x y) && match_vals m' v'
  | _, _ => false
  end.
Definition vals_ok (m v : list Z) : bool :=
  if 200 <=? nlen m then match_vals (firstn 200 m) v else match_vals m v.

Definition check_verdict (vd : verdict) (code : N) (vals : list Z) : bool :=
  match vd with
  | Exact Panic => code =? 2
  | Exact (Err a) => if AS_LIMIT <=? a then code =? 2 else code =? 1
  | Exact (Ok v a) => if AS_LIMIT <=? a then code =? 2 else (code =? 0) && vals_ok v vals
  | OkOrErr v a => if AS_LIMIT <=? a then code =? 2 else (code =? 1) || ((code =? 0) && vals_ok v vals)
  | AnyValue => (code =? 0) || (code =? 1)
  | PrefixOf Panic => code =? 2
  | PrefixOf (Err a) => if AS_LIMIT <=? a then code =? 2 else code =? 1
  | PrefixOf (Ok v a) => if AS_LIMIT <=? a then code =? 2 else (code =? 0) && prefix_eq v vals
  end.

Definition xdata (bytes : list N) (pad : N * N) : list N :=
  match fst pad with
  | 0 => bytes
  | n => bytes ++ repeat (snd pad) (N.to_nat n)
  end.

Definition xok_env (env : cenv_t) (c : xcase) : bool :=
  let '(pid, arg, aux, bytes, pad, code, vals) := c in
  let data := xdata bytes pad in
  match run_model2 env pid arg aux data with
  | Some vd => check_verdict vd code vals
  | None => check_case pid arg data code vals
  end.
Definition xok : xcase -> bool := xok_env [].
