(* C05, double array: facts about the FastVec<u32> model (length + finite map), the u32 bit operations used
   by the code, and the getters of the storage after each primitive write. *)
From ZV.Common Require Import Base Run.
From Coq Require Import FMapPositive.
From ZV.C05 Require Import Model ModelFsa ModelDa.
Open Scope N_scope.

(* ---------------------------------------------------------------- indices *)
Lemma succ_pos_inj a b : N.succ_pos a = N.succ_pos b -> a = b.
Proof.
  intro H. assert (E : N.pos (N.succ_pos a) = N.pos (N.succ_pos b)) by (rewrite H; reflexivity).
  rewrite !N.succ_pos_spec in E. lia.
Qed.

(* ---------------------------------------------------------------- aget / aset / aresize *)
Lemma aset_len a i v : a_len (aset a i v) = a_len a.
Proof. unfold aset. destruct (i <? a_len a); reflexivity. Qed.

Lemma aget_aset dflt a i v j :
  aget dflt (aset a i v) j = if ((j =? i) && (i <? a_len a))%bool then v else aget dflt a j.
Proof.
  unfold aset, aget. destruct (N.ltb_spec i (a_len a)) as [Hi|Hi]; cbn [a_len a_map].
  - destruct (N.eqb_spec j i) as [->|Hne]; cbn [andb].
    + apply N.ltb_lt in Hi. rewrite Hi. rewrite PositiveMap.gss. reflexivity.
    + rewrite PositiveMap.gso; [reflexivity|]. intro E. apply succ_pos_inj in E. contradiction.
  - rewrite andb_false_r. reflexivity.
Qed.

Lemma afill_find : forall cnt m from v j,
  PositiveMap.find (N.succ_pos j) (afill m from cnt v) =
  if ((from <=? j) && (j <? from + N.of_nat cnt))%bool then Some v else PositiveMap.find (N.succ_pos j) m.
Proof.
  induction cnt as [|c IH]; intros m from v j; cbn [afill].
  - destruct (N.leb_spec from j); destruct (N.ltb_spec j (from + N.of_nat 0)); cbn [andb]; try reflexivity. lia.
  - rewrite IH.
    destruct (N.leb_spec (from + 1) j) as [H1|H1]; destruct (N.ltb_spec j (from + 1 + N.of_nat c)) as [H2|H2]; cbn [andb].
    + replace (from <=? j) with true by (symmetry; apply N.leb_le; lia).
      replace (j <? from + N.of_nat (S c)) with true by (symmetry; apply N.ltb_lt; lia). reflexivity.
    + replace (j <? from + N.of_nat (S c)) with false by (symmetry; apply N.ltb_ge; lia).
      rewrite andb_false_r. rewrite PositiveMap.gso; [reflexivity|]. intro E. apply succ_pos_inj in E. lia.
    + destruct (N.eq_dec j from) as [->|Hne].
      * rewrite PositiveMap.gss. replace (from <=? from) with true by (symmetry; apply N.leb_le; lia).
        replace (from <? from + N.of_nat (S c)) with true by (symmetry; apply N.ltb_lt; lia). reflexivity.
      * rewrite PositiveMap.gso by (intro E; apply succ_pos_inj in E; contradiction).
        replace (from <=? j) with false by (symmetry; apply N.leb_gt; lia). reflexivity.
    + destruct (N.eq_dec j from) as [->|Hne]; [lia|].
      rewrite PositiveMap.gso by (intro E; apply succ_pos_inj in E; contradiction).
      replace (from <=? j) with false by (symmetry; apply N.leb_gt; lia). reflexivity.
Qed.

Lemma aresize_len a n v : a_len (aresize a n v) = n.
Proof. reflexivity. Qed.

(* growing with the fill value does not change any read *)
Lemma aget_aresize v a n j : a_len a <= n -> aget v (aresize a n v) j = aget v a j.
Proof.
  intro H. unfold aget, aresize. cbn [a_len a_map]. rewrite afill_find.
  rewrite N2Nat.id.
  destruct (N.ltb_spec j (a_len a)) as [H1|H1].
  - replace (j <? n) with true by (symmetry; apply N.ltb_lt; lia).
    replace (a_len a <=? j) with false by (symmetry; apply N.leb_gt; lia). reflexivity.
  - destruct (N.ltb_spec j n) as [H2|H2]; [|reflexivity].
    replace (a_len a <=? j) with true by (symmetry; apply N.leb_le; lia).
    replace (j <? a_len a + (n - a_len a)) with true by (symmetry; apply N.ltb_lt; lia). reflexivity.
Qed.

Lemma aget_oob dflt a j : a_len a <= j -> aget dflt a j = dflt.
Proof. intro H. unfold aget. replace (j <? a_len a) with false by (symmetry; apply N.ltb_ge; lia). reflexivity. Qed.

(* ---------------------------------------------------------------- u32 bit operations *)
Lemma W31_eq : 2147483648 = 2^31. Proof. reflexivity. Qed.

Lemma mask_small v : v < 2147483648 -> N.land v VALUE_MASK = v.
Proof.
  intro H. unfold VALUE_MASK. change 2147483647 with (N.ones 31). rewrite N.land_ones.
  apply N.mod_small. rewrite <- W31_eq. assumption.
Qed.
Lemma mask_lt w : N.land w VALUE_MASK < 2147483648.
Proof.
  unfold VALUE_MASK. change 2147483647 with (N.ones 31). rewrite N.land_ones. rewrite <- W31_eq.
  apply N.mod_lt. discriminate.
Qed.
Lemma land_term_small v : v < 2147483648 -> N.land v TERMINAL_BIT = 0.
Proof.
  intro H. unfold TERMINAL_BIT. change 2147483648 with (1 * 2^31). apply land_low_high.
  rewrite <- W31_eq. assumption.
Qed.
Lemma has_term_small v : v < 2147483648 -> has_term v = false.
Proof. intro H. unfold has_term. rewrite land_term_small by assumption. reflexivity. Qed.
Lemma is_free_small v : v < 2147483648 -> is_free_word v = false.
Proof. intro H. unfold is_free_word. change FREE_BIT with TERMINAL_BIT. rewrite land_term_small by assumption. reflexivity. Qed.
Lemma FREE_WORD_eq : FREE_WORD = 4294967295.
Proof. reflexivity. Qed.
Lemma is_free_FREE_WORD : is_free_word FREE_WORD = true.
Proof. reflexivity. Qed.
Lemma has_term_NIL : has_term NIL_STATE = false.
Proof. reflexivity. Qed.
Lemma mask_NIL : N.land NIL_STATE VALUE_MASK = NIL_STATE.
Proof. reflexivity. Qed.

Lemma land_T_M : N.land TERMINAL_BIT VALUE_MASK = 0. Proof. reflexivity. Qed.
Lemma land_T_T : N.land TERMINAL_BIT TERMINAL_BIT = TERMINAL_BIT. Proof. reflexivity. Qed.

(* w | TERMINAL_BIT keeps the value bits and sets the terminal bit *)
Lemma mask_lor_term w : N.land (N.lor w TERMINAL_BIT) VALUE_MASK = N.land w VALUE_MASK.
Proof. rewrite N.land_lor_distr_l, land_T_M, N.lor_0_r. reflexivity. Qed.
Lemma has_term_lor_term w : has_term (N.lor w TERMINAL_BIT) = true.
Proof.
  unfold has_term. rewrite N.land_lor_distr_l, land_T_T.
  destruct (N.eqb_spec (N.lor (N.land w TERMINAL_BIT) TERMINAL_BIT) 0) as [E|E]; [|reflexivity].
  apply N.lor_eq_0_iff in E as [_ E]. discriminate.
Qed.
(* v | (old & TERMINAL_BIT) for a value v below 2^31: value v, terminal bit of old *)
Lemma mask_lor_keep v old : v < 2147483648 -> N.land (N.lor v (N.land old TERMINAL_BIT)) VALUE_MASK = v.
Proof.
  intro H. rewrite N.land_lor_distr_l, <- N.land_assoc, land_T_M, N.land_0_r, N.lor_0_r. apply mask_small; assumption.
Qed.
Lemma has_term_lor_keep v old : v < 2147483648 -> has_term (N.lor v (N.land old TERMINAL_BIT)) = has_term old.
Proof.
  intro H. unfold has_term. rewrite N.land_lor_distr_l, land_term_small by assumption.
  rewrite N.lor_0_l, <- N.land_assoc, land_T_T. reflexivity.
Qed.
(* if t { v | TERMINAL_BIT } else { v } *)
Lemma mask_cond_term v (t : bool) : v < 2147483648 -> N.land (if t then N.lor v TERMINAL_BIT else v) VALUE_MASK = v.
Proof. intro H. destruct t; [rewrite mask_lor_term|]; apply mask_small; assumption. Qed.
Lemma has_term_cond_term v (t : bool) : v < 2147483648 -> has_term (if t then N.lor v TERMINAL_BIT else v) = t.
Proof. intro H. destruct t; [apply has_term_lor_term | apply has_term_small; assumption]. Qed.

Lemma sat_add_small a b : a + b <= U32_MAX -> sat_add a b = a + b.
Proof. intro H. unfold sat_add. apply N.min_l. assumption. Qed.

(* ---------------------------------------------------------------- getters of the storage *)
Lemma blen_bset d i v : blen (bset d i v) = blen d.
Proof. unfold blen, bset. cbn [d_base]. apply aset_len. Qed.
Lemma clen_bset d i v : clen (bset d i v) = clen d.
Proof. reflexivity. Qed.
Lemma blen_cset d i v : blen (cset d i v) = blen d.
Proof. reflexivity. Qed.
Lemma clen_cset d i v : clen (cset d i v) = clen d.
Proof. unfold clen, cset. cbn [d_check]. apply aset_len. Qed.

Lemma bget_bset d i v j : bget (bset d i v) j = if ((j =? i) && (i <? blen d))%bool then v else bget d j.
Proof. unfold bget, bset, blen. cbn [d_base]. apply aget_aset. Qed.
Lemma cget_bset d i v j : cget (bset d i v) j = cget d j.
Proof. reflexivity. Qed.
Lemma bget_cset d i v j : bget (cset d i v) j = bget d j.
Proof. reflexivity. Qed.
Lemma cget_cset d i v j : cget (cset d i v) j = if ((j =? i) && (i <? clen d))%bool then v else cget d j.
Proof. unfold cget, cset, clen. cbn [d_check]. apply aget_aset. Qed.

Lemma bget_oob d j : blen d <= j -> bget d j = NIL_STATE.
Proof. apply aget_oob. Qed.
Lemma cget_oob d j : clen d <= j -> cget d j = FREE_WORD.
Proof. apply aget_oob. Qed.

Lemma blen_resize d n : blen (da_resize d n) = n. Proof. reflexivity. Qed.
Lemma clen_resize d n : clen (da_resize d n) = n. Proof. reflexivity. Qed.
Lemma bget_resize d n j : blen d <= n -> bget (da_resize d n) j = bget d j.
Proof. intro H. unfold bget, da_resize. cbn [d_base]. apply aget_aresize. assumption. Qed.
Lemma cget_resize d n j : clen d <= n -> cget (da_resize d n) j = cget d j.
Proof. intro H. unfold cget, da_resize. cbn [d_check]. apply aget_aresize. assumption. Qed.

(* da_ensure only grows the arrays, no read changes *)
Lemma ensure_spec d pos : blen d = clen d ->
  let d' := da_ensure d pos in
  blen d' = clen d' /\ blen d' = N.max (blen d) (pos + 1) /\
  (forall j, bget d' j = bget d j) /\ (forall j, cget d' j = cget d j).
Proof.
  intro Hl. unfold da_ensure. destruct (N.leb_spec (blen d) pos) as [H|H]; cbn zeta.
  - rewrite blen_resize, clen_resize. split; [reflexivity|]. split; [lia|]. split; intro j.
    + apply bget_resize. lia.
    + apply cget_resize. lia.
  - split; [assumption|]. split; [lia|]. split; reflexivity.
Qed.

Lemma blen_new : blen da_new = 1. Proof. reflexivity. Qed.
