(* C05, double array: relocate_state, part 1 - what the loops of relocate_state write, slot by slot
   (update_grandchildren_check_values, the "free the old slots" loop, the "move" loop), without any invariant. *)
From ZV.Common Require Import Base Run.
From ZV.C05 Require Import Model ModelFsa ModelDa Spec ProofsBase ProofsRemove ProofsKeys ProofsFsa ProofsDaArr ProofsDaInv.
Open Scope N_scope.

(* ---------------------------------------------------------------- list helpers *)
Lemma find_some_iff {A} (f : A -> bool) l : (exists x, In x l /\ f x = true) -> exists y, find f l = Some y.
Proof.
  intros (x & Hin & Hx). destruct (find f l) as [y|] eqn:E; [exists y; reflexivity|].
  pose proof (find_none f l E x Hin). congruence.
Qed.

Lemma nodup_map_inj {A B} (f : A -> B) l x y : NoDup (map f l) -> In x l -> In y l -> f x = f y -> x = y.
Proof.
  induction l as [|a l IH]; intros ND Hx Hy E; [destruct Hx|].
  cbn [map] in ND. inversion ND as [|? ? Ha ND']; subst.
  destruct Hx as [<-|Hx]; destruct Hy as [<-|Hy]; try reflexivity.
  - exfalso. apply Ha. rewrite E. apply in_map. assumption.
  - exfalso. apply Ha. rewrite <- E. apply in_map. assumption.
  - apply IH; assumption.
Qed.

(* symbols 0..=255 added to a value below 2^31 sweep the window [g, g + 255] *)
Lemma in_window g j : g < 2147483648 ->
  existsb (fun sym => j =? sat_add g sym) byte_range = ((g <=? j) && (j <=? g + 255))%bool.
Proof.
  intro Hg. apply eq_true_iff_eq. rewrite existsb_exists, andb_true_iff, N.leb_le, N.leb_le. split.
  - intros (sym & Hin & E). apply byte_range_iff in Hin. apply N.eqb_eq in E.
    rewrite sat_add_small in E by (unfold U32_MAX; lia). lia.
  - intros [H1 H2]. exists (j - g). split; [apply byte_range_iff; lia|].
    apply N.eqb_eq. rewrite sat_add_small by (unfold U32_MAX; lia). lia.
Qed.

Lemma nf_eq w : negb (is_free_word w) = (N.land w FREE_BIT =? 0).
Proof. unfold is_free_word. apply negb_involutive. Qed.

(* ---------------------------------------------------------------- update_grandchildren_check_values *)
Definition ug_step (child_base old_parent_pos new_parent_pos : N) (d : da) (symbol : N) : da :=
  let grandchild_pos := sat_add child_base symbol in
  if grandchild_pos <? clen d then
    let check_val := cget d grandchild_pos in
    if (N.land check_val FREE_BIT =? 0) && (check_val =? old_parent_pos)
    then cset d grandchild_pos new_parent_pos else d
  else d.

Lemma ug_fold g o n : forall l d,
  let d' := fold_left (ug_step g o n) l d in
  blen d' = blen d /\ clen d' = clen d /\ (forall j, bget d' j = bget d j) /\
  (forall j, cget d' j =
     if (existsb (fun sym => j =? sat_add g sym) l && (j <? clen d) && negb (is_free_word (cget d j)) && (cget d j =? o))%bool
     then n else cget d j).
Proof.
  induction l as [|sym t IH]; intro d; cbn [fold_left existsb].
  - repeat split; reflexivity.
  - set (d1 := ug_step g o n d sym).
    assert (H1 : blen d1 = blen d /\ clen d1 = clen d /\ (forall j, bget d1 j = bget d j) /\
                 (forall j, cget d1 j = if ((j =? sat_add g sym) && (j <? clen d) && negb (is_free_word (cget d j)) && (cget d j =? o))%bool
                                        then n else cget d j)).
    { unfold d1, ug_step. destruct (N.ltb_spec (sat_add g sym) (clen d)) as [Hl|Hl].
      - rewrite <- nf_eq.
        destruct (negb (is_free_word (cget d (sat_add g sym))) && (cget d (sat_add g sym) =? o))%bool eqn:Hc.
        + rewrite blen_cset, clen_cset. repeat split; try reflexivity. intro j. rewrite cget_cset.
          apply N.ltb_lt in Hl as Hlb. rewrite Hlb, andb_true_r.
          destruct (N.eqb_spec j (sat_add g sym)) as [->|Hj]; cbn [andb]; [|reflexivity].
          rewrite Hlb. cbn [andb]. rewrite Hc. reflexivity.
        + repeat split; try reflexivity. intro j.
          destruct (N.eqb_spec j (sat_add g sym)) as [->|Hj]; cbn [andb]; [|reflexivity].
          rewrite <- !andb_assoc. rewrite Hc. rewrite andb_false_r. reflexivity.
      - repeat split; try reflexivity. intro j.
        destruct (N.eqb_spec j (sat_add g sym)) as [->|Hj]; cbn [andb]; [|reflexivity].
        replace (sat_add g sym <? clen d) with false by (symmetry; apply N.ltb_ge; assumption). reflexivity. }
    destruct H1 as (B1 & C1 & G1 & K1). destruct (IH d1) as (B2 & C2 & G2 & K2). cbv zeta in *.
    split; [congruence|]. split; [congruence|]. split; [intro j; rewrite G2; apply G1|].
    intro j. rewrite K2, C1, K1.
    destruct (N.eqb_spec j (sat_add g sym)) as [->|Hj]; cbn [andb orb].
    + destruct ((sat_add g sym <? clen d) && negb (is_free_word (cget d (sat_add g sym))) && (cget d (sat_add g sym) =? o))%bool eqn:Hc.
      * destruct (_ && _ && _ && _)%bool; reflexivity.
      * rewrite <- !andb_assoc in *. rewrite Hc. rewrite !andb_false_r. reflexivity.
    + reflexivity.
Qed.

Lemma ug_spec d o n :
  let g := bv d n in
  let d' := update_grandchildren d o n in
  blen d' = blen d /\ clen d' = clen d /\ (forall j, bget d' j = bget d j) /\
  (forall j, cget d' j =
     if ((n <? blen d) && negb (g =? 0) && negb (g =? NIL_STATE) && (g <=? j) && (j <=? g + 255) && (j <? clen d)
         && negb (is_free_word (cget d j)) && (cget d j =? o))%bool
     then n else cget d j).
Proof.
  cbv zeta. unfold update_grandchildren. fold (bv d n).
  destruct (n <? blen d); cbn [andb]; [|repeat split; reflexivity].
  destruct (negb (bv d n =? 0) && negb (bv d n =? NIL_STATE))%bool eqn:Hc; cbn [andb]; [|repeat split; reflexivity].
  change (fun (d0 : da) (symbol : N) => _) with (ug_step (bv d n) o n).
  destruct (ug_fold (bv d n) o n byte_range d) as (B & C & G & K). cbv zeta in *.
  repeat split; try assumption. intro j. rewrite K, in_window by apply bv_lt.
  rewrite <- !andb_assoc. reflexivity.
Qed.

(* ---------------------------------------------------------------- one child moved *)
Definition bvc (c : child_t) : N := N.land (c_base c) VALUE_MASK.
Definition wc (c : child_t) : N := if c_term c then N.lor (bvc c) TERMINAL_BIT else bvc c.

Lemma bvc_lt c : bvc c < 2147483648. Proof. apply mask_lt. Qed.
Lemma bv_wc c : N.land (wc c) VALUE_MASK = bvc c.
Proof. apply mask_cond_term. apply bvc_lt. Qed.
Lemma tm_wc c : has_term (wc c) = c_term c.
Proof. apply has_term_cond_term. apply bvc_lt. Qed.

Lemma move_one_spec st nb d c : blen d = clen d -> c_sym c < 256 -> nb + c_sym c < blen d -> nb < 2147483648 ->
  let n := nb + c_sym c in
  let d' := reloc_move_one st nb d c in
  blen d' = blen d /\ clen d' = clen d /\
  (forall j, bget d' j = if j =? n then wc c else bget d j) /\
  (forall j, cget d' j =
     let c1 := if j =? n then st else cget d j in
     if (negb (bvc c =? 0) && negb (bvc c =? NIL_STATE) && (bvc c <=? j) && (j <=? bvc c + 255) && (j <? clen d)
         && negb (is_free_word c1) && (c1 =? c_pos c))%bool
     then n else c1).
Proof.
  intros Hl Hs Hn Hnb. cbv zeta. unfold reloc_move_one.
  rewrite sat_add_small by (unfold U32_MAX; lia).
  set (n := nb + c_sym c) in *. fold (bvc c). fold (wc c).
  set (d2 := bset (cset d n st) n (wc c)).
  assert (Hnl : (n <? blen d) = true) by (apply N.ltb_lt; assumption).
  assert (Hnl' : (n <? clen d) = true) by (rewrite <- Hl; assumption).
  assert (B2 : forall j, bget d2 j = if j =? n then wc c else bget d j).
  { intro j. unfold d2. rewrite bget_bset, blen_cset, Hnl, andb_true_r. reflexivity. }
  assert (C2 : forall j, cget d2 j = if j =? n then st else cget d j).
  { intro j. unfold d2. rewrite cget_bset, cget_cset, Hnl', andb_true_r. reflexivity. }
  assert (L2 : blen d2 = blen d /\ clen d2 = clen d).
  { unfold d2. rewrite blen_bset, clen_bset, blen_cset, clen_cset. split; reflexivity. }
  destruct L2 as [Lb Lc].
  destruct (negb (bvc c =? 0) && negb (bvc c =? NIL_STATE))%bool eqn:Hc; cbn [andb].
  - destruct (ug_spec d2 (c_pos c) n) as (B & C & G & K). cbv zeta in *.
    assert (Hg : bv d2 n = bvc c). { unfold bv. rewrite B2, N.eqb_refl. apply bv_wc. }
    rewrite Hg in K. rewrite Lb, Lc in *.
    split; [assumption|]. split; [assumption|]. split; [intro j; rewrite G; apply B2|].
    intro j. rewrite K, C2, Hnl.
    apply andb_true_iff in Hc as [Hc1 Hc2]. rewrite Hc1, Hc2. cbn [andb]. reflexivity.
  - fold d2. split; [assumption|]. split; [assumption|]. split; [assumption|]. intro j. rewrite C2. reflexivity.
Qed.

(* ---------------------------------------------------------------- the old slots freed *)
Lemma free_fold : forall cs d, blen d = clen d -> (forall c, In c cs -> c_pos c < blen d) ->
  let d' := fold_left reloc_free_one cs d in
  blen d' = blen d /\ clen d' = clen d /\
  (forall j, bget d' j = if existsb (fun c => c_pos c =? j) cs then NIL_STATE else bget d j) /\
  (forall j, cget d' j = if existsb (fun c => c_pos c =? j) cs then FREE_WORD else cget d j).
Proof.
  induction cs as [|c t IH]; intros d Hl Hp; cbn [fold_left existsb].
  - repeat split; reflexivity.
  - set (d1 := reloc_free_one d c).
    assert (Hc : c_pos c < blen d) by (apply Hp; left; reflexivity).
    assert (L1 : blen d1 = blen d /\ clen d1 = clen d).
    { unfold d1, reloc_free_one. rewrite blen_bset, clen_bset, blen_cset, clen_cset. split; reflexivity. }
    destruct L1 as [Lb Lc].
    assert (B1 : forall j, bget d1 j = if c_pos c =? j then NIL_STATE else bget d j).
    { intro j. unfold d1, reloc_free_one. rewrite bget_bset, blen_cset, bget_cset.
      apply N.ltb_lt in Hc. rewrite Hc, andb_true_r, N.eqb_sym. reflexivity. }
    assert (C1 : forall j, cget d1 j = if c_pos c =? j then FREE_WORD else cget d j).
    { intro j. unfold d1, reloc_free_one. rewrite cget_bset, cget_cset. rewrite <- Hl.
      apply N.ltb_lt in Hc. rewrite Hc, andb_true_r, N.eqb_sym. reflexivity. }
    destruct (IH d1) as (B & C & G & K); [congruence | intros c' Hc'; rewrite Lb; apply Hp; right; assumption |].
    cbv zeta in *. split; [congruence|]. split; [congruence|]. split; intro j.
    + rewrite G, B1. destruct (c_pos c =? j); cbn [orb]; [destruct (existsb _ t); reflexivity | reflexivity].
    + rewrite K, C1. destruct (c_pos c =? j); cbn [orb]; [destruct (existsb _ t); reflexivity | reflexivity].
Qed.

(* ---------------------------------------------------------------- the move loop in closed form *)
Definition find_o (cs : list child_t) (j : N) : option child_t := find (fun c => c_pos c =? j) cs.
Definition find_n (nb : N) (cs : list child_t) (j : N) : option child_t := find (fun c => nb + c_sym c =? j) cs.
(* a parent pointer to an old child slot becomes a pointer to its new slot *)
Definition subst_o (nb : N) (cs : list child_t) (v : N) : N :=
  match find_o cs v with Some c => nb + c_sym c | None => v end.

(* static facts about the child list and the chosen base, and the guard the moving loop re-tests *)
Record MoveOK (st nb len : N) (cs : list child_t) : Prop := {
  mo_syms : NoDup (map c_sym cs);
  mo_sym : forall c, In c cs -> c_sym c < 256;
  mo_new_lt : forall c, In c cs -> nb + c_sym c < len;
  mo_old_small : forall c, In c cs -> c_pos c < 2147483648;
  mo_st_old : forall c, In c cs -> st <> c_pos c;
  mo_new_old : forall c c2, In c cs -> In c2 cs -> nb + c_sym c <> c_pos c2
}.

Lemma moveok_tail st nb len c t : MoveOK st nb len (c :: t) -> MoveOK st nb len t.
Proof.
  intros [H1 H2 H3 H4 H5 H6]. constructor.
  - cbn [map] in H1. inversion H1; assumption.
  - intros x Hx; apply H2; right; assumption.
  - intros x Hx; apply H3; right; assumption.
  - intros x Hx; apply H4; right; assumption.
  - intros x Hx; apply H5; right; assumption.
  - intros x y Hx Hy; apply H6; right; assumption.
Qed.

(* every slot that points to an old child slot passes the guard of update_grandchildren for that child *)
Definition GuardOK (d : da) (cs : list child_t) : Prop :=
  forall c j, In c cs -> cget d j = c_pos c ->
    bvc c <> 0 /\ bvc c <> NIL_STATE /\ bvc c <= j /\ j <= bvc c + 255 /\ j < clen d.

Lemma find_n_none_head nb c t : NoDup (map c_sym (c :: t)) -> find_n nb t (nb + c_sym c) = None.
Proof.
  intro ND. destruct (find_n nb t (nb + c_sym c)) as [y|] eqn:E; [|reflexivity].
  apply find_some in E as [Hin E]. apply N.eqb_eq in E.
  cbn [map] in ND. inversion ND as [|? ? Hc _]; subst. exfalso. apply Hc.
  replace (c_sym c) with (c_sym y) by lia. apply in_map. assumption.
Qed.

Lemma subst_o_notin nb cs v : (forall c, In c cs -> v <> c_pos c) -> subst_o nb cs v = v.
Proof.
  intro H. unfold subst_o, find_o. destruct (find _ cs) as [y|] eqn:E; [|reflexivity].
  apply find_some in E as [Hin E]. apply N.eqb_eq in E. exfalso. apply (H y Hin). symmetry; assumption.
Qed.

Lemma move_fold st nb : forall cs d, blen d = clen d -> nb < 2147483648 -> MoveOK st nb (blen d) cs -> GuardOK d cs ->
  let d' := fold_left (reloc_move_one st nb) cs d in
  blen d' = blen d /\ clen d' = clen d /\
  (forall j, bget d' j = match find_n nb cs j with Some c => wc c | None => bget d j end) /\
  (forall j, cget d' j = match find_n nb cs j with Some _ => st | None => subst_o nb cs (cget d j) end).
Proof.
  induction cs as [|c t IH]; intros d Hl Hnb MO GO; cbn [fold_left].
  - repeat split; reflexivity.
  - assert (Hin : In c (c :: t)) by (left; reflexivity).
    destruct (move_one_spec st nb d c Hl (mo_sym _ _ _ _ MO c Hin) (mo_new_lt _ _ _ _ MO c Hin) Hnb) as (B1 & C1 & G1 & K1).
    cbv zeta in *. set (d1 := reloc_move_one st nb d c) in *. set (n := nb + c_sym c) in *.
    (* under the guard hypothesis the step is the unconditional substitution *)
    assert (K1' : forall j, cget d1 j = if j =? n then st else if cget d j =? c_pos c then n else cget d j).
    { intro j. rewrite K1. destruct (N.eqb_spec j n) as [->|Hj].
      - replace (st =? c_pos c) with false by (symmetry; apply N.eqb_neq; apply (mo_st_old _ _ _ _ MO c Hin)).
        rewrite andb_false_r. reflexivity.
      - destruct (N.eqb_spec (cget d j) (c_pos c)) as [E|E]; [|rewrite andb_false_r; reflexivity].
        destruct (GO c j Hin E) as (G1' & G2 & G3 & G4 & G5).
        apply N.eqb_neq in G1'. apply N.eqb_neq in G2. apply N.leb_le in G3. apply N.leb_le in G4. apply N.ltb_lt in G5.
        rewrite G1', G2, G3, G4, G5, E. rewrite is_free_small by (apply (mo_old_small _ _ _ _ MO c Hin)). reflexivity. }
    assert (GO1 : GuardOK d1 t).
    { intros c2 j Hc2 E. rewrite K1' in E. rewrite C1.
      destruct (N.eqb_spec j n) as [->|Hj].
      - exfalso. apply (mo_st_old _ _ _ _ MO c2); [right; assumption | assumption].
      - destruct (N.eqb_spec (cget d j) (c_pos c)) as [E2|E2].
        + exfalso. apply (mo_new_old _ _ _ _ MO c c2 Hin); [right; assumption | assumption].
        + apply (GO c2 j); [right; assumption | assumption]. }
    destruct (IH d1) as (B2 & C2 & G2 & K2); [congruence | assumption | rewrite B1; apply (moveok_tail _ _ _ c); assumption | assumption |].
    cbv zeta in *. split; [congruence|]. split; [congruence|]. split; intro j.
    + rewrite G2, G1. unfold find_n. cbn [find]. fold (find_n nb t j). fold n.
      rewrite (N.eqb_sym n j). destruct (N.eqb_spec j n) as [->|Hj]; [|reflexivity].
      unfold n. rewrite (find_n_none_head nb c t (mo_syms _ _ _ _ MO)). reflexivity.
    + rewrite K2, K1'. unfold find_n. cbn [find]. fold (find_n nb t j). fold n.
      rewrite (N.eqb_sym n j). destruct (N.eqb_spec j n) as [->|Hj].
      * unfold n. rewrite (find_n_none_head nb c t (mo_syms _ _ _ _ MO)).
        apply subst_o_notin. intros c2 Hc2. apply (mo_st_old _ _ _ _ MO); right; assumption.
      * destruct (find_n nb t j); [reflexivity|].
        unfold subst_o at 2. unfold find_o. cbn [find]. fold (find_o t (cget d j)).
        rewrite (N.eqb_sym (c_pos c)). destruct (N.eqb_spec (cget d j) (c_pos c)) as [E|E].
        -- apply subst_o_notin. intros c2 Hc2. apply (mo_new_old _ _ _ _ MO c c2 Hin). right; assumption.
        -- reflexivity.
Qed.
