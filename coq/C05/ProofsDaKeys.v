(* C05, double array: keys() / keys_with_prefix() (collect_keys_double_array_recursive) enumerate exactly
   the members, each once; impl Clone. *)
From ZV.Common Require Import Base Run.
From ZV.C05 Require Import Model ModelFsa ModelDa Spec SpecNoRemove ProofsBase ProofsInsert ProofsRemove ProofsRefine ProofsKeys ProofsFsa
  ProofsClone ProofsDaArr ProofsDaInv ProofsDaReloc ProofsDaReloc2 ProofsDaInsert.
Open Scope N_scope.

Lemma fm_nil {A B} (f : A -> list B) l : (forall x, In x l -> f x = []) -> flat_map f l = [].
Proof.
  induction l as [|a l IH]; intro H; cbn [flat_map]; [reflexivity|].
  rewrite (H a) by (left; reflexivity). apply IH. intros x Hx. apply H. right; assumption.
Qed.
Lemma fm_ext_in {A B} (f g : A -> list B) l : (forall x, In x l -> f x = g x) -> flat_map f l = flat_map g l.
Proof.
  induction l as [|a l IH]; intro H; cbn [flat_map]; [reflexivity|].
  rewrite (H a) by (left; reflexivity). f_equal. apply IH. intros x Hx. apply H. right; assumption.
Qed.

(* the recursive collector is the generic DFS over transition / is_final *)
Lemma da_collect_generic d addr : DInv d addr -> forall fuel st pr, used d st ->
  da_collect fuel d st pr = g_collect (da_transition d) (da_is_final d) fuel st pr.
Proof.
  intro I. pose proof (di_lens _ _ I) as Hl. pose proof (di_len _ _ I) as [L1 L2].
  induction fuel as [|f IH]; intros st pr U; cbn [da_collect g_collect]; [reflexivity|].
  assert (Hs : st < blen d) by (rewrite Hl; apply used_lt; assumption).
  apply N.ltb_lt in Hs as Hsb. rewrite Hsb. cbn [andb].
  f_equal.
  - unfold da_is_final. rewrite Hsb. reflexivity.
  - fold (bv d st).
    destruct (di_base _ _ I st U) as [Hn|[H1 H2]].
    + rewrite Hn. replace (NIL_STATE =? 0) with false by reflexivity. rewrite N.eqb_refl. cbn [orb].
      symmetry. apply fm_nil. intros s Hin.
      destruct (da_transition d st s) as [c|] eqn:T; [|reflexivity].
      destruct (da_trans_some d addr st s c I U T) as (_ & _ & E & Ec & Hs256 & _).
      exfalso. rewrite Hn in Ec. apply used_lt in U. assert (Uc : used d c) by (unfold used; rewrite E; apply (small_not_free d addr); assumption).
      apply used_lt in Uc. unfold NIL_STATE, LMAX in *. lia.
    + replace (bv d st =? 0) with false by (symmetry; apply N.eqb_neq; lia).
      replace (bv d st =? NIL_STATE) with false by (symmetry; apply N.eqb_neq; unfold NIL_STATE, BMAX in *; lia).
      cbn [orb]. apply fm_ext_in. intros s Hin.
      unfold da_transition. rewrite Hsb. fold (bv d st).
      destruct (sat_add (bv d st) s <? clen d) eqn:Hc; [|reflexivity].
      destruct (cget d (sat_add (bv d st) s) =? st) eqn:Ec; [|reflexivity].
      apply IH.
      assert (T : da_transition d st s = Some (sat_add (bv d st) s)).
      { unfold da_transition. rewrite Hsb. fold (bv d st). rewrite Hc, Ec. reflexivity. }
      apply (da_trans_some d addr st s _ I U T).
Qed.

(* ---------------------------------------------------------------- keys() / keys_with_prefix() *)
Definition da_states (d : da) : list N := map N.of_nat (seq 0 (N.to_nat (blen d))).
Lemma da_states_in d p : p < blen d -> In p (da_states d).
Proof. intro H. unfold da_states. apply in_map_iff. exists (N.to_nat p). split; [lia|]. apply in_seq. lia. Qed.
Lemma da_states_len d : length (da_states d) = N.to_nat (blen d).
Proof. unfold da_states. rewrite map_length, seq_length. reflexivity. Qed.

Lemma da_live_states d addr : DInv d addr -> forall p, used d p -> In p (da_states d).
Proof. intros I p U. apply da_states_in. rewrite (di_lens _ _ I). apply used_lt; assumption. Qed.

Lemma da_keys_spec d addr k : DInv d addr -> (In k (da_keys d) <-> dlookup d k = true).
Proof.
  intro I. unfold da_keys. pose proof (di_len _ _ I) as [L1 _].
  replace (blen d =? 0) with false by (symmetry; apply N.eqb_neq; lia).
  rewrite (da_collect_generic d addr I _ 0 [] (used_root d addr I)).
  rewrite (g_collect_complete N _ _ (used d) addr (da_states d) (da_fuel d) 0 [] k (da_ginv d addr I) (da_live_states d addr I) (used_root d addr I)).
  - cbn [rev app]. unfold dlookup. split; [intros (k2 & -> & L); assumption | intro L; exists k; split; [reflexivity | assumption]].
  - rewrite da_states_len. unfold da_fuel. lia.
Qed.

Lemma da_prefix_spec d addr p k : DInv d addr ->
  (In k (da_prefix d p) <-> dlookup d k = true /\ exists k2, k = p ++ k2).
Proof.
  intro I. unfold da_prefix. pose proof (di_len _ _ I) as [L1 _].
  replace (blen d =? 0) with false by (symmetry; apply N.eqb_neq; lia).
  rewrite da_prefix_walk_walk. pose proof (da_ginv d addr I) as G. pose proof (used_root d addr I) as U0.
  destruct (g_walk (da_transition d) 0 p) as [c|] eqn:W.
  - destruct (g_walk_addr _ _ _ _ G p 0 c U0 W) as [Uc _].
    rewrite (da_collect_generic d addr I _ c (rev p) Uc).
    rewrite (g_collect_complete N _ _ (used d) addr (da_states d) (da_fuel d) c (rev p) k G (da_live_states d addr I) Uc)
      by (rewrite da_states_len; unfold da_fuel; lia).
    rewrite rev_involutive. unfold dlookup. split.
    + intros (k2 & -> & L). split; [rewrite g_lookup_app, W; assumption | exists k2; reflexivity].
    + intros [L (k2 & ->)]. exists k2. split; [reflexivity|]. rewrite g_lookup_app, W in L. assumption.
  - split; [intros []|]. intros [L (k2 & ->)]. unfold dlookup in L. rewrite g_lookup_app, W in L. discriminate.
Qed.

Lemma da_keys_nodup_proof d addr : DInv d addr -> NoDup (da_keys d).
Proof.
  intro I. unfold da_keys. destruct (blen d =? 0); [constructor|].
  rewrite (da_collect_generic d addr I _ 0 [] (used_root d addr I)). apply g_collect_nodup.
Qed.
Lemma da_prefix_nodup_proof d addr p : DInv d addr -> NoDup (da_prefix d p).
Proof.
  intro I. unfold da_prefix. destruct (blen d =? 0); [constructor|].
  rewrite da_prefix_walk_walk. destruct (g_walk (da_transition d) 0 p) as [c|] eqn:W; [|constructor].
  destruct (g_walk_addr _ _ _ _ (da_ginv d addr I) p 0 c (used_root d addr I) W) as [Uc _].
  rewrite (da_collect_generic d addr I _ c (rev p) Uc). apply g_collect_nodup.
Qed.

Lemma da_keys_bytes d addr k : DInv d addr -> In k (da_keys d) -> bytes_ok k.
Proof.
  intros I Hk. apply (da_keys_spec d addr k I) in Hk. unfold dlookup, g_lookup in Hk.
  destruct (g_walk (da_transition d) 0 k) as [e|] eqn:W; [|discriminate].
  apply (g_walk_bytes _ _ _ _ (da_ginv d addr I) k 0 e (used_root d addr I) W).
Qed.

Lemma da_keys_enumerates_proof st S k : DRel st S -> (In k (da_keys (d_da st)) <-> In k S).
Proof. intros ((addr & I) & Hl & _). rewrite (da_keys_spec _ addr k I), Hl. apply mem_In. Qed.
Lemma da_prefix_query_exact_proof st S p k : DRel st S ->
  (In k (da_prefix (d_da st) p) <-> In k S /\ exists k2, k = p ++ k2).
Proof. intros ((addr & I) & Hl & _). rewrite (da_prefix_spec _ addr p k I), Hl, mem_In. reflexivity. Qed.
Lemma da_keys_no_duplicates_proof st S p : DRel st S -> NoDup (da_keys (d_da st)) /\ NoDup (da_prefix (d_da st) p).
Proof. intros ((addr & I) & _). split; [apply (da_keys_nodup_proof _ addr I) | apply (da_prefix_nodup_proof _ addr p I)]. Qed.

(* ---------------------------------------------------------------- impl Clone *)
Lemma fold_insert_drel : forall L st S, Forall bytes_ok L -> DRel st S -> d_inserts_ok L st = true ->
  DRel (fold_left (fun s k => fst (d_insert s k)) L st) (fold_left (fun S0 k => s_insert k S0) L S).
Proof.
  induction L as [|k L IH]; intros st S Hb R Hok; cbn [fold_left]; [assumption|].
  inversion Hb as [|? ? Hk HL]; subst. cbn [d_inserts_ok] in Hok. apply andb_true_iff in Hok as [Ho1 Ho2].
  apply IH; [assumption | apply drel_insert; assumption | assumption].
Qed.

Lemma da_clone_preserves_proof st S : DRel st S -> d_clone_ok st = true -> DRel (d_clone st) S.
Proof.
  intros R Hok. pose proof R as ((addr & I) & Hl & Hnd & Hlen).
  set (L := da_keys (d_da st)).
  assert (HL : forall k, In k L <-> In k S) by (intro k; apply da_keys_enumerates_proof; assumption).
  assert (Hb : Forall bytes_ok L) by (apply Forall_forall; intros k Hk; apply (da_keys_bytes _ addr k I Hk)).
  pose proof (fold_insert_drel L d_empty [] Hb drel_empty Hok) as (Hinv & Hl' & _ & _).
  unfold d_clone. fold L. split; [assumption|]. split; [|split; assumption].
  intro k. cbn [d_da]. rewrite Hl', mem_fold_insert. cbn [mem existsb orb].
  apply bool_eq_iff. rewrite !mem_In. apply HL.
Qed.

(* histories with clone steps *)
Definition da_op_ok_c (op : N * list N) : Prop := op_ok op /\ fst op <> 1.

Lemma d_step_refines_c st S op : da_op_ok_c op -> DRel st S ->
  (fst op = 0 -> snd (d_insert st (snd op)) = true) -> (fst op = 8 -> d_clone_ok st = true) ->
  snd (d_step st op) = snd (s_step S op) /\ DRel (fst (d_step st op)) (fst (s_step S op)).
Proof.
  intros [Hop H1] R Hins Hcl. destruct (N.eq_dec (fst op) 8) as [E|E].
  - destruct op as [code k]. cbn [fst] in E. subst code. cbn [d_step s_step fst snd].
    split; [reflexivity | apply da_clone_preserves_proof; [assumption | apply Hcl; reflexivity]].
  - apply d_step_refines; [split; [assumption | split; assumption] | assumption | assumption].
Qed.

Lemma d_run_refines_c : forall ops st S, Forall da_op_ok_c ops -> DRel st S -> d_noerr_c st ops = true ->
  d_run st ops = s_run S ops /\ DRel (d_exec st ops) (s_exec S ops).
Proof.
  induction ops as [|op t IH]; intros st S Hok R Hne; cbn [d_run s_run d_exec s_exec]; [split; [reflexivity | assumption]|].
  inversion Hok as [|? ? Hop Ht]; subst. cbn [d_noerr_c] in Hne. apply andb_true_iff in Hne as [Hn1 Hn2].
  assert (Hins : fst op = 0 -> snd (d_insert st (snd op)) = true).
  { intro E. rewrite E in Hn1. exact Hn1. }
  assert (Hcl : fst op = 8 -> d_clone_ok st = true).
  { intro E. rewrite E in Hn1. exact Hn1. }
  destruct (d_step_refines_c st S op Hop R Hins Hcl) as [Ho R'].
  destruct (d_step st op) as [st' o] eqn:E1. destruct (s_step S op) as [S' o'] eqn:E2.
  cbn [fst snd] in *. subst o'. destruct (IH st' S' Ht R' Hn2) as [Hr Hx].
  split; [rewrite Hr; reflexivity | assumption].
Qed.

Lemma da_refines_set_with_clone_proof : forall ops, Forall da_op_ok_c ops -> d_noerr_c d_empty ops = true ->
  d_run d_empty ops = s_run [] ops.
Proof. intros ops H Hn. apply (d_run_refines_c ops d_empty [] H drel_empty Hn). Qed.

Example da_clone_hyp_example :
  d_noerr_c d_empty [(0, [1; 0; 1; 255]); (0, [1; 1; 0; 255; 255]); (8, []); (0, [97]); (8, []); (3, [])] = true.
Proof. vm_compute. reflexivity. Qed.

(* ---------------------------------------------------------------- histories with remove calls, as the code treats them *)
Lemma d_run_refines_nr : forall ops st S, Forall op_ok ops -> DRel st S -> d_noerr_c st ops = true ->
  d_run st ops = s_run_nr S ops.
Proof.
  induction ops as [|op t IH]; intros st S Hok R Hne; cbn [d_run s_run_nr]; [reflexivity|].
  inversion Hok as [|? ? Hop Ht]; subst. cbn [d_noerr_c] in Hne. apply andb_true_iff in Hne as [Hn1 Hn2].
  unfold s_step_nr. destruct (N.eqb_spec (fst op) 1) as [E|E].
  - destruct op as [code k]. cbn [fst] in E. subst code. cbn [d_step]. cbn [d_step fst] in Hn2.
    f_equal. apply IH; assumption.
  - assert (Hins : fst op = 0 -> snd (d_insert st (snd op)) = true) by (intro E0; rewrite E0 in Hn1; exact Hn1).
    assert (Hcl : fst op = 8 -> d_clone_ok st = true) by (intro E8; rewrite E8 in Hn1; exact Hn1).
    destruct (d_step_refines_c st S op (conj Hop E) R Hins Hcl) as [Ho R'].
    destruct (d_step st op) as [st' o] eqn:E1. destruct (s_step S op) as [S' o'] eqn:E2.
    cbn [fst snd] in *. subst o'. f_equal. apply IH; assumption.
Qed.
Lemma da_refines_set_noop_remove_proof : forall ops, Forall op_ok ops -> d_noerr_c d_empty ops = true ->
  d_run d_empty ops = s_run_nr [] ops.
Proof. intros ops H Hn. apply (d_run_refines_nr ops d_empty [] H drel_empty Hn). Qed.
