(* C05 spec layer: the property's own vocabulary.  A trie is a finite set of byte strings,
   written as a duplicate-free list of keys. *)
From ZV.Common Require Import Base Run.
From ZV.C05 Require Import Model.
Open Scope N_scope.

Definition keyset := list (list N).

Definition mem (k : list N) (S : keyset) : bool := existsb (eqb_ln k) S.
Definition s_insert (k : list N) (S : keyset) : keyset := if mem k S then S else k :: S.
Definition s_remove (k : list N) (S : keyset) : keyset := filter (fun x => negb (eqb_ln k x)) S.

(* longest member that is a prefix of q: scan every prefix of q, remember the last member seen *)
Fixpoint s_lp_go (S : keyset) (pre_rev rest : list N) (i : N) (last : option N) : option N :=
  let last' := if mem (rev pre_rev) S then Some i else last in
  match rest with
  | [] => last'
  | s :: r => s_lp_go S (s :: pre_rev) r (i + 1) last'
  end.
Definition s_longest_prefix (S : keyset) (q : list N) : option N := s_lp_go S [] q 0 None.

(* one step of the reference object, producing the observation format of Model.obs.
   keys / keys_with_prefix (codes 4, 5) are specified separately (as enumerations, without an order). *)
Definition s_step (S : keyset) (op : N * list N) : keyset * obs :=
  let '(code, k) := op in
  match code with
  | 0 => (s_insert k S, [[0]])
  | 1 => (s_remove k S, ob_bool (mem k S))
  | 2 => (S, ob_bool (mem k S))
  | 3 => (S, [[N.of_nat (length S)]])
  | 6 => (S, ob_bool (mem k S))
  | 7 => (S, ob_opt (s_longest_prefix S k))
  | _ => (S, [])
  end.
Fixpoint s_run (S : keyset) (ops : list (N * list N)) : list obs :=
  match ops with
  | [] => []
  | op :: t => let '(S', o) := s_step S op in o :: s_run S' t
  end.
Fixpoint s_exec (S : keyset) (ops : list (N * list N)) : keyset :=
  match ops with
  | [] => S
  | op :: t => s_exec (fst (s_step S op)) t
  end.

(* histories the whole-run refinement theorem quantifies over: any codes except the two enumeration
   queries, keys made of bytes *)
Definition op_ok (op : N * list N) : Prop := bytes_ok (snd op) /\ fst op <> 4 /\ fst op <> 5.
