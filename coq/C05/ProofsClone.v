(* C05: ZiporaTrie::clone (re-insert keys() into a fresh trie, copy the statistics) preserves the set;
   whole-history refinement with clone steps. *)
From ZV.Common Require Import Base Run.
From ZV.C05 Require Import Model Spec ProofsBase ProofsInsert ProofsRemove ProofsRefine ProofsKeys.
Open Scope N_scope.

Lemma fold_insert_rel : forall L st S, Forall bytes_ok L -> Rel st S ->
  Rel (fold_left p_insert L st) (fold_left (fun S0 k => s_insert k S0) L S).
Proof.
  induction L as [|k L IH]; intros st S Hb R; cbn [fold_left]; [assumption|].
  inversion Hb; subst. apply IH; [assumption | apply rel_insert; assumption].
Qed.

Lemma mem_fold_insert k : forall L S0,
  mem k (fold_left (fun S0 x => s_insert x S0) L S0) = (mem k S0 || mem k L)%bool.
Proof.
  induction L as [|x L IH]; intro S0; cbn [fold_left].
  - unfold mem at 3. cbn [existsb]. rewrite orb_false_r. reflexivity.
  - rewrite IH, mem_insert. unfold mem at 4. cbn [existsb]. fold (mem k L). rewrite orb_assoc. reflexivity.
Qed.

Lemma bool_eq_iff (a b : bool) : (a = true <-> b = true) -> a = b.
Proof. destruct a, b; intros [H1 H2]; try reflexivity; [symmetry; apply H1; reflexivity | apply H2; reflexivity]. Qed.

Lemma clone_preserves_proof st S : Rel st S -> Rel (p_clone st) S.
Proof.
  intro R. pose proof R as ((addr & I) & Hl & Hnd & Hlen).
  set (L := keys_nodes (p_nodes st)).
  assert (HL : forall k, In k L <-> In k S) by (intro k; apply keys_enumerates_proof; assumption).
  assert (Hb : Forall bytes_ok L).
  { apply Forall_forall. intros k Hk. apply (keys_nodes_spec _ addr k I) in Hk.
    destruct (lookup_true_walk _ _ _ Hk) as [e W]. apply (walk_bytes _ addr I k 0%nat e W). }
  pose proof (fold_insert_rel L p_empty [] Hb rel_empty) as (Hinv & Hl' & _ & _).
  unfold p_clone. fold L. split; [assumption|]. split; [|split; assumption].
  intro k. cbn [p_nodes]. rewrite Hl', mem_fold_insert. cbn [mem existsb orb].
  apply bool_eq_iff. rewrite !mem_In. apply HL.
Qed.

Lemma step_c_refines st S op : op_ok op -> Rel st S ->
  snd (p_step_c true st op) = snd (s_step S op) /\ Rel (fst (p_step_c true st op)) (fst (s_step S op)).
Proof.
  intros Hop R. unfold p_step_c. destruct (fst op =? 8) eqn:E; [|apply step_refines; assumption].
  apply N.eqb_eq in E. destruct op as [code k]. cbn [fst] in E. subst code. cbn [s_step fst snd].
  split; [reflexivity | apply clone_preserves_proof; assumption].
Qed.

Lemma ptrie_refines_set_with_clone_proof : forall ops, Forall op_ok ops -> p_run_c true p_empty ops = s_run [] ops.
Proof.
  intros ops. generalize rel_empty. generalize p_empty as st. generalize (@nil (list N)) as S.
  induction ops as [|op t IH]; intros S st R Hok; cbn [p_run_c s_run]; [reflexivity|].
  inversion Hok as [|? ? Hop Ht]; subst.
  destruct (step_c_refines st S op Hop R) as [Ho R'].
  destruct (p_step_c true st op) as [st' o]. destruct (s_step S op) as [S' o']. cbn [fst snd] in *. subst o'.
  rewrite (IH S' st' R' Ht). reflexivity.
Qed.
