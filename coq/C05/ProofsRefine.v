(* C05: the Patricia-storage ZiporaTrie refines the finite set of keys, for every history. *)
From ZV.Common Require Import Base Run.
From ZV.C05 Require Import Model Spec ProofsBase ProofsInsert ProofsRemove.
Open Scope N_scope.

(* ---------------------------------------------------------------- facts about the spec set *)
Lemma mem_In k S : mem k S = true <-> In k S.
Proof.
  unfold mem. rewrite existsb_exists. split.
  - intros (x & Hx & E). apply eqb_ln_true in E. subst; assumption.
  - intro H. exists k. split; [assumption | apply eqb_ln_refl].
Qed.
Lemma mem_false k S : mem k S = false <-> ~ In k S.
Proof.
  split.
  - intros H Hin. apply mem_In in Hin. congruence.
  - intro H. destruct (mem k S) eqn:E; [apply mem_In in E; contradiction | reflexivity].
Qed.

Lemma mem_insert k' k S : mem k' (s_insert k S) = (mem k' S || eqb_ln k' k)%bool.
Proof.
  unfold s_insert. destruct (mem k S) eqn:M.
  - destruct (eqb_ln k' k) eqn:E; [|rewrite orb_false_r; reflexivity].
    apply eqb_ln_true in E; subst k'. rewrite M. reflexivity.
  - unfold mem. cbn [existsb]. apply orb_comm.
Qed.

Lemma mem_remove k' k S : mem k' (s_remove k S) = (mem k' S && negb (eqb_ln k' k))%bool.
Proof.
  unfold mem, s_remove. induction S as [|x S IH]; cbn [filter existsb]; [reflexivity|].
  destruct (eqb_ln k x) eqn:E; cbn [negb].
  - apply eqb_ln_true in E; subst x. rewrite IH.
    destruct (eqb_ln k' k); destruct (existsb (eqb_ln k') S); reflexivity.
  - cbn [existsb]. rewrite IH. destruct (eqb_ln k' x) eqn:E3; cbn [orb]; [|reflexivity].
    apply eqb_ln_true in E3; subst x.
    assert (Hk : eqb_ln k' k = false).
    { apply eqb_ln_false. apply eqb_ln_false in E. congruence. }
    rewrite Hk. reflexivity.
Qed.

Lemma remove_notin k S : ~ In k S -> s_remove k S = S.
Proof.
  unfold s_remove. induction S as [|x S IH]; intro H; cbn [filter]; [reflexivity|].
  assert (E : eqb_ln k x = false) by (apply eqb_ln_false; intro; subst; apply H; left; reflexivity).
  rewrite E. cbn [negb]. rewrite IH; [reflexivity|]. intro; apply H; right; assumption.
Qed.

Lemma length_remove k S : NoDup S -> In k S -> Datatypes.S (length (s_remove k S)) = length S.
Proof.
  induction S as [|x S IH]; intros Hnd Hin; [destruct Hin|].
  inversion Hnd as [|? ? Hx Hnd']; subst.
  unfold s_remove. cbn [filter].
  destruct (eqb_ln k x) eqn:E; cbn [negb].
  - apply eqb_ln_true in E; subst x. fold (s_remove k S). rewrite remove_notin by assumption. reflexivity.
  - cbn [length]. f_equal. apply IH; [assumption|].
    destruct Hin as [Hin|Hin]; [|assumption]. subst x. rewrite eqb_ln_refl in E. discriminate.
Qed.

Lemma NoDup_remove k S : NoDup S -> NoDup (s_remove k S).
Proof. apply NoDup_filter. Qed.

(* ---------------------------------------------------------------- refinement relation *)
Definition Rel (st : pst) (S : keyset) : Prop :=
  (exists addr, inv (p_nodes st) addr) /\
  (forall k, lookup (p_nodes st) 0%nat k = mem k S) /\
  NoDup S /\
  p_len st = N.of_nat (length S).

Lemma rel_empty : Rel p_empty [].
Proof.
  split; [exists (fun _ => []); apply inv_nil; reflexivity|].
  split; [intro k; apply lookup_nil|]. split; [constructor | reflexivity].
Qed.

Lemma rel_insert st S k : bytes_ok k -> Rel st S -> Rel (p_insert st k) (s_insert k S).
Proof.
  intros Hb ((addr & I) & Hl & Hnd & Hlen).
  destruct (insert_nodes_lookup (p_nodes st) addr k Hb I) as [Hinv Hlk].
  unfold p_insert. cbn [p_nodes p_len].
  split; [assumption|]. split.
  { intro k'. rewrite Hlk, Hl, mem_insert. reflexivity. }
  rewrite contains_lookup, Hl. unfold s_insert. destruct (mem k S) eqn:M.
  - split; assumption.
  - split.
    + constructor; [apply mem_false; assumption | assumption].
    + cbv beta iota. cbn [length]. rewrite Hlen, Nat2N.inj_succ. cbn [p_len]. lia.
Qed.

Lemma rel_remove st S k : Rel st S ->
  Rel (fst (p_remove st k)) (s_remove k S) /\ snd (p_remove st k) = mem k S.
Proof.
  intros ((addr & I) & Hl & Hnd & Hlen).
  unfold p_remove. destruct (remove_nodes (p_nodes st) k) as [ns' b] eqn:E.
  destruct (remove_nodes_spec _ _ _ _ _ I E) as (I' & Hb & Hlk).
  cbn [fst snd]. rewrite Hl in Hb. split; [|assumption].
  split; [exists addr; assumption|]. split.
  { intro k'. cbn [p_nodes]. rewrite Hlk, Hl, mem_remove. reflexivity. }
  split; [apply NoDup_remove; assumption|].
  cbn [p_len]. destruct b.
  - symmetry in Hb. apply mem_In in Hb. pose proof (length_remove k S Hnd Hb). lia.
  - symmetry in Hb. apply mem_false in Hb. rewrite remove_notin by assumption. assumption.
Qed.

(* ---------------------------------------------------------------- longest_prefix *)
Lemma s_lp_dead S : forall rest pre_rev i last,
  (forall x, mem (rev pre_rev ++ x) S = false) -> s_lp_go S pre_rev rest i last = last.
Proof.
  induction rest as [|s r IH]; intros pre_rev i last H; cbn [s_lp_go].
  - specialize (H []). rewrite app_nil_r in H. rewrite H. reflexivity.
  - pose proof (H []) as H0. rewrite app_nil_r in H0. rewrite H0.
    apply IH. intro x. cbn [rev]. rewrite <- app_assoc. apply H.
Qed.

Lemma lp_go_spec ns S : (forall k, lookup ns 0%nat k = mem k S) ->
  forall rest pre st i last, walk ns 0%nat pre = Some st ->
    lp_go ns st rest i last = s_lp_go S (rev pre) rest i last.
Proof.
  intros H rest; induction rest as [|s r IH]; intros pre st i last W; cbn [lp_go s_lp_go];
    rewrite rev_involutive, <- H; unfold lookup at 1; rewrite W.
  - reflexivity.
  - destruct (child ns st s) as [c|] eqn:E.
    + rewrite (IH (pre ++ [s]) c).
      * rewrite rev_unit. reflexivity.
      * rewrite walk_app, W. cbn [walk]. rewrite E. reflexivity.
    + symmetry. apply s_lp_dead. intro x. cbn [rev]. rewrite rev_involutive.
      rewrite <- H. unfold lookup. rewrite <- app_assoc, walk_app, W. cbn [app walk]. rewrite E. reflexivity.
Qed.

Lemma longest_prefix_refines st S q : Rel st S -> fsa_longest_prefix (p_nodes st) q = s_longest_prefix S q.
Proof.
  intros (_ & Hl & _). unfold fsa_longest_prefix, s_longest_prefix.
  apply (lp_go_spec _ _ Hl q [] 0%nat). reflexivity.
Qed.

(* ---------------------------------------------------------------- one step, whole histories *)
Lemma step_refines st S op : op_ok op -> Rel st S ->
  snd (p_step true st op) = snd (s_step S op) /\ Rel (fst (p_step true st op)) (fst (s_step S op)).
Proof.
  intros (Hb & H4 & H5) R. destruct op as [code k]. cbn [fst snd] in Hb, H4, H5.
  pose proof R as (_ & Hl & _ & Hlen).
  destruct code as [|[[[p|p|]|[p|p|]|]|[[p|p|]|[p|p|]|]|]];
    try (exfalso; apply H4; reflexivity); try (exfalso; apply H5; reflexivity);
    cbn [p_step s_step fst snd]; try (split; [reflexivity | assumption]).
  - (* 0 insert *) split; [reflexivity | apply rel_insert; assumption].
  - (* 7 longest_prefix *) split; [|assumption]. f_equal. apply longest_prefix_refines; assumption.
  - (* 3 len *) split; [|assumption]. rewrite Hlen. reflexivity.
  - (* 6 accepts *) split; [|assumption]. rewrite fsa_accepts_lookup, Hl. reflexivity.
  - (* 2 contains *) split; [|assumption]. rewrite contains_lookup, Hl. reflexivity.
  - (* 1 remove *) destruct (rel_remove st S k R) as [R' Hb']. destruct (p_remove st k) as [st' b]. cbn [fst snd] in *.
    split; [rewrite Hb'; reflexivity | assumption].
Qed.

Lemma run_refines : forall ops st S, Forall op_ok ops -> Rel st S ->
  p_run true st ops = s_run S ops /\ Rel (p_exec true st ops) (s_exec S ops).
Proof.
  induction ops as [|op t IH]; intros st S Hok R; cbn [p_run s_run p_exec s_exec]; [split; [reflexivity | assumption]|].
  inversion Hok as [|? ? Hop Ht]; subst.
  destruct (step_refines st S op Hop R) as [Ho R'].
  destruct (p_step true st op) as [st' o] eqn:E1. destruct (s_step S op) as [S' o'] eqn:E2.
  cbn [fst snd] in *. subst o'. destruct (IH st' S' Ht R') as [Hr Hx].
  split; [rewrite Hr; reflexivity | assumption].
Qed.

(* ---------------------------------------------------------------- corollaries named in the design *)
Lemma reinsertion_idempotent_proof st S k : bytes_ok k -> Rel st S -> mem k S = true ->
  Rel (p_insert st k) S /\ p_len (p_insert st k) = p_len st.
Proof.
  intros Hb R M. pose proof (rel_insert st S k Hb R) as R'. unfold s_insert in R'. rewrite M in R'.
  split; [assumption|]. destruct R as (_ & _ & _ & L). destruct R' as (_ & _ & _ & L'). congruence.
Qed.

Lemma remove_then_reinsert_proof st S k : bytes_ok k -> Rel st S ->
  Rel (p_insert (fst (p_remove st k)) k) (k :: s_remove k S).
Proof.
  intros Hb R. destruct (rel_remove st S k R) as [R' _].
  pose proof (rel_insert _ _ k Hb R') as R2. unfold s_insert in R2.
  assert (M : mem k (s_remove k S) = false) by (rewrite mem_remove, eqb_ln_refl; apply andb_false_r).
  rewrite M in R2. assumption.
Qed.

(* the hypotheses are inhabited by non-trivial values *)
Example rel_example :
  Rel (p_exec true p_empty [(0, [97]); (0, [97; 98]); (0, []); (1, [97]); (0, [97; 0; 255])])
      (s_exec [] [(0, [97]); (0, [97; 98]); (0, []); (1, [97]); (0, [97; 0; 255])]).
Proof.
  apply run_refines; [|apply rel_empty].
  repeat constructor; cbn; try lia; discriminate.
Qed.
Example rel_example_contents :
  s_exec [] [(0, [97]); (0, [97; 98]); (0, []); (1, [97]); (0, [97; 0; 255])] = [[97; 0; 255]; []; [97; 98]].
Proof. vm_compute. reflexivity. Qed.

Lemma ptrie_refines_set_proof : forall ops, Forall op_ok ops -> p_run true p_empty ops = s_run [] ops.
Proof. intros ops H. apply (run_refines ops p_empty [] H rel_empty). Qed.
Lemma ptrie_reachable_related_proof : forall ops, Forall op_ok ops -> Rel (p_exec true p_empty ops) (s_exec [] ops).
Proof. intros ops H. apply (run_refines ops p_empty [] H rel_empty). Qed.
Lemma contains_is_membership_proof : forall st S k, Rel st S -> contains_nodes (p_nodes st) k = mem k S.
Proof. intros st S k (_ & Hl & _). rewrite contains_lookup. apply Hl. Qed.
Lemma len_is_card_proof : forall st S, Rel st S -> p_len st = N.of_nat (length S) /\ NoDup S.
Proof. intros st S (_ & _ & Hn & Hl). split; assumption. Qed.
Lemma fsa_accepts_is_contains_proof : forall ns k, fsa_accepts ns k = contains_nodes ns k.
Proof. intros ns k. rewrite contains_lookup. apply fsa_accepts_lookup. Qed.
Lemma fsa_agrees_proof : forall st S q, Rel st S ->
  fsa_accepts (p_nodes st) q = mem q S /\ fsa_longest_prefix (p_nodes st) q = s_longest_prefix S q.
Proof.
  intros st S q R. split; [|apply longest_prefix_refines; assumption].
  rewrite fsa_accepts_lookup. apply (proj1 (proj2 R)).
Qed.
