(* C05 mechanism model (definitions only) of the COMPRESSED-SPARSE storage of ZiporaTrie as written in
   src/fsa/zipora_trie.rs at the pinned commit:

     TrieStorage::CompressedSparse { sparse_nodes : HashMap<StateId, SparseNode>, compression_dict, bit_vector,
                                     rank_select }                      (the last three are never touched)
     SparseNode { children : HashMap<u8, StateId>, edge_label : None, is_final }

   i.e. a plain (uncompressed) trie over hash maps.  Modelled, statement for statement:
   insert_compressed_sparse (root created on first use, next_state_id = keys().max() + 1 computed once per call,
   the child node is inserted into the map BEFORE the parent is re-fetched and linked, `State not found` error
   branch, final flag set at the end), contains_compressed_sparse, impl FiniteStateAutomaton::{is_final, transition},
   keys_compressed_sparse_actual / collect_keys_compressed_sparse_recursive / keys_with_prefix_compressed_sparse_actual,
   impl Trie::insert (num_keys), ZiporaTrie::remove (`_ => Ok(false)`), impl Clone.

   A HashMap is an association list with at most one entry per key (insert replaces in place, otherwise appends);
   its iteration order is the list order.  The order is not observable (the harness sorts keys() of this storage
   and the model's observation is sorted likewise).  State ids are N (u32, `+ 1` does not overflow below 2^32 nodes). *)
From ZV.Common Require Import Base Run.
From ZV.C05 Require Import Model ModelFsa.
Open Scope N_scope.

(* ------------------------------------------------------------------ HashMap<N, V> *)
Fixpoint al_get {V} (m : list (N * V)) (k : N) : option V :=
  match m with
  | [] => None
  | (k', v) :: t => if k' =? k then Some v else al_get t k
  end.
Fixpoint al_put {V} (m : list (N * V)) (k : N) (v : V) : list (N * V) :=
  match m with
  | [] => [(k, v)]
  | (k', v') :: t => if k' =? k then (k, v) :: t else (k', v') :: al_put t k v
  end.

Record snode := mkS { s_children : list (N * N); s_final : bool }.
Definition smap : Type := list (N * snode).
Definition s_new : snode := mkS [] false.        (* SparseNode { children: HashMap::new(), edge_label: None, is_final: false } *)

(* sparse_nodes.keys().max().copied().unwrap_or(0) *)
Definition cs_max_key (m : smap) : N := fold_right (fun e acc => N.max (fst e) acc) 0 m.

(* ------------------------------------------------------------------ insert_compressed_sparse *)
Fixpoint cs_ins_go (m : smap) (cur next_id : N) (key : list N) : smap * option N :=
  match key with
  | [] =>
      (match al_get m cur with
       | Some n => al_put m cur (mkS (s_children n) true)           (* final_node.is_final = true *)
       | None => m end, Some cur)
  | symbol :: rest =>
      let existing_child := match al_get m cur with
                            | Some n => al_get (s_children n) symbol
                            | None => None end in
      match existing_child with
      | Some existing => cs_ins_go m existing next_id rest
      | None =>
          let new_state := next_id in
          let m1 := al_put m new_state s_new in                       (* sparse_nodes.insert(new_state, ..) *)
          match al_get m1 cur with                                    (* sparse_nodes.get_mut(&current_state) *)
          | Some pn =>
              let m2 := al_put m1 cur (mkS (al_put (s_children pn) symbol new_state) (s_final pn)) in
              cs_ins_go m2 new_state (next_id + 1) rest
          | None => (m1, None)                                        (* Err("State .. not found during insertion") *)
          end
      end
  end.

Definition cs_insert (m : smap) (key : list N) : smap * option N :=
  let m0 := match m with [] => [(0, s_new)] | _ => m end in          (* if sparse_nodes.is_empty() insert the root *)
  cs_ins_go m0 0 (cs_max_key m0 + 1) key.

(* ------------------------------------------------------------------ contains_compressed_sparse *)
Fixpoint cs_contains_go (m : smap) (cur : N) (key : list N) : bool :=
  match key with
  | [] => match al_get m cur with Some n => s_final n | None => false end
  | symbol :: rest =>
      match al_get m cur with
      | Some n => match al_get (s_children n) symbol with
                  | Some c => cs_contains_go m c rest
                  | None => false end
      | None => false
      end
  end.
Definition cs_contains (m : smap) (key : list N) : bool :=
  match m with [] => false | _ => cs_contains_go m 0 key end.

(* ------------------------------------------------------------------ impl FiniteStateAutomaton *)
Definition cs_is_final (m : smap) (state : N) : bool :=
  match al_get m state with Some n => s_final n | None => false end.
Definition cs_transition (m : smap) (state symbol : N) : option N :=
  match al_get m state with Some n => al_get (s_children n) symbol | None => None end.
Definition cs_accepts (m : smap) (input : list N) : bool := g_accepts (cs_transition m) (cs_is_final m) 0 input.
Definition cs_longest_prefix (m : smap) (input : list N) : option N :=
  g_longest_prefix (cs_transition m) (cs_is_final m) 0 input.

(* ------------------------------------------------------------------ keys / keys_with_prefix *)
(* collect_keys_compressed_sparse_recursive: `for (&symbol, &child_state) in &node.children` *)
Fixpoint cs_collect (fuel : nat) (m : smap) (state : N) (path_rev : list N) : list (list N) :=
  match fuel with
  | O => []
  | S f =>
      match al_get m state with
      | Some n =>
          (if s_final n then [rev path_rev] else []) ++
          flat_map (fun e => cs_collect f m (snd e) (fst e :: path_rev)) (s_children n)
      | None => []
      end
  end.
Definition cs_fuel (m : smap) : nat := S (length m).
Definition cs_keys (m : smap) : list (list N) := cs_collect (cs_fuel m) m 0 [].

Fixpoint cs_prefix_walk (m : smap) (cur : N) (p : list N) : option N :=
  match p with
  | [] => Some cur
  | symbol :: rest =>
      match al_get m cur with
      | Some n => match al_get (s_children n) symbol with
                  | Some c => cs_prefix_walk m c rest
                  | None => None end
      | None => None
      end
  end.
Definition cs_prefix (m : smap) (p : list N) : list (list N) :=
  match cs_prefix_walk m 0 p with
  | None => []
  | Some c => cs_collect (cs_fuel m) m c (rev p)
  end.

(* the enumeration order of a HashMap is not observable: observations are sorted (duplicates kept) *)
Fixpoint sort_ins (k : list N) (l : list (list N)) : list (list N) :=
  match l with
  | [] => [k]
  | h :: t => match lex_cmp k h with Gt => h :: sort_ins k t | _ => k :: l end
  end.
Definition sort_keys (l : list (list N)) : list (list N) := fold_right sort_ins [] l.

(* ------------------------------------------------------------------ ZiporaTrie over the sparse storage *)
Record cst := mkC { c_map : smap; c_len : N }.
Definition c_empty : cst := mkC [] 0.

Definition cs_insert_top (st : cst) (k : list N) : cst * bool :=
  let ex := cs_contains (c_map st) k in
  match cs_insert (c_map st) k with
  | (m', Some _) => (mkC m' (if ex then c_len st else c_len st + 1), true)
  | (m', None) => (mkC m' (c_len st), false)
  end.

Definition cs_clone (st : cst) : cst :=
  let st' := fold_left (fun s k => fst (cs_insert_top s k)) (cs_keys (c_map st)) c_empty in
  mkC (c_map st') (c_len st).

Definition cs_step (st : cst) (op : N * list N) : cst * obs :=
  let '(code, k) := op in
  match code with
  | 0 => let '(st', ok) := cs_insert_top st k in (st', [[if ok then 0 else 1]])
  | 1 => (st, ob_bool false)                                         (* ZiporaTrie::remove: `_ => Ok(false)` *)
  | 2 => (st, ob_bool (cs_contains (c_map st) k))
  | 3 => (st, [[c_len st]])
  | 4 => (st, sort_keys (cs_keys (c_map st)))
  | 5 => (st, sort_keys (cs_prefix (c_map st) k))
  | 6 => (st, ob_bool (cs_accepts (c_map st) k))
  | 7 => (st, ob_opt (cs_longest_prefix (c_map st) k))
  | 8 => (cs_clone st, [])
  | _ => (st, [])
  end.
Fixpoint cs_run (st : cst) (ops : list (N * list N)) : list obs :=
  match ops with
  | [] => []
  | op :: t => let '(st', o) := cs_step st op in o :: cs_run st' t
  end.
Fixpoint cs_exec (st : cst) (ops : list (N * list N)) : cst :=
  match ops with
  | [] => st
  | op :: t => cs_exec (fst (cs_step st op)) t
  end.
