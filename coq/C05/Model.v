(* C05 mechanism models (definitions only) of src/fsa/zipora_trie.rs as written at the pinned commit.

   1. "Patricia" storage (default and cache_optimized presets, PatriciaTrie/CritBitTrie aliases):
      as written this is an UNCOMPRESSED 256-ary trie over a node vector
        nodes : FastVec<PatriciaNode>, PatriciaNode { children : [Option<StateId>; 256], is_final, .. }
      (edge_data / compressed_paths / path_offset / path_length are never written).
      insert_patricia_actual, contains_patricia_actual, remove_patricia_actual,
      keys_patricia_actual / collect_keys_patricia_recursive, keys_with_prefix_patricia_actual,
      impl Trie::insert (num_keys from the pre-insert contains), ZiporaTrie::remove,
      impl FiniteStateAutomaton::{is_final, transition} + the default accepts / longest_prefix
      of src/fsa/traits.rs.
   2. CompressedSparse storage: the same trie over a HashMap<StateId, SparseNode>; new ids are
      max+1 = number of nodes; remove is `_ => Ok(false)`.
   3. LOUDS storage: a flat buffer of [len][bytes] records (insert_louds, contains_louds_internal,
      keys_louds_actual), FSA view is a stub.
   4. CriticalBit storage: insert/contains are TODO stubs.

   Symbols are N (bytes when < 256); node ids, lengths and fuel are nat. *)
From ZV.Common Require Import Base Run.
Open Scope N_scope.

(* ------------------------------------------------------------------ nodes *)
Record node := mkNode { children : N -> option nat; final : bool }.
Definition default_node : node := mkNode (fun _ => None) false.        (* PatriciaNode::default() *)

Definition child (ns : list node) (i : nat) (s : N) : option nat := children (nth i ns default_node) s.
Definition fin (ns : list node) (i : nat) : bool := final (nth i ns default_node).

Definition set_child (s : N) (c : option nat) (n : node) : node :=
  mkNode (fun x => if x =? s then c else children n x) (final n).
Definition set_final (b : bool) (n : node) : node := mkNode (children n) b.

(* nodes[i] = f(nodes[i]) *)
Fixpoint upd (ns : list node) (i : nat) (f : node -> node) : list node :=
  match ns, i with
  | [], _ => []
  | n :: t, O => f n :: t
  | n :: t, S j => n :: upd t j f
  end.

Definition byte_range : list N := map N.of_nat (seq 0 256).

(* ------------------------------------------------------------------ insert_patricia_actual *)
(* the while loop: key_pos advances by one per iteration, so the recursion is on the rest of the key *)
Fixpoint ins_go (ns : list node) (cur : nat) (key : list N) : list node * nat :=
  match key with
  | [] => (upd ns cur (set_final true), cur)                    (* nodes[current].is_final = true *)
  | s :: rest =>
      match child ns cur s with
      | Some c => ins_go ns c rest                               (* follow existing path *)
      | None =>
          let nw := length ns in                                 (* new_node_id = nodes.len() *)
          let ns1 := ns ++ [default_node] in                     (* nodes.push(default) *)
          let ns2 := upd ns1 cur (set_child s (Some nw)) in      (* parent.children[symbol] = Some(new) *)
          let ns3 := match rest with
                     | [] => upd ns2 nw (set_final true)         (* if key_pos + 1 == key.len() *)
                     | _ => ns2 end in
          ins_go ns3 nw rest
      end
  end.

Definition insert_nodes (ns : list node) (key : list N) : list node * nat :=
  let ns0 := match ns with [] => [default_node] | _ => ns end in  (* if nodes.is_empty() push root *)
  ins_go ns0 0%nat key.

(* ------------------------------------------------------------------ contains_patricia_actual *)
Fixpoint walk (ns : list node) (cur : nat) (key : list N) : option nat :=
  match key with
  | [] => Some cur
  | s :: rest => match child ns cur s with Some c => walk ns c rest | None => None end
  end.

Definition lookup (ns : list node) (cur : nat) (key : list N) : bool :=
  match walk ns cur key with Some e => fin ns e | None => false end.

Definition contains_nodes (ns : list node) (key : list N) : bool :=
  match ns with [] => false | _ => lookup ns 0%nat key end.

(* ------------------------------------------------------------------ remove_patricia_actual *)
(* first loop: walk and record (parent, symbol); the path is kept deepest-first (the code iterates path.iter().rev()) *)
Fixpoint rm_find (ns : list node) (cur : nat) (key : list N) (rpath : list (nat * N)) : option (nat * list (nat * N)) :=
  match key with
  | [] => Some (cur, rpath)
  | s :: rest => match child ns cur s with
                 | Some c => rm_find ns c rest ((cur, s) :: rpath)
                 | None => None end
  end.

(* children.iter().any(|c| c.is_some()) *)
Definition has_children (ns : list node) (i : nat) : bool :=
  existsb (fun s => match child ns i s with Some _ => true | None => false end) byte_range.

(* for &(parent_idx, symbol) in path.iter().rev() { unlink; if parent has children or is final break } *)
Fixpoint cleanup (ns : list node) (rpath : list (nat * N)) : list node :=
  match rpath with
  | [] => ns
  | (p, s) :: rest =>
      let ns1 := upd ns p (set_child s None) in
      if has_children ns1 p || fin ns1 p then ns1 else cleanup ns1 rest
  end.

Definition remove_nodes (ns : list node) (key : list N) : list node * bool :=
  match ns with
  | [] => (ns, false)
  | _ =>
    match rm_find ns 0%nat key [] with
    | None => (ns, false)
    | Some (e, rpath) =>
        if negb (fin ns e) then (ns, false)
        else
          let ns1 := upd ns e (set_final false) in
          if has_children ns1 e then (ns1, true) else (cleanup ns1 rpath, true)
    end
  end.

(* ------------------------------------------------------------------ keys / keys_with_prefix *)
Fixpoint starts_with (k p : list N) : bool :=
  match p, k with
  | [], _ => true
  | x :: p', y :: k' => (x =? y) && starts_with k' p'
  | _ :: _, [] => false
  end.

(* collect_keys_patricia_recursive: DFS in symbol order; the recursion depth of the Rust code is the
   key length, here it is bounded by fuel (the number of nodes + 1 always suffices, see ProofsKeys) *)
Fixpoint collect (fuel : nat) (ns : list node) (i : nat) (path_rev : list N) : list (list N) :=
  match fuel with
  | O => []
  | S f =>
      (if fin ns i then [rev path_rev] else []) ++
      flat_map (fun s => match child ns i s with
                         | Some c => collect f ns c (s :: path_rev)
                         | None => [] end) byte_range
  end.

Definition keys_nodes (ns : list node) : list (list N) :=
  match ns with [] => [] | _ => collect (S (length ns)) ns 0%nat [] end.

Definition prefix_nodes (ns : list node) (p : list N) : list (list N) :=
  match ns with
  | [] => []
  | _ => match walk ns 0%nat p with
         | None => []
         | Some c => filter (fun k => starts_with k p) (collect (S (length ns)) ns c (rev p))
         end
  end.

(* ------------------------------------------------------------------ FSA view (traits.rs defaults) *)
(* transition(state, symbol) = nodes.get(state)?.children[symbol]; is_final(state) = nodes.get(state).map(is_final).unwrap_or(false);
   root() = 0.  `child` and `fin` already return None / false for ids past the vector. *)
Fixpoint fsa_accepts_go (ns : list node) (state : nat) (input : list N) : bool :=
  match input with
  | [] => fin ns state
  | s :: rest => match child ns state s with Some c => fsa_accepts_go ns c rest | None => false end
  end.
Definition fsa_accepts (ns : list node) (input : list N) : bool := fsa_accepts_go ns 0%nat input.

Fixpoint lp_go (ns : list node) (state : nat) (input : list N) (i : N) (last : option N) : option N :=
  match input with
  | [] => if fin ns state then Some i else last
  | s :: rest =>
      let last' := if fin ns state then Some i else last in
      match child ns state s with
      | Some c => lp_go ns c rest (i + 1) last'
      | None => last'
      end
  end.
Definition fsa_longest_prefix (ns : list node) (input : list N) : option N := lp_go ns 0%nat input 0 None.

(* ------------------------------------------------------------------ ZiporaTrie over Patricia storage *)
Record pst := mkP { p_nodes : list node; p_len : N }.
Definition p_empty : pst := mkP [] 0.

(* impl Trie::insert: already_exists = self.contains(key); insert; if !already_exists { num_keys += 1 } *)
Definition p_insert (st : pst) (k : list N) : pst :=
  let ex := contains_nodes (p_nodes st) k in
  let ns := fst (insert_nodes (p_nodes st) k) in
  mkP ns (if ex then p_len st else p_len st + 1).

(* ZiporaTrie::remove: if removed { num_keys = num_keys.saturating_sub(1) } *)
Definition p_remove (st : pst) (k : list N) : pst * bool :=
  let '(ns, removed) := remove_nodes (p_nodes st) k in
  (mkP ns (if removed then p_len st - 1 else p_len st), removed).

(* ------------------------------------------------------------------ observations (shared with harness/src/c05.rs) *)
Definition obs := list (list N).
Definition ob_bool (b : bool) : obs := [[if b then 1 else 0]].
Definition ob_opt (o : option N) : obs := match o with Some n => [[n]] | None => [] end.

(* op codes: 0 insert, 1 remove, 2 contains, 3 len, 4 keys, 5 keys_with_prefix, 6 accepts, 7 longest_prefix *)
Definition p_step (with_remove : bool) (st : pst) (op : N * list N) : pst * obs :=
  let '(code, k) := op in
  match code with
  | 0 => (p_insert st k, [[0]])
  | 1 => if with_remove then let '(st', b) := p_remove st k in (st', ob_bool b)
         else (st, ob_bool false)                                    (* `_ => Ok(false)` for the other storages *)
  | 2 => (st, ob_bool (contains_nodes (p_nodes st) k))
  | 3 => (st, [[p_len st]])
  | 4 => (st, keys_nodes (p_nodes st))
  | 5 => (st, prefix_nodes (p_nodes st) k)
  | 6 => (st, ob_bool (fsa_accepts (p_nodes st) k))
  | 7 => (st, ob_opt (fsa_longest_prefix (p_nodes st) k))
  | _ => (st, [])
  end.

Fixpoint p_run (with_remove : bool) (st : pst) (ops : list (N * list N)) : list obs :=
  match ops with
  | [] => []
  | op :: t => let '(st', o) := p_step with_remove st op in o :: p_run with_remove st' t
  end.

Fixpoint p_exec (with_remove : bool) (st : pst) (ops : list (N * list N)) : pst :=
  match ops with
  | [] => st
  | op :: t => p_exec with_remove (fst (p_step with_remove st op)) t
  end.

(* impl Clone for ZiporaTrie: a fresh trie with the same config, every key of self.keys() inserted,
   then `new_trie.stats = self.stats.clone()` *)
Definition p_clone (st : pst) : pst :=
  let st' := fold_left p_insert (keys_nodes (p_nodes st)) p_empty in
  mkP (p_nodes st') (p_len st).

(* histories with clone steps (op code 8: trie = trie.clone()) *)
Definition p_step_c (with_remove : bool) (st : pst) (op : N * list N) : pst * obs :=
  if fst op =? 8 then (p_clone st, []) else p_step with_remove st op.
Fixpoint p_run_c (with_remove : bool) (st : pst) (ops : list (N * list N)) : list obs :=
  match ops with
  | [] => []
  | op :: t => let '(st', o) := p_step_c with_remove st op in o :: p_run_c with_remove st' t
  end.

(* ------------------------------------------------------------------ LOUDS storage as written *)
(* contains_louds_internal: pos-based scan over [len][bytes] records *)
Fixpoint louds_scan (fuel : nat) (data key : list N) : bool :=
  match fuel with
  | O => false
  | S f =>
      match data with
      | [] => false
      | l :: rest =>
          let n := N.to_nat l in
          if (length rest <? n)%nat then false                     (* pos + 1 + stored_len > len: break *)
          else if (l =? nlen key) && eqb_ln (firstn n rest) key then true
          else louds_scan f (skipn n rest) key
      end
  end.
Definition louds_contains (data key : list N) : bool :=
  match data with
  | [] => false
  | _ => if 255 <? nlen key then false else louds_scan (length data) data key
  end.

(* insert_louds: Some data' = Ok, None = Err("Key too long for LOUDS") *)
Definition louds_insert (data key : list N) : option (list N) :=
  if louds_contains data key then Some data
  else if 255 <? nlen key then None
  else Some (data ++ nlen key :: key).

(* keys_louds_actual (after fix d5ef1b8): the same record walk as contains, then sort + dedup *)
Fixpoint louds_records (fuel : nat) (data : list N) : list (list N) :=
  match fuel with
  | O => []
  | S f =>
      match data with
      | [] => []
      | l :: rest =>
          let n := N.to_nat l in
          if (length rest <? n)%nat then []
          else firstn n rest :: louds_records f (skipn n rest)
      end
  end.
Fixpoint lex_cmp (a b : list N) : comparison :=
  match a, b with
  | [], [] => Eq
  | [], _ :: _ => Lt
  | _ :: _, [] => Gt
  | x :: a', y :: b' => match x ?= y with Eq => lex_cmp a' b' | c => c end
  end.
Fixpoint sorted_insert (k : list N) (l : list (list N)) : list (list N) :=
  match l with
  | [] => [k]
  | h :: t => match lex_cmp k h with
              | Lt => k :: l
              | Eq => l
              | Gt => h :: sorted_insert k t end
  end.
Definition sort_dedup (l : list (list N)) : list (list N) := fold_right sorted_insert [] l.
Definition louds_keys (data : list N) : list (list N) := sort_dedup (louds_records (length data) data).
Definition louds_prefix (data p : list N) : list (list N) := filter (fun k => starts_with k p) (louds_keys data).

Record lst := mkL { l_data : list N; l_len : N }.
Definition l_step (st : lst) (op : N * list N) : lst * obs :=
  let '(code, k) := op in
  match code with
  | 0 => let ex := louds_contains (l_data st) k in
         match louds_insert (l_data st) k with
         | Some d => (mkL d (if ex then l_len st else l_len st + 1), [[0]])
         | None => (st, [[1]])                                       (* `?` returns before num_keys is touched *)
         end
  | 1 => (st, ob_bool false)
  | 2 => (st, ob_bool (louds_contains (l_data st) k))
  | 3 => (st, [[l_len st]])
  | 4 => (st, louds_keys (l_data st))
  | 5 => (st, louds_prefix (l_data st) k)
  | 6 => (st, ob_bool false)                                         (* is_final: TODO => false *)
  | 7 => (st, [])                                                    (* transition: TODO => None *)
  | _ => (st, [])
  end.
Fixpoint l_run (st : lst) (ops : list (N * list N)) : list obs :=
  match ops with
  | [] => []
  | op :: t => let '(st', o) := l_step st op in o :: l_run st' t
  end.

(* ------------------------------------------------------------------ CriticalBit storage as written (stubs) *)
Definition c_step (nk : N) (op : N * list N) : N * obs :=
  let '(code, k) := op in
  match code with
  | 0 => (nk + 1, [[0]])            (* contains is constantly false, so every insert counts *)
  | 1 => (nk, ob_bool false)
  | 2 => (nk, ob_bool false)
  | 3 => (nk, [[nk]])
  | 4 | 5 => (nk, [])
  | 6 => (nk, ob_bool false)
  | 7 => (nk, [])
  | _ => (nk, [])
  end.
Fixpoint c_run (nk : N) (ops : list (N * list N)) : list obs :=
  match ops with
  | [] => []
  | op :: t => let '(nk', o) := c_step nk op in o :: c_run nk' t
  end.

(* ------------------------------------------------------------------ dispatch used by the generated case files *)
Definition run_cell (kind : N) (ops : list (N * list N)) : list obs :=
  match kind with
  | 0 => p_run_c true p_empty ops      (* Patricia presets and aliases *)
  | 1 => p_run_c false p_empty ops      (* compressed-sparse preset: same trie, no remove; keys compared sorted *)
  | 2 => l_run (mkL [] 0) ops          (* LOUDS / space-optimised preset *)
  | _ => c_run 0 ops                   (* critical-bit / string-specialised preset *)
  end.
