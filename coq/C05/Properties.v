(* C05 property theorems.  Statements + exact + Print Assumptions only.
   M = the node-vector trie of Model.v (what zipora calls Patricia storage), S = a duplicate-free list of keys. *)
From ZV.Common Require Import Base Run.
From ZV.C05 Require Import Model Spec ProofsBase ProofsInsert ProofsRemove ProofsRefine ProofsKeys ProofsLouds ProofsSpec ProofsClone.
From ZV.C05 Require Import SpecNoRemove ModelFsa ModelDa ModelCs ModelAll ProofsFsa ProofsDaArr ProofsDaInv ProofsDaReloc ProofsDaReloc2 ProofsDaInsert ProofsDaKeys ProofsCs.
Open Scope N_scope.

(* ptrie_refines_set: for EVERY history of insert / remove / contains / len / accepts / longest_prefix calls
   over byte-string keys (empty key, prefixes of each other, 0x00 / 0xFF, any length), the trie started empty
   answers exactly like the set of keys inserted and not removed *)
Theorem ptrie_refines_set : forall ops, Forall op_ok ops -> p_run true p_empty ops = s_run [] ops.
Proof. exact ptrie_refines_set_proof. Qed.
Check ptrie_refines_set : forall ops, Forall op_ok ops -> p_run true p_empty ops = s_run [] ops.
Print Assumptions ptrie_refines_set.

(* ... and the state reached is related to the set reached (shape invariant, membership, no duplicates, len) *)
Theorem ptrie_reachable_related : forall ops, Forall op_ok ops -> Rel (p_exec true p_empty ops) (s_exec [] ops).
Proof. exact ptrie_reachable_related_proof. Qed.
Check ptrie_reachable_related : forall ops, Forall op_ok ops -> Rel (p_exec true p_empty ops) (s_exec [] ops).
Print Assumptions ptrie_reachable_related.

(* contains(k) is membership, for every key (bytes or not) *)
Theorem contains_is_membership : forall st S k, Rel st S -> contains_nodes (p_nodes st) k = mem k S.
Proof. exact contains_is_membership_proof. Qed.
Check contains_is_membership : forall st S k, Rel st S -> contains_nodes (p_nodes st) k = mem k S.
Print Assumptions contains_is_membership.

(* len_is_card: num_keys, maintained from the pre-insert contains() and the removed flag, is the cardinality *)
Theorem len_is_card : forall st S, Rel st S -> p_len st = N.of_nat (length S) /\ NoDup S.
Proof. exact len_is_card_proof. Qed.
Check len_is_card : forall st S, Rel st S -> p_len st = N.of_nat (length S) /\ NoDup S.
Print Assumptions len_is_card.

Theorem insert_adds_exactly : forall st S k, bytes_ok k -> Rel st S -> Rel (p_insert st k) (s_insert k S).
Proof. exact rel_insert. Qed.
Check insert_adds_exactly : forall st S k, bytes_ok k -> Rel st S -> Rel (p_insert st k) (s_insert k S).
Print Assumptions insert_adds_exactly.

Theorem remove_removes_exactly : forall st S k, Rel st S ->
  Rel (fst (p_remove st k)) (s_remove k S) /\ snd (p_remove st k) = mem k S.
Proof. exact rel_remove. Qed.
Check remove_removes_exactly : forall st S k, Rel st S ->
  Rel (fst (p_remove st k)) (s_remove k S) /\ snd (p_remove st k) = mem k S.
Print Assumptions remove_removes_exactly.

(* re-inserting an existing key changes nothing observable *)
Theorem reinsertion_idempotent : forall st S k, bytes_ok k -> Rel st S -> mem k S = true ->
  Rel (p_insert st k) S /\ p_len (p_insert st k) = p_len st.
Proof. exact reinsertion_idempotent_proof. Qed.
Check reinsertion_idempotent : forall st S k, bytes_ok k -> Rel st S -> mem k S = true ->
  Rel (p_insert st k) S /\ p_len (p_insert st k) = p_len st.
Print Assumptions reinsertion_idempotent.

(* deletion followed by re-insertion (through whatever the cleanup unlinked) *)
Theorem remove_then_reinsert : forall st S k, bytes_ok k -> Rel st S ->
  Rel (p_insert (fst (p_remove st k)) k) (k :: s_remove k S).
Proof. exact remove_then_reinsert_proof. Qed.
Check remove_then_reinsert : forall st S k, bytes_ok k -> Rel st S ->
  Rel (p_insert (fst (p_remove st k)) k) (k :: s_remove k S).
Print Assumptions remove_then_reinsert.

(* unlink_preserves_others: the bottom-up cleanup of remove changes no lookup from any node *)
Theorem unlink_preserves_others : forall rp ns x, bounded ns -> wchain ns rp x -> dead ns x ->
  forall i k, lookup (cleanup ns rp) i k = lookup ns i k.
Proof. exact cleanup_lookup. Qed.
Check unlink_preserves_others : forall rp ns x, bounded ns -> wchain ns rp x -> dead ns x ->
  forall i k, lookup (cleanup ns rp) i k = lookup ns i k.
Print Assumptions unlink_preserves_others.

(* fsa_agrees: the automaton view (root / transition / is_final with the default accepts and longest_prefix) *)
Theorem fsa_accepts_is_contains : forall ns k, fsa_accepts ns k = contains_nodes ns k.
Proof. exact fsa_accepts_is_contains_proof. Qed.
Check fsa_accepts_is_contains : forall ns k, fsa_accepts ns k = contains_nodes ns k.
Print Assumptions fsa_accepts_is_contains.

Theorem fsa_agrees : forall st S q, Rel st S ->
  fsa_accepts (p_nodes st) q = mem q S /\ fsa_longest_prefix (p_nodes st) q = s_longest_prefix S q.
Proof. exact fsa_agrees_proof. Qed.
Check fsa_agrees : forall st S q, Rel st S ->
  fsa_accepts (p_nodes st) q = mem q S /\ fsa_longest_prefix (p_nodes st) q = s_longest_prefix S q.
Print Assumptions fsa_agrees.

(* under the shape invariant a node is reached from the root by at most one key *)
Theorem walk_injective : forall ns addr k1 k2 e, inv ns addr -> walk ns 0%nat k1 = Some e -> walk ns 0%nat k2 = Some e -> k1 = k2.
Proof. exact walk_inj. Qed.
Check walk_injective : forall ns addr k1 k2 e, inv ns addr -> walk ns 0%nat k1 = Some e -> walk ns 0%nat k2 = Some e -> k1 = k2.
Print Assumptions walk_injective.

(* the executable spec used in fsa_agrees is: the longest prefix of q that is a member, None if there is none *)
Theorem s_longest_prefix_spec : forall S q,
  match s_longest_prefix S q with
  | Some m => exists n, m = N.of_nat n /\ (n <= length q)%nat /\ mem (firstn n q) S = true /\
                        forall n', (n < n' <= length q)%nat -> mem (firstn n' q) S = false
  | None => forall n', (n' <= length q)%nat -> mem (firstn n' q) S = false
  end.
Proof. exact s_longest_prefix_spec_proof. Qed.
Check s_longest_prefix_spec : forall S q,
  match s_longest_prefix S q with
  | Some m => exists n, m = N.of_nat n /\ (n <= length q)%nat /\ mem (firstn n q) S = true /\
                        forall n', (n < n' <= length q)%nat -> mem (firstn n' q) S = false
  | None => forall n', (n' <= length q)%nat -> mem (firstn n' q) S = false
  end.
Print Assumptions s_longest_prefix_spec.

(* keys_sorted_complete, as an enumeration (the property fixes no order): keys() lists exactly the members ... *)
Theorem keys_enumerates : forall st S k, Rel st S -> (In k (keys_nodes (p_nodes st)) <-> In k S).
Proof. exact keys_enumerates_proof. Qed.
Check keys_enumerates : forall st S k, Rel st S -> (In k (keys_nodes (p_nodes st)) <-> In k S).
Print Assumptions keys_enumerates.

(* ... each exactly once (for any node vector) *)
Theorem keys_no_duplicates : forall ns, NoDup (keys_nodes ns).
Proof. exact keys_nodup_proof. Qed.
Check keys_no_duplicates : forall ns, NoDup (keys_nodes ns).
Print Assumptions keys_no_duplicates.

(* keys_with_prefix(p) lists exactly the members that start with p ... *)
Theorem prefix_query_exact : forall st S p k, Rel st S -> (In k (prefix_nodes (p_nodes st) p) <-> In k S /\ exists k2, k = p ++ k2).
Proof. exact prefix_query_exact_proof. Qed.
Check prefix_query_exact : forall st S p k, Rel st S -> (In k (prefix_nodes (p_nodes st) p) <-> In k S /\ exists k2, k = p ++ k2).
Print Assumptions prefix_query_exact.

(* ... each exactly once *)
Theorem prefix_no_duplicates : forall ns p, NoDup (prefix_nodes ns p).
Proof. exact prefix_nodup_proof. Qed.
Check prefix_no_duplicates : forall ns p, NoDup (prefix_nodes ns p).
Print Assumptions prefix_no_duplicates.

(* the DFS fuel of the model (number of nodes + 1) always suffices: a key that leads to a node is shorter than the node count *)
Theorem walk_depth_bound : forall ns addr k e, inv ns addr -> (0 < length ns)%nat -> walk ns 0%nat k = Some e -> (length k < length ns)%nat.
Proof. exact walk_depth. Qed.
Check walk_depth_bound : forall ns addr k e, inv ns addr -> (0 < length ns)%nat -> walk ns 0%nat k = Some e -> (length k < length ns)%nat.
Print Assumptions walk_depth_bound.

(* LOUDS / space-optimised storage as written (flat [len][bytes] records): insert (keys up to 255 bytes) / contains / len refine the set, for every history *)
Theorem louds_refines_set : forall ops, Forall louds_op_ok ops -> l_run (mkL [] 0) ops = s_run [] ops.
Proof. exact louds_refines_set_proof. Qed.
Check louds_refines_set : forall ops, Forall louds_op_ok ops -> l_run (mkL [] 0) ops = s_run [] ops.
Print Assumptions louds_refines_set.

(* compressed-sparse storage (same trie, remove is a no-op): every history without remove refines the set *)
Theorem sparse_refines_set : forall ops, Forall (fun op => op_ok op /\ fst op <> 1) ops -> p_run false p_empty ops = s_run [] ops.
Proof. exact sparse_refines_set_proof. Qed.
Check sparse_refines_set : forall ops, Forall (fun op => op_ok op /\ fst op <> 1) ops -> p_run false p_empty ops = s_run [] ops.
Print Assumptions sparse_refines_set.

(* recorded findings, as refutations on the faithful models: remove is a no-op outside the Patricia storage *)
Theorem sparse_remove_refuted : exists ops, Forall op_ok ops /\ p_run false p_empty ops <> s_run [] ops.
Proof. exact sparse_remove_refuted_proof. Qed.
Check sparse_remove_refuted : exists ops, Forall op_ok ops /\ p_run false p_empty ops <> s_run [] ops.
Print Assumptions sparse_remove_refuted.

Theorem louds_remove_refuted : exists ops, Forall op_ok ops /\ l_run (mkL [] 0) ops <> s_run [] ops.
Proof. exact louds_remove_refuted_proof. Qed.
Check louds_remove_refuted : exists ops, Forall op_ok ops /\ l_run (mkL [] 0) ops <> s_run [] ops.
Print Assumptions louds_remove_refuted.

(* the LOUDS automaton view is a stub *)
Theorem louds_fsa_refuted : exists ops, Forall op_ok ops /\ l_run (mkL [] 0) ops <> s_run [] ops.
Proof. exact louds_fsa_refuted_proof. Qed.
Check louds_fsa_refuted : exists ops, Forall op_ok ops /\ l_run (mkL [] 0) ops <> s_run [] ops.
Print Assumptions louds_fsa_refuted.

(* LOUDS refuses keys longer than 255 bytes *)
Theorem louds_long_key_refuted : exists k, bytes_ok k /\ nlen k = 256 /\ l_run (mkL [] 0) [(0, k); (2, k)] <> s_run [] [(0, k); (2, k)].
Proof. exact louds_long_key_refuted_proof. Qed.
Check louds_long_key_refuted : exists k, bytes_ok k /\ nlen k = 256 /\ l_run (mkL [] 0) [(0, k); (2, k)] <> s_run [] [(0, k); (2, k)].
Print Assumptions louds_long_key_refuted.

(* the critical-bit storage is a stub *)
Theorem critbit_stub_refuted : exists ops, Forall op_ok ops /\ c_run 0 ops <> s_run [] ops.
Proof. exact critbit_stub_refuted_proof. Qed.
Check critbit_stub_refuted : exists ops, Forall op_ok ops /\ c_run 0 ops <> s_run [] ops.
Print Assumptions critbit_stub_refuted.

(* impl Clone for ZiporaTrie (re-insert keys() into a fresh trie, copy the statistics) yields a trie for the same set *)
Theorem clone_preserves : forall st S, Rel st S -> Rel (p_clone st) S.
Proof. exact clone_preserves_proof. Qed.
Check clone_preserves : forall st S, Rel st S -> Rel (p_clone st) S.
Print Assumptions clone_preserves.

(* ptrie_refines_set for histories that also contain clone steps (op code 8) *)
Theorem ptrie_refines_set_with_clone : forall ops, Forall op_ok ops -> p_run_c true p_empty ops = s_run [] ops.
Proof. exact ptrie_refines_set_with_clone_proof. Qed.
Check ptrie_refines_set_with_clone : forall ops, Forall op_ok ops -> p_run_c true p_empty ops = s_run [] ops.
Print Assumptions ptrie_refines_set_with_clone.

(* ------------------------------------------------------------------------------------------------------------------
   Extension: the default methods of src/fsa/traits.rs over any automaton, the double-array storage, the hash-map
   (compressed-sparse) storage. *)

(* fsa_longest_prefix_correct: the default accepts / longest_prefix of trait FiniteStateAutomaton (and Trie::lookup),
   as written, over ANY state type, transition function, is_final and root whose language (the keys k with
   lookup(k).is_some()) is the set S - in particular root final <-> the empty key is a member: accepts is membership
   and longest_prefix(q) is s_longest_prefix S q, i.e. (s_longest_prefix_spec) the length of the longest member that
   is a prefix of q, None if there is none *)
Theorem fsa_longest_prefix_correct : forall (St : Type) (trans : St -> N -> option St) (isfin : St -> bool) (root : St) (S : keyset),
  (forall k, g_lookup trans isfin root k = mem k S) ->
  forall q, g_accepts trans isfin root q = mem q S /\ g_longest_prefix trans isfin root q = s_longest_prefix S q.
Proof. exact fsa_longest_prefix_correct_proof. Qed.
Check fsa_longest_prefix_correct : forall (St : Type) (trans : St -> N -> option St) (isfin : St -> bool) (root : St) (S : keyset),
  (forall k, g_lookup trans isfin root k = mem k S) ->
  forall q, g_accepts trans isfin root q = mem q S /\ g_longest_prefix trans isfin root q = s_longest_prefix S q.
Print Assumptions fsa_longest_prefix_correct.

(* the FSA view of the node-vector model (fsa_accepts / fsa_longest_prefix of Model.v) is that generic walk *)
Theorem fsa_generic_is_patricia : forall ns q,
  fsa_accepts ns q = g_accepts (child ns) (fin ns) 0%nat q /\
  fsa_longest_prefix ns q = g_longest_prefix (child ns) (fin ns) 0%nat q.
Proof. exact fsa_generic_is_patricia_proof. Qed.
Check fsa_generic_is_patricia : forall ns q,
  fsa_accepts ns q = g_accepts (child ns) (fin ns) 0%nat q /\
  fsa_longest_prefix ns q = g_longest_prefix (child ns) (fin ns) 0%nat q.
Print Assumptions fsa_generic_is_patricia.

(* ------------------------------------------------------------------ double-array storage (ModelDa.v) *)

(* da_refines_set: for EVERY history of insert / contains / len / accepts / longest_prefix calls over byte-string keys in
   which no insert returns Err (relocate_state would need a base beyond the 31-bit base field: da_noerr_or_huge),
   the ZiporaTrie over the double array started empty - base/check arrays, terminal bit, growth,
   find_free_base, collision handling and relocation included - answers exactly like the set of keys inserted.
   remove is `_ => Ok(false)` for this storage (da_remove_refuted); keys / keys_with_prefix: da_keys_enumerates *)
Theorem da_refines_set : forall ops, Forall da_op_ok ops -> d_noerr d_empty ops = true -> d_run d_empty ops = s_run [] ops.
Proof. exact da_refines_set_proof. Qed.
Check da_refines_set : forall ops, Forall da_op_ok ops -> d_noerr d_empty ops = true -> d_run d_empty ops = s_run [] ops.
Print Assumptions da_refines_set.

(* ... and the state reached satisfies the shape invariant (a ghost address per used slot, every used slot inside its
   parent's 256-window, arrays below 2^22 slots), answers lookups like the set, and counts its keys *)
Theorem da_reachable_related : forall ops, Forall da_op_ok ops -> d_noerr d_empty ops = true -> DRel (d_exec d_empty ops) (s_exec [] ops).
Proof. exact da_reachable_related_proof. Qed.
Check da_reachable_related : forall ops, Forall da_op_ok ops -> d_noerr d_empty ops = true -> DRel (d_exec d_empty ops) (s_exec [] ops).
Print Assumptions da_reachable_related.

(* insert_double_array adds exactly the key *)
Theorem da_insert_adds_exactly : forall d addr key d' e, bytes_ok key -> DInv d addr -> da_insert d key = (d', Some e) ->
  (exists addr', DInv d' addr') /\ forall k, dlookup d' k = (dlookup d k || eqb_ln k key)%bool.
Proof. exact da_insert_lookup. Qed.
Check da_insert_adds_exactly : forall d addr key d' e, bytes_ok key -> DInv d addr -> da_insert d key = (d', Some e) ->
  (exists addr', DInv d' addr') /\ forall k, dlookup d' k = (dlookup d k || eqb_ln k key)%bool.
Print Assumptions da_insert_adds_exactly.

(* da_relocation_preserves_keys: relocate_state (collect the children, search a base, free the old slots, move every
   child with its base and terminal bit, re-parent the grandchildren, set the new base) keeps the invariant and the
   language - every stored key with its terminal flag, none added -, gives the state the returned base and leaves the
   slot of the new symbol free and inside the arrays *)
Theorem da_relocation_preserves_keys : forall d addr st ns d' nb,
  DInv d addr -> used d st -> bv d st <> NIL_STATE -> ns < 256 -> cget d (bv d st + ns) <> st ->
  relocate_state d st ns = (d', Some nb) ->
  exists addr', DInv d' addr' /\ used d' st /\ addr' st = addr st /\ bv d' st = nb /\
     is_free_word (cget d' (nb + ns)) = true /\ nb + ns < blen d' /\
     (forall k, View d' addr' k <-> View d addr k) /\ blen d <= blen d'.
Proof. exact relocate_spec. Qed.
Check da_relocation_preserves_keys : forall d addr st ns d' nb,
  DInv d addr -> used d st -> bv d st <> NIL_STATE -> ns < 256 -> cget d (bv d st + ns) <> st ->
  relocate_state d st ns = (d', Some nb) ->
  exists addr', DInv d' addr' /\ used d' st /\ addr' st = addr st /\ bv d' st = nb /\
     is_free_word (cget d' (nb + ns)) = true /\ nb + ns < blen d' /\
     (forall k, View d' addr' k <-> View d addr k) /\ blen d <= blen d'.
Print Assumptions da_relocation_preserves_keys.

(* the language of a well-formed double array is the set of ghost addresses of its used terminal slots *)
Theorem da_lookup_is_view : forall d addr k, DInv d addr -> (dlookup d k = true <-> View d addr k).
Proof. exact dlookup_view. Qed.
Check da_lookup_is_view : forall d addr k, DInv d addr -> (dlookup d k = true <-> View d addr k).
Print Assumptions da_lookup_is_view.

(* contains_double_array is the generic Trie::lookup over transition / is_final *)
Theorem da_contains_is_lookup : forall d addr k, DInv d addr -> da_contains d k = dlookup d k.
Proof. exact da_contains_lookup. Qed.
Check da_contains_is_lookup : forall d addr k, DInv d addr -> da_contains d k = dlookup d k.
Print Assumptions da_contains_is_lookup.

(* recorded finding, as a refutation on the faithful model: remove is a no-op for the double array *)
Theorem da_remove_refuted : exists ops, Forall op_ok ops /\ d_run d_empty ops <> s_run [] ops.
Proof. exact da_remove_refuted_proof. Qed.
Check da_remove_refuted : exists ops, Forall op_ok ops /\ d_run d_empty ops <> s_run [] ops.
Print Assumptions da_remove_refuted.

(* keys() (collect_keys_double_array_recursive from the root, fuel = number of slots + 1) lists exactly the members,
   keys_with_prefix(p) exactly the members that start with p, each once *)
Theorem da_keys_enumerates : forall st S k, DRel st S -> (In k (da_keys (d_da st)) <-> In k S).
Proof. exact da_keys_enumerates_proof. Qed.
Check da_keys_enumerates : forall st S k, DRel st S -> (In k (da_keys (d_da st)) <-> In k S).
Print Assumptions da_keys_enumerates.

Theorem da_prefix_query_exact : forall st S p k, DRel st S -> (In k (da_prefix (d_da st) p) <-> In k S /\ exists k2, k = p ++ k2).
Proof. exact da_prefix_query_exact_proof. Qed.
Check da_prefix_query_exact : forall st S p k, DRel st S -> (In k (da_prefix (d_da st) p) <-> In k S /\ exists k2, k = p ++ k2).
Print Assumptions da_prefix_query_exact.

Theorem da_keys_no_duplicates : forall st S p, DRel st S -> NoDup (da_keys (d_da st)) /\ NoDup (da_prefix (d_da st) p).
Proof. exact da_keys_no_duplicates_proof. Qed.
Check da_keys_no_duplicates : forall st S p, DRel st S -> NoDup (da_keys (d_da st)) /\ NoDup (da_prefix (d_da st) p).
Print Assumptions da_keys_no_duplicates.

(* impl Clone (re-insert keys() into a fresh double array, copy the statistics), if none of the re-insertions errs *)
Theorem da_clone_preserves : forall st S, DRel st S -> d_clone_ok st = true -> DRel (d_clone st) S.
Proof. exact da_clone_preserves_proof. Qed.
Check da_clone_preserves : forall st S, DRel st S -> d_clone_ok st = true -> DRel (d_clone st) S.
Print Assumptions da_clone_preserves.

(* da_refines_set for histories that also contain clone steps (op code 8) *)
Theorem da_refines_set_with_clone : forall ops, Forall da_op_ok_c ops -> d_noerr_c d_empty ops = true -> d_run d_empty ops = s_run [] ops.
Proof. exact da_refines_set_with_clone_proof. Qed.
Check da_refines_set_with_clone : forall ops, Forall da_op_ok_c ops -> d_noerr_c d_empty ops = true -> d_run d_empty ops = s_run [] ops.
Print Assumptions da_refines_set_with_clone.

(* ------------------------------------------------------------------ compressed-sparse storage as a trie over hash maps (ModelCs.v) *)

(* cs_refines_set: for EVERY history of insert / contains / len / accepts / longest_prefix / clone calls over byte-string
   keys, the ZiporaTrie over HashMap<StateId, SparseNode> started empty (root created on first insert, ids = max + 1,
   child inserted before it is linked) answers exactly like the set of keys inserted; insert never takes its
   `State not found` error branch.  remove is `_ => Ok(false)` (cs_remove_refuted) *)
Theorem cs_refines_set : forall ops, Forall cs_op_ok ops -> cs_run c_empty ops = s_run [] ops.
Proof. exact cs_refines_set_proof. Qed.
Check cs_refines_set : forall ops, Forall cs_op_ok ops -> cs_run c_empty ops = s_run [] ops.
Print Assumptions cs_refines_set.

Theorem cs_reachable_related : forall ops, Forall cs_op_ok ops -> CRel (cs_exec c_empty ops) (s_exec [] ops).
Proof. exact cs_reachable_related_proof. Qed.
Check cs_reachable_related : forall ops, Forall cs_op_ok ops -> CRel (cs_exec c_empty ops) (s_exec [] ops).
Print Assumptions cs_reachable_related.

(* insert_compressed_sparse returns Ok and adds exactly the key *)
Theorem cs_insert_adds_exactly : forall m key, bytes_ok key -> COK m ->
  exists m' e, cs_insert m key = (m', Some e) /\ (exists addr', CInv m' addr') /\
    forall k, clookup m' k = (clookup m k || eqb_ln k key)%bool.
Proof. exact cs_insert_spec. Qed.
Check cs_insert_adds_exactly : forall m key, bytes_ok key -> COK m ->
  exists m' e, cs_insert m key = (m', Some e) /\ (exists addr', CInv m' addr') /\
    forall k, clookup m' k = (clookup m k || eqb_ln k key)%bool.
Print Assumptions cs_insert_adds_exactly.

(* keys() / keys_with_prefix(p) (in whatever order the hash maps iterate; the observation is sorted) list exactly the
   members (with prefix p), each once *)
Theorem cs_keys_enumerates : forall st S k, CRel st S -> (In k (sort_keys (cs_keys (c_map st))) <-> In k S).
Proof. exact cs_keys_enumerates_proof. Qed.
Check cs_keys_enumerates : forall st S k, CRel st S -> (In k (sort_keys (cs_keys (c_map st))) <-> In k S).
Print Assumptions cs_keys_enumerates.

Theorem cs_prefix_query_exact : forall st S p k, CRel st S ->
  (In k (sort_keys (cs_prefix (c_map st) p)) <-> In k S /\ exists k2, k = p ++ k2).
Proof. exact cs_prefix_query_exact_proof. Qed.
Check cs_prefix_query_exact : forall st S p k, CRel st S ->
  (In k (sort_keys (cs_prefix (c_map st) p)) <-> In k S /\ exists k2, k = p ++ k2).
Print Assumptions cs_prefix_query_exact.

Theorem cs_keys_no_duplicates : forall st S p, CRel st S ->
  NoDup (sort_keys (cs_keys (c_map st))) /\ NoDup (sort_keys (cs_prefix (c_map st) p)).
Proof. exact cs_keys_no_duplicates_proof. Qed.
Check cs_keys_no_duplicates : forall st S p, CRel st S ->
  NoDup (sort_keys (cs_keys (c_map st))) /\ NoDup (sort_keys (cs_prefix (c_map st) p)).
Print Assumptions cs_keys_no_duplicates.

Theorem cs_clone_preserves : forall st S, CRel st S -> CRel (cs_clone st) S.
Proof. exact cs_clone_preserves_proof. Qed.
Check cs_clone_preserves : forall st S, CRel st S -> CRel (cs_clone st) S.
Print Assumptions cs_clone_preserves.

Theorem cs_remove_refuted : exists ops, Forall op_ok ops /\ cs_run c_empty ops <> s_run [] ops.
Proof. exact cs_remove_refuted_proof. Qed.
Check cs_remove_refuted : exists ops, Forall op_ok ops /\ cs_run c_empty ops <> s_run [] ops.
Print Assumptions cs_remove_refuted.

(* ------------------------------------------------------------------ histories WITH remove calls, as these two storages implement them
   (ZiporaTrie::remove is `_ => Ok(false)`): every history - all eight op codes except the two enumerations, clone included -
   behaves like the set in which remove changes nothing and answers false (SpecNoRemove.s_run_nr).  The distance to the
   property is exactly the recorded finding (da_remove_refuted / cs_remove_refuted). *)
Theorem da_refines_set_noop_remove : forall ops, Forall op_ok ops -> d_noerr_c d_empty ops = true -> d_run d_empty ops = s_run_nr [] ops.
Proof. exact da_refines_set_noop_remove_proof. Qed.
Check da_refines_set_noop_remove : forall ops, Forall op_ok ops -> d_noerr_c d_empty ops = true -> d_run d_empty ops = s_run_nr [] ops.
Print Assumptions da_refines_set_noop_remove.

Theorem cs_refines_set_noop_remove : forall ops, Forall op_ok ops -> cs_run c_empty ops = s_run_nr [] ops.
Proof. exact cs_refines_set_noop_remove_proof. Qed.
Check cs_refines_set_noop_remove : forall ops, Forall op_ok ops -> cs_run c_empty ops = s_run_nr [] ops.
Print Assumptions cs_refines_set_noop_remove.

(* ------------------------------------------------------------------ when can an insert into the double array report an error?
   Only when relocate_state would need a base beyond MAX_BASE = 0x7FFF_FFFE - 256 (the 31-bit base field), and then the
   arrays are longer than HUGE = MAX_BASE - 257 = 2 147 483 133 slots: the capacity of the format.  So the hypothesis
   d_noerr of da_refines_set can only fail for a history one of whose prefixes has already grown an array to that size.
   (Before the fix: commit "relocate_state falls back to the end of the arrays" the search gave up after 10001 probes,
   i.e. from 2 570 000 slots on - reached by a probe with 468 399 random 8-byte keys.) *)
Theorem da_insert_err_only_when_huge : forall d addr key d', bytes_ok key -> DInv d addr -> da_insert d key = (d', None) -> HUGE < blen d'.
Proof. exact da_insert_err. Qed.
Check da_insert_err_only_when_huge : forall d addr key d', bytes_ok key -> DInv d addr -> da_insert d key = (d', None) -> HUGE < blen d'.
Print Assumptions da_insert_err_only_when_huge.

Theorem da_noerr_or_huge : forall ops, Forall da_op_ok ops ->
  d_noerr d_empty ops = true \/ exists n, HUGE < blen (d_da (d_exec d_empty (firstn n ops))).
Proof. exact da_noerr_or_huge_proof. Qed.
Check da_noerr_or_huge : forall ops, Forall da_op_ok ops ->
  d_noerr d_empty ops = true \/ exists n, HUGE < blen (d_da (d_exec d_empty (firstn n ops))).
Print Assumptions da_noerr_or_huge.
