(* C05 property theorems.  Statements + exact + Print Assumptions only.
   M = the node-vector trie of Model.v (what zipora calls Patricia storage), S = a duplicate-free list of keys. *)
From ZV.Common Require Import Base Run.
From ZV.C05 Require Import Model Spec ProofsBase ProofsInsert ProofsRemove ProofsRefine.
Open Scope N_scope.

(* ptrie_refines_set: for EVERY history of insert / remove / contains / len / accepts / longest_prefix calls
   over byte-string keys (empty key, prefixes of each other, 0x00 / 0xFF, any length), the trie started empty
   answers exactly like the set of keys inserted and not removed *)
Theorem ptrie_refines_set : forall ops, Forall op_ok ops -> p_run true p_empty ops = s_run [] ops.
Proof. exact ptrie_refines_set_proof. Qed.
Check ptrie_refines_set : forall ops, Forall op_ok ops -> p_run true p_empty ops = s_run [] ops.
Print Assumptions ptrie_refines_set.

(* ... and the state reached is related to the set reached (shape invariant, membership, no duplicates, len) *)
Theorem ptrie_reachable_related : forall ops, Forall op_ok ops -> Rel (p_exec true p_empty ops) (s_exec [] ops).
Proof. exact ptrie_reachable_related_proof. Qed.
Check ptrie_reachable_related : forall ops, Forall op_ok ops -> Rel (p_exec true p_empty ops) (s_exec [] ops).
Print Assumptions ptrie_reachable_related.

(* contains(k) is membership, for every key (bytes or not) *)
Theorem contains_is_membership : forall st S k, Rel st S -> contains_nodes (p_nodes st) k = mem k S.
Proof. exact contains_is_membership_proof. Qed.
Check contains_is_membership : forall st S k, Rel st S -> contains_nodes (p_nodes st) k = mem k S.
Print Assumptions contains_is_membership.

(* len_is_card: num_keys, maintained from the pre-insert contains() and the removed flag, is the cardinality *)
Theorem len_is_card : forall st S, Rel st S -> p_len st = N.of_nat (length S) /\ NoDup S.
Proof. exact len_is_card_proof. Qed.
Check len_is_card : forall st S, Rel st S -> p_len st = N.of_nat (length S) /\ NoDup S.
Print Assumptions len_is_card.

Theorem insert_adds_exactly : forall st S k, bytes_ok k -> Rel st S -> Rel (p_insert st k) (s_insert k S).
Proof. exact rel_insert. Qed.
Check insert_adds_exactly : forall st S k, bytes_ok k -> Rel st S -> Rel (p_insert st k) (s_insert k S).
Print Assumptions insert_adds_exactly.

Theorem remove_removes_exactly : forall st S k, Rel st S ->
  Rel (fst (p_remove st k)) (s_remove k S) /\ snd (p_remove st k) = mem k S.
Proof. exact rel_remove. Qed.
Check remove_removes_exactly : forall st S k, Rel st S ->
  Rel (fst (p_remove st k)) (s_remove k S) /\ snd (p_remove st k) = mem k S.
Print Assumptions remove_removes_exactly.

(* re-inserting an existing key changes nothing observable *)
Theorem reinsertion_idempotent : forall st S k, bytes_ok k -> Rel st S -> mem k S = true ->
  Rel (p_insert st k) S /\ p_len (p_insert st k) = p_len st.
Proof. exact reinsertion_idempotent_proof. Qed.
Check reinsertion_idempotent : forall st S k, bytes_ok k -> Rel st S -> mem k S = true ->
  Rel (p_insert st k) S /\ p_len (p_insert st k) = p_len st.
Print Assumptions reinsertion_idempotent.

(* deletion followed by re-insertion (through whatever the cleanup unlinked) *)
Theorem remove_then_reinsert : forall st S k, bytes_ok k -> Rel st S ->
  Rel (p_insert (fst (p_remove st k)) k) (k :: s_remove k S).
Proof. exact remove_then_reinsert_proof. Qed.
Check remove_then_reinsert : forall st S k, bytes_ok k -> Rel st S ->
  Rel (p_insert (fst (p_remove st k)) k) (k :: s_remove k S).
Print Assumptions remove_then_reinsert.

(* unlink_preserves_others: the bottom-up cleanup of remove changes no lookup from any node *)
Theorem unlink_preserves_others : forall rp ns x, bounded ns -> wchain ns rp x -> dead ns x ->
  forall i k, lookup (cleanup ns rp) i k = lookup ns i k.
Proof. exact cleanup_lookup. Qed.
Check unlink_preserves_others : forall rp ns x, bounded ns -> wchain ns rp x -> dead ns x ->
  forall i k, lookup (cleanup ns rp) i k = lookup ns i k.
Print Assumptions unlink_preserves_others.

(* fsa_agrees: the automaton view (root / transition / is_final with the default accepts and longest_prefix) *)
Theorem fsa_accepts_is_contains : forall ns k, fsa_accepts ns k = contains_nodes ns k.
Proof. exact fsa_accepts_is_contains_proof. Qed.
Check fsa_accepts_is_contains : forall ns k, fsa_accepts ns k = contains_nodes ns k.
Print Assumptions fsa_accepts_is_contains.

Theorem fsa_agrees : forall st S q, Rel st S ->
  fsa_accepts (p_nodes st) q = mem q S /\ fsa_longest_prefix (p_nodes st) q = s_longest_prefix S q.
Proof. exact fsa_agrees_proof. Qed.
Check fsa_agrees : forall st S q, Rel st S ->
  fsa_accepts (p_nodes st) q = mem q S /\ fsa_longest_prefix (p_nodes st) q = s_longest_prefix S q.
Print Assumptions fsa_agrees.

(* under the shape invariant a node is reached from the root by at most one key *)
Theorem walk_injective : forall ns addr k1 k2 e, inv ns addr -> walk ns 0%nat k1 = Some e -> walk ns 0%nat k2 = Some e -> k1 = k2.
Proof. exact walk_inj. Qed.
Check walk_injective : forall ns addr k1 k2 e, inv ns addr -> walk ns 0%nat k1 = Some e -> walk ns 0%nat k2 = Some e -> k1 = k2.
Print Assumptions walk_injective.
