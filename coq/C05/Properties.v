(* C05 property theorems.  Statements + exact + Print Assumptions only. *)
From ZV.Common Require Import Base Run.
From ZV.C05 Require Import Model Spec ProofsBase.
Open Scope N_scope.

(* the automaton view agrees with contains, for every node vector (well-formed or not) and every key *)
Theorem fsa_accepts_is_contains : forall ns k, fsa_accepts ns k = contains_nodes ns k.
Proof. intros ns k. rewrite contains_lookup. apply fsa_accepts_lookup. Qed.
Check fsa_accepts_is_contains : forall ns k, fsa_accepts ns k = contains_nodes ns k.
Print Assumptions fsa_accepts_is_contains.

(* under the shape invariant a node is reached from the root by at most one key *)
Theorem walk_injective : forall ns addr k1 k2 e, inv ns addr -> walk ns 0%nat k1 = Some e -> walk ns 0%nat k2 = Some e -> k1 = k2.
Proof. exact walk_inj. Qed.
Check walk_injective : forall ns addr k1 k2 e, inv ns addr -> walk ns 0%nat k1 = Some e -> walk ns 0%nat k2 = Some e -> k1 = k2.
Print Assumptions walk_injective.
