(* C05, double array: relocate_state, part 2 - the child list it collects, what its 'search loop guarantees
   about the base it returns, and the invariant after the move: every stored key survives (child links,
   grandchild links, terminal flags), the relocated state has the new base, the slot for the new symbol is free. *)
From ZV.Common Require Import Base Run.
From ZV.C05 Require Import Model ModelFsa ModelDa Spec ProofsBase ProofsRemove ProofsKeys ProofsFsa ProofsDaArr ProofsDaInv ProofsDaReloc.
Open Scope N_scope.

(* ---------------------------------------------------------------- the collected children *)
Record ChildrenOK (d : da) (st ob : N) (cs : list child_t) : Prop := {
  co_syms : NoDup (map c_sym cs);
  co_each : forall c, In c cs ->
     c_sym c < 256 /\ c_pos c = ob + c_sym c /\ cget d (c_pos c) = st /\
     c_base c = bget d (c_pos c) /\ c_term c = tm d (c_pos c);
  co_all : forall q, q <> 0 -> used d q -> cget d q = st -> exists c, In c cs /\ c_pos c = q
}.

Lemma nodup_syms (f : N -> list child_t) : forall l, NoDup l ->
  (forall s, f s = [] \/ exists x, f s = [x] /\ c_sym x = s) -> NoDup (map c_sym (flat_map f l)).
Proof.
  intros l ND Hf. induction l as [|a l IH]; cbn [flat_map map]; [constructor|].
  inversion ND as [|? ? Ha ND']; subst. specialize (IH ND').
  destruct (Hf a) as [E|(x & E & Hx)]; rewrite E; cbn [app map]; [assumption|].
  constructor; [|assumption]. intro Hin. apply in_map_iff in Hin as (y & Hy & Hin).
  apply in_flat_map in Hin as (b & Hb & Hin). destruct (Hf b) as [E'|(z & E' & Hz)]; rewrite E' in Hin; [destruct Hin|].
  destruct Hin as [<-|[]]. apply Ha. congruence.
Qed.

Lemma children_ok d addr st : DInv d addr -> used d st -> bv d st <> NIL_STATE ->
  ChildrenOK d st (bv d st) (reloc_children d st (bv d st)).
Proof.
  intros I U Hb. pose proof (di_lens _ _ I) as Hl. pose proof (bv_lt d st) as Hlt.
  set (ob := bv d st) in *.
  set (f := fun symbol : N =>
    let child_pos := sat_add ob symbol in
    if child_pos <? clen d then
      let check_val := cget d child_pos in
      if (N.land check_val FREE_BIT =? 0) && (check_val =? st) then
        let child_base := if child_pos <? blen d then bget d child_pos else NIL_STATE in
        [(symbol, child_pos, child_base, has_term child_base)]
      else []
    else []).
  change (reloc_children d st ob) with (flat_map f byte_range).
  assert (Hf : forall s, s < 256 -> f s = [] \/
     (f s = [(s, ob + s, bget d (ob + s), tm d (ob + s))] /\ cget d (ob + s) = st /\ used d (ob + s))).
  { intros s Hs. unfold f. rewrite sat_add_small by (unfold U32_MAX; lia).
    destruct (N.ltb_spec (ob + s) (clen d)) as [H1|H1]; [|left; reflexivity].
    rewrite <- nf_eq.
    destruct (is_free_word (cget d (ob + s))) eqn:F; cbn [negb andb]; [left; reflexivity|].
    destruct (N.eqb_spec (cget d (ob + s)) st) as [E|E]; [|left; reflexivity].
    right. replace (ob + s <? blen d) with true by (symmetry; apply N.ltb_lt; lia).
    split; [reflexivity|]. split; assumption. }
  constructor.
  - apply nodup_syms; [apply byte_range_nodup|]. intro s.
    destruct (N.lt_ge_cases s 256) as [Hs|Hs].
    + destruct (Hf s Hs) as [E|(E & _)]; [left; assumption|]. right. eexists. split; [exact E | reflexivity].
    + (* symbols outside the byte range do not occur in the loop; any value of f is fine *)
      unfold f. destruct (sat_add ob s <? clen d); [|left; reflexivity].
      destruct (_ && _)%bool; [|left; reflexivity]. right. eexists. split; reflexivity.
  - intros c Hc. apply in_flat_map in Hc as (s & Hs & Hc). apply byte_range_iff in Hs.
    destruct (Hf s Hs) as [E|(E & E2 & E3)]; rewrite E in Hc; [destruct Hc|].
    destruct Hc as [<-|[]]. cbn [c_sym c_pos c_base c_term]. repeat split; try assumption; reflexivity.
  - intros q Hq Uq E. destruct (di_link _ _ I q Hq Uq) as (_ & _ & R1 & R2 & _). rewrite E in R1, R2. fold ob in R1, R2.
    assert (Hs : q - ob < 256) by lia.
    destruct (Hf (q - ob) Hs) as [E'|(E' & _)].
    + exfalso. unfold f in E'. rewrite sat_add_small in E' by (unfold U32_MAX; lia).
      replace (ob + (q - ob)) with q in E' by lia.
      apply used_lt in Uq as Hql. apply N.ltb_lt in Hql. rewrite Hql in E'.
      rewrite <- nf_eq in E'. unfold used in Uq. rewrite Uq, E, N.eqb_refl in E'. discriminate.
    + eexists. split; [apply in_flat_map; exists (q - ob); split; [apply byte_range_iff; assumption | rewrite E'; left; reflexivity]|].
      cbn [c_pos]. lia.
Qed.

(* ---------------------------------------------------------------- the 'search loop *)
Lemma fold_max_ge init l : init <= fold_right N.max init l /\ forall x, In x l -> x <= fold_right N.max init l.
Proof.
  induction l as [|a l [IH1 IH2]]; cbn [fold_right]; [split; [lia | intros x []]|].
  split; [lia|]. intros x [<-|Hx]; [lia|]. specialize (IH2 x Hx). lia.
Qed.
Lemma fold_max_le init l b : init <= b -> (forall x, In x l -> x <= b) -> fold_right N.max init l <= b.
Proof.
  intros Hi Hl. induction l as [|a l IH]; cbn [fold_right]; [assumption|].
  assert (a <= b) by (apply Hl; left; reflexivity).
  assert (fold_right N.max init l <= b) by (apply IH; intros x Hx; apply Hl; right; assumption). lia.
Qed.

Lemma MAX_BASE_BMAX : MAX_BASE = BMAX. Proof. reflexivity. Qed.

(* one iteration of the 'search loop, after the fall-back and the MAX_BASE test: nbf is the base it probes *)
Lemma search_spec : forall fuel d cs ns nb att d1 r,
  blen d = clen d -> blen d <= LMAX -> (forall c, In c cs -> c_sym c < 256) -> ns < 256 ->
  reloc_search fuel d cs ns nb att = (d1, Some r) ->
  blen d1 = clen d1 /\ blen d <= blen d1 /\ blen d1 <= LMAX /\
  (forall j, bget d1 j = bget d j) /\ (forall j, cget d1 j = cget d j) /\
  nb <= r /\ r <= BMAX /\
  r + ns <> 0 /\ is_free_word (cget d (r + ns)) = true /\ r + ns < blen d1 /\
  (forall c, In c cs -> r + c_sym c <> 0 /\ is_free_word (cget d (r + c_sym c)) = true /\ r + c_sym c < blen d1).
Proof.
  induction fuel as [|f IH]; intros d cs ns nb0 att d1 r Hl HL Hcs Hns S; cbn [reloc_search] in S; [discriminate|].
  set (nb := if MAX_ATTEMPTS <? att then N.max nb0 (blen d) else nb0) in S.
  assert (Hnb0 : nb0 <= nb) by (unfold nb; destruct (MAX_ATTEMPTS <? att); lia).
  destruct (N.ltb_spec MAX_BASE nb) as [Hmb|Hmb]; [discriminate|]. rewrite MAX_BASE_BMAX in Hmb.
  assert (Hsat : forall s, s <= 257 -> sat_add nb s = nb + s) by (intros s Hs; apply sat_add_small; unfold U32_MAX, BMAX in *; lia).
  rewrite (Hsat ns) in S by lia. rewrite (Hsat 257) in S by lia.
  set (mx := fold_right N.max (nb + ns) (map (fun c => sat_add nb (c_sym c)) cs)) in S.
  assert (Hmx1 : nb + ns <= mx /\ forall c, In c cs -> nb + c_sym c <= mx).
  { destruct (fold_max_ge (nb + ns) (map (fun c => sat_add nb (c_sym c)) cs)) as [M1 M2]. fold mx in M1, M2.
    split; [assumption|]. intros c Hc. rewrite <- (Hsat (c_sym c)) by (specialize (Hcs c Hc); lia).
    apply M2. apply in_map_iff. exists c. split; [reflexivity | assumption]. }
  assert (Hmx2 : mx <= nb + 255).
  { apply fold_max_le; [lia|]. intros x Hx. apply in_map_iff in Hx as (c & <- & Hc).
    rewrite Hsat by (specialize (Hcs c Hc); lia). specialize (Hcs c Hc). lia. }
  destruct (ensure_spec d mx Hl) as (E1 & E2 & E3 & E4). cbv zeta in *.
  set (d' := da_ensure d mx) in *.
  assert (HL' : blen d' <= LMAX) by (unfold LMAX, BMAX in *; lia).
  assert (Hge : blen d <= blen d') by lia.
  assert (Hrec : forall d1 r, reloc_search f d' cs ns (nb + 257) (att + 1) = (d1, Some r) ->
    blen d1 = clen d1 /\ blen d <= blen d1 /\ blen d1 <= LMAX /\
    (forall j, bget d1 j = bget d j) /\ (forall j, cget d1 j = cget d j) /\
    nb0 <= r /\ r <= BMAX /\
    r + ns <> 0 /\ is_free_word (cget d (r + ns)) = true /\ r + ns < blen d1 /\
    (forall c, In c cs -> r + c_sym c <> 0 /\ is_free_word (cget d (r + c_sym c)) = true /\ r + c_sym c < blen d1)).
  { intros d2 r2 S2.
    destruct (IH d' cs ns (nb + 257) (att + 1) d2 r2 E1 HL' Hcs Hns S2)
      as (A1 & A2 & A3 & A4 & A5 & A6 & A7 & A8 & A9 & A10 & A11).
    split; [assumption|]. split; [lia|]. split; [assumption|].
    split; [intro j; rewrite A4; apply E3|]. split; [intro j; rewrite A5; apply E4|].
    split; [lia|]. split; [assumption|]. split; [assumption|]. split; [rewrite <- E4; assumption|]. split; [assumption|].
    intros c Hc. destruct (A11 c Hc) as (B1 & B2 & B3). rewrite <- E4. auto. }
  destruct ((nb + ns =? 0) || negb (is_free_word (cget d' (nb + ns))))%bool eqn:C1; [apply Hrec; assumption|].
  destruct (existsb _ cs) eqn:C2; [apply Hrec; assumption|].
  inversion S; subst d1 r; clear S.
  apply orb_false_iff in C1 as [C1a C1b]. apply N.eqb_neq in C1a. apply negb_false_iff in C1b. rewrite E4 in C1b.
  split; [assumption|]. split; [assumption|]. split; [assumption|]. split; [assumption|]. split; [assumption|].
  split; [lia|]. split; [assumption|]. split; [assumption|]. split; [assumption|]. split; [lia|].
  intros c Hc.
  assert (Hno : ((sat_add nb (c_sym c) =? 0) || negb (is_free_word (cget d' (sat_add nb (c_sym c)))))%bool = false).
  { destruct ((sat_add nb (c_sym c) =? 0) || negb (is_free_word (cget d' (sat_add nb (c_sym c)))))%bool eqn:X; [|reflexivity].
    match type of C2 with existsb ?f cs = false => destruct (existsb_exists f cs) as [_ EX] end.
    rewrite EX in C2; [discriminate|]. exists c. split; [assumption | exact X]. }
  rewrite Hsat in Hno by (specialize (Hcs c Hc); lia).
  apply orb_false_iff in Hno as [N1 N2]. apply N.eqb_neq in N1. apply negb_false_iff in N2. rewrite E4 in N2.
  split; [assumption|]. split; [assumption|]. destruct Hmx1 as [_ M]. specialize (M c Hc). lia.
Qed.

(* the search reports an error only when a base beyond MAX_BASE would be needed; every probed base that collided
   lies inside the arrays, so the arrays are then within 257 slots of MAX_BASE - the capacity of the 31-bit format *)
Definition HUGE : N := 2147483133.    (* MAX_BASE - 257 *)

Lemma search_err : forall fuel d cs ns nb att d1,
  blen d = clen d -> blen d <= LMAX -> (forall c, In c cs -> c_sym c < 256) -> ns < 256 ->
  1 <= nb -> (nb <= MAX_BASE \/ nb < blen d + 257) ->
  att <= MAX_ATTEMPTS + 1 -> (N.to_nat (MAX_ATTEMPTS + 2 - att) <= fuel)%nat ->
  reloc_search fuel d cs ns nb att = (d1, None) ->
  HUGE < blen d1.
Proof.
  induction fuel as [|f IH]; intros d cs ns nb0 att d1 Hl HL Hcs Hns Hnb1 Hnb Hatt Hfuel S.
  { exfalso. unfold MAX_ATTEMPTS in *. lia. }
  cbn [reloc_search] in S.
  set (nb := if MAX_ATTEMPTS <? att then N.max nb0 (blen d) else nb0) in S.
  assert (Hnbf : nb = nb0 \/ (nb = blen d /\ nb0 <= blen d)).
  { unfold nb. destruct (MAX_ATTEMPTS <? att); [|left; reflexivity]. destruct (N.le_ge_cases nb0 (blen d)); [right | left]; lia. }
  destruct (N.ltb_spec MAX_BASE nb) as [Hmb|Hmb].
  { inversion S; subst d1. unfold HUGE, MAX_BASE in *. lia. }
  assert (Hsat : forall s, s <= 257 -> sat_add nb s = nb + s) by (intros s Hs; apply sat_add_small; unfold U32_MAX, MAX_BASE in *; lia).
  rewrite (Hsat ns) in S by lia. rewrite (Hsat 257) in S by lia.
  set (mx := fold_right N.max (nb + ns) (map (fun c => sat_add nb (c_sym c)) cs)) in S.
  assert (Hmx2 : mx <= nb + 255).
  { apply fold_max_le; [lia|]. intros x Hx. apply in_map_iff in Hx as (c & <- & Hc).
    rewrite Hsat by (specialize (Hcs c Hc); lia). specialize (Hcs c Hc). lia. }
  destruct (ensure_spec d mx Hl) as (E1 & E2 & E3 & E4). cbv zeta in *.
  set (d' := da_ensure d mx) in *.
  assert (HL' : blen d' <= LMAX) by (unfold LMAX, MAX_BASE in *; lia).
  (* a collision at nb + x: that slot lies inside the arrays as they were *)
  assert (Hcol : forall x, is_free_word (cget d' (nb + x)) = false -> nb < blen d).
  { intros x F. rewrite E4 in F. destruct (N.lt_ge_cases (nb + x) (clen d)) as [H|H]; [lia|].
    rewrite cget_oob in F by assumption. discriminate. }
  assert (Hrec : nb < blen d -> reloc_search f d' cs ns (nb + 257) (att + 1) = (d1, None) -> HUGE < blen d1).
  { intros Hlt S2.
    assert (Ha : att <= MAX_ATTEMPTS).
    { destruct (N.le_gt_cases att MAX_ATTEMPTS) as [H|H]; [assumption|]. exfalso.
      unfold nb in Hlt. replace (MAX_ATTEMPTS <? att) with true in Hlt by (symmetry; apply N.ltb_lt; assumption). lia. }
    apply (IH d' cs ns (nb + 257) (att + 1) d1 E1 HL' Hcs Hns); try assumption; try (unfold MAX_ATTEMPTS in *; lia). }
  destruct ((nb + ns =? 0) || negb (is_free_word (cget d' (nb + ns))))%bool eqn:C1.
  - apply Hrec; [|assumption]. apply orb_true_iff in C1 as [C1|C1]; [apply N.eqb_eq in C1; lia|].
    apply negb_true_iff in C1. apply (Hcol ns); assumption.
  - destruct (existsb _ cs) eqn:C2; [|discriminate].
    apply Hrec; [|assumption]. apply existsb_exists in C2 as (c & Hc & C2). cbv zeta in C2.
    rewrite Hsat in C2 by (specialize (Hcs c Hc); lia).
    apply orb_true_iff in C2 as [C2|C2]; [apply N.eqb_eq in C2; lia|].
    apply negb_true_iff in C2. apply (Hcol (c_sym c)); assumption.
Qed.

(* ---------------------------------------------------------------- relocate_state as a whole *)
Lemma existsb_pos_iff cs j : existsb (fun c : child_t => c_pos c =? j) cs = true <-> exists c, In c cs /\ c_pos c = j.
Proof.
  rewrite existsb_exists. split; intros (c & Hc & E); exists c; (split; [assumption|]); apply N.eqb_eq; assumption.
Qed.

Lemma find_n_some nb cs j c : find_n nb cs j = Some c -> In c cs /\ nb + c_sym c = j.
Proof. intro E. apply find_some in E as [H1 H2]. apply N.eqb_eq in H2. split; assumption. Qed.
Lemma find_n_none nb cs j : find_n nb cs j = None -> forall c, In c cs -> nb + c_sym c <> j.
Proof. intros E c Hc. pose proof (find_none _ _ E c Hc) as H. apply N.eqb_neq in H. assumption. Qed.
Lemma find_n_in nb cs c : NoDup (map c_sym cs) -> In c cs -> find_n nb cs (nb + c_sym c) = Some c.
Proof.
  intros ND Hc. destruct (find_some_iff (fun c0 => nb + c_sym c0 =? nb + c_sym c) cs) as [y E].
  { exists c. split; [assumption | apply N.eqb_refl]. }
  unfold find_n. rewrite E. apply find_some in E as [Hy Ey]. apply N.eqb_eq in Ey.
  f_equal. apply (nodup_map_inj c_sym cs y c ND Hy Hc). lia.
Qed.
Lemma find_o_some cs j c : find_o cs j = Some c -> In c cs /\ c_pos c = j.
Proof. intro E. apply find_some in E as [H1 H2]. apply N.eqb_eq in H2. split; assumption. Qed.
Lemma find_o_none cs j : find_o cs j = None -> forall c, In c cs -> c_pos c <> j.
Proof. intros E c Hc. pose proof (find_none _ _ E c Hc) as H. apply N.eqb_neq in H. assumption. Qed.

Lemma relocate_spec d addr st ns d' nb :
  DInv d addr -> used d st -> bv d st <> NIL_STATE -> ns < 256 ->
  cget d (bv d st + ns) <> st ->
  relocate_state d st ns = (d', Some nb) ->
  exists addr', DInv d' addr' /\ used d' st /\ addr' st = addr st /\ bv d' st = nb /\
     is_free_word (cget d' (nb + ns)) = true /\ nb + ns < blen d' /\
     (forall k, View d' addr' k <-> View d addr k) /\ blen d <= blen d'.
Proof.
  intros I U Hb Hns Hnt R.
  pose proof (di_lens _ _ I) as Hl. pose proof (di_len _ _ I) as [L1 L2].
  assert (Hstl : st < blen d) by (rewrite Hl; apply used_lt; assumption).
  assert (Hob1 : 1 <= bv d st) by (destruct (di_base _ _ I st U) as [X|[X _]]; [contradiction | assumption]).
  unfold relocate_state in R. fold (bv d st) in R.
  pose proof (children_ok d addr st I U Hb) as CO.
  set (ob := bv d st) in *. set (cs := reloc_children d st ob) in *.
  destruct (reloc_search (N.to_nat (MAX_ATTEMPTS + 2)) d cs ns (find_free_base st) 0) as [d1 [r|]] eqn:S; [|discriminate].
  assert (Hcs256 : forall c, In c cs -> c_sym c < 256) by (intros c Hc; apply (co_each _ _ _ _ CO c Hc)).
  destruct (search_spec _ d cs ns (find_free_base st) 0 d1 r Hl L2 Hcs256 Hns S)
    as (S1 & S2 & S3 & S4 & S5 & S6 & S7 & S8 & S9 & S10 & S11).
  assert (Hr1 : 1 <= r) by (unfold find_free_base in S6; lia).
  assert (Hrs : r < 2147483648) by (unfold BMAX in S7; lia).
  (* facts about the old and the new slots *)
  assert (FO : forall c, In c cs -> used d (c_pos c) /\ c_pos c <> 0 /\ c_pos c < blen d /\ c_pos c < 2147483648).
  { intros c Hc. destruct (co_each _ _ _ _ CO c Hc) as (C1 & C2 & C3 & _).
    assert (Uc : used d (c_pos c)) by (unfold used; rewrite C3; apply (small_not_free d addr); assumption).
    split; [assumption|]. split; [lia|]. apply used_lt in Uc. unfold LMAX in *. lia. }
  assert (Hst_o : forall c, In c cs -> st <> c_pos c).
  { intros c Hc E. destruct (co_each _ _ _ _ CO c Hc) as (C1 & C2 & C3 & _). destruct (FO c Hc) as (F1 & F2 & _).
    rewrite <- E in C3, F2. destruct (di_link _ _ I st F2 U) as (_ & _ & _ & _ & A). rewrite C3 in A.
    apply (f_equal (@length N)) in A. rewrite app_length in A. cbn [length] in A. lia. }
  assert (Hn_o : forall c c2, In c cs -> In c2 cs -> r + c_sym c <> c_pos c2).
  { intros c c2 Hc Hc2 E. destruct (S11 c Hc) as (_ & F & _). destruct (FO c2 Hc2) as (U2 & _).
    rewrite E in F. unfold used in U2. congruence. }
  assert (Hn_used : forall c j, In c cs -> used d j -> r + c_sym c <> j).
  { intros c j Hc Uj E. destruct (S11 c Hc) as (_ & F & _). rewrite E in F. unfold used in Uj. congruence. }
  (* phase 1 *)
  set (d2 := fold_left reloc_free_one cs d1) in R.
  destruct (free_fold cs d1 S1) as (P1 & P2 & P3 & P4).
  { intros c Hc. destruct (FO c Hc) as (_ & _ & X & _). lia. }
  cbv zeta in *. fold d2 in P1, P2, P3, P4.
  (* phase 2 *)
  assert (MO : MoveOK st r (blen d2) cs).
  { constructor.
    - apply (co_syms _ _ _ _ CO).
    - assumption.
    - intros c Hc. rewrite P1. apply (S11 c Hc).
    - intros c Hc. apply (FO c Hc).
    - assumption.
    - assumption. }
  assert (GO : GuardOK d2 cs).
  { intros c j Hc E. rewrite P4, S5 in E. destruct (FO c Hc) as (F1 & F2 & F3 & F4).
    destruct (existsb (fun c0 => c_pos c0 =? j) cs) eqn:X.
    - exfalso. rewrite FREE_WORD_eq in E. lia.
    - assert (Uj : used d j). { unfold used. rewrite E. apply is_free_small. assumption. }
      assert (Hj0 : j <> 0). { intro Z. rewrite Z, (di_root _ _ I) in E. congruence. }
      destruct (di_link _ _ I j Hj0 Uj) as (_ & G1 & G2 & G3 & _). rewrite E in G1, G2, G3.
      destruct (co_each _ _ _ _ CO c Hc) as (_ & _ & _ & C4 & _).
      assert (Hbvc : bvc c = bv d (c_pos c)) by (unfold bvc, bv; rewrite C4; reflexivity).
      rewrite Hbvc. split.
      + destruct (di_base _ _ I _ F1) as [Y|[Y _]]; [contradiction | lia].
      + split; [assumption|]. split; [assumption|]. split; [assumption|].
        apply used_lt in Uj. rewrite P2, <- S1. rewrite <- Hl in Uj. lia. }
  set (d3 := fold_left (reloc_move_one st r) cs d2) in R.
  destruct (move_fold st r cs d2 ltac:(congruence) Hrs MO GO) as (Q1 & Q2 & Q3 & Q4). cbv zeta in *. fold d3 in Q1, Q2, Q3, Q4.
  inversion R; subst d' nb; clear R.
  set (X := if has_term (bget d3 st) then N.lor r TERMINAL_BIT else r).
  set (d' := bset d3 st X).
  assert (Hst3 : st < blen d3) by (rewrite Q1, P1; lia).
  (* getters of the result *)
  assert (HC : forall j, cget d' j = match find_n r cs j with
                                     | Some _ => st
                                     | None => subst_o r cs (if existsb (fun c => c_pos c =? j) cs then FREE_WORD else cget d j) end).
  { intro j. unfold d'. rewrite cget_bset, Q4, P4, S5. reflexivity. }
  assert (HB3 : forall j, bget d3 j = match find_n r cs j with
                                      | Some c => wc c
                                      | None => if existsb (fun c => c_pos c =? j) cs then NIL_STATE else bget d j end).
  { intro j. rewrite Q3, P3, S4. reflexivity. }
  assert (Hfn_st : find_n r cs st = None).
  { destruct (find_n r cs st) as [y|] eqn:E; [|reflexivity]. apply find_n_some in E as [Hy E].
    exfalso. apply (Hn_used y st Hy U E). }
  assert (HinO_st : existsb (fun c => c_pos c =? st) cs = false).
  { destruct (existsb (fun c => c_pos c =? st) cs) eqn:E; [|reflexivity]. apply existsb_pos_iff in E as (c & Hc & E).
    exfalso. apply (Hst_o c Hc). symmetry; assumption. }
  assert (HX : X = if tm d st then N.lor r TERMINAL_BIT else r).
  { unfold X. rewrite HB3, Hfn_st, HinO_st. reflexivity. }
  assert (HB : forall j, bget d' j = if j =? st then X else bget d3 j).
  { intro j. unfold d'. rewrite bget_bset. apply N.ltb_lt in Hst3. rewrite Hst3, andb_true_r. reflexivity. }
  assert (Hlen' : blen d' = blen d1 /\ clen d' = blen d1).
  { unfold d'. rewrite blen_bset, clen_bset, Q1, Q2, P1, P2. split; [reflexivity | symmetry; assumption]. }
  destruct Hlen' as [Lb' Lc'].
  (* slot by slot *)
  assert (G1 : forall c, In c cs -> cget d' (c_pos c) = FREE_WORD /\ bget d' (c_pos c) = NIL_STATE).
  { intros c Hc.
    assert (Hfn : find_n r cs (c_pos c) = None).
    { destruct (find_n r cs (c_pos c)) as [y|] eqn:E; [|reflexivity]. apply find_n_some in E as [Hy E].
      exfalso. apply (Hn_o y c Hy Hc E). }
    assert (HinO : existsb (fun c0 => c_pos c0 =? c_pos c) cs = true) by (apply existsb_pos_iff; exists c; split; [assumption | reflexivity]).
    split.
    - rewrite HC, Hfn, HinO. apply subst_o_notin. intros c2 Hc2. destruct (FO c2 Hc2) as (_ & _ & _ & F4).
      rewrite FREE_WORD_eq. lia.
    - rewrite HB. replace (c_pos c =? st) with false by (symmetry; apply N.eqb_neq; intro E; apply (Hst_o c Hc); symmetry; assumption).
      rewrite HB3, Hfn, HinO. reflexivity. }
  assert (G2 : forall c, In c cs -> cget d' (r + c_sym c) = st /\ bget d' (r + c_sym c) = wc c).
  { intros c Hc. pose proof (find_n_in r cs c (co_syms _ _ _ _ CO) Hc) as E. split.
    - rewrite HC, E. reflexivity.
    - rewrite HB. replace (r + c_sym c =? st) with false by (symmetry; apply N.eqb_neq; apply (Hn_used c st Hc U)).
      rewrite HB3, E. reflexivity. }
  assert (G3 : forall j, existsb (fun c => c_pos c =? j) cs = false -> find_n r cs j = None ->
               cget d' j = subst_o r cs (cget d j) /\ (j <> st -> bget d' j = bget d j)).
  { intros j H1 H2. split.
    - rewrite HC, H2, H1. reflexivity.
    - intro Hj. rewrite HB. apply N.eqb_neq in Hj. rewrite Hj, HB3, H2, H1. reflexivity. }
  assert (Hsub_small : forall v, is_free_word v = false -> is_free_word (subst_o r cs v) = false).
  { intros v Hv. unfold subst_o. destruct (find_o cs v) as [y|] eqn:E; [|assumption].
    apply find_o_some in E as [Hy _]. destruct (S11 y Hy) as (_ & _ & X3). apply is_free_small. unfold LMAX in *. lia. }
  assert (U1 : forall j, used d' j -> (exists c, In c cs /\ j = r + c_sym c) \/
                (existsb (fun c => c_pos c =? j) cs = false /\ find_n r cs j = None /\ used d j)).
  { intros j Uj. destruct (existsb (fun c => c_pos c =? j) cs) eqn:E1.
    - apply existsb_pos_iff in E1 as (c & Hc & <-). destruct (G1 c Hc) as [X1 _]. unfold used in Uj. rewrite X1 in Uj. discriminate.
    - destruct (find_n r cs j) as [y|] eqn:E2.
      + left. apply find_n_some in E2 as [Hy E2]. exists y. split; [assumption | symmetry; assumption].
      + right. split; [reflexivity|]. split; [reflexivity|]. destruct (G3 j E1 E2) as [X1 _].
        destruct (free_or_used d j) as [F|F]; [|assumption].
        destruct (di_free _ _ I j F) as [F1 _]. unfold used in Uj. rewrite X1, F1 in Uj.
        rewrite subst_o_notin in Uj; [discriminate|].
        intros c2 Hc2. destruct (FO c2 Hc2) as (_ & _ & _ & F4). rewrite FREE_WORD_eq. lia. }
  assert (U2 : forall c, In c cs -> used d' (r + c_sym c)).
  { intros c Hc. destruct (G2 c Hc) as [X1 _]. unfold used. rewrite X1. apply (small_not_free d addr); assumption. }
  assert (Hoth : forall j, used d j -> (forall c, In c cs -> c_pos c <> j) ->
                 existsb (fun c => c_pos c =? j) cs = false /\ find_n r cs j = None).
  { intros j Uj Hno. split.
    - destruct (existsb (fun c => c_pos c =? j) cs) eqn:E; [|reflexivity]. apply existsb_pos_iff in E as (c & Hc & E). exfalso. apply (Hno c Hc E).
    - destruct (find_n r cs j) as [y|] eqn:E; [|reflexivity]. apply find_n_some in E as [Hy E]. exfalso. apply (Hn_used y j Hy Uj E). }
  assert (U3 : forall j, used d j -> (forall c, In c cs -> c_pos c <> j) -> used d' j).
  { intros j Uj Hno. destruct (Hoth j Uj Hno) as [E1 E2]. destruct (G3 j E1 E2) as [X1 _].
    unfold used. rewrite X1. apply Hsub_small. assumption. }
  assert (V1 : forall c, In c cs -> bv d' (r + c_sym c) = bv d (c_pos c) /\ tm d' (r + c_sym c) = tm d (c_pos c)).
  { intros c Hc. destruct (G2 c Hc) as [_ X2]. destruct (co_each _ _ _ _ CO c Hc) as (_ & _ & _ & C4 & C5).
    unfold bv, tm. rewrite X2, bv_wc, tm_wc. unfold bvc. rewrite C4, C5. split; reflexivity. }
  assert (V3 : bv d' st = r /\ tm d' st = tm d st).
  { unfold bv, tm. rewrite HB, N.eqb_refl, HX. split; [apply mask_cond_term | apply has_term_cond_term]; assumption. }
  destruct V3 as [V3a V3b].
  assert (Ust' : used d' st) by (apply U3; [assumption | intros c Hc E; apply (Hst_o c Hc); symmetry; assumption]).
  set (addr' := fun j => match find_n r cs j with Some c => addr (c_pos c) | None => addr j end).
  assert (A_new : forall c, In c cs -> addr' (r + c_sym c) = addr (c_pos c)).
  { intros c Hc. unfold addr'. rewrite (find_n_in r cs c (co_syms _ _ _ _ CO) Hc). reflexivity. }
  assert (A_oth : forall j, find_n r cs j = None -> addr' j = addr j) by (intros j E; unfold addr'; rewrite E; reflexivity).
  assert (I' : DInv d' addr').
  { constructor.
    - congruence.
    - split; lia.
    - assert (H0 : existsb (fun c => c_pos c =? 0) cs = false /\ find_n r cs 0 = None).
      { apply Hoth; [apply (used_root d addr I)|]. intros c Hc E. destruct (FO c Hc) as (_ & F2 & _). contradiction. }
      destruct H0 as [E1 E2]. destruct (G3 0 E1 E2) as [X1 _]. rewrite X1, (di_root _ _ I).
      apply subst_o_notin. intros c Hc E. destruct (FO c Hc) as (_ & F2 & _). apply F2. symmetry; assumption.
    - rewrite A_oth; [apply (di_addr0 _ _ I)|].
      apply Hoth; [apply (used_root d addr I)|]. intros c Hc E. destruct (FO c Hc) as (_ & F2 & _). contradiction.
    - (* di_free *)
      intros q F. destruct (existsb (fun c => c_pos c =? q) cs) eqn:E1.
      + apply existsb_pos_iff in E1 as (c & Hc & <-). apply (G1 c Hc).
      + destruct (find_n r cs q) as [y|] eqn:E2.
        * apply find_n_some in E2 as [Hy E2]. subst q. pose proof (U2 y Hy) as Uy. unfold used in Uy. congruence.
        * destruct (G3 q E1 E2) as [X1 X2].
          destruct (free_or_used d q) as [Fq|Uq].
          -- destruct (di_free _ _ I q Fq) as [F1 F2]. split.
             ++ rewrite X1, F1. apply subst_o_notin. intros c2 Hc2. destruct (FO c2 Hc2) as (_ & _ & _ & F4). rewrite FREE_WORD_eq. lia.
             ++ rewrite X2; [assumption|]. intro E. subst q. unfold used in U. congruence.
          -- exfalso. rewrite X1 in F. rewrite Hsub_small in F by assumption. discriminate.
    - (* di_link *)
      intros q Hq Uq. destruct (U1 q Uq) as [(c & Hc & ->)|(E1 & E2 & Uqd)].
      + destruct (G2 c Hc) as [X1 _]. rewrite X1, V3a. destruct (co_each _ _ _ _ CO c Hc) as (C1 & C2 & C3 & _).
        destruct (FO c Hc) as (F1 & F2 & _).
        split; [assumption|]. split; [unfold NIL_STATE, BMAX in *; lia|]. split; [lia|]. split; [lia|].
        rewrite (A_new c Hc), (A_oth st Hfn_st).
        destruct (di_link _ _ I _ F2 F1) as (_ & _ & _ & _ & A). rewrite C3 in A. rewrite A. fold ob. f_equal. f_equal. lia.
      + destruct (G3 q E1 E2) as [X1 _]. destruct (di_link _ _ I q Hq Uqd) as (Up & Hbp & R1 & R2 & A).
        rewrite X1. unfold subst_o. destruct (find_o cs (cget d q)) as [y|] eqn:E3.
        * apply find_o_some in E3 as [Hy E3]. destruct (V1 y Hy) as [V1a _]. rewrite V1a, E3.
          split; [apply U2; assumption|]. split; [assumption|]. split; [assumption|]. split; [assumption|].
          rewrite (A_oth q E2), (A_new y Hy), E3. assumption.
        * pose proof (find_o_none _ _ E3) as Hno.
          assert (Hpst : cget d q <> st).
          { intro E. destruct (co_all _ _ _ _ CO q Hq Uqd E) as (c & Hc & Ec).
            assert (existsb (fun c0 => c_pos c0 =? q) cs = true) by (apply existsb_pos_iff; exists c; split; assumption). congruence. }
          destruct (Hoth _ Up Hno) as [E4 E5]. destruct (G3 _ E4 E5) as [_ X2].
          assert (Hbv : bv d' (cget d q) = bv d (cget d q)) by (unfold bv; rewrite X2 by assumption; reflexivity).
          rewrite Hbv. split; [apply U3; assumption|]. split; [assumption|]. split; [assumption|]. split; [assumption|].
          rewrite (A_oth q E2), (A_oth _ E5). assumption.
    - (* di_base *)
      intros p Up. destruct (U1 p Up) as [(c & Hc & ->)|(E1 & E2 & Upd)].
      + destruct (V1 c Hc) as [V1a _]. rewrite V1a. apply (di_base _ _ I). apply (FO c Hc).
      + destruct (N.eq_dec p st) as [->|Hp].
        * right. rewrite V3a. split; assumption.
        * destruct (G3 p E1 E2) as [_ X2]. unfold bv. rewrite X2 by assumption. apply (di_base _ _ I p Upd). }
  exists addr'. split; [assumption|]. split; [assumption|]. split; [apply A_oth; assumption|]. split; [assumption|].
  assert (Hnn : existsb (fun c => c_pos c =? r + ns) cs = false /\ find_n r cs (r + ns) = None).
  { split.
    - destruct (existsb (fun c => c_pos c =? r + ns) cs) eqn:E; [|reflexivity]. apply existsb_pos_iff in E as (c & Hc & E).
      destruct (FO c Hc) as (F1 & _). unfold used in F1. rewrite E in F1. congruence.
    - destruct (find_n r cs (r + ns)) as [y|] eqn:E; [|reflexivity]. apply find_n_some in E as [Hy E].
      exfalso. destruct (co_each _ _ _ _ CO y Hy) as (_ & C2 & C3 & _). apply Hnt.
      replace ns with (c_sym y) by lia. fold ob. rewrite <- C2. assumption. }
  destruct Hnn as [E1 E2]. destruct (G3 _ E1 E2) as [X1 _].
  split.
  { rewrite X1. destruct (di_free _ _ I _ S9) as [F1 _]. rewrite F1.
    rewrite subst_o_notin; [reflexivity|]. intros c2 Hc2. destruct (FO c2 Hc2) as (_ & _ & _ & F4). rewrite FREE_WORD_eq. lia. }
  split; [lia|]. split; [|lia].
  (* the language is unchanged *)
  intro k. unfold View. split.
  - intros (q & Uq & A & T). destruct (U1 q Uq) as [(c & Hc & ->)|(E3 & E4 & Uqd)].
    + exists (c_pos c). destruct (V1 c Hc) as [_ V1b]. split; [apply (FO c Hc)|]. split; [rewrite <- (A_new c Hc); assumption | congruence].
    + exists q. split; [assumption|]. split; [rewrite <- (A_oth q E4); assumption|].
      destruct (N.eq_dec q st) as [->|Hq]; [congruence|].
      destruct (G3 q E3 E4) as [_ X2]. unfold tm in *. rewrite X2 in T by assumption. assumption.
  - intros (q & Uq & A & T). destruct (find_o cs q) as [y|] eqn:E3.
    + apply find_o_some in E3 as [Hy E3]. subst q. exists (r + c_sym y). destruct (V1 y Hy) as [_ V1b].
      split; [apply U2; assumption|]. split; [rewrite (A_new y Hy); assumption | congruence].
    + pose proof (find_o_none _ _ E3) as Hno. destruct (Hoth q Uq Hno) as [E4 E5].
      exists q. split; [apply U3; assumption|]. split; [rewrite (A_oth q E5); assumption|].
      destruct (N.eq_dec q st) as [->|Hq]; [congruence|].
      destruct (G3 q E4 E5) as [_ X2]. unfold tm in *. rewrite X2 by assumption. assumption.
Qed.


(* relocate_state reports an error only with arrays within 257 slots of MAX_BASE *)
Lemma relocate_err d addr st ns d1 : DInv d addr -> used d st -> bv d st <> NIL_STATE -> ns < 256 ->
  relocate_state d st ns = (d1, None) -> HUGE < blen d1.
Proof.
  intros I U Hb Hns R. pose proof (di_lens _ _ I) as Hl. pose proof (di_len _ _ I) as [L1 L2].
  unfold relocate_state in R. fold (bv d st) in R.
  pose proof (children_ok d addr st I U Hb) as CO.
  destruct (reloc_search (N.to_nat (MAX_ATTEMPTS + 2)) d (reloc_children d st (bv d st)) ns (find_free_base st) 0) as [d2 [r|]] eqn:S; [discriminate|].
  inversion R; subst d2; clear R.
  assert (Hcs256 : forall c, In c (reloc_children d st (bv d st)) -> c_sym c < 256) by (intros c Hc; apply (co_each _ _ _ _ CO c Hc)).
  assert (Hstl : st < blen d) by (rewrite Hl; apply used_lt; assumption).
  apply (search_err (N.to_nat (MAX_ATTEMPTS + 2)) d _ ns (find_free_base st) 0 d1 Hl L2 Hcs256 Hns); try assumption.
  - unfold find_free_base. lia.
  - left. unfold find_free_base, MAX_BASE, LMAX in *. lia.
  - unfold MAX_ATTEMPTS. lia.
  - unfold MAX_ATTEMPTS. lia.
Qed.
