(* C05: insert_patricia_actual adds exactly the inserted key. *)
From ZV.Common Require Import Base Run.
From ZV.C05 Require Import Model ProofsBase.
Open Scope N_scope.

(* ns' extends ns: links are only added, and only towards fresh nodes; final flags change at e only *)
Definition grows (ns ns' : list node) (e : nat) : Prop :=
  (length ns <= length ns')%nat /\
  (forall i s, child ns' i s = child ns i s \/
               (child ns i s = None /\ exists c, child ns' i s = Some c /\ (length ns <= c)%nat)) /\
  (forall i, i <> e -> fin ns' i = fin ns i).

Lemma grows_trans a b c e : grows a b e -> grows b c e -> grows a c e.
Proof.
  intros (L1 & C1 & F1) (L2 & C2 & F2). split; [lia|]. split.
  - intros i s. destruct (C2 i s) as [E2|(N2 & x & E2 & Lx)].
    + rewrite E2. apply C1.
    + destruct (C1 i s) as [E1|(N1 & y & E1 & _)].
      * right. split; [congruence|]. exists x. split; [assumption|lia].
      * congruence.
  - intros i Hi. rewrite F2, F1 by assumption. reflexivity.
Qed.

Lemma inv_ext ns ns' addr :
  length ns' = length ns -> (forall i s, child ns' i s = child ns i s) -> inv ns addr -> inv ns' addr.
Proof. intros Hl Hc. apply inv_shrink; [assumption|]. intros i s; left; apply Hc. Qed.

Lemma ins_go_spec : forall key ns cur addr ns' e,
  bytes_ok key -> inv ns addr -> (cur < length ns)%nat -> ins_go ns cur key = (ns', e) ->
  exists addr',
    inv ns' addr' /\ (forall i, (i < length ns)%nat -> addr' i = addr i) /\
    grows ns ns' e /\ fin ns' e = true /\ walk ns' cur key = Some e /\ (e < length ns')%nat.
Proof.
  induction key as [|s rest IH]; intros ns cur addr ns' e Hb I Hcur Hins.
  - cbn [ins_go] in Hins. inversion Hins; subst ns' e; clear Hins.
    exists addr. split; [|split; [|split; [|split; [|split]]]].
    + apply (inv_ext ns); [apply upd_length | intros; apply child_upd_final | assumption].
    + reflexivity.
    + split; [rewrite upd_length; lia|]. split.
      * intros i s. left. apply child_upd_final.
      * intros i Hi. rewrite fin_upd_final by assumption.
        destruct (Nat.eqb i cur) eqn:E; [apply Nat.eqb_eq in E; contradiction | reflexivity].
    + rewrite fin_upd_final by assumption. rewrite Nat.eqb_refl. reflexivity.
    + reflexivity.
    + rewrite upd_length. assumption.
  - inversion Hb as [|? ? Hs Hrest]; subst.
    cbn [ins_go] in Hins. destruct (child ns cur s) as [c|] eqn:E.
    + (* follow the existing link *)
      assert (Hc : (c < length ns)%nat) by (apply (proj2 I _ _ _ E)).
      destruct (IH ns c addr ns' e Hrest I Hc Hins) as (addr' & I' & Ha & G & Fe & W & Le).
      exists addr'. split; [assumption|]. split; [assumption|]. split; [assumption|].
      split; [assumption|]. split; [|assumption].
      cbn [walk]. destruct (proj1 (proj2 G) cur s) as [E'|(N & _)]; [|congruence].
      rewrite E', E. assumption.
    + (* create a node *)
      set (nw := length ns) in *.
      set (ns2 := upd (ns ++ [default_node]) cur (set_child s (Some nw))) in *.
      set (ns3 := match rest with [] => upd ns2 nw (set_final true) | _ :: _ => ns2 end) in *.
      assert (L1 : length (ns ++ [default_node]) = S (length ns)) by (rewrite app_length; cbn [length]; lia).
      assert (L2 : length ns2 = S (length ns)) by (unfold ns2; rewrite upd_length; assumption).
      assert (L3 : length ns3 = S (length ns)) by (unfold ns3; destruct rest; [rewrite upd_length|]; assumption).
      assert (C2 : forall i x, child ns2 i x = if (Nat.eqb i cur && (x =? s))%bool then Some nw else child ns i x).
      { intros i x. unfold ns2. rewrite child_upd_child by lia. rewrite child_snoc. reflexivity. }
      assert (C3 : forall i x, child ns3 i x = if (Nat.eqb i cur && (x =? s))%bool then Some nw else child ns i x).
      { intros i x. unfold ns3. destruct rest; [rewrite child_upd_final|]; apply C2. }
      assert (F2 : forall i, fin ns2 i = fin ns i).
      { intro i. unfold ns2. rewrite fin_upd_child. apply fin_snoc. }
      set (addr3 := fun i => if Nat.eqb i nw then addr cur ++ [s] else addr i).
      assert (I3 : inv ns3 addr3).
      { destruct I as [A0 AI]. split.
        - unfold addr3. replace (Nat.eqb 0 nw) with false; [assumption|].
          symmetry. apply Nat.eqb_neq. unfold nw. lia.
        - intros i x c Hc. rewrite C3 in Hc. rewrite L3.
          destruct (Nat.eqb i cur && (x =? s))%bool eqn:B.
          + apply andb_true_iff in B as [B1 B2]. apply Nat.eqb_eq in B1. apply N.eqb_eq in B2. subst i x.
            inversion Hc; subst c. split; [unfold nw; lia|]. split; [|assumption].
            unfold addr3. rewrite Nat.eqb_refl.
            replace (Nat.eqb cur nw) with false; [reflexivity|].
            symmetry. apply Nat.eqb_neq. unfold nw. lia.
          + destruct (AI _ _ _ Hc) as (Hlt & Ha & Hx).
            assert (Hi : (i < length ns)%nat).
            { destruct (Nat.lt_ge_cases i (length ns)) as [H|H]; [assumption|].
              rewrite child_oob in Hc by assumption. discriminate. }
            split; [lia|]. split; [|assumption].
            unfold addr3.
            replace (Nat.eqb c nw) with false by (symmetry; apply Nat.eqb_neq; unfold nw; lia).
            replace (Nat.eqb i nw) with false by (symmetry; apply Nat.eqb_neq; unfold nw; lia).
            assumption. }
      assert (Hnw : (nw < length ns3)%nat) by (rewrite L3; unfold nw; lia).
      destruct (IH ns3 nw addr3 ns' e Hrest I3 Hnw Hins) as (addr' & I' & Ha & G & Fe & W & Le).
      assert (G0 : grows ns ns3 e).
      { split; [lia|]. split.
        - intros i x. rewrite C3. destruct (Nat.eqb i cur && (x =? s))%bool eqn:B.
          + apply andb_true_iff in B as [B1 B2]. apply Nat.eqb_eq in B1. apply N.eqb_eq in B2. subst i x.
            right. split; [assumption|]. exists nw. split; [reflexivity | unfold nw; lia].
          + left; reflexivity.
        - intros i Hi. unfold ns3. destruct rest as [|r rest'].
          + cbn [ins_go] in Hins. inversion Hins; subst.
            rewrite fin_upd_final by (rewrite L2; unfold nw; lia).
            destruct (Nat.eqb i nw) eqn:B; [apply Nat.eqb_eq in B; contradiction | apply F2].
          + apply F2. }
      exists addr'. split; [assumption|]. split.
      { intros i Hi. rewrite Ha by lia. unfold addr3.
        replace (Nat.eqb i nw) with false; [reflexivity|]. symmetry. apply Nat.eqb_neq. unfold nw. lia. }
      split; [apply (grows_trans _ ns3); assumption|]. split; [assumption|]. split; [|assumption].
      cbn [walk]. destruct (proj1 (proj2 G) cur s) as [E'|(N & _)].
      * rewrite E', C3, Nat.eqb_refl, N.eqb_refl. cbn [andb]. assumption.
      * rewrite C3, Nat.eqb_refl, N.eqb_refl in N. discriminate.
Qed.

Lemma fresh_walk ns ns' e : grows ns ns' e -> forall k c, (length ns <= c)%nat ->
  walk ns' c k = None \/ exists q, walk ns' c k = Some q /\ (length ns <= q)%nat.
Proof.
  intros (_ & C & _) k; induction k as [|s k IH]; intros c Hc; cbn [walk].
  - right. exists c. split; [reflexivity | assumption].
  - destruct (C c s) as [E|(_ & c' & E & Hc')].
    + rewrite E, child_oob by assumption. left; reflexivity.
    + rewrite E. apply IH; assumption.
Qed.

Lemma grows_walk ns ns' e : grows ns ns' e -> forall k i,
  walk ns' i k = walk ns i k \/
  (walk ns i k = None /\ exists q, walk ns' i k = Some q /\ (length ns <= q)%nat).
Proof.
  intros G k; induction k as [|s k IH]; intro i; cbn [walk]; [left; reflexivity|].
  destruct (proj1 (proj2 G) i s) as [E|(N & c & E & Hc)].
  - rewrite E. destruct (child ns i s); [apply IH | left; reflexivity].
  - rewrite E, N. destruct (fresh_walk _ _ _ G k c Hc) as [W|(q & W & Hq)].
    + left; assumption.
    + right. split; [reflexivity|]. exists q. split; assumption.
Qed.

Lemma ins_go_lookup ns addr key ns' e :
  bytes_ok key -> inv ns addr -> (0 < length ns)%nat -> ins_go ns 0%nat key = (ns', e) ->
  (exists addr', inv ns' addr') /\
  forall k', lookup ns' 0%nat k' = (lookup ns 0%nat k' || eqb_ln k' key)%bool.
Proof.
  intros Hb I H0 Hins.
  destruct (ins_go_spec key ns 0%nat addr ns' e Hb I H0 Hins) as (addr' & I' & _ & G & Fe & We & Le).
  split; [exists addr'; assumption|].
  intro k'. unfold lookup.
  destruct (grows_walk _ _ _ G k' 0%nat) as [Eq|(Nn & q & Wq & Lq)].
  - destruct (walk ns 0%nat k') as [q|] eqn:W; rewrite Eq.
    + destruct (Nat.eq_dec q e) as [->|Hne].
      * assert (k' = key) by (apply (walk_inj ns' addr' k' key e); assumption). subst k'.
        rewrite Fe, eqb_ln_refl, orb_true_r. reflexivity.
      * rewrite (proj2 (proj2 G) q Hne).
        assert (Hk : eqb_ln k' key = false).
        { apply eqb_ln_false. intro; subst k'. rewrite We in Eq. congruence. }
        rewrite Hk, orb_false_r. reflexivity.
    + assert (Hk : eqb_ln k' key = false).
      { apply eqb_ln_false. intro; subst k'. rewrite We in Eq. discriminate. }
      rewrite Hk. reflexivity.
  - rewrite Nn, Wq. cbn [orb].
    destruct (Nat.eq_dec q e) as [->|Hne].
    + assert (k' = key) by (apply (walk_inj ns' addr' k' key e); assumption). subst k'.
      rewrite Fe, eqb_ln_refl. reflexivity.
    + rewrite (proj2 (proj2 G) q Hne), fin_oob by assumption.
      symmetry. apply eqb_ln_false. intro; subst k'. rewrite We in Wq. congruence.
Qed.

Lemma lookup_nil i k : lookup [] i k = false.
Proof.
  unfold lookup. destruct k as [|s k]; cbn [walk].
  - apply fin_oob. cbn; lia.
  - rewrite child_oob by (cbn; lia). reflexivity.
Qed.
Lemma lookup_root k : lookup [default_node] 0%nat k = false.
Proof. unfold lookup. destruct k as [|s k]; reflexivity. Qed.

(* insert_patricia_actual *)
Lemma insert_nodes_lookup ns addr key :
  bytes_ok key -> inv ns addr ->
  (exists addr', inv (fst (insert_nodes ns key)) addr') /\
  forall k', lookup (fst (insert_nodes ns key)) 0%nat k' = (lookup ns 0%nat k' || eqb_ln k' key)%bool.
Proof.
  intros Hb I. unfold insert_nodes.
  destruct ns as [|n t].
  - destruct (ins_go [default_node] 0%nat key) as [ns' e] eqn:E. cbn [fst].
    destruct (ins_go_lookup [default_node] addr key ns' e Hb (inv_root addr (proj1 I)) ltac:(cbn; lia) E) as [Ha Hl].
    split; [assumption|]. intro k'. rewrite Hl, lookup_root, lookup_nil. reflexivity.
  - destruct (ins_go (n :: t) 0%nat key) as [ns' e] eqn:E. cbn [fst].
    apply (ins_go_lookup (n :: t) addr key ns' e Hb I ltac:(cbn; lia) E).
Qed.
