(* C05, double array: the shape invariant (ghost address per used slot), the characterisation of the
   language by the used terminal slots, and the simple mutations of insert_double_array
   (base assignment, growth, allocation of a free slot, terminal bit). *)
From ZV.Common Require Import Base Run.
From ZV.C05 Require Import Model ModelFsa ModelDa Spec ProofsBase ProofsFsa ProofsDaArr.
Open Scope N_scope.

(* every assigned base value is at most BMAX = MAX_BASE (find_free_base of a slot is a quarter of its index, and
   relocate_state tests every base it tries against MAX_BASE), so every array stays below LMAX = BMAX + 256 =
   MAX_STATE slots: parent values never touch the free bit, bases never touch the terminal bit, saturating_add
   never saturates *)
Definition LMAX : N := 2147483646.
Definition BMAX : N := 2147483390.

Definition bv (d : da) (i : N) : N := N.land (bget d i) VALUE_MASK.       (* base[i] & VALUE_MASK *)
Definition tm (d : da) (i : N) : bool := has_term (bget d i).             (* base[i] & TERMINAL_BIT != 0 *)
Definition used (d : da) (q : N) : Prop := is_free_word (cget d q) = false.

Record DInv (d : da) (addr : N -> list N) : Prop := mkDInv {
  di_lens : blen d = clen d;
  di_len : 1 <= blen d /\ blen d <= LMAX;
  di_root : cget d 0 = 0;
  di_addr0 : addr 0 = [];
  (* a free slot holds exactly the free word and the NIL base *)
  di_free : forall q, is_free_word (cget d q) = true -> cget d q = FREE_WORD /\ bget d q = NIL_STATE;
  (* a used slot other than the root is a child of a used slot, inside that slot's 256-window, and its ghost
     address is the parent's address extended by its offset in the window *)
  di_link : forall q, q <> 0 -> used d q ->
      used d (cget d q) /\ bv d (cget d q) <> NIL_STATE /\
      bv d (cget d q) <= q /\ q <= bv d (cget d q) + 255 /\
      addr q = addr (cget d q) ++ [q - bv d (cget d q)];
  di_base : forall p, used d p -> bv d p = NIL_STATE \/ (1 <= bv d p /\ bv d p <= BMAX)
}.

Lemma bv_lt d i : bv d i < 2147483648.
Proof. apply mask_lt. Qed.

Lemma used_lt d q : used d q -> q < clen d.
Proof.
  intro H. destruct (N.lt_ge_cases q (clen d)) as [L|L]; [assumption|].
  unfold used in H. rewrite cget_oob in H by assumption. discriminate.
Qed.

Lemma used_root d addr : DInv d addr -> used d 0.
Proof. intro I. unfold used. rewrite (di_root _ _ I). reflexivity. Qed.

Lemma small_not_free d addr p : DInv d addr -> p < blen d -> is_free_word p = false.
Proof. intros I H. apply is_free_small. pose proof (di_len _ _ I). unfold LMAX in *. lia. Qed.

Lemma free_or_used d q : is_free_word (cget d q) = true \/ used d q.
Proof. unfold used. destruct (is_free_word (cget d q)); auto. Qed.

(* ---------------------------------------------------------------- transitions *)
Lemma sat_add_cases a b : a < 2147483648 -> (sat_add a b = a + b /\ a + b <= 4294967295) \/ (sat_add a b = 4294967295 /\ 2147483647 < b).
Proof. intro H. unfold sat_add, U32_MAX. lia. Qed.

Lemma da_trans_some d addr p s c : DInv d addr -> used d p -> da_transition d p s = Some c ->
  used d c /\ c <> 0 /\ cget d c = p /\ c = bv d p + s /\ s < 256 /\ addr c = addr p ++ [s].
Proof.
  intros I Hp T. pose proof (di_lens _ _ I) as Hl. pose proof (di_len _ _ I) as [L1 L2].
  apply used_lt in Hp as Hpl. rewrite <- Hl in Hpl.
  unfold da_transition in T. apply N.ltb_lt in Hpl as Hpb. rewrite Hpb in T. fold (bv d p) in T.
  destruct (N.ltb_spec (sat_add (bv d p) s) (clen d)) as [Hn|Hn]; [|discriminate].
  destruct (N.eqb_spec (cget d (sat_add (bv d p) s)) p) as [E|E]; [|discriminate].
  injection T as Ec. rewrite Ec in E, Hn.
  assert (Uc : used d c). { unfold used. rewrite E. apply (small_not_free d addr); assumption. }
  pose proof (bv_lt d p) as Hb.
  assert (Hc0 : c <> 0).
  { intro Z. rewrite Z in E. rewrite (di_root _ _ I) in E.
    destruct (sat_add_cases (bv d p) s Hb) as [[S1 S2]|[S1 S2]]; rewrite S1 in Ec; [|lia].
    subst p. destruct (di_base _ _ I 0 Hp) as [Hx|[Hx _]]; [|lia].
    rewrite Hx in Ec. unfold NIL_STATE in Ec. lia. }
  destruct (di_link _ _ I c Hc0 Uc) as (_ & _ & R1 & R2 & A). rewrite E in R1, R2, A.
  assert (Hs : s < 256 /\ c = bv d p + s).
  { destruct (sat_add_cases (bv d p) s Hb) as [[S1 S2]|[S1 S2]]; rewrite S1 in Ec; lia. }
  destruct Hs as [Hs Hc]. repeat split; try assumption.
  rewrite A. f_equal. f_equal. lia.
Qed.

Lemma da_trans_intro d addr p s : DInv d addr -> used d p -> s < 256 -> cget d (bv d p + s) = p ->
  da_transition d p s = Some (bv d p + s).
Proof.
  intros I Hp Hs E. pose proof (di_lens _ _ I) as Hl. pose proof (di_len _ _ I) as [L1 L2].
  apply used_lt in Hp as Hpl. rewrite <- Hl in Hpl.
  unfold da_transition. apply N.ltb_lt in Hpl as Hpb. rewrite Hpb. fold (bv d p).
  pose proof (bv_lt d p) as Hb.
  rewrite sat_add_small by (unfold U32_MAX; lia).
  destruct (N.ltb_spec (bv d p + s) (clen d)) as [Hn|Hn].
  - rewrite E, N.eqb_refl. reflexivity.
  - rewrite cget_oob, FREE_WORD_eq in E by assumption. unfold LMAX in *. lia.
Qed.

Lemma da_ginv d addr : DInv d addr -> ginv N (da_transition d) (used d) addr.
Proof.
  intros I p s c Hp T. destruct (da_trans_some d addr p s c I Hp T) as (U & _ & _ & _ & Hs & A).
  repeat split; assumption.
Qed.

(* every used slot is reached from the root by its ghost address *)
Lemma da_reach d addr : DInv d addr -> forall n q, length (addr q) = n -> used d q ->
  g_walk (da_transition d) 0 (addr q) = Some q.
Proof.
  intro I. induction n as [|n IH]; intros q Hn U.
  - destruct (N.eq_dec q 0) as [->|Hq]; [rewrite (di_addr0 _ _ I); reflexivity|].
    destruct (di_link _ _ I q Hq U) as (_ & _ & _ & _ & A). rewrite A, app_length in Hn. cbn [length] in Hn. lia.
  - destruct (N.eq_dec q 0) as [->|Hq]; [rewrite (di_addr0 _ _ I); reflexivity|].
    destruct (di_link _ _ I q Hq U) as (Up & Hb & R1 & R2 & A).
    assert (Hlen : length (addr (cget d q)) = n) by (rewrite A, app_length in Hn; cbn [length] in Hn; lia).
    rewrite A, g_walk_app, (IH _ Hlen Up). cbn [g_walk].
    rewrite (da_trans_intro d addr (cget d q) (q - bv d (cget d q)) I Up) by (try lia; f_equal; lia).
    f_equal. lia.
Qed.

(* the language: ghost addresses of the used slots whose terminal bit is set *)
Definition View (d : da) (addr : N -> list N) (k : list N) : Prop :=
  exists q, used d q /\ addr q = k /\ tm d q = true.

Definition dlookup (d : da) (k : list N) : bool := g_lookup (da_transition d) (da_is_final d) 0 k.

Lemma da_is_final_tm d q : q < blen d -> da_is_final d q = tm d q.
Proof. intro H. unfold da_is_final. apply N.ltb_lt in H. rewrite H. reflexivity. Qed.

Lemma dlookup_view d addr k : DInv d addr -> (dlookup d k = true <-> View d addr k).
Proof.
  intro I. pose proof (da_ginv d addr I) as G. pose proof (used_root d addr I) as U0. split.
  - unfold dlookup, g_lookup. destruct (g_walk (da_transition d) 0 k) as [e|] eqn:W; [|discriminate].
    intro F. destruct (g_walk_addr _ _ _ _ G k 0 e U0 W) as [Ue Ae].
    rewrite (di_addr0 _ _ I) in Ae. cbn [app] in Ae.
    exists e. split; [assumption|]. split; [assumption|].
    rewrite <- da_is_final_tm; [assumption|]. rewrite (di_lens _ _ I). apply used_lt; assumption.
  - intros (q & U & A & T). unfold dlookup, g_lookup. subst k.
    rewrite (da_reach d addr I _ q eq_refl U). rewrite da_is_final_tm; [assumption|].
    rewrite (di_lens _ _ I). apply used_lt; assumption.
Qed.

(* two storages with the same language view answer every lookup alike *)
Lemma dlookup_view_eq d addr d' addr' (P : list N -> Prop) (dec : forall k, P k \/ ~ P k) :
  DInv d addr -> DInv d' addr' -> (forall k, View d' addr' k <-> View d addr k \/ P k) ->
  forall k, dlookup d' k = true <-> (dlookup d k = true \/ P k).
Proof.
  intros I I' H k. rewrite (dlookup_view d' addr' k I'), (dlookup_view d addr k I). apply H.
Qed.

(* contains_double_array is that lookup *)
Lemma da_contains_go_lookup d : forall k cur,
  da_contains_go d cur k = g_lookup (da_transition d) (da_is_final d) cur k.
Proof.
  induction k as [|s k IH]; intro cur; cbn [da_contains_go].
  - reflexivity.
  - rewrite g_lookup_cons. unfold da_transition.
    destruct (cur <? blen d); [|reflexivity].
    destruct (N.leb_spec (clen d) (sat_add (N.land (bget d cur) VALUE_MASK) s)) as [H|H].
    + replace (sat_add (N.land (bget d cur) VALUE_MASK) s <? clen d) with false by (symmetry; apply N.ltb_ge; assumption).
      reflexivity.
    + replace (sat_add (N.land (bget d cur) VALUE_MASK) s <? clen d) with true by (symmetry; apply N.ltb_lt; assumption).
      destruct (cget d (sat_add (N.land (bget d cur) VALUE_MASK) s) =? cur); [apply IH | reflexivity].
Qed.
Lemma da_contains_lookup d addr k : DInv d addr -> da_contains d k = dlookup d k.
Proof.
  intro I. unfold da_contains. pose proof (di_len _ _ I) as [L _].
  replace (blen d =? 0) with false by (symmetry; apply N.eqb_neq; lia).
  apply da_contains_go_lookup.
Qed.
(* so are keys_with_prefix's navigation loop and the walk *)
Lemma da_prefix_walk_walk d : forall p cur, da_prefix_walk d cur p = g_walk (da_transition d) cur p.
Proof.
  induction p as [|s p IH]; intro cur; cbn [da_prefix_walk g_walk]; [reflexivity|].
  unfold da_transition. destruct (cur <? blen d); [|reflexivity].
  destruct (N.leb_spec (clen d) (sat_add (N.land (bget d cur) VALUE_MASK) s)) as [H|H].
  - replace (sat_add (N.land (bget d cur) VALUE_MASK) s <? clen d) with false by (symmetry; apply N.ltb_ge; assumption).
    reflexivity.
  - replace (sat_add (N.land (bget d cur) VALUE_MASK) s <? clen d) with true by (symmetry; apply N.ltb_lt; assumption).
    destruct (cget d (sat_add (N.land (bget d cur) VALUE_MASK) s) =? cur); [apply IH | reflexivity].
Qed.

(* ---------------------------------------------------------------- the empty storage *)
Lemma dinv_new : DInv da_new (fun _ => []).
Proof.
  assert (C0 : forall q, cget da_new q = if q =? 0 then 0 else FREE_WORD).
  { intro q. destruct (N.eqb_spec q 0) as [->|Hq]; [reflexivity|]. apply cget_oob. cbn. lia. }
  assert (B0 : forall q, bget da_new q = if q =? 0 then 1 else NIL_STATE).
  { intro q. destruct (N.eqb_spec q 0) as [->|Hq]; [reflexivity|]. apply bget_oob. cbn. lia. }
  constructor.
  - reflexivity.
  - cbn. unfold LMAX. lia.
  - reflexivity.
  - reflexivity.
  - intros q F. rewrite C0 in F. rewrite C0, B0. destruct (q =? 0); [discriminate | split; reflexivity].
  - intros q Hq U. unfold used in U. rewrite C0 in U. apply N.eqb_neq in Hq. rewrite Hq in U. discriminate.
  - intros p U. unfold used in U. rewrite C0 in U. destruct (N.eq_dec p 0) as [E|Hp].
    + subst p. right. unfold bv. rewrite B0. change (0 =? 0) with true. cbv iota.
      rewrite mask_small by lia. unfold BMAX. lia.
    + apply N.eqb_neq in Hp. rewrite Hp in U. discriminate.
Qed.
Lemma view_new k : ~ View da_new (fun _ => []) k.
Proof.
  intros (q & U & _ & T). unfold used in U. unfold tm in T.
  destruct (N.eq_dec q 0) as [->|Hq]; [discriminate|].
  rewrite cget_oob in U by (cbn; lia). discriminate.
Qed.

(* ---------------------------------------------------------------- growth *)
Lemma dinv_ext d d' addr :
  (forall j, bget d' j = bget d j) -> (forall j, cget d' j = cget d j) ->
  blen d' = clen d' -> 1 <= blen d' -> blen d' <= LMAX -> DInv d addr -> DInv d' addr.
Proof.
  intros HB HC Hl L1 L2 I.
  assert (HU : forall q, used d' q <-> used d q) by (intro q; unfold used; rewrite HC; reflexivity).
  assert (HV : forall q, bv d' q = bv d q) by (intro q; unfold bv; rewrite HB; reflexivity).
  constructor.
  - assumption.
  - split; assumption.
  - rewrite HC. apply (di_root _ _ I).
  - apply (di_addr0 _ _ I).
  - intros q F. rewrite HC in F. rewrite HC, HB. apply (di_free _ _ I q F).
  - intros q Hq U. apply HU in U. rewrite !HC, !HV. rewrite HU. apply (di_link _ _ I q Hq U).
  - intros p U. apply HU in U. rewrite HV. apply (di_base _ _ I p U).
Qed.

Lemma view_ext d d' addr k :
  (forall j, bget d' j = bget d j) -> (forall j, cget d' j = cget d j) -> (View d' addr k <-> View d addr k).
Proof.
  intros HB HC. unfold View, used, tm. split; intros (q & U & A & T); exists q.
  - rewrite HC in U. rewrite HB in T. auto.
  - rewrite HC, HB. auto.
Qed.

Lemma dinv_ensure d addr pos : DInv d addr -> pos + 1 <= LMAX ->
  DInv (da_ensure d pos) addr /\ pos < blen (da_ensure d pos) /\
  (forall j, bget (da_ensure d pos) j = bget d j) /\ (forall j, cget (da_ensure d pos) j = cget d j).
Proof.
  intros I Hp. destruct (ensure_spec d pos (di_lens _ _ I)) as (E1 & E2 & E3 & E4).
  pose proof (di_len _ _ I) as [L1 L2].
  split; [|split; [lia | split; assumption]].
  apply (dinv_ext d); try assumption; lia.
Qed.

(* ---------------------------------------------------------------- base assignment for a slot without base *)
Lemma dinv_set_base d addr cur : DInv d addr -> used d cur -> bv d cur = NIL_STATE ->
  let d' := bset d cur (N.lor (find_free_base cur) (N.land (bget d cur) TERMINAL_BIT)) in
  DInv d' addr /\ (forall j, cget d' j = cget d j) /\ (forall j, tm d' j = tm d j) /\
  bv d' cur = find_free_base cur /\ (forall j, j <> cur -> bget d' j = bget d j) /\ blen d' = blen d.
Proof.
  intros I U Hnil d'. pose proof (di_lens _ _ I) as Hl. pose proof (di_len _ _ I) as [L1 L2].
  assert (Hc : cur < blen d) by (rewrite Hl; apply used_lt; assumption).
  assert (Hf : find_free_base cur < 2147483648).
  { unfold find_free_base, LMAX in *. lia. }
  assert (HB : forall j, bget d' j = if j =? cur then N.lor (find_free_base cur) (N.land (bget d cur) TERMINAL_BIT) else bget d j).
  { intro j. unfold d'. rewrite bget_bset. apply N.ltb_lt in Hc. rewrite Hc, andb_true_r. reflexivity. }
  assert (HC : forall j, cget d' j = cget d j) by reflexivity.
  assert (HT : forall j, tm d' j = tm d j).
  { intro j. unfold tm. rewrite HB. destruct (N.eqb_spec j cur) as [->|]; [|reflexivity]. apply has_term_lor_keep; assumption. }
  assert (HVc : bv d' cur = find_free_base cur).
  { unfold bv. rewrite HB, N.eqb_refl. apply mask_lor_keep; assumption. }
  assert (HV : forall j, j <> cur -> bv d' j = bv d j).
  { intros j Hj. unfold bv. rewrite HB. apply N.eqb_neq in Hj. rewrite Hj. reflexivity. }
  assert (HU : forall q, used d' q <-> used d q) by (intro q; reflexivity).
  (* no slot has cur as its parent: cur has no base *)
  assert (Hnp : forall q, q <> 0 -> used d q -> cget d q <> cur).
  { intros q Hq Uq E. destruct (di_link _ _ I q Hq Uq) as (_ & Hb & _). rewrite E in Hb. contradiction. }
  split; [|split; [assumption | split; [assumption | split; [assumption | split]]]].
  - constructor.
    + unfold d'. rewrite blen_bset, clen_bset. assumption.
    + unfold d'. rewrite blen_bset. split; assumption.
    + apply (di_root _ _ I).
    + apply (di_addr0 _ _ I).
    + intros q F. rewrite HC in *. destruct (di_free _ _ I q F) as [F1 F2]. split; [assumption|].
      rewrite HB. destruct (N.eqb_spec q cur) as [->|]; [|assumption].
      unfold used in U. rewrite U in F. discriminate.
    + intros q Hq Uq. rewrite HC. rewrite (HV (cget d q)) by (apply Hnp; assumption).
      apply (di_link _ _ I q Hq Uq).
    + intros p Up. destruct (N.eq_dec p cur) as [->|Hp].
      * right. rewrite HVc. unfold find_free_base, BMAX, LMAX in *. lia.
      * rewrite (HV p Hp). apply (di_base _ _ I p Up).
  - intros j Hj. rewrite HB. apply N.eqb_neq in Hj. rewrite Hj. reflexivity.
  - unfold d'. apply blen_bset.
Qed.

(* ---------------------------------------------------------------- allocation of a free slot as a new child *)
Lemma dinv_alloc d addr cur s : DInv d addr -> used d cur -> bv d cur <> NIL_STATE -> s < 256 ->
  bv d cur + s < blen d -> is_free_word (cget d (bv d cur + s)) = true ->
  let nn := bv d cur + s in
  let d' := da_alloc d nn cur in
  let addr' := fun q => if q =? nn then addr cur ++ [s] else addr q in
  DInv d' addr' /\ used d' nn /\ addr' nn = addr cur ++ [s] /\
  (forall k, View d' addr' k <-> View d addr k).
Proof.
  intros I U Hb Hs Hn F. cbv zeta. remember (bv d cur + s) as nn eqn:Enn.
  set (d' := da_alloc d nn cur). set (addr' := fun q => if q =? nn then addr cur ++ [s] else addr q).
  pose proof (di_lens _ _ I) as Hl. pose proof (di_len _ _ I) as [L1 L2].
  assert (Hc : cur < blen d) by (rewrite Hl; apply used_lt; assumption).
  assert (Hnc : nn <> cur). { intro E. unfold used in U. rewrite <- E in U. congruence. }
  assert (Hn0 : nn <> 0). { intro E. rewrite E, (di_root _ _ I) in F. discriminate. }
  assert (Hnl : (nn <? blen d) = true) by (apply N.ltb_lt; assumption).
  assert (Hnl' : (nn <? clen d) = true) by (rewrite <- Hl; assumption).
  assert (HB : forall j, bget d' j = if j =? nn then NIL_STATE else bget d j).
  { intro j. unfold d', da_alloc. rewrite bget_bset, blen_cset, Hnl, andb_true_r, bget_cset. reflexivity. }
  assert (HC : forall j, cget d' j = if j =? nn then cur else cget d j).
  { intro j. unfold d', da_alloc. rewrite cget_bset, cget_cset, Hnl', andb_true_r. reflexivity. }
  assert (Hcf : is_free_word cur = false) by (apply (small_not_free d addr); assumption).
  assert (HU : forall q, used d' q <-> (q = nn \/ used d q)).
  { intro q. unfold used. rewrite HC. destruct (N.eqb_spec q nn) as [E|Hq]; [subst q|].
    - split; [left; reflexivity | intros _; assumption].
    - split; [right; assumption | intros [E|E]; [contradiction | assumption]]. }
  assert (HV : forall j, j <> nn -> bv d' j = bv d j).
  { intros j Hj. unfold bv. rewrite HB. apply N.eqb_neq in Hj. rewrite Hj. reflexivity. }
  assert (HVn : bv d' nn = NIL_STATE). { unfold bv. rewrite HB, N.eqb_refl. reflexivity. }
  assert (Hun : forall q, used d q -> q <> nn). { intros q Uq E. subst q. unfold used in Uq. congruence. }
  assert (I' : DInv d' addr').
  { constructor.
    - unfold d', da_alloc. rewrite blen_bset, clen_bset, blen_cset, clen_cset. assumption.
    - unfold d', da_alloc. rewrite blen_bset, blen_cset. split; assumption.
    - rewrite HC. apply N.eqb_neq in Hn0. rewrite N.eqb_sym, Hn0. apply (di_root _ _ I).
    - unfold addr'. apply N.eqb_neq in Hn0. rewrite N.eqb_sym, Hn0. apply (di_addr0 _ _ I).
    - intros q Fq. rewrite HC in Fq. rewrite HC, HB. destruct (N.eqb_spec q nn) as [E|Hq]; [subst q; congruence|].
      apply (di_free _ _ I q Fq).
    - intros q Hq Uq. apply HU in Uq. rewrite HC. destruct (N.eqb_spec q nn) as [E|Hqn]; [subst q|].
      + rewrite (HV cur) by (intro E; apply Hnc; symmetry; assumption).
        split; [apply HU; right; assumption|]. split; [assumption|]. split; [lia|]. split; [lia|].
        unfold addr'. rewrite N.eqb_refl.
        replace (cur =? nn) with false by (symmetry; apply N.eqb_neq; intro E; apply Hnc; symmetry; assumption).
        f_equal. f_equal. lia.
      + destruct Uq as [E|Uq]; [contradiction|].
        destruct (di_link _ _ I q Hq Uq) as (Up & Hbp & R1 & R2 & A).
        pose proof (Hun _ Up) as Hpn. rewrite (HV _ Hpn).
        split; [apply HU; right; assumption|]. split; [assumption|]. split; [assumption|]. split; [assumption|].
        unfold addr'. apply N.eqb_neq in Hqn. apply N.eqb_neq in Hpn. rewrite Hqn, Hpn. assumption.
    - intros p Up. apply HU in Up. destruct (N.eq_dec p nn) as [E|Hp]; [subst p; left; assumption|].
      destruct Up as [E|Up]; [contradiction|]. rewrite (HV p Hp). apply (di_base _ _ I p Up). }
  split; [assumption|]. split; [apply HU; left; reflexivity|]. split; [unfold addr'; rewrite N.eqb_refl; reflexivity|].
  intro k. unfold View. split.
  - intros (q & Uq & A & T). apply HU in Uq. destruct (N.eq_dec q nn) as [E|Hq]; [subst q|].
    + unfold tm in T. rewrite HB, N.eqb_refl in T. discriminate.
    + destruct Uq as [E|Uq]; [contradiction|]. exists q. split; [assumption|].
      unfold addr' in A. unfold tm in *. rewrite HB in T. apply N.eqb_neq in Hq. rewrite Hq in A, T. split; assumption.
  - intros (q & Uq & A & T). pose proof (Hun _ Uq) as Hq. exists q. split; [apply HU; right; assumption|].
    unfold addr', tm. rewrite HB. apply N.eqb_neq in Hq. rewrite Hq. split; assumption.
Qed.

(* ---------------------------------------------------------------- following an existing transition *)
Lemma dinv_follow d addr cur s : DInv d addr -> used d cur -> bv d cur <> NIL_STATE -> s < 256 ->
  cget d (bv d cur + s) = cur -> used d (bv d cur + s) /\ addr (bv d cur + s) = addr cur ++ [s].
Proof.
  intros I U Hb Hs E. pose proof (di_lens _ _ I) as Hl.
  assert (Hc : cur < blen d) by (rewrite Hl; apply used_lt; assumption).
  assert (Un : used d (bv d cur + s)). { unfold used. rewrite E. apply (small_not_free d addr); assumption. }
  assert (Hn0 : bv d cur + s <> 0).
  { destruct (di_base _ _ I cur U) as [Hx|[Hx _]]; [contradiction | lia]. }
  destruct (di_link _ _ I _ Hn0 Un) as (_ & _ & _ & _ & A). rewrite E in A.
  split; [assumption|]. rewrite A. f_equal. f_equal. lia.
Qed.

(* ---------------------------------------------------------------- base[cur] |= TERMINAL_BIT *)
Lemma dinv_set_term d addr cur : DInv d addr -> used d cur ->
  let d' := bset d cur (N.lor (bget d cur) TERMINAL_BIT) in
  DInv d' addr /\ (forall k, View d' addr k <-> View d addr k \/ k = addr cur).
Proof.
  intros I U d'. pose proof (di_lens _ _ I) as Hl. pose proof (di_len _ _ I) as [L1 L2].
  assert (Hc : cur < blen d) by (rewrite Hl; apply used_lt; assumption).
  assert (HB : forall j, bget d' j = if j =? cur then N.lor (bget d cur) TERMINAL_BIT else bget d j).
  { intro j. unfold d'. rewrite bget_bset. apply N.ltb_lt in Hc. rewrite Hc, andb_true_r. reflexivity. }
  assert (HV : forall j, bv d' j = bv d j).
  { intro j. unfold bv. rewrite HB. destruct (N.eqb_spec j cur) as [->|]; [apply mask_lor_term | reflexivity]. }
  assert (HT : forall j, tm d' j = if j =? cur then true else tm d j).
  { intro j. unfold tm. rewrite HB. destruct (j =? cur); [apply has_term_lor_term | reflexivity]. }
  split.
  - constructor.
    + unfold d'. rewrite blen_bset, clen_bset. assumption.
    + unfold d'. rewrite blen_bset. split; assumption.
    + apply (di_root _ _ I).
    + apply (di_addr0 _ _ I).
    + intros q F. change (cget d' q) with (cget d q) in *. destruct (di_free _ _ I q F) as [F1 F2]. split; [assumption|].
      rewrite HB. destruct (N.eqb_spec q cur) as [->|]; [|assumption]. unfold used in U. congruence.
    + intros q Hq Uq. change (cget d' q) with (cget d q). rewrite HV. apply (di_link _ _ I q Hq Uq).
    + intros p Up. rewrite HV. apply (di_base _ _ I p Up).
  - intro k. unfold View. split.
    + intros (q & Uq & A & T). rewrite HT in T. destruct (N.eqb_spec q cur) as [->|Hq].
      * right. symmetry; assumption.
      * left. exists q. auto.
    + intros [(q & Uq & A & T)|E].
      * exists q. split; [assumption|]. split; [assumption|]. rewrite HT, T. destruct (q =? cur); reflexivity.
      * exists cur. split; [assumption|]. split; [symmetry; assumption|]. rewrite HT, N.eqb_refl. reflexivity.
Qed.
