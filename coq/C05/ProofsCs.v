(* C05: the compressed-sparse storage as written (a trie over hash maps, ModelCs.v) refines the set of keys. *)
From ZV.Common Require Import Base Run.
From Coq Require Import Permutation.
From ZV.C05 Require Import Model ModelFsa ModelCs Spec SpecNoRemove ProofsBase ProofsInsert ProofsRemove ProofsRefine ProofsKeys ProofsClone ProofsFsa.
Open Scope N_scope.

(* ---------------------------------------------------------------- HashMap as association list *)
Lemma al_get_put {V} (m : list (N * V)) k v k' :
  al_get (al_put m k v) k' = if k =? k' then Some v else al_get m k'.
Proof.
  induction m as [|[a w] m IH]; cbn [al_put al_get].
  - destruct (k =? k'); reflexivity.
  - destruct (N.eqb_spec a k) as [->|Ha]; cbn [al_get].
    + destruct (k =? k'); reflexivity.
    + rewrite IH. destruct (N.eqb_spec a k') as [->|Ha'].
      * apply N.eqb_neq in Ha. rewrite N.eqb_sym, Ha. reflexivity.
      * reflexivity.
Qed.

Lemma al_get_in {V} (m : list (N * V)) k v : al_get m k = Some v -> In (k, v) m.
Proof.
  induction m as [|[a w] m IH]; cbn [al_get]; [discriminate|].
  destruct (N.eqb_spec a k) as [->|Ha]; intro H; [inversion H; left; reflexivity | right; apply IH; assumption].
Qed.
Lemma al_in_get {V} (m : list (N * V)) k v : NoDup (map fst m) -> In (k, v) m -> al_get m k = Some v.
Proof.
  induction m as [|[a w] m IH]; intros ND Hin; [destruct Hin|]. cbn [map fst] in ND. inversion ND as [|? ? Ha ND']; subst.
  cbn [al_get]. destruct Hin as [E|Hin].
  - inversion E; subst. rewrite N.eqb_refl. reflexivity.
  - destruct (N.eqb_spec a k) as [->|Hne]; [|apply IH; assumption].
    exfalso. apply Ha. apply in_map_iff. exists (k, v). split; [reflexivity | assumption].
Qed.
Lemma al_put_keys {V} (m : list (N * V)) k v :
  map fst (al_put m k v) = if existsb (N.eqb k) (map fst m) then map fst m else map fst m ++ [k].
Proof.
  induction m as [|[a w] m IH]; cbn [al_put map fst existsb]; [reflexivity|].
  destruct (N.eqb_spec a k) as [->|Ha]; cbn [map fst].
  - rewrite N.eqb_refl. reflexivity.
  - replace (k =? a) with false by (symmetry; apply N.eqb_neq; congruence). cbn [orb].
    rewrite IH. destruct (existsb (N.eqb k) (map fst m)); reflexivity.
Qed.
Lemma nodup_snoc {A} (l : list A) x : NoDup l -> ~ In x l -> NoDup (l ++ [x]).
Proof.
  induction l as [|a l IH]; intros ND Hx; cbn [app]; [constructor; [intros [] | constructor]|].
  inversion ND as [|? ? Ha ND']; subst. constructor.
  - rewrite in_app_iff. intros [H|[H|[]]]; [contradiction | apply Hx; left; symmetry; assumption].
  - apply IH; [assumption | intro H; apply Hx; right; assumption].
Qed.
Lemma al_put_nodup {V} (m : list (N * V)) k v : NoDup (map fst m) -> NoDup (map fst (al_put m k v)).
Proof.
  intro ND. rewrite al_put_keys. destruct (existsb (N.eqb k) (map fst m)) eqn:E; [assumption|].
  apply nodup_snoc; [assumption|]. intro Hin.
  assert (existsb (N.eqb k) (map fst m) = true) by (apply existsb_exists; exists k; split; [assumption | apply N.eqb_refl]).
  congruence.
Qed.

(* ---------------------------------------------------------------- shape invariant *)
Definition clive (m : smap) (q : N) : Prop := al_get m q <> None.

Record CInv (m : smap) (addr : N -> list N) : Prop := {
  ci_root : clive m 0;
  ci_addr0 : addr 0 = [];
  ci_link : forall p s c, cs_transition m p s = Some c -> clive m c /\ addr c = addr p ++ [s] /\ s < 256;
  ci_parent : forall q, clive m q -> q <> 0 -> exists p s, cs_transition m p s = Some q /\ addr q = addr p ++ [s];
  ci_keys : NoDup (map fst m);
  ci_syms : forall p n, al_get m p = Some n -> NoDup (map fst (s_children n))
}.

Lemma trans_live m p s c : cs_transition m p s = Some c -> clive m p.
Proof. unfold cs_transition, clive. destruct (al_get m p); [discriminate | discriminate]. Qed.

Lemma cs_ginv m addr : CInv m addr -> ginv N (cs_transition m) (clive m) addr.
Proof. intros I p s c _ T. apply (ci_link _ _ I p s c T). Qed.

Lemma cs_reach m addr : CInv m addr -> forall n q, length (addr q) = n -> clive m q ->
  g_walk (cs_transition m) 0 (addr q) = Some q.
Proof.
  intro I. induction n as [|n IH]; intros q Hn L.
  - destruct (N.eq_dec q 0) as [->|Hq]; [rewrite (ci_addr0 _ _ I); reflexivity|].
    destruct (ci_parent _ _ I q L Hq) as (p & s & _ & A). rewrite A, app_length in Hn. cbn [length] in Hn. lia.
  - destruct (N.eq_dec q 0) as [->|Hq]; [rewrite (ci_addr0 _ _ I); reflexivity|].
    destruct (ci_parent _ _ I q L Hq) as (p & s & T & A).
    assert (Hlen : length (addr p) = n) by (rewrite A, app_length in Hn; cbn [length] in Hn; lia).
    rewrite A, g_walk_app, (IH p Hlen (trans_live _ _ _ _ T)). cbn [g_walk]. rewrite T. reflexivity.
Qed.

Definition CView (m : smap) (addr : N -> list N) (k : list N) : Prop :=
  exists q, clive m q /\ addr q = k /\ cs_is_final m q = true.
Definition clookup (m : smap) (k : list N) : bool := g_lookup (cs_transition m) (cs_is_final m) 0 k.

Lemma clookup_view m addr k : CInv m addr -> (clookup m k = true <-> CView m addr k).
Proof.
  intro I. pose proof (cs_ginv m addr I) as G. split.
  - unfold clookup, g_lookup. destruct (g_walk (cs_transition m) 0 k) as [e|] eqn:W; [|discriminate].
    intro F. destruct (g_walk_addr _ _ _ _ G k 0 e (ci_root _ _ I) W) as [Le Ae].
    rewrite (ci_addr0 _ _ I) in Ae. exists e. auto.
  - intros (q & L & A & T). unfold clookup, g_lookup. subst k. rewrite (cs_reach m addr I _ q eq_refl L). assumption.
Qed.

(* contains_compressed_sparse is the generic lookup *)
Lemma cs_contains_go_lookup m : forall k cur, cs_contains_go m cur k = g_lookup (cs_transition m) (cs_is_final m) cur k.
Proof.
  induction k as [|s k IH]; intro cur; cbn [cs_contains_go]; [reflexivity|].
  rewrite g_lookup_cons. unfold cs_transition. destruct (al_get m cur) as [n|]; [|reflexivity].
  destruct (al_get (s_children n) s); [apply IH | reflexivity].
Qed.
Lemma cs_contains_lookup m k : cs_contains m k = clookup m k.
Proof.
  unfold cs_contains. destruct m as [|e m]; [|apply cs_contains_go_lookup].
  unfold clookup, g_lookup. destruct k as [|s k]; reflexivity.
Qed.
Lemma cs_prefix_walk_walk m : forall p cur, cs_prefix_walk m cur p = g_walk (cs_transition m) cur p.
Proof.
  induction p as [|s p IH]; intro cur; cbn [cs_prefix_walk g_walk]; [reflexivity|].
  unfold cs_transition. destruct (al_get m cur) as [n|]; [|reflexivity].
  destruct (al_get (s_children n) s); [apply IH | reflexivity].
Qed.

Lemma max_key_ge (m : smap) q n : al_get m q = Some n -> q <= cs_max_key m.
Proof.
  intro H. apply al_get_in in H. unfold cs_max_key. induction m as [|[a w] m IH]; [destruct H|].
  cbn [fold_right fst]. destruct H as [E|H]; [inversion E; lia|]. specialize (IH H). lia.
Qed.

(* the root alone *)
Lemma cinv_root : CInv [(0, s_new)] (fun _ => []).
Proof.
  constructor.
  - unfold clive. cbn. discriminate.
  - reflexivity.
  - intros p s c T. unfold cs_transition in T. cbn [al_get] in T. destruct (0 =? p); discriminate.
  - intros q L Hq. exfalso. unfold clive in L. cbn [al_get] in L. destruct (N.eqb_spec 0 q); [congruence | apply L; reflexivity].
  - cbn. constructor; [intros [] | constructor].
  - intros p n H. cbn [al_get] in H. destruct (0 =? p); [inversion H; constructor | discriminate].
Qed.
Lemma cview_root k : ~ CView [(0, s_new)] (fun _ => []) k.
Proof.
  intros (q & _ & _ & T). unfold cs_is_final in T. cbn [al_get] in T. destruct (0 =? q); discriminate.
Qed.

(* ---------------------------------------------------------------- insert_compressed_sparse *)
Lemma cs_set_final m addr cur n : CInv m addr -> al_get m cur = Some n ->
  let m' := al_put m cur (mkS (s_children n) true) in
  CInv m' addr /\ (forall k, CView m' addr k <-> CView m addr k \/ k = addr cur).
Proof.
  intros I Hn m'.
  assert (G : forall q, al_get m' q = if cur =? q then Some (mkS (s_children n) true) else al_get m q) by (intro q; apply al_get_put).
  assert (T : forall p s, cs_transition m' p s = cs_transition m p s).
  { intros p s. unfold cs_transition. rewrite G. destruct (N.eqb_spec cur p) as [<-|]; [rewrite Hn|]; reflexivity. }
  assert (L : forall q, clive m' q <-> clive m q).
  { intro q. unfold clive. rewrite G. destruct (N.eqb_spec cur q) as [<-|]; [|reflexivity]. rewrite Hn. split; discriminate. }
  assert (F : forall q, cs_is_final m' q = if cur =? q then true else cs_is_final m q).
  { intro q. unfold cs_is_final. rewrite G. destruct (cur =? q); reflexivity. }
  split.
  - constructor.
    + apply L. apply (ci_root _ _ I).
    + apply (ci_addr0 _ _ I).
    + intros p s c H. rewrite T in H. rewrite L. apply (ci_link _ _ I p s c H).
    + intros q Hq Hq0. apply L in Hq. destruct (ci_parent _ _ I q Hq Hq0) as (p & s & H & A). exists p, s. rewrite T. auto.
    + apply al_put_nodup. apply (ci_keys _ _ I).
    + intros p n' H. rewrite G in H. destruct (N.eqb_spec cur p) as [<-|].
      * inversion H; subst n'. cbn [s_children]. apply (ci_syms _ _ I cur n Hn).
      * apply (ci_syms _ _ I p n' H).
  - intro k. unfold CView. split.
    + intros (q & Lq & A & Fq). rewrite F in Fq. destruct (N.eqb_spec cur q) as [<-|].
      * right. symmetry; assumption.
      * left. exists q. rewrite <- L. auto.
    + intros [(q & Lq & A & Fq)|E].
      * exists q. rewrite L, F, Fq. destruct (cur =? q); auto.
      * exists cur. rewrite L, F, N.eqb_refl. split; [unfold clive; rewrite Hn; discriminate | auto].
Qed.

Lemma cs_add_node m addr cur pn s nid : CInv m addr -> al_get m cur = Some pn -> cs_transition m cur s = None ->
  s < 256 -> (forall q, clive m q -> q < nid) ->
  let m2 := al_put (al_put m nid s_new) cur (mkS (al_put (s_children pn) s nid) (s_final pn)) in
  let addr2 := fun q => if q =? nid then addr cur ++ [s] else addr q in
  CInv m2 addr2 /\ clive m2 nid /\ addr2 nid = addr cur ++ [s] /\ (forall q, clive m2 q -> q < nid + 1) /\
  (forall k, CView m2 addr2 k <-> CView m addr k).
Proof.
  intros I Hpn Hnone Hs Hb m2 addr2.
  assert (Lcur : clive m cur) by (unfold clive; rewrite Hpn; discriminate).
  assert (Hcn : cur <> nid) by (specialize (Hb cur Lcur); lia).
  assert (Hnn : al_get m nid = None).
  { destruct (al_get m nid) eqn:E; [|reflexivity]. assert (clive m nid) by (unfold clive; rewrite E; discriminate).
    specialize (Hb nid H). lia. }
  assert (G : forall q, al_get m2 q = if cur =? q then Some (mkS (al_put (s_children pn) s nid) (s_final pn))
                                      else if nid =? q then Some s_new else al_get m q).
  { intro q. unfold m2. rewrite !al_get_put. reflexivity. }
  assert (T : forall p x, cs_transition m2 p x =
               if cur =? p then (if s =? x then Some nid else cs_transition m cur x)
               else if nid =? p then None else cs_transition m p x).
  { intros p x. unfold cs_transition. rewrite G. destruct (N.eqb_spec cur p) as [<-|Hp].
    - cbn [s_children]. rewrite al_get_put, Hpn. reflexivity.
    - destruct (nid =? p); reflexivity. }
  assert (L : forall q, clive m2 q <-> q = nid \/ clive m q).
  { intro q. unfold clive. rewrite G. destruct (N.eqb_spec cur q) as [<-|Hq].
    - split; [intros _; right; rewrite Hpn; discriminate | discriminate].
    - destruct (N.eqb_spec nid q) as [<-|Hq2]; [split; [left; reflexivity | discriminate]|].
      split; [right; assumption | intros [E|H]; [congruence | assumption]]. }
  assert (F : forall q, cs_is_final m2 q = if nid =? q then false else cs_is_final m q).
  { intro q. unfold cs_is_final. rewrite G. destruct (N.eqb_spec cur q) as [<-|Hq].
    - apply N.eqb_neq in Hcn. rewrite N.eqb_sym, Hcn, Hpn. reflexivity.
    - destruct (nid =? q); reflexivity. }
  assert (Hlive_ne : forall q, clive m q -> q <> nid) by (intros q Hq E; specialize (Hb q Hq); lia).
  assert (A2 : forall q, q <> nid -> addr2 q = addr q).
  { intros q Hq. unfold addr2. apply N.eqb_neq in Hq. rewrite Hq. reflexivity. }
  assert (I2 : CInv m2 addr2).
  { constructor.
    - apply L. right. apply (ci_root _ _ I).
    - rewrite A2; [apply (ci_addr0 _ _ I)|]. apply Hlive_ne. apply (ci_root _ _ I).
    - intros p x c H. rewrite T in H. destruct (N.eqb_spec cur p) as [<-|Hp].
      + destruct (N.eqb_spec s x) as [<-|Hx].
        * inversion H; subst c. split; [apply L; left; reflexivity|]. split; [|assumption].
          unfold addr2. rewrite N.eqb_refl. apply N.eqb_neq in Hcn. rewrite Hcn. reflexivity.
        * destruct (ci_link _ _ I cur x c H) as (Lc & Ac & Hx256). split; [apply L; right; assumption|].
          rewrite (A2 c (Hlive_ne c Lc)), (A2 cur Hcn). split; assumption.
      + destruct (nid =? p) eqn:Enp; [discriminate|].
        destruct (ci_link _ _ I p x c H) as (Lc & Ac & Hx256). split; [apply L; right; assumption|].
        rewrite (A2 c (Hlive_ne c Lc)), (A2 p (Hlive_ne p (trans_live _ _ _ _ H))). split; assumption.
    - intros q Lq Hq0. apply L in Lq. destruct Lq as [->|Lq].
      + exists cur, s. rewrite T, !N.eqb_refl. split; [reflexivity|].
        unfold addr2. rewrite N.eqb_refl. apply N.eqb_neq in Hcn. rewrite Hcn. reflexivity.
      + destruct (ci_parent _ _ I q Lq Hq0) as (p & x & H & A). exists p, x.
        pose proof (trans_live _ _ _ _ H) as Lp.
        rewrite (A2 q (Hlive_ne q Lq)), (A2 p (Hlive_ne p Lp)). split; [|assumption].
        rewrite T. destruct (N.eqb_spec cur p) as [<-|Hp].
        * destruct (N.eqb_spec s x) as [<-|Hx]; [congruence | assumption].
        * replace (nid =? p) with false by (symmetry; apply N.eqb_neq; intro E; apply (Hlive_ne p Lp); symmetry; assumption).
          assumption.
    - unfold m2. apply al_put_nodup, al_put_nodup. apply (ci_keys _ _ I).
    - intros p n' H. rewrite G in H. destruct (N.eqb_spec cur p) as [<-|Hp].
      + inversion H; subst n'. cbn [s_children]. apply al_put_nodup. apply (ci_syms _ _ I cur pn Hpn).
      + destruct (nid =? p); [inversion H; constructor | apply (ci_syms _ _ I p n' H)]. }
  split; [assumption|]. split; [apply L; left; reflexivity|]. split; [unfold addr2; rewrite N.eqb_refl; reflexivity|].
  split.
  { intros q Lq. apply L in Lq. destruct Lq as [->|Lq]; [lia | specialize (Hb q Lq); lia]. }
  intro k. unfold CView. split.
  - intros (q & Lq & A & Fq). rewrite F in Fq. destruct (N.eqb_spec nid q) as [<-|Hq]; [discriminate|].
    apply L in Lq. destruct Lq as [E|Lq]; [congruence|]. exists q. rewrite <- (A2 q) by congruence. auto.
  - intros (q & Lq & A & Fq). pose proof (Hlive_ne q Lq) as Hq. exists q. rewrite L, F, (A2 q Hq).
    replace (nid =? q) with false by (symmetry; apply N.eqb_neq; congruence). auto.
Qed.

Lemma cs_ins_go_spec : forall key m cur nid addr,
  bytes_ok key -> CInv m addr -> clive m cur -> (forall q, clive m q -> q < nid) ->
  exists m' e addr', cs_ins_go m cur nid key = (m', Some e) /\ CInv m' addr' /\
    (forall k, CView m' addr' k <-> CView m addr k \/ k = addr cur ++ key).
Proof.
  induction key as [|s rest IH]; intros m cur nid addr Hb I Lc Hn; cbn [cs_ins_go].
  - unfold clive in Lc. destruct (al_get m cur) as [n|] eqn:E; [|contradiction].
    destruct (cs_set_final m addr cur n I E) as [I' V]. cbv zeta in *.
    eexists _, cur, addr. split; [reflexivity|]. split; [assumption|]. intro k. rewrite app_nil_r. apply V.
  - inversion Hb as [|? ? Hs Hrest]; subst. unfold is_byte in Hs.
    fold (cs_transition m cur s).
    destruct (cs_transition m cur s) as [c|] eqn:T.
    + destruct (ci_link _ _ I cur s c T) as (Lcc & Ac & _).
      destruct (IH m c nid addr Hrest I Lcc Hn) as (m' & e & addr' & H & I' & V).
      exists m', e, addr'. split; [assumption|]. split; [assumption|]. intro k. rewrite V, Ac, <- app_assoc. reflexivity.
    + pose proof Lc as Lc'. unfold clive in Lc'. destruct (al_get m cur) as [pn|] eqn:E; [|contradiction].
      assert (Hcn : cur <> nid) by (specialize (Hn cur Lc); lia).
      rewrite al_get_put. replace (nid =? cur) with false by (symmetry; apply N.eqb_neq; congruence). rewrite E.
      destruct (cs_add_node m addr cur pn s nid I E T Hs Hn) as (I2 & L2 & A2 & B2 & V2). cbv zeta in *.
      destruct (IH _ nid (nid + 1) _ Hrest I2 L2 B2) as (m' & e & addr' & H & I' & V).
      exists m', e, addr'. split; [assumption|]. split; [assumption|].
      intro k. rewrite V, V2, A2, <- app_assoc. reflexivity.
Qed.

(* insert_compressed_sparse never fails and adds exactly the key *)
Definition COK (m : smap) : Prop := m = [] \/ exists addr, CInv m addr.

Lemma clookup_nil k : clookup [] k = false.
Proof. unfold clookup, g_lookup. destruct k; reflexivity. Qed.

Lemma cs_insert_spec m key : bytes_ok key -> COK m ->
  exists m' e, cs_insert m key = (m', Some e) /\ (exists addr', CInv m' addr') /\
    forall k, clookup m' k = (clookup m k || eqb_ln k key)%bool.
Proof.
  intros Hb OK. unfold cs_insert.
  set (m0 := match m with [] => [(0, s_new)] | _ :: _ => m end).
  assert (H0 : exists addr0, CInv m0 addr0 /\ forall k, CView m0 addr0 k <-> clookup m k = true).
  { destruct OK as [->|(addr & I)].
    - exists (fun _ => []). split; [apply cinv_root|]. intro k. rewrite clookup_nil. split; [intro H; exfalso; apply (cview_root k H) | discriminate].
    - exists addr. assert (m0 = m) by (unfold m0; destruct m; [destruct (ci_root _ _ I); reflexivity | reflexivity]).
      rewrite H. split; [assumption|]. intro k. symmetry. apply clookup_view. assumption. }
  destruct H0 as (addr0 & I0 & V0).
  assert (Hn : forall q, clive m0 q -> q < cs_max_key m0 + 1).
  { intros q Lq. unfold clive in Lq. destruct (al_get m0 q) as [n|] eqn:E; [|contradiction]. pose proof (max_key_ge m0 q n E). lia. }
  destruct (cs_ins_go_spec key m0 0 (cs_max_key m0 + 1) addr0 Hb I0 (ci_root _ _ I0) Hn) as (m' & e & addr' & H & I' & V).
  exists m', e. split; [assumption|]. split; [exists addr'; assumption|].
  intro k. apply eq_true_iff_eq. rewrite (clookup_view m' addr' k I'), V, orb_true_iff, V0, (ci_addr0 _ _ I0), eqb_ln_true. reflexivity.
Qed.

(* ---------------------------------------------------------------- refinement *)
Definition CRel (st : cst) (S : keyset) : Prop :=
  COK (c_map st) /\ (forall k, clookup (c_map st) k = mem k S) /\ NoDup S /\ c_len st = N.of_nat (length S).

Lemma crel_empty : CRel c_empty [].
Proof. split; [left; reflexivity|]. split; [intro k; apply clookup_nil|]. split; [constructor | reflexivity]. Qed.

Lemma crel_insert st S k : bytes_ok k -> CRel st S ->
  snd (cs_insert_top st k) = true /\ CRel (fst (cs_insert_top st k)) (s_insert k S).
Proof.
  intros Hb (OK & Hl & Hnd & Hlen). unfold cs_insert_top. rewrite cs_contains_lookup, Hl.
  destruct (cs_insert_spec (c_map st) k Hb OK) as (m' & e & H & Ha & Hlk). rewrite H. cbn [fst snd].
  split; [reflexivity|]. split; [right; assumption|]. cbn [c_map c_len]. split.
  { intro k'. rewrite Hlk, Hl, mem_insert. reflexivity. }
  unfold s_insert. destruct (mem k S) eqn:M.
  - split; assumption.
  - split; [constructor; [apply mem_false; assumption | assumption]|].
    cbn [length]. rewrite Hlen, Nat2N.inj_succ. lia.
Qed.

(* ---------------------------------------------------------------- keys() / keys_with_prefix() *)
Lemma cs_collect_prefix m : forall fuel st pr k, In k (cs_collect fuel m st pr) -> exists k2, k = rev pr ++ k2.
Proof.
  induction fuel as [|f IH]; intros st pr k H; cbn [cs_collect] in H; [destruct H|].
  destruct (al_get m st) as [n|]; [|destruct H]. apply in_app_iff in H as [H|H].
  - destruct (s_final n); [|destruct H]. destruct H as [<-|[]]. exists []. rewrite app_nil_r. reflexivity.
  - apply in_flat_map in H as ([s c] & _ & H). apply IH in H as (k3 & ->). cbn [fst rev]. rewrite <- app_assoc.
    exists (s :: k3). reflexivity.
Qed.

Lemma cs_collect_spec m addr : CInv m addr -> forall fuel st pr k,
  In k (cs_collect fuel m st pr) <->
  exists k2, k = rev pr ++ k2 /\ g_lookup (cs_transition m) (cs_is_final m) st k2 = true /\ (length k2 < fuel)%nat.
Proof.
  intro I. induction fuel as [|f IH]; intros st pr k; cbn [cs_collect].
  - split; [intros [] | intros (k2 & _ & _ & H); lia].
  - destruct (al_get m st) as [n|] eqn:E.
    + pose proof (ci_syms _ _ I st n E) as ND.
      assert (Tr : forall s, cs_transition m st s = al_get (s_children n) s) by (intro s; unfold cs_transition; rewrite E; reflexivity).
      assert (Fi : cs_is_final m st = s_final n) by (unfold cs_is_final; rewrite E; reflexivity).
      rewrite in_app_iff, in_flat_map. split.
      * intros [HA|([s c] & Hin & Hk)].
        -- destruct (s_final n) eqn:F; [|destruct HA]. destruct HA as [<-|[]].
           exists []. rewrite app_nil_r. split; [reflexivity|]. split; [rewrite g_lookup_nil, Fi; reflexivity | cbn; lia].
        -- cbn [fst snd] in Hk. apply IH in Hk as (k3 & -> & L & Hl).
           exists (s :: k3). cbn [rev]. rewrite <- app_assoc. split; [reflexivity|].
           split; [rewrite g_lookup_cons, Tr, (al_in_get _ s c ND Hin); assumption | cbn [length]; lia].
      * intros (k2 & -> & L & Hl). destruct k2 as [|s k3].
        -- left. rewrite g_lookup_nil, Fi in L. rewrite L, app_nil_r. left; reflexivity.
        -- right. rewrite g_lookup_cons, Tr in L. destruct (al_get (s_children n) s) as [c|] eqn:Ec; [|discriminate].
           exists (s, c). split; [apply al_get_in; assumption|]. cbn [fst snd]. apply IH.
           exists k3. cbn [rev length] in *. rewrite <- app_assoc. split; [reflexivity|]. split; [assumption | lia].
    + split; [intros []|]. intros (k2 & _ & L & _). exfalso. destruct k2 as [|s k3].
      * rewrite g_lookup_nil in L. unfold cs_is_final in L. rewrite E in L. discriminate.
      * rewrite g_lookup_cons in L. unfold cs_transition in L. rewrite E in L. discriminate.
Qed.

Lemma cs_live_states m q : clive m q -> In q (map fst m).
Proof.
  unfold clive. destruct (al_get m q) as [n|] eqn:E; [|contradiction]. intros _.
  apply al_get_in in E. apply in_map_iff. exists (q, n). split; [reflexivity | assumption].
Qed.

Lemma cs_depth m addr st k2 e : CInv m addr -> clive m st -> g_walk (cs_transition m) st k2 = Some e -> (length k2 < length m)%nat.
Proof.
  intros I L W. pose proof (g_walk_depth N _ (cs_is_final m) (clive m) addr (map fst m) k2 st e (cs_ginv m addr I) (cs_live_states m) L W) as H.
  rewrite map_length in H. assumption.
Qed.

Lemma cs_keys_spec m addr k : CInv m addr -> (In k (cs_keys m) <-> clookup m k = true).
Proof.
  intro I. unfold cs_keys. rewrite (cs_collect_spec m addr I). cbn [rev app]. unfold clookup. split.
  - intros (k2 & -> & L & _). assumption.
  - intro L. exists k. split; [reflexivity|]. split; [assumption|].
    unfold g_lookup in L. destruct (g_walk (cs_transition m) 0 k) as [e|] eqn:W; [|discriminate].
    pose proof (cs_depth m addr 0 k e I (ci_root _ _ I) W). unfold cs_fuel. lia.
Qed.

Lemma cs_prefix_spec m addr p k : CInv m addr ->
  (In k (cs_prefix m p) <-> clookup m k = true /\ exists k2, k = p ++ k2).
Proof.
  intro I. unfold cs_prefix. rewrite cs_prefix_walk_walk. pose proof (cs_ginv m addr I) as G.
  destruct (g_walk (cs_transition m) 0 p) as [c|] eqn:W.
  - destruct (g_walk_addr _ _ _ _ G p 0 c (ci_root _ _ I) W) as [Lc _].
    rewrite (cs_collect_spec m addr I), rev_involutive. unfold clookup. split.
    + intros (k2 & -> & L & _). split; [rewrite g_lookup_app, W; assumption | exists k2; reflexivity].
    + intros [L (k2 & ->)]. exists k2. split; [reflexivity|]. rewrite g_lookup_app, W in L. split; [assumption|].
      unfold g_lookup in L. destruct (g_walk (cs_transition m) c k2) as [e|] eqn:W2; [|discriminate].
      pose proof (cs_depth m addr c k2 e I Lc W2). unfold cs_fuel. lia.
  - split; [intros []|]. intros [L (k2 & ->)]. unfold clookup in L. rewrite g_lookup_app, W in L. discriminate.
Qed.

Lemma nodup_fst_inj {A B} (l : list (A * B)) x y : NoDup (map fst l) -> In x l -> In y l -> fst x = fst y -> x = y.
Proof.
  induction l as [|a l IH]; intros ND Hx Hy E; [destruct Hx|].
  cbn [map] in ND. inversion ND as [|? ? Ha ND']; subst.
  destruct Hx as [<-|Hx]; destruct Hy as [<-|Hy]; try reflexivity.
  - exfalso. apply Ha. rewrite E. apply in_map. assumption.
  - exfalso. apply Ha. rewrite <- E. apply in_map. assumption.
  - apply IH; assumption.
Qed.
Lemma nodup_of_fst {A B} (l : list (A * B)) : NoDup (map fst l) -> NoDup l.
Proof.
  induction l as [|a l IH]; intro ND; [constructor|]. cbn [map] in ND. inversion ND as [|? ? Ha ND']; subst.
  constructor; [|apply IH; assumption]. intro H. apply Ha. apply in_map. assumption.
Qed.

Lemma cs_collect_nodup m addr : CInv m addr -> forall fuel st pr, NoDup (cs_collect fuel m st pr).
Proof.
  intro I. induction fuel as [|f IH]; intros st pr; cbn [cs_collect]; [constructor|].
  destruct (al_get m st) as [n|] eqn:E; [|constructor].
  pose proof (ci_syms _ _ I st n E) as ND.
  apply nodup_app_intro.
  - destruct (s_final n); [constructor; [intros []|constructor] | constructor].
  - apply NoDup_flat_map_disjoint.
    + apply nodup_of_fst; assumption.
    + intros e _. apply IH.
    + intros a b x Ha Hb Hxa Hxb.
      apply cs_collect_prefix in Hxa as (ka & Ea). apply cs_collect_prefix in Hxb as (kb & Eb).
      cbn [rev] in Ea, Eb. rewrite <- app_assoc in Ea, Eb. rewrite Ea in Eb. apply app_inv_head in Eb. cbn [app] in Eb.
      apply (nodup_fst_inj _ a b ND Ha Hb). inversion Eb. reflexivity.
  - intros x Hx Hin. destruct (s_final n); [|destruct Hx]. destruct Hx as [<-|[]].
    apply in_flat_map in Hin as (e & _ & He). apply cs_collect_prefix in He as (k2 & E2).
    cbn [rev] in E2. rewrite <- app_assoc in E2. rewrite <- (app_nil_r (rev pr)) in E2 at 1.
    apply app_inv_head in E2. discriminate.
Qed.

(* the observation is sorted: a permutation *)
Lemma sort_ins_perm k l : Permutation (sort_ins k l) (k :: l).
Proof.
  induction l as [|h t IH]; cbn [sort_ins]; [apply Permutation_refl|].
  destruct (lex_cmp k h); try apply Permutation_refl.
  apply Permutation_trans with (h :: k :: t); [apply perm_skip; assumption | apply perm_swap].
Qed.
Lemma sort_keys_perm l : Permutation (sort_keys l) l.
Proof.
  induction l as [|k l IH]; cbn [sort_keys fold_right]; [apply Permutation_refl|].
  fold (sort_keys l). apply Permutation_trans with (k :: sort_keys l); [apply sort_ins_perm | apply perm_skip; assumption].
Qed.

Lemma cok_keys m k : COK m -> (In k (cs_keys m) <-> clookup m k = true).
Proof.
  intros [->|(addr & I)]; [|apply (cs_keys_spec m addr k I)].
  rewrite clookup_nil. split; [intros [] | discriminate].
Qed.
Lemma cok_prefix m p k : COK m -> (In k (cs_prefix m p) <-> clookup m k = true /\ exists k2, k = p ++ k2).
Proof.
  intros [->|(addr & I)]; [|apply (cs_prefix_spec m addr p k I)].
  rewrite clookup_nil. unfold cs_prefix. destruct p as [|s p]; cbn.
  - split; [intros [] | intros [H _]; discriminate].
  - split; [intros [] | intros [H _]; discriminate].
Qed.

Lemma cs_keys_enumerates_proof st S k : CRel st S -> (In k (sort_keys (cs_keys (c_map st))) <-> In k S).
Proof.
  intros (OK & Hl & _).
  assert (P : In k (sort_keys (cs_keys (c_map st))) <-> In k (cs_keys (c_map st))).
  { split; apply Permutation_in; [apply sort_keys_perm | apply Permutation_sym, sort_keys_perm]. }
  rewrite P, (cok_keys _ k OK), Hl. apply mem_In.
Qed.
Lemma cs_prefix_query_exact_proof st S p k : CRel st S ->
  (In k (sort_keys (cs_prefix (c_map st) p)) <-> In k S /\ exists k2, k = p ++ k2).
Proof.
  intros (OK & Hl & _).
  assert (P : In k (sort_keys (cs_prefix (c_map st) p)) <-> In k (cs_prefix (c_map st) p)).
  { split; apply Permutation_in; [apply sort_keys_perm | apply Permutation_sym, sort_keys_perm]. }
  rewrite P, (cok_prefix _ p k OK), Hl, mem_In. reflexivity.
Qed.
Lemma cs_keys_no_duplicates_proof st S p : CRel st S ->
  NoDup (sort_keys (cs_keys (c_map st))) /\ NoDup (sort_keys (cs_prefix (c_map st) p)).
Proof.
  intros ([E|(addr & I)] & _).
  - rewrite E. split; [constructor|]. unfold cs_prefix. destruct p; cbn; constructor.
  - split.
    + apply (Permutation_NoDup (Permutation_sym (sort_keys_perm _))). apply (cs_collect_nodup _ addr I).
    + apply (Permutation_NoDup (Permutation_sym (sort_keys_perm _))). unfold cs_prefix.
      destruct (cs_prefix_walk (c_map st) 0 p); [apply (cs_collect_nodup _ addr I) | constructor].
Qed.

(* ---------------------------------------------------------------- impl Clone *)
Lemma fold_insert_crel : forall L st S, Forall bytes_ok L -> CRel st S ->
  CRel (fold_left (fun s k => fst (cs_insert_top s k)) L st) (fold_left (fun S0 k => s_insert k S0) L S).
Proof.
  induction L as [|k L IH]; intros st S Hb R; cbn [fold_left]; [assumption|].
  inversion Hb as [|? ? Hk HL]; subst. apply IH; [assumption|]. apply crel_insert; assumption.
Qed.

Lemma cs_keys_bytes m k : COK m -> In k (cs_keys m) -> bytes_ok k.
Proof.
  intros [->|(addr & I)] Hk; [destruct Hk|]. apply (cs_keys_spec m addr k I) in Hk. unfold clookup, g_lookup in Hk.
  destruct (g_walk (cs_transition m) 0 k) as [e|] eqn:W; [|discriminate].
  apply (g_walk_bytes _ _ _ _ (cs_ginv m addr I) k 0 e (ci_root _ _ I) W).
Qed.

Lemma cs_clone_preserves_proof st S : CRel st S -> CRel (cs_clone st) S.
Proof.
  intro R. pose proof R as (OK & Hl & Hnd & Hlen).
  set (L := cs_keys (c_map st)).
  assert (HL : forall k, In k L <-> In k S) by (intro k; unfold L; rewrite (cok_keys _ k OK), Hl; apply mem_In).
  assert (Hb : Forall bytes_ok L) by (apply Forall_forall; intros k Hk; apply (cs_keys_bytes _ k OK Hk)).
  pose proof (fold_insert_crel L c_empty [] Hb crel_empty) as (OK' & Hl' & _ & _).
  unfold cs_clone. fold L. split; [assumption|]. split; [|split; assumption].
  intro k. cbn [c_map]. rewrite Hl', mem_fold_insert. cbn [mem existsb orb].
  apply bool_eq_iff. rewrite !mem_In. apply HL.
Qed.

(* ---------------------------------------------------------------- histories *)
(* every code except remove (`_ => Ok(false)`: sparse_remove_refuted / cs_remove_refuted) and the two enumerations *)
Definition cs_op_ok (op : N * list N) : Prop := op_ok op /\ fst op <> 1.

Lemma cs_step_refines st S op : cs_op_ok op -> CRel st S ->
  snd (cs_step st op) = snd (s_step S op) /\ CRel (fst (cs_step st op)) (fst (s_step S op)).
Proof.
  intros ((Hb & H4 & H5) & H1) R. destruct op as [code k]. cbn [fst snd] in *.
  pose proof R as (OK & Hl & _ & Hlen).
  destruct code as [|[[[[p|p|]|[p|p|]|]|[[p|p|]|[p|p|]|]|]|[[p|p|]|[p|p|]|]|]];
    try (exfalso; apply H4; reflexivity); try (exfalso; apply H5; reflexivity);
    try (exfalso; apply H1; reflexivity);
    cbn [cs_step s_step fst snd]; try (split; [reflexivity | assumption]).
  - (* 0 insert *)
    destruct (crel_insert st S k Hb R) as [Hok R'].
    destruct (cs_insert_top st k) as [st' ok]. cbn [fst snd] in *. subst ok. split; [reflexivity | assumption].
  - (* 7 longest_prefix *)
    split; [|assumption]. f_equal. unfold cs_longest_prefix.
    apply (fsa_longest_prefix_correct_proof N (cs_transition (c_map st)) (cs_is_final (c_map st)) 0 S Hl k).
  - (* 3 len *) split; [|assumption]. rewrite Hlen. reflexivity.
  - (* 6 accepts *)
    split; [|assumption]. f_equal. unfold cs_accepts.
    apply (fsa_longest_prefix_correct_proof N (cs_transition (c_map st)) (cs_is_final (c_map st)) 0 S Hl k).
  - (* 8 * p *) destruct p as [p|p|]; try (split; [reflexivity | assumption]).
    split; [reflexivity | apply cs_clone_preserves_proof; assumption].
  - (* 2 contains *) split; [|assumption]. rewrite cs_contains_lookup, Hl. reflexivity.
Qed.

Lemma cs_run_refines : forall ops st S, Forall cs_op_ok ops -> CRel st S ->
  cs_run st ops = s_run S ops /\ CRel (cs_exec st ops) (s_exec S ops).
Proof.
  induction ops as [|op t IH]; intros st S Hok R; cbn [cs_run s_run cs_exec s_exec]; [split; [reflexivity | assumption]|].
  inversion Hok as [|? ? Hop Ht]; subst.
  destruct (cs_step_refines st S op Hop R) as [Ho R'].
  destruct (cs_step st op) as [st' o] eqn:E1. destruct (s_step S op) as [S' o'] eqn:E2.
  cbn [fst snd] in *. subst o'. destruct (IH st' S' Ht R') as [Hr Hx].
  split; [rewrite Hr; reflexivity | assumption].
Qed.

Lemma cs_refines_set_proof : forall ops, Forall cs_op_ok ops -> cs_run c_empty ops = s_run [] ops.
Proof. intros ops H. apply (cs_run_refines ops c_empty [] H crel_empty). Qed.
Lemma cs_reachable_related_proof : forall ops, Forall cs_op_ok ops -> CRel (cs_exec c_empty ops) (s_exec [] ops).
Proof. intros ops H. apply (cs_run_refines ops c_empty [] H crel_empty). Qed.

Example cs_hyp_example :
  Forall cs_op_ok [(0, [97]); (0, [97; 98]); (0, []); (8, []); (0, [97; 0; 255]); (7, [97; 98; 99])] /\
  c_len (cs_exec c_empty [(0, [97]); (0, [97; 98]); (0, []); (8, []); (0, [97; 0; 255]); (7, [97; 98; 99])]) = 4.
Proof. split; [repeat constructor; cbn; try lia; discriminate | vm_compute; reflexivity]. Qed.

Lemma cs_remove_refuted_proof : exists ops, Forall op_ok ops /\ cs_run c_empty ops <> s_run [] ops.
Proof.
  exists [(0, [97]); (1, [97]); (2, [97])]. split.
  - repeat constructor; cbn; try lia; discriminate.
  - vm_compute. discriminate.
Qed.

(* histories with remove calls, as the code treats them *)
Lemma cs_run_refines_nr : forall ops st S, Forall op_ok ops -> CRel st S -> cs_run st ops = s_run_nr S ops.
Proof.
  induction ops as [|op t IH]; intros st S Hok R; cbn [cs_run s_run_nr]; [reflexivity|].
  inversion Hok as [|? ? Hop Ht]; subst.
  unfold s_step_nr. destruct (N.eqb_spec (fst op) 1) as [E|E].
  - destruct op as [code k]. cbn [fst] in E. subst code. cbn [cs_step]. f_equal. apply IH; assumption.
  - destruct (cs_step_refines st S op (conj Hop E) R) as [Ho R'].
    destruct (cs_step st op) as [st' o] eqn:E1. destruct (s_step S op) as [S' o'] eqn:E2.
    cbn [fst snd] in *. subst o'. f_equal. apply IH; assumption.
Qed.
Lemma cs_refines_set_noop_remove_proof : forall ops, Forall op_ok ops -> cs_run c_empty ops = s_run_nr [] ops.
Proof. intros ops H. apply (cs_run_refines_nr ops c_empty [] H crel_empty). Qed.
