(* C05: the LOUDS storage as written (a flat buffer of [len][bytes] records) refines the set for
   insert / contains / len over keys of at most 255 bytes; the compressed-sparse storage refines it for
   histories without remove; refutation witnesses for the recorded findings. *)
From ZV.Common Require Import Base Run.
From ZV.C05 Require Import Model Spec ProofsBase ProofsInsert ProofsRemove ProofsRefine.
Open Scope N_scope.

Definition enc (k : list N) : list N := nlen k :: k.
Definition flat (L : list (list N)) : list N := flat_map enc L.

Lemma nlen_to_nat {A} (l : list A) : N.to_nat (nlen l) = length l.
Proof. rewrite nlen_length. apply Nat2N.id. Qed.

Lemma firstn_app_exact {A} (a b : list A) : firstn (length a) (a ++ b) = a.
Proof. induction a as [|x a IH]; cbn [length firstn app]; [destruct b; reflexivity | rewrite IH; reflexivity]. Qed.
Lemma skipn_app_exact {A} (a b : list A) : skipn (length a) (a ++ b) = b.
Proof. induction a as [|x a IH]; cbn [length skipn app]; [reflexivity | assumption]. Qed.

Lemma eqb_ln_sym a b : eqb_ln a b = eqb_ln b a.
Proof.
  destruct (eqb_ln a b) eqn:E.
  - apply eqb_ln_true in E; subst. symmetry; apply eqb_ln_refl.
  - symmetry. apply eqb_ln_false. apply eqb_ln_false in E. congruence.
Qed.

Lemma scan_flat : forall L fuel key, (length (flat L) <= fuel)%nat -> louds_scan fuel (flat L) key = mem key L.
Proof.
  induction L as [|k1 L IH]; intros fuel key Hf.
  - destruct fuel; reflexivity.
  - unfold flat in *. cbn [flat_map] in *. unfold enc in Hf at 1. unfold enc at 1. cbn [app length] in Hf.
    destruct fuel as [|f]; [lia|]. cbn [louds_scan app].
    rewrite nlen_to_nat.
    replace (length (k1 ++ flat_map enc L) <? length k1)%nat with false
      by (symmetry; apply Nat.ltb_ge; rewrite app_length; lia).
    rewrite firstn_app_exact, skipn_app_exact.
    unfold mem. cbn [existsb]. fold (mem key L).
    destruct ((nlen k1 =? nlen key) && eqb_ln k1 key)%bool eqn:B.
    + apply andb_true_iff in B as [_ B]. rewrite eqb_ln_sym, B. reflexivity.
    + rewrite IH by (rewrite app_length in Hf; lia).
      assert (Hk : eqb_ln key k1 = false).
      { rewrite eqb_ln_sym. apply andb_false_iff in B as [B|B]; [|assumption].
        apply eqb_ln_false. intro; subst. rewrite N.eqb_refl in B. discriminate. }
      rewrite Hk. reflexivity.
Qed.

Definition short (k : list N) : Prop := nlen k <= 255.

Definition RelL (st : lst) (S : keyset) : Prop :=
  exists L, l_data st = flat L /\ (forall k, mem k L = mem k S) /\ Forall short L /\
            NoDup S /\ l_len st = N.of_nat (length S).

Lemma flat_nil_iff L : flat L = [] -> L = [].
Proof. destruct L; [reflexivity | discriminate]. Qed.

Lemma louds_contains_spec L key : Forall short L -> louds_contains (flat L) key = mem key L.
Proof.
  intro Hs. unfold louds_contains. destruct (flat L) as [|b d] eqn:E.
  - apply flat_nil_iff in E. subst. reflexivity.
  - rewrite <- E. destruct (255 <? nlen key) eqn:B.
    + symmetry. apply mem_false. intro Hin. rewrite Forall_forall in Hs. specialize (Hs _ Hin).
      unfold short in Hs. apply N.ltb_lt in B. lia.
    + apply scan_flat. lia.
Qed.

Lemma flat_app L k : flat (L ++ [k]) = flat L ++ nlen k :: k.
Proof. unfold flat. rewrite flat_map_app. cbn [flat_map enc]. rewrite app_nil_r. reflexivity. Qed.

Lemma mem_app_one k' L k : mem k' (L ++ [k]) = (mem k' L || eqb_ln k' k)%bool.
Proof. unfold mem. rewrite existsb_app. cbn [existsb]. rewrite orb_false_r. reflexivity. Qed.

(* histories of the LOUDS theorem: insert of keys up to 255 bytes, contains of anything, len *)
Definition louds_op_ok (op : N * list N) : Prop :=
  (fst op = 0 /\ short (snd op)) \/ fst op = 2 \/ fst op = 3.

Lemma l_step_refines st S op : louds_op_ok op -> RelL st S ->
  snd (l_step st op) = snd (s_step S op) /\ RelL (fst (l_step st op)) (fst (s_step S op)).
Proof.
  intros Hop R. pose proof R as (L & Hd & Hm & Hs & Hnd & Hlen). destruct op as [code k]. unfold louds_op_ok in Hop. cbn [fst snd] in Hop.
  destruct Hop as [[-> Hk]|[->| ->]]; cbn [l_step s_step fst snd].
  - (* insert *)
    unfold louds_insert. rewrite Hd, louds_contains_spec, Hm by assumption.
    unfold s_insert. destruct (mem k S) eqn:M; cbn [fst snd].
    + split; [reflexivity|]. exists L. cbn [l_data l_len]. repeat split; assumption.
    + replace (255 <? nlen k) with false by (symmetry; apply N.ltb_ge; exact Hk).
      cbn [fst snd]. split; [reflexivity|]. exists (L ++ [k]). cbn [l_data l_len].
      split; [symmetry; apply flat_app|]. split.
      { intro k'. rewrite mem_app_one, Hm. unfold mem at 2. cbn [existsb]. fold (mem k' S). apply orb_comm. }
      split; [apply Forall_app; split; [assumption | constructor; [assumption | constructor]]|].
      split; [constructor; [apply mem_false; assumption | assumption]|].
      cbn [length]. rewrite Hlen, Nat2N.inj_succ. lia.
  - (* contains *) split; [|assumption]. rewrite Hd, louds_contains_spec, Hm by assumption. reflexivity.
  - (* len *) split; [|assumption]. rewrite Hlen. reflexivity.
Qed.

Lemma relL_empty : RelL (mkL [] 0) [].
Proof. exists []. repeat split; try constructor. Qed.

Lemma louds_refines_set_proof : forall ops, Forall louds_op_ok ops -> l_run (mkL [] 0) ops = s_run [] ops.
Proof.
  intros ops. generalize relL_empty. generalize (mkL [] 0) as st. generalize (@nil (list N)) as S.
  induction ops as [|op t IH]; intros S st R Hok; cbn [l_run s_run]; [reflexivity|].
  inversion Hok as [|? ? Hop Ht]; subst.
  destruct (l_step_refines st S op Hop R) as [Ho R'].
  destruct (l_step st op) as [st' o]. destruct (s_step S op) as [S' o']. cbn [fst snd] in *. subst o'.
  rewrite (IH S' st' R' Ht). reflexivity.
Qed.

Example louds_hyp_example : Forall louds_op_ok [(0, [97]); (0, []); (0, [97; 0]); (2, [97; 0]); (3, [])].
Proof.
  repeat (apply Forall_cons || apply Forall_nil); unfold louds_op_ok, short; cbn [fst snd];
    first [ left; split; [reflexivity | vm_compute; discriminate] | right; left; reflexivity | right; right; reflexivity ].
Qed.

(* ---------------------------------------------------------------- compressed-sparse storage: no remove *)
Lemma p_step_no_remove st op : fst op <> 1 -> p_step false st op = p_step true st op.
Proof.
  destruct op as [code k]. cbn [fst]. intro H.
  destruct code as [|[[[p|p|]|[p|p|]|]|[[p|p|]|[p|p|]|]|]]; try reflexivity. exfalso; apply H; reflexivity.
Qed.

Lemma sparse_refines_set_proof : forall ops,
  Forall (fun op => op_ok op /\ fst op <> 1) ops -> p_run false p_empty ops = s_run [] ops.
Proof.
  intros ops H.
  assert (E : forall st, p_run false st ops = p_run true st ops).
  { induction ops as [|op t IH]; intro st; cbn [p_run]; [reflexivity|].
    inversion H as [|? ? [_ Hop] Ht]; subst. rewrite (p_step_no_remove st op Hop).
    destruct (p_step true st op) as [st' o]. rewrite (IH Ht). reflexivity. }
  rewrite E. apply ptrie_refines_set_proof.
  apply Forall_impl with (2 := H). intros op [Hop _]. assumption.
Qed.

(* ---------------------------------------------------------------- recorded findings, on the faithful models *)
Lemma critbit_stub_refuted_proof : exists ops, Forall op_ok ops /\ c_run 0 ops <> s_run [] ops.
Proof.
  exists [(0, [97]); (2, [97]); (0, [97]); (3, [])]. split.
  - repeat constructor; cbn; try lia; discriminate.
  - vm_compute. discriminate.
Qed.

Lemma sparse_remove_refuted_proof : exists ops, Forall op_ok ops /\ p_run false p_empty ops <> s_run [] ops.
Proof.
  exists [(0, [97]); (1, [97]); (2, [97])]. split.
  - repeat constructor; cbn; try lia; discriminate.
  - vm_compute. discriminate.
Qed.

Lemma louds_remove_refuted_proof : exists ops, Forall op_ok ops /\ l_run (mkL [] 0) ops <> s_run [] ops.
Proof.
  exists [(0, [97]); (1, [97]); (2, [97])]. split.
  - repeat constructor; cbn; try lia; discriminate.
  - vm_compute. discriminate.
Qed.

Lemma louds_fsa_refuted_proof : exists ops, Forall op_ok ops /\ l_run (mkL [] 0) ops <> s_run [] ops.
Proof.
  exists [(0, [97]); (6, [97]); (7, [97; 98])]. split.
  - repeat constructor; cbn; try lia; discriminate.
  - vm_compute. discriminate.
Qed.

Lemma louds_long_key_refuted_proof :
  exists k, bytes_ok k /\ nlen k = 256 /\ l_run (mkL [] 0) [(0, k); (2, k)] <> s_run [] [(0, k); (2, k)].
Proof.
  exists (repeat 0 256). split; [apply Forall_forall; intros x Hx; apply repeat_spec in Hx; subst; reflexivity|].
  split; [vm_compute; reflexivity | vm_compute; discriminate].
Qed.
