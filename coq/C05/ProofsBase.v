(* C05: basic facts about the node vector, the shape invariant, and walks. *)
From ZV.Common Require Import Base Run.
From ZV.C05 Require Import Model.
Open Scope N_scope.

Lemma eqb_ln_true a b : eqb_ln a b = true <-> a = b.
Proof.
  revert b; induction a as [|x a IH]; intros [|y b]; cbn [eqb_ln]; split; intro H; try discriminate; auto.
  - apply andb_true_iff in H as [H1 H2]. apply N.eqb_eq in H1. apply IH in H2. subst; reflexivity.
  - inversion H; subst. apply andb_true_iff; split; [apply N.eqb_refl | apply IH; reflexivity].
Qed.
Lemma eqb_ln_refl a : eqb_ln a a = true.
Proof. apply eqb_ln_true; reflexivity. Qed.
Lemma eqb_ln_false a b : eqb_ln a b = false <-> a <> b.
Proof.
  split; intro H.
  - intro E. apply eqb_ln_true in E. congruence.
  - destruct (eqb_ln a b) eqn:E; [apply eqb_ln_true in E; contradiction | reflexivity].
Qed.

(* ---------------------------------------------------------------- upd *)
Lemma upd_length ns i f : length (upd ns i f) = length ns.
Proof. revert i; induction ns as [|n t IH]; intros [|j]; cbn [upd length]; auto. Qed.

Lemma nth_upd ns i f j :
  nth j (upd ns i f) default_node =
  if (Nat.eqb j i && Nat.ltb i (length ns))%bool then f (nth i ns default_node) else nth j ns default_node.
Proof.
  revert i j; induction ns as [|n t IH]; intros i j.
  - cbn [upd length]. replace (Nat.ltb i 0) with false by (destruct i; reflexivity).
    rewrite andb_false_r. reflexivity.
  - destruct i as [|i], j as [|j]; cbn [upd nth length]; try reflexivity.
    rewrite IH. reflexivity.
Qed.

Lemma upd_oob ns i f : (length ns <= i)%nat -> upd ns i f = ns.
Proof.
  revert i; induction ns as [|n t IH]; intros i H; [destruct i; reflexivity|].
  destruct i as [|i]; cbn [length] in H; [lia|]. cbn [upd]. rewrite IH by lia. reflexivity.
Qed.

Lemma child_oob ns i s : (length ns <= i)%nat -> child ns i s = None.
Proof. intro H. unfold child. rewrite nth_overflow by assumption. reflexivity. Qed.
Lemma fin_oob ns i : (length ns <= i)%nat -> fin ns i = false.
Proof. intro H. unfold fin. rewrite nth_overflow by assumption. reflexivity. Qed.

Lemma child_upd_child ns i s c j x :
  (i < length ns)%nat ->
  child (upd ns i (set_child s c)) j x = if (Nat.eqb j i && (x =? s))%bool then c else child ns j x.
Proof.
  intro H. unfold child. rewrite nth_upd.
  apply Nat.ltb_lt in H. rewrite H, andb_true_r.
  destruct (Nat.eqb j i) eqn:E; cbn [andb]; [|reflexivity].
  apply Nat.eqb_eq in E; subst j. cbn [set_child children].
  destruct (x =? s); reflexivity.
Qed.
Lemma fin_upd_child ns i s c j : fin (upd ns i (set_child s c)) j = fin ns j.
Proof.
  unfold fin. rewrite nth_upd.
  destruct (Nat.eqb j i) eqn:E; cbn [andb]; [|reflexivity].
  apply Nat.eqb_eq in E; subst j. destruct (Nat.ltb i (length ns)); reflexivity.
Qed.
Lemma child_upd_final ns i b j x : child (upd ns i (set_final b)) j x = child ns j x.
Proof.
  unfold child. rewrite nth_upd.
  destruct (Nat.eqb j i) eqn:E; cbn [andb]; [|reflexivity].
  apply Nat.eqb_eq in E; subst j. destruct (Nat.ltb i (length ns)); reflexivity.
Qed.
Lemma fin_upd_final ns i b j :
  (i < length ns)%nat -> fin (upd ns i (set_final b)) j = if Nat.eqb j i then b else fin ns j.
Proof.
  intro H. unfold fin. rewrite nth_upd. apply Nat.ltb_lt in H. rewrite H, andb_true_r.
  destruct (Nat.eqb j i) eqn:E; [|reflexivity]. reflexivity.
Qed.
Lemma child_snoc ns j x : child (ns ++ [default_node]) j x = child ns j x.
Proof.
  unfold child. destruct (Nat.lt_ge_cases j (length ns)) as [H|H].
  - rewrite app_nth1 by assumption. reflexivity.
  - rewrite (nth_overflow ns) by assumption.
    destruct (Nat.eq_dec j (length ns)) as [->|Hn].
    + rewrite nth_middle. reflexivity.
    + rewrite nth_overflow; [reflexivity|]. rewrite app_length; cbn [length]; lia.
Qed.
Lemma fin_snoc ns j : fin (ns ++ [default_node]) j = fin ns j.
Proof.
  unfold fin. destruct (Nat.lt_ge_cases j (length ns)) as [H|H].
  - rewrite app_nth1 by assumption. reflexivity.
  - rewrite (nth_overflow ns) by assumption.
    destruct (Nat.eq_dec j (length ns)) as [->|Hn].
    + rewrite nth_middle. reflexivity.
    + rewrite nth_overflow; [reflexivity|]. rewrite app_length; cbn [length]; lia.
Qed.

(* ---------------------------------------------------------------- shape invariant *)
(* every link goes to an existing node whose ghost address is the parent's address extended by the
   edge symbol: the vector is a forest of paths hanging off the root, symbols are bytes *)
Definition inv (ns : list node) (addr : nat -> list N) : Prop :=
  addr 0%nat = [] /\
  forall i s c, child ns i s = Some c -> (c < length ns)%nat /\ addr c = addr i ++ [s] /\ s < 256.

Lemma inv_nil addr : addr 0%nat = [] -> inv [] addr.
Proof. intro H; split; [assumption|]. intros i s c Hc. rewrite child_oob in Hc by (cbn; lia). discriminate. Qed.

Lemma inv_root addr : addr 0%nat = [] -> inv [default_node] addr.
Proof.
  intro H; split; [assumption|]. intros i s c Hc. unfold child in Hc.
  destruct i as [|[|i]]; cbn in Hc; discriminate.
Qed.

(* removing links keeps the invariant *)
Lemma inv_shrink ns ns' addr :
  length ns' = length ns ->
  (forall i s, child ns' i s = child ns i s \/ child ns' i s = None) ->
  inv ns addr -> inv ns' addr.
Proof.
  intros Hl Hc [H0 H]. split; [assumption|]. intros i s c E.
  destruct (Hc i s) as [E'|E']; [|congruence]. rewrite E' in E. rewrite Hl. apply H; assumption.
Qed.

Lemma walk_addr ns addr : inv ns addr -> forall k i e, walk ns i k = Some e -> addr e = addr i ++ k.
Proof.
  intros [_ H] k; induction k as [|s k IH]; intros i e W; cbn [walk] in W.
  - inversion W; subst. rewrite app_nil_r. reflexivity.
  - destruct (child ns i s) as [c|] eqn:E; [|discriminate].
    apply IH in W. destruct (H _ _ _ E) as (_ & Ha & _). rewrite W, Ha, <- app_assoc. reflexivity.
Qed.

Lemma walk_lt ns addr : inv ns addr -> forall k i e, (i < length ns)%nat -> walk ns i k = Some e -> (e < length ns)%nat.
Proof.
  intros [_ H] k; induction k as [|s k IH]; intros i e Hi W; cbn [walk] in W.
  - inversion W; subst; assumption.
  - destruct (child ns i s) as [c|] eqn:E; [|discriminate].
    apply (IH c); [|assumption]. apply (H _ _ _ E).
Qed.

Lemma walk_inj ns addr k1 k2 e : inv ns addr -> walk ns 0%nat k1 = Some e -> walk ns 0%nat k2 = Some e -> k1 = k2.
Proof.
  intros I W1 W2. pose proof (walk_addr _ _ I _ _ _ W1) as A1. pose proof (walk_addr _ _ I _ _ _ W2) as A2.
  destruct I as [H0 _]. rewrite H0 in A1, A2. cbn [app] in A1, A2. congruence.
Qed.

Lemma walk_app ns i a b : walk ns i (a ++ b) = match walk ns i a with Some m => walk ns m b | None => None end.
Proof.
  revert i; induction a as [|s a IH]; intro i; cbn [app walk]; [reflexivity|].
  destruct (child ns i s); [apply IH | reflexivity].
Qed.

Lemma walk_bytes ns addr : inv ns addr -> forall k i e, walk ns i k = Some e -> bytes_ok k.
Proof.
  intros [_ H] k; induction k as [|s k IH]; intros i e W; cbn [walk] in W; [constructor|].
  destruct (child ns i s) as [c|] eqn:E; [|discriminate].
  constructor; [apply (H _ _ _ E) | apply (IH _ _ W)].
Qed.

(* walks and lookups depend on the vector only through child / fin *)
Lemma walk_ext ns ns' : (forall i s, child ns' i s = child ns i s) -> forall k i, walk ns' i k = walk ns i k.
Proof.
  intros H k; induction k as [|s k IH]; intro i; cbn [walk]; [reflexivity|].
  rewrite H. destruct (child ns i s); [apply IH | reflexivity].
Qed.

Lemma contains_lookup ns k : contains_nodes ns k = lookup ns 0%nat k.
Proof.
  destruct ns as [|n t]; [|reflexivity]. cbn [contains_nodes]. unfold lookup.
  destruct k as [|s k]; cbn [walk].
  - rewrite fin_oob by (cbn; lia). reflexivity.
  - rewrite child_oob by (cbn; lia). reflexivity.
Qed.

Lemma fsa_accepts_lookup ns k : fsa_accepts ns k = lookup ns 0%nat k.
Proof.
  unfold fsa_accepts, lookup. generalize 0%nat as i. induction k as [|s k IH]; intro i; cbn [fsa_accepts_go walk]; [reflexivity|].
  destruct (child ns i s); [apply IH | reflexivity].
Qed.
