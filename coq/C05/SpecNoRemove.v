(* C05 spec layer, variant: the reference set for the storages whose ZiporaTrie::remove is `_ => Ok(false)`
   (double array, compressed sparse, LOUDS): remove changes nothing and answers false.  This is NOT the property
   (the property demands Spec.s_step; the difference is the recorded finding remove_unsupported_...), it states
   exactly how those storages behave on histories that contain remove calls. *)
From ZV.Common Require Import Base Run.
From ZV.C05 Require Import Model Spec.
Open Scope N_scope.

Definition s_step_nr (S : keyset) (op : N * list N) : keyset * obs :=
  if fst op =? 1 then (S, ob_bool false) else s_step S op.
Fixpoint s_run_nr (S : keyset) (ops : list (N * list N)) : list obs :=
  match ops with
  | [] => []
  | op :: t => let '(S', o) := s_step_nr S op in o :: s_run_nr S' t
  end.
