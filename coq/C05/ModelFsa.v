(* C05 mechanism model (definitions only): the DEFAULT methods of src/fsa/traits.rs, written once over
   an arbitrary automaton  (St, root, transition, is_final)  exactly as the trait writes them:

     trait FiniteStateAutomaton { fn root(); fn is_final(state); fn transition(state, symbol);
        fn accepts(&self, input)         -- loop over input, `None => return false`, then is_final(state)
        fn longest_prefix(&self, input)  -- last_final updated BEFORE each transition, `None => return last_final`,
                                            final check after the loop }
     trait Trie { fn lookup(&self, key) -- state = transition(state, symbol)?  ...  if is_final(state) Some(state) else None
                  fn contains(&self, key) = lookup(key).is_some() }

   Every storage of ZiporaTrie (and every wrapper type) gets accepts / longest_prefix / Trie::lookup from these
   defaults; only transition / is_final differ.  The state type is a parameter, so the same definitions are
   instantiated with the node-vector trie (St = nat), the double array (St = N, positions) and the sparse
   hash-map trie (St = N, ids).  g_collect is the shape shared by the three collect_keys_*_recursive functions
   (depth-first, symbols 0..255 in order, fuel instead of the recursion depth). *)
From ZV.Common Require Import Base Run.
From ZV.C05 Require Import Model.
Open Scope N_scope.

Section Fsa.
  Variable St : Type.
  Variable trans : St -> N -> option St.      (* transition(state, symbol) *)
  Variable isfin : St -> bool.                (* is_final(state) *)

  (* the state reached from st along k, if every transition exists *)
  Fixpoint g_walk (st : St) (k : list N) : option St :=
    match k with
    | [] => Some st
    | s :: rest => match trans st s with Some c => g_walk c rest | None => None end
    end.

  (* Trie::lookup(key).is_some() = Trie::contains(key) *)
  Definition g_lookup (st : St) (k : list N) : bool :=
    match g_walk st k with Some e => isfin e | None => false end.

  (* FiniteStateAutomaton::accepts *)
  Fixpoint g_accepts_go (state : St) (input : list N) : bool :=
    match input with
    | [] => isfin state
    | s :: rest => match trans state s with Some c => g_accepts_go c rest | None => false end
    end.

  (* FiniteStateAutomaton::longest_prefix: i = index of the loop, last = last_final *)
  Fixpoint g_lp_go (state : St) (input : list N) (i : N) (last : option N) : option N :=
    match input with
    | [] => if isfin state then Some i else last
    | s :: rest =>
        let last' := if isfin state then Some i else last in
        match trans state s with
        | Some c => g_lp_go c rest (i + 1) last'
        | None => last'
        end
    end.

  (* depth-first enumeration in symbol order *)
  Fixpoint g_collect (fuel : nat) (st : St) (path_rev : list N) : list (list N) :=
    match fuel with
    | O => []
    | S f =>
        (if isfin st then [rev path_rev] else []) ++
        flat_map (fun s => match trans st s with
                           | Some c => g_collect f c (s :: path_rev)
                           | None => [] end) byte_range
    end.
End Fsa.

Arguments g_walk {St}.
Arguments g_lookup {St}.
Arguments g_accepts_go {St}.
Arguments g_lp_go {St}.
Arguments g_collect {St}.

Definition g_accepts {St} (trans : St -> N -> option St) (isfin : St -> bool) (root : St) (input : list N) : bool :=
  g_accepts_go trans isfin root input.
Definition g_longest_prefix {St} (trans : St -> N -> option St) (isfin : St -> bool) (root : St) (input : list N) : option N :=
  g_lp_go trans isfin root input 0 None.
