(* C05: remove_patricia_actual removes exactly the given key; the bottom-up unlinking of
   childless non-final nodes never detaches anything that is still needed. *)
From ZV.Common Require Import Base Run.
From ZV.C05 Require Import Model ProofsBase ProofsInsert.
Open Scope N_scope.

Lemma lookup_cons ns i s k :
  lookup ns i (s :: k) = match child ns i s with Some c => lookup ns c k | None => false end.
Proof. unfold lookup. cbn [walk]. destruct (child ns i s); reflexivity. Qed.
Lemma lookup_nil_key ns i : lookup ns i [] = fin ns i.
Proof. reflexivity. Qed.

(* the recorded path, deepest first: each entry still points at the next one or has been cleared *)
Fixpoint wchain (ns : list node) (rpath : list (nat * N)) (x : nat) : Prop :=
  match rpath with
  | [] => True
  | (p, s) :: rest => (child ns p s = None \/ child ns p s = Some x) /\ wchain ns rest p
  end.
Definition dead (ns : list node) (x : nat) : Prop := fin ns x = false /\ forall s, child ns x s = None.
Definition bounded (ns : list node) : Prop := forall i s c, child ns i s = Some c -> s < 256.

Lemma inv_bounded ns addr : inv ns addr -> bounded ns.
Proof. intros [_ H] i s c E. apply (H _ _ _ E). Qed.

Lemma rm_find_spec ns : forall key cur rpath,
  wchain ns rpath cur ->
  match rm_find ns cur key rpath with
  | Some (e, rp) => walk ns cur key = Some e /\ wchain ns rp e
  | None => walk ns cur key = None
  end.
Proof.
  induction key as [|s key IH]; intros cur rpath Hw; cbn [rm_find walk].
  - split; [reflexivity | assumption].
  - destruct (child ns cur s) as [c|] eqn:E; [|reflexivity].
    apply IH. cbn [wchain]. split; [right; assumption | assumption].
Qed.

Lemma lookup_dead ns x : dead ns x -> forall k, lookup ns x k = false.
Proof.
  intros [Hf Hc] [|s k]; [exact Hf|]. rewrite lookup_cons, Hc. reflexivity.
Qed.

Lemma in_byte_range s : s < 256 -> In s byte_range.
Proof.
  intro H. unfold byte_range. apply in_map_iff. exists (N.to_nat s). split; [apply N2Nat.id|].
  apply in_seq. lia.
Qed.

Lemma has_children_false ns i : bounded ns -> has_children ns i = false -> forall s, child ns i s = None.
Proof.
  intros Hb H s. destruct (child ns i s) as [c|] eqn:E; [|reflexivity]. exfalso.
  assert (Hs : s < 256) by (apply (Hb _ _ _ E)).
  unfold has_children in H.
  assert (T : existsb (fun s0 => match child ns i s0 with Some _ => true | None => false end) byte_range = true).
  { apply existsb_exists. exists s. split; [apply in_byte_range; assumption | rewrite E; reflexivity]. }
  congruence.
Qed.

Lemma unlink_child ns p s i x :
  child (upd ns p (set_child s None)) i x = child ns i x \/ child (upd ns p (set_child s None)) i x = None.
Proof.
  destruct (Nat.lt_ge_cases p (length ns)) as [H|H].
  - rewrite child_upd_child by assumption. destruct (Nat.eqb i p && (x =? s))%bool; [right|left]; reflexivity.
  - rewrite upd_oob by assumption. left; reflexivity.
Qed.

Lemma unlink_lookup ns p s x :
  (child ns p s = None \/ (child ns p s = Some x /\ dead ns x)) ->
  forall k i, lookup (upd ns p (set_child s None)) i k = lookup ns i k.
Proof.
  intros H. destruct (Nat.lt_ge_cases p (length ns)) as [Hp|Hp]; [|rewrite upd_oob by assumption; reflexivity].
  induction k as [|s0 k IH]; intro i.
  - rewrite !lookup_nil_key. apply fin_upd_child.
  - rewrite !lookup_cons, child_upd_child by assumption.
    destruct (Nat.eqb i p && (s0 =? s))%bool eqn:B.
    + apply andb_true_iff in B as [B1 B2]. apply Nat.eqb_eq in B1. apply N.eqb_eq in B2. subst i s0.
      destruct H as [E|[E D]]; rewrite E; [reflexivity|]. symmetry. apply lookup_dead; assumption.
    + destruct (child ns i s0); [apply IH | reflexivity].
Qed.

Lemma wchain_shrink ns ns' :
  (forall i s, child ns' i s = child ns i s \/ child ns' i s = None) ->
  forall rp x, wchain ns rp x -> wchain ns' rp x.
Proof.
  intros H rp; induction rp as [|[p s] rest IH]; intros x Hw; cbn [wchain] in *; [exact I|].
  destruct Hw as [Hc Hr]. split; [|apply IH; assumption].
  destruct (H p s) as [E|E]; [rewrite E; assumption | left; assumption].
Qed.

Lemma bounded_shrink ns ns' :
  (forall i s, child ns' i s = child ns i s \/ child ns' i s = None) -> bounded ns -> bounded ns'.
Proof.
  intros H Hb i s c E. destruct (H i s) as [E'|E']; [|congruence]. rewrite E' in E. apply (Hb _ _ _ E).
Qed.

(* unlink_preserves_others *)
Lemma cleanup_lookup : forall rp ns x,
  bounded ns -> wchain ns rp x -> dead ns x ->
  forall i k, lookup (cleanup ns rp) i k = lookup ns i k.
Proof.
  induction rp as [|[p s] rest IH]; intros ns x Hb Hw Hd i k; cbn [cleanup]; [reflexivity|].
  cbn [wchain] in Hw. destruct Hw as [Hc Hr].
  set (ns1 := upd ns p (set_child s None)).
  assert (U : forall k i, lookup ns1 i k = lookup ns i k).
  { apply (unlink_lookup ns p s x). destruct Hc as [E|E]; [left; assumption | right; split; assumption]. }
  destruct (has_children ns1 p || fin ns1 p)%bool eqn:B; [apply U|].
  apply orb_false_iff in B as [B1 B2].
  assert (S1 : forall i s0, child ns1 i s0 = child ns i s0 \/ child ns1 i s0 = None) by (intros; apply unlink_child).
  assert (Hb1 : bounded ns1) by (apply (bounded_shrink ns); assumption).
  rewrite (IH ns1 p Hb1).
  - apply U.
  - apply (wchain_shrink ns); assumption.
  - split; [assumption | apply has_children_false; assumption].
Qed.

Lemma cleanup_shrinks : forall rp ns,
  length (cleanup ns rp) = length ns /\
  forall i s, child (cleanup ns rp) i s = child ns i s \/ child (cleanup ns rp) i s = None.
Proof.
  induction rp as [|[p s] rest IH]; intro ns; cbn [cleanup].
  - split; [reflexivity | intros; left; reflexivity].
  - set (ns1 := upd ns p (set_child s None)).
    assert (L1 : length ns1 = length ns) by apply upd_length.
    destruct (has_children ns1 p || fin ns1 p)%bool.
    + split; [assumption | intros; apply unlink_child].
    + destruct (IH ns1) as [L C]. split; [lia|]. intros i x.
      destruct (C i x) as [E|E]; [|right; assumption]. rewrite E. apply unlink_child.
Qed.

Lemma clear_final_lookup ns addr key e :
  inv ns addr -> walk ns 0%nat key = Some e -> (e < length ns)%nat ->
  forall k', lookup (upd ns e (set_final false)) 0%nat k' = (lookup ns 0%nat k' && negb (eqb_ln k' key))%bool.
Proof.
  intros I W He k'. unfold lookup.
  rewrite (walk_ext ns) by (intros; apply child_upd_final).
  destruct (walk ns 0%nat k') as [q|] eqn:Wq; [|reflexivity].
  rewrite fin_upd_final by assumption.
  destruct (Nat.eqb q e) eqn:B.
  - apply Nat.eqb_eq in B; subst q.
    assert (k' = key) by (apply (walk_inj ns addr k' key e); assumption). subst k'.
    rewrite eqb_ln_refl. cbn [negb]. rewrite andb_false_r. reflexivity.
  - assert (Hk : eqb_ln k' key = false).
    { apply eqb_ln_false. intro; subst k'. rewrite W in Wq. inversion Wq; subst. rewrite Nat.eqb_refl in B. discriminate. }
    rewrite Hk. cbn [negb]. rewrite andb_true_r. reflexivity.
Qed.

Lemma absent_noop ns key : lookup ns 0%nat key = false ->
  forall k', lookup ns 0%nat k' = (lookup ns 0%nat k' && negb (eqb_ln k' key))%bool.
Proof.
  intros H k'. destruct (eqb_ln k' key) eqn:E.
  - apply eqb_ln_true in E; subst k'. rewrite H. reflexivity.
  - cbn [negb]. rewrite andb_true_r. reflexivity.
Qed.

(* remove_patricia_actual *)
Lemma remove_nodes_spec ns addr key ns' b :
  inv ns addr -> remove_nodes ns key = (ns', b) ->
  inv ns' addr /\ b = lookup ns 0%nat key /\
  forall k', lookup ns' 0%nat k' = (lookup ns 0%nat k' && negb (eqb_ln k' key))%bool.
Proof.
  intros I H. unfold remove_nodes in H.
  destruct ns as [|n t].
  { inversion H; subst. split; [assumption|]. split; [rewrite lookup_nil; reflexivity|].
    intro k'. rewrite lookup_nil. reflexivity. }
  set (ns := n :: t) in *.
  assert (H0 : (0 < length ns)%nat) by (cbn; lia).
  pose proof (rm_find_spec ns key 0%nat [] Logic.I) as R.
  destruct (rm_find ns 0%nat key []) as [[e rp]|].
  2:{ inversion H; subst. split; [assumption|].
      assert (L : lookup ns 0%nat key = false) by (unfold lookup; rewrite R; reflexivity).
      split; [symmetry; assumption | apply absent_noop; assumption]. }
  destruct R as [W Hw].
  assert (He : (e < length ns)%nat) by (apply (walk_lt ns addr I key 0%nat); assumption).
  assert (L : lookup ns 0%nat key = fin ns e) by (unfold lookup; rewrite W; reflexivity).
  destruct (fin ns e) eqn:Fe; cbn [negb] in H.
  2:{ inversion H; subst. split; [assumption|]. split; [symmetry; assumption | apply absent_noop; assumption]. }
  set (ns1 := upd ns e (set_final false)) in *.
  assert (C1 : forall i s, child ns1 i s = child ns i s) by (intros; apply child_upd_final).
  assert (I1 : inv ns1 addr) by (apply (inv_ext ns); [apply upd_length | assumption | assumption]).
  assert (CL : forall k', lookup ns1 0%nat k' = (lookup ns 0%nat k' && negb (eqb_ln k' key))%bool)
    by (apply (clear_final_lookup ns addr); assumption).
  destruct (has_children ns1 e) eqn:Hc.
  - inversion H; subst. split; [assumption|]. split; [symmetry; assumption | assumption].
  - inversion H; subst. destruct (cleanup_shrinks rp ns1) as [Ll Cc].
    split; [apply (inv_shrink ns1); assumption|]. split; [symmetry; assumption|].
    intro k'. rewrite (cleanup_lookup rp ns1 e).
    + apply CL.
    + apply (inv_bounded _ _ I1).
    + apply (wchain_shrink ns); [intros; left; apply C1 | assumption].
    + split.
      * unfold ns1. rewrite fin_upd_final by assumption. rewrite Nat.eqb_refl. reflexivity.
      * apply has_children_false; [apply (inv_bounded _ _ I1) | assumption].
Qed.

(* the hypotheses of cleanup_lookup are inhabited: root --97--> node 1, node 1 childless and non-final *)
Example cleanup_hyp_example :
  let ns := [mkNode (fun s => if s =? 97 then Some 1%nat else None) false; default_node] in
  bounded ns /\ wchain ns [(0%nat, 97)] 1%nat /\ dead ns 1%nat.
Proof.
  cbn zeta. split; [|split].
  - intros i s c H. unfold child in H. destruct i as [|[|i]]; cbn [nth children default_node] in H.
    + destruct (N.eqb_spec s 97) as [->|]; [reflexivity | discriminate].
    + discriminate.
    + destruct i; discriminate.
  - cbn [wchain]. split; [right; reflexivity | exact I].
  - split; [reflexivity | intro s; reflexivity].
Qed.
