(* C05: the default accepts / longest_prefix / lookup of src/fsa/traits.rs over ANY automaton whose language
   is a given set of keys; ghost-address invariant and DFS facts shared by the storages. *)
From ZV.Common Require Import Base Run.
From Coq Require Import FinFun.
From ZV.C05 Require Import Model ModelFsa Spec ProofsBase ProofsInsert ProofsRemove ProofsRefine ProofsKeys.
Open Scope N_scope.

Section Generic.
  Variable St : Type.
  Variable trans : St -> N -> option St.
  Variable isfin : St -> bool.

  Lemma g_walk_app i a b :
    g_walk trans i (a ++ b) = match g_walk trans i a with Some m => g_walk trans m b | None => None end.
  Proof.
    revert i; induction a as [|s a IH]; intro i; cbn [app g_walk]; [reflexivity|].
    destruct (trans i s); [apply IH | reflexivity].
  Qed.

  Lemma g_lookup_nil i : g_lookup trans isfin i [] = isfin i.
  Proof. reflexivity. Qed.
  Lemma g_lookup_cons i s k :
    g_lookup trans isfin i (s :: k) = match trans i s with Some c => g_lookup trans isfin c k | None => false end.
  Proof. unfold g_lookup. cbn [g_walk]. destruct (trans i s); reflexivity. Qed.
  Lemma g_lookup_app i a b :
    g_lookup trans isfin i (a ++ b) = match g_walk trans i a with Some m => g_lookup trans isfin m b | None => false end.
  Proof. unfold g_lookup. rewrite g_walk_app. destruct (g_walk trans i a); reflexivity. Qed.

  (* accepts is the lookup *)
  Lemma g_accepts_lookup i k : g_accepts_go trans isfin i k = g_lookup trans isfin i k.
  Proof.
    revert i; induction k as [|s k IH]; intro i; [reflexivity|].
    rewrite g_lookup_cons. cbn [g_accepts_go]. destruct (trans i s); [apply IH | reflexivity].
  Qed.

  (* longest_prefix against the executable spec, for any automaton whose language from `root` is S *)
  Lemma g_lp_go_spec root S : (forall k, g_lookup trans isfin root k = mem k S) ->
    forall rest pre st i last, g_walk trans root pre = Some st ->
      g_lp_go trans isfin st rest i last = s_lp_go S (rev pre) rest i last.
  Proof.
    intros H rest; induction rest as [|s r IH]; intros pre st i last W; cbn [g_lp_go s_lp_go];
      rewrite rev_involutive, <- H; unfold g_lookup at 1; rewrite W.
    - reflexivity.
    - destruct (trans st s) as [c|] eqn:E.
      + rewrite (IH (pre ++ [s]) c).
        * rewrite rev_unit. reflexivity.
        * rewrite g_walk_app, W. cbn [g_walk]. rewrite E. reflexivity.
      + symmetry. apply s_lp_dead. intro x. cbn [rev]. rewrite rev_involutive.
        rewrite <- H. unfold g_lookup. rewrite <- app_assoc, g_walk_app, W. cbn [app g_walk]. rewrite E. reflexivity.
  Qed.

  Lemma fsa_longest_prefix_correct_proof root S :
    (forall k, g_lookup trans isfin root k = mem k S) ->
    forall q, g_accepts trans isfin root q = mem q S /\
              g_longest_prefix trans isfin root q = s_longest_prefix S q.
  Proof.
    intros H q. split.
    - unfold g_accepts. rewrite g_accepts_lookup. apply H.
    - unfold g_longest_prefix, s_longest_prefix. apply (g_lp_go_spec root S H q [] root). reflexivity.
  Qed.

  (* two automata with the same transitions on a closed set of states walk alike *)
  Lemma g_walk_ext (trans' : St -> N -> option St) (P : St -> Prop) :
    (forall p s, P p -> trans' p s = trans p s) ->
    (forall p s c, P p -> trans p s = Some c -> P c) ->
    forall k i, P i -> g_walk trans' i k = g_walk trans i k.
  Proof.
    intros He Hc k; induction k as [|s k IH]; intros i Hi; cbn [g_walk]; [reflexivity|].
    rewrite He by assumption. destruct (trans i s) as [c|] eqn:E; [|reflexivity].
    apply IH. apply (Hc i s c Hi E).
  Qed.

  (* ---------------------------------------------------------------- the DFS *)
  Lemma g_collect_spec : forall fuel i pr k,
    In k (g_collect trans isfin fuel i pr) <->
    exists k2, k = rev pr ++ k2 /\ g_lookup trans isfin i k2 = true /\ bytes_ok k2 /\ (length k2 < fuel)%nat.
  Proof.
    induction fuel as [|f IH]; intros i pr k; cbn [g_collect].
    - split; [intros [] | intros (k2 & _ & _ & _ & H); lia].
    - rewrite in_app_iff, in_flat_map. split.
      + intros [HA|(s & Hs & Hin)].
        * destruct (isfin i) eqn:F; [|destruct HA]. destruct HA as [<-|[]].
          exists []. rewrite app_nil_r. repeat split; [assumption | constructor | cbn; lia].
        * apply byte_range_iff in Hs. destruct (trans i s) as [c|] eqn:E; [|destruct Hin].
          apply IH in Hin as (k3 & -> & L & B & Hl).
          exists (s :: k3). cbn [rev]. rewrite <- app_assoc. cbn [app].
          repeat split; [rewrite g_lookup_cons, E; assumption | constructor; assumption | cbn [length]; lia].
      + intros (k2 & -> & L & B & Hl). destruct k2 as [|s k3].
        * left. rewrite g_lookup_nil in L. rewrite L, app_nil_r. left; reflexivity.
        * right. inversion B as [|? ? Hs B3]; subst. exists s. split; [apply byte_range_iff; assumption|].
          rewrite g_lookup_cons in L. destruct (trans i s) as [c|] eqn:E; [|discriminate].
          apply IH. exists k3. cbn [rev]. rewrite <- app_assoc. cbn [app length] in *.
          repeat split; [assumption | assumption | lia].
  Qed.

  Lemma g_collect_nodup : forall fuel i pr, NoDup (g_collect trans isfin fuel i pr).
  Proof.
    induction fuel as [|f IH]; intros i pr; cbn [g_collect]; [constructor|].
    apply nodup_app_intro.
    - destruct (isfin i); [constructor; [intros []|constructor] | constructor].
    - apply NoDup_flat_map_disjoint.
      + apply byte_range_nodup.
      + intros s _. destruct (trans i s); [apply IH | constructor].
      + intros a b x _ _ Ha Hb.
        destruct (trans i a) as [ca|]; [|destruct Ha]. destruct (trans i b) as [cb|]; [|destruct Hb].
        apply g_collect_spec in Ha as (ka & Ea & _). apply g_collect_spec in Hb as (kb & Eb & _).
        cbn [rev] in Ea, Eb. rewrite <- app_assoc in Ea, Eb. rewrite Ea in Eb.
        apply app_inv_head in Eb. cbn [app] in Eb. inversion Eb. reflexivity.
    - intros x Hx Hin. destruct (isfin i); [|destruct Hx]. destruct Hx as [<-|[]].
      apply in_flat_map in Hin as (s & _ & Hs). destruct (trans i s) as [c|]; [|destruct Hs].
      apply g_collect_spec in Hs as (k2 & E & _). cbn [rev] in E. rewrite <- app_assoc in E.
      rewrite <- (app_nil_r (rev pr)) in E at 1. apply app_inv_head in E. discriminate.
  Qed.

  (* ---------------------------------------------------------------- ghost addresses *)
  Variable live : St -> Prop.
  Variable addr : St -> list N.
  Definition ginv : Prop :=
    forall p s c, live p -> trans p s = Some c -> live c /\ addr c = addr p ++ [s] /\ s < 256.

  Lemma g_walk_addr : ginv -> forall k i e, live i -> g_walk trans i k = Some e -> live e /\ addr e = addr i ++ k.
  Proof.
    intros H k; induction k as [|s k IH]; intros i e Hi W; cbn [g_walk] in W.
    - inversion W; subst. rewrite app_nil_r. split; [assumption | reflexivity].
    - destruct (trans i s) as [c|] eqn:E; [|discriminate].
      destruct (H _ _ _ Hi E) as (Hc & Ha & _).
      destruct (IH c e Hc W) as [He Hae]. split; [assumption|].
      rewrite Hae, Ha, <- app_assoc. reflexivity.
  Qed.

  Lemma g_walk_inj root k1 k2 e : ginv -> live root -> addr root = [] ->
    g_walk trans root k1 = Some e -> g_walk trans root k2 = Some e -> k1 = k2.
  Proof.
    intros I Hr H0 W1 W2.
    destruct (g_walk_addr I _ _ _ Hr W1) as [_ A1]. destruct (g_walk_addr I _ _ _ Hr W2) as [_ A2].
    rewrite H0 in A1, A2. cbn [app] in A1, A2. congruence.
  Qed.

  Lemma g_walk_bytes : ginv -> forall k i e, live i -> g_walk trans i k = Some e -> bytes_ok k.
  Proof.
    intros H k; induction k as [|s k IH]; intros i e Hi W; cbn [g_walk] in W; [constructor|].
    destruct (trans i s) as [c|] eqn:E; [|discriminate].
    destruct (H _ _ _ Hi E) as (Hc & _ & Hs).
    constructor; [assumption | apply (IH _ _ Hc W)].
  Qed.

  (* the states visited by a walk, start included *)
  Fixpoint g_trail (i : St) (k : list N) : list St :=
    match k with
    | [] => [i]
    | s :: r => i :: match trans i s with Some c => g_trail c r | None => [] end
    end.

  Lemma g_trail_facts : ginv -> forall k i e, live i -> g_walk trans i k = Some e ->
    length (g_trail i k) = S (length k) /\
    (forall j, In j (g_trail i k) -> (length (addr i) <= length (addr j))%nat /\ live j) /\
    NoDup (g_trail i k).
  Proof.
    intros I k; induction k as [|s r IH]; intros i e Hi W; cbn [g_trail g_walk] in *.
    - split; [reflexivity|]. split.
      + intros j [<-|[]]. split; [lia | assumption].
      + constructor; [intros [] | constructor].
    - destruct (trans i s) as [c|] eqn:E; [|discriminate].
      destruct (I _ _ _ Hi E) as (Hc & Ha & _).
      destruct (IH c e Hc W) as (L & F & ND).
      assert (Hlen : length (addr c) = S (length (addr i))) by (rewrite Ha, app_length; cbn [length]; lia).
      split; [cbn [length]; rewrite L; reflexivity|]. split.
      + intros j [<-|Hj]; [split; [lia | assumption]|]. destruct (F j Hj) as [F1 F2]. split; [lia | assumption].
      + constructor; [|assumption]. intro Hin. destruct (F i Hin) as [F1 _]. lia.
  Qed.

  (* a key that leads somewhere is shorter than the number of live states *)
  Lemma g_walk_depth (sts : list St) k i e : ginv -> (forall p, live p -> In p sts) -> live i ->
    g_walk trans i k = Some e -> (length k < length sts)%nat.
  Proof.
    intros I Hs Hi W. destruct (g_trail_facts I k i e Hi W) as (L & F & ND).
    assert (Hle : (length (g_trail i k) <= length sts)%nat).
    { apply NoDup_incl_length; [assumption|]. intros j Hj. apply Hs. apply (F j Hj). }
    lia.
  Qed.

  (* with enough fuel the DFS from a live state lists exactly the accepted continuations *)
  Lemma g_collect_complete (sts : list St) fuel i pr k : ginv -> (forall p, live p -> In p sts) -> live i ->
    (length sts <= fuel)%nat ->
    (In k (g_collect trans isfin fuel i pr) <-> exists k2, k = rev pr ++ k2 /\ g_lookup trans isfin i k2 = true).
  Proof.
    intros I Hs Hi Hf. rewrite g_collect_spec. split.
    - intros (k2 & E & L & _). exists k2. split; assumption.
    - intros (k2 & E & L). exists k2. split; [assumption|]. split; [assumption|].
      unfold g_lookup in L. destruct (g_walk trans i k2) as [e|] eqn:W; [|discriminate].
      split; [apply (g_walk_bytes I k2 i e Hi W)|].
      pose proof (g_walk_depth sts k2 i e I Hs Hi W). lia.
  Qed.
End Generic.

(* the node-vector trie of Model.v is the instance (nat, child ns, fin ns) *)
Lemma patricia_walk_generic ns : forall k i, walk ns i k = g_walk (child ns) i k.
Proof. induction k as [|s k IH]; intro i; cbn [walk g_walk]; [reflexivity|]. destruct (child ns i s); [apply IH | reflexivity]. Qed.
Lemma patricia_lookup_generic ns i k : lookup ns i k = g_lookup (child ns) (fin ns) i k.
Proof. unfold lookup, g_lookup. rewrite patricia_walk_generic. reflexivity. Qed.
Lemma patricia_accepts_generic ns : forall k i, fsa_accepts_go ns i k = g_accepts_go (child ns) (fin ns) i k.
Proof. induction k as [|s k IH]; intro i; cbn [fsa_accepts_go g_accepts_go]; [reflexivity|]. destruct (child ns i s); [apply IH | reflexivity]. Qed.
Lemma patricia_lp_generic ns : forall k st i last, lp_go ns st k i last = g_lp_go (child ns) (fin ns) st k i last.
Proof. induction k as [|s k IH]; intros st i last; cbn [lp_go g_lp_go]; [reflexivity|]. destruct (child ns st s); [apply IH | reflexivity]. Qed.
Lemma patricia_collect_generic ns : forall fuel i pr, collect fuel ns i pr = g_collect (child ns) (fin ns) fuel i pr.
Proof.
  induction fuel as [|f IH]; intros i pr; cbn [collect g_collect]; [reflexivity|].
  f_equal. apply flat_map_ext. intro s. destruct (child ns i s); [apply IH | reflexivity].
Qed.

Lemma fsa_generic_is_patricia_proof ns q :
  fsa_accepts ns q = g_accepts (child ns) (fin ns) 0%nat q /\
  fsa_longest_prefix ns q = g_longest_prefix (child ns) (fin ns) 0%nat q.
Proof. split; [apply patricia_accepts_generic | apply patricia_lp_generic]. Qed.

(* the hypothesis of fsa_longest_prefix_correct is inhabited: the node-vector trie reached by a history *)
Example fsa_hyp_example :
  let st := p_exec true p_empty [(0, [97]); (0, [97; 98]); (0, [])] in
  forall k, g_lookup (child (p_nodes st)) (fin (p_nodes st)) 0%nat k = mem k (s_exec [] [(0, [97]); (0, [97; 98]); (0, [])]).
Proof.
  intros st k. rewrite <- patricia_lookup_generic.
  assert (R : Rel st (s_exec [] [(0, [97]); (0, [97; 98]); (0, [])])).
  { apply run_refines; [|apply rel_empty]. repeat constructor; cbn; try lia; discriminate. }
  apply (proj1 (proj2 R)).
Qed.
