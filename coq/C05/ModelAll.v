(* C05: dispatch used by the generated case files (harness/src/c05.rs): Model.run_cell extended by the
   double-array model (kind 4) and the hash-map model of the compressed-sparse storage (kind 5). *)
From ZV.Common Require Import Base Run.
From ZV.C05 Require Import Model ModelFsa ModelDa ModelCs.
Open Scope N_scope.

Definition run_cell2 (kind : N) (ops : list (N * list N)) : list obs :=
  match kind with
  | 4 => d_run d_empty ops           (* double-array storage: concurrent_high_performance preset, custom config, DoubleArrayTrie wrapper *)
  | 5 => cs_run c_empty ops          (* compressed-sparse storage as a trie over hash maps *)
  | _ => run_cell kind ops
  end.
