(* C05: the executable spec of longest_prefix is "the longest member that is a prefix of q". *)
From ZV.Common Require Import Base Run.
From ZV.C05 Require Import Model Spec.
Open Scope N_scope.

Lemma s_lp_go_char S : forall rest pre_rev i last,
  let P := fun n => mem (rev pre_rev ++ firstn n rest) S in
  let r := s_lp_go S pre_rev rest i last in
  (exists n, (n <= length rest)%nat /\ r = Some (i + N.of_nat n) /\ P n = true /\
             forall n', (n < n' <= length rest)%nat -> P n' = false) \/
  (r = last /\ forall n', (n' <= length rest)%nat -> P n' = false).
Proof.
  induction rest as [|s r' IH]; intros pre_rev i last; cbn zeta.
  - cbn [s_lp_go length]. destruct (mem (rev pre_rev) S) eqn:M.
    + left. exists 0%nat. split; [lia|]. split; [rewrite N.add_0_r; reflexivity|].
      split; [cbn [firstn]; rewrite app_nil_r; assumption | intros n' H; lia].
    + right. split; [reflexivity|]. intros n' H. assert (n' = 0)%nat by lia. subst.
      cbn [firstn]. rewrite app_nil_r. assumption.
  - cbn [s_lp_go length].
    assert (Hsh : forall m, mem (rev (s :: pre_rev) ++ firstn m r') S = mem (rev pre_rev ++ firstn (Datatypes.S m) (s :: r')) S).
    { intro m. cbn [rev firstn]. rewrite <- app_assoc. reflexivity. }
    destruct (IH (s :: pre_rev) (i + 1) (if mem (rev pre_rev) S then Some i else last)) as [(n & Hn & Hr & Hp & Hmax)|(Hr & Hnone)].
    + left. exists (Datatypes.S n). split; [lia|]. split; [rewrite Hr; f_equal; lia|].
      split; [rewrite <- Hsh; assumption|]. intros n' H. destruct n' as [|m]; [lia|].
      rewrite <- Hsh. apply Hmax. lia.
    + destruct (mem (rev pre_rev) S) eqn:M.
      * left. exists 0%nat. split; [lia|]. split; [rewrite Hr, N.add_0_r; reflexivity|].
        split; [cbn [firstn]; rewrite app_nil_r; assumption|].
        intros n' H. destruct n' as [|m]; [lia|]. rewrite <- Hsh. apply Hnone. lia.
      * right. split; [assumption|]. intros n' H. destruct n' as [|m].
        -- cbn [firstn]. rewrite app_nil_r. assumption.
        -- rewrite <- Hsh. apply Hnone. lia.
Qed.

Lemma s_longest_prefix_spec_proof S q :
  match s_longest_prefix S q with
  | Some m => exists n, m = N.of_nat n /\ (n <= length q)%nat /\ mem (firstn n q) S = true /\
                        forall n', (n < n' <= length q)%nat -> mem (firstn n' q) S = false
  | None => forall n', (n' <= length q)%nat -> mem (firstn n' q) S = false
  end.
Proof.
  unfold s_longest_prefix.
  destruct (s_lp_go_char S q [] 0 None) as [(n & Hn & Hr & Hp & Hmax)|(Hr & Hnone)]; cbn [rev app] in *.
  - rewrite Hr. exists n. split; [reflexivity|]. split; [assumption|]. split; assumption.
  - rewrite Hr. assumption.
Qed.
