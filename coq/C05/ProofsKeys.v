(* C05: keys() and keys_with_prefix() of the node-vector trie enumerate exactly the members. *)
From ZV.Common Require Import Base Run.
From Coq Require Import FinFun.
From ZV.C05 Require Import Model Spec ProofsBase ProofsInsert ProofsRemove ProofsRefine.
Open Scope N_scope.

Lemma byte_range_iff s : In s byte_range <-> s < 256.
Proof.
  split; [|apply in_byte_range].
  unfold byte_range. intro H. apply in_map_iff in H as (x & Hx & Hin). apply in_seq in Hin. lia.
Qed.

(* exact characterisation of the DFS for any fuel *)
Lemma collect_spec : forall fuel ns i pr k,
  In k (collect fuel ns i pr) <->
  exists k2, k = rev pr ++ k2 /\ lookup ns i k2 = true /\ bytes_ok k2 /\ (length k2 < fuel)%nat.
Proof.
  induction fuel as [|f IH]; intros ns i pr k; cbn [collect].
  - split; [intros [] | intros (k2 & _ & _ & _ & H); lia].
  - rewrite in_app_iff, in_flat_map. split.
    + intros [HA|(s & Hs & Hin)].
      * destruct (fin ns i) eqn:F; [|destruct HA]. destruct HA as [<-|[]].
        exists []. rewrite app_nil_r. repeat split; [assumption | constructor | cbn; lia].
      * apply byte_range_iff in Hs. destruct (child ns i s) as [c|] eqn:E; [|destruct Hin].
        apply IH in Hin as (k3 & -> & L & B & Hl).
        exists (s :: k3). cbn [rev]. rewrite <- app_assoc. cbn [app].
        repeat split; [rewrite lookup_cons, E; assumption | constructor; assumption | cbn [length]; lia].
    + intros (k2 & -> & L & B & Hl). destruct k2 as [|s k3].
      * left. rewrite lookup_nil_key in L. rewrite L, app_nil_r. left; reflexivity.
      * right. inversion B as [|? ? Hs B3]; subst. exists s. split; [apply byte_range_iff; assumption|].
        rewrite lookup_cons in L. destruct (child ns i s) as [c|] eqn:E; [|discriminate].
        apply IH. exists k3. cbn [rev]. rewrite <- app_assoc. cbn [app length] in *.
        repeat split; [assumption | assumption | lia].
Qed.

(* the nodes visited by a walk, start included *)
Fixpoint trail (ns : list node) (i : nat) (k : list N) : list nat :=
  match k with
  | [] => [i]
  | s :: r => i :: match child ns i s with Some c => trail ns c r | None => [] end
  end.

Lemma trail_facts ns addr : inv ns addr -> forall k i e, (i < length ns)%nat -> walk ns i k = Some e ->
  length (trail ns i k) = S (length k) /\
  (forall j, In j (trail ns i k) -> (length (addr i) <= length (addr j))%nat /\ (j < length ns)%nat) /\
  NoDup (trail ns i k).
Proof.
  intros I k; induction k as [|s r IH]; intros i e Hi W; cbn [trail walk] in *.
  - split; [reflexivity|]. split.
    + intros j [<-|[]]. split; [lia | assumption].
    + constructor; [intros [] | constructor].
  - destruct (child ns i s) as [c|] eqn:E; [|discriminate].
    destruct (proj2 I _ _ _ E) as (Hc & Ha & _).
    destruct (IH c e Hc W) as (L & F & ND).
    assert (Hlen : length (addr c) = S (length (addr i))) by (rewrite Ha, app_length; cbn [length]; lia).
    split; [cbn [length]; rewrite L; reflexivity|]. split.
    + intros j [<-|Hj]; [split; [lia | assumption]|]. destruct (F j Hj) as [F1 F2]. split; [lia | assumption].
    + constructor; [|assumption]. intro Hin. destruct (F i Hin) as [F1 _]. lia.
Qed.

(* a key that leads somewhere is shorter than the number of nodes *)
Lemma walk_depth ns addr k e : inv ns addr -> (0 < length ns)%nat -> walk ns 0%nat k = Some e -> (length k < length ns)%nat.
Proof.
  intros I H0 W. destruct (trail_facts ns addr I k 0%nat e H0 W) as (L & F & ND).
  assert (Hle : (length (trail ns 0%nat k) <= length (seq 0 (length ns)))%nat).
  { apply NoDup_incl_length; [assumption|]. intros j Hj. apply in_seq. destruct (F j Hj). lia. }
  rewrite seq_length in Hle. lia.
Qed.

Lemma lookup_true_walk ns i k : lookup ns i k = true -> exists e, walk ns i k = Some e.
Proof. unfold lookup. destruct (walk ns i k) as [e|]; [intros _; exists e; reflexivity | discriminate]. Qed.

Lemma keys_nodes_spec ns addr k : inv ns addr -> (In k (keys_nodes ns) <-> lookup ns 0%nat k = true).
Proof.
  intro I. unfold keys_nodes. destruct ns as [|n t].
  - rewrite lookup_nil. split; [intros [] | discriminate].
  - set (ns := n :: t) in *. rewrite collect_spec. cbn [rev app]. split.
    + intros (k2 & -> & L & _). assumption.
    + intro L. exists k. split; [reflexivity|]. split; [assumption|].
      destruct (lookup_true_walk _ _ _ L) as [e W]. split; [apply (walk_bytes ns addr I k 0%nat e W)|].
      assert (H0 : (0 < length ns)%nat) by (cbn; lia).
      pose proof (walk_depth ns addr k e I H0 W). lia.
Qed.

Lemma starts_with_app p k2 : starts_with (p ++ k2) p = true.
Proof. induction p as [|x p IH]; cbn [app starts_with]; [destruct k2; reflexivity|]. rewrite N.eqb_refl. assumption. Qed.

Lemma lookup_app ns i a b : lookup ns i (a ++ b) = match walk ns i a with Some m => lookup ns m b | None => false end.
Proof. unfold lookup. rewrite walk_app. destruct (walk ns i a); reflexivity. Qed.

Lemma prefix_nodes_spec ns addr p k : inv ns addr ->
  (In k (prefix_nodes ns p) <-> lookup ns 0%nat k = true /\ exists k2, k = p ++ k2).
Proof.
  intro I. unfold prefix_nodes. destruct ns as [|n t].
  - rewrite lookup_nil. split; [intros [] | intros [H _]; discriminate].
  - set (ns := n :: t) in *.
    assert (H0 : (0 < length ns)%nat) by (cbn; lia).
    destruct (walk ns 0%nat p) as [c|] eqn:Wp.
    + rewrite filter_In, collect_spec, rev_involutive. split.
      * intros [(k2 & -> & L & _) _]. split; [rewrite lookup_app, Wp; assumption | exists k2; reflexivity].
      * intros [L (k2 & ->)]. split; [|apply starts_with_app].
        exists k2. split; [reflexivity|]. rewrite lookup_app, Wp in L. split; [assumption|].
        assert (L' : lookup ns 0%nat (p ++ k2) = true) by (rewrite lookup_app, Wp; assumption).
        destruct (lookup_true_walk _ _ _ L') as [e W].
        pose proof (walk_bytes ns addr I _ _ _ W) as B. apply Forall_app in B as [_ B]. split; [assumption|].
        pose proof (walk_depth ns addr _ e I H0 W) as D. rewrite app_length in D. lia.
    + split; [intros []|]. intros [L (k2 & ->)]. rewrite lookup_app, Wp in L. discriminate.
Qed.

(* keys_sorted_complete (as an enumeration: the property does not fix an order) and prefix_query_exact *)
Lemma keys_enumerates_proof st S k : Rel st S -> (In k (keys_nodes (p_nodes st)) <-> In k S).
Proof.
  intros ((addr & I) & Hl & _). rewrite (keys_nodes_spec _ addr k I), Hl. apply mem_In.
Qed.

Lemma prefix_query_exact_proof st S p k : Rel st S ->
  (In k (prefix_nodes (p_nodes st) p) <-> In k S /\ exists k2, k = p ++ k2).
Proof.
  intros ((addr & I) & Hl & _). rewrite (prefix_nodes_spec _ addr p k I), Hl, mem_In. reflexivity.
Qed.

(* no key is listed twice *)
Lemma nodup_app_intro {B} (a b : list B) :
  NoDup a -> NoDup b -> (forall x, In x a -> ~ In x b) -> NoDup (a ++ b).
Proof.
  induction a as [|x a IH]; intros Ha Hb Hd; cbn [app]; [assumption|].
  inversion Ha as [|? ? Hx Ha']; subst. constructor.
  - rewrite in_app_iff. intros [H|H]; [contradiction | apply (Hd x); [left; reflexivity | assumption]].
  - apply IH; [assumption | assumption | intros y Hy; apply Hd; right; assumption].
Qed.
Lemma NoDup_flat_map_disjoint {A B} (f : A -> list B) (l : list A) :
  NoDup l -> (forall a, In a l -> NoDup (f a)) ->
  (forall a b x, In a l -> In b l -> In x (f a) -> In x (f b) -> a = b) ->
  NoDup (flat_map f l).
Proof.
  induction l as [|a l IH]; intros Hnd Hf Hd; cbn [flat_map]; [constructor|].
  inversion Hnd as [|? ? Ha Hnd']; subst.
  apply nodup_app_intro.
  - apply Hf; left; reflexivity.
  - apply IH; [assumption | intros; apply Hf; right; assumption |].
    intros x y z Hx Hy. apply Hd; right; assumption.
  - intros x Hx Hin. apply in_flat_map in Hin as (b & Hb & Hxb).
    assert (a = b) by (apply (Hd a b x); [left; reflexivity | right; assumption | assumption | assumption]).
    subst b. contradiction.
Qed.

Lemma byte_range_nodup : NoDup byte_range.
Proof.
  unfold byte_range. apply Injective_map_NoDup; [|apply seq_NoDup].
  intros x y H. apply Nat2N.inj in H. assumption.
Qed.

Lemma collect_nodup : forall fuel ns i pr, NoDup (collect fuel ns i pr).
Proof.
  induction fuel as [|f IH]; intros ns i pr; cbn [collect]; [constructor|].
  apply nodup_app_intro.
  - destruct (fin ns i); [constructor; [intros []|constructor] | constructor].
  - apply NoDup_flat_map_disjoint.
    + apply byte_range_nodup.
    + intros s _. destruct (child ns i s); [apply IH | constructor].
    + intros a b x _ _ Ha Hb.
      destruct (child ns i a) as [ca|]; [|destruct Ha]. destruct (child ns i b) as [cb|]; [|destruct Hb].
      apply collect_spec in Ha as (ka & Ea & _). apply collect_spec in Hb as (kb & Eb & _).
      cbn [rev] in Ea, Eb. rewrite <- app_assoc in Ea, Eb. rewrite Ea in Eb.
      apply app_inv_head in Eb. cbn [app] in Eb. inversion Eb. reflexivity.
  - intros x Hx Hin. destruct (fin ns i); [|destruct Hx]. destruct Hx as [<-|[]].
    apply in_flat_map in Hin as (s & _ & Hs). destruct (child ns i s) as [c|]; [|destruct Hs].
    apply collect_spec in Hs as (k2 & E & _). cbn [rev] in E. rewrite <- app_assoc in E.
    rewrite <- (app_nil_r (rev pr)) in E at 1. apply app_inv_head in E. discriminate.
Qed.

Lemma keys_nodup_proof ns : NoDup (keys_nodes ns).
Proof. unfold keys_nodes. destruct ns; [constructor | apply collect_nodup]. Qed.

Lemma prefix_nodup_proof ns p : NoDup (prefix_nodes ns p).
Proof.
  unfold prefix_nodes. destruct ns; [constructor|]. destruct (walk _ _ _); [|constructor].
  apply NoDup_filter. apply collect_nodup.
Qed.
