(* C05, double array: insert_double_array adds exactly the inserted key (through base assignment, growth,
   allocation and relocation), and the ZiporaTrie over the double array refines the set for every history
   in which no insert reports an error. *)
From ZV.Common Require Import Base Run.
From ZV.C05 Require Import Model ModelFsa ModelDa Spec ProofsBase ProofsInsert ProofsRemove ProofsRefine ProofsKeys ProofsFsa
  ProofsDaArr ProofsDaInv ProofsDaReloc ProofsDaReloc2.
Open Scope N_scope.

(* the first statements of the loop body: give the current state a base if it has none *)
Lemma da_prep d addr cur : DInv d addr -> used d cur ->
  let bv0 := N.land (bget d cur) VALUE_MASK in
  let p := if bv0 =? NIL_STATE
           then (bset d cur (N.lor (find_free_base cur) (N.land (bget d cur) TERMINAL_BIT)), find_free_base cur)
           else (d, bv0) in
  DInv (fst p) addr /\ used (fst p) cur /\ bv (fst p) cur = snd p /\ snd p <> NIL_STATE /\ 1 <= snd p /\ snd p <= BMAX /\
  (forall k, View (fst p) addr k <-> View d addr k).
Proof.
  intros I U. cbv zeta. fold (bv d cur). destruct (N.eqb_spec (bv d cur) NIL_STATE) as [E|E]; cbn [fst snd].
  - destruct (dinv_set_base d addr cur I U E) as (I1 & C1 & T1 & V1 & B1 & L1). cbv zeta in *.
    pose proof (di_len _ _ I) as [_ L2]. pose proof (di_lens _ _ I) as Hl.
    assert (Hc : cur < blen d) by (rewrite Hl; apply used_lt; assumption).
    split; [assumption|]. split; [unfold used; rewrite C1; assumption|]. split; [assumption|].
    split; [unfold find_free_base, NIL_STATE, LMAX in *; lia|].
    split; [unfold find_free_base; lia|]. split; [unfold find_free_base, BMAX, LMAX in *; lia|].
    intro k. unfold View, used. split; intros (q & Uq & A & T); exists q.
    + rewrite C1 in Uq. rewrite T1 in T. auto.
    + rewrite C1, T1. auto.
  - split; [assumption|]. split; [assumption|]. split; [reflexivity|]. split; [assumption|].
    destruct (di_base _ _ I cur U) as [X|[X1 X2]]; [contradiction|].
    split; [assumption|]. split; [assumption|]. intro k; reflexivity.
Qed.

(* what one call of the loop yields: the key added, or an error with arrays longer than HUGE slots *)
Definition ins_result (d : da) (addr : N -> list N) (key : list N) (d' : da) (r : option N) : Prop :=
  match r with
  | Some _ => exists addr', DInv d' addr' /\ (forall k, View d' addr' k <-> View d addr k \/ k = key)
  | None => HUGE < blen d'
  end.

Lemma da_ins_go_spec : forall key d cur addr d' r,
  bytes_ok key -> DInv d addr -> used d cur -> da_ins_go d cur key = (d', r) ->
  ins_result d addr (addr cur ++ key) d' r.
Proof.
  induction key as [|s rest IH]; intros d cur addr d' r Hb I U H.
  - cbn [da_ins_go] in H. inversion H; subst d' r; clear H.
    destruct (dinv_set_term d addr cur I U) as [I' V]. cbv zeta in *.
    exists addr. split; [assumption|]. intro k. rewrite app_nil_r. apply V.
  - inversion Hb as [|? ? Hs Hrest]; subst. unfold is_byte in Hs.
    cbn [da_ins_go] in H.
    destruct (da_prep d addr cur I U) as (I1 & U1 & V1 & N1 & B1 & B2 & W1). cbv zeta in *.
    destruct (if N.land (bget d cur) VALUE_MASK =? NIL_STATE
              then (bset d cur (N.lor (find_free_base cur) (N.land (bget d cur) TERMINAL_BIT)), find_free_base cur)
              else (d, N.land (bget d cur) VALUE_MASK)) as [d1 bvv]. cbn [fst snd] in *.
    rewrite sat_add_small in H by (unfold U32_MAX, BMAX in *; lia).
    destruct (dinv_ensure d1 addr (bvv + s) I1 ltac:(unfold BMAX, LMAX in *; lia)) as (I2 & L2 & GB & GC).
    set (d2 := da_ensure d1 (bvv + s)) in *.
    assert (U2 : used d2 cur) by (unfold used; rewrite GC; assumption).
    assert (V2 : bv d2 cur = bvv) by (unfold bv; rewrite GB; assumption).
    assert (W2 : forall k, View d2 addr k <-> View d addr k).
    { intro k. rewrite <- W1. apply view_ext; assumption. }
    pose proof (di_lens _ _ I2) as Hl2. pose proof (di_len _ _ I2) as [_ HL2].
    assert (Hc2 : cur < blen d2) by (rewrite Hl2; apply used_lt; assumption).
    (* what the rest of the key adds, once the next state is known *)
    assert (Fin : forall dn addrn nxt, DInv dn addrn -> used dn nxt -> addrn nxt = addr cur ++ [s] ->
               (forall k, View dn addrn k <-> View d addr k) -> da_ins_go dn nxt rest = (d', r) ->
               ins_result d addr (addr cur ++ s :: rest) d' r).
    { intros dn addrn nxt In Un An Wn Hn. pose proof (IH dn nxt addrn d' r Hrest In Un Hn) as X.
      unfold ins_result in *. destruct r as [e|]; [|assumption]. destruct X as (addr' & I' & W').
      exists addr'. split; [assumption|]. intro k. rewrite W', Wn, An, <- app_assoc. reflexivity. }
    destruct (negb (is_free_word (cget d2 (bvv + s))) && (cget d2 (bvv + s) =? cur))%bool eqn:Cex.
    + (* the transition exists *)
      apply andb_true_iff in Cex as [_ Ce]. apply N.eqb_eq in Ce. rewrite <- V2 in Ce.
      destruct (dinv_follow d2 addr cur s I2 U2 ltac:(rewrite V2; assumption) Hs Ce) as [Un An]. rewrite V2 in Un, An.
      apply (Fin d2 addr (bvv + s)); assumption.
    + replace (bvv + s =? 0) with false in H by (symmetry; apply N.eqb_neq; lia).
      destruct (is_free_word (cget d2 (bvv + s))) eqn:Fr.
      * (* a free slot *)
        replace (MAX_STATE <? cur) with false in H by (symmetry; apply N.ltb_ge; unfold MAX_STATE, LMAX in *; lia).
        rewrite <- V2 in H, Fr, L2.
        destruct (dinv_alloc d2 addr cur s I2 U2 ltac:(rewrite V2; assumption) Hs L2 Fr) as (I3 & U3 & A3 & W3). cbv zeta in *.
        eapply Fin; [exact I3 | exact U3 | exact A3 | | exact H].
        intro k. rewrite W3. apply W2.
      * (* the slot belongs to another state: relocate *)
        cbn [negb andb] in Cex. apply N.eqb_neq in Cex.
        destruct (relocate_state d2 cur s) as [d3 [nb|]] eqn:R.
        2:{ inversion H; subst d' r. apply (relocate_err d2 addr cur s d3 I2 U2 ltac:(rewrite V2; assumption) Hs R). }
        destruct (relocate_spec d2 addr cur s d3 nb I2 U2 ltac:(rewrite V2; assumption) Hs ltac:(rewrite V2; assumption) R)
          as (addr3 & I3 & U3 & A3 & V3 & F3 & L3 & W3 & _).
        pose proof (di_base _ _ I3 cur U3) as Hb3. rewrite V3 in Hb3.
        assert (Hnb : nb <> NIL_STATE /\ nb <= BMAX).
        { destruct Hb3 as [X|[_ X]]; [|split; [unfold NIL_STATE, BMAX in *; lia | assumption]].
          exfalso. rewrite X in L3. pose proof (di_len _ _ I3) as [_ Y]. unfold NIL_STATE, LMAX in *. lia. }
        destruct Hnb as [Hnb1 Hnb2].
        rewrite sat_add_small in H by (unfold U32_MAX, BMAX in *; lia).
        destruct (dinv_ensure d3 addr3 (nb + s) I3 ltac:(unfold BMAX, LMAX in *; lia)) as (I4 & L4 & GB4 & GC4).
        set (d4 := da_ensure d3 (nb + s)) in *.
        assert (U4 : used d4 cur) by (unfold used; rewrite GC4; assumption).
        assert (V4 : bv d4 cur = nb) by (unfold bv; rewrite GB4; assumption).
        pose proof (di_lens _ _ I4) as Hl4. pose proof (di_len _ _ I4) as [_ HL4].
        assert (Hc4 : cur < blen d4) by (rewrite Hl4; apply used_lt; assumption).
        replace (MAX_STATE <? cur) with false in H by (symmetry; apply N.ltb_ge; unfold MAX_STATE, LMAX in *; lia).
        rewrite <- V4 in H, L4. rewrite <- GC4, <- V4 in F3.
        destruct (dinv_alloc d4 addr3 cur s I4 U4 ltac:(rewrite V4; assumption) Hs L4 F3) as (I5 & U5 & A5 & W5). cbv zeta in *.
        eapply Fin; [exact I5 | exact U5 | rewrite <- A3; exact A5 | | exact H].
        intro k. rewrite W5. rewrite (view_ext d3 d4 addr3 k GB4 GC4). rewrite W3. apply W2.
Qed.

(* insert_double_array *)
Lemma da_insert_spec d addr key d' e : bytes_ok key -> DInv d addr -> da_insert d key = (d', Some e) ->
  exists addr', DInv d' addr' /\ (forall k, View d' addr' k <-> View d addr k \/ k = key).
Proof.
  intros Hb I H. unfold da_insert in H. pose proof (di_len _ _ I) as [L1 _].
  replace (blen d =? 0) with false in H by (symmetry; apply N.eqb_neq; lia).
  pose proof (da_ins_go_spec key d 0 addr d' (Some e) Hb I (used_root d addr I) H) as X.
  rewrite (di_addr0 _ _ I) in X. exact X.
Qed.

(* insert_double_array returns Err only when the arrays have grown beyond 257 * 10000 slots *)
Lemma da_insert_err d addr key d' : bytes_ok key -> DInv d addr -> da_insert d key = (d', None) -> HUGE < blen d'.
Proof.
  intros Hb I H. unfold da_insert in H. pose proof (di_len _ _ I) as [L1 _].
  replace (blen d =? 0) with false in H by (symmetry; apply N.eqb_neq; lia).
  apply (da_ins_go_spec key d 0 addr d' None Hb I (used_root d addr I) H).
Qed.

Lemma da_insert_lookup d addr key d' e : bytes_ok key -> DInv d addr -> da_insert d key = (d', Some e) ->
  (exists addr', DInv d' addr') /\ forall k, dlookup d' k = (dlookup d k || eqb_ln k key)%bool.
Proof.
  intros Hb I H. destruct (da_insert_spec d addr key d' e Hb I H) as (addr' & I' & W).
  split; [exists addr'; assumption|]. intro k. apply eq_true_iff_eq.
  rewrite (dlookup_view d' addr' k I'), W, orb_true_iff, (dlookup_view d addr k I), eqb_ln_true. reflexivity.
Qed.

(* ---------------------------------------------------------------- refinement *)
Definition DRel (st : dst) (S : keyset) : Prop :=
  (exists addr, DInv (d_da st) addr) /\
  (forall k, dlookup (d_da st) k = mem k S) /\
  NoDup S /\
  d_len st = N.of_nat (length S).

Lemma drel_empty : DRel d_empty [].
Proof.
  split; [exists (fun _ => []); apply dinv_new|]. split; [|split; [constructor | reflexivity]].
  intro k. cbn [d_empty d_da mem existsb]. destruct (dlookup da_new k) eqn:E; [|reflexivity].
  apply (dlookup_view da_new (fun _ => []) k dinv_new) in E. exfalso. apply (view_new k E).
Qed.

Lemma drel_insert st S k : bytes_ok k -> DRel st S -> snd (d_insert st k) = true ->
  DRel (fst (d_insert st k)) (s_insert k S).
Proof.
  intros Hb ((addr & I) & Hl & Hnd & Hlen) Hok. unfold d_insert in *.
  rewrite (da_contains_lookup _ addr k I), Hl.
  destruct (da_insert (d_da st) k) as [d' [e|]] eqn:E; cbn [fst snd] in *; [|discriminate].
  destruct (da_insert_lookup _ addr k d' e Hb I E) as [Ha Hlk].
  split; [assumption|]. cbn [d_da d_len]. split.
  { intro k'. rewrite Hlk, Hl, mem_insert. reflexivity. }
  unfold s_insert. destruct (mem k S) eqn:M.
  - split; assumption.
  - split.
    + constructor; [apply mem_false; assumption | assumption].
    + cbn [length]. rewrite Hlen, Nat2N.inj_succ. lia.
Qed.

(* histories: everything but remove, keys, keys_with_prefix (remove is `_ => Ok(false)`: da_remove_refuted) *)
Definition da_op_ok (op : N * list N) : Prop := op_ok op /\ fst op <> 1 /\ fst op <> 8.

Lemma d_step_refines st S op : da_op_ok op -> DRel st S ->
  (fst op = 0 -> snd (d_insert st (snd op)) = true) ->
  snd (d_step st op) = snd (s_step S op) /\ DRel (fst (d_step st op)) (fst (s_step S op)).
Proof.
  intros ((Hb & H4 & H5) & H1 & H8) R Hok. destruct op as [code k]. cbn [fst snd] in *.
  pose proof R as ((addr & I) & Hl & _ & Hlen).
  destruct code as [|[[[[p|p|]|[p|p|]|]|[[p|p|]|[p|p|]|]|]|[[p|p|]|[p|p|]|]|]];
    try (exfalso; apply H4; reflexivity); try (exfalso; apply H5; reflexivity);
    try (exfalso; apply H1; reflexivity); try (exfalso; apply H8; reflexivity);
    cbn [d_step s_step fst snd]; try (split; [reflexivity | assumption]).
  - (* 0 insert *)
    specialize (Hok eq_refl). pose proof (drel_insert st S k Hb R Hok) as R'.
    destruct (d_insert st k) as [st' ok]. cbn [fst snd] in *. subst ok. split; [reflexivity | assumption].
  - (* 7 longest_prefix *)
    split; [|assumption]. f_equal. unfold da_longest_prefix.
    apply (fsa_longest_prefix_correct_proof N (da_transition (d_da st)) (da_is_final (d_da st)) 0 S Hl k).
  - (* 3 len *) split; [|assumption]. rewrite Hlen. reflexivity.
  - (* 6 accepts *)
    split; [|assumption]. f_equal. unfold da_accepts.
    apply (fsa_longest_prefix_correct_proof N (da_transition (d_da st)) (da_is_final (d_da st)) 0 S Hl k).
  - (* 8 * p *) destruct p as [p|p|]; try (split; [reflexivity | assumption]). exfalso; apply H8; reflexivity.
  - (* 2 contains *) split; [|assumption]. rewrite (da_contains_lookup _ addr k I), Hl. reflexivity.
Qed.

Lemma d_run_refines : forall ops st S, Forall da_op_ok ops -> DRel st S -> d_noerr st ops = true ->
  d_run st ops = s_run S ops /\ DRel (d_exec st ops) (s_exec S ops).
Proof.
  induction ops as [|op t IH]; intros st S Hok R Hne; cbn [d_run s_run d_exec s_exec]; [split; [reflexivity | assumption]|].
  inversion Hok as [|? ? Hop Ht]; subst. cbn [d_noerr] in Hne. apply andb_true_iff in Hne as [Hn1 Hn2].
  assert (Hins : fst op = 0 -> snd (d_insert st (snd op)) = true).
  { intro E. rewrite E in Hn1. exact Hn1. }
  destruct (d_step_refines st S op Hop R Hins) as [Ho R'].
  destruct (d_step st op) as [st' o] eqn:E1. destruct (s_step S op) as [S' o'] eqn:E2.
  cbn [fst snd] in *. subst o'. destruct (IH st' S' Ht R' Hn2) as [Hr Hx].
  split; [rewrite Hr; reflexivity | assumption].
Qed.

Lemma da_refines_set_proof : forall ops, Forall da_op_ok ops -> d_noerr d_empty ops = true ->
  d_run d_empty ops = s_run [] ops.
Proof. intros ops H Hn. apply (d_run_refines ops d_empty [] H drel_empty Hn). Qed.
Lemma da_reachable_related_proof : forall ops, Forall da_op_ok ops -> d_noerr d_empty ops = true ->
  DRel (d_exec d_empty ops) (s_exec [] ops).
Proof. intros ops H Hn. apply (d_run_refines ops d_empty [] H drel_empty Hn). Qed.

(* the hypothesis d_noerr can only fail after an array has grown beyond 257 * 10000 slots *)
Lemma d_noerr_or_huge : forall ops st S, Forall da_op_ok ops -> DRel st S ->
  d_noerr st ops = true \/ exists n, HUGE < blen (d_da (d_exec st (firstn n ops))).
Proof.
  induction ops as [|op t IH]; intros st S Hok R; [left; reflexivity|].
  inversion Hok as [|? ? Hop Ht]; subst.
  assert (Hstep : (fst op = 0 -> snd (d_insert st (snd op)) = true) ->
                  d_noerr st (op :: t) = true \/ exists n, HUGE < blen (d_da (d_exec st (firstn n (op :: t))))).
  { intro Hins. destruct (d_step_refines st S op Hop R Hins) as [_ R'].
    destruct (IH _ _ Ht R') as [Hn|(n & Hn)].
    - left. cbn [d_noerr]. rewrite Hn, andb_true_r. destruct (N.eqb_spec (fst op) 0) as [E|E]; [apply Hins; assumption | reflexivity].
    - right. exists (Datatypes.S n). cbn [firstn d_exec]. assumption. }
  destruct (N.eq_dec (fst op) 0) as [E|E]; [|apply Hstep; intro; contradiction].
  destruct (snd (d_insert st (snd op))) eqn:Ok; [apply Hstep; intros _; reflexivity|].
  right. exists 1%nat. cbn [firstn d_exec]. destruct op as [code k]. cbn [fst snd] in *. subst code. cbn [d_step].
  destruct R as ((addr & I) & _). destruct Hop as ((Hb & _) & _). cbn [snd] in Hb.
  unfold d_insert in *. destruct (da_insert (d_da st) k) as [d' [e|]] eqn:Ei; cbn [fst snd] in *; [discriminate|].
  cbn [d_da]. apply (da_insert_err _ addr k d' Hb I Ei).
Qed.
Lemma da_noerr_or_huge_proof : forall ops, Forall da_op_ok ops ->
  d_noerr d_empty ops = true \/ exists n, HUGE < blen (d_da (d_exec d_empty (firstn n ops))).
Proof. intros ops H. apply (d_noerr_or_huge ops d_empty [] H drel_empty). Qed.

(* the hypotheses are inhabited: a history with a relocation (the third insert moves the children of a state and
   their grandchildren) in which no insert reports an error *)
Definition da_example_ops : list (N * list N) :=
  [(0, [1; 0; 1; 255]); (0, [97]); (0, [1; 1; 0; 255; 255]); (0, []); (2, [1; 0; 1; 255]); (3, []); (7, [1; 0; 1; 255; 7]); (6, [97])].
Example da_hyp_example : Forall da_op_ok da_example_ops /\ d_noerr d_empty da_example_ops = true.
Proof.
  split; [|vm_compute; reflexivity].
  repeat constructor; cbn; try lia; discriminate.
Qed.
(* in that history the insert of [1;1;0;255;255] relocates state 2 (the key [1]) from base 1 to base 515: its child moves
   from slot 1 to slot 515 and the grandchild in slot 259 gets the new parent *)
Example da_example_relocates :
  let d0 := d_da (d_exec d_empty [(0, [1; 0; 1; 255]); (0, [97])]) in
  let d1 := d_da (d_exec d_empty [(0, [1; 0; 1; 255]); (0, [97]); (0, [1; 1; 0; 255; 255])]) in
  (bv d0 2 = 1 /\ cget d0 1 = 2 /\ cget d0 259 = 1) /\ (bv d1 2 = 515 /\ cget d1 515 = 2 /\ cget d1 259 = 515 /\ cget d1 1 = FREE_WORD).
Proof. vm_compute. repeat split. Qed.

(* remove is `_ => Ok(false)` for this storage: the recorded finding, on the model *)
Lemma da_remove_refuted_proof : exists ops, Forall op_ok ops /\ d_run d_empty ops <> s_run [] ops.
Proof.
  exists [(0, [97]); (1, [97]); (2, [97])]. split.
  - repeat constructor; cbn; try lia; discriminate.
  - vm_compute. discriminate.
Qed.
