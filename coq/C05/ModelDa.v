(* C05 mechanism model (definitions only) of the DOUBLE-ARRAY storage of ZiporaTrie as written in
   src/fsa/zipora_trie.rs at the pinned commit:

     TrieStorage::DoubleArray { base : FastVec<u32>, check : FastVec<u32>, free_list (never used), state_count }
     base[s]  : bits 0-30 = base value (NIL_STATE = 0x7FFF_FFFF = "no base yet"), bit 31 = terminal bit
     check[s] : bits 0-30 = parent state, bit 31 = free bit; a free slot holds NIL_STATE | FREE_BIT = 0xFFFF_FFFF
     child of s on symbol c = (base[s] & VALUE_MASK) + c, valid iff check[child] == s
     create_storage: base = [1], check = [0]  (the root, with base 1)

   Modelled, statement for statement: insert_double_array (the three "create transition" branches, including the
   unreachable `next_state == 0` one), find_free_base (= max(state/4, 1)), relocate_state (child collection over
   0..=255, the 'search loop with its +257 stride, its fall-back behind the arrays after 10000 colliding probes and
   its MAX_BASE test, the two move loops),
   update_grandchildren_check_values, contains_double_array, impl FiniteStateAutomaton::{is_final, transition},
   keys_double_array_actual / keys_with_prefix_double_array_actual / collect_keys_double_array_recursive,
   impl Trie::insert (num_keys from the pre-insert contains; `?` returns before the count on Err),
   ZiporaTrie::remove (`_ => Ok(false)`), impl Clone.  accepts / longest_prefix are the traits.rs defaults
   (ModelFsa.v) over da_transition / da_is_final.

   Words are N (the raw u32 values; & | as N.land / N.lor; saturating_add as min(a+b, u32::MAX)); positions are N.
   A FastVec<u32> is a length and a finite map from index to word; a read outside the length (a panic in Rust)
   yields the fill value, a write outside the length (a panic in Rust) is ignored: every such index is shown to be
   in range by the invariant of ProofsDaInv.v.  state_count and free_list are not modelled (no operation of the
   property reads them).  Debug eprintln! lines are not modelled. *)
From ZV.Common Require Import Base Run.
From Coq Require Import FMapPositive.
From ZV.C05 Require Import Model ModelFsa.
Open Scope N_scope.

(* ------------------------------------------------------------------ FastVec<u32> *)
Record arr := mkArr { a_len : N; a_map : PositiveMap.t N }.

Definition aget (dflt : N) (a : arr) (i : N) : N :=
  if i <? a_len a then
    match PositiveMap.find (N.succ_pos i) (a_map a) with Some v => v | None => dflt end
  else dflt.
Definition aset (a : arr) (i v : N) : arr :=
  if i <? a_len a then mkArr (a_len a) (PositiveMap.add (N.succ_pos i) v (a_map a)) else a.
(* resize(n, v) for n >= len: the new slots len .. n-1 are written with v *)
Fixpoint afill (m : PositiveMap.t N) (from : N) (count : nat) (v : N) : PositiveMap.t N :=
  match count with
  | O => m
  | S c => afill (PositiveMap.add (N.succ_pos from) v m) (from + 1) c v
  end.
Definition aresize (a : arr) (n v : N) : arr :=
  mkArr n (afill (a_map a) (a_len a) (N.to_nat (n - a_len a)) v).
Definition apush (a : arr) (v : N) : arr :=
  mkArr (a_len a + 1) (PositiveMap.add (N.succ_pos (a_len a)) v (a_map a)).
Definition aempty : arr := mkArr 0 (PositiveMap.empty N).

(* ------------------------------------------------------------------ constants of the functions *)
Definition TERMINAL_BIT : N := 2147483648.   (* 0x8000_0000 *)
Definition FREE_BIT : N := 2147483648.       (* 0x8000_0000 *)
Definition VALUE_MASK : N := 2147483647.     (* 0x7FFF_FFFF *)
Definition MAX_STATE : N := 2147483646.      (* 0x7FFF_FFFE *)
Definition NIL_STATE : N := 2147483647.      (* 0x7FFF_FFFF *)
Definition U32_MAX : N := 4294967295.
Definition MAX_BASE : N := 2147483390.       (* 0x7FFF_FFFE - 256: a base is a 31-bit value (after the fix of relocate_state) *)
Definition FREE_WORD : N := N.lor NIL_STATE FREE_BIT.   (* NIL_STATE | FREE_BIT *)
Definition MAX_ATTEMPTS : N := 10000.

Definition sat_add (a b : N) : N := N.min (a + b) U32_MAX.          (* u32::saturating_add *)
Definition has_term (w : N) : bool := negb (N.land w TERMINAL_BIT =? 0).
Definition is_free_word (w : N) : bool := negb (N.land w FREE_BIT =? 0).

(* ------------------------------------------------------------------ the storage *)
Record da := mkDa { d_base : arr; d_check : arr }.
Definition blen (d : da) : N := a_len (d_base d).
Definition clen (d : da) : N := a_len (d_check d).
Definition bget (d : da) (i : N) : N := aget NIL_STATE (d_base d) i.
Definition cget (d : da) (i : N) : N := aget FREE_WORD (d_check d) i.
Definition bset (d : da) (i v : N) : da := mkDa (aset (d_base d) i v) (d_check d).
Definition cset (d : da) (i v : N) : da := mkDa (d_base d) (aset (d_check d) i v).
(* base.resize(n, NIL_STATE); check.resize(n, NIL_STATE | FREE_BIT) *)
Definition da_resize (d : da) (n : N) : da :=
  mkDa (aresize (d_base d) n NIL_STATE) (aresize (d_check d) n FREE_WORD).
(* if pos as usize >= base.len() { resize both to pos + 1 } *)
Definition da_ensure (d : da) (pos : N) : da := if blen d <=? pos then da_resize d (pos + 1) else d.

(* create_storage: base.push(1); check.push(0) *)
Definition da_new : da := mkDa (apush aempty 1) (apush aempty 0).

(* find_free_base(_, _, state) = (state / 4).max(1) *)
Definition find_free_base (state : N) : N := N.max (state / 4) 1.

(* ------------------------------------------------------------------ update_grandchildren_check_values *)
Definition update_grandchildren (d : da) (old_parent_pos new_parent_pos : N) : da :=
  if new_parent_pos <? blen d then                                         (* base.get(new_parent_pos) *)
    let child_base := N.land (bget d new_parent_pos) VALUE_MASK in
    if negb (child_base =? 0) && negb (child_base =? NIL_STATE) then
      fold_left (fun d symbol =>
        let grandchild_pos := sat_add child_base symbol in
        if grandchild_pos <? clen d then
          let check_val := cget d grandchild_pos in
          if (N.land check_val FREE_BIT =? 0) && (check_val =? old_parent_pos)
          then cset d grandchild_pos new_parent_pos else d
        else d) byte_range d
    else d
  else d.

(* ------------------------------------------------------------------ relocate_state *)
(* (symbol, child_pos, child_base, is_terminal) *)
Definition child_t : Type := (N * N * N * bool)%type.
Definition c_sym (c : child_t) : N := let '(s, _, _, _) := c in s.
Definition c_pos (c : child_t) : N := let '(_, p, _, _) := c in p.
Definition c_base (c : child_t) : N := let '(_, _, b, _) := c in b.
Definition c_term (c : child_t) : bool := let '(_, _, _, t) := c in t.

Definition reloc_children (d : da) (state old_base : N) : list child_t :=
  flat_map (fun symbol =>
    let child_pos := sat_add old_base symbol in
    if child_pos <? clen d then
      let check_val := cget d child_pos in
      if (N.land check_val FREE_BIT =? 0) && (check_val =? state) then
        let child_base := if child_pos <? blen d then bget d child_pos else NIL_STATE in
        [(symbol, child_pos, child_base, has_term child_base)]
      else []
    else []) byte_range.

(* the 'search loop; attempts is the counter of the code, fuel only makes the recursion structural (the iteration
   with attempts = MAX_ATTEMPTS + 1 always returns, see ProofsDaReloc2.search_err).  As repaired by the fix: commit
   "relocate_state falls back to the end of the arrays": after MAX_ATTEMPTS colliding probes the base is moved behind
   the arrays (it used to be `attempts > 10000 || new_base > MAX_BASE => Err` with MAX_BASE = u32::MAX - 256) *)
Fixpoint reloc_search (fuel : nat) (d : da) (children : list child_t) (new_symbol new_base attempts : N)
  : da * option N :=
  match fuel with
  | O => (d, None)
  | S f =>
      let new_base := if MAX_ATTEMPTS <? attempts then N.max new_base (blen d) else new_base in   (* new_base.max(base.len()) *)
      if MAX_BASE <? new_base then (d, None)                                     (* Err("Cannot relocate state") *)
      else
        let new_pos := sat_add new_base new_symbol in
        let max_pos := fold_right N.max new_pos (map (fun c => sat_add new_base (c_sym c)) children) in
        let d1 := da_ensure d max_pos in
        let new_pos_check := cget d1 new_pos in
        if (new_pos =? 0) || negb (is_free_word new_pos_check) then
          reloc_search f d1 children new_symbol (sat_add new_base 257) (attempts + 1)
        else if existsb (fun c => let test_pos := sat_add new_base (c_sym c) in
                                  (test_pos =? 0) || negb (is_free_word (cget d1 test_pos))) children then
          reloc_search f d1 children new_symbol (sat_add new_base 257) (attempts + 1)
        else (d1, Some new_base)
  end.

(* check[old_pos] = NIL_STATE | FREE_BIT; base[old_pos] = NIL_STATE *)
Definition reloc_free_one (d : da) (c : child_t) : da := bset (cset d (c_pos c) FREE_WORD) (c_pos c) NIL_STATE.

Definition reloc_move_one (state new_base : N) (d : da) (c : child_t) : da :=
  let new_child_pos := sat_add new_base (c_sym c) in
  let d1 := cset d new_child_pos state in
  let base_value := N.land (c_base c) VALUE_MASK in
  let d2 := bset d1 new_child_pos (if c_term c then N.lor base_value TERMINAL_BIT else base_value) in
  if negb (base_value =? 0) && negb (base_value =? NIL_STATE)
  then update_grandchildren d2 (c_pos c) new_child_pos else d2.

(* Ok(new_base) = Some, Err = None; the arrays keep whatever was done before the error *)
Definition relocate_state (d : da) (state new_symbol : N) : da * option N :=
  let old_base := N.land (bget d state) VALUE_MASK in
  let children := reloc_children d state old_base in
  let initial_base := find_free_base state in
  match reloc_search (N.to_nat (MAX_ATTEMPTS + 2)) d children new_symbol initial_base 0 with
  | (d1, None) => (d1, None)
  | (d1, Some new_base) =>
      let d2 := fold_left reloc_free_one children d1 in
      let d3 := fold_left (reloc_move_one state new_base) children d2 in
      let state_base := bget d3 state in
      (bset d3 state (if has_term state_base then N.lor new_base TERMINAL_BIT else new_base), Some new_base)
  end.

(* ------------------------------------------------------------------ insert_double_array *)
(* check[pos] = parent; base[pos] = NIL_STATE  (state_count += 1 is not modelled) *)
Definition da_alloc (d : da) (pos parent : N) : da := bset (cset d pos parent) pos NIL_STATE.

(* the for loop over the key, current_state = cur; Some s = Ok(s), None = Err *)
Fixpoint da_ins_go (d : da) (cur : N) (key : list N) : da * option N :=
  match key with
  | [] => (bset d cur (N.lor (bget d cur) TERMINAL_BIT), Some cur)           (* base[current_state] |= TERMINAL_BIT *)
  | symbol :: rest =>
      let bv0 := N.land (bget d cur) VALUE_MASK in
      let '(d1, base_value) :=
        if bv0 =? NIL_STATE then
          let bvn := find_free_base cur in
          (bset d cur (N.lor bvn (N.land (bget d cur) TERMINAL_BIT)), bvn)
        else (d, bv0) in
      let next_state := sat_add base_value symbol in
      let d2 := da_ensure d1 next_state in
      let check_val := cget d2 next_state in
      let is_free := is_free_word check_val in
      if negb is_free && (check_val =? cur) then da_ins_go d2 next_state rest  (* transition exists *)
      else if next_state =? 0 then
        match relocate_state d2 cur symbol with
        | (d3, None) => (d3, None)
        | (d3, Some new_base) =>
            let new_next := sat_add new_base symbol in
            let d4 := da_ensure d3 new_next in
            da_ins_go (da_alloc d4 new_next cur) new_next rest
        end
      else if is_free then
        if MAX_STATE <? cur then (d2, None)
        else da_ins_go (da_alloc d2 next_state cur) next_state rest
      else
        match relocate_state d2 cur symbol with
        | (d3, None) => (d3, None)
        | (d3, Some new_base) =>
            let new_next := sat_add new_base symbol in
            let d4 := da_ensure d3 new_next in
            if MAX_STATE <? cur then (d4, None)
            else da_ins_go (da_alloc d4 new_next cur) new_next rest
        end
  end.

Definition da_insert (d : da) (key : list N) : da * option N :=
  let d0 := if blen d =? 0 then
              (* base.resize(1, NIL_STATE); check.resize(1, 0); base[0] = find_free_base(.., 0) *)
              bset (mkDa (aresize (d_base d) 1 NIL_STATE) (aresize (d_check d) 1 0)) 0 (find_free_base 0)
            else d in
  da_ins_go d0 0 key.                 (* the empty key is the [] case at the root: base[0] |= TERMINAL_BIT *)

(* ------------------------------------------------------------------ contains_double_array *)
Fixpoint da_contains_go (d : da) (cur : N) (key : list N) : bool :=
  match key with
  | [] => if cur <? blen d then has_term (bget d cur) else false
  | symbol :: rest =>
      if cur <? blen d then
        let next_state := sat_add (N.land (bget d cur) VALUE_MASK) symbol in
        if clen d <=? next_state then false
        else if cget d next_state =? cur then da_contains_go d next_state rest
        else false
      else false
  end.
Definition da_contains (d : da) (key : list N) : bool :=
  if blen d =? 0 then false else da_contains_go d 0 key.

(* ------------------------------------------------------------------ impl FiniteStateAutomaton *)
Definition da_is_final (d : da) (state : N) : bool :=
  if state <? blen d then has_term (bget d state) else false.
Definition da_transition (d : da) (state symbol : N) : option N :=
  if state <? blen d then
    let next_state := sat_add (N.land (bget d state) VALUE_MASK) symbol in
    if next_state <? clen d then
      if cget d next_state =? state then Some next_state else None
    else None
  else None.
Definition da_accepts (d : da) (input : list N) : bool := g_accepts (da_transition d) (da_is_final d) 0 input.
Definition da_longest_prefix (d : da) (input : list N) : option N :=
  g_longest_prefix (da_transition d) (da_is_final d) 0 input.

(* ------------------------------------------------------------------ keys / keys_with_prefix *)
Fixpoint da_collect (fuel : nat) (d : da) (state : N) (path_rev : list N) : list (list N) :=
  match fuel with
  | O => []
  | S f =>
      (if (state <? blen d) && has_term (bget d state) then [rev path_rev] else []) ++
      (if state <? blen d then
         let base_val := N.land (bget d state) VALUE_MASK in
         if (base_val =? 0) || (base_val =? NIL_STATE) then []
         else flat_map (fun symbol =>
                let next_state := sat_add base_val symbol in
                if next_state <? clen d then
                  if cget d next_state =? state then da_collect f d next_state (symbol :: path_rev) else []
                else []) byte_range
       else [])
  end.
Definition da_fuel (d : da) : nat := S (N.to_nat (blen d)).
Definition da_keys (d : da) : list (list N) :=
  if blen d =? 0 then [] else da_collect (da_fuel d) d 0 [].

Fixpoint da_prefix_walk (d : da) (cur : N) (p : list N) : option N :=
  match p with
  | [] => Some cur
  | symbol :: rest =>
      if cur <? blen d then
        let next_state := sat_add (N.land (bget d cur) VALUE_MASK) symbol in
        if clen d <=? next_state then None
        else if cget d next_state =? cur then da_prefix_walk d next_state rest else None
      else None
  end.
Definition da_prefix (d : da) (p : list N) : list (list N) :=
  if blen d =? 0 then []
  else match da_prefix_walk d 0 p with
       | None => []
       | Some c => da_collect (da_fuel d) d c (rev p)
       end.

(* ------------------------------------------------------------------ ZiporaTrie over the double array *)
Record dst := mkD { d_da : da; d_len : N }.
Definition d_empty : dst := mkD da_new 0.

(* impl Trie::insert: already_exists = contains(key); insert_double_array(..)?; if !already_exists { num_keys += 1 } *)
Definition d_insert (st : dst) (k : list N) : dst * bool :=
  let ex := da_contains (d_da st) k in
  match da_insert (d_da st) k with
  | (d', Some _) => (mkD d' (if ex then d_len st else d_len st + 1), true)
  | (d', None) => (mkD d' (d_len st), false)
  end.

(* impl Clone: a fresh trie, every key of keys() inserted (errors ignored), then the statistics copied *)
Definition d_clone (st : dst) : dst :=
  let st' := fold_left (fun s k => fst (d_insert s k)) (da_keys (d_da st)) d_empty in
  mkD (d_da st') (d_len st).

(* op codes as in Model.v: 0 insert, 1 remove, 2 contains, 3 len, 4 keys, 5 keys_with_prefix, 6 accepts,
   7 longest_prefix, 8 clone; an insert answers [[0]] for Ok and [[1]] for Err *)
Definition d_step (st : dst) (op : N * list N) : dst * obs :=
  let '(code, k) := op in
  match code with
  | 0 => let '(st', ok) := d_insert st k in (st', [[if ok then 0 else 1]])
  | 1 => (st, ob_bool false)                                         (* ZiporaTrie::remove: `_ => Ok(false)` *)
  | 2 => (st, ob_bool (da_contains (d_da st) k))
  | 3 => (st, [[d_len st]])
  | 4 => (st, da_keys (d_da st))
  | 5 => (st, da_prefix (d_da st) k)
  | 6 => (st, ob_bool (da_accepts (d_da st) k))
  | 7 => (st, ob_opt (da_longest_prefix (d_da st) k))
  | 8 => (d_clone st, [])
  | _ => (st, [])
  end.
Fixpoint d_run (st : dst) (ops : list (N * list N)) : list obs :=
  match ops with
  | [] => []
  | op :: t => let '(st', o) := d_step st op in o :: d_run st' t
  end.
Fixpoint d_exec (st : dst) (ops : list (N * list N)) : dst :=
  match ops with
  | [] => st
  | op :: t => d_exec (fst (d_step st op)) t
  end.
(* no insert of the history returned Err (a relocation would have needed a base beyond MAX_BASE) *)
Fixpoint d_noerr (st : dst) (ops : list (N * list N)) : bool :=
  match ops with
  | [] => true
  | op :: t =>
      (if fst op =? 0 then snd (d_insert st (snd op)) else true) && d_noerr (fst (d_step st op)) t
  end.

(* the same with clone steps: every insert of the history and every re-insertion done by a clone returned Ok *)
Fixpoint d_inserts_ok (L : list (list N)) (st : dst) : bool :=
  match L with
  | [] => true
  | k :: t => snd (d_insert st k) && d_inserts_ok t (fst (d_insert st k))
  end.
Definition d_clone_ok (st : dst) : bool := d_inserts_ok (da_keys (d_da st)) d_empty.
Fixpoint d_noerr_c (st : dst) (ops : list (N * list N)) : bool :=
  match ops with
  | [] => true
  | op :: t =>
      (if fst op =? 0 then snd (d_insert st (snd op)) else if fst op =? 8 then d_clone_ok st else true)
      && d_noerr_c (fst (d_step st op)) t
  end.
