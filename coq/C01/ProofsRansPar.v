(* rANS-64 with n interleaved streams: the layout (states | lengths | stream bytes) parses back, stream k
   holds positions k, k+n, ..., its length is the count the decoder computes, interleaving restores the
   payload.  For every n >= 1 (the code instantiates 1, 2, 4, 8) and every length, below n included. *)
From ZV.Common Require Import Base.
From ZV.C01 Require Import ModelLz ModelRans ProofsRans.
Open Scope N_scope.

(* ---------- streams ---------- *)
Lemma nth_pick n : forall d k j, (k < n)%nat -> nth j (pick n k d) 0 = nth (k + j * n) d 0.
Proof.
  induction d as [|x r IH]; intros k j Hk.
  - cbn [pick]. destruct j; destruct (k + _)%nat; reflexivity.
  - cbn [pick]. destruct k as [|k'].
    + destruct j as [|j']; [reflexivity|]. cbn [nth]. rewrite IH by lia.
      replace (0 + S j' * n)%nat with (S (n - 1 + j' * n)) by lia. reflexivity.
    + rewrite IH by lia. reflexivity.
Qed.

Lemma length_pick_char n : (0 < n)%nat -> forall d k, (k < n)%nat ->
  (length d <= k + length (pick n k d) * n)%nat /\
  (length (pick n k d) = 0 \/ k + (length (pick n k d) - 1) * n < length d)%nat.
Proof.
  intros Hn. induction d as [|x r IH]; intros k Hk.
  - cbn [pick length]. lia.
  - cbn [pick]. destruct k as [|k'].
    + cbn [length]. destruct (IH (n - 1)%nat ltac:(lia)) as (H1 & H2). split; [nia|].
      right. destruct H2 as [H2|H2]; [rewrite H2; lia|].
      replace (S (length (pick n (n - 1) r)) - 1)%nat with (length (pick n (n - 1) r)) by lia.
      destruct (length (pick n (n - 1) r)) as [|m]; [lia|].
      replace (S m - 1)%nat with m in H2 by lia. nia.
    + cbn [length]. destruct (IH k' ltac:(lia)) as (H1 & H2). split; [lia|].
      destruct H2 as [H2|H2]; [left; exact H2|right; lia].
Qed.

Lemma length_pick n d k : (0 < n)%nat -> (k < n)%nat ->
  length (pick n k d) = stream_count n (length d) k.
Proof.
  intros Hn Hk. destruct (length_pick_char n Hn d k Hk) as (H1 & H2).
  unfold stream_count.
  pose proof (PeanoNat.Nat.div_mod_eq (length d) n) as Hdm.
  pose proof (PeanoNat.Nat.mod_upper_bound (length d) n ltac:(lia)) as Hr.
  set (L := length (pick n k d)) in *. set (q := (length d / n)%nat) in *. set (r := (length d mod n)%nat) in *.
  destruct (Nat.ltb_spec k r) as [Hkr|Hkr].
  - (* L = q + 1 *)
    assert (q < L)%nat by nia.
    destruct H2 as [H2|H2]; [lia|].
    assert (L - 1 <= q)%nat by nia. lia.
  - (* L = q *)
    assert (q <= L)%nat by nia.
    destruct H2 as [H2|H2]; [lia|].
    assert (L - 1 < q)%nat by nia. lia.
Qed.

Lemma map_nth_seq (d : list N) : map (fun i => nth i d 0) (seq 0 (length d)) = d.
Proof.
  induction d as [|x r IH]; [reflexivity|].
  cbn [length seq map nth]. f_equal. rewrite <- seq_shift, map_map. exact IH.
Qed.

Lemma nth_streams n d k : (k < n)%nat -> nth k (streams n d) [] = pick n k d.
Proof.
  intros Hk. unfold streams.
  rewrite (nth_indep _ [] (pick n 0 d)) by (rewrite map_length, seq_length; lia).
  rewrite (map_nth (fun k => pick n k d) (seq 0 n) 0%nat k). rewrite seq_nth by lia. reflexivity.
Qed.

Lemma interleave_streams n d : (0 < n)%nat -> interleave n (length d) (streams n d) = d.
Proof.
  intros Hn. unfold interleave. transitivity (map (fun i => nth i d 0) (seq 0 (length d))); [|apply map_nth_seq].
  apply map_ext_in. intros i Hi. apply in_seq in Hi.
  pose proof (PeanoNat.Nat.mod_upper_bound i n ltac:(lia)) as Hr.
  rewrite nth_streams by lia. rewrite nth_pick by lia.
  f_equal. pose proof (PeanoNat.Nat.div_mod_eq i n). lia.
Qed.

(* ---------- how many bytes a stream can take ---------- *)
Lemma enc_renorm_none fuel x xmax rout : x < xmax -> enc_renorm fuel x xmax rout = (x, rout).
Proof. intros H. destruct fuel; cbn [enc_renorm]; [reflexivity|]. destruct (N.leb_spec xmax x); [lia|reflexivity]. Qed.

Lemma enc_renorm_len fuel x xmax rout :
  x < STATE_BOUND -> 4096 <= xmax -> nlen (snd (enc_renorm fuel x xmax rout)) <= nlen rout + 2.
Proof.
  unfold STATE_BOUND. intros Hx Hm.
  destruct fuel as [|f1]; cbn [enc_renorm]; [cbn [snd]; lia|].
  destruct (N.leb_spec xmax x); [|cbn [snd]; lia].
  destruct f1 as [|f2]; cbn [enc_renorm]; [cbn [snd nlen]; lia|].
  destruct (N.leb_spec xmax (x / 256)); [|cbn [snd nlen]; lia].
  rewrite enc_renorm_none by lia. cbn [snd nlen]. lia.
Qed.

Lemma enc_all_len t : forall d st, wf_table t -> enc_all t d = Some st -> nlen (snd st) <= 2 * nlen d.
Proof.
  induction d as [|s d IH]; intros st Hwf H; cbn [enc_all] in H.
  - assert (st = (RANS_L, [])) by congruence. subst st. cbn [snd nlen]. lia.
  - destruct (enc_all t d) as [st0|] eqn:E0; [|discriminate].
    destruct (enc_all_inv t d st0 Hwf E0) as ((_ & Hhi) & _ & _).
    specialize (IH st0 Hwf eq_refl).
    unfold enc_symbol in H. destruct (N.eqb_spec (freq_of t s) 0) as [|Hf]; [discriminate|].
    pose proof (enc_renorm_len 8 (fst st0) (XMAX_UNIT * freq_of t s) (snd st0) Hhi ltac:(unfold XMAX_UNIT; lia)) as Hl.
    destruct (enc_renorm 8 (fst st0) (XMAX_UNIT * freq_of t s) (snd st0)) as [x1 r1].
    assert (st = ((x1 / freq_of t s) * TOTFREQ + x1 mod freq_of t s + start_of t s, r1)) by congruence. subst st.
    cbn [snd nlen] in *. lia.
Qed.

(* ---------- parsing the layout ---------- *)
Lemma skipn_app_exact {A} n (a b : list A) : length a = n -> skipn n (a ++ b) = b.
Proof. intros <-. rewrite skipn_app, PeanoNat.Nat.sub_diag, skipn_all. reflexivity. Qed.
Lemma firstn_app_exact {A} n (a b : list A) : length a = n -> firstn n (a ++ b) = a.
Proof. intros <-. rewrite firstn_app, PeanoNat.Nat.sub_diag, firstn_all. cbn [firstn]. apply app_nil_r. Qed.

Lemma take_words_emit w : forall xs rest, Forall (fun x => x < p256 w) xs ->
  take_words (length xs) w (concat (map (le_bytes w) xs) ++ rest) = Some (xs, rest).
Proof.
  induction xs as [|x xs IH]; intros rest Hf; [reflexivity|].
  inversion Hf as [|? ? Hx Hxs]; subst.
  cbn [length take_words map concat]. rewrite <- app_assoc.
  rewrite app_length, length_le_bytes.
  destruct (Nat.ltb_spec (w + length (concat (map (le_bytes w) xs) ++ rest)) w); [lia|].
  rewrite skipn_app_exact by apply length_le_bytes.
  rewrite firstn_app_exact by apply length_le_bytes.
  rewrite IH by assumption. rewrite from_le_le_bytes by assumption. reflexivity.
Qed.

Lemma take_slices_emit : forall (ds : list (list N)) rest,
  take_slices (map nlen ds) (concat ds ++ rest) = Some ds.
Proof.
  induction ds as [|x ds IH]; intros rest; [reflexivity|].
  cbn [map take_slices concat]. rewrite <- app_assoc. rewrite nlen_app.
  destruct (N.ltb_spec (nlen x + nlen (concat ds ++ rest)) (nlen x)); [lia|].
  rewrite nlen_length, Nnat.Nat2N.id.
  rewrite skipn_app_exact by reflexivity. rewrite firstn_app_exact by reflexivity.
  rewrite IH. reflexivity.
Qed.

(* ---------- streams decode ---------- *)
Lemma enc_streams_spec t : forall ss sts, enc_streams t ss = Some sts ->
  length sts = length ss /\ forall i, (i < length ss)%nat -> enc_all t (nth i ss []) = Some (nth i sts (0, [])).
Proof.
  induction ss as [|s ss IH]; intros sts H; cbn [enc_streams] in H.
  - assert (sts = []) by congruence. subst. split; [reflexivity|]. intros i Hi. cbn [length] in Hi. lia.
  - destruct (enc_all t s) as [st|] eqn:E; [|discriminate].
    destruct (enc_streams t ss) as [sts'|] eqn:E'; [|discriminate].
    assert (sts = st :: sts') by congruence. subst sts.
    destruct (IH sts' eq_refl) as (Hl & Hn). split; [cbn [length]; lia|].
    intros i Hi. destruct i as [|i]; [exact E|]. cbn [nth]. apply Hn. cbn [length] in Hi. lia.
Qed.

Lemma dec_streams_ok t n len : wf_table t ->
  forall (ss : list (list N)) (sts : list (N * list N)) k,
  length sts = length ss ->
  (forall i, (i < length ss)%nat -> enc_all t (nth i ss []) = Some (nth i sts (0, [])) /\
                                     length (nth i ss []) = stream_count n len (k + i)) ->
  dec_streams t n len k (map fst sts) (map (fun st => rev (snd st)) sts) = Some ss.
Proof.
  intros Hwf. induction ss as [|s ss IH]; intros sts k Hl Hi.
  - destruct sts; [reflexivity|discriminate].
  - destruct sts as [|st sts]; [discriminate|]. cbn [map dec_streams].
    destruct (Hi 0%nat ltac:(cbn [length]; lia)) as (He & Hc). cbn [nth] in He, Hc.
    rewrite PeanoNat.Nat.add_0_r in Hc. rewrite <- Hc.
    destruct (enc_all_inv t s st Hwf He) as ((Hlo & _) & _ & Hdec).
    rewrite rev_involutive.
    rewrite (Hdec (fst st, snd st)) by (cbn [fst snd]; rewrite dec_renorm_ge by exact Hlo; destruct st; reflexivity).
    rewrite (IH sts (S k)); [reflexivity|cbn [length] in Hl; lia|].
    intros i Hlt. destruct (Hi (S i) ltac:(cbn [length]; lia)) as (He' & Hc'). cbn [nth] in He', Hc'.
    split; [exact He'|]. rewrite Hc'. f_equal. lia.
Qed.

Lemma map_concat_map {A B} (f : A -> list B) (g : A -> A) l : map f (map g l) = map (fun x => f (g x)) l.
Proof. apply map_map. Qed.

Lemma decode_parallel_encode_parallel n t d bytes :
  (0 < n)%nat -> wf_table t -> N.of_nat (length d) <= MAX_DECOMPRESSED_SIZE ->
  encode_parallel n t d = Some bytes -> decode_parallel n t bytes (length d) = Some d.
Proof.
  intros Hn Hwf Hmax He. unfold encode_parallel in He. unfold decode_parallel.
  destruct (Nat.ltb_spec (length d) n) as [Hsmall|Hbig].
  - apply decode_single_encode_single; assumption.
  - destruct (enc_streams t (streams n d)) as [sts|] eqn:Es; [|discriminate].
    assert (Hb : bytes = parallel_layout sts) by congruence. subst bytes. clear He.
    destruct (enc_streams_spec t (streams n d) sts Es) as (Hlen & Hnth).
    assert (Hsl : length (streams n d) = n) by (unfold streams; rewrite map_length, seq_length; reflexivity).
    rewrite Hsl in *.
    (* every stream is short enough for its u32 length field *)
    assert (Hshort : forall st, In st sts -> fst st < p256 8 /\ nlen (snd st) < W32).
    { intros st Hin. destruct (In_nth sts st (0, []) Hin) as (i & Hi & Hst). rewrite Hlen in Hi.
      specialize (Hnth i Hi). rewrite Hst in Hnth. rewrite nth_streams in Hnth by lia.
      destruct (enc_all_inv t _ st Hwf Hnth) as ((_ & Hhi) & _ & _).
      pose proof (enc_all_len t _ st Hwf Hnth) as Hl2.
      assert (length (pick n i d) <= length d)%nat.
      { rewrite length_pick by lia. unfold stream_count.
        pose proof (PeanoNat.Nat.div_mod_eq (length d) n).
        pose proof (PeanoNat.Nat.mod_upper_bound (length d) n ltac:(lia)).
        destruct (Nat.ltb_spec i (length d mod n)); nia. }
      rewrite (nlen_length (pick n i d)) in Hl2. unfold STATE_BOUND in Hhi. unfold MAX_DECOMPRESSED_SIZE in Hmax. unfold W32.
      cbn [p256]. split; lia. }
    unfold parallel_layout.
    rewrite !app_length.
    assert (Hl8 : length (concat (map (fun st => le_bytes 8 (fst st)) sts)) = (n * 8)%nat).
    { rewrite <- Hlen. clear. induction sts as [|a l IH]; [reflexivity|].
      cbn [map concat length]. rewrite app_length, length_le_bytes, IH. lia. }
    assert (Hl4 : length (concat (map (fun st => le_bytes 4 (nlen (snd st) mod W32)) sts)) = (n * 4)%nat).
    { rewrite <- Hlen. clear. induction sts as [|a l IH]; [reflexivity|].
      cbn [map concat length]. rewrite app_length, length_le_bytes, IH. lia. }
    rewrite Hl8, Hl4.
    destruct (Nat.ltb_spec (n * 8 + (n * 4 + length (concat (map (fun st => rev (snd st)) sts)))) (n * 8 + n * 4)); [lia|].
    (* states *)
    replace (map (fun st => le_bytes 8 (fst st)) sts) with (map (le_bytes 8) (map fst sts)) by apply map_map.
    replace n with (length (map fst sts)) at 1 by (rewrite map_length; exact Hlen).
    rewrite take_words_emit.
    2:{ apply Forall_forall. intros x Hx. apply in_map_iff in Hx. destruct Hx as (st & <- & Hin). apply Hshort; exact Hin. }
    (* lengths *)
    replace (map (fun st => le_bytes 4 (nlen (snd st) mod W32)) sts)
      with (map (le_bytes 4) (map nlen (map (fun st => rev (snd st)) sts))).
    2:{ rewrite !map_map. apply map_ext_in. intros st Hin. rewrite nlen_length, rev_length, <- nlen_length.
        rewrite N.mod_small by (apply Hshort; exact Hin). reflexivity. }
    replace n with (length (map nlen (map (fun st => rev (snd st)) sts))) at 1 by (rewrite !map_length; exact Hlen).
    rewrite take_words_emit.
    2:{ apply Forall_forall. intros x Hx. rewrite map_map in Hx. apply in_map_iff in Hx. destruct Hx as (st & <- & Hin).
        rewrite nlen_length, rev_length, <- nlen_length. cbn [p256]. pose proof (Hshort st Hin) as (_ & H4). unfold W32 in H4. lia. }
    (* slices *)
    rewrite <- (app_nil_r (concat (map (fun st => rev (snd st)) sts))).
    rewrite take_slices_emit.
    (* streams *)
    rewrite (dec_streams_ok t n (length d) Hwf (streams n d) sts 0).
    + rewrite interleave_streams by exact Hn. reflexivity.
    + rewrite Hsl. exact Hlen.
    + rewrite Hsl. intros i Hi. split; [apply Hnth; exact Hi|].
      rewrite nth_streams by lia. rewrite length_pick by lia. reflexivity.
Qed.

Lemma parallel_roundtrip_proof n t d bytes :
  (1 <= n)%nat -> wf_table t -> N.of_nat (length d) <= MAX_DECOMPRESSED_SIZE ->
  encode n t d = Some bytes -> decode n t bytes (length d) = Some d.
Proof.
  intros Hn Hwf Hlen He. unfold encode, decode in *.
  destruct d as [|s d]; [reflexivity|]. cbn [length] in *.
  destruct (N.ltb_spec MAX_DECOMPRESSED_SIZE (N.of_nat (S (length d)))) as [H|_]; [lia|].
  destruct (n =? 1)%nat.
  - apply (decode_single_encode_single t (s :: d) bytes Hwf He).
  - apply (decode_parallel_encode_parallel n t (s :: d) bytes ltac:(lia) Hwf); [cbn [length]; lia|exact He].
Qed.

(* hypotheses are satisfiable: a 3-symbol table, 11 bytes over 4 streams (11 mod 4 = 3) and 3 bytes over 8 *)
Definition ex_table : list N := [2048; 1024; 1024].
Example parallel_example :
  wf_table ex_table /\
  (exists b, encode 4 ex_table [0;1;2;0;0;1;2;2;1;0;0] = Some b /\ decode 4 ex_table b 11 = Some [0;1;2;0;0;1;2;2;1;0;0]) /\
  (exists b, encode 8 ex_table [2;1;0] = Some b /\ decode 8 ex_table b 3 = Some [2;1;0]).
Proof.
  split; [unfold wf_table; vm_compute; discriminate|].
  split; eexists; split; vm_compute; reflexivity.
Qed.
