(* C01: the parallel Huffman front end.  For every history of train / encode calls on one encoder object and every
   stream count, what an encode call returns is decoded by a ParallelHuffmanDecoder whose tree is
   HuffmanTree::from_data of the text in force (the last training text, or the first payload of an untrained
   encoder) - from the single-lane theorem huff_roundtrip. *)
From ZV.Common Require Import Base.
From Coq Require Import Permutation.
From ZV.C01 Require Import Model ModelCtx ModelNew ModelPar ProofsBits ProofsHuff ProofsTree ProofsCtx ProofsHeap
     ProofsNew ProofsNew2.
Open Scope N_scope.

Lemma from_data_wf heap_of t : heap_any heap_of -> bytes_ok t -> N.of_nat (length t) < W32 ->
  exists ht, from_data heap_of t = Some ht /\ wf_ht ht = true.
Proof.
  intros Hh Ht Hn. unfold from_data.
  destruct (count_bytes_ok t Ht Hn) as [fr [Hc [Hlen _]]]. rewrite Hc. unfold from_freqs.
  destruct (present fr) as [|s syms] eqn:Hp.
  - eexists. split; reflexivity.
  - destruct (from_heap_ok (present fr) (heap_of fr)) as [ht [H1 [H2 _]]].
    + rewrite Hp. discriminate.
    + unfold present. pose proof (present_go_len_le fr 0). lia.
    + apply Hh. rewrite Hp. discriminate.
    + rewrite Hp in H1. exists ht. split; assumption.
Qed.

Lemma train_loop_ok heap_of t ht : from_data heap_of t = Some ht ->
  forall k encs, train_loop heap_of k t encs = (encs ++ repeat ht k, true).
Proof.
  intros H. induction k as [|k IH]; intros encs; cbn [train_loop repeat].
  - now rewrite app_nil_r.
  - rewrite H, IH, <- app_assoc. reflexivity.
Qed.
Lemma p_train_ok heap_of n t st ht : from_data heap_of t = Some ht ->
  p_train heap_of n t st = (mkP (repeat ht n) (Some ht), true).
Proof. intros H. unfold p_train. rewrite (train_loop_ok heap_of t ht H). cbn [app]. now rewrite H. Qed.

Definition pop_ok (o : pop) : Prop :=
  match o with PTrain t => bytes_ok t /\ N.of_nat (length t) < W32 | PEnc d => bytes_ok d /\ N.of_nat (length d) < W32 end.
(* the state of a trained object: STREAMS encoders on the tree of the text in force *)
Definition p_inv (heap_of : list N -> tree) (n : nat) (st : penc) (txt : option (list N)) : Prop :=
  p_encs st = [] \/
  exists t ht, txt = Some t /\ from_data heap_of t = Some ht /\ wf_ht ht = true /\ p_encs st = repeat ht n.

Theorem par_roundtrip_proof : forall heap_of n ops, heap_any heap_of -> (1 <= n)%nat -> Forall pop_ok ops ->
  forall d b txt, In (d, Some b, txt) (p_run heap_of n ops p_new None) ->
  exists t ht, txt = Some t /\ from_data heap_of t = Some ht /\
               pd_decode (pd_set_tree n ht) b (length d) = Some d.
Proof.
  intros heap_of n ops Hh Hn Hops.
  assert (Hgen : forall st txt, p_inv heap_of n st txt ->
            forall d b tx, In (d, Some b, tx) (p_run heap_of n ops st txt) ->
            exists t ht, tx = Some t /\ from_data heap_of t = Some ht /\
                         pd_decode (pd_set_tree n ht) b (length d) = Some d).
  { induction Hops as [|o ops Ho _ IH]; intros st txt Hinv d b tx Hin; [destruct Hin|].
    destruct o as [t|x]; cbn [p_run] in Hin; cbn [pop_ok] in Ho; destruct Ho as [Hb Hl].
    - destruct (from_data_wf heap_of t Hh Hb Hl) as [ht [Hfd Hwf]].
      rewrite (p_train_ok heap_of n t st ht Hfd) in Hin.
      eapply IH; cycle 1; [exact Hin|].
      right. exists t, ht. repeat split; assumption.
    - (* encode *)
      assert (Hst : exists t ht st1, p_encode heap_of n x st = (st1, huff_encode ht x) /\
                     from_data heap_of t = Some ht /\ wf_ht ht = true /\ p_encs st1 = repeat ht n /\
                     (match p_encs st with [] => Some x | _ => txt end) = Some t).
      { destruct Hinv as [Hempty|[t [ht [Htx [Hfd [Hwf Henc]]]]]].
        - destruct (from_data_wf heap_of x Hh Hb Hl) as [ht [Hfd Hwf]].
          exists x, ht, (mkP (repeat ht n) (Some ht)). unfold p_encode. rewrite Hempty.
          rewrite (p_train_ok heap_of n x st ht Hfd). cbn [p_encs].
          destruct n as [|n']; [lia|]. cbn [repeat]. repeat split; try assumption; try reflexivity.
        - exists t, ht, st. unfold p_encode. rewrite Henc.
          destruct n as [|n']; [lia|]. cbn [repeat]. rewrite Henc. cbn [repeat].
          repeat split; assumption. }
      destruct Hst as [t [ht [st1 [Hpe [Hfd [Hwf [Hencs Htxt]]]]]]].
      rewrite Hpe, Htxt, Hencs in Hin.
      assert (Hne : repeat ht n <> []) by (destruct n; [lia|discriminate]).
      destruct (repeat ht n) as [|e0 er] eqn:Hrep; [congruence|].
      destruct Hin as [Heq|Hin].
      + injection Heq as <- Hout <-. exists t, ht. split; [reflexivity|]. split; [exact Hfd|].
        unfold pd_decode, pd_set_tree. rewrite Hrep.
        assert (He0 : e0 = ht).
        { destruct n; [lia|]. cbn [repeat] in Hrep. now injection Hrep as <- _. }
        subst e0. now apply huff_roundtrip_proof.
      + eapply IH; cycle 1; [exact Hin|].
        right. exists t, ht. rewrite Hencs, Hrep. repeat split; assumption. }
  apply Hgen. now left.
Qed.

(* the lanes have no influence: what any ParallelHuffmanEncoder<P> returns is what a plain HuffmanEncoder on the
   text in force returns *)
Theorem par_is_single_lane_proof : forall heap_of n ops, heap_any heap_of -> (1 <= n)%nat -> Forall pop_ok ops ->
  forall d out txt, In (d, out, txt) (p_run heap_of n ops p_new None) ->
  exists t ht, txt = Some t /\ from_data heap_of t = Some ht /\ out = huff_encode ht d.
Proof.
  intros heap_of n ops Hh Hn Hops.
  assert (Hgen : forall st txt, p_inv heap_of n st txt ->
            forall d out tx, In (d, out, tx) (p_run heap_of n ops st txt) ->
            exists t ht, tx = Some t /\ from_data heap_of t = Some ht /\ out = huff_encode ht d).
  { induction Hops as [|o ops Ho _ IH]; intros st txt Hinv d out tx Hin; [destruct Hin|].
    destruct o as [t|x]; cbn [p_run] in Hin; cbn [pop_ok] in Ho; destruct Ho as [Hb Hl].
    - destruct (from_data_wf heap_of t Hh Hb Hl) as [ht [Hfd Hwf]].
      rewrite (p_train_ok heap_of n t st ht Hfd) in Hin.
      eapply IH; cycle 1; [exact Hin|].
      right. exists t, ht. repeat split; assumption.
    - assert (Hst : exists t ht st1, p_encode heap_of n x st = (st1, huff_encode ht x) /\
                     from_data heap_of t = Some ht /\ wf_ht ht = true /\ p_encs st1 = repeat ht n /\
                     (match p_encs st with [] => Some x | _ => txt end) = Some t).
      { destruct Hinv as [Hempty|[t [ht [Htx [Hfd [Hwf Henc]]]]]].
        - destruct (from_data_wf heap_of x Hh Hb Hl) as [ht [Hfd Hwf]].
          exists x, ht, (mkP (repeat ht n) (Some ht)). unfold p_encode. rewrite Hempty.
          rewrite (p_train_ok heap_of n x st ht Hfd). cbn [p_encs].
          destruct n as [|n']; [lia|]. cbn [repeat]. repeat split; try assumption; try reflexivity.
        - exists t, ht, st. unfold p_encode. rewrite Henc.
          destruct n as [|n']; [lia|]. cbn [repeat]. rewrite Henc. cbn [repeat].
          repeat split; assumption. }
      destruct Hst as [t [ht [st1 [Hpe [Hfd [Hwf [Hencs Htxt]]]]]]].
      rewrite Hpe, Htxt, Hencs in Hin.
      destruct (repeat ht n) as [|e0 er] eqn:Hrep; [destruct n; [lia|discriminate]|].
      destruct Hin as [Heq|Hin].
      + injection Heq as <- <- <-. exists t, ht. repeat split; assumption.
      + eapply IH; cycle 1; [exact Hin|].
        right. exists t, ht. rewrite Hencs, Hrep. repeat split; assumption. }
  apply Hgen. now left.
Qed.

(* ------------------------------------------------------------------ *)
(* every symbol of the text gets a code: from_data covers its own text   *)
(* ------------------------------------------------------------------ *)
Lemma bump_nth : forall fr i fr', bump i fr = Some fr' ->
  length fr' = length fr /\ 0 < nth i fr' 0 /\ forall k, nth k fr 0 <= nth k fr' 0.
Proof.
  induction fr as [|h t IH]; intros i fr' H; [destruct i; discriminate|].
  destruct i as [|i]; cbn [bump] in H.
  - destruct (h + 1 <? W32); [|discriminate]. injection H as <-. cbn [length nth].
    split; [reflexivity|]. split; [lia|]. intros [|k]; cbn [nth]; lia.
  - destruct (bump i t) as [t'|] eqn:Hb; [|discriminate]. injection H as <-.
    destruct (IH i t' Hb) as [Hl [Hp Hm]]. cbn [length nth]. split; [lia|]. split; [exact Hp|].
    intros [|k]; cbn [nth]; [lia|apply Hm].
Qed.
Lemma count_go_pos : forall d fr fr', count_go d fr = Some fr' ->
  (forall k, nth k fr 0 <= nth k fr' 0) /\ forall s, In s d -> 0 < nth (N.to_nat s) fr' 0.
Proof.
  induction d as [|b d IH]; intros fr fr' H; cbn [count_go] in H.
  - injection H as <-. split; [intros; lia|intros s []].
  - destruct (bump (N.to_nat b) fr) as [fr1|] eqn:Hb; [|discriminate].
    destruct (bump_nth _ _ _ Hb) as [_ [Hp Hm]]. destruct (IH fr1 fr' H) as [Hmono Hin].
    split; [intros k; specialize (Hm k); specialize (Hmono k); lia|].
    intros s [<-|Hs]; [specialize (Hmono (N.to_nat b)); lia|now apply Hin].
Qed.
Lemma present_go_in : forall fr i k, 0 < nth k fr 0 -> In (i + N.of_nat k) (present_go fr i).
Proof.
  induction fr as [|h t IH]; intros i k Hk; [destruct k; cbn [nth] in Hk; lia|].
  cbn [present_go]. destruct k as [|k]; cbn [nth] in Hk.
  - replace (0 <? h) with true by (symmetry; now apply N.ltb_lt). left. cbn. lia.
  - assert (Hin : In (i + 1 + N.of_nat k) (present_go t (i + 1))) by now apply IH.
    replace (i + N.of_nat (S k)) with (i + 1 + N.of_nat k) by lia.
    destruct (0 <? h); [now right|exact Hin].
Qed.
Lemma from_data_covers heap_of t ht : heap_any heap_of -> bytes_ok t -> N.of_nat (length t) < W32 ->
  from_data heap_of t = Some ht -> forall s, In s t -> get_code (ht_codes ht) s <> None.
Proof.
  intros Hh Ht Hn Hfd s Hs. unfold from_data in Hfd.
  destruct (count_bytes_ok t Ht Hn) as [fr [Hc [Hlen _]]]. rewrite Hc in Hfd. unfold from_freqs in Hfd.
  unfold count_bytes in Hc. destruct (count_go_pos _ _ _ Hc) as [_ Hpos].
  assert (Hin : In s (present fr)).
  { unfold present. replace s with (0 + N.of_nat (N.to_nat s)) by lia. apply present_go_in. now apply Hpos. }
  destruct (from_heap_ok (present fr) (heap_of fr)) as [ht' [H1 [_ [_ Hcov]]]].
  - intros Hnil. rewrite Hnil in Hin. destruct Hin.
  - unfold present. pose proof (present_go_len_le fr 0). lia.
  - apply Hh. intros Hnil. rewrite Hnil in Hin. destruct Hin.
  - rewrite H1 in Hfd. injection Hfd as <-. now apply Hcov.
Qed.

(* AdaptiveParallelEncoder::encode_adaptive on its Huffman arms never refuses, and a HuffmanDecoder on
   from_data(payload) returns the payload - whatever the member object had been used for before *)
Theorem adaptive_huffman_roundtrip_proof : forall heap_of d st, heap_any heap_of ->
  bytes_ok d -> N.of_nat (length d) < W32 ->
  exists ht b st', from_data heap_of d = Some ht /\ ad_huffman heap_of d st = (st', Some b) /\
                   huff_decode ht b (length d) = Some d.
Proof.
  intros heap_of d st Hh Hd Hn.
  destruct (from_data_wf heap_of d Hh Hd Hn) as [ht [Hfd Hwf]].
  destruct (huff_encode_total_proof ht d) as [b Hb].
  { intros s Hs. now apply (from_data_covers heap_of d ht Hh Hd Hn Hfd). }
  exists ht, b, (mkP (repeat ht (ad_streams (N.of_nat (length d)))) (Some ht)).
  split; [exact Hfd|]. split; [|now apply huff_roundtrip_proof].
  unfold ad_huffman. rewrite (p_train_ok heap_of _ d st ht Hfd). unfold p_encode. cbn [p_encs].
  assert (Hs : exists k, ad_streams (N.of_nat (length d)) = S k).
  { unfold ad_streams. destruct (_ <? 65536); [now exists 1%nat|]. destruct (_ <? 1048576); [now exists 3%nat|now exists 7%nat]. }
  destruct Hs as [k ->]. cbn [repeat p_encs]. now rewrite Hb.
Qed.

Example ex_par_run :
  map (fun r => snd (fst r)) (p_run heap_left 4 [PEnc [97; 98; 97]; PTrain [97; 98; 99; 99]; PEnc [99; 97]] p_new None)
  = [Some [2]; Some [1]].
Proof. vm_compute. reflexivity. Qed.
Example ex_pop_ok : Forall pop_ok [PEnc [97; 98; 97]; PTrain [97; 98; 99; 99]; PEnc [99; 97]].
Proof. repeat constructor; cbn; unfold is_byte, W32; lia. Qed.
