(* C01 mechanism model, FSE (rANS with 32-bit renormalisation).  Definitions only.  (under construction) *)
From ZV.Common Require Import Base.
From ZV.C01 Require Import ModelLz ModelRans.
Open Scope N_scope.

(* ---------- evaluation entry point for harness-generated cases (ops >= 100) ---------- *)
Definition opt_out (o : option (list N)) : list N :=
  match o with Some l => 1 :: l | None => [0] end.
Definition run_case_b (op : N) (a b : list N) : list N :=
  match op with
  | 100 => opt_out (table_of_counts a)
  | 101 => match a with
           | n :: t => opt_out (encode (N.to_nat n) t b)
           | _ => [98]
           end
  | 102 => match a with
           | n :: len :: t => opt_out (decode (N.to_nat n) t b (N.to_nat len))
           | _ => [98]
           end
  | 120 => opt_out (decompress a)
  | 121 => match a with
           | minl :: maxl :: _ => 1 :: compress minl maxl b
           | _ => [98]
           end
  | _ => [99]
  end.
