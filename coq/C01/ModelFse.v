(* C01 mechanism model, "FSE" (src/entropy/fse.rs): in this code base a rANS coder with 32-bit renormalisation,
   initial state 1, a header with the raw symbol counts, a raw path for short inputs and a block container.
   Definitions only.

   As written (after the fixes recorded in findings/C01_b.txt):
     FseTable::init_enc_symbol          - Alverson reciprocal (rcp_freq, rcp_shift, bias, cmpl_freq)
     FseTable::mul_hi                   - high word of the 128-bit product (mul_hi_old: the limb version before the fix)
     FseTable::encode_symbol            - q = mul_hi(x, rcp) >> shift ; x + bias + q * cmpl_freq
     FseTable::renormalize_encode       - if x >= ((L >> 12) << 32) * freq { write (x as u32) LE; x >>= 32 }
     FseTable::decode_symbol            - slot lookup, freq * (x >> 12) + slot - start, with its max(1) guards
     FseTable::renormalize_decode       - if x < L && pos >= 4 { pos -= 4; x = x << 32 | u32 LE at pos } ; max(1)
     FseEncoder::compress_single_internal, compress_parallel, merge_compressed_blocks, compress
     FseDecoder::decompress (container sniffing), fse_decompress_single, fse_decompress_parallel
   The normalised table (FseTable::new: EntropyNormalizer, f64) is NOT modelled: `norm` maps the 256 raw counts
   to the 256 normalised frequencies and is a parameter of compress and decompress alike (None = FseTable::new
   fails); in correspondence cases it is the table read from the real FseTable.
   A table is the list of normalised frequencies, starts are running sums (ModelRans.start_of). *)
From ZV.Common Require Import Base.
From ZV.C01 Require Import ModelLz ModelRans.
Open Scope N_scope.

Definition FSE_L : N := 65536.                 (* RANS_L = 1 << 16 *)
Definition FSE_XMAX_UNIT : N := 68719476736.   (* (RANS_L >> 12) << 32 = 2^36 *)
Definition FSE_STATE_BOUND : N := 281474976710656. (* 2^48 *)

(* ---------- encoding symbols ---------- *)
Record encsym : Type := mkEnc { e_rcp : N; e_freq : N; e_bias : N; e_cmpl : N; e_shift : N }.
Definition enc_zero : encsym := mkEnc 0 0 0 0 0.

(* while freq > (1 << shift) { shift += 1 } *)
Fixpoint find_shift (fuel : nat) (freq shift : N) : N :=
  match fuel with
  | O => shift
  | S k => if 2 ^ shift <? freq then find_shift k freq (shift + 1) else shift
  end.

(* init_enc_symbol(sym, start, freq, 12); the u16 fields are written with their casts *)
Definition init_enc_symbol (start freq : N) : encsym :=
  if freq <? 2 then
    mkEnc (W64 - 1) freq ((start + 4096 - 1) mod 65536) ((4096 - freq) mod 65536) 0
  else
    let shift := find_shift 32 freq 0 in
    let x1 := 2 ^ (shift + 31) in
    let t1 := x1 / freq in
    let t0 := ((freq - 1) + (x1 mod freq) * W32) / freq in
    mkEnc (t0 + t1 * W32) freq (start mod 65536) ((4096 - freq) mod 65536) (shift - 1).

(* enc_symbols[s]: initialised for symbols with a slot, all-zero otherwise *)
Definition enc_of (t : list N) (s : N) : encsym :=
  let f := freq_of t s in
  if f =? 0 then enc_zero else init_enc_symbol (start_of t s) f.

(* ((a as u128 * b as u128) >> 64) as u64 *)
Definition mul_hi (a b : N) : N := (a * b) / W64.
(* the version before the fix: 32-bit limbs, u64 accumulators (wrapping as in an unchecked build) *)
Definition mul_hi_old (a b : N) : N :=
  let a_lo := a mod W32 in let a_hi := a / W32 in
  let b_lo := b mod W32 in let b_hi := b / W32 in
  let x0 := w64 (b_lo * a_lo) in
  let x1 := w64 (w64 (w64 (b_lo * a_hi) + w64 (b_hi * a_lo)) + x0 / W32) in
  w64 (w64 (b_hi * a_hi) + x1 / W32).
(* the middle sum of the limb version, unreduced: a checked build panics when it reaches 2^64 *)
Definition mul_hi_old_middle (a b : N) : N :=
  (b mod W32) * (a / W32) + (b / W32) * (a mod W32) + ((b mod W32) * (a mod W32)) / W32.

(* FseTable::encode_symbol; the u64 additions and the product written with their wrap *)
Definition fse_encode_symbol (e : encsym) (x : N) : option N :=
  if e_freq e =? 0 then None
  else
    let q := mul_hi x (e_rcp e) / 2 ^ e_shift e in
    Some (w64 (w64 (x + e_bias e) + w64 (q * e_cmpl e))).

(* FseTable::renormalize_encode(state, output, freq); rout = the bytes written so far, newest first *)
Definition fse_renorm_enc (x freq : N) (rout : list N) : N * list N :=
  if FSE_XMAX_UNIT * freq <=? x then (x / W32, rev (le_bytes 4 (x mod W32)) ++ rout) else (x, rout).

(* the loop of compress_single_internal over data.iter().rev(), starting from state 1 *)
Fixpoint fse_enc_all (t : list N) (d : list N) : option (N * list N) :=
  match d with
  | [] => Some (1, [])
  | s :: d' =>
      match fse_enc_all t d' with
      | None => None
      | Some (x, rout) =>
          let e := enc_of t s in
          let '(x1, rout1) := fse_renorm_enc x (e_freq e) rout in
          match fse_encode_symbol e x1 with
          | Some x' => Some (x', rout1)
          | None => None
          end
      end
  end.

(* ---------- decoding ---------- *)
(* FseTable::decode_symbol *)
Definition fse_decode_symbol (t : list N) (x : N) : N * N :=
  let slot := x mod 4096 in
  let s := slot_sym t 0 0 slot in
  let f := freq_of t s in
  if 0 <? f then
    let ns := f * (x / 4096) + slot in
    let ns := if start_of t s <=? ns then ns - start_of t s else 1 in
    (s, N.max ns 1)
  else (0, N.max x 1).

(* FseTable::renormalize_decode; rin = the unread bytes, last written first *)
Definition fse_renorm_dec (x : N) (rin : list N) : N * list N :=
  match rin with
  | b3 :: b2 :: b1 :: b0 :: r =>
      if x <? FSE_L then (N.max (w64 (x * W32) + from_le [b0; b1; b2; b3]) 1, r) else (N.max x 1, rin)
  | _ => (N.max x 1, rin)
  end.

Fixpoint fse_dec_all (t : list N) (n : nat) (x : N) (rin : list N) : list N :=
  match n with
  | O => []
  | S k =>
      let '(s, ns) := fse_decode_symbol t x in
      let '(x', rin') := fse_renorm_dec ns rin in
      s :: fse_dec_all t k x' rin'
  end.

(* ---------- header ---------- *)
(* (symbol, freq) for every symbol with a non-zero raw count, in symbol order *)
Fixpoint pairs_from (i : N) (raw : list N) : list (N * N) :=
  match raw with
  | [] => []
  | x :: r => if 0 <? x then (i, x) :: pairs_from (i + 1) r else pairs_from (i + 1) r
  end.
Definition emit_pair (p : N * N) : list N := fst p :: le_bytes 4 (snd p).
Definition emit_pairs (ps : list (N * N)) : list N := concat (map emit_pair ps).

(* frequencies[symbol] = freq *)
Fixpoint upd (l : list N) (i : nat) (v : N) : list N :=
  match l, i with
  | [], _ => []
  | _ :: r, O => v :: r
  | x :: r, S k => x :: upd r k v
  end.
(* for _ in 0..num_symbols { if pos + 5 > len { Err } ... } *)
Fixpoint read_pairs (n : nat) (bytes : list N) (acc : list N) : option (list N * list N) :=
  match n with
  | O => Some (acc, bytes)
  | S k => match bytes with
           | s :: f0 :: f1 :: f2 :: f3 :: r => read_pairs k r (upd acc (N.to_nat s) (from_le [f0; f1; f2; f3]))
           | _ => None
           end
  end.

(* ---------- one block ---------- *)
Section WithNormaliser.
  (* FseTable::new: raw counts -> normalised frequencies (oracle; None = construction fails) *)
  Variable norm : list N -> option (list N).

  (* compress_single_internal with the table built from `raw` *)
  Definition fse_compress_single (raw : list N) (d : list N) : option (list N) :=
    match norm raw with
    | None => None
    | Some t =>
        if nlen d <? 100 then Some (le_bytes 4 (nlen d mod W32) ++ [255] ++ d)
        else
          match fse_enc_all t d with
          | None => None
          | Some (x, rout) =>
              let ps := pairs_from 0 raw in
              Some (le_bytes 4 (nlen d mod W32) ++ [12] ++ le_bytes 2 (nlen ps mod 65536) ++ emit_pairs ps
                    ++ rev rout ++ le_bytes 8 x)
          end
    end.

  Definition zeros256 : list N := repeat 0 256.

  Definition fse_decompress_single (data : list N) : option (list N) :=
    match data with
    | [] => Some []
    | _ =>
        if nlen data <? 5 then None
        else
          let original_size := from_le (firstn 4 data) in
          if original_size =? 0 then Some []
          else if MAX_DECOMPRESSED_SIZE <? original_size then None
          else
            let table_log := nth 4 data 0 in
            let body := skipn 5 data in
            if table_log =? 255 then
              if nlen body <? original_size then None else Some (firstn (N.to_nat original_size) body)
            else if (table_log <? 5) || (15 <? table_log) then None
            else if nlen body <? 2 then None
            else
              let num_symbols := from_le (firstn 2 body) in
              match read_pairs (N.to_nat num_symbols) (skipn 2 body) zeros256 with
              | None => None
              | Some (freqs, rest) =>
                  match norm freqs with
                  | None => None
                  | Some t =>
                      if nlen rest <? 8 then None
                      else
                        let k := (length rest - 8)%nat in
                        let st := from_le (skipn k rest) in
                        let st := if st =? 0 then 1 else st in
                        Some (fse_dec_all t (N.to_nat original_size) st (rev (firstn k rest)))
                  end
              end
    end.

  (* ---------- block container ---------- *)
  (* data.chunks(block_size) *)
  Fixpoint chunks (fuel : nat) (bs : nat) (d : list N) : list (list N) :=
    match fuel with
    | O => []
    | S k => match d with
             | [] => []
             | _ => firstn bs d :: chunks k bs (skipn bs d)
             end
    end.
  Fixpoint fse_compress_blocks (raw : list N) (cs : list (list N)) : option (list (list N)) :=
    match cs with
    | [] => Some []
    | c :: r => match fse_compress_single raw c with
                | None => None
                | Some z => match fse_compress_blocks raw r with
                            | Some zs => Some (z :: zs)
                            | None => None
                            end
                end
    end.
  (* merge_compressed_blocks: count | sizes | blocks *)
  Definition merge_blocks (zs : list (list N)) : list N :=
    le_bytes 4 (nlen zs mod W32) ++ concat (map (fun z => le_bytes 4 (nlen z mod W32)) zs) ++ concat zs.

  (* FseEncoder::compress with the table already analysed (raw), parallel_blocks = par, block_size = bs *)
  Definition fse_compress (par : option N) (bs : N) (raw : list N) (d : list N) : option (list N) :=
    match d with
    | [] => Some []
    | _ =>
        match norm raw with
        | None => None
        | Some _ =>
            match par with
            | Some nb =>
                if bs * 2 <? nlen d then
                  let bs' := N.max bs ((nlen d + 63) / 64) in
                  let cs := chunks (length d) (N.to_nat bs') d in
                  if (nlen cs <=? 1) || (nb <=? 1) then fse_compress_single raw d
                  else match fse_compress_blocks raw cs with
                       | Some zs => Some (merge_blocks zs)
                       | None => None
                       end
                else fse_compress_single raw d
            | None => fse_compress_single raw d
            end
        end
    end.

  (* the sniffing loop over the would-be block sizes: Some total when every size is reasonable *)
  Fixpoint sniff_sizes (n : nat) (bytes : list N) (len total : N) : option N :=
    match n with
    | O => Some total
    | S k => match bytes with
             | b0 :: b1 :: b2 :: b3 :: r =>
                 let bsz := from_le [b0; b1; b2; b3] in
                 if (bsz =? 0) || (len mod W32 <? bsz) then None else sniff_sizes k r len (total + bsz)
             | _ => None
             end
    end.
  Fixpoint fse_decompress_blocks (sizes : list N) (bytes : list N) (out : list N) : option (list N) :=
    match sizes with
    | [] => Some out
    | sz :: r =>
        if nlen bytes <? sz then None
        else match fse_decompress_single (firstn (N.to_nat sz) bytes) with
             | None => None
             | Some o => if MAX_DECOMPRESSED_SIZE - nlen out <? nlen o then None
                         else fse_decompress_blocks r (skipn (N.to_nat sz) bytes) (out ++ o)
             end
    end.
  Definition fse_decompress_parallel (data : list N) (k : N) : option (list N) :=
    match take_words (N.to_nat k) 4 (skipn 4 data) with
    | None => None
    | Some (sizes, rest) => fse_decompress_blocks sizes rest []
    end.

  Definition fse_decompress (data : list N) : option (list N) :=
    match data with
    | [] => Some []
    | _ =>
        let k := from_le (firstn 4 data) in
        if (8 <=? nlen data) && (2 <=? k) && (k <=? 64) && (4 + 4 * k <=? nlen data) then
          match sniff_sizes (N.to_nat k) (skipn 4 data) (nlen data) 0 with
          | Some total => if 4 + 4 * k + total =? nlen data then fse_decompress_parallel data k
                          else fse_decompress_single data
          | None => fse_decompress_single data
          end
        else fse_decompress_single data
    end.
End WithNormaliser.

(* ---------- invariant of the encoder (used in the statements) ---------- *)
(* the byte stream grows four bytes at a time *)
Inductive quads : list N -> Prop :=
| Q_nil : quads []
| Q_cons b3 b2 b1 b0 r : quads r -> quads (b3 :: b2 :: b1 :: b0 :: r).

Definition fse_inv (x : N) (rout : list N) : Prop :=
  1 <= x /\ x < FSE_STATE_BOUND /\ quads rout /\ (rout <> [] -> FSE_L <= x).

(* a table that gives every symbol of the payload a slot *)
Definition fse_wf (t : list N) : Prop := sum_list t <= 4096.

(* ---------- evaluation entry point for harness-generated cases (ops >= 100) ---------- *)
Definition opt_out (o : option (list N)) : list N :=
  match o with Some l => 1 :: l | None => [0] end.
Definition enc_fields (e : encsym) : list N := [e_rcp e; e_freq e; e_bias e; e_cmpl e; e_shift e].
(* a = par (0 = None, k+1 = Some k) :: bs :: table(256), b = raw(256) ++ data *)
Definition run_case_b (op : N) (a b : list N) : list N :=
  match op with
  | 100 => opt_out (table_of_counts a)
  | 101 => match a with
           | n :: t => opt_out (encode (N.to_nat n) t b)
           | _ => [98]
           end
  | 102 => match a with
           | n :: len :: t => opt_out (decode (N.to_nat n) t b (N.to_nat len))
           | _ => [98]
           end
  | 110 => (* the encoding symbols of a table: 5 fields per symbol *)
           concat (map (fun s => enc_fields (enc_of a (N.of_nat s))) (seq 0 256))
  | 111 => match a with
           | par :: bs :: t =>
               opt_out (fse_compress (fun _ => Some t) (if par =? 0 then None else Some (par - 1)) bs (firstn 256 b) (skipn 256 b))
           | _ => [98]
           end
  | 112 => opt_out (fse_decompress (fun _ => Some a) b)
  | 120 => opt_out (decompress a)
  | 121 => match a with
           | minl :: maxl :: _ => 1 :: compress minl maxl b
           | _ => [98]
           end
  | _ => [99]
  end.
