(* "FSE" payload coder (rANS with 32-bit renormalisation, initial state 1):
   the reciprocal multiplication is an exact division (Alverson), the encoder state stays below 2^48,
   the decoder reads four bytes exactly when the encoder wrote four - including the start-up phase in
   which states are below 2^16 - and decoding returns the payload. *)
From ZV.Common Require Import Base.
From ZV.C01 Require Import ModelLz ModelRans ModelFse ProofsRans.
Open Scope N_scope.

(* ---------- the shift of init_enc_symbol ---------- *)
Lemma pow2_succ s : 2 ^ (s + 1) = 2 * 2 ^ s.
Proof. rewrite N.pow_add_r. change (2 ^ 1) with 2. lia. Qed.

Lemma find_shift_spec f : forall fuel shift,
  f <= 2 ^ (shift + N.of_nat fuel) -> (shift = 0 \/ 2 ^ (shift - 1) < f) ->
  f <= 2 ^ (find_shift fuel f shift) /\
  (find_shift fuel f shift = 0 \/ 2 ^ (find_shift fuel f shift - 1) < f).
Proof.
  induction fuel as [|k IH]; intros shift Hup Hlow; cbn [find_shift].
  - rewrite N.add_0_r in Hup. split; assumption.
  - destruct (N.ltb_spec (2 ^ shift) f) as [Hlt|Hge].
    + apply IH.
      * replace (shift + 1 + N.of_nat k) with (shift + N.of_nat (S k)) by lia. exact Hup.
      * right. replace (shift + 1 - 1) with shift by lia. exact Hlt.
    + split; assumption.
Qed.

Lemma find_shift_range f : 2 <= f -> f <= 4096 ->
  let s := find_shift 32 f 0 in 1 <= s /\ f <= 2 ^ s /\ 2 ^ (s - 1) < f.
Proof.
  intros H2 H4. cbn zeta.
  destruct (find_shift_spec f 32 0) as (Hup & Hlow).
  - cbn. lia.
  - left; reflexivity.
  - set (s := find_shift 32 f 0) in *.
    destruct Hlow as [Hz|Hlow].
    + rewrite Hz in Hup. cbn in Hup. lia.
    + assert (1 <= s). { destruct (N.eq_dec s 0) as [E|E]; [rewrite E in Hup; cbn in Hup; lia|lia]. }
      repeat split; assumption.
Qed.

(* ---------- Alverson: multiplication by the reciprocal is division ---------- *)
Lemma recip_div M f rcp e x :
  0 < f -> 0 < M -> rcp * f = M + e -> e < f -> (x / f + 1) * e < rcp -> (x * rcp) / M = x / f.
Proof.
  intros Hf HM Hr He Hx.
  pose proof (N.div_mod' x f) as Hdm. assert (Hb : x mod f < f) by (apply N.mod_lt; lia).
  set (a := x / f) in *. set (b := x mod f) in *.
  symmetry. apply (N.div_unique (x * rcp) M a (a * e + b * rcp)).
  - assert (b * rcp <= (f - 1) * rcp) by (apply N.mul_le_mono_r; lia).
    assert ((f - 1) * rcp = M + e - rcp) by nia.
    nia.
  - rewrite Hdm. nia.
Qed.

Lemma rcp_arith f x1 t1 r1 t0 m :
  x1 = f * t1 + r1 -> r1 < f -> f - 1 + r1 * 4294967296 = f * t0 + m -> m < f ->
  (t0 + t1 * 4294967296) * f = x1 * 4294967296 + (f - 1 - m) /\ f - 1 - m < f.
Proof.
  intros D1 R1 D0 R0. split; [|lia].
  replace ((t0 + t1 * 4294967296) * f) with (f * t0 + 4294967296 * (f * t1)) by ring.
  assert (E0 : f * t0 = f - 1 + r1 * 4294967296 - m) by lia.
  assert (E1 : f * t1 = x1 - r1) by lia.
  rewrite E0, E1. lia.
Qed.

Lemma rcp_spec f : 2 <= f -> f <= 4096 ->
  let s := find_shift 32 f 0 in
  let e := init_enc_symbol 0 f in
  exists err, e_rcp e * f = 2 ^ (s + 63) + err /\ err < f.
Proof.
  intros H2 H4. cbn zeta. unfold init_enc_symbol.
  destruct (N.ltb_spec f 2) as [H|_]; [lia|]. cbn [e_rcp].
  assert (HM : 2 ^ (find_shift 32 f 0 + 63) = 2 ^ (find_shift 32 f 0 + 31) * W32).
  { unfold W32. replace (find_shift 32 f 0 + 63) with (find_shift 32 f 0 + 31 + 32) by lia. rewrite N.pow_add_r. reflexivity. }
  rewrite HM. unfold W32.
  pose proof (N.div_mod' (2 ^ (find_shift 32 f 0 + 31)) f) as D1.
  assert (R1 : 2 ^ (find_shift 32 f 0 + 31) mod f < f) by (apply N.mod_lt; lia).
  pose proof (N.div_mod' (f - 1 + 2 ^ (find_shift 32 f 0 + 31) mod f * 4294967296) f) as D0.
  assert (R0 : (f - 1 + 2 ^ (find_shift 32 f 0 + 31) mod f * 4294967296) mod f < f) by (apply N.mod_lt; lia).
  exists (f - 1 - (f - 1 + 2 ^ (find_shift 32 f 0 + 31) mod f * 4294967296) mod f).
  exact (rcp_arith f _ _ _ _ _ D1 R1 D0 R0).
Qed.

(* rcp does not depend on start *)
Lemma init_enc_rcp start f : e_rcp (init_enc_symbol start f) = e_rcp (init_enc_symbol 0 f)
  /\ e_shift (init_enc_symbol start f) = e_shift (init_enc_symbol 0 f)
  /\ e_freq (init_enc_symbol start f) = f /\ e_cmpl (init_enc_symbol start f) = (4096 - f) mod 65536.
Proof. unfold init_enc_symbol. destruct (f <? 2); cbn [e_rcp e_shift e_freq e_cmpl]; repeat split; reflexivity. Qed.

(* FseTable::encode_symbol computes the rANS step exactly, without any u64 wrap *)
Lemma fse_encode_exact start f x :
  0 < f -> start + f <= 4096 -> 1 <= x -> x < FSE_XMAX_UNIT * f ->
  fse_encode_symbol (init_enc_symbol start f) x = Some ((x / f) * 4096 + x mod f + start).
Proof.
  unfold FSE_XMAX_UNIT. intros Hf Hsf Hx1 Hx.
  unfold fse_encode_symbol.
  destruct (init_enc_rcp start f) as (Er & Es & Ef & Ec). rewrite Ef.
  destruct (N.eqb_spec f 0) as [|_]; [lia|].
  destruct (N.ltb_spec f 2) as [Hone|Htwo].
  - (* one slot: rcp = 2^64 - 1, shift 0 *)
    assert (f = 1) by lia. subst f.
    unfold init_enc_symbol. cbn [N.ltb]. change (1 <? 2) with true. cbn [e_rcp e_shift e_bias e_cmpl].
    unfold mul_hi. change (2 ^ 0) with 1. rewrite N.div_1_r.
    assert (Hq : x * (W64 - 1) / W64 = x - 1).
    { symmetry. apply (N.div_unique _ W64 (x - 1) (W64 - x)); unfold W64 in *; lia. }
    rewrite Hq. rewrite N.div_1_r, N.mod_1_r.
    rewrite (N.mod_small (start + 4096 - 1) 65536) by lia.
    rewrite (N.mod_small (4096 - 1) 65536) by lia.
    unfold w64, W64.
    rewrite (N.mod_small (x + (start + 4096 - 1))) by lia.
    rewrite (N.mod_small ((x - 1) * (4096 - 1))) by lia.
    rewrite N.mod_small by lia. f_equal. lia.
  - (* Alverson *)
    destruct (find_shift_range f Htwo ltac:(lia)) as (Hs1 & Hup & Hlow).
    destruct (rcp_spec f Htwo ltac:(lia)) as (err & Hr & He). cbn zeta in Hr.
    rewrite <- Er in Hr.
    assert (Hsh : e_shift (init_enc_symbol start f) = find_shift 32 f 0 - 1).
    { unfold init_enc_symbol. destruct (N.ltb_spec f 2); [lia|reflexivity]. }
    assert (Hb : e_bias (init_enc_symbol start f) = start).
    { unfold init_enc_symbol. destruct (N.ltb_spec f 2); [lia|]. cbn [e_bias]. apply N.mod_small. lia. }
    rewrite Hsh, Hb, Ec.
    set (s := find_shift 32 f 0) in *. set (rcp := e_rcp (init_enc_symbol start f)) in *.
    unfold mul_hi. rewrite N.div_div by (try apply N.pow_nonzero; unfold W64; lia).
    assert (HM : W64 * 2 ^ (s - 1) = 2 ^ (s + 63)).
    { unfold W64. change 18446744073709551616 with (2 ^ 64). rewrite <- N.pow_add_r. f_equal. lia. }
    rewrite HM.
    assert (HMpos : 0 < 2 ^ (s + 63)) by apply pow2_pos.
    assert (Hbig : 2 ^ 63 * f <= 2 ^ (s + 63)).
    { replace (s + 63) with (63 + s) by lia. rewrite N.pow_add_r. apply N.mul_le_mono_l. exact Hup. }
    assert (Hq : x * rcp / 2 ^ (s + 63) = x / f).
    { apply (recip_div _ f rcp err x); try lia.
      assert (x / f <= x) by (apply N.div_le_upper_bound; nia).
      assert (9223372036854775808 <= rcp). { change 9223372036854775808 with (2 ^ 63). nia. }
      nia. }
    rewrite Hq.
    pose proof (N.div_mod' x f) as Hdm. assert (x mod f < f) by (apply N.mod_lt; lia).
    set (q := x / f) in *. set (r := x mod f) in *.
    assert (Hqb : q < 68719476736) by nia.
    rewrite (N.mod_small (4096 - f) 65536) by lia.
    assert (Hqc : q * (4096 - f) <= q * 4096) by (apply N.mul_le_mono_l; lia).
    assert (Hqf : q * (4096 - f) + f * q = q * 4096) by nia.
    unfold w64, W64.
    rewrite (N.mod_small (x + start)) by lia.
    rewrite (N.mod_small (q * (4096 - f))) by lia.
    rewrite N.mod_small by lia. f_equal. lia.
Qed.

(* ---------- invariant of the encoder ---------- *)

Lemma le4_rev x : exists b3 b2 b1 b0, rev (le_bytes 4 x) = [b3; b2; b1; b0] /\ from_le [b0; b1; b2; b3] = x mod W32.
Proof.
  eexists _, _, _, _. split; [reflexivity|]. cbn [from_le]. unfold W32. lia.
Qed.

(* arithmetic of one rANS step, kept apart from the big context of the step lemma *)
Lemma enc_bounds f st x1 :
  0 < f -> st + f <= 4096 -> x1 < 68719476736 * f ->
  x1 <= (x1 / f) * 4096 + x1 mod f + st /\
  (x1 / f) * 4096 + x1 mod f + st < 281474976710656 /\
  (16 * f <= x1 -> 65536 <= (x1 / f) * 4096 + x1 mod f + st).
Proof.
  intros Hf Hs Hx.
  pose proof (N.div_mod' x1 f) as Hdm. assert (Hr : x1 mod f < f) by (apply N.mod_lt; lia).
  assert (Hq : x1 / f < 68719476736) by (apply N.div_lt_upper_bound; lia).
  set (q := x1 / f) in *. set (r := x1 mod f) in *.
  assert (Hfq : f * q <= 4096 * q) by (apply N.mul_le_mono_r; lia).
  repeat split; try lia.
  intros H16. assert (16 <= q) by (apply N.div_le_lower_bound; lia). lia.
Qed.

Lemma fse_decode_exact t s q r :
  fse_wf t -> 0 < freq_of t s -> r < freq_of t s -> 1 <= freq_of t s * q + r ->
  fse_decode_symbol t (q * 4096 + r + start_of t s) = (s, freq_of t s * q + r).
Proof.
  intros Hwf Hf Hr H1.
  pose proof (cum_bound t (N.to_nat s)) as Hcb. fold (start_of t s) in Hcb. fold (freq_of t s) in Hcb.
  unfold fse_wf in Hwf. set (f := freq_of t s) in *. set (st := start_of t s) in *.
  unfold fse_decode_symbol.
  assert (Hslot : (q * 4096 + r + st) mod 4096 = r + st).
  { replace (q * 4096 + r + st) with ((r + st) + q * 4096) by lia. rewrite N.mod_add by lia. apply N.mod_small. lia. }
  assert (Hdiv : (q * 4096 + r + st) / 4096 = q).
  { replace (q * 4096 + r + st) with ((r + st) + q * 4096) by lia. rewrite N.div_add by lia. rewrite N.div_small by lia. lia. }
  rewrite Hslot, Hdiv. rewrite (slot_sym_of t s (r + st)) by (fold st; fold f; lia).
  fold f. fold st. destruct (N.ltb_spec 0 f); [|lia].
  destruct (N.leb_spec st (f * q + (r + st))); [|lia].
  f_equal. lia.
Qed.

Lemma fse_step t s x rout x' rout' :
  fse_wf t -> fse_inv x rout ->
  (let e := enc_of t s in
   let '(x1, rout1) := fse_renorm_enc x (e_freq e) rout in
   match fse_encode_symbol e x1 with Some y => Some (y, rout1) | None => None end) = Some (x', rout') ->
  0 < freq_of t s /\ fse_inv x' rout' /\
  exists x1, fse_decode_symbol t x' = (s, x1) /\ fse_renorm_dec x1 rout' = (x, rout).
Proof.
  intros Hwf (Hx1 & Hxb & Hq & Hrun) H. cbn zeta in H.
  unfold enc_of in H.
  destruct (N.eqb_spec (freq_of t s) 0) as [Hz|Hnz].
  { cbn [enc_zero e_freq] in H. destruct (fse_renorm_enc x 0 rout). cbn in H. discriminate. }
  assert (Hfpos : 0 < freq_of t s) by lia.
  pose proof (cum_bound t (N.to_nat s)) as Hcb. fold (start_of t s) in Hcb. fold (freq_of t s) in Hcb.
  assert (Hsf : start_of t s + freq_of t s <= 4096) by (unfold fse_wf in Hwf; lia).
  set (f := freq_of t s) in *. set (st := start_of t s) in *.
  destruct (init_enc_rcp st f) as (_ & _ & Ef & _). rewrite Ef in H.
  unfold fse_renorm_enc in H. unfold FSE_STATE_BOUND, FSE_L, FSE_XMAX_UNIT in *.
  destruct (N.leb_spec (68719476736 * f) x) as [Hflush|Hkeep].
  - (* four bytes written *)
    destruct (le4_rev (x mod W32)) as (b3 & b2 & b1 & b0 & Hrev & Hfrom).
    rewrite Hrev in H. cbn [app] in H.
    assert (Hlo : 16 * f <= x / W32) by (unfold W32; apply N.div_le_lower_bound; lia).
    assert (Hhi : x / W32 < 65536) by (unfold W32; apply N.div_lt_upper_bound; lia).
    set (x1 := x / W32) in *.
    rewrite (fse_encode_exact st f x1) in H by (unfold FSE_XMAX_UNIT; lia).
    injection H as Hy Hr. subst x' rout'.
    destruct (enc_bounds f st x1 Hfpos Hsf ltac:(lia)) as (B1 & B2 & B3). specialize (B3 Hlo).
    pose proof (N.div_mod' x1 f) as Hdm. assert (Hrr : x1 mod f < f) by (apply N.mod_lt; lia).
    split; [exact Hfpos|]. split.
    { unfold fse_inv, FSE_STATE_BOUND, FSE_L. split; [lia|]. split; [lia|]. split; [constructor; exact Hq|]. intros _. lia. }
    exists x1. split.
    + unfold st, f. rewrite (fse_decode_exact t s _ _ Hwf Hfpos Hrr) by (fold f; lia).
      fold f. f_equal. lia.
    + unfold fse_renorm_dec, FSE_L. destruct (N.ltb_spec x1 65536); [|lia].
      rewrite Hfrom. unfold w64. rewrite N.mod_small by (unfold W64, W32 in *; lia).
      pose proof (N.div_mod' x W32) as Hx32. fold x1 in Hx32. f_equal. unfold W32 in *. lia.
  - (* nothing written *)
    rewrite (fse_encode_exact st f x) in H by (unfold FSE_XMAX_UNIT; lia).
    injection H as Hy Hr. subst x' rout'.
    destruct (enc_bounds f st x Hfpos Hsf Hkeep) as (B1 & B2 & _).
    pose proof (N.div_mod' x f) as Hdm. assert (Hrr : x mod f < f) by (apply N.mod_lt; lia).
    split; [exact Hfpos|]. split.
    { unfold fse_inv, FSE_STATE_BOUND, FSE_L. split; [lia|]. split; [lia|]. split; [exact Hq|].
      intros Hne. specialize (Hrun Hne). lia. }
    exists x. split.
    + unfold st, f. rewrite (fse_decode_exact t s _ _ Hwf Hfpos Hrr) by (fold f; lia).
      fold f. f_equal. lia.
    + unfold fse_renorm_dec, FSE_L.
      destruct Hq as [|b3 b2 b1 b0 r' Hq'].
      * f_equal. lia.
      * specialize (Hrun ltac:(discriminate)). destruct (N.ltb_spec x 65536); [lia|]. f_equal. lia.
Qed.

Lemma fse_enc_all_inv t : forall d x rout,
  fse_wf t -> fse_enc_all t d = Some (x, rout) ->
  fse_inv x rout /\ covers t d /\ fse_dec_all t (length d) x rout = d.
Proof.
  induction d as [|s d IH]; intros x rout Hwf H; cbn [fse_enc_all] in H.
  - injection H as <- <-. split; [|split; [constructor|reflexivity]].
    unfold fse_inv, FSE_STATE_BOUND. repeat split; try lia; [constructor|intros C; contradiction].
  - destruct (fse_enc_all t d) as [[x0 rout0]|] eqn:E0; [|discriminate].
    destruct (IH x0 rout0 Hwf eq_refl) as (Hinv0 & Hcov0 & Hdec0).
    destruct (fse_step t s x0 rout0 x rout Hwf Hinv0 H) as (Hf & Hinv & x1 & Hd & Hr).
    split; [exact Hinv|]. split; [constructor; assumption|].
    cbn [length fse_dec_all]. rewrite Hd, Hr, Hdec0. reflexivity.
Qed.

Lemma fse_enc_all_some_covers t : forall d st, fse_enc_all t d = Some st -> covers t d.
Proof.
  induction d as [|s d IH]; intros st H; [constructor|].
  cbn [fse_enc_all] in H. destruct (fse_enc_all t d) as [[x0 r0]|] eqn:E0; [|discriminate].
  constructor; [|exact (IH _ eq_refl)].
  unfold enc_of in H. destruct (N.eqb_spec (freq_of t s) 0) as [Hz|Hnz]; [|lia].
  cbn [enc_zero e_freq] in H. destruct (fse_renorm_enc x0 0 r0). cbn in H. discriminate.
Qed.

Lemma fse_enc_all_refuses t d : ~ covers t d -> fse_enc_all t d = None.
Proof.
  intros Hn. destruct (fse_enc_all t d) as [st|] eqn:E; [|reflexivity].
  exfalso. apply Hn. exact (fse_enc_all_some_covers t d st E).
Qed.

Lemma fse_enc_all_defined t : forall d, fse_wf t -> covers t d -> exists st, fse_enc_all t d = Some st.
Proof.
  induction d as [|s d IH]; intros Hwf Hc; [eexists; reflexivity|].
  inversion Hc as [|? ? Hs Hd]; subst. destruct (IH Hwf Hd) as [[x0 r0] E0].
  destruct (fse_enc_all_inv t d x0 r0 Hwf E0) as ((Hx1 & Hxb & _ & _) & _ & _).
  cbn [fse_enc_all]. rewrite E0. cbn zeta. unfold enc_of.
  destruct (N.eqb_spec (freq_of t s) 0) as [|Hnz]; [lia|].
  pose proof (cum_bound t (N.to_nat s)) as Hcb. fold (start_of t s) in Hcb. fold (freq_of t s) in Hcb. unfold fse_wf in Hwf.
  destruct (init_enc_rcp (start_of t s) (freq_of t s)) as (_ & _ & Ef & _). rewrite Ef.
  unfold fse_renorm_enc, FSE_STATE_BOUND, FSE_XMAX_UNIT in *.
  destruct (N.leb_spec (68719476736 * freq_of t s) x0).
  - rewrite fse_encode_exact; [eexists; reflexivity|lia|lia| |].
    + assert (16 * freq_of t s <= x0 / W32) by (unfold W32; apply N.div_le_lower_bound; lia). lia.
    + unfold FSE_XMAX_UNIT. assert (x0 / W32 < 65536) by (unfold W32; apply N.div_lt_upper_bound; lia). lia.
  - rewrite fse_encode_exact; [eexists; reflexivity|lia|lia|lia|unfold FSE_XMAX_UNIT; lia].
Qed.

(* ---------- the limb version of mul_hi before the fix ---------- *)
Lemma mul_hi_old_refuted_proof :
  exists x, 1 <= x /\ x < FSE_XMAX_UNIT * 1 /\
            W64 <= mul_hi_old_middle x (e_rcp (init_enc_symbol 0 1)) /\
            mul_hi_old x (e_rcp (init_enc_symbol 0 1)) <> mul_hi x (e_rcp (init_enc_symbol 0 1)).
Proof.
  exists 68719476735. vm_compute. repeat split; discriminate.
Qed.

Definition ex_table_fse : list N := [2048; 1; 2047].
Example fse_core_example :
  fse_wf ex_table_fse /\
  match fse_enc_all ex_table_fse [0;1;2;0;0;1;2;2;1;0;0] with
  | Some (x, rout) => fse_dec_all ex_table_fse 11 x rout = [0;1;2;0;0;1;2;2;1;0;0]
  | None => False
  end.
Proof.
  split; [unfold fse_wf; vm_compute; discriminate|]. vm_compute. reflexivity.
Qed.
