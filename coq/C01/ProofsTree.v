(* C01: the two ways a HuffmanTree gets a table and a decoding tree that agree:
   generate_codes from the tree the heap built, and build_decoding_tree_from_codes from a prefix-free table
   (fixed-length fallback, deserialize). *)
From ZV.Common Require Import Base.
From ZV.C01 Require Import Model ProofsBits ProofsHuff.
Open Scope N_scope.

(* ---------------- generate_codes ---------------- *)
Lemma gen_codes_walk t : forall pre s c, In (s, c) (gen_codes t pre) ->
  exists suf, c = pre ++ suf /\ walk t suf = Some (Leaf s).
Proof.
  induction t as [x| |l IHl r IHr]; intros pre s c Hin; cbn [gen_codes] in Hin.
  - destruct Hin as [H|[]]. injection H as -> ->. exists []. now rewrite app_nil_r.
  - destruct Hin.
  - apply in_app_or in Hin. destruct Hin as [Hin|Hin].
    + destruct (IHl _ _ _ Hin) as [suf [-> Hw]]. exists (false :: suf). now rewrite <- app_assoc.
    + destruct (IHr _ _ _ Hin) as [suf [-> Hw]]. exists (true :: suf). now rewrite <- app_assoc.
Qed.

(* whatever tree the heap loop produced (two or more leaves), its generated table agrees with it *)
Theorem gen_codes_wf_proof : forall t, is_node t = true -> wf_ht (mkHT (Some t) (gen_codes t [])) = true.
Proof.
  intros [x| |l r] Hn; try discriminate. unfold wf_ht. cbn [ht_root ht_codes].
  apply forallb_forall. intros [s c] Hin. cbn [fst snd].
  destruct (gen_codes_walk _ _ _ _ Hin) as [suf [-> Hw]]. cbn [app]. rewrite Hw.
  cbn [tree_eqb_leaf]. rewrite N.eqb_refl. destruct suf; [discriminate|reflexivity].
Qed.

(* ---------------- insert_code_into_tree ---------------- *)
(* the code can be inserted without touching an existing leaf: its path leaves the tree through a hole *)
Fixpoint fits (t : tree) (c : list bool) {struct c} : Prop :=
  match c with
  | [] => t = Hole
  | b :: c' => match t with
               | Hole => True
               | Leaf _ => False
               | Node l r => fits (if b then r else l) c'
               end
  end.
Lemma fits_hole c : fits Hole c.
Proof. destruct c; cbn [fits]; auto. Qed.

Lemma insert_fits s c : forall t, fits t c -> exists t', insert t s c = Some t' /\ walk t' c = Some (Leaf s).
Proof.
  induction c as [|b c IH]; intros t Hf; cbn [fits] in Hf.
  - exists (Leaf s). split; reflexivity.
  - destruct t as [x| |l r]; [destruct Hf| |].
    + destruct (IH Hole (fits_hole c)) as [ch [Hi Hw]]. cbn [insert]. rewrite Hi.
      eexists. split; [reflexivity|]. destruct b; cbn [walk]; exact Hw.
    + destruct b.
      * destruct (IH r Hf) as [r' [Hi Hw]]. cbn [insert]. rewrite Hi. eexists. split; [reflexivity|exact Hw].
      * destruct (IH l Hf) as [l' [Hi Hw]]. cbn [insert]. rewrite Hi. eexists. split; [reflexivity|exact Hw].
Qed.

Lemma insert_keeps_walk s c : forall t t' c2 s2, fits t c -> insert t s c = Some t' ->
  walk t c2 = Some (Leaf s2) -> walk t' c2 = Some (Leaf s2).
Proof.
  induction c as [|b c IH]; intros t t' c2 s2 Hf Hi Hw; cbn [fits] in Hf.
  - subst t. destruct c2; cbn [walk] in Hw; discriminate.
  - destruct t as [x| |l r]; [destruct Hf| |].
    + destruct c2; cbn [walk] in Hw; discriminate.
    + destruct c2 as [|b2 c2]; cbn [walk] in Hw; [discriminate|].
      cbn [insert] in Hi. destruct b.
      * destruct (insert r s c) as [r'|] eqn:Hr; [|discriminate]. injection Hi as <-.
        cbn [walk]. destruct b2; [eapply IH; eassumption|exact Hw].
      * destruct (insert l s c) as [l'|] eqn:Hl; [|discriminate]. injection Hi as <-.
        cbn [walk]. destruct b2; [exact Hw|eapply IH; eassumption].
Qed.

Lemma insert_keeps_fits s c : forall t t' c2, fits t c -> insert t s c = Some t' ->
  fits t c2 -> is_prefix c c2 = false -> is_prefix c2 c = false -> fits t' c2.
Proof.
  induction c as [|b c IH]; intros t t' c2 Hf Hi Hf2 Hp1 Hp2.
  - discriminate.
  - destruct c2 as [|b2 c2]; [discriminate|].
    cbn [is_prefix] in Hp1, Hp2. cbn [fits] in Hf, Hf2.
    destruct t as [x| |l r]; [destruct Hf| |].
    + cbn [insert] in Hi. destruct (insert Hole s c) as [ch|] eqn:Hc; [|discriminate]. injection Hi as <-.
      destruct b, b2; cbn [fits Bool.eqb andb] in *; try apply fits_hole;
        (eapply IH; [apply fits_hole|exact Hc|apply fits_hole|assumption|assumption]).
    + cbn [insert] in Hi. destruct b.
      * destruct (insert r s c) as [r'|] eqn:Hr; [|discriminate]. injection Hi as <-.
        destruct b2; cbn [fits Bool.eqb andb] in *; [eapply IH; eassumption|exact Hf2].
      * destruct (insert l s c) as [l'|] eqn:Hl; [|discriminate]. injection Hi as <-.
        destruct b2; cbn [fits Bool.eqb andb] in *; [exact Hf2|eapply IH; eassumption].
Qed.

Lemma insert_all_spec : forall tb t done,
  (forall e, In e done -> walk t (snd e) = Some (Leaf (fst e))) ->
  (forall e, In e tb -> fits t (snd e)) ->
  prefix_free tb = true ->
  exists t', insert_all t tb = Some t' /\
             forall e, In e (done ++ tb) -> walk t' (snd e) = Some (Leaf (fst e)).
Proof.
  induction tb as [|[s c] tb IH]; intros t done Hdone Hfits Hpf.
  - exists t. split; [reflexivity|]. rewrite app_nil_r. exact Hdone.
  - cbn [prefix_free] in Hpf. apply andb_true_iff in Hpf. destruct Hpf as [Hpf Hrest].
    apply andb_true_iff in Hpf. destruct Hpf as [Hne Hinc]. rewrite forallb_forall in Hinc.
    assert (Hfc : fits t c) by (apply (Hfits (s, c)); now left).
    destruct (insert_fits s c t Hfc) as [t1 [Hi Hw1]].
    cbn [insert_all]. rewrite Hi.
    destruct (IH t1 (done ++ [(s, c)])) as [t' [Hall Hwalk]].
    + intros e He. apply in_app_or in He. destruct He as [He|[<-|[]]].
      * eapply insert_keeps_walk; [exact Hfc|exact Hi|now apply Hdone].
      * exact Hw1.
    + intros e He. specialize (Hinc e He). apply andb_true_iff in Hinc. destruct Hinc as [H1 H2].
      eapply insert_keeps_fits; [exact Hfc|exact Hi|apply Hfits; now right| |].
      * now apply negb_true_iff in H1.
      * now apply negb_true_iff in H2.
    + exact Hrest.
    + exists t'. split; [exact Hall|]. intros e He. apply Hwalk.
      rewrite <- app_assoc. exact He.
Qed.

Lemma prefix_free_nonempty tb : prefix_free tb = true -> forall e, In e tb -> snd e <> [].
Proof.
  induction tb as [|[s c] tb IH]; intros Hpf e He; [destruct He|].
  cbn [prefix_free] in Hpf. apply andb_true_iff in Hpf. destruct Hpf as [Hpf Hrest].
  apply andb_true_iff in Hpf. destruct Hpf as [Hne _].
  destruct He as [<-|He]; [cbn [snd]; now apply nonempty_true|now apply IH].
Qed.

(* build_decoding_tree_from_codes succeeds on every non-empty prefix-free table, and the tree agrees with it
   (placeholders and all) *)
Theorem build_root_wf_proof : forall tb, prefix_free tb = true -> tb <> [] ->
  exists t, build_root tb = Some (Some t) /\ wf_ht (mkHT (Some t) tb) = true.
Proof.
  intros tb Hpf Hne. destruct tb as [|[s c] [|e2 tb]]; [congruence| |].
  - exists (Leaf s). split; [reflexivity|]. unfold wf_ht. cbn [ht_root ht_codes forallb fst snd].
    rewrite N.eqb_refl. cbn [prefix_free] in Hpf. now rewrite !andb_true_r in *.
  - set (full := (s, c) :: e2 :: tb) in *.
    destruct (insert_all_spec full (Node Hole Hole) []) as [t [Hi Hw]].
    + intros e [].
    + intros e He. pose proof (prefix_free_nonempty _ Hpf e He) as Hn.
      destruct (snd e) as [|b c']; [congruence|]. cbn [fits]. destruct b; apply fits_hole.
    + exact Hpf.
    + exists t. split.
      * unfold build_root, full. unfold full in Hi. now rewrite Hi.
      * assert (Hnode : is_node t = true).
        { destruct t as [x| |l r]; [| |reflexivity].
          - specialize (Hw (s, c) (or_introl eq_refl)). cbn [fst snd] in Hw.
            pose proof (prefix_free_nonempty _ Hpf (s, c) (or_introl eq_refl)) as Hn. cbn [snd] in Hn.
            destruct c; [congruence|discriminate].
          - specialize (Hw (s, c) (or_introl eq_refl)). cbn [fst snd] in Hw.
            destruct c; discriminate. }
        destruct t as [x| |l r]; try discriminate.
        unfold wf_ht. cbn [ht_root ht_codes]. apply forallb_forall. intros e He.
        rewrite (Hw e He). cbn [tree_eqb_leaf]. rewrite N.eqb_refl. cbn [andb].
        pose proof (prefix_free_nonempty _ Hpf e He) as Hn. destruct (snd e); [congruence|reflexivity].
Qed.

(* ---------------- the fixed-length fallback ---------------- *)
Lemma n_of_bits_of_n n : forall v, n_of_bits (bits_of_n n v) = v mod 2 ^ N.of_nat n.
Proof.
  induction n as [|n IH]; intros v; cbn [bits_of_n n_of_bits].
  - change (N.of_nat 0) with 0. rewrite N.pow_0_r, N.mod_1_r. reflexivity.
  - rewrite IH. rewrite Nat2N.inj_succ, N.pow_succ_r'.
    rewrite N.mod_mul_r by (try discriminate; apply N.pow_nonzero; discriminate).
    rewrite <- N.bit0_mod, N.bit0_odd, N.div2_div. reflexivity.
Qed.

Lemma is_prefix_same_length a : forall b, is_prefix a b = true -> length a = length b -> a = b.
Proof.
  induction a as [|x a IH]; intros [|y b] Hp Hl; try discriminate; [reflexivity|].
  cbn [is_prefix] in Hp. apply andb_true_iff in Hp. destruct Hp as [Hxy Hp].
  apply Bool.eqb_prop in Hxy. subst. f_equal. apply IH; [assumption|cbn [length] in Hl; lia].
Qed.
Lemma byte_code_neq i j : i < 256 -> j < 256 -> i <> j -> is_prefix (bits_of_n 8 i) (bits_of_n 8 j) = false.
Proof.
  intros Hi Hj Hne. destruct (is_prefix (bits_of_n 8 i) (bits_of_n 8 j)) eqn:Hp; [|reflexivity].
  apply is_prefix_same_length in Hp; [|now rewrite !bits_of_n_length].
  exfalso. apply Hne. apply (f_equal n_of_bits) in Hp. rewrite !n_of_bits_of_n in Hp.
  change (2 ^ N.of_nat 8) with 256 in Hp. rewrite !N.mod_small in Hp; assumption.
Qed.
Lemma fixed_codes_in syms : forall i e, In e (fixed_codes_go syms i) ->
  exists j, i <= j < i + N.of_nat (length syms) /\ snd e = bits_of_n 8 j.
Proof.
  induction syms as [|s syms IH]; intros i e He; [destruct He|].
  cbn [fixed_codes_go length] in *. destruct He as [<-|He].
  - exists i. cbn [snd]. split; [lia|reflexivity].
  - destruct (IH _ _ He) as [j [Hj Hs]]. exists j. split; [lia|exact Hs].
Qed.
Lemma fixed_codes_prefix_free syms : forall i, i + N.of_nat (length syms) <= 256 ->
  prefix_free (fixed_codes_go syms i) = true.
Proof.
  induction syms as [|s syms IH]; intros i Hb; [reflexivity|].
  cbn [fixed_codes_go prefix_free length] in *.
  rewrite IH by lia. rewrite andb_true_r. apply andb_true_iff. split; [reflexivity|].
  apply forallb_forall. intros e He. destruct (fixed_codes_in _ _ _ He) as [j [Hj ->]].
  rewrite !byte_code_neq by lia. reflexivity.
Qed.

(* from_frequencies: whatever tree the heap built, the resulting HuffmanTree is one whose table and
   decoding tree agree (normal path, single symbol, fixed-length fallback), and construction never fails *)
Theorem ht_from_heap_wf_proof : forall syms heap,
  (length syms <= 256)%nat -> is_node heap = true ->
  exists ht, ht_from_heap syms heap = Some ht /\ wf_ht ht = true.
Proof.
  intros syms heap Hlen Hnode. unfold ht_from_heap.
  destruct syms as [|s1 [|s2 syms]].
  - eexists. split; reflexivity.
  - eexists. split; [reflexivity|]. unfold wf_ht. cbn [ht_root ht_codes forallb fst snd nonempty].
    now rewrite N.eqb_refl.
  - set (ss := s1 :: s2 :: syms) in *.
    destruct (64 <? max_len (gen_codes heap []))%nat.
    + destruct (build_root_wf_proof (fixed_codes ss)) as [t [Hb Hw]].
      * apply fixed_codes_prefix_free. lia.
      * discriminate.
      * rewrite Hb. eexists. split; [reflexivity|exact Hw].
    + eexists. split; [reflexivity|]. now apply gen_codes_wf_proof.
Qed.

Example ex_fixed : exists t, build_root (fixed_codes [5; 9; 200]) = Some (Some t) /\
                             wf_ht (mkHT (Some t) (fixed_codes [5; 9; 200])) = true.
Proof. eexists. split; reflexivity. Qed.
Example ex_prefix_free : prefix_free (ht_codes ex_ht) = true. Proof. reflexivity. Qed.
