(* C01 mechanism model, rANS-64 with byte renormalisation.  Definitions only.

   src/entropy/rans.rs as written:
     Rans64Encoder::new                 - normalised table (Rans64Encoder::normalize_frequencies is modelled in
                                          coq/C02/Model.v, reused here), symbol starts = running sum
     Rans64Encoder::encode_symbol       - while state >= ((L << 8) / TOTFREQ) * freq { push(state as u8); state >>= 8 }
                                          state = (state / freq) * TOTFREQ + state % freq + start
     Rans64Encoder::{encode, encode_single, encode_parallel}
     Rans64Decoder::new                 - the 4096-entry slot table
     Rans64Decoder::decode_symbol       - while state < L { state = state << 8 | input[--pos] } ; slot lookup ; inverse step
     Rans64Decoder::{decode, decode_single, decode_parallel}
   States are N; the theorem rans_no_overflow shows every reachable state is below 2^24, so the u64
   arithmetic of the code never wraps and is written here without reduction.
   A table is the list of the 256 normalised frequencies.  The encoder writes its bytes front to back and
   the decoder reads them back to front: the model keeps the written bytes newest-first (`rout`), the
   byte string is `rev rout ++ le64 state`. *)
From ZV.Common Require Import Base.
From ZV.C02 Require Model.
From ZV.C01 Require Import ModelLz.
Open Scope N_scope.

Definition RANS_L : N := 65536.          (* RANS64_L = 1 << 16 *)
Definition TOTFREQ : N := 4096.          (* 1 << TF_SHIFT, TF_SHIFT = 12 *)
Definition XMAX_UNIT : N := 4096.        (* (RANS64_L << 8) / TOTFREQ *)
Definition STATE_BOUND : N := 16777216.  (* RANS64_L << 8 = 2^24 *)

(* ---------- table ---------- *)
Definition freq_of (t : list N) (s : N) : N := nth (N.to_nat s) t 0.
Fixpoint cum (t : list N) (s : nat) : N :=
  match s, t with
  | S k, f :: t' => f + cum t' k
  | _, _ => 0
  end.
(* symbols[i].start: cumulative += freq over i in 0..256 *)
Definition start_of (t : list N) (s : N) : N := cum t (N.to_nat s).
Definition sum_list (t : list N) : N := fold_right N.add 0 t.

(* decode_table[slot]: entries start..start+freq of every symbol hold the symbol, the rest stays 0 *)
Fixpoint slot_sym (t : list N) (sym acc slot : N) : N :=
  match t with
  | [] => 0
  | f :: t' => if slot <? acc + f then sym else slot_sym t' (sym + 1) (acc + f) slot
  end.

(* ---------- encoder ---------- *)
(* while state >= max_state { output.push(state & 0xFF); state >>= 8 } ; at most 8 rounds on a u64 *)
Fixpoint enc_renorm (fuel : nat) (x xmax : N) (rout : list N) : N * list N :=
  match fuel with
  | O => (x, rout)
  | S k => if xmax <=? x then enc_renorm k (x / 256) xmax (x mod 256 :: rout) else (x, rout)
  end.

Definition enc_symbol (t : list N) (st : N * list N) (s : N) : option (N * list N) :=
  let f := freq_of t s in
  if f =? 0 then None
  else
    let '(x, rout) := enc_renorm 8 (fst st) (XMAX_UNIT * f) (snd st) in
    Some ((x / f) * TOTFREQ + x mod f + start_of t s, rout).

(* for &symbol in data.iter().rev(): the last byte of the data is encoded first *)
Fixpoint enc_all (t : list N) (d : list N) : option (N * list N) :=
  match d with
  | [] => Some (RANS_L, [])
  | s :: d' => match enc_all t d' with
               | Some st => enc_symbol t st s
               | None => None
               end
  end.

Definition encode_single (t : list N) (d : list N) : option (list N) :=
  match enc_all t d with
  | Some (x, rout) => Some (rev rout ++ le_bytes 8 x)
  | None => None
  end.

(* stream k of n: positions k, k+n, k+2n, ...   (pick n k d: skip k, take one, skip n-1, ...) *)
Fixpoint pick (n k : nat) (d : list N) : list N :=
  match d with
  | [] => []
  | x :: r => match k with
              | O => x :: pick n (n - 1) r
              | S k' => pick n k' r
              end
  end.
Definition streams (n : nat) (d : list N) : list (list N) := map (fun k => pick n k d) (seq 0 n).

Fixpoint enc_streams (t : list N) (ss : list (list N)) : option (list (N * list N)) :=
  match ss with
  | [] => Some []
  | s :: r => match enc_all t s with
              | None => None
              | Some st => match enc_streams t r with
                           | Some sts => Some (st :: sts)
                           | None => None
                           end
              end
  end.

(* states (8 bytes each) | stream lengths (u32 each) | stream bytes *)
Definition parallel_layout (sts : list (N * list N)) : list N :=
  concat (map (fun st => le_bytes 8 (fst st)) sts)
  ++ concat (map (fun st => le_bytes 4 (nlen (snd st) mod W32)) sts)
  ++ concat (map (fun st => rev (snd st)) sts).

Definition encode_parallel (n : nat) (t : list N) (d : list N) : option (list N) :=
  if (length d <? n)%nat then encode_single t d
  else match enc_streams t (streams n d) with
       | Some sts => Some (parallel_layout sts)
       | None => None
       end.

(* Rans64Encoder<P>::encode, P::N = n *)
Definition encode (n : nat) (t : list N) (d : list N) : option (list N) :=
  match d with
  | [] => Some (le_bytes 8 RANS_L)
  | _ => if (n =? 1)%nat then encode_single t d else encode_parallel n t d
  end.

(* ---------- decoder ---------- *)
(* while state < L { if pos == 0 { Err } pos -= 1; state = (state << 8) | input[pos] };
   rin = the unread bytes, last written first *)
Fixpoint dec_renorm (x : N) (rin : list N) {struct rin} : option (N * list N) :=
  if RANS_L <=? x then Some (x, rin)
  else match rin with
       | [] => None
       | b :: r => dec_renorm (x * 256 + b) r
       end.

Definition dec_symbol (t : list N) (st : N * list N) : option (N * (N * list N)) :=
  match dec_renorm (fst st) (snd st) with
  | None => None
  | Some (x, rin) =>
      let slot := x mod TOTFREQ in
      let s := slot_sym t 0 0 slot in
      Some (s, (freq_of t s * (x / TOTFREQ) + slot - start_of t s, rin))
  end.

Fixpoint dec_all (t : list N) (n : nat) (st : N * list N) : option (list N) :=
  match n with
  | O => Some []
  | S k => match dec_symbol t st with
           | None => None
           | Some (s, st') => match dec_all t k st' with
                              | Some l => Some (s :: l)
                              | None => None
                              end
           end
  end.

(* state = last 8 bytes, pos = len - 8 *)
Definition decode_single (t : list N) (bytes : list N) (n : nat) : option (list N) :=
  if (length bytes <? 8)%nat then None
  else
    let k := (length bytes - 8)%nat in
    dec_all t n (from_le (skipn k bytes), rev (firstn k bytes)).

(* n groups of w bytes *)
Fixpoint take_words (n w : nat) (bytes : list N) : option (list N * list N) :=
  match n with
  | O => Some ([], bytes)
  | S k => if (length bytes <? w)%nat then None
           else match take_words k w (skipn w bytes) with
                | Some (vs, rest) => Some (from_le (firstn w bytes) :: vs, rest)
                | None => None
                end
  end.
(* if pos + length > encoded.len() { Err } stream_data.push(&encoded[pos..pos+length]) *)
Fixpoint take_slices (lens : list N) (bytes : list N) : option (list (list N)) :=
  match lens with
  | [] => Some []
  | l :: r => if nlen bytes <? l then None
              else match take_slices r (skipn (N.to_nat l) bytes) with
                   | Some ss => Some (firstn (N.to_nat l) bytes :: ss)
                   | None => None
                   end
  end.
(* count = output_length / n + (stream_idx < output_length % n) *)
Definition stream_count (n len k : nat) : nat := (len / n + (if (k <? len mod n)%nat then 1 else 0))%nat.

Fixpoint dec_streams (t : list N) (n len k : nat) (sts : list N) (datas : list (list N)) : option (list (list N)) :=
  match sts, datas with
  | x :: sts', dta :: datas' =>
      match dec_all t (stream_count n len k) (x, rev dta) with
      | None => None
      | Some syms => match dec_streams t n len (S k) sts' datas' with
                     | Some r => Some (syms :: r)
                     | None => None
                     end
      end
  | _, _ => Some []
  end.
(* result[i] = per_stream[i % n][i / n] *)
Definition interleave (n len : nat) (per : list (list N)) : list N :=
  map (fun i => nth (i / n) (nth (i mod n) per []) 0) (seq 0 len).

Definition decode_parallel (n : nat) (t : list N) (bytes : list N) (len : nat) : option (list N) :=
  if (len <? n)%nat then decode_single t bytes len
  else if (length bytes <? n * 8 + n * 4)%nat then None
  else match take_words n 8 bytes with
       | None => None
       | Some (sts, r1) =>
           match take_words n 4 r1 with
           | None => None
           | Some (lens, r2) =>
               match take_slices lens r2 with
               | None => None
               | Some datas =>
                   match dec_streams t n len 0 sts datas with
                   | None => None
                   | Some per => Some (interleave n len per)
                   end
               end
           end
       end.

(* Rans64Decoder<P>::decode *)
Definition decode (n : nat) (t : list N) (bytes : list N) (len : nat) : option (list N) :=
  match len with
  | O => Some []
  | _ => if MAX_DECOMPRESSED_SIZE <? N.of_nat len then None
         else if (n =? 1)%nat then decode_single t bytes len else decode_parallel n t bytes len
  end.

(* ---------- well-formedness of a table, coverage of a payload ---------- *)
(* the state interval [L, 256 L) *)
Definition state_ok (x : N) : Prop := RANS_L <= x /\ x < STATE_BOUND.
Definition wf_table (t : list N) : Prop := sum_list t <= TOTFREQ.
Definition covers (t : list N) (d : list N) : Prop := Forall (fun s => 0 < freq_of t s) d.

(* Rans64Encoder::new: the table the coder works with *)
Definition table_of_counts (raw : list N) : option (list N) := ZV.C02.Model.rans_table raw.
