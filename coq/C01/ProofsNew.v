(* C01: the counting loops of the contextual constructors - generic facts (no heap, no HashMap order):
   counts never overflow on a text shorter than 2^32, every count is at most the text length, arrays keep
   their 256 entries, a fully positive array has all 256 symbols present, the merge succeeds and is fully
   positive; the order-2 selection only picks existing contexts; hm_of is a permutation. *)
From ZV.Common Require Import Base.
From Coq Require Import Permutation.
From ZV.C01 Require Import Model ModelCtx ModelNew ProofsBits ProofsHuff ProofsTree ProofsIO ProofsCtx ProofsHeap.
Open Scope N_scope.

Lemma merged_freq_m_eq c o : merged_freq_m c o = merged_freq c o.
Proof. reflexivity. Qed.

Fixpoint sumN (l : list N) : N := match l with [] => 0 | h :: t => h + sumN t end.
Lemma in_le_sumN x l : In x l -> x <= sumN l.
Proof.
  induction l as [|h t IH]; intros Hin; [destruct Hin|]. cbn [sumN].
  destruct Hin as [->|Hin]; [lia|]. specialize (IH Hin). lia.
Qed.
Lemma zeros_len : length zeros256 = 256%nat. Proof. reflexivity. Qed.
Lemma zeros_sum : sumN zeros256 = 0. Proof. vm_compute. reflexivity. Qed.

(* ---- freqs[i] += 1 ---- *)
Lemma bump_ok : forall fr i, (i < length fr)%nat -> sumN fr + 1 < W32 ->
  exists fr', bump i fr = Some fr' /\ length fr' = length fr /\ sumN fr' = sumN fr + 1.
Proof.
  induction fr as [|h t IH]; intros i Hi Hs; cbn [length] in Hi; [lia|].
  cbn [sumN] in Hs. destruct i as [|k]; cbn [bump].
  - replace (h + 1 <? W32) with true by (symmetry; apply N.ltb_lt; lia).
    eexists. split; [reflexivity|]. cbn [length sumN]. split; [reflexivity|lia].
  - destruct (IH k ltac:(lia) ltac:(lia)) as [t' [Hb [Hl Hsum]]]. rewrite Hb.
    eexists. split; [reflexivity|]. cbn [length sumN]. split; lia.
Qed.
Lemma count_go_ok : forall d fr n, length fr = n -> Forall (fun b => (N.to_nat b < n)%nat) d ->
  sumN fr + N.of_nat (length d) < W32 ->
  exists fr', count_go d fr = Some fr' /\ length fr' = n /\ sumN fr' = sumN fr + N.of_nat (length d).
Proof.
  induction d as [|b t IH]; intros fr n Hn Hd Hs.
  - exists fr. cbn [count_go length]. repeat split; [exact Hn|lia].
  - inversion Hd as [|? ? Hb Ht]; subst. cbn [length] in Hs. cbn [count_go].
    destruct (bump_ok fr (N.to_nat b) Hb ltac:(lia)) as [fr1 [H1 [Hl1 Hs1]]]. rewrite H1.
    destruct (IH fr1 (length fr) Hl1 Ht ltac:(lia)) as [fr' [H2 [Hl2 Hs2]]].
    exists fr'. split; [exact H2|]. cbn [length]. split; [exact Hl2|lia].
Qed.
Lemma bytes_idx d : bytes_ok d -> Forall (fun b => (N.to_nat b < 256)%nat) d.
Proof. unfold bytes_ok, is_byte. apply Forall_impl. intros b Hb. lia. Qed.
Lemma count_bytes_ok d : bytes_ok d -> N.of_nat (length d) < W32 ->
  exists fr, count_bytes d = Some fr /\ length fr = 256%nat /\ sumN fr = N.of_nat (length d).
Proof.
  intros Hd Hs. unfold count_bytes.
  destruct (count_go_ok d zeros256 256%nat zeros_len (bytes_idx d Hd)) as [fr [H1 [H2 H3]]].
  - rewrite zeros_sum. lia.
  - exists fr. rewrite zeros_sum in H3. repeat split; [exact H1|exact H2|lia].
Qed.

(* ---- the zero -> one pass ---- *)
Lemma fill_ones_len fr : length (fill_ones fr) = length fr.
Proof. apply map_length. Qed.
Lemma fill_ones_pos fr : Forall (fun f => 0 < f) (fill_ones fr).
Proof.
  induction fr as [|h t IH]; cbn [fill_ones map]; constructor; [|exact IH].
  destruct (N.eqb_spec h 0); lia.
Qed.

(* ---- present symbols ---- *)
Lemma present_go_len_le fr : forall i, (length (present_go fr i) <= length fr)%nat.
Proof.
  induction fr as [|h t IH]; intros i; cbn [present_go length]; [lia|].
  specialize (IH (i + 1)). destruct (0 <? h); cbn [length]; lia.
Qed.
Lemma present_go_pos fr : Forall (fun f => 0 < f) fr -> forall i,
  length (present_go fr i) = length fr /\
  forall s, i <= s < i + N.of_nat (length fr) -> In s (present_go fr i).
Proof.
  induction 1 as [|h t Hh _ IH]; intros i; cbn [present_go length].
  - split; [reflexivity|]. intros s Hs. lia.
  - replace (0 <? h) with true by (symmetry; apply N.ltb_lt; exact Hh).
    destruct (IH (i + 1)) as [Hl Hin]. cbn [length]. split; [now rewrite Hl|].
    intros s Hs. destruct (N.eq_dec s i) as [->|Hne]; [now left|]. right. apply Hin. lia.
Qed.
Lemma present_go_nonempty fr : 0 < sumN fr -> forall i, present_go fr i <> [].
Proof.
  induction fr as [|h t IH]; intros Hs i; cbn [sumN] in Hs; [lia|]. cbn [present_go].
  destruct (N.ltb_spec 0 h) as [Hp|Hz]; [discriminate|]. apply IH. lia.
Qed.

(* ---- the merge ---- *)
Lemma merge_freqs_ok : forall cf o0, length cf = length o0 -> Forall (fun c => c * 100 < W32) cf ->
  exists mf, merge_freqs cf o0 = Some mf /\ length mf = length cf /\ Forall (fun f => 0 < f) mf.
Proof.
  induction cf as [|c ct IH]; intros o0 Hl Hc.
  - exists []. cbn [merge_freqs]. repeat split. constructor.
  - destruct o0 as [|o ot]; [discriminate|]. cbn [length] in Hl.
    inversion Hc as [|? ? Hc1 Hc2]; subst. cbn [merge_freqs].
    destruct (merged_freqs_cover_proof c o Hc1) as [f [Hf Hpos]].
    change (merged_freq c o) with (merged_freq_m c o) in Hf. rewrite Hf.
    destruct (IH ot ltac:(lia) Hc2) as [r [Hr [Hlr Hpr]]]. rewrite Hr.
    exists (f :: r). split; [reflexivity|]. cbn [length]. split; [lia|]. now constructor.
Qed.

(* ---- the HashMap of context counts: after n positions every array has 256 entries that sum to at most n ---- *)
Definition cf_inv (n : N) (m : cfreqs) : Prop :=
  Forall (fun p => length (snd p) = 256%nat /\ sumN (snd p) <= n) m.
Lemma cf_inv_mono n n' m : n <= n' -> cf_inv n m -> cf_inv n' m.
Proof. intros Hle. unfold cf_inv. apply Forall_impl. intros p [H1 H2]. split; [exact H1|lia]. Qed.
Lemma ctx_bump_ok : forall m k s n, cf_inv n m -> (s < 256)%nat -> n + 1 < W32 ->
  exists m', ctx_bump k s m = Some m' /\ cf_inv (n + 1) m'.
Proof.
  induction m as [|[k' fr] rest IH]; intros k s n Hinv Hs Hn; cbn [ctx_bump].
  - destruct (bump_ok zeros256 s) as [fr [Hb [Hl Hsum]]]; [rewrite zeros_len; exact Hs|rewrite zeros_sum; lia|].
    rewrite Hb. eexists. split; [reflexivity|]. constructor; [|constructor]. cbn [snd].
    rewrite Hl, Hsum, zeros_sum. split; [exact zeros_len|lia].
  - inversion Hinv as [|? ? [Hl Hsum] Hrest]; subst. cbn [snd] in Hl, Hsum.
    destruct (k' =? k).
    + destruct (bump_ok fr s) as [fr' [Hb [Hl' Hsum']]]; [lia|lia|]. rewrite Hb.
      eexists. split; [reflexivity|]. constructor.
      * cbn [snd]. split; lia.
      * apply cf_inv_mono with n; [lia|exact Hrest].
    + destruct (IH k s n Hrest Hs Hn) as [r [Hr Hinv']]. rewrite Hr.
      eexists. split; [reflexivity|]. constructor; [|exact Hinv']. cbn [snd]. split; lia.
Qed.
Lemma ctx1_go_ok : forall d prev m n, cf_inv n m -> bytes_ok d -> n + N.of_nat (length d) < W32 ->
  exists m', ctx1_go prev d m = Some m' /\ cf_inv (n + N.of_nat (length d)) m'.
Proof.
  induction d as [|s t IH]; intros prev m n Hinv Hd Hn; cbn [ctx1_go length].
  - exists m. split; [reflexivity|]. apply cf_inv_mono with n; [lia|exact Hinv].
  - inversion Hd as [|? ? Hs Ht]; subst. unfold is_byte in Hs. cbn [length] in Hn.
    destruct (ctx_bump_ok m prev (N.to_nat s) n Hinv ltac:(lia) ltac:(lia)) as [m1 [H1 Hinv1]]. rewrite H1.
    destruct (IH s m1 (n + 1) Hinv1 Ht ltac:(lia)) as [m' [H2 Hinv2]].
    exists m'. split; [exact H2|]. apply cf_inv_mono with (n + 1 + N.of_nat (length t)); [lia|exact Hinv2].
Qed.
Lemma ctx2_go_ok : forall d p2 p1 m n, cf_inv n m -> bytes_ok d -> n + N.of_nat (length d) < W32 ->
  exists m', ctx2_go p2 p1 d m = Some m' /\ cf_inv (n + N.of_nat (length d)) m'.
Proof.
  induction d as [|s t IH]; intros p2 p1 m n Hinv Hd Hn; cbn [ctx2_go length].
  - exists m. split; [reflexivity|]. apply cf_inv_mono with n; [lia|exact Hinv].
  - inversion Hd as [|? ? Hs Ht]; subst. unfold is_byte in Hs. cbn [length] in Hn.
    destruct (ctx_bump_ok m (p2 * 256 + p1) (N.to_nat s) n Hinv ltac:(lia) ltac:(lia)) as [m1 [H1 Hinv1]].
    rewrite H1.
    destruct (IH p1 s m1 (n + 1) Hinv1 Ht ltac:(lia)) as [m' [H2 Hinv2]].
    exists m'. split; [exact H2|]. apply cf_inv_mono with (n + 1 + N.of_nat (length t)); [lia|exact Hinv2].
Qed.
Lemma cf_inv_nil n : cf_inv n []. Proof. constructor. Qed.
Lemma ctx1_counts_ok d : bytes_ok d -> N.of_nat (length d) < W32 ->
  exists m, ctx1_counts d = Some m /\ cf_inv (N.of_nat (length d)) m.
Proof.
  intros Hd Hn. destruct d as [|p t]; [exists []; split; [reflexivity|apply cf_inv_nil]|].
  inversion Hd as [|? ? _ Ht]; subst. cbn [length] in *. unfold ctx1_counts.
  destruct (ctx1_go_ok t p [] 0 (cf_inv_nil 0) Ht ltac:(lia)) as [m [H1 H2]].
  exists m. split; [exact H1|]. apply cf_inv_mono with (0 + N.of_nat (length t)); [lia|exact H2].
Qed.
Lemma ctx2_counts_ok d : bytes_ok d -> N.of_nat (length d) < W32 ->
  exists m, ctx2_counts d = Some m /\ cf_inv (N.of_nat (length d)) m.
Proof.
  intros Hd Hn. destruct d as [|p2 [|p1 t]]; try (exists []; split; [reflexivity|apply cf_inv_nil]).
  inversion Hd as [|? ? _ Ht1]; subst. inversion Ht1 as [|? ? _ Ht]; subst. cbn [length] in *.
  unfold ctx2_counts.
  destruct (ctx2_go_ok t p2 p1 [] 0 (cf_inv_nil 0) Ht ltac:(lia)) as [m [H1 H2]].
  exists m. split; [exact H1|]. apply cf_inv_mono with (0 + N.of_nat (length t)); [lia|exact H2].
Qed.

(* what the build loop needs of each context *)
Definition cs_ok (cs : cfreqs) : Prop :=
  Forall (fun p => length (snd p) = 256%nat /\ Forall (fun c => c * 100 < W32) (snd p)) cs.
Lemma cf_inv_cs_ok n m : n * 100 < W32 -> cf_inv n m -> cs_ok m.
Proof.
  intros Hn. unfold cf_inv, cs_ok. apply Forall_impl. intros p [Hl Hs]. split; [exact Hl|].
  apply Forall_forall. intros c Hc. pose proof (in_le_sumN c _ Hc). lia.
Qed.

(* ---- order 2: the selection ---- *)
Lemma sum_u32_ok : forall fr acc, acc + sumN fr < W32 -> sum_u32 fr acc = Some (acc + sumN fr).
Proof.
  induction fr as [|f t IH]; intros acc Hs; cbn [sum_u32 sumN] in *.
  - f_equal. lia.
  - replace (acc + f <? W32) with true by (symmetry; apply N.ltb_lt; lia).
    rewrite IH by lia. f_equal. lia.
Qed.
Lemma with_totals_ok : forall cs n, cf_inv n cs -> n < W32 ->
  exists ks, with_totals cs = Some ks /\ map snd ks = cs /\
             Forall (fun q => fst q = sumN (snd (snd q))) ks.
Proof.
  induction cs as [|p rest IH]; intros n Hinv Hn; cbn [with_totals].
  - exists []. repeat split. constructor.
  - inversion Hinv as [|? ? [Hl Hs] Hrest]; subst.
    rewrite sum_u32_ok by lia.
    destruct (IH n Hrest Hn) as [r [Hr [Hmap Hall]]]. rewrite Hr.
    eexists. split; [reflexivity|]. cbn [map snd]. split; [now rewrite Hmap|].
    constructor; [cbn [fst snd]; lia|exact Hall].
Qed.
Lemma ins_stable_perm {A} (x : N * A) l : Permutation (ins_stable x l) (x :: l).
Proof.
  induction l as [|y t IH]; cbn [ins_stable]; [reflexivity|].
  destruct (fst x <=? fst y); [reflexivity|].
  rewrite IH. apply perm_swap.
Qed.
Lemma sort_stable_perm {A} (l : list (N * A)) : Permutation (sort_stable l) l.
Proof.
  induction l as [|x t IH]; cbn [sort_stable]; [reflexivity|].
  rewrite ins_stable_perm. now constructor.
Qed.
Lemma in_firstn {A} (x : A) : forall n l, In x (firstn n l) -> In x l.
Proof.
  induction n as [|n IH]; intros l Hin; [destruct Hin|].
  destruct l as [|h t]; [destruct Hin|]. cbn [firstn] in Hin. destruct Hin as [->|Hin]; [now left|].
  right. now apply IH.
Qed.
Lemma select_top_ok cs n : cf_inv n cs -> n < W32 ->
  exists cs', select_top cs = Some cs' /\ forall p, In p cs' -> In p cs.
Proof.
  intros Hinv Hn. destruct (with_totals_ok cs n Hinv Hn) as [ks [Hk [Hmap _]]].
  unfold select_top. rewrite Hk. eexists. split; [reflexivity|].
  intros p Hp. rewrite <- Hmap. apply in_map_iff in Hp. destruct Hp as [q [<- Hq]].
  apply in_map. apply in_firstn in Hq. apply in_rev in Hq.
  apply (Permutation_in q (sort_stable_perm ks) Hq).
Qed.

(* ---- context_map.insert ---- *)
Lemma map_insert_Forall (Q : nat -> Prop) k v : forall m,
  Forall (fun p => Q (snd p)) m -> Q v -> Forall (fun p => Q (snd p)) (cmap_insert k v m).
Proof.
  induction m as [|[k' v'] rest IH]; intros Hm Hv; cbn [cmap_insert].
  - constructor; [exact Hv|constructor].
  - inversion Hm as [|? ? H1 H2]; subst. destruct (k' =? k).
    + constructor; [exact Hv|exact H2].
    + constructor; [exact H1|]. now apply IH.
Qed.

(* ---- hm_of reorders, whatever the keys ---- *)
Lemma extract_perm k : forall l p l', extract k l = Some (p, l') -> Permutation l (p :: l').
Proof.
  induction l as [|q rest IH]; intros p l' H; cbn [extract] in H; [discriminate|].
  destruct (fst q =? k).
  - injection H as <- <-. reflexivity.
  - destruct (extract k rest) as [[q' r]|] eqn:He; [|discriminate]. injection H as <- <-.
    rewrite (IH _ _ eq_refl). apply perm_swap.
Qed.
Lemma pick_all_perm : forall ks l a r, pick_all ks l = (a, r) -> Permutation l (a ++ r).
Proof.
  induction ks as [|k t IH]; intros l a r H; cbn [pick_all] in H.
  - injection H as <- <-. reflexivity.
  - destruct (extract k l) as [[p l']|] eqn:He.
    + destruct (pick_all t l') as [a' r'] eqn:Hp. injection H as <- <-.
      rewrite (extract_perm _ _ _ _ He). cbn [app]. constructor. now apply IH.
    + now apply IH.
Qed.
Theorem hm_of_perm_proof : forall order keys l, Permutation (hm_of order keys l) l.
Proof.
  intros order keys l. unfold hm_of. destruct (order =? 2).
  - destruct (pick_all (rev keys) l) as [a r] eqn:Hp. symmetry.
    rewrite (pick_all_perm _ _ _ _ Hp). apply Permutation_app_comm.
  - destruct (pick_all keys l) as [a r] eqn:Hp. symmetry. exact (pick_all_perm _ _ _ _ Hp).
Qed.

Example ex_hm_of : hm_of 1 [7; 9; 7; 5] [(5, [1]); (6, [2]); (7, [3])] = [(7, [3]); (5, [1]); (6, [2])] /\
                   hm_of 2 [7; 9; 7; 5] [(5, [1]); (6, [2]); (7, [3])] = [(6, [2]); (5, [1]); (7, [3])].
Proof. vm_compute. split; reflexivity. Qed.
