(* C01 property theorems (Huffman half).  Nothing but statements closed by `exact`, a pin, and
   Print Assumptions.  The driver parses this file's output. *)
From ZV.Common Require Import Base.
From ZV.C01 Require Import Model ModelCtx ProofsBits ProofsHuff.
Open Scope N_scope.

(* the byte packing loop of the encoders, read back in the decoders' bit order, gives the bits written
   followed by zero padding up to the byte boundary *)
Theorem pack_unpack :
  forall bs, unpack (pack bs) = bs ++ repeat false (pad_len (length bs)).
Proof. exact pack_unpack_proof. Qed.
Check pack_unpack :
  forall bs, unpack (pack bs) = bs ++ repeat false (pad_len (length bs)).
Print Assumptions pack_unpack.

(* HuffmanDecoder::decode(HuffmanEncoder::encode(d), |d|) = d for every decoding tree and code table that
   agree (wf_ht, decidable), every data the encoder accepts, every length *)
Theorem huff_roundtrip :
  forall ht d b, wf_ht ht = true -> huff_encode ht d = Some b -> huff_decode ht b (length d) = Some d.
Proof. exact huff_roundtrip_proof. Qed.
Check huff_roundtrip :
  forall ht d b, wf_ht ht = true -> huff_encode ht d = Some b -> huff_decode ht b (length d) = Some d.
Print Assumptions huff_roundtrip.

(* a symbol without a code makes the encoder fail: no silent drop or substitution *)
Theorem huff_encode_rejects :
  forall ht d, (exists s, In s d /\ get_code (ht_codes ht) s = None) -> huff_encode ht d = None.
Proof. exact huff_encode_rejects_proof. Qed.
Check huff_encode_rejects :
  forall ht d, (exists s, In s d /\ get_code (ht_codes ht) s = None) -> huff_encode ht d = None.
Print Assumptions huff_encode_rejects.

(* ... and it succeeds on everything the table covers *)
Theorem huff_encode_total :
  forall ht d, (forall s, In s d -> get_code (ht_codes ht) s <> None) -> exists b, huff_encode ht d = Some b.
Proof. exact huff_encode_total_proof. Qed.
Check huff_encode_total :
  forall ht d, (forall s, In s d -> get_code (ht_codes ht) s <> None) -> exists b, huff_encode ht d = Some b.
Print Assumptions huff_encode_total.
