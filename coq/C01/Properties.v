(* TEMPORARY - replaced at merge.  Stand-alone Properties.v of the rANS / FSE / LZ half of C01. *)
From ZV.C01 Require Export PropertiesB.
