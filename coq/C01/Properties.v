(* C01 property theorems (Huffman half).  Nothing but statements closed by `exact`, a pin, and
   Print Assumptions.  The driver parses this file's output. *)
From ZV.Common Require Import Base.
From ZV.C01 Require Import Model ModelCtx ProofsBits ProofsHuff ProofsTree ProofsIO ProofsCtx ProofsXn ProofsRefute ProofsHeap ProofsTotal ProofsRebuild.
Open Scope N_scope.

(* the byte packing loop of the encoders, read back in the decoders' bit order, gives the bits written
   followed by zero padding up to the byte boundary *)
Theorem pack_unpack :
  forall bs, unpack (pack bs) = bs ++ repeat false (pad_len (length bs)).
Proof. exact pack_unpack_proof. Qed.
Check pack_unpack :
  forall bs, unpack (pack bs) = bs ++ repeat false (pad_len (length bs)).
Print Assumptions pack_unpack.

(* HuffmanDecoder::decode(HuffmanEncoder::encode(d), |d|) = d for every decoding tree and code table that
   agree (wf_ht, decidable), every data the encoder accepts, every length *)
Theorem huff_roundtrip :
  forall ht d b, wf_ht ht = true -> huff_encode ht d = Some b -> huff_decode ht b (length d) = Some d.
Proof. exact huff_roundtrip_proof. Qed.
Check huff_roundtrip :
  forall ht d b, wf_ht ht = true -> huff_encode ht d = Some b -> huff_decode ht b (length d) = Some d.
Print Assumptions huff_roundtrip.

(* a symbol without a code makes the encoder fail: no silent drop or substitution *)
Theorem huff_encode_rejects :
  forall ht d, (exists s, In s d /\ get_code (ht_codes ht) s = None) -> huff_encode ht d = None.
Proof. exact huff_encode_rejects_proof. Qed.
Check huff_encode_rejects :
  forall ht d, (exists s, In s d /\ get_code (ht_codes ht) s = None) -> huff_encode ht d = None.
Print Assumptions huff_encode_rejects.

(* ... and it succeeds on everything the table covers *)
Theorem huff_encode_total :
  forall ht d, (forall s, In s d -> get_code (ht_codes ht) s <> None) -> exists b, huff_encode ht d = Some b.
Proof. exact huff_encode_total_proof. Qed.
Check huff_encode_total :
  forall ht d, (forall s, In s d -> get_code (ht_codes ht) s <> None) -> exists b, huff_encode ht d = Some b.
Print Assumptions huff_encode_total.

(* generate_codes: whatever tree (two or more leaves) the heap loop built, the generated table agrees with it *)
Theorem gen_codes_wf :
  forall t, is_node t = true -> wf_ht (mkHT (Some t) (gen_codes t [])) = true.
Proof. exact gen_codes_wf_proof. Qed.
Check gen_codes_wf :
  forall t, is_node t = true -> wf_ht (mkHT (Some t) (gen_codes t [])) = true.
Print Assumptions gen_codes_wf.

(* build_decoding_tree_from_codes / insert_code_into_tree (placeholders, collision error) succeed on every
   non-empty prefix-free table and yield a tree that agrees with it (deserialize, fixed-length fallback) *)
Theorem build_root_wf :
  forall tb, prefix_free tb = true -> tb <> [] ->
  exists t, build_root tb = Some (Some t) /\ wf_ht (mkHT (Some t) tb) = true.
Proof. exact build_root_wf_proof. Qed.
Check build_root_wf :
  forall tb, prefix_free tb = true -> tb <> [] ->
  exists t, build_root tb = Some (Some t) /\ wf_ht (mkHT (Some t) tb) = true.
Print Assumptions build_root_wf.

(* from_frequencies over any heap result: normal path, single symbol, and the 8-bit fixed-length fallback taken
   when a code exceeds 64 bits all produce a well-formed HuffmanTree and never fail *)
Theorem ht_from_heap_wf :
  forall syms heap, (length syms <= 256)%nat -> is_node heap = true ->
  exists ht, ht_from_heap syms heap = Some ht /\ wf_ht ht = true.
Proof. exact ht_from_heap_wf_proof. Qed.
Check ht_from_heap_wf :
  forall syms heap, (length syms <= 256)%nat -> is_node heap = true ->
  exists ht, ht_from_heap syms heap = Some ht /\ wf_ht ht = true.
Print Assumptions ht_from_heap_wf.

(* BitStreamWriter::write appends the bits (up to 32 at a time) to the stream the writer represents *)
Theorem writer_write_refines :
  forall w bits lb, wrep w bits -> (length lb <= 32)%nat ->
  wrep (w_write w (n_of_bits lb) (N.of_nat (length lb))) (bits ++ lb).
Proof. exact w_write_rep. Qed.
Check writer_write_refines :
  forall w bits lb, wrep w bits -> (length lb <= 32)%nat ->
  wrep (w_write w (n_of_bits lb) (N.of_nat (length lb))) (bits ++ lb).
Print Assumptions writer_write_refines.

(* BitStreamWriter::finish yields bytes that unpack to the stream plus zero padding *)
Theorem writer_finish_refines :
  forall w bits, wrep w bits -> exists p, unpack (w_finish w) = bits ++ repeat false p /\ bytes_ok (w_finish w).
Proof. exact w_finish_rep. Qed.
Check writer_finish_refines :
  forall w bits, wrep w bits -> exists p, unpack (w_finish w) = bits ++ repeat false p /\ bytes_ok (w_finish w).
Print Assumptions writer_finish_refines.

(* BitStreamReader::refill does not change the bits still to be delivered; at most 56 buffered bits afterwards
   means the input is exhausted *)
Theorem reader_refill_refines :
  forall r V, rrep r V ->
  rrep (r_refill r) V /\ (r_cnt (r_refill r) <= 56 -> length V = N.to_nat (r_cnt (r_refill r))).
Proof. exact r_refill_rep. Qed.
Check reader_refill_refines :
  forall r V, rrep r V ->
  rrep (r_refill r) V /\ (r_cnt (r_refill r) <= 56 -> length V = N.to_nat (r_cnt (r_refill r))).
Print Assumptions reader_refill_refines.

(* BitStreamReader::peek returns the next k buffered bits as a number *)
Theorem reader_peek_refines :
  forall r V k, rrep r V -> N.of_nat k <= r_cnt r -> r_peek r (N.of_nat k) = n_of_bits (firstn k V).
Proof. exact r_peek_spec. Qed.
Check reader_peek_refines :
  forall r V k, rrep r V -> N.of_nat k <= r_cnt r -> r_peek r (N.of_nat k) = n_of_bits (firstn k V).
Print Assumptions reader_peek_refines.

(* BitStreamReader::consume drops k buffered bits *)
Theorem reader_consume_refines :
  forall r V k, rrep r V -> N.of_nat k <= r_cnt r ->
  exists r', r_consume r (N.of_nat k) = Some r' /\ rrep r' (skipn k V).
Proof. exact r_consume_rep. Qed.
Check reader_consume_refines :
  forall r V k, rrep r V -> N.of_nat k <= r_cnt r ->
  exists r', r_consume r (N.of_nat k) = Some r' /\ rrep r' (skipn k V).
Print Assumptions reader_consume_refines.

(* decode_one_symbol (12-bit table path, tree path near the end of the stream or for codes longer than 12 bits,
   single-leaf trees) returns exactly what the cursor decoder returns on the remaining bits *)
Theorem decode_one_symbol_refines :
  forall ht r V s V', rrep r V -> dns true ht V = Some (s, V') ->
  exists r', dos true ht r = Some (s, r') /\ rrep r' V'.
Proof. exact dos_spec. Qed.
Check decode_one_symbol_refines :
  forall ht r V s V', rrep r V -> dns true ht V = Some (s, V') ->
  exists r', dos true ht r = Some (s, r') /\ rrep r' V'.
Print Assumptions decode_one_symbol_refines.

(* ContextualHuffmanDecoder::decode(ContextualHuffmanEncoder::encode(d), |d|) = d for orders 0, 1, 2, every
   family of trees that agree with their tables, every data the encoder accepts, every length *)
Theorem ctx_roundtrip :
  forall e d b, wf_cenc e = true -> ctx_encode e d = Some b -> ctx_decode e b (length d) = Some d.
Proof. exact ctx_roundtrip_proof. Qed.
Check ctx_roundtrip :
  forall e d b, wf_cenc e = true -> ctx_encode e d = Some b -> ctx_decode e b (length d) = Some d.
Print Assumptions ctx_roundtrip.

(* the contextual encoder refuses a symbol the tree chosen by its context has no code for *)
Theorem ctx_encode_rejects :
  forall e d pre s post, d = pre ++ s :: post ->
  get_code (ht_codes (ctx_tree e (firstn 2 (rev pre)))) s = None -> ctx_encode e d = None.
Proof. exact ctx_encode_rejects_proof. Qed.
Check ctx_encode_rejects :
  forall e d pre s post, d = pre ++ s :: post ->
  get_code (ht_codes (ctx_tree e (firstn 2 (rev pre)))) s = None -> ctx_encode e d = None.
Print Assumptions ctx_encode_rejects.

(* the N chunks of encode_xn / decode_xn are consecutive, start at 0 and end at the length, for every N >= 1 and length *)
Theorem chunks_partition :
  forall nst len, (1 <= nst)%nat -> chain 0 (bounds nst len) len /\ length (bounds nst len) = nst.
Proof. exact chunks_partition_proof. Qed.
Check chunks_partition :
  forall nst len, (1 <= nst)%nat -> chain 0 (bounds nst len) len /\ length (bounds nst len) = nst.
Print Assumptions chunks_partition.

(* decode_xN(encode_xN(d), |d|) = d for every stream count N >= 1 (the code has 1, 2, 4, 8), every length
   (shorter than N, not divisible by N, ...), every family of trees that agree with their tables, codes of any length *)
Theorem xn_roundtrip :
  forall e nst d b, wf_cenc e = true -> (1 <= nst)%nat ->
  xn_encode e nst d = Some b -> xn_decode e nst b (length d) = Some d.
Proof. exact xn_roundtrip_proof. Qed.
Check xn_roundtrip :
  forall e nst d b, wf_cenc e = true -> (1 <= nst)%nat ->
  xn_encode e nst d = Some b -> xn_decode e nst b (length d) = Some d.
Print Assumptions xn_roundtrip.

(* the code before fix 1482744 (fast symbol table truncating to 16 bits) loses data with a 17-bit code *)
Theorem xn_refuted_long_codes :
  exists e d b, wf_cenc e = true /\ xn_encode_g true e 1 d = Some b /\ xn_decode e 1 b (length d) <> Some d.
Proof. exact xn_refuted_long_codes_proof. Qed.
Check xn_refuted_long_codes :
  exists e d b, wf_cenc e = true /\ xn_encode_g true e 1 d = Some b /\ xn_decode e 1 b (length d) <> Some d.
Print Assumptions xn_refuted_long_codes.

(* the code before fix 1482744 wrote a placeholder bit for a symbol without a code *)
Theorem xn_refuted_missing_symbol :
  exists e d b, wf_cenc e = true /\ get_code (ht_codes (tree_at e 0)) (nth 0 d 0) = None /\
                xn_encode_g true e 1 d = Some b /\ xn_decode e 1 b (length d) <> Some d.
Proof. exact xn_refuted_missing_symbol_proof. Qed.
Check xn_refuted_missing_symbol :
  exists e d b, wf_cenc e = true /\ get_code (ht_codes (tree_at e 0)) (nth 0 d 0) = None /\
                xn_encode_g true e 1 d = Some b /\ xn_decode e 1 b (length d) <> Some d.
Print Assumptions xn_refuted_missing_symbol.

(* the code before fix 3a64f0a (Order-0 fallback inside a mapped context) does not round-trip *)
Theorem ctx_refuted_fallback :
  exists e d b, wf_cenc e = true /\ ctx_encode_g true e d = Some b /\ ctx_decode e b (length d) <> Some d.
Proof. exact ctx_refuted_fallback_proof. Qed.
Check ctx_refuted_fallback :
  exists e d b, wf_cenc e = true /\ ctx_encode_g true e d = Some b /\ ctx_decode e b (length d) <> Some d.
Print Assumptions ctx_refuted_fallback.

(* the decoders before fix 9f4279a consumed no bit for a single-leaf context tree *)
Theorem ctx_refuted_single_leaf :
  exists e d b, wf_cenc e = true /\ ctx_encode e d = Some b /\ ctx_decode_g false e b (length d) <> Some d.
Proof. exact ctx_refuted_single_leaf_proof. Qed.
Check ctx_refuted_single_leaf :
  exists e d b, wf_cenc e = true /\ ctx_encode e d = Some b /\ ctx_decode_g false e b (length d) <> Some d.
Print Assumptions ctx_refuted_single_leaf.

(* ... the interleaved decoder likewise *)
Theorem xn_refuted_single_leaf :
  exists e d b, wf_cenc e = true /\ xn_encode e 1 d = Some b /\ xn_decode_g false e 1 b (length d) <> Some d.
Proof. exact xn_refuted_single_leaf_proof. Qed.
Check xn_refuted_single_leaf :
  exists e d b, wf_cenc e = true /\ xn_encode e 1 d = Some b /\ xn_decode_g false e 1 b (length d) <> Some d.
Print Assumptions xn_refuted_single_leaf.

(* a decoding tree is determined by its table: build_decoding_tree_from_codes(generate_codes(t)) = t
   (the model is handed the real code table only; the tree is private in the Rust code) *)
Theorem rebuild_tree :
  forall t, no_hole t = true -> is_node t = true -> build_root (gen_codes t []) = Some (Some t).
Proof. exact rebuild_tree_proof. Qed.
Check rebuild_tree :
  forall t, no_hole t = true -> is_node t = true -> build_root (gen_codes t []) = Some (Some t).
Print Assumptions rebuild_tree.

(* whatever order the BinaryHeap hands out nodes in (any two nodes may be merged at each step), every symbol
   with a non-zero count gets a code *)
Theorem from_frequencies_covers :
  forall syms heap ht, heap_run (map Leaf syms) heap -> ht_from_heap syms heap = Some ht ->
  forall s, In s syms -> get_code (ht_codes ht) s <> None.
Proof. exact from_frequencies_covers_proof. Qed.
Check from_frequencies_covers :
  forall syms heap ht, heap_run (map Leaf syms) heap -> ht_from_heap syms heap = Some ht ->
  forall s, In s syms -> get_code (ht_codes ht) s <> None.
Print Assumptions from_frequencies_covers.

(* HuffmanEncoder::new / from_frequencies, encode, decode: total and lossless on every payload over the symbols
   the encoder was built for, for every heap behaviour (normal path, single symbol, 8-bit fallback) *)
Theorem from_frequencies_roundtrip :
  forall syms heap d, (length syms <= 256)%nat -> heap_run (map Leaf syms) heap -> (forall s, In s d -> In s syms) ->
  exists ht b, ht_from_heap syms heap = Some ht /\ huff_encode ht d = Some b /\
               huff_decode ht b (length d) = Some d.
Proof. exact from_frequencies_roundtrip_proof. Qed.
Check from_frequencies_roundtrip :
  forall syms heap d, (length syms <= 256)%nat -> heap_run (map Leaf syms) heap -> (forall s, In s d -> In s syms) ->
  exists ht b, ht_from_heap syms heap = Some ht /\ huff_encode ht d = Some b /\
               huff_decode ht b (length d) = Some d.
Print Assumptions from_frequencies_roundtrip.

(* new_order1 / new_order2: the merged count of every symbol is positive unless count * 100 overflows u32 *)
Theorem merged_freqs_cover :
  forall c o, c * 100 < W32 -> exists f, merged_freq c o = Some f /\ 0 < f.
Proof. exact merged_freqs_cover_proof. Qed.
Check merged_freqs_cover :
  forall c o, c * 100 < W32 -> exists f, merged_freq c o = Some f /\ 0 < f.
Print Assumptions merged_freqs_cover.

(* an encoder all of whose trees code every byte (what new_order1 / new_order2 build) never refuses *)
Theorem ctx_encode_total :
  forall e d, c_trees e <> [] -> forallb (fun p => (snd p <? length (c_trees e))%nat) (c_map e) = true ->
  (forall ht, In ht (c_trees e) -> covers_bytes ht) -> bytes_ok d -> exists b, ctx_encode e d = Some b.
Proof. exact ctx_encode_total_proof. Qed.
Check ctx_encode_total :
  forall e d, c_trees e <> [] -> forallb (fun p => (snd p <? length (c_trees e))%nat) (c_map e) = true ->
  (forall ht, In ht (c_trees e) -> covers_bytes ht) -> bytes_ok d -> exists b, ctx_encode e d = Some b.
Print Assumptions ctx_encode_total.

(* ... and its interleaved encoder terminates and succeeds for every stream count and length *)
Theorem xn_encode_total :
  forall e nst d, c_order e = 1 -> c_trees e <> [] ->
  forallb (fun p => (snd p <? length (c_trees e))%nat) (c_map e) = true ->
  (forall ht, In ht (c_trees e) -> covers_bytes ht) -> bytes_ok d -> (1 <= nst)%nat ->
  exists b, xn_encode e nst d = Some b.
Proof. exact xn_encode_total_proof. Qed.
Check xn_encode_total :
  forall e nst d, c_order e = 1 -> c_trees e <> [] ->
  forallb (fun p => (snd p <? length (c_trees e))%nat) (c_map e) = true ->
  (forall ht, In ht (c_trees e) -> covers_bytes ht) -> bytes_ok d -> (1 <= nst)%nat ->
  exists b, xn_encode e nst d = Some b.
Print Assumptions xn_encode_total.
