(* C01 property theorems (Huffman half first, then the rANS / FSE / LZ half).  Nothing but statements closed by `exact`, a pin, and
   Print Assumptions.  The driver parses this file's output. *)
From ZV.Common Require Import Base.
From ZV.C01 Require Import Model ModelCtx ProofsBits ProofsHuff ProofsTree ProofsIO ProofsCtx ProofsXn ProofsRefute ProofsHeap ProofsTotal ProofsRebuild.
Open Scope N_scope.

(* the byte packing loop of the encoders, read back in the decoders' bit order, gives the bits written
   followed by zero padding up to the byte boundary *)
Theorem pack_unpack :
  forall bs, unpack (pack bs) = bs ++ repeat false (pad_len (length bs)).
Proof. exact pack_unpack_proof. Qed.
Check pack_unpack :
  forall bs, unpack (pack bs) = bs ++ repeat false (pad_len (length bs)).
Print Assumptions pack_unpack.

(* HuffmanDecoder::decode(HuffmanEncoder::encode(d), |d|) = d for every decoding tree and code table that
   agree (wf_ht, decidable), every data the encoder accepts, every length *)
Theorem huff_roundtrip :
  forall ht d b, wf_ht ht = true -> huff_encode ht d = Some b -> huff_decode ht b (length d) = Some d.
Proof. exact huff_roundtrip_proof. Qed.
Check huff_roundtrip :
  forall ht d b, wf_ht ht = true -> huff_encode ht d = Some b -> huff_decode ht b (length d) = Some d.
Print Assumptions huff_roundtrip.

(* a symbol without a code makes the encoder fail: no silent drop or substitution *)
Theorem huff_encode_rejects :
  forall ht d, (exists s, In s d /\ get_code (ht_codes ht) s = None) -> huff_encode ht d = None.
Proof. exact huff_encode_rejects_proof. Qed.
Check huff_encode_rejects :
  forall ht d, (exists s, In s d /\ get_code (ht_codes ht) s = None) -> huff_encode ht d = None.
Print Assumptions huff_encode_rejects.

(* ... and it succeeds on everything the table covers *)
Theorem huff_encode_total :
  forall ht d, (forall s, In s d -> get_code (ht_codes ht) s <> None) -> exists b, huff_encode ht d = Some b.
Proof. exact huff_encode_total_proof. Qed.
Check huff_encode_total :
  forall ht d, (forall s, In s d -> get_code (ht_codes ht) s <> None) -> exists b, huff_encode ht d = Some b.
Print Assumptions huff_encode_total.

(* generate_codes: whatever tree (two or more leaves) the heap loop built, the generated table agrees with it *)
Theorem gen_codes_wf :
  forall t, is_node t = true -> wf_ht (mkHT (Some t) (gen_codes t [])) = true.
Proof. exact gen_codes_wf_proof. Qed.
Check gen_codes_wf :
  forall t, is_node t = true -> wf_ht (mkHT (Some t) (gen_codes t [])) = true.
Print Assumptions gen_codes_wf.

(* build_decoding_tree_from_codes / insert_code_into_tree (placeholders, collision error) succeed on every
   non-empty prefix-free table and yield a tree that agrees with it (deserialize, fixed-length fallback) *)
Theorem build_root_wf :
  forall tb, prefix_free tb = true -> tb <> [] ->
  exists t, build_root tb = Some (Some t) /\ wf_ht (mkHT (Some t) tb) = true.
Proof. exact build_root_wf_proof. Qed.
Check build_root_wf :
  forall tb, prefix_free tb = true -> tb <> [] ->
  exists t, build_root tb = Some (Some t) /\ wf_ht (mkHT (Some t) tb) = true.
Print Assumptions build_root_wf.

(* from_frequencies over any heap result: normal path, single symbol, and the 8-bit fixed-length fallback taken
   when a code exceeds 64 bits all produce a well-formed HuffmanTree and never fail *)
Theorem ht_from_heap_wf :
  forall syms heap, (length syms <= 256)%nat -> is_node heap = true ->
  exists ht, ht_from_heap syms heap = Some ht /\ wf_ht ht = true.
Proof. exact ht_from_heap_wf_proof. Qed.
Check ht_from_heap_wf :
  forall syms heap, (length syms <= 256)%nat -> is_node heap = true ->
  exists ht, ht_from_heap syms heap = Some ht /\ wf_ht ht = true.
Print Assumptions ht_from_heap_wf.

(* BitStreamWriter::write appends the bits (up to 32 at a time) to the stream the writer represents *)
Theorem writer_write_refines :
  forall w bits lb, wrep w bits -> (length lb <= 32)%nat ->
  wrep (w_write w (n_of_bits lb) (N.of_nat (length lb))) (bits ++ lb).
Proof. exact w_write_rep. Qed.
Check writer_write_refines :
  forall w bits lb, wrep w bits -> (length lb <= 32)%nat ->
  wrep (w_write w (n_of_bits lb) (N.of_nat (length lb))) (bits ++ lb).
Print Assumptions writer_write_refines.

(* BitStreamWriter::finish yields bytes that unpack to the stream plus zero padding *)
Theorem writer_finish_refines :
  forall w bits, wrep w bits -> exists p, unpack (w_finish w) = bits ++ repeat false p /\ bytes_ok (w_finish w).
Proof. exact w_finish_rep. Qed.
Check writer_finish_refines :
  forall w bits, wrep w bits -> exists p, unpack (w_finish w) = bits ++ repeat false p /\ bytes_ok (w_finish w).
Print Assumptions writer_finish_refines.

(* BitStreamReader::refill does not change the bits still to be delivered; at most 56 buffered bits afterwards
   means the input is exhausted *)
Theorem reader_refill_refines :
  forall r V, rrep r V ->
  rrep (r_refill r) V /\ (r_cnt (r_refill r) <= 56 -> length V = N.to_nat (r_cnt (r_refill r))).
Proof. exact r_refill_rep. Qed.
Check reader_refill_refines :
  forall r V, rrep r V ->
  rrep (r_refill r) V /\ (r_cnt (r_refill r) <= 56 -> length V = N.to_nat (r_cnt (r_refill r))).
Print Assumptions reader_refill_refines.

(* BitStreamReader::peek returns the next k buffered bits as a number *)
Theorem reader_peek_refines :
  forall r V k, rrep r V -> N.of_nat k <= r_cnt r -> r_peek r (N.of_nat k) = n_of_bits (firstn k V).
Proof. exact r_peek_spec. Qed.
Check reader_peek_refines :
  forall r V k, rrep r V -> N.of_nat k <= r_cnt r -> r_peek r (N.of_nat k) = n_of_bits (firstn k V).
Print Assumptions reader_peek_refines.

(* BitStreamReader::consume drops k buffered bits *)
Theorem reader_consume_refines :
  forall r V k, rrep r V -> N.of_nat k <= r_cnt r ->
  exists r', r_consume r (N.of_nat k) = Some r' /\ rrep r' (skipn k V).
Proof. exact r_consume_rep. Qed.
Check reader_consume_refines :
  forall r V k, rrep r V -> N.of_nat k <= r_cnt r ->
  exists r', r_consume r (N.of_nat k) = Some r' /\ rrep r' (skipn k V).
Print Assumptions reader_consume_refines.

(* decode_one_symbol (12-bit table path, tree path near the end of the stream or for codes longer than 12 bits,
   single-leaf trees) returns exactly what the cursor decoder returns on the remaining bits *)
Theorem decode_one_symbol_refines :
  forall ht r V s V', rrep r V -> dns true ht V = Some (s, V') ->
  exists r', dos true ht r = Some (s, r') /\ rrep r' V'.
Proof. exact dos_spec. Qed.
Check decode_one_symbol_refines :
  forall ht r V s V', rrep r V -> dns true ht V = Some (s, V') ->
  exists r', dos true ht r = Some (s, r') /\ rrep r' V'.
Print Assumptions decode_one_symbol_refines.

(* ContextualHuffmanDecoder::decode(ContextualHuffmanEncoder::encode(d), |d|) = d for orders 0, 1, 2, every
   family of trees that agree with their tables, every data the encoder accepts, every length *)
Theorem ctx_roundtrip :
  forall e d b, wf_cenc e = true -> ctx_encode e d = Some b -> ctx_decode e b (length d) = Some d.
Proof. exact ctx_roundtrip_proof. Qed.
Check ctx_roundtrip :
  forall e d b, wf_cenc e = true -> ctx_encode e d = Some b -> ctx_decode e b (length d) = Some d.
Print Assumptions ctx_roundtrip.

(* the contextual encoder refuses a symbol the tree chosen by its context has no code for *)
Theorem ctx_encode_rejects :
  forall e d pre s post, d = pre ++ s :: post ->
  get_code (ht_codes (ctx_tree e (firstn 2 (rev pre)))) s = None -> ctx_encode e d = None.
Proof. exact ctx_encode_rejects_proof. Qed.
Check ctx_encode_rejects :
  forall e d pre s post, d = pre ++ s :: post ->
  get_code (ht_codes (ctx_tree e (firstn 2 (rev pre)))) s = None -> ctx_encode e d = None.
Print Assumptions ctx_encode_rejects.

(* the N chunks of encode_xn / decode_xn are consecutive, start at 0 and end at the length, for every N >= 1 and length *)
Theorem chunks_partition :
  forall nst len, (1 <= nst)%nat -> chain 0 (bounds nst len) len /\ length (bounds nst len) = nst.
Proof. exact chunks_partition_proof. Qed.
Check chunks_partition :
  forall nst len, (1 <= nst)%nat -> chain 0 (bounds nst len) len /\ length (bounds nst len) = nst.
Print Assumptions chunks_partition.

(* decode_xN(encode_xN(d), |d|) = d for every stream count N >= 1 (the code has 1, 2, 4, 8), every length
   (shorter than N, not divisible by N, ...), every family of trees that agree with their tables, codes of any length *)
Theorem xn_roundtrip :
  forall e nst d b, wf_cenc e = true -> (1 <= nst)%nat ->
  xn_encode e nst d = Some b -> xn_decode e nst b (length d) = Some d.
Proof. exact xn_roundtrip_proof. Qed.
Check xn_roundtrip :
  forall e nst d b, wf_cenc e = true -> (1 <= nst)%nat ->
  xn_encode e nst d = Some b -> xn_decode e nst b (length d) = Some d.
Print Assumptions xn_roundtrip.

(* the code before fix 1482744 (fast symbol table truncating to 16 bits) loses data with a 17-bit code *)
Theorem xn_refuted_long_codes :
  exists e d b, wf_cenc e = true /\ xn_encode_g true e 1 d = Some b /\ xn_decode e 1 b (length d) <> Some d.
Proof. exact xn_refuted_long_codes_proof. Qed.
Check xn_refuted_long_codes :
  exists e d b, wf_cenc e = true /\ xn_encode_g true e 1 d = Some b /\ xn_decode e 1 b (length d) <> Some d.
Print Assumptions xn_refuted_long_codes.

(* the code before fix 1482744 wrote a placeholder bit for a symbol without a code *)
Theorem xn_refuted_missing_symbol :
  exists e d b, wf_cenc e = true /\ get_code (ht_codes (tree_at e 0)) (nth 0 d 0) = None /\
                xn_encode_g true e 1 d = Some b /\ xn_decode e 1 b (length d) <> Some d.
Proof. exact xn_refuted_missing_symbol_proof. Qed.
Check xn_refuted_missing_symbol :
  exists e d b, wf_cenc e = true /\ get_code (ht_codes (tree_at e 0)) (nth 0 d 0) = None /\
                xn_encode_g true e 1 d = Some b /\ xn_decode e 1 b (length d) <> Some d.
Print Assumptions xn_refuted_missing_symbol.

(* the code before fix 3a64f0a (Order-0 fallback inside a mapped context) does not round-trip *)
Theorem ctx_refuted_fallback :
  exists e d b, wf_cenc e = true /\ ctx_encode_g true e d = Some b /\ ctx_decode e b (length d) <> Some d.
Proof. exact ctx_refuted_fallback_proof. Qed.
Check ctx_refuted_fallback :
  exists e d b, wf_cenc e = true /\ ctx_encode_g true e d = Some b /\ ctx_decode e b (length d) <> Some d.
Print Assumptions ctx_refuted_fallback.

(* the decoders before fix 9f4279a consumed no bit for a single-leaf context tree *)
Theorem ctx_refuted_single_leaf :
  exists e d b, wf_cenc e = true /\ ctx_encode e d = Some b /\ ctx_decode_g false e b (length d) <> Some d.
Proof. exact ctx_refuted_single_leaf_proof. Qed.
Check ctx_refuted_single_leaf :
  exists e d b, wf_cenc e = true /\ ctx_encode e d = Some b /\ ctx_decode_g false e b (length d) <> Some d.
Print Assumptions ctx_refuted_single_leaf.

(* ... the interleaved decoder likewise *)
Theorem xn_refuted_single_leaf :
  exists e d b, wf_cenc e = true /\ xn_encode e 1 d = Some b /\ xn_decode_g false e 1 b (length d) <> Some d.
Proof. exact xn_refuted_single_leaf_proof. Qed.
Check xn_refuted_single_leaf :
  exists e d b, wf_cenc e = true /\ xn_encode e 1 d = Some b /\ xn_decode_g false e 1 b (length d) <> Some d.
Print Assumptions xn_refuted_single_leaf.

(* a decoding tree is determined by its table: build_decoding_tree_from_codes(generate_codes(t)) = t
   (the model is handed the real code table only; the tree is private in the Rust code) *)
Theorem rebuild_tree :
  forall t, no_hole t = true -> is_node t = true -> build_root (gen_codes t []) = Some (Some t).
Proof. exact rebuild_tree_proof. Qed.
Check rebuild_tree :
  forall t, no_hole t = true -> is_node t = true -> build_root (gen_codes t []) = Some (Some t).
Print Assumptions rebuild_tree.

(* whatever order the BinaryHeap hands out nodes in (any two nodes may be merged at each step), every symbol
   with a non-zero count gets a code *)
Theorem from_frequencies_covers :
  forall syms heap ht, heap_run (map Leaf syms) heap -> ht_from_heap syms heap = Some ht ->
  forall s, In s syms -> get_code (ht_codes ht) s <> None.
Proof. exact from_frequencies_covers_proof. Qed.
Check from_frequencies_covers :
  forall syms heap ht, heap_run (map Leaf syms) heap -> ht_from_heap syms heap = Some ht ->
  forall s, In s syms -> get_code (ht_codes ht) s <> None.
Print Assumptions from_frequencies_covers.

(* HuffmanEncoder::new / from_frequencies, encode, decode: total and lossless on every payload over the symbols
   the encoder was built for, for every heap behaviour (normal path, single symbol, 8-bit fallback) *)
Theorem from_frequencies_roundtrip :
  forall syms heap d, (length syms <= 256)%nat -> heap_run (map Leaf syms) heap -> (forall s, In s d -> In s syms) ->
  exists ht b, ht_from_heap syms heap = Some ht /\ huff_encode ht d = Some b /\
               huff_decode ht b (length d) = Some d.
Proof. exact from_frequencies_roundtrip_proof. Qed.
Check from_frequencies_roundtrip :
  forall syms heap d, (length syms <= 256)%nat -> heap_run (map Leaf syms) heap -> (forall s, In s d -> In s syms) ->
  exists ht b, ht_from_heap syms heap = Some ht /\ huff_encode ht d = Some b /\
               huff_decode ht b (length d) = Some d.
Print Assumptions from_frequencies_roundtrip.

(* new_order1 / new_order2: the merged count of every symbol is positive unless count * 100 overflows u32 *)
Theorem merged_freqs_cover :
  forall c o, c * 100 < W32 -> exists f, merged_freq c o = Some f /\ 0 < f.
Proof. exact merged_freqs_cover_proof. Qed.
Check merged_freqs_cover :
  forall c o, c * 100 < W32 -> exists f, merged_freq c o = Some f /\ 0 < f.
Print Assumptions merged_freqs_cover.

(* an encoder all of whose trees code every byte (what new_order1 / new_order2 build) never refuses *)
Theorem ctx_encode_total :
  forall e d, c_trees e <> [] -> forallb (fun p => (snd p <? length (c_trees e))%nat) (c_map e) = true ->
  (forall ht, In ht (c_trees e) -> covers_bytes ht) -> bytes_ok d -> exists b, ctx_encode e d = Some b.
Proof. exact ctx_encode_total_proof. Qed.
Check ctx_encode_total :
  forall e d, c_trees e <> [] -> forallb (fun p => (snd p <? length (c_trees e))%nat) (c_map e) = true ->
  (forall ht, In ht (c_trees e) -> covers_bytes ht) -> bytes_ok d -> exists b, ctx_encode e d = Some b.
Print Assumptions ctx_encode_total.

(* ... and its interleaved encoder terminates and succeeds for every stream count and length *)
Theorem xn_encode_total :
  forall e nst d, c_order e = 1 -> c_trees e <> [] ->
  forallb (fun p => (snd p <? length (c_trees e))%nat) (c_map e) = true ->
  (forall ht, In ht (c_trees e) -> covers_bytes ht) -> bytes_ok d -> (1 <= nst)%nat ->
  exists b, xn_encode e nst d = Some b.
Proof. exact xn_encode_total_proof. Qed.
Check xn_encode_total :
  forall e nst d, c_order e = 1 -> c_trees e <> [] ->
  forallb (fun p => (snd p <? length (c_trees e))%nat) (c_map e) = true ->
  (forall ht, In ht (c_trees e) -> covers_bytes ht) -> bytes_ok d -> (1 <= nst)%nat ->
  exists b, xn_encode e nst d = Some b.
Print Assumptions xn_encode_total.

(* ---------------------------------------------------------------------------------------------
   serialised forms (ModelSer.v): the bytes a decoder on another object reads back
   --------------------------------------------------------------------------------------------- *)
From Coq Require Import Permutation.
From ZV.C01 Require Import ModelSer ProofsSer ProofsSerCtx.
(* HuffmanTree::deserialize(HuffmanTree::serialize()) reads the same code table back (bytes behind the table are
   ignored), whatever order the HashMap listed the codes in (= the list order of tb) and whatever order `hm` the new
   HashMap is visited in when the decoding tree is rebuilt *)
Theorem ht_deserialize_serialize :
  forall hm tb extra, ser_ok tb = true ->
  ht_deserialize hm (ht_serialize tb ++ extra) =
  match build_root (hm tb) with Some r => Some (mkHT r tb) | None => None end.
Proof. exact ht_deserialize_serialize_proof. Qed.
Check ht_deserialize_serialize :
  forall hm tb extra, ser_ok tb = true ->
  ht_deserialize hm (ht_serialize tb ++ extra) =
  match build_root (hm tb) with Some r => Some (mkHT r tb) | None => None end.
Print Assumptions ht_deserialize_serialize.

(* a HuffmanDecoder on the deserialised copy of the encoder's tree decodes what the encoder wrote *)
Theorem ht_serialized_decodes :
  forall hm ht d b, (forall t, Permutation (hm t) t) ->
  ser_ok (ht_codes ht) = true -> prefix_free (ht_codes ht) = true -> huff_encode ht d = Some b ->
  exists ht', ht_deserialize hm (ht_serialize (ht_codes ht)) = Some ht' /\ ht_codes ht' = ht_codes ht /\
              wf_ht ht' = true /\ huff_decode ht' b (length d) = Some d.
Proof. exact ht_serialized_decodes_proof. Qed.
Check ht_serialized_decodes :
  forall hm ht d b, (forall t, Permutation (hm t) t) ->
  ser_ok (ht_codes ht) = true -> prefix_free (ht_codes ht) = true -> huff_encode ht d = Some b ->
  exists ht', ht_deserialize hm (ht_serialize (ht_codes ht)) = Some ht' /\ ht_codes ht' = ht_codes ht /\
              wf_ht ht' = true /\ huff_decode ht' b (length d) = Some d.
Print Assumptions ht_serialized_decodes.

(* ... and the side condition holds for every tree / table pair that agree (what from_frequencies builds) *)
Theorem wf_table_prefix_free :
  forall ht, wf_ht ht = true -> nodup_keys (ht_codes ht) = true -> prefix_free (ht_codes ht) = true.
Proof. exact wf_prefix_free. Qed.
Check wf_table_prefix_free :
  forall ht, wf_ht ht = true -> nodup_keys (ht_codes ht) = true -> prefix_free (ht_codes ht) = true.
Print Assumptions wf_table_prefix_free.

(* hence, for every HuffmanTree (tree and table agree): the decoder on deserialize(serialize(tree)) decodes what the encoder wrote *)
Theorem tree_serialized_decodes :
  forall hm ht d b, (forall t, Permutation (hm t) t) -> wf_ht ht = true -> ser_ok (ht_codes ht) = true ->
  huff_encode ht d = Some b ->
  exists ht', ht_deserialize hm (ht_serialize (ht_codes ht)) = Some ht' /\ huff_decode ht' b (length d) = Some d.
Proof. exact tree_serialized_decodes_proof. Qed.
Check tree_serialized_decodes :
  forall hm ht d b, (forall t, Permutation (hm t) t) -> wf_ht ht = true -> ser_ok (ht_codes ht) = true ->
  huff_encode ht d = Some b ->
  exists ht', ht_deserialize hm (ht_serialize (ht_codes ht)) = Some ht' /\ huff_decode ht' b (length d) = Some d.
Print Assumptions tree_serialized_decodes.

(* ContextualHuffmanEncoder::deserialize(serialize()) = the same order, context map and code tables (`twin`), with every
   check of deserialize passed *)
Theorem c_deserialize_serialize :
  forall hm e, (forall t, Permutation (hm t) t) -> cser_ok e = true ->
  c_deserialize hm (c_serialize e) = Some (twin hm e).
Proof. exact c_deserialize_serialize_proof. Qed.
Check c_deserialize_serialize :
  forall hm e, (forall t, Permutation (hm t) t) -> cser_ok e = true ->
  c_deserialize hm (c_serialize e) = Some (twin hm e).
Print Assumptions c_deserialize_serialize.

(* a ContextualHuffmanDecoder on the deserialised copy decodes what the original encoder wrote (orders 0/1/2) *)
Theorem ctx_serialized_decodes :
  forall hm e d b, (forall t, Permutation (hm t) t) -> cser_ok e = true -> ctx_encode e d = Some b ->
  exists e', c_deserialize hm (c_serialize e) = Some e' /\ wf_cenc e' = true /\ ctx_decode e' b (length d) = Some d.
Proof. exact ctx_serialized_decodes_proof. Qed.
Check ctx_serialized_decodes :
  forall hm e d b, (forall t, Permutation (hm t) t) -> cser_ok e = true -> ctx_encode e d = Some b ->
  exists e', c_deserialize hm (c_serialize e) = Some e' /\ wf_cenc e' = true /\ ctx_decode e' b (length d) = Some d.
Print Assumptions ctx_serialized_decodes.

(* ... and so do its interleaved decoders, for every stream count *)
Theorem xn_serialized_decodes :
  forall hm e nst d b, (forall t, Permutation (hm t) t) -> cser_ok e = true -> (1 <= nst)%nat ->
  xn_encode e nst d = Some b ->
  exists e', c_deserialize hm (c_serialize e) = Some e' /\ xn_decode e' nst b (length d) = Some d.
Proof. exact xn_serialized_decodes_proof. Qed.
Check xn_serialized_decodes :
  forall hm e nst d b, (forall t, Permutation (hm t) t) -> cser_ok e = true -> (1 <= nst)%nat ->
  xn_encode e nst d = Some b ->
  exists e', c_deserialize hm (c_serialize e) = Some e' /\ xn_decode e' nst b (length d) = Some d.
Print Assumptions xn_serialized_decodes.

(* ---------------------------------------------------------------------------------------------
   the counting loops of the context constructors (ModelNew.v)
   --------------------------------------------------------------------------------------------- *)
From ZV.C01 Require Import ModelNew ProofsNew ProofsNew2.
(* ContextualHuffmanEncoder::new(t, order) for every training text, whatever the BinaryHeap builds (heap_any) and whatever
   order the HashMaps are iterated in (hm_any): it returns an encoder (no panic below 42.9 M bytes of training), the order
   field is the one of the constructor that finally ran, every tree agrees with its table, every context index names a
   tree, and from two bytes of training on every tree of an order-1/2 encoder codes all 256 bytes *)
Theorem ctx_new_wf :
  forall heap_of hm, heap_any heap_of -> hm_any hm ->
  forall order t, order < 3 -> bytes_ok t -> N.of_nat (length t) * 100 < W32 ->
  exists e, ctx_new heap_of hm order t = Some e /\
    c_order e = built_order order (length t) /\
    (t <> [] -> wf_cenc e = true) /\
    (t = [] -> e = mkC 0 [empty_ht] [(0, 0%nat)]) /\
    ((2 <= length t)%nat -> order <> 0 -> forall ht, In ht (c_trees e) -> covers_bytes ht).
Proof. exact ctx_new_wf_proof. Qed.
Check ctx_new_wf :
  forall heap_of hm, heap_any heap_of -> hm_any hm ->
  forall order t, order < 3 -> bytes_ok t -> N.of_nat (length t) * 100 < W32 ->
  exists e, ctx_new heap_of hm order t = Some e /\
    c_order e = built_order order (length t) /\
    (t <> [] -> wf_cenc e = true) /\
    (t = [] -> e = mkC 0 [empty_ht] [(0, 0%nat)]) /\
    ((2 <= length t)%nat -> order <> 0 -> forall ht, In ht (c_trees e) -> covers_bytes ht).
Print Assumptions ctx_new_wf.

(* constructor -> encode -> decode for every training text and every payload, payloads through contexts the training
   text never showed included: whatever is accepted decodes to itself; with two bytes of training an order-1/2 encoder
   accepts every payload; an order-1 encoder's interleaved pair is total and lossless for every stream count *)
Theorem ctx_new_roundtrip :
  forall heap_of hm, heap_any heap_of -> hm_any hm ->
  forall order t, order < 3 -> bytes_ok t -> N.of_nat (length t) * 100 < W32 ->
  exists e, ctx_new heap_of hm order t = Some e /\
    c_order e = built_order order (length t) /\
    forall d, bytes_ok d ->
      (forall b, ctx_encode e d = Some b -> ctx_decode e b (length d) = Some d) /\
      ((2 <= length t)%nat -> order <> 0 ->
         exists b, ctx_encode e d = Some b /\ ctx_decode e b (length d) = Some d) /\
      (c_order e = 1 -> forall nst, (1 <= nst)%nat ->
         exists b, xn_encode e nst d = Some b /\ xn_decode e nst b (length d) = Some d).
Proof. exact ctx_new_roundtrip_proof. Qed.
Check ctx_new_roundtrip :
  forall heap_of hm, heap_any heap_of -> hm_any hm ->
  forall order t, order < 3 -> bytes_ok t -> N.of_nat (length t) * 100 < W32 ->
  exists e, ctx_new heap_of hm order t = Some e /\
    c_order e = built_order order (length t) /\
    forall d, bytes_ok d ->
      (forall b, ctx_encode e d = Some b -> ctx_decode e b (length d) = Some d) /\
      ((2 <= length t)%nat -> order <> 0 ->
         exists b, ctx_encode e d = Some b /\ ctx_decode e b (length d) = Some d) /\
      (c_order e = 1 -> forall nst, (1 <= nst)%nat ->
         exists b, xn_encode e nst d = Some b /\ xn_decode e nst b (length d) = Some d).
Print Assumptions ctx_new_roundtrip.

(* the cut of new_order2: the contexts that get a tree are min(1024, number of distinct contexts) many, and none of the
   contexts left out was seen more often than one that was kept *)
Theorem order2_top_contexts :
  forall heap_of hm, heap_any heap_of -> hm_any hm ->
  forall t, (3 <= length t)%nat -> bytes_ok t -> N.of_nat (length t) * 100 < W32 ->
  exists e m top rest, ctx_new heap_of hm 2 t = Some e /\ ctx2_counts t = Some m /\
    NoDup (map fst m) /\ Permutation m (top ++ rest) /\
    map fst (c_map e) = map fst top /\ length (c_map e) = Nat.min 1024 (length m) /\
    forall p q, In p top -> In q rest -> sumN (snd q) <= sumN (snd p).
Proof. exact order2_map_proof. Qed.
Check order2_top_contexts :
  forall heap_of hm, heap_any heap_of -> hm_any hm ->
  forall t, (3 <= length t)%nat -> bytes_ok t -> N.of_nat (length t) * 100 < W32 ->
  exists e m top rest, ctx_new heap_of hm 2 t = Some e /\ ctx2_counts t = Some m /\
    NoDup (map fst m) /\ Permutation m (top ++ rest) /\
    map fst (c_map e) = map fst top /\ length (c_map e) = Nat.min 1024 (length m) /\
    forall p q, In p top -> In q rest -> sumN (snd q) <= sumN (snd p).
Print Assumptions order2_top_contexts.

(* the iteration order the generated cases hand to the model is a permutation whatever the real context map lists *)
Theorem hm_of_permutes :
  forall order keys l, Permutation (hm_of order keys l) l.
Proof. exact hm_of_perm_proof. Qed.
Check hm_of_permutes :
  forall order keys l, Permutation (hm_of order keys l) l.
Print Assumptions hm_of_permutes.

(* ---------------------------------------------------------------------------------------------
   the parallel front end (ModelPar.v)
   --------------------------------------------------------------------------------------------- *)
From ZV.C01 Require Import ModelPar ProofsPar.
(* ParallelHuffmanDecoder<P>::decode(ParallelHuffmanEncoder<P>::encode(d), |d|) = d for every stream count n >= 1 (the code has
   2, 4, 8), every length, and every history of train / encode calls on the encoder object: the decoder's tree is
   from_data of the text in force (last training text, or the first payload of an untrained encoder) *)
Theorem par_roundtrip :
  forall heap_of n ops, heap_any heap_of -> (1 <= n)%nat -> Forall pop_ok ops ->
  forall d b txt, In (d, Some b, txt) (p_run heap_of n ops p_new None) ->
  exists t ht, txt = Some t /\ from_data heap_of t = Some ht /\
               pd_decode (pd_set_tree n ht) b (length d) = Some d.
Proof. exact par_roundtrip_proof. Qed.
Check par_roundtrip :
  forall heap_of n ops, heap_any heap_of -> (1 <= n)%nat -> Forall pop_ok ops ->
  forall d b txt, In (d, Some b, txt) (p_run heap_of n ops p_new None) ->
  exists t ht, txt = Some t /\ from_data heap_of t = Some ht /\
               pd_decode (pd_set_tree n ht) b (length d) = Some d.
Print Assumptions par_roundtrip.

(* the lanes do not exist: every answer of the parallel encoder is the answer of one HuffmanEncoder on the text in force *)
Theorem par_is_single_lane :
  forall heap_of n ops, heap_any heap_of -> (1 <= n)%nat -> Forall pop_ok ops ->
  forall d out txt, In (d, out, txt) (p_run heap_of n ops p_new None) ->
  exists t ht, txt = Some t /\ from_data heap_of t = Some ht /\ out = huff_encode ht d.
Proof. exact par_is_single_lane_proof. Qed.
Check par_is_single_lane :
  forall heap_of n ops, heap_any heap_of -> (1 <= n)%nat -> Forall pop_ok ops ->
  forall d out txt, In (d, out, txt) (p_run heap_of n ops p_new None) ->
  exists t ht, txt = Some t /\ from_data heap_of t = Some ht /\ out = huff_encode ht d.
Print Assumptions par_is_single_lane.

(* AdaptiveParallelEncoder::encode_adaptive on its Huffman arms (train on the payload, then encode it, on the member object the
   payload size selects, in whatever state that object is): never refuses, and a HuffmanDecoder on from_data(payload) returns
   the payload *)
Theorem adaptive_huffman_roundtrip :
  forall heap_of d st, heap_any heap_of -> bytes_ok d -> N.of_nat (length d) < W32 ->
  exists ht b st', from_data heap_of d = Some ht /\ ad_huffman heap_of d st = (st', Some b) /\
                   huff_decode ht b (length d) = Some d.
Proof. exact adaptive_huffman_roundtrip_proof. Qed.
Check adaptive_huffman_roundtrip :
  forall heap_of d st, heap_any heap_of -> bytes_ok d -> N.of_nat (length d) < W32 ->
  exists ht b st', from_data heap_of d = Some ht /\ ad_huffman heap_of d st = (st', Some b) /\
                   huff_decode ht b (length d) = Some d.
Print Assumptions adaptive_huffman_roundtrip.

(* ---------------------------------------------------------------------------------------------
   rANS / FSE / LZ half.  The import below comes after the Huffman theorems on purpose: the two halves
   define a few names twice (e.g. dec_loop) and the later import shadows the earlier one.
   --------------------------------------------------------------------------------------------- *)
From ZV.C01 Require Import ModelLz ModelRans ModelFse ProofsRans ProofsRansPar ProofsRansNorm ProofsLz ProofsFse ProofsFseFrame.
(* one rANS step: for a state in [L, 256 L) and a symbol with a slot, the encoder's new state is again in
   [L, 256 L), the decoder's step on it returns the symbol and the renormalised state x1, and the decoder's
   refill from x1 restores the state and byte stream the encoder started from *)
Theorem rans_step_inverse :
  forall t st s st', wf_table t -> state_ok (fst st) -> enc_symbol t st s = Some st' ->
  0 < freq_of t s /\ state_ok (fst st') /\
  exists x1, dec_symbol t st' = Some (s, (x1, snd st')) /\ dec_renorm x1 (snd st') = Some st.
Proof. exact enc_symbol_step. Qed.
Check rans_step_inverse :
  forall t st s st', wf_table t -> state_ok (fst st) -> enc_symbol t st s = Some st' ->
  0 < freq_of t s /\ state_ok (fst st') /\
  exists x1, dec_symbol t st' = Some (s, (x1, snd st')) /\ dec_renorm x1 (snd st') = Some st.
Print Assumptions rans_step_inverse.

(* every state the encoder reaches lies in [2^16, 2^24): the u64 arithmetic of encode_symbol never wraps,
   and only covered payloads are encoded *)
Theorem rans_no_overflow :
  forall t d st, wf_table t -> enc_all t d = Some st ->
  (RANS_L <= fst st /\ fst st < STATE_BOUND) /\ covers t d.
Proof. exact rans_no_overflow_proof. Qed.
Check rans_no_overflow :
  forall t d st, wf_table t -> enc_all t d = Some st ->
  (RANS_L <= fst st /\ fst st < STATE_BOUND) /\ covers t d.
Print Assumptions rans_no_overflow.

(* Rans64Encoder<ParallelX1> / Rans64Decoder<ParallelX1>: whenever encoding succeeds, decoding with the
   original length returns the payload - every table with sum <= TOTFREQ, every payload (the decoder refuses
   lengths above MAX_DECOMPRESSED_SIZE) *)
Theorem rans_roundtrip :
  forall t d bytes, wf_table t -> N.of_nat (length d) <= MAX_DECOMPRESSED_SIZE ->
  encode 1 t d = Some bytes -> decode 1 t bytes (length d) = Some d.
Proof. exact rans_roundtrip_x1_proof. Qed.
Check rans_roundtrip :
  forall t d bytes, wf_table t -> N.of_nat (length d) <= MAX_DECOMPRESSED_SIZE ->
  encode 1 t d = Some bytes -> decode 1 t bytes (length d) = Some d.
Print Assumptions rans_roundtrip.

(* Rans64Encoder<P> / Rans64Decoder<P> with n interleaved streams (the code instantiates n = 1, 2, 4, 8):
   every length, also lengths not divisible by n and lengths below n (single-stream fallback on both sides) *)
Theorem parallel_roundtrip :
  forall n t d bytes, (1 <= n)%nat -> wf_table t -> N.of_nat (length d) <= MAX_DECOMPRESSED_SIZE ->
  encode n t d = Some bytes -> decode n t bytes (length d) = Some d.
Proof. exact parallel_roundtrip_proof. Qed.
Check parallel_roundtrip :
  forall n t d bytes, (1 <= n)%nat -> wf_table t -> N.of_nat (length d) <= MAX_DECOMPRESSED_SIZE ->
  encode n t d = Some bytes -> decode n t bytes (length d) = Some d.
Print Assumptions parallel_roundtrip.

(* Rans64Encoder::normalize_frequencies (three passes, model of coq/C02/Model.v): the result sums to TOTFREQ,
   every present symbol keeps at least one slot, absent symbols get none *)
Theorem normalize_wf :
  forall f t, nlen f <= 4096 -> ZV.C02.Model.normalize_frequencies f = Some t ->
  length t = length f /\ sum_list t = TOTFREQ /\
  (forall i, 0 < nth i f 0 -> 1 <= nth i t 0) /\ (forall i, nth i f 0 = 0 -> nth i t 0 = 0).
Proof. exact normalize_wf_proof. Qed.
Check normalize_wf :
  forall f t, nlen f <= 4096 -> ZV.C02.Model.normalize_frequencies f = Some t ->
  length t = length f /\ sum_list t = TOTFREQ /\
  (forall i, 0 < nth i f 0 -> 1 <= nth i t 0) /\ (forall i, nth i f 0 = 0 -> nth i t 0 = 0).
Print Assumptions normalize_wf.

Theorem normalize_defined :
  forall f, (exists i, 0 < nth i f 0) -> exists t, ZV.C02.Model.normalize_frequencies f = Some t.
Proof. exact normalize_defined_proof. Qed.
Check normalize_defined :
  forall f, (exists i, 0 < nth i f 0) -> exists t, ZV.C02.Model.normalize_frequencies f = Some t.
Print Assumptions normalize_defined.

(* Rans64Encoder::new: the table it builds from any counts is well formed (so the round-trip theorems apply)
   and covers every payload its counts cover - trained on the same data, nothing is ever refused or lost *)
Theorem table_of_counts_wf :
  forall raw t, nlen raw <= 4096 -> table_of_counts raw = Some t ->
  wf_table t /\ forall d, covers raw d -> covers t d.
Proof. exact table_of_counts_wf_proof. Qed.
Check table_of_counts_wf :
  forall raw t, nlen raw <= 4096 -> table_of_counts raw = Some t ->
  wf_table t /\ forall d, covers raw d -> covers t d.
Print Assumptions table_of_counts_wf.

(* a symbol without a slot is refused, never substituted; covered payloads are always encoded *)
Theorem rans_encode_refuses :
  forall t d, ~ covers t d -> enc_all t d = None.
Proof. exact enc_all_refuses. Qed.
Check rans_encode_refuses :
  forall t d, ~ covers t d -> enc_all t d = None.
Print Assumptions rans_encode_refuses.

Theorem rans_encode_defined :
  forall t d, wf_table t -> covers t d -> exists st, enc_all t d = Some st.
Proof. exact enc_all_defined. Qed.
Check rans_encode_defined :
  forall t d, wf_table t -> covers t d -> exists st, enc_all t d = Some st.
Print Assumptions rans_encode_defined.

(* LZ token stream: every valid parse of a payload (literals and true, possibly overlapping, back-references)
   decodes to the payload *)
Theorem lz_parse_decodes :
  forall toks d, parses [] toks d -> decompress (emit toks) = Some d.
Proof. exact parses_decompress. Qed.
Check lz_parse_decodes :
  forall toks d, parses [] toks d -> decompress (emit toks) = Some d.
Print Assumptions lz_parse_decodes.

(* whatever the match chooser (hash chains, suffix arrays, heuristics): if it only proposes true matches, the
   greedy loop round-trips *)
Theorem lz_sound_chooser_roundtrip :
  forall ch data, sound ch data -> nlen data <= MAX_DECOMPRESSED_SIZE ->
  decompress (compress_with ch data) = Some data.
Proof. exact compress_with_roundtrip. Qed.
Check lz_sound_chooser_roundtrip :
  forall ch data, sound ch data -> nlen data <= MAX_DECOMPRESSED_SIZE ->
  decompress (compress_with ch data) = Some data.
Print Assumptions lz_sound_chooser_roundtrip.

(* DictionaryCompressor: decompress (compress d) = d for every payload and every (min, max) setting *)
Theorem lz_decode_encode :
  forall minl maxl data, maxl < W32 -> nlen data <= MAX_DECOMPRESSED_SIZE ->
  decompress (compress minl maxl data) = Some data.
Proof. exact lz_decode_encode_proof. Qed.
Check lz_decode_encode :
  forall minl maxl data, maxl < W32 -> nlen data <= MAX_DECOMPRESSED_SIZE ->
  decompress (compress minl maxl data) = Some data.
Print Assumptions lz_decode_encode.

(* FseTable::encode_symbol: multiplying by the Alverson reciprocal of init_enc_symbol is an exact division for
   every frequency 1..4096 and every state the renormalisation leaves (below 2^36 * freq); no u64 operation wraps;
   the result is the plain rANS step *)
Theorem alverson_exact :
  forall start f x, 0 < f -> start + f <= 4096 -> 1 <= x -> x < FSE_XMAX_UNIT * f ->
  fse_encode_symbol (init_enc_symbol start f) x = Some ((x / f) * 4096 + x mod f + start).
Proof. exact fse_encode_exact. Qed.
Check alverson_exact :
  forall start f x, 0 < f -> start + f <= 4096 -> 1 <= x -> x < FSE_XMAX_UNIT * f ->
  fse_encode_symbol (init_enc_symbol start f) x = Some ((x / f) * 4096 + x mod f + start).
Print Assumptions alverson_exact.

(* the limb version of mul_hi before the fix: for a one-slot symbol there is a reachable state on which its
   middle sum exceeds 2^64 (panic in a checked build) and the wrapped result is not the high word *)
Theorem fse_mul_hi_old_refuted :
  exists x, 1 <= x /\ x < FSE_XMAX_UNIT * 1 /\
            W64 <= mul_hi_old_middle x (e_rcp (init_enc_symbol 0 1)) /\
            mul_hi_old x (e_rcp (init_enc_symbol 0 1)) <> mul_hi x (e_rcp (init_enc_symbol 0 1)).
Proof. exact mul_hi_old_refuted_proof. Qed.
Check fse_mul_hi_old_refuted :
  exists x, 1 <= x /\ x < FSE_XMAX_UNIT * 1 /\
            W64 <= mul_hi_old_middle x (e_rcp (init_enc_symbol 0 1)) /\
            mul_hi_old x (e_rcp (init_enc_symbol 0 1)) <> mul_hi x (e_rcp (init_enc_symbol 0 1)).
Print Assumptions fse_mul_hi_old_refuted.

(* the payload coder: states stay in [1, 2^48), bytes are written four at a time, states below 2^16 occur only
   before the first write (so the decoder's "x < 2^16 and 4 bytes left" reads exactly what was written), only
   covered payloads are encoded, and decoding from the final state returns the payload *)
Theorem fse_core_roundtrip :
  forall t d x rout, fse_wf t -> fse_enc_all t d = Some (x, rout) ->
  fse_inv x rout /\ covers t d /\ fse_dec_all t (length d) x rout = d.
Proof. exact fse_enc_all_inv. Qed.
Check fse_core_roundtrip :
  forall t d x rout, fse_wf t -> fse_enc_all t d = Some (x, rout) ->
  fse_inv x rout /\ covers t d /\ fse_dec_all t (length d) x rout = d.
Print Assumptions fse_core_roundtrip.

Theorem fse_encode_refuses :
  forall t d, ~ covers t d -> fse_enc_all t d = None.
Proof. exact fse_enc_all_refuses. Qed.
Check fse_encode_refuses :
  forall t d, ~ covers t d -> fse_enc_all t d = None.
Print Assumptions fse_encode_refuses.

Theorem fse_encode_defined :
  forall t d, fse_wf t -> covers t d -> exists st, fse_enc_all t d = Some st.
Proof. exact fse_enc_all_defined. Qed.
Check fse_encode_defined :
  forall t d, fse_wf t -> covers t d -> exists st, fse_enc_all t d = Some st.
Print Assumptions fse_encode_defined.

(* one block (compress_single_internal / decompress_single): stored path below 100 bytes, otherwise header with the
   raw counts + payload + final state; for EVERY normaliser (FseTable::new is a parameter) that returns a table with
   sum <= 4096 for these counts *)
Theorem fse_single_roundtrip :
  forall norm raw t d z,
  norm raw = Some t -> fse_wf t -> length raw = 256%nat -> Forall (fun x => x < W32) raw ->
  nlen d <= MAX_DECOMPRESSED_SIZE ->
  fse_compress_single norm raw d = Some z -> fse_decompress_single norm z = Some d.
Proof. exact fse_single_roundtrip_proof. Qed.
Check fse_single_roundtrip :
  forall norm raw t d z,
  norm raw = Some t -> fse_wf t -> length raw = 256%nat -> Forall (fun x => x < W32) raw ->
  nlen d <= MAX_DECOMPRESSED_SIZE ->
  fse_compress_single norm raw d = Some z -> fse_decompress_single norm z = Some d.
Print Assumptions fse_single_roundtrip.

(* FseEncoder::compress / FseDecoder::decompress with or without parallel blocks, any block size: a single block is
   never mistaken for a container, a container (at most 64 blocks since the fix) is always recognised and every
   block decodes *)
Theorem fse_roundtrip :
  forall norm par bs raw t d z,
  norm raw = Some t -> fse_wf t -> length raw = 256%nat -> Forall (fun x => x < W32) raw ->
  nlen d <= MAX_DECOMPRESSED_SIZE ->
  fse_compress norm par bs raw d = Some z -> fse_decompress norm z = Some d.
Proof. exact fse_roundtrip_proof. Qed.
Check fse_roundtrip :
  forall norm par bs raw t d z,
  norm raw = Some t -> fse_wf t -> length raw = 256%nat -> Forall (fun x => x < W32) raw ->
  nlen d <= MAX_DECOMPRESSED_SIZE ->
  fse_compress norm par bs raw d = Some z -> fse_decompress norm z = Some d.
Print Assumptions fse_roundtrip.
