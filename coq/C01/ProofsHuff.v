(* C01: HuffmanEncoder::encode / HuffmanDecoder::decode round trip for every tree and table that agree. *)
From ZV.Common Require Import Base.
From ZV.C01 Require Import Model ProofsBits.
Open Scope N_scope.

Lemma get_code_in tb s c : get_code tb s = Some c -> In (s, c) tb.
Proof.
  unfold get_code. destruct (find _ tb) as [e|] eqn:Hf; [|discriminate].
  intros H. injection H as <-. apply find_some in Hf. destruct Hf as [Hin Heq].
  apply N.eqb_eq in Heq. destruct e as [s' c']. cbn [fst snd] in *. now subst.
Qed.

Lemma nonempty_true {A} (l : list A) : nonempty l = true -> l <> [].
Proof. destruct l; [discriminate|]. intros _ H; discriminate. Qed.

Lemma tree_eqb_leaf_true o s : tree_eqb_leaf o s = true -> o = Some (Leaf s).
Proof.
  unfold tree_eqb_leaf. destruct o as [[x| |]|]; try discriminate.
  intros H. apply N.eqb_eq in H. now subst.
Qed.

(* what wf_ht says about one table entry *)
Lemma wf_node_code l r tb s c :
  wf_ht (mkHT (Some (Node l r)) tb) = true -> get_code tb s = Some c ->
  walk (Node l r) c = Some (Leaf s) /\ c <> [].
Proof.
  unfold wf_ht. cbn [ht_root ht_codes]. intros Hwf Hg. apply get_code_in in Hg.
  rewrite forallb_forall in Hwf. specialize (Hwf _ Hg). cbn [fst snd] in Hwf.
  apply andb_true_iff in Hwf. destruct Hwf as [H1 H2].
  split; [now apply tree_eqb_leaf_true|now apply nonempty_true].
Qed.
Lemma wf_leaf_code x tb s c :
  wf_ht (mkHT (Some (Leaf x)) tb) = true -> get_code tb s = Some c -> s = x /\ c <> [].
Proof.
  unfold wf_ht. cbn [ht_root ht_codes]. intros Hwf Hg. apply get_code_in in Hg.
  rewrite forallb_forall in Hwf. specialize (Hwf _ Hg). cbn [fst snd] in Hwf.
  apply andb_true_iff in Hwf. destruct Hwf as [H1 H2]. apply N.eqb_eq in H1.
  split; [assumption|now apply nonempty_true].
Qed.

Lemma dec_loop_k0 root cur bits : dec_loop root cur bits 0 = [].
Proof. destruct bits; cbn [dec_loop]; [destruct (leaf_sym cur)|]; reflexivity. Qed.

(* following a code through inner nodes emits nothing *)
Lemma dec_loop_walk root c : forall t t' rest k,
  walk t c = Some t' ->
  dec_loop root t (c ++ rest) (S k) = dec_loop root t' rest (S k).
Proof.
  induction c as [|b c IH]; intros t t' rest k Hw; cbn [walk] in Hw.
  - injection Hw as <-. reflexivity.
  - destruct t as [x| |tl tr]; try discriminate.
    cbn [app dec_loop leaf_sym child]. now apply IH.
Qed.

Lemma dec_loop_codes l r tb : wf_ht (mkHT (Some (Node l r)) tb) = true ->
  forall d s0 bits p, code_bits tb d = Some bits ->
  dec_loop (Node l r) (Leaf s0) (bits ++ repeat false p) (S (length d)) = s0 :: d.
Proof.
  intros Hwf. induction d as [|s1 d IH]; intros s0 bits p Hc; cbn [code_bits] in Hc.
  - injection Hc as <-. cbn [app length]. destruct p as [|p]; cbn [repeat dec_loop leaf_sym]; [reflexivity|].
    now rewrite dec_loop_k0.
  - destruct (get_code tb s1) as [c1|] eqn:Hg; [|discriminate].
    destruct (code_bits tb d) as [r1|] eqn:Hr; [|discriminate]. injection Hc as <-.
    destruct (wf_node_code _ _ _ _ _ Hwf Hg) as [Hw Hne].
    destruct c1 as [|b c1]; [congruence|].
    cbn [length]. rewrite <- app_assoc. cbn [app dec_loop leaf_sym]. f_equal.
    cbn [walk] in Hw. cbn [child].
    rewrite (dec_loop_walk _ _ _ _ _ _ Hw). now apply IH.
Qed.

Lemma dec_loop_single x : forall bits k, (k <= length bits)%nat ->
  dec_loop (Leaf x) (Leaf x) bits k = repeat x k.
Proof.
  induction bits as [|b bits IH]; intros k Hk; cbn [length] in Hk.
  - assert (k = 0%nat) by lia. subst. reflexivity.
  - destruct k as [|k]; [reflexivity|]. cbn [dec_loop leaf_sym repeat]. f_equal. apply IH. lia.
Qed.

Lemma code_bits_single x tb : wf_ht (mkHT (Some (Leaf x)) tb) = true ->
  forall d bits, code_bits tb d = Some bits -> d = repeat x (length d) /\ (length d <= length bits)%nat.
Proof.
  intros Hwf. induction d as [|s d IH]; intros bits Hc; cbn [code_bits] in Hc.
  - injection Hc as <-. split; [reflexivity|cbn [length]; lia].
  - destruct (get_code tb s) as [c|] eqn:Hg; [|discriminate].
    destruct (code_bits tb d) as [r|] eqn:Hr; [|discriminate]. injection Hc as <-.
    destruct (wf_leaf_code _ _ _ _ Hwf Hg) as [-> Hne].
    destruct (IH _ eq_refl) as [Hd Hl]. cbn [length repeat]. split; [now f_equal|].
    rewrite app_length. destruct c; [congruence|cbn [length]; lia].
Qed.

Lemma length_is_refl {A} (l : list A) : length_is l (length l) = true.
Proof. unfold length_is. apply Nat.eqb_refl. Qed.

Lemma code_bits_nonempty l r tb : wf_ht (mkHT (Some (Node l r)) tb) = true ->
  forall s d bits, code_bits tb (s :: d) = Some bits -> bits <> [].
Proof.
  intros Hwf s d bits Hc. cbn [code_bits] in Hc.
  destruct (get_code tb s) as [c|] eqn:Hg; [|discriminate].
  destruct (code_bits tb d) as [r1|]; [|discriminate]. injection Hc as <-.
  destruct (wf_node_code _ _ _ _ _ Hwf Hg) as [_ Hne]. destruct c; [congruence|discriminate].
Qed.

(* decode(encode(d), |d|) = d for every tree/table pair that agree, every d the table covers *)
Theorem huff_roundtrip_proof : forall ht d b,
  wf_ht ht = true -> huff_encode ht d = Some b -> huff_decode ht b (length d) = Some d.
Proof.
  intros [root tb] d b Hwf He. destruct d as [|s d].
  - cbn in He. injection He as <-. reflexivity.
  - unfold huff_encode in He. cbn [ht_codes] in He.
    destruct (code_bits tb (s :: d)) as [bits|] eqn:Hc; [|discriminate]. injection He as <-.
    destruct root as [[x| |l r]|].
    + (* single-leaf tree: one symbol per bit *)
      destruct (code_bits_single _ _ Hwf _ _ Hc) as [Hd Hl].
      assert (Hne : bits <> []) by (destruct bits; [cbn [length] in Hl; lia|discriminate]).
      unfold huff_decode. destruct (pack bits) as [|b0 bs] eqn:Hp; [now apply pack_nonempty in Hp|].
      cbn [length ht_root]. rewrite <- Hp. cbn [length] in Hd, Hl.
      rewrite pack_unpack_proof. rewrite dec_loop_single by (rewrite app_length; lia).
      rewrite <- Hd. change (S (length d)) with (length (s :: d)). now rewrite length_is_refl.
    + discriminate.
    + (* two or more leaves *)
      pose proof (code_bits_nonempty _ _ _ Hwf _ _ _ Hc) as Hne.
      unfold huff_decode. destruct (pack bits) as [|b0 bs] eqn:Hp; [now apply pack_nonempty in Hp|].
      cbn [length ht_root]. rewrite <- Hp. rewrite pack_unpack_proof.
      cbn [code_bits] in Hc.
      destruct (get_code tb s) as [c|] eqn:Hg; [|discriminate].
      destruct (code_bits tb d) as [r1|] eqn:Hr; [|discriminate]. injection Hc as <-.
      destruct (wf_node_code _ _ _ _ _ Hwf Hg) as [Hw _].
      rewrite <- app_assoc. rewrite (dec_loop_walk _ _ _ _ _ _ Hw).
      rewrite (dec_loop_codes _ _ _ Hwf _ _ _ _ Hr).
      change (S (length d)) with (length (s :: d)). now rewrite length_is_refl.
    + (* no tree: the table is empty, nothing can be encoded *)
      unfold wf_ht in Hwf. cbn [ht_root ht_codes] in Hwf. destruct tb; [|discriminate]. discriminate.
Qed.

(* a symbol without a code makes the encoder fail: nothing is dropped or substituted *)
Lemma code_bits_rejects tb d : (exists s, In s d /\ get_code tb s = None) -> code_bits tb d = None.
Proof.
  induction d as [|x d IH]; intros [s [Hin Hg]]; [destruct Hin|].
  cbn [code_bits]. destruct (get_code tb x) as [c|] eqn:Hx; [|reflexivity].
  destruct Hin as [->|Hin]; [congruence|].
  rewrite IH; [reflexivity|]. now exists s.
Qed.
Theorem huff_encode_rejects_proof : forall ht d,
  (exists s, In s d /\ get_code (ht_codes ht) s = None) -> huff_encode ht d = None.
Proof.
  intros ht d H. unfold huff_encode. destruct d as [|x d]; [destruct H as [s [[] _]]|].
  now rewrite code_bits_rejects.
Qed.
Lemma code_bits_total tb d : (forall s, In s d -> get_code tb s <> None) -> exists bits, code_bits tb d = Some bits.
Proof.
  induction d as [|x d IH]; intros H; [now exists []|].
  cbn [code_bits]. destruct (get_code tb x) as [c|] eqn:Hx; [|exfalso; apply (H x); [now left|assumption]].
  destruct IH as [r Hr]; [intros s Hs; apply H; now right|]. rewrite Hr. now eexists.
Qed.
Theorem huff_encode_total_proof : forall ht d,
  (forall s, In s d -> get_code (ht_codes ht) s <> None) -> exists b, huff_encode ht d = Some b.
Proof.
  intros ht d H. unfold huff_encode. destruct d as [|x d]; [now eexists|].
  destruct (code_bits_total _ _ H) as [bits Hb]. rewrite Hb. now eexists.
Qed.

(* the hypotheses are inhabited: a three-leaf tree with codes 0, 10, 11 *)
Definition ex_ht : hufftree :=
  mkHT (Some (Node (Leaf 97) (Node (Leaf 98) (Leaf 99))))
       [(97, [false]); (98, [true; false]); (99, [true; true])].
Example ex_ht_wf : wf_ht ex_ht = true. Proof. reflexivity. Qed.
Example ex_ht_encode : huff_encode ex_ht [97; 98; 99; 99; 97] = Some [122].
Proof. reflexivity. Qed.
Example ex_ht_decode : huff_decode ex_ht [122] 5 = Some [97; 98; 99; 99; 97].
Proof. reflexivity. Qed.
Example ex_single_wf : wf_ht (mkHT (Some (Leaf 7)) [(7, [false])]) = true. Proof. reflexivity. Qed.
