(* C01 mechanism model, Huffman half, part 3: the constructors of the contextual coder.  Definitions only.

   src/entropy/huffman.rs as written:
     - HuffmanTree::from_frequencies / from_data: the `[u32; 256]` counting loop (`frequencies[b] += 1`, a
       panic in the checked profile when the count would reach 2^32), the present symbols in ascending
       order, then ht_from_heap of Model.v (empty / single symbol / fixed-length fallback / normal);
     - ContextualHuffmanEncoder::{new, new_order0, new_order1, new_order2}: the short-input fallbacks
       (order 1 with len < 2 -> new_order0, order 2 with len < 3 -> new_order1; the order field is the one
       of the constructor that finally ran), the order-0 counts with every zero replaced by 1, the
       HashMap<context, [u32; 256]> filled position by position, the iteration over that HashMap, the merge
       `count * 100` (checked u32 multiplication) / order-0 count / 1, the `symbol_count > 0` test, the
       context_map.insert(context, trees.len()) / trees.push(tree) pair; for order 2 the stable
       sort_by_key on the u32 sum of the counts, reverse, take(min(1024, len)).
   Not modelled, parameters instead:
     heap_of : the tree the BinaryHeap loop of from_frequencies builds from a frequency array;
     hm      : the order in which a HashMap hands out its entries, as a function on the association
               list in first-insertion order (the theorems assume it permutes its argument).
   `let context_total: u32 = context_freqs.iter().sum()` of new_order1 is unused and not modelled (the sum
   is at most len - 1; the same sum is modelled, checked, where new_order2 uses it as its sort key). *)
From ZV.Common Require Import Base.
From ZV.C01 Require Import Model ModelCtx.
Open Scope N_scope.

(* ------------------------------------------------------------------ *)
(* [u32; 256] arrays                                                   *)
(* ------------------------------------------------------------------ *)
Definition zeros256 : list N := repeat 0 256.

(* freqs[i] += 1; None = attempt to add with overflow (or index out of range: not reachable, i is a u8) *)
Fixpoint bump (i : nat) (fr : list N) : option (list N) :=
  match fr with
  | [] => None
  | h :: t =>
      match i with
      | O => if h + 1 <? W32 then Some (h + 1 :: t) else None
      | S k => match bump k t with Some t' => Some (h :: t') | None => None end
      end
  end.
(* for &byte in data { frequencies[byte as usize] += 1 } *)
Fixpoint count_go (d : list N) (fr : list N) : option (list N) :=
  match d with
  | [] => Some fr
  | b :: t => match bump (N.to_nat b) fr with Some fr' => count_go t fr' | None => None end
  end.
Definition count_bytes (d : list N) : option (list N) := count_go d zeros256.

(* the symbols with a non-zero count, ascending (frequencies.iter().enumerate(), if freq > 0) *)
Fixpoint present_go (fr : list N) (i : N) : list N :=
  match fr with
  | [] => []
  | f :: t => if 0 <? f then i :: present_go t (i + 1) else present_go t (i + 1)
  end.
Definition present (fr : list N) : list N := present_go fr 0.

(* HuffmanTree::from_frequencies; heap_of = the BinaryHeap loop *)
Definition from_freqs (heap_of : list N -> tree) (fr : list N) : option hufftree :=
  ht_from_heap (present fr) (heap_of fr).
(* HuffmanTree::from_data *)
Definition from_data (heap_of : list N -> tree) (d : list N) : option hufftree :=
  match count_bytes d with Some fr => from_freqs heap_of fr | None => None end.

(* for freq in &mut order0_freqs { if *freq == 0 { *freq = 1 } } *)
Definition fill_ones (fr : list N) : list N := map (fun f => if f =? 0 then 1 else f) fr.

(* ------------------------------------------------------------------ *)
(* HashMap<context, [u32; 256]> as an association list, first insertion first *)
(* ------------------------------------------------------------------ *)
Definition cfreqs : Type := list (N * list N).
(* context_frequencies.entry(k).or_insert([0u32; 256])[s] += 1 *)
Fixpoint ctx_bump (k : N) (s : nat) (m : cfreqs) : option cfreqs :=
  match m with
  | [] => match bump s zeros256 with Some fr => Some [(k, fr)] | None => None end
  | (k', fr) :: rest =>
      if k' =? k then match bump s fr with Some fr' => Some ((k', fr') :: rest) | None => None end
      else match ctx_bump k s rest with Some r => Some ((k', fr) :: r) | None => None end
  end.
(* for i in 1..len { context = data[i-1]; symbol = data[i] } *)
Fixpoint ctx1_go (prev : N) (d : list N) (m : cfreqs) : option cfreqs :=
  match d with
  | [] => Some m
  | s :: t => match ctx_bump prev (N.to_nat s) m with Some m' => ctx1_go s t m' | None => None end
  end.
Definition ctx1_counts (d : list N) : option cfreqs :=
  match d with [] => Some [] | p :: t => ctx1_go p t [] end.
(* for i in 2..len { context = (data[i-2] << 8) | data[i-1]; symbol = data[i] } *)
Fixpoint ctx2_go (p2 p1 : N) (d : list N) (m : cfreqs) : option cfreqs :=
  match d with
  | [] => Some m
  | s :: t => match ctx_bump (p2 * 256 + p1) (N.to_nat s) m with Some m' => ctx2_go p1 s t m' | None => None end
  end.
Definition ctx2_counts (d : list N) : option cfreqs :=
  match d with p2 :: p1 :: t => ctx2_go p2 p1 t [] | _ => Some [] end.

(* ------------------------------------------------------------------ *)
(* the merge with the order-0 baseline                                 *)
(* ------------------------------------------------------------------ *)
(* same function as merged_freq of ProofsHeap.v (proved equal in ProofsNew.v);
   None = attempt to multiply with overflow *)
Definition merged_freq_m (ctx_count order0_count : N) : option N :=
  if 0 <? ctx_count then (if ctx_count * 100 <? W32 then Some (ctx_count * 100) else None)
  else if 0 <? order0_count then Some order0_count
  else Some 1.
(* for symbol in 0..256 { merged_freqs[symbol] = ... } *)
Fixpoint merge_freqs (cf o0 : list N) : option (list N) :=
  match cf, o0 with
  | c :: ct, o :: ot =>
      match merged_freq_m c o with
      | None => None
      | Some f => match merge_freqs ct ot with Some r => Some (f :: r) | None => None end
      end
  | _, _ => Some []
  end.

(* context_map.insert(k, v): overwrite in place, else a new entry at the end *)
Fixpoint cmap_insert (k : N) (v : nat) (m : list (N * nat)) : list (N * nat) :=
  match m with
  | [] => [(k, v)]
  | (k', v') :: rest => if k' =? k then (k', v) :: rest else (k', v') :: cmap_insert k v rest
  end.

(* for (context, context_freqs) in ... { merge; if symbol_count > 0 { tree = from_frequencies(&merged)?;
   context_map.insert(context, trees.len()); trees.push(tree) } } *)
Fixpoint build_go (heap_of : list N -> tree) (o0 : list N) (cs : cfreqs)
         (trees : list hufftree) (cmap : list (N * nat)) : option (list hufftree * list (N * nat)) :=
  match cs with
  | [] => Some (trees, cmap)
  | (k, cf) :: rest =>
      match merge_freqs cf o0 with
      | None => None
      | Some mf =>
          if (0 <? length (present mf))%nat then
            match from_freqs heap_of mf with
            | None => None
            | Some ht => build_go heap_of o0 rest (trees ++ [ht]) (cmap_insert k (length trees) cmap)
            end
          else build_go heap_of o0 rest trees cmap
      end
  end.
Definition finish (heap_of : list N -> tree) (ord : N) (o0 : list N) (t0 : hufftree) (cs : cfreqs) : option cenc :=
  match build_go heap_of o0 cs [t0] [] with
  | Some (trees, cmap) => Some (mkC ord trees cmap)
  | None => None
  end.

(* ------------------------------------------------------------------ *)
(* order 2: sort_by_key(sum of the counts), reverse, take(min(1024, len)) *)
(* ------------------------------------------------------------------ *)
(* freqs.iter().sum::<u32>(); None = attempt to add with overflow *)
Fixpoint sum_u32 (fr : list N) (acc : N) : option N :=
  match fr with
  | [] => Some acc
  | f :: t => if acc + f <? W32 then sum_u32 t (acc + f) else None
  end.
Fixpoint with_totals (cs : cfreqs) : option (list (N * (N * list N))) :=
  match cs with
  | [] => Some []
  | p :: rest =>
      match sum_u32 (snd p) 0 with
      | None => None
      | Some tot => match with_totals rest with Some r => Some ((tot, p) :: r) | None => None end
      end
  end.
(* stable ascending sort on the first component (insertion sort; every stable sort gives this list) *)
Fixpoint ins_stable {A} (x : N * A) (l : list (N * A)) : list (N * A) :=
  match l with
  | [] => [x]
  | y :: t => if fst x <=? fst y then x :: y :: t else y :: ins_stable x t
  end.
Fixpoint sort_stable {A} (l : list (N * A)) : list (N * A) :=
  match l with
  | [] => []
  | x :: t => ins_stable x (sort_stable t)
  end.
Definition select_top (cs : cfreqs) : option cfreqs :=
  match with_totals cs with
  | None => None
  | Some ks =>
      let sorted := rev (sort_stable ks) in
      Some (map snd (firstn (Nat.min 1024 (length sorted)) sorted))
  end.

(* ------------------------------------------------------------------ *)
(* the constructors; None = panic or Err                               *)
(* ------------------------------------------------------------------ *)
Definition new_order0 (heap_of : list N -> tree) (d : list N) : option cenc :=
  match from_data heap_of d with
  | Some ht => Some (mkC 0 [ht] [(0, 0%nat)])
  | None => None
  end.
Definition new_order1 (heap_of : list N -> tree) (hm : cfreqs -> cfreqs) (d : list N) : option cenc :=
  if (length d <? 2)%nat then new_order0 heap_of d
  else
    match count_bytes d with
    | None => None
    | Some c0 =>
        let o0 := fill_ones c0 in
        match from_freqs heap_of o0 with
        | None => None
        | Some t0 =>
            match ctx1_counts d with
            | None => None
            | Some m => finish heap_of 1 o0 t0 (hm m)
            end
        end
    end.
Definition new_order2 (heap_of : list N -> tree) (hm : cfreqs -> cfreqs) (d : list N) : option cenc :=
  if (length d <? 3)%nat then new_order1 heap_of hm d
  else
    match count_bytes d with
    | None => None
    | Some c0 =>
        let o0 := fill_ones c0 in
        match from_freqs heap_of o0 with
        | None => None
        | Some t0 =>
            match ctx2_counts d with
            | None => None
            | Some m => match select_top (hm m) with
                        | None => None
                        | Some cs => finish heap_of 2 o0 t0 cs
                        end
            end
        end
    end.
(* ContextualHuffmanEncoder::new; HuffmanOrder has three values *)
Definition ctx_new (heap_of : list N -> tree) (hm : cfreqs -> cfreqs) (order : N) (d : list N) : option cenc :=
  if order =? 0 then new_order0 heap_of d
  else if order =? 1 then new_order1 heap_of hm d
  else if order =? 2 then new_order2 heap_of hm d
  else None.

(* the order field ContextualHuffmanEncoder::new(data, order) ends up with, n = data.len() *)
Definition built_order (order : N) (n : nat) : N :=
  if order =? 0 then 0
  else if (n <? 2)%nat then 0
  else if order =? 1 then 1
  else if (n <? 3)%nat then 1
  else 2.

(* ------------------------------------------------------------------ *)
(* entry point of the harness-generated case files (op 11)             *)
(* ------------------------------------------------------------------ *)
(* a heap result deeper than 64: from_frequencies takes its fixed-length fallback *)
Fixpoint chain (n : nat) : tree :=
  match n with O => Leaf 0 | S k => Node (Leaf 0) (chain k) end.
Definition chain66 : tree := chain 65.

(* the HashMap iteration order that reproduces the real encoder's context_map (keys = its contexts by
   increasing tree index).  extract: the first entry with key k and the list without it. *)
Fixpoint extract (k : N) (l : cfreqs) : option ((N * list N) * cfreqs) :=
  match l with
  | [] => None
  | p :: rest =>
      if fst p =? k then Some (p, rest)
      else match extract k rest with Some (q, r) => Some (q, p :: r) | None => None end
  end.
(* the entries of the keys, in the order of the keys (absent and repeated keys are skipped), and the rest
   in its original order *)
Fixpoint pick_all (ks : list N) (l : cfreqs) : cfreqs * cfreqs :=
  match ks with
  | [] => ([], l)
  | k :: t =>
      match extract k l with
      | Some (p, l') => let '(a, r) := pick_all t l' in (p :: a, r)
      | None => pick_all t l
      end
  end.
(* orders 0/1: keys first; order 2: the others first, then the keys last to first, so that the stable
   ascending sort, the reversal and the cut give back `keys` whenever `keys` is a possible outcome *)
Definition hm_of (order : N) (keys : list N) (l : cfreqs) : cfreqs :=
  if order =? 2 then let '(a, r) := pick_all (rev keys) l in r ++ a
  else let '(a, r) := pick_all keys l in a ++ r.

Definition all_syms : list N := map N.of_nat (seq 0 256).
Definition id_table : table := fixed_codes all_syms.
Fixpoint bits_eqb (a b : list bool) : bool :=
  match a, b with
  | [], [] => true
  | x :: a', y :: b' => Bool.eqb x y && bits_eqb a' b'
  | _, _ => false
  end.
Fixpoint table_eqb (a b : table) : bool :=
  match a, b with
  | [], [] => true
  | (s, c) :: a', (s', c') :: b' => (s =? s') && bits_eqb c c' && table_eqb a' b'
  | _, _ => false
  end.
Definition tree_summary (ht : hufftree) : list N :=
  if table_eqb (ht_codes ht) id_table then [1]
  else 0 :: N.of_nat (length (ht_codes ht))
         :: flat_map (fun e => [fst e; N.of_nat (length (snd e)); n_of_bits (snd e)]) (ht_codes ht).
Definition cenc_summary (e : cenc) : list N :=
  1 :: c_order e :: N.of_nat (length (c_trees e)) :: N.of_nat (length (c_map e))
    :: flat_map (fun p => [fst p; N.of_nat (snd p)]) (c_map e) ++ flat_map tree_summary (c_trees e).

(* op 11: a = order :: keys, b = training text *)
Definition run_case_new (op : N) (a b : list N) : list N :=
  match op with
  | 11 => match a with
          | order :: keys =>
              match ctx_new (fun _ => chain66) (hm_of order keys) order b with
              | Some e => cenc_summary e
              | None => [0]
              end
          | [] => bad_case
          end
  | _ => bad_case
  end.

Example ex_chain66_depth : (64 <? max_len (gen_codes chain66 []))%nat = true.
Proof. vm_compute. reflexivity. Qed.

(* order 1: contexts 97 ('a') and 98 ('b') in HashMap order 98, 97; all three trees are the 8-bit identity
   code (256 present symbols, fixed-length fallback) *)
Example ex_case_order1 :
  run_case_new 11 [1; 98; 97] [97; 98; 97; 98; 99] = [1; 1; 3; 2; 98; 1; 97; 2; 1; 1; 1].
Proof. vm_compute. reflexivity. Qed.
(* order 2: contexts "ab" = 24930 and "ba" = 25185 both have total 2; the real map listed "ba" first *)
Example ex_case_order2 :
  run_case_new 11 [2; 25185; 24930] [97; 98; 97; 98; 97; 99] = [1; 2; 3; 2; 25185; 1; 24930; 2; 1; 1; 1].
Proof. vm_compute. reflexivity. Qed.
(* order 2 on two bytes falls to order 1, order 1 on one byte to order 0 (single-symbol tree), the empty
   training text gives an empty tree *)
Example ex_case_short :
  run_case_new 11 [2] [97; 98] = [1; 1; 2; 1; 97; 1; 1; 1] /\
  run_case_new 11 [1] [97] = [1; 0; 1; 1; 0; 0; 0; 1; 97; 1; 0] /\
  run_case_new 11 [1] [] = [1; 0; 1; 1; 0; 0; 0; 0] /\
  run_case_new 11 [0] [97; 98; 97] = [1; 0; 1; 1; 0; 0; 0; 2; 97; 8; 0; 98; 8; 1] /\
  run_case_new 12 [0] [97] = [99].
Proof. vm_compute. repeat split; reflexivity. Qed.
