(* C01 mechanism model, Huffman half, part 2: contextual coder (orders 0/1/2) and the N-way interleaved
   order-1 coder.  Definitions only.

   src/entropy/huffman.rs as written:
     - ContextualHuffmanEncoder::encode (tree chosen by the previous 0/1/2 bytes through context_map,
       tree 0 for the first symbols and for unmapped contexts), ContextualHuffmanDecoder::{decode,
       decode_order0, decode_order1, decode_order2, decode_next_symbol} (byte index + bit position cursor);
     - encode_with_interleaving / encode_xn (consecutive chunks len/N + (n < len mod N), forward round-robin
       over the streams that still have symbols, per-stream context starting at 256, fast symbol table with
       16-bit entries and the tree path for what the table cannot hold), decode_with_interleaving /
       decode_xn (same boundaries and order, 12-bit decode table, tree walk when fewer than 12 bits are
       buffered / the code is longer than 12 bits), build_fast_symbol_table_inner, build_decode_table,
       decode_one_symbol, decode_one_symbol_tree, write_code_from_tree.
   Two behaviours exist in two versions, selected by a flag, because they were repaired in the tree under
   verification (the `true`/old values are used by the refutation theorems only):
     fallback : a symbol missing from a mapped context's tree is coded with tree 0 (old) / refused (now);
     trunc    : the fast symbol table truncates codes to 16 bits and gives a missing symbol the entry
                (0, 1) (old) / marks both with bit_count 0 and the encoder reads the tree (now);
     skip     : false = a single-leaf context tree consumes no bits in decode_next_symbol /
                decode_one_symbol_tree (old) / true = it consumes the bits of its one code (now).
   The trees themselves are inputs (read from the real encoder through serialize()). *)
From ZV.Common Require Import Base.
From ZV.C01 Require Import Model.
Open Scope N_scope.

Record cenc := mkC { c_order : N; c_trees : list hufftree; c_map : list (N * nat) }.
Definition empty_ht : hufftree := mkHT None [].
(* self.trees[i]; new/deserialize guarantee i < trees.len() and trees.len() >= 1 *)
Definition tree_at (e : cenc) (i : nat) : hufftree := nth i (c_trees e) empty_ht.
Definition map_get (e : cenc) (k : N) : option nat :=
  match find (fun p => fst p =? k) (c_map e) with Some p => Some (snd p) | None => None end.

(* the context of the next symbol from the symbols coded so far (most recent first) *)
Definition ctx_key (order : N) (hist : list N) : option N :=
  if order =? 1 then match hist with p :: _ => Some p | [] => None end
  else if order =? 2 then match hist with p1 :: p2 :: _ => Some (p2 * 256 + p1) | _ => None end
  else None.
Definition push_hist (s : N) (hist : list N) : list N := s :: firstn 1 hist.
(* the tree the decoder uses: context_map.get(&context).copied().unwrap_or(0) *)
Definition ctx_tree (e : cenc) (hist : list N) : hufftree :=
  match ctx_key (c_order e) hist with
  | Some k => match map_get e k with Some i => tree_at e i | None => tree_at e 0 end
  | None => tree_at e 0
  end.

(* ------------------------------------------------------------------ *)
(* ContextualHuffmanEncoder::encode                                    *)
(* ------------------------------------------------------------------ *)
Definition sym_code (fallback : bool) (e : cenc) (hist : list N) (s : N) : option (list bool) :=
  match ctx_key (c_order e) hist with
  | Some k =>
      match map_get e k with
      | Some i => match get_code (ht_codes (tree_at e i)) s with
                  | Some c => Some c
                  | None => if fallback then get_code (ht_codes (tree_at e 0)) s else None
                  end
      | None => get_code (ht_codes (tree_at e 0)) s
      end
  | None => get_code (ht_codes (tree_at e 0)) s
  end.
Fixpoint ctx_bits (fallback : bool) (e : cenc) (hist : list N) (d : list N) : option (list bool) :=
  match d with
  | [] => Some []
  | s :: t => match sym_code fallback e hist s with
              | None => None
              | Some c => match ctx_bits fallback e (push_hist s hist) t with
                          | Some r => Some (c ++ r)
                          | None => None
                          end
              end
  end.
Definition ctx_encode_g (fallback : bool) (e : cenc) (d : list N) : option (list N) :=
  match d with
  | [] => Some []
  | _ => match ctx_bits fallback e [] d with Some bits => Some (pack bits) | None => None end
  end.
Definition ctx_encode := ctx_encode_g false.

(* ------------------------------------------------------------------ *)
(* ContextualHuffmanDecoder                                            *)
(* ------------------------------------------------------------------ *)
(* decode_next_symbol on the bits from the cursor on: a leaf is reported without consuming the bit it is
   seen at; at the end of the data a leaf is still reported, an inner node is "Incomplete symbol" *)
Fixpoint dns_walk (t : tree) (bits : list bool) : option (N * list bool) :=
  match t with
  | Leaf s => Some (s, bits)
  | Hole => Some (0, bits)
  | Node l r => match bits with
                | [] => None
                | b :: bs => dns_walk (if b then r else l) bs
                end
  end.
Definition root_code_len (ht : hufftree) (s : N) : nat :=
  match get_code (ht_codes ht) s with Some c => length c | None => 1%nat end.
Definition dns (skip : bool) (ht : hufftree) (bits : list bool) : option (N * list bool) :=
  match ht_root ht with
  | None => None
  | Some (Node l r) => dns_walk (Node l r) bits
  | Some t =>
      let s := match t with Leaf x => x | _ => 0 end in
      if skip then
        let n := root_code_len ht s in
        if (n <=? length bits)%nat then Some (s, skipn n bits) else None
      else Some (s, bits)
  end.

(* while result.len() < output_length && byte_idx < encoded_data.len() { decode with the context's tree;
   break on Err }   (k = output_length - result.len()) *)
Fixpoint ctx_loop (skip : bool) (e : cenc) (hist : list N) (bits : list bool) (k : nat) : list N :=
  match k with
  | O => []
  | S k' =>
      match bits with
      | [] => []
      | _ => match dns skip (ctx_tree e hist) bits with
             | Some (s, bits') => s :: ctx_loop skip e (push_hist s hist) bits' k'
             | None => []
             end
      end
  end.
Definition ctx_decode_g (skip : bool) (e : cenc) (bytes : list N) (outlen : nat) : option (list N) :=
  match bytes, outlen with
  | [], _ => Some []
  | _, O => Some []
  | _, _ =>
      let bits := unpack bytes in
      let t0 := tree_at e 0 in
      let out :=
        if c_order e =? 0 then
          match ht_root t0 with
          | None => None        (* Err("Empty tree") *)
          | Some root => Some (dec_loop root root bits outlen)
          end
        else if c_order e =? 1 then
          match dns skip t0 bits with
          | None => Some []
          | Some (s, b1) => Some (s :: ctx_loop skip e [s] b1 (outlen - 1))
          end
        else (* for _ in 0..2.min(output_length) { decode with tree 0; break on Err } *)
          match dns skip t0 bits with
          | None => Some []
          | Some (s1, b1) =>
              match outlen with
              | S O => Some [s1]
              | _ => match dns skip t0 b1 with
                     | None => Some [s1]
                     | Some (s2, b2) => Some (s1 :: s2 :: ctx_loop skip e [s2; s1] b2 (outlen - 2))
                     end
              end
          end in
      match out with
      | Some o => if length_is o outlen then Some o else None
      | None => None
      end
  end.
Definition ctx_decode := ctx_decode_g true.

(* ------------------------------------------------------------------ *)
(* interleaved streams                                                 *)
(* ------------------------------------------------------------------ *)
(* stream n of nst covers [start, end): size = len / nst + (n < len % nst) *)
Fixpoint bounds_go (n cnt nst len start : nat) : list (nat * nat) :=
  match cnt with
  | O => []
  | S c => let size := (len / nst + (if n <? len mod nst then 1 else 0))%nat in
           (start, (start + size)%nat) :: bounds_go (S n) c nst len (start + size)%nat
  end.
Definition bounds (nst len : nat) : list (nat * nat) := bounds_go 0 nst nst len 0.

(* a stream: next position, end, context (256 = no previous symbol) *)
Definition stream : Type := (nat * nat * N)%type.
Definition init_streams (nst len : nat) : list stream := map (fun b => (fst b, snd b, 256)) (bounds nst len).

(* one pass `for n in 0..N` over the streams; `early` is the decoder's
   `if total_decoded >= output_size { break; }` *)
Fixpoint rr_round {St : Type} (early : bool) (step : N -> nat -> St -> option (N * St))
         (sts : list stream) (rem : nat) (s : St) : option (list stream * nat * St) :=
  match sts with
  | [] => Some ([], rem, s)
  | (p, e, c) :: rest =>
      if (e <=? p)%nat then
        match rr_round early step rest rem s with
        | Some (rest', rem', s') => Some ((p, e, c) :: rest', rem', s')
        | None => None
        end
      else
        match step c p s with
        | None => None
        | Some (sym, s1) =>
            let rem1 := (rem - 1)%nat in
            if early && (rem1 =? 0)%nat then Some ((S p, e, sym) :: rest, rem1, s1)
            else match rr_round early step rest rem1 s1 with
                 | Some (rest', rem', s') => Some ((S p, e, sym) :: rest', rem', s')
                 | None => None
                 end
        end
  end.
(* while total < size { one pass }; None = a step failed, or the loop would not terminate *)
Fixpoint rr_loop {St : Type} (early : bool) (step : N -> nat -> St -> option (N * St))
         (fuel : nat) (sts : list stream) (rem : nat) (s : St) : option St :=
  match rem with
  | O => Some s
  | _ => match fuel with
         | O => None
         | S f => match rr_round early step sts rem s with
                  | Some (sts', rem', s') => rr_loop early step f sts' rem' s'
                  | None => None
                  end
         end
  end.

(* the tree of a stream context: 256 -> tree 0, else context_map.get(ctx).unwrap_or(0) *)
Definition xn_tree (e : cenc) (ctx : N) : hufftree :=
  if ctx =? 256 then tree_at e 0
  else match map_get e ctx with Some i => tree_at e i | None => tree_at e 0 end.

(* build_fast_symbol_table_inner: entry (bits, bit_count) *)
Definition fast_entry (trunc : bool) (ht : hufftree) (s : N) : N * N :=
  match get_code (ht_codes ht) s with
  | Some c =>
      if (16 <? length c)%nat
      then (if trunc then (n_of_bits (firstn 16 c), 16) else (0, 0))
      else (n_of_bits c, N.of_nat (length c))
  | None => if trunc then (0, 1) else (0, 0)
  end.
(* write_code_from_tree: the code in chunks of 32 bits *)
Fixpoint write_chunks (fuel : nat) (w : writer) (c : list bool) : writer :=
  match fuel with
  | O => w
  | S f => match c with
           | [] => w
           | _ => write_chunks f (w_write w (n_of_bits (firstn 32 c)) (N.of_nat (length (firstn 32 c)))) (skipn 32 c)
           end
  end.
Definition enc_step (trunc : bool) (e : cenc) (d : list N) (ctx : N) (pos : nat) (w : writer) : option (N * writer) :=
  let s := nth pos d 0 in
  let ht := xn_tree e ctx in
  let '(bits, cnt) := fast_entry trunc ht s in
  if cnt =? 0 then
    if trunc then Some (s, w_write w bits cnt)
    else match get_code (ht_codes ht) s with
         | Some c => Some (s, write_chunks (length c) w c)
         | None => None      (* Err("Symbol {} has no code in the tree for context {}") *)
         end
  else Some (s, w_write w bits cnt).

Definition xn_encode_g (trunc : bool) (e : cenc) (nst : nat) (d : list N) : option (list N) :=
  if negb (c_order e =? 1) then None   (* Err("Interleaving only supported for Order-1 ...") *)
  else match d with
       | [] => Some []
       | _ => match rr_loop false (enc_step trunc e d) (length d) (init_streams nst (length d)) (length d) w_new with
              | Some w => Some (w_finish w)
              | None => None
              end
       end.
Definition xn_encode := xn_encode_g false.

(* build_decode_table, entry for one 12-bit value: (symbol, bits_used), bits_used = 0 when no leaf is
   reached within 12 bits (and for a single-leaf tree) *)
Fixpoint tbl_walk (t : tree) (peek : N) (pos : nat) : N * N :=
  match t with
  | Leaf s => (s, N.of_nat pos)
  | Hole => (0, N.of_nat pos)
  | Node l r => if (12 <=? pos)%nat then (0, 0)
                else tbl_walk (if N.testbit peek (N.of_nat pos) then r else l) peek (S pos)
  end.
(* the loop of decode_one_symbol_tree below the root *)
Fixpoint walk_r (t : tree) (r : reader) : option (N * reader) :=
  match t with
  | Leaf s => Some (s, r)
  | Hole => Some (0, r)
  | Node l rt =>
      let r1 := if r_cnt r =? 0 then r_refill r else r in
      if r_cnt r1 =? 0 then None     (* Err("Unexpected end of stream") *)
      else let bit := N.odd (r_peek r1 1) in
           match r_consume r1 1 with
           | Some r2 => walk_r (if bit then rt else l) r2
           | None => None
           end
  end.
Fixpoint skip_bits (n : nat) (r : reader) : option reader :=
  match n with
  | O => Some r
  | S k => let r1 := if r_cnt r =? 0 then r_refill r else r in
           if r_cnt r1 =? 0 then None
           else match r_consume r1 1 with Some r2 => skip_bits k r2 | None => None end
  end.
Definition dos_tree (skip : bool) (ht : hufftree) (r : reader) : option (N * reader) :=
  match ht_root ht with
  | None => None       (* Err("Empty tree") *)
  | Some (Node l rt) => walk_r (Node l rt) r
  | Some t =>
      let s := match t with Leaf x => x | _ => 0 end in
      if skip then match skip_bits (root_code_len ht s) r with Some r' => Some (s, r') | None => None end
      else Some (s, r)
  end.
(* decode_one_symbol *)
Definition dos (skip : bool) (ht : hufftree) (r : reader) : option (N * reader) :=
  let r1 := if r_cnt r <? 12 then r_refill r else r in
  if r_cnt r1 <? 12 then dos_tree skip ht r1
  else
    let '(sym, used) := match ht_root ht with Some t => tbl_walk t (r_peek r1 12) 0 | None => (0, 0) end in
    if used =? 0 then dos_tree skip ht r1
    else if r_cnt r1 <? used then dos_tree skip ht r1
    else match r_consume r1 used with
         | Some r2 => Some (sym, r_refill r2)
         | None => None
         end.

Fixpoint set_nth (n : nat) (x : N) (l : list N) : list N :=
  match l with
  | [] => []      (* output[pos] = symbol out of range would panic; positions stay below output_size *)
  | h :: t => match n with O => x :: t | S k => h :: set_nth k x t end
  end.
Definition dec_step (skip : bool) (e : cenc) (ctx : N) (pos : nat) (st : reader * list N) : option (N * (reader * list N)) :=
  match dos skip (xn_tree e ctx) (fst st) with
  | Some (sym, r') => Some (sym, (r', set_nth pos sym (snd st)))
  | None => None
  end.
Definition xn_decode_g (skip : bool) (e : cenc) (nst : nat) (bytes : list N) (outlen : nat) : option (list N) :=
  if negb (c_order e =? 1) then None
  else match bytes with
       | [] => Some []
       | _ =>
           if (8 * length bytes <? outlen)%nat then None   (* "Output size exceeds what the encoded data can hold" *)
           else match rr_loop true (dec_step skip e) outlen (init_streams nst outlen) outlen
                              (r_new bytes, repeat 0 outlen) with
                | Some st => Some (snd st)
                | None => None
                end
       end.
Definition xn_decode := xn_decode_g true.

(* ------------------------------------------------------------------ *)
(* well-formedness of a contextual encoder                             *)
(* ------------------------------------------------------------------ *)
Definition has_root (ht : hufftree) : bool := match ht_root ht with Some _ => true | None => false end.
Definition wf_cenc (e : cenc) : bool :=
  nonempty (c_trees e)
  && forallb (fun ht => wf_ht ht && has_root ht) (c_trees e)
  && forallb (fun p => (snd p <? length (c_trees e))%nat) (c_map e).

(* ------------------------------------------------------------------ *)
(* entry point of the harness-generated case files (ops < 100)          *)
(* ------------------------------------------------------------------ *)
(* table: [nsym; s; len; val; ...], val = the code read LSB-first as a number *)
Fixpoint parse_table (n : nat) (l : list N) : option (table * list N) :=
  match n with
  | O => Some ([], l)
  | S k => match l with
           | s :: len :: v :: rest =>
               match parse_table k rest with
               | Some (tb, rest') => Some ((s, bits_of_n (N.to_nat len) v) :: tb, rest')
               | None => None
               end
           | _ => None
           end
  end.
Definition parse_ht (l : list N) : option (hufftree * list N) :=
  match l with
  | n :: rest => match parse_table (N.to_nat n) rest with
                 | Some (tb, rest') => match ht_of_table tb with
                                       | Some ht => Some (ht, rest')
                                       | None => None
                                       end
                 | None => None
                 end
  | [] => None
  end.
Fixpoint parse_hts (n : nat) (l : list N) : option (list hufftree) :=
  match n with
  | O => Some []
  | S k => match parse_ht l with
           | Some (ht, rest) => match parse_hts k rest with Some hs => Some (ht :: hs) | None => None end
           | None => None
           end
  end.
Fixpoint parse_map (n : nat) (l : list N) : option (list (N * nat) * list N) :=
  match n with
  | O => Some ([], l)
  | S k => match l with
           | c :: i :: rest => match parse_map k rest with
                               | Some (m, rest') => Some ((c, N.to_nat i) :: m, rest')
                               | None => None
                               end
           | _ => None
           end
  end.
(* [order; ntrees; nctx; (ctx, idx)*; tables] *)
Definition parse_cenc (l : list N) : option cenc :=
  match l with
  | order :: nt :: nc :: rest =>
      match parse_map (N.to_nat nc) rest with
      | Some (m, rest') => match parse_hts (N.to_nat nt) rest' with
                           | Some hs => Some (mkC order hs m)
                           | None => None
                           end
      | None => None
      end
  | _ => None
  end.
Definition res (o : option (list N)) : list N := match o with Some l => 1 :: l | None => [0] end.
Definition bad_case : list N := [99].

Definition run_case_a (op : N) (a b : list N) : list N :=
  match op with
  | 1 => match parse_ht a with Some (ht, _) => res (huff_encode ht b) | None => bad_case end
  | 2 => match a with
         | n :: a' => match parse_ht a' with Some (ht, _) => res (huff_decode ht b (N.to_nat n)) | None => bad_case end
         | [] => bad_case
         end
  | 3 => match parse_cenc a with Some e => res (ctx_encode e b) | None => bad_case end
  | 4 => match a with
         | n :: a' => match parse_cenc a' with Some e => res (ctx_decode e b (N.to_nat n)) | None => bad_case end
         | [] => bad_case
         end
  | 5 => match a with
         | n :: a' => match parse_cenc a' with Some e => res (xn_encode e (N.to_nat n) b) | None => bad_case end
         | [] => bad_case
         end
  | 6 => match a with
         | n :: len :: a' => match parse_cenc a' with
                             | Some e => res (xn_decode e (N.to_nat n) b (N.to_nat len))
                             | None => bad_case
                             end
         | _ => bad_case
         end
  | _ => bad_case
  end.
