(* C01: bit I/O lemmas - the byte packing loop and its reading order. *)
From ZV.Common Require Import Base.
From ZV.C01 Require Import Model.
Open Scope N_scope.

Lemma n_of_bits_app a b : n_of_bits (a ++ b) = n_of_bits a + 2 ^ N.of_nat (length a) * n_of_bits b.
Proof.
  induction a as [|x a IH]; cbn [n_of_bits app length].
  - change (N.of_nat 0) with 0. rewrite N.pow_0_r. lia.
  - rewrite IH. rewrite Nat2N.inj_succ, N.pow_succ_r'. lia.
Qed.

Lemma n_of_bits_lt l : n_of_bits l < 2 ^ N.of_nat (length l).
Proof.
  induction l as [|x l IH]; cbn [n_of_bits length].
  - change (N.of_nat 0) with 0. rewrite N.pow_0_r. lia.
  - rewrite Nat2N.inj_succ, N.pow_succ_r'. destruct x; cbn [N.b2n]; lia.
Qed.

Lemma odd_b2n_add b x : N.odd (N.b2n b + 2 * x) = b.
Proof.
  rewrite N.odd_add_mul_2. destruct b; reflexivity.
Qed.
Lemma div2_b2n_add b x : N.div2 (N.b2n b + 2 * x) = x.
Proof.
  rewrite N.div2_div. destruct b; cbn [N.b2n]; lia.
Qed.

(* reading back more bits than were written yields zero padding *)
Lemma bits_of_n_pad l k : bits_of_n (length l + k) (n_of_bits l) = l ++ repeat false k.
Proof.
  induction l as [|x l IH]; cbn [length n_of_bits app plus].
  - induction k as [|k IHk]; cbn [bits_of_n repeat]; [reflexivity|].
    change (N.odd 0) with false. change (N.div2 0) with 0. now rewrite IHk.
  - cbn [bits_of_n]. rewrite odd_b2n_add, div2_b2n_add, IH. reflexivity.
Qed.
Lemma bits_of_n_of_bits l : bits_of_n (length l) (n_of_bits l) = l.
Proof.
  rewrite <- (Nat.add_0_r (length l)). rewrite bits_of_n_pad. cbn [repeat]. apply app_nil_r.
Qed.
(* higher bits do not matter *)
Lemma bits_of_n_low l x : bits_of_n (length l) (n_of_bits l + 2 ^ N.of_nat (length l) * x) = l.
Proof.
  revert x. induction l as [|b l IH]; intros x; cbn [length n_of_bits bits_of_n]; [reflexivity|].
  rewrite Nat2N.inj_succ, N.pow_succ_r'.
  replace (N.b2n b + 2 * n_of_bits l + 2 * 2 ^ N.of_nat (length l) * x)
    with (N.b2n b + 2 * (n_of_bits l + 2 ^ N.of_nat (length l) * x)) by lia.
  rewrite odd_b2n_add, div2_b2n_add, IH. reflexivity.
Qed.
Lemma bits_of_n_length n v : length (bits_of_n n v) = n.
Proof. revert v. induction n as [|n IH]; intros v; cbn [bits_of_n length]; [reflexivity|]. now rewrite IH. Qed.

Lemma n_of_bits_snoc pre (b : bool) :
  n_of_bits (pre ++ [b]) = n_of_bits pre + N.b2n b * 2 ^ N.of_nat (length pre).
Proof. rewrite n_of_bits_app. cbn [n_of_bits]. lia. Qed.

Lemma unpack_app a b : unpack (a ++ b) = unpack a ++ unpack b.
Proof. unfold unpack. apply flat_map_app. Qed.
Lemma unpack_cons x l : unpack (x :: l) = byte_bits x ++ unpack l.
Proof. reflexivity. Qed.
Lemma unpack_length l : length (unpack l) = (8 * length l)%nat.
Proof.
  induction l as [|x l IH]; [reflexivity|].
  rewrite unpack_cons, app_length. unfold byte_bits. rewrite bits_of_n_length, IH. cbn [length]. lia.
Qed.

Lemma pad_len_lt n : (pad_len n < 8)%nat.
Proof. unfold pad_len. apply Nat.mod_upper_bound. discriminate. Qed.
Lemma pad_len_sum n : ((n + pad_len n) mod 8 = 0)%nat.
Proof. unfold pad_len. lia. Qed.

Lemma pack_go_spec bits : forall pre, (length pre < 8)%nat ->
  unpack (pack_go bits (n_of_bits pre) (N.of_nat (length pre))) =
  pre ++ bits ++ repeat false (pad_len (length pre + length bits)).
Proof.
  induction bits as [|b t IH]; intros pre Hlen; cbn [pack_go].
  - cbn [length app]. rewrite Nat.add_0_r.
    destruct (N.ltb_spec 0 (N.of_nat (length pre))) as [Hpos|Hz].
    + rewrite unpack_cons. cbn [unpack flat_map]. rewrite app_nil_r. unfold byte_bits.
      replace 8%nat with (length pre + pad_len (length pre))%nat at 1.
      * apply bits_of_n_pad.
      * unfold pad_len. lia.
    + destruct pre; [|cbn [length] in Hz; lia]. reflexivity.
  - assert (Hcur : (if b then N.lor (n_of_bits pre) (N.shiftl 1 (N.of_nat (length pre))) else n_of_bits pre)
                   = n_of_bits (pre ++ [b])).
    { rewrite n_of_bits_snoc. destruct b; cbn [N.b2n].
      - rewrite N.shiftl_mul_pow2. rewrite lor_disjoint_add by apply n_of_bits_lt. lia.
      - lia. }
    rewrite Hcur.
    destruct (N.eqb_spec (N.of_nat (length pre) + 1) 8) as [H8|H8].
    + rewrite unpack_cons. change 0 with (n_of_bits []) at 1. change 0 with (N.of_nat (@length bool [])).
      rewrite IH by (cbn [length]; lia).
      unfold byte_bits.
      replace 8%nat with (length (pre ++ [b])) by (rewrite app_length; cbn [length]; lia).
      rewrite bits_of_n_of_bits. cbn [length app].
      rewrite <- !app_assoc. cbn [app].
      replace (pad_len (length pre + S (length t))) with (pad_len (0 + length t)); [reflexivity|].
      unfold pad_len. lia.
    + replace (N.of_nat (length pre) + 1) with (N.of_nat (length (pre ++ [b])))
        by (rewrite app_length; cbn [length]; lia).
      rewrite IH by (rewrite app_length; cbn [length]; lia).
      rewrite <- !app_assoc. cbn [app length].
      replace (length (pre ++ [b]) + length t)%nat with (length pre + S (length t))%nat
        by (rewrite app_length; cbn [length]; lia).
      reflexivity.
Qed.

(* unpack (pack bs) = bs ++ zero padding up to the byte boundary *)
Lemma pack_unpack_proof bs : unpack (pack bs) = bs ++ repeat false (pad_len (length bs)).
Proof.
  unfold pack. change 0 with (n_of_bits []) at 1. change 0 with (N.of_nat (@length bool [])).
  rewrite pack_go_spec by (cbn [length]; lia). reflexivity.
Qed.

Lemma pack_nonempty bs : bs <> [] -> pack bs <> [].
Proof.
  intros Hne Hp. pose proof (pack_unpack_proof bs) as H. rewrite Hp in H. cbn in H.
  destruct bs; [congruence|discriminate].
Qed.

Example pack_example : pack [true; false; true; true; false; false; false; false; true] = [13; 1].
Proof. reflexivity. Qed.
