(* C01: ContextualHuffmanEncoder::new end to end - for every behaviour of the BinaryHeap loop (any run of
   "merge two nodes") and every iteration order of the HashMap (any permutation), on every training text
   shorter than 2^32 / 100 bytes the constructor succeeds, the encoder it returns is well formed, every one
   of its trees codes every byte (orders 1 and 2 with at least two training bytes), and
   encode / decode / the interleaved pair are lossless and total on every payload. *)
From ZV.Common Require Import Base.
From Coq Require Import Permutation.
From ZV.C01 Require Import Model ModelCtx ModelNew ProofsBits ProofsHuff ProofsTree ProofsIO ProofsCtx ProofsXn
     ProofsHeap ProofsTotal ProofsNew.
Open Scope N_scope.

(* from_frequencies on a non-empty symbol set, whatever the heap did *)
Lemma from_heap_ok syms heap : syms <> [] -> (length syms <= 256)%nat -> heap_run (map Leaf syms) heap ->
  exists ht, ht_from_heap syms heap = Some ht /\ wf_ht ht = true /\ has_root ht = true /\
             (forall s, In s syms -> get_code (ht_codes ht) s <> None).
Proof.
  intros Hne Hlen Hrun.
  assert (Hex : exists ht, ht_from_heap syms heap = Some ht /\ wf_ht ht = true).
  { destruct syms as [|s1 [|s2 syms]]; [congruence| |].
    - eexists. split; [reflexivity|]. unfold wf_ht. cbn [ht_root ht_codes forallb fst snd nonempty].
      now rewrite N.eqb_refl.
    - apply ht_from_heap_wf_proof; [exact Hlen|]. apply (heap_run_node _ _ Hrun).
      rewrite map_length. cbn [length]. lia. }
  destruct Hex as [ht [Hht Hwf]].
  assert (Hcov : forall s, In s syms -> get_code (ht_codes ht) s <> None).
  { intros s Hs. exact (from_frequencies_covers_proof _ _ _ Hrun Hht s Hs). }
  exists ht. split; [exact Hht|]. split; [exact Hwf|]. split; [|exact Hcov].
  unfold has_root. destruct (ht_root ht) eqn:Hr; [reflexivity|]. exfalso.
  unfold wf_ht in Hwf. rewrite Hr in Hwf. destruct (ht_codes ht) eqn:Hc; [|discriminate].
  destruct syms as [|s1 rest]; [congruence|]. apply (Hcov s1 (or_introl eq_refl)). reflexivity.
Qed.

Definition tree_ok (ht : hufftree) : Prop := wf_ht ht = true /\ has_root ht = true /\ covers_bytes ht.
Definition tree_wf (ht : hufftree) : Prop := wf_ht ht = true /\ has_root ht = true.

Lemma wf_cenc_intro ord trees cmap : trees <> [] -> Forall tree_wf trees ->
  Forall (fun p => (snd p < length trees)%nat) cmap -> wf_cenc (mkC ord trees cmap) = true.
Proof.
  intros Hne Ht Hm. unfold wf_cenc. cbn [c_trees c_map].
  apply andb_true_intro. split; [apply andb_true_intro; split|].
  - destruct trees; [congruence|reflexivity].
  - apply forallb_forall. intros ht Hin. rewrite Forall_forall in Ht. destruct (Ht ht Hin) as [H1 H2].
    now rewrite H1, H2.
  - apply forallb_forall. intros p Hin. rewrite Forall_forall in Hm. apply Nat.ltb_lt. now apply Hm.
Qed.

Lemma built_order_cases order n : order < 3 ->
  (order = 0 /\ built_order order n = 0) \/
  (order <> 0 /\ (n < 2)%nat /\ built_order order n = 0) \/
  (order = 1 /\ (2 <= n)%nat /\ built_order order n = 1) \/
  (order = 2 /\ n = 2%nat /\ built_order order n = 1) \/
  (order = 2 /\ (3 <= n)%nat /\ built_order order n = 2).
Proof.
  intros Ho. unfold built_order.
  destruct (N.eqb_spec order 0) as [->|H0]; [left; split; reflexivity|].
  destruct (Nat.ltb_spec n 2) as [H2|H2]; [right; left; repeat split; assumption|].
  destruct (N.eqb_spec order 1) as [->|H1]; [right; right; left; repeat split; assumption|].
  assert (order = 2) by lia. subst order.
  destruct (Nat.ltb_spec n 3) as [H3|H3].
  - right; right; right; left. repeat split. lia.
  - right; right; right; right. repeat split. exact H3.
Qed.

Section New.
  Variable heap_of : list N -> tree.
  Variable hm : cfreqs -> cfreqs.
  Hypothesis heap_ok : forall fr, present fr <> [] -> heap_run (map Leaf (present fr)) (heap_of fr).
  Hypothesis hm_perm : forall l, Permutation (hm l) l.

  (* a fully positive array: all 256 symbols present, the tree codes every byte *)
  Lemma from_freqs_full fr : length fr = 256%nat -> Forall (fun f => 0 < f) fr ->
    exists ht, from_freqs heap_of fr = Some ht /\ tree_ok ht.
  Proof.
    intros Hlen Hpos. destruct (present_go_pos fr Hpos 0) as [Hl Hin]. fold (present fr) in Hl, Hin.
    assert (Hne : present fr <> []).
    { intros H. rewrite H, Hlen in Hl. discriminate. }
    unfold from_freqs.
    destruct (from_heap_ok (present fr) (heap_of fr) Hne ltac:(lia) (heap_ok fr Hne)) as [ht [H1 [H2 [H3 H4]]]].
    exists ht. split; [exact H1|]. split; [exact H2|]. split; [exact H3|].
    intros s Hs. apply H4. apply Hin. rewrite Hlen. lia.
  Qed.

  Lemma from_data_ok t : t <> [] -> bytes_ok t -> N.of_nat (length t) < W32 ->
    exists ht, from_data heap_of t = Some ht /\ tree_wf ht.
  Proof.
    intros Hne Hb Hn. destruct (count_bytes_ok t Hb Hn) as [fr [Hc [Hl Hs]]].
    unfold from_data. rewrite Hc. unfold from_freqs.
    assert (Hp : present fr <> []).
    { apply present_go_nonempty. rewrite Hs. destruct t; [congruence|cbn [length]; lia]. }
    pose proof (present_go_len_le fr 0) as Hle. fold (present fr) in Hle.
    destruct (from_heap_ok (present fr) (heap_of fr) Hp ltac:(lia) (heap_ok fr Hp)) as [ht [H1 [H2 [H3 _]]]].
    exists ht. split; [exact H1|]. split; assumption.
  Qed.

  Lemma new_order0_ok t : bytes_ok t -> N.of_nat (length t) < W32 ->
    exists e, new_order0 heap_of t = Some e /\ c_order e = 0 /\ (t <> [] -> wf_cenc e = true) /\
              (t = [] -> e = mkC 0 [empty_ht] [(0, 0%nat)]).
  Proof.
    intros Hb Hn. destruct t as [|x t].
    - eexists. split; [vm_compute; reflexivity|]. split; [reflexivity|]. split; [congruence|reflexivity].
    - destruct (from_data_ok (x :: t) ltac:(discriminate) Hb Hn) as [ht [H1 H2]].
      unfold new_order0. rewrite H1. eexists. split; [reflexivity|]. split; [reflexivity|].
      split; [|discriminate]. intros _. apply wf_cenc_intro; [discriminate| |].
      + constructor; [exact H2|constructor].
      + constructor; [cbn [snd length]; lia|constructor].
  Qed.

  Lemma build_go_ok o0 : length o0 = 256%nat -> forall cs trees cmap,
    cs_ok cs -> Forall tree_ok trees -> Forall (fun p => (snd p < length trees)%nat) cmap ->
    exists trees' cmap', build_go heap_of o0 cs trees cmap = Some (trees', cmap') /\
      Forall tree_ok trees' /\ Forall (fun p => (snd p < length trees')%nat) cmap' /\
      (length trees <= length trees')%nat.
  Proof.
    intros Ho. induction cs as [|[k cf] rest IH]; intros trees cmap Hcs Ht Hm; cbn [build_go].
    - exists trees, cmap. repeat split; try assumption. lia.
    - inversion Hcs as [|? ? [Hl Hc] Hrest]; subst. cbn [snd] in Hl, Hc.
      destruct (merge_freqs_ok cf o0 ltac:(lia) Hc) as [mf [Hmf [Hlm Hpm]]]. rewrite Hmf.
      destruct (0 <? length (present mf))%nat.
      + destruct (from_freqs_full mf ltac:(lia) Hpm) as [ht [Hht Hok]]. rewrite Hht.
        destruct (IH (trees ++ [ht]) (cmap_insert k (length trees) cmap) Hrest) as [trees' [cmap' [H1 [H2 [H3 H4]]]]].
        * apply Forall_app. split; [exact Ht|constructor; [exact Hok|constructor]].
        * apply (map_insert_Forall (fun v => (v < length (trees ++ [ht]))%nat)).
          -- revert Hm. apply Forall_impl. intros p Hp. rewrite app_length. cbn [length]. lia.
          -- rewrite app_length. cbn [length]. lia.
        * exists trees', cmap'. split; [exact H1|]. split; [exact H2|]. split; [exact H3|].
          rewrite app_length in H4. cbn [length] in H4. lia.
      + now apply IH.
  Qed.

  Lemma finish_ok ord o0 t0 cs : length o0 = 256%nat -> tree_ok t0 -> cs_ok cs ->
    exists e, finish heap_of ord o0 t0 cs = Some e /\ c_order e = ord /\ wf_cenc e = true /\
              (forall ht, In ht (c_trees e) -> covers_bytes ht).
  Proof.
    intros Ho Ht0 Hcs. unfold finish.
    destruct (build_go_ok o0 Ho cs [t0] [] Hcs) as [trees [cmap [H1 [H2 [H3 H4]]]]].
    - constructor; [exact Ht0|constructor].
    - constructor.
    - rewrite H1. eexists. split; [reflexivity|]. split; [reflexivity|]. split.
      + apply wf_cenc_intro.
        * cbn [length] in H4. destruct trees; [cbn [length] in H4; lia|discriminate].
        * revert H2. apply Forall_impl. intros ht [Ha [Hb _]]. split; assumption.
        * exact H3.
      + cbn [c_trees]. intros ht Hin. rewrite Forall_forall in H2. now destruct (H2 ht Hin) as [_ [_ Hc]].
  Qed.

  Lemma new_order1_big t : (2 <= length t)%nat -> bytes_ok t -> N.of_nat (length t) * 100 < W32 ->
    exists e, new_order1 heap_of hm t = Some e /\ c_order e = 1 /\ wf_cenc e = true /\
              (forall ht, In ht (c_trees e) -> covers_bytes ht).
  Proof.
    intros Hlen Hb Hn. unfold new_order1.
    replace (length t <? 2)%nat with false by (symmetry; apply Nat.ltb_ge; exact Hlen).
    destruct (count_bytes_ok t Hb ltac:(lia)) as [c0 [Hc [Hl _]]]. rewrite Hc. cbv zeta.
    destruct (from_freqs_full (fill_ones c0)) as [t0 [Ht0 Hok]];
      [rewrite fill_ones_len; exact Hl|apply fill_ones_pos|]. rewrite Ht0.
    destruct (ctx1_counts_ok t Hb ltac:(lia)) as [m [Hm Hinv]]. rewrite Hm.
    apply finish_ok; [rewrite fill_ones_len; exact Hl|exact Hok|].
    apply cf_inv_cs_ok with (N.of_nat (length t)); [exact Hn|].
    unfold cf_inv. apply (Permutation_Forall (Permutation_sym (hm_perm m))). exact Hinv.
  Qed.

  Lemma new_order2_big t : (3 <= length t)%nat -> bytes_ok t -> N.of_nat (length t) * 100 < W32 ->
    exists e, new_order2 heap_of hm t = Some e /\ c_order e = 2 /\ wf_cenc e = true /\
              (forall ht, In ht (c_trees e) -> covers_bytes ht).
  Proof.
    intros Hlen Hb Hn. unfold new_order2.
    replace (length t <? 3)%nat with false by (symmetry; apply Nat.ltb_ge; exact Hlen).
    destruct (count_bytes_ok t Hb ltac:(lia)) as [c0 [Hc [Hl _]]]. rewrite Hc. cbv zeta.
    destruct (from_freqs_full (fill_ones c0)) as [t0 [Ht0 Hok]];
      [rewrite fill_ones_len; exact Hl|apply fill_ones_pos|]. rewrite Ht0.
    destruct (ctx2_counts_ok t Hb ltac:(lia)) as [m [Hm Hinv]]. rewrite Hm.
    assert (Hinv' : cf_inv (N.of_nat (length t)) (hm m)).
    { unfold cf_inv. apply (Permutation_Forall (Permutation_sym (hm_perm m))). exact Hinv. }
    destruct (select_top_ok (hm m) _ Hinv' ltac:(lia)) as [cs [Hs Hincl]]. rewrite Hs.
    apply finish_ok; [rewrite fill_ones_len; exact Hl|exact Hok|].
    pose proof (cf_inv_cs_ok _ _ Hn Hinv') as Hall. unfold cs_ok in *.
    rewrite Forall_forall in Hall. apply Forall_forall. intros p Hp. apply Hall. now apply Hincl.
  Qed.

  Lemma short_nil_or (t : list N) : (length t < 2)%nat -> t <> [] -> length t = 1%nat.
  Proof. destruct t as [|x [|y t]]; cbn [length]; intros; [congruence|reflexivity|lia]. Qed.

  Theorem ctx_new_wf_sec : forall order t,
    order < 3 -> bytes_ok t -> N.of_nat (length t) * 100 < W32 ->
    exists e, ctx_new heap_of hm order t = Some e /\
      c_order e = built_order order (length t) /\
      (t <> [] -> wf_cenc e = true) /\
      (t = [] -> e = mkC 0 [empty_ht] [(0, 0%nat)]) /\
      ((2 <= length t)%nat -> order <> 0 -> forall ht, In ht (c_trees e) -> covers_bytes ht).
  Proof.
    intros order t Ho Hb Hn.
    destruct (built_order_cases order (length t) Ho)
      as [[-> Hbo]|[[Hne [Hlt Hbo]]|[[-> [Hge Hbo]]|[[-> [Heq Hbo]]|[-> [Hge Hbo]]]]]]; rewrite Hbo.
    - destruct (new_order0_ok t Hb ltac:(lia)) as [e [H1 [H2 [H3 H4]]]].
      exists e. unfold ctx_new. change (0 =? 0) with true. cbv iota.
      repeat split; try assumption. intros _ Hc. congruence.
    - destruct (new_order0_ok t Hb ltac:(lia)) as [e [H1 [H2 [H3 H4]]]].
      exists e. split.
      + unfold ctx_new. replace (order =? 0) with false by (symmetry; now apply N.eqb_neq).
        assert (H12 : order = 1 \/ order = 2) by lia. destruct H12 as [->| ->].
        * change (1 =? 1) with true. cbv iota. unfold new_order1.
          replace (length t <? 2)%nat with true by (symmetry; apply Nat.ltb_lt; exact Hlt). exact H1.
        * change (2 =? 1) with false. change (2 =? 2) with true. cbv iota. unfold new_order2.
          replace (length t <? 3)%nat with true by (symmetry; apply Nat.ltb_lt; lia). unfold new_order1.
          replace (length t <? 2)%nat with true by (symmetry; apply Nat.ltb_lt; exact Hlt). exact H1.
      + repeat split; try assumption. intros Hc. lia.
    - destruct (new_order1_big t Hge Hb Hn) as [e [H1 [H2 [H3 H4]]]].
      exists e. unfold ctx_new. change (1 =? 0) with false. change (1 =? 1) with true. cbv iota.
      repeat split; try assumption.
      + intros _. exact H3.
      + intros ->. cbn [length] in Hge. lia.
      + intros _ _. exact H4.
    - destruct (new_order1_big t ltac:(lia) Hb Hn) as [e [H1 [H2 [H3 H4]]]].
      exists e. split.
      + unfold ctx_new. change (2 =? 0) with false. change (2 =? 1) with false. change (2 =? 2) with true.
        cbv iota. unfold new_order2.
        replace (length t <? 3)%nat with true by (symmetry; apply Nat.ltb_lt; lia). exact H1.
      + repeat split; try assumption.
        * intros _. exact H3.
        * intros ->. cbn [length] in Heq. lia.
        * intros _ _. exact H4.
    - destruct (new_order2_big t Hge Hb Hn) as [e [H1 [H2 [H3 H4]]]].
      exists e. unfold ctx_new. change (2 =? 0) with false. change (2 =? 1) with false. change (2 =? 2) with true.
      cbv iota. repeat split; try assumption.
      + intros _. exact H3.
      + intros ->. cbn [length] in Hge. lia.
      + intros _ _. exact H4.
  Qed.

  Theorem ctx_new_roundtrip_sec : forall order t,
    order < 3 -> bytes_ok t -> N.of_nat (length t) * 100 < W32 ->
    exists e, ctx_new heap_of hm order t = Some e /\
      c_order e = built_order order (length t) /\
      forall d, bytes_ok d ->
        (* (a) lossless whenever encode accepts *)
        (forall b, ctx_encode e d = Some b -> ctx_decode e b (length d) = Some d) /\
        (* (b) orders 1 and 2 on at least two training bytes: encode accepts every payload *)
        ((2 <= length t)%nat -> order <> 0 ->
           exists b, ctx_encode e d = Some b /\ ctx_decode e b (length d) = Some d) /\
        (* (c) the interleaved coder (order-1 encoders only), every stream count *)
        (c_order e = 1 -> forall nst, (1 <= nst)%nat ->
           exists b, xn_encode e nst d = Some b /\ xn_decode e nst b (length d) = Some d).
  Proof.
    intros order t Ho Hb Hn.
    destruct (ctx_new_wf_sec order t Ho Hb Hn) as [e [He [Hord [Hwf [Hnil Hcov]]]]].
    exists e. split; [exact He|]. split; [exact Hord|]. intros d Hd.
    assert (Htot : (2 <= length t)%nat -> order <> 0 ->
                   wf_cenc e = true /\ c_trees e <> [] /\
                   forallb (fun p => (snd p <? length (c_trees e))%nat) (c_map e) = true).
    { intros H2 _. assert (Hw : wf_cenc e = true) by (apply Hwf; intros ->; cbn [length] in H2; lia).
      split; [exact Hw|]. unfold wf_cenc in Hw. apply andb_prop in Hw. destruct Hw as [Hw Hm].
      apply andb_prop in Hw. destruct Hw as [Hne _]. split; [|exact Hm].
      destruct (c_trees e); [discriminate|discriminate]. }
    split; [|split].
    - intros b Hbb. destruct t as [|x t].
      + rewrite (Hnil eq_refl) in *. destruct d as [|s d].
        * vm_compute in Hbb. injection Hbb as <-. reflexivity.
        * exfalso. unfold ctx_encode, ctx_encode_g in Hbb. cbn [ctx_bits] in Hbb.
          unfold sym_code in Hbb. cbn [c_order] in Hbb. rewrite ctx_key_nil in Hbb.
          unfold tree_at, empty_ht in Hbb. cbn [c_trees nth ht_codes] in Hbb.
          unfold get_code in Hbb. cbn [find] in Hbb. discriminate.
      + apply ctx_roundtrip_proof; [apply Hwf; discriminate|exact Hbb].
    - intros H2 H0. destruct (Htot H2 H0) as [Hw [Hne Hm]].
      destruct (ctx_encode_total_proof e d Hne Hm (Hcov H2 H0) Hd) as [b Hbb].
      exists b. split; [exact Hbb|]. now apply ctx_roundtrip_proof.
    - intros H1 nst Hnst.
      assert (H2 : (2 <= length t)%nat /\ order <> 0).
      { rewrite Hord in H1.
        destruct (built_order_cases order (length t) Ho)
          as [[-> Hbo]|[[Hne [Hlt Hbo]]|[[-> [Hge Hbo]]|[[-> [Heq Hbo]]|[-> [Hge Hbo]]]]]];
          rewrite Hbo in H1; try discriminate; split; lia. }
      destruct H2 as [H2 H0]. destruct (Htot H2 H0) as [Hw [Hne Hm]].
      destruct (xn_encode_total_proof e nst d H1 Hne Hm (Hcov H2 H0) Hd Hnst) as [b Hbb].
      exists b. split; [exact Hbb|]. now apply xn_roundtrip_proof.
  Qed.
End New.

Definition heap_any (heap_of : list N -> tree) : Prop :=
  forall fr, present fr <> [] -> heap_run (map Leaf (present fr)) (heap_of fr).
Definition hm_any (hm : cfreqs -> cfreqs) : Prop := forall l, Permutation (hm l) l.

Theorem ctx_new_wf_proof : forall heap_of hm, heap_any heap_of -> hm_any hm ->
  forall order t, order < 3 -> bytes_ok t -> N.of_nat (length t) * 100 < W32 ->
  exists e, ctx_new heap_of hm order t = Some e /\
    c_order e = built_order order (length t) /\
    (t <> [] -> wf_cenc e = true) /\
    (t = [] -> e = mkC 0 [empty_ht] [(0, 0%nat)]) /\
    ((2 <= length t)%nat -> order <> 0 -> forall ht, In ht (c_trees e) -> covers_bytes ht).
Proof. intros heap_of hm H1 H2. exact (ctx_new_wf_sec heap_of hm H1 H2). Qed.

Theorem ctx_new_roundtrip_proof : forall heap_of hm, heap_any heap_of -> hm_any hm ->
  forall order t, order < 3 -> bytes_ok t -> N.of_nat (length t) * 100 < W32 ->
  exists e, ctx_new heap_of hm order t = Some e /\
    c_order e = built_order order (length t) /\
    forall d, bytes_ok d ->
      (forall b, ctx_encode e d = Some b -> ctx_decode e b (length d) = Some d) /\
      ((2 <= length t)%nat -> order <> 0 ->
         exists b, ctx_encode e d = Some b /\ ctx_decode e b (length d) = Some d) /\
      (c_order e = 1 -> forall nst, (1 <= nst)%nat ->
         exists b, xn_encode e nst d = Some b /\ xn_decode e nst b (length d) = Some d).
Proof. intros heap_of hm H1 H2. exact (ctx_new_roundtrip_sec heap_of hm H1 H2). Qed.

(* ---- the hypotheses are inhabited: a heap that always merges the first two nodes, any hm_of ---- *)
Definition heap_left (fr : list N) : tree :=
  match present fr with
  | [] => Hole
  | s :: rest => fold_left (fun acc x => Node acc (Leaf x)) rest (Leaf s)
  end.
Lemma heap_left_run : forall rest T,
  heap_run (T :: map Leaf rest) (fold_left (fun acc x => Node acc (Leaf x)) rest T).
Proof.
  induction rest as [|s r IH]; intros T; cbn [map fold_left]; [apply heap_done|].
  apply heap_merge with (l' := map Leaf r) (a := T) (b := Leaf s); [reflexivity|apply IH].
Qed.
Lemma heap_left_any : heap_any heap_left.
Proof.
  intros fr Hne. unfold heap_left. destruct (present fr) as [|s rest]; [congruence|]. cbn [map].
  apply heap_left_run.
Qed.
Lemma hm_of_any order keys : hm_any (hm_of order keys).
Proof. intros l. apply hm_of_perm_proof. Qed.
Lemma hm_id_any : hm_any (fun l => l).
Proof. intros l. reflexivity. Qed.

Example ex_ctx_new_wf : exists e,
  ctx_new heap_left (hm_of 1 [98; 97]) 1 [97; 98; 97; 98; 99] = Some e /\
  c_order e = 1 /\ wf_cenc e = true /\ c_map e = [(98, 1%nat); (97, 2%nat)].
Proof. eexists. split; [vm_compute; reflexivity|]. vm_compute. repeat split; reflexivity. Qed.
(* order 0: the heap's own tree is used *)
Example ex_ctx_new_order0 :
  ctx_new heap_left (fun l => l) 0 [97; 98; 97; 99] =
  Some (mkC 0 [mkHT (Some (Node (Node (Leaf 97) (Leaf 98)) (Leaf 99)))
                    [(97, [false; false]); (98, [false; true]); (99, [true])]] [(0, 0%nat)]).
Proof. vm_compute. reflexivity. Qed.
Example ex_ctx_new_roundtrip : forall d, bytes_ok d -> exists e b,
  ctx_new heap_left (fun l => l) 2 [97; 98; 97; 98; 97; 99] = Some e /\ c_order e = 2 /\
  ctx_encode e d = Some b /\ ctx_decode e b (length d) = Some d.
Proof.
  intros d Hd.
  destruct (ctx_new_roundtrip_proof heap_left (fun l => l) heap_left_any hm_id_any 2 [97; 98; 97; 98; 97; 99])
    as [e [He [Ho H]]].
  - lia.
  - unfold bytes_ok. repeat constructor; unfold is_byte; lia.
  - vm_compute. reflexivity.
  - destruct (H d Hd) as [_ [Hb _]]. destruct Hb as [b [H1 H2]]; [cbn [length]; lia|lia|].
    exists e, b. repeat split; assumption.
Qed.
(* an order-1 request on one byte gives an order-0 encoder; it still round-trips what it accepts *)
Example ex_ctx_new_short : exists e, ctx_new heap_left (fun l => l) 1 [97] = Some e /\ c_order e = 0 /\
  ctx_encode e [97; 97] = Some [0] /\ ctx_encode e [98] = None.
Proof. eexists. split; [vm_compute; reflexivity|]. vm_compute. repeat split; reflexivity. Qed.

(* ------------------------------------------------------------------ *)
(* order 2: what the sort / reverse / take(1024) keeps                 *)
(* ------------------------------------------------------------------ *)
Fixpoint ssorted {A} (l : list (N * A)) : Prop :=
  match l with
  | [] => True
  | x :: t => Forall (fun y => fst x <= fst y) t /\ ssorted t
  end.
Lemma ins_stable_sorted {A} (x : N * A) l : ssorted l -> ssorted (ins_stable x l).
Proof.
  induction l as [|y t IH]; intros Hs; cbn [ins_stable].
  - cbn [ssorted]. split; [constructor|exact I].
  - destruct Hs as [Hy Ht]. destruct (N.leb_spec (fst x) (fst y)) as [Hle|Hgt].
    + cbn [ssorted]. split; [|split; assumption]. constructor; [exact Hle|].
      revert Hy. apply Forall_impl. intros z Hz. lia.
    + cbn [ssorted]. split; [|now apply IH].
      apply (Permutation_Forall (Permutation_sym (ins_stable_perm x t))). constructor; [lia|exact Hy].
Qed.
Lemma sort_stable_sorted {A} (l : list (N * A)) : ssorted (sort_stable l).
Proof. induction l as [|x t IH]; cbn [sort_stable]; [exact I|now apply ins_stable_sorted]. Qed.
Lemma in_skipn {A} (x : A) n l : In x (skipn n l) -> In x l.
Proof. intros H. rewrite <- (firstn_skipn n l). apply in_or_app. now right. Qed.
Lemma sorted_split {A} : forall (l : list (N * A)) j p q, ssorted l ->
  In p (firstn j l) -> In q (skipn j l) -> fst p <= fst q.
Proof.
  induction l as [|x t IH]; intros j p q Hs Hp Hq.
  - destruct j; destruct Hp.
  - destruct j as [|j]; [destruct Hp|]. cbn [firstn skipn] in Hp, Hq. destruct Hs as [Hx Ht].
    destruct Hp as [<-|Hp].
    + rewrite Forall_forall in Hx. apply Hx. now apply in_skipn with j.
    + now apply IH with j.
Qed.

(* the contexts that get a tree are min(1024, number of contexts) many, and none of those left out has a
   larger total than one that was kept *)
Theorem order2_cut_proof : forall cs n, cf_inv n cs -> n < W32 ->
  exists top rest, select_top cs = Some top /\
    length top = Nat.min 1024 (length cs) /\ Permutation cs (top ++ rest) /\
    forall p q, In p top -> In q rest -> sumN (snd q) <= sumN (snd p).
Proof.
  intros cs n Hinv Hn. destruct (with_totals_ok cs n Hinv Hn) as [ks [Hk [Hmap Hall]]].
  pose proof (sort_stable_perm ks) as Hperm. pose proof (sort_stable_sorted ks) as Hsorted.
  set (S := sort_stable ks) in *. set (k := Nat.min 1024 (length (rev S))).
  assert (Hlen : length (rev S) = length cs).
  { rewrite rev_length, (Permutation_length Hperm), <- Hmap. now rewrite map_length. }
  exists (map snd (firstn k (rev S))), (map snd (skipn k (rev S))).
  split; [unfold select_top; rewrite Hk; reflexivity|]. split; [|split].
  - rewrite map_length, firstn_length. unfold k. rewrite Hlen. lia.
  - rewrite <- map_app, firstn_skipn, <- Hmap. apply Permutation_map.
    rewrite <- Hperm. apply Permutation_rev.
  - intros p q Hp Hq. apply in_map_iff in Hp. destruct Hp as [p' [<- Hp]].
    apply in_map_iff in Hq. destruct Hq as [q' [<- Hq]].
    rewrite firstn_rev in Hp. rewrite skipn_rev in Hq. apply in_rev in Hp. apply in_rev in Hq.
    pose proof (sorted_split S _ q' p' Hsorted Hq Hp) as Hle.
    rewrite Forall_forall in Hall.
    assert (Hp' : In p' ks) by (apply (Permutation_in p' Hperm); now apply in_skipn in Hp).
    assert (Hq' : In q' ks) by (apply (Permutation_in q' Hperm); now apply in_firstn in Hq).
    rewrite <- (Hall p' Hp'), <- (Hall q' Hq'). exact Hle.
Qed.

(* ---- the same on the encoder new_order2 returns: its context_map holds exactly the selected contexts ---- *)
Lemma ctx_bump_keys : forall m k s m', ctx_bump k s m = Some m' ->
  (In k (map fst m) /\ map fst m' = map fst m) \/ (~ In k (map fst m) /\ map fst m' = map fst m ++ [k]).
Proof.
  induction m as [|[k' fr] rest IH]; intros k s m' H; cbn [ctx_bump] in H.
  - destruct (bump s zeros256); [|discriminate]. injection H as <-. right. split; [intros []|reflexivity].
  - destruct (N.eqb_spec k' k) as [->|Hne].
    + destruct (bump s fr); [|discriminate]. injection H as <-. left. split; [now left|reflexivity].
    + destruct (ctx_bump k s rest) as [r|] eqn:Hr; [|discriminate]. injection H as <-. cbn [map fst].
      destruct (IH k s r Hr) as [[Hin Heq]|[Hnin Heq]].
      * left. split; [now right|now rewrite Heq].
      * right. split; [intros [Hc|Hc]; [congruence|contradiction]|now rewrite Heq].
Qed.
Lemma ctx_bump_nodup m k s m' : NoDup (map fst m) -> ctx_bump k s m = Some m' -> NoDup (map fst m').
Proof.
  intros Hnd H. destruct (ctx_bump_keys m k s m' H) as [[_ ->]|[Hnin ->]]; [exact Hnd|].
  apply (Permutation_NoDup (Permutation_cons_append (map fst m) k)). now constructor.
Qed.
Lemma ctx2_go_nodup : forall d p2 p1 m m', NoDup (map fst m) -> ctx2_go p2 p1 d m = Some m' -> NoDup (map fst m').
Proof.
  induction d as [|s t IH]; intros p2 p1 m m' Hnd H; cbn [ctx2_go] in H.
  - now injection H as <-.
  - destruct (ctx_bump (p2 * 256 + p1) (N.to_nat s) m) as [m1|] eqn:H1; [|discriminate].
    apply (IH p1 s m1 m'); [now apply ctx_bump_nodup in H1|exact H].
Qed.
Lemma ctx2_counts_nodup d m : ctx2_counts d = Some m -> NoDup (map fst m).
Proof.
  unfold ctx2_counts. destruct d as [|p2 [|p1 t]]; intros H; try (injection H as <-; constructor).
  apply (ctx2_go_nodup t p2 p1 [] m); [constructor|exact H].
Qed.
Lemma NoDup_app_l {A} (a b : list A) : NoDup (a ++ b) -> NoDup a.
Proof.
  induction a as [|x a IH]; intros H; [constructor|]. cbn [app] in H. inversion H as [|? ? Hn Hr]; subst.
  constructor; [|now apply IH]. intros Hc. apply Hn. apply in_or_app. now left.
Qed.
Lemma map_insert_keys k v : forall m, ~ In k (map fst m) -> map fst (cmap_insert k v m) = map fst m ++ [k].
Proof.
  induction m as [|[k' v'] rest IH]; intros Hn; cbn [cmap_insert]; [reflexivity|].
  cbn [map fst] in Hn. destruct (N.eqb_spec k' k) as [->|Hne]; [exfalso; apply Hn; now left|].
  cbn [map fst app]. rewrite IH; [reflexivity|]. intros Hc. apply Hn. now right.
Qed.
Lemma build_go_keys heap_of o0 : length o0 = 256%nat -> forall cs trees cmap trees' cmap',
  cs_ok cs -> NoDup (map fst cmap ++ map fst cs) ->
  build_go heap_of o0 cs trees cmap = Some (trees', cmap') -> map fst cmap' = map fst cmap ++ map fst cs.
Proof.
  intros Ho. induction cs as [|[k cf] rest IH]; intros trees cmap trees' cmap' Hcs Hnd H; cbn [build_go] in H.
  - injection H as _ <-. cbn [map]. now rewrite app_nil_r.
  - inversion Hcs as [|? ? [Hl Hc] Hrest]; subst. cbn [snd] in Hl, Hc.
    destruct (merge_freqs_ok cf o0 ltac:(lia) Hc) as [mf [Hmf [Hlm Hpm]]]. rewrite Hmf in H.
    destruct (present_go_pos mf Hpm 0) as [Hpl _]. fold (present mf) in Hpl.
    replace (0 <? length (present mf))%nat with true in H by (symmetry; apply Nat.ltb_lt; lia).
    destruct (from_freqs heap_of mf) as [ht|]; [|discriminate].
    cbn [map fst] in Hnd. pose proof (NoDup_remove_2 _ _ _ Hnd) as Hnin.
    assert (Hk : ~ In k (map fst cmap)) by (intros Hc'; apply Hnin; apply in_or_app; now left).
    assert (Hnd' : NoDup (map fst (cmap_insert k (length trees) cmap) ++ map fst rest)).
    { rewrite map_insert_keys by exact Hk. rewrite <- app_assoc. exact Hnd. }
    rewrite (IH _ _ _ _ Hrest Hnd' H). rewrite map_insert_keys by exact Hk.
    cbn [map fst]. rewrite <- app_assoc. reflexivity.
Qed.

Theorem order2_map_proof : forall heap_of hm, heap_any heap_of -> hm_any hm ->
  forall t, (3 <= length t)%nat -> bytes_ok t -> N.of_nat (length t) * 100 < W32 ->
  exists e m top rest, ctx_new heap_of hm 2 t = Some e /\ ctx2_counts t = Some m /\
    NoDup (map fst m) /\ Permutation m (top ++ rest) /\
    map fst (c_map e) = map fst top /\ length (c_map e) = Nat.min 1024 (length m) /\
    forall p q, In p top -> In q rest -> sumN (snd q) <= sumN (snd p).
Proof.
  intros heap_of hm Hheap Hhm t Hlen Hb Hn.
  unfold ctx_new. change (2 =? 0) with false. change (2 =? 1) with false. change (2 =? 2) with true. cbv iota.
  unfold new_order2.
  replace (length t <? 3)%nat with false by (symmetry; apply Nat.ltb_ge; exact Hlen).
  destruct (count_bytes_ok t Hb ltac:(lia)) as [c0 [Hc [Hl _]]]. rewrite Hc. cbv zeta.
  destruct (from_freqs_full heap_of Hheap (fill_ones c0)) as [t0 [Ht0 Hok]];
    [rewrite fill_ones_len; exact Hl|apply fill_ones_pos|]. rewrite Ht0.
  destruct (ctx2_counts_ok t Hb ltac:(lia)) as [m [Hm Hinv]]. rewrite Hm.
  assert (Hinv' : cf_inv (N.of_nat (length t)) (hm m)).
  { unfold cf_inv. apply (Permutation_Forall (Permutation_sym (Hhm m))). exact Hinv. }
  destruct (order2_cut_proof (hm m) _ Hinv' ltac:(lia)) as [top [rest [Hs [Hlt [Hp Hcut]]]]]. rewrite Hs.
  assert (Hnd : NoDup (map fst m)) by (now apply ctx2_counts_nodup with t).
  assert (Hpm : Permutation m (top ++ rest)) by (rewrite <- Hp; symmetry; apply Hhm).
  assert (Hndt : NoDup (map fst top)).
  { apply NoDup_app_l with (map fst rest). rewrite <- map_app.
    apply (Permutation_NoDup (Permutation_map fst Hpm) Hnd). }
  assert (Hcs : cs_ok top).
  { pose proof (cf_inv_cs_ok _ _ Hn Hinv') as Hall. unfold cs_ok in *.
    rewrite Forall_forall in Hall. apply Forall_forall. intros p Hin. apply Hall.
    apply (Permutation_in p (Permutation_sym Hp)). apply in_or_app. now left. }
  assert (Ho : length (fill_ones c0) = 256%nat) by (rewrite fill_ones_len; exact Hl).
  unfold finish.
  destruct (build_go_ok heap_of hm Hheap Hhm (fill_ones c0) Ho top [t0] [] Hcs) as [trees [cmap [H1 _]]].
  { constructor; [exact Hok|constructor]. }
  { constructor. }
  rewrite H1. pose proof (build_go_keys heap_of _ Ho top [t0] [] trees cmap Hcs Hndt H1) as Hkeys. cbn [map app] in Hkeys.
  exists (mkC 2 trees cmap), m, top, rest. cbn [c_map c_trees].
  split; [reflexivity|]. split; [reflexivity|]. split; [exact Hnd|]. split; [exact Hpm|].
  split; [exact Hkeys|].
  assert (Hlc : length cmap = length top) by (rewrite <- (map_length fst cmap), Hkeys; apply map_length).
  split; [rewrite Hlc, Hlt, (Permutation_length (Hhm m)); reflexivity|exact Hcut].
Qed.

(* ties: the stable sort keeps 1 before 2, the reversal puts 2 first *)
Example ex_select_top :
  select_top [(1, [2; 0]); (2, [1; 1]); (3, [5; 0])] = Some [(3, [5; 0]); (2, [1; 1]); (1, [2; 0])].
Proof. vm_compute. reflexivity. Qed.
Example ex_order2_map : exists e m,
  ctx_new heap_left (hm_of 2 [25185; 24930]) 2 [97; 98; 97; 98; 97; 99] = Some e /\
  c_map e = [(25185, 1%nat); (24930, 2%nat)] /\
  ctx2_counts [97; 98; 97; 98; 97; 99] = Some m /\ map (fun p => (fst p, sumN (snd p))) m = [(24930, 2); (25185, 2)].
Proof. eexists. eexists. split; [vm_compute; reflexivity|]. vm_compute. repeat split; reflexivity. Qed.
