(* C01: HuffmanTree::serialize / deserialize.  What deserialize reads from serialize's bytes is the same code
   table (for every order in which the HashMaps are iterated), and a decoder built on the copy decodes what
   the original encoder wrote. *)
From ZV.Common Require Import Base.
From Coq Require Import Permutation.
From ZV.C01 Require Import Model ModelCtx ModelSer ProofsBits ProofsHuff ProofsTree ProofsCtx.
Open Scope N_scope.

Lemma pack_length c : length (pack c) = ((length c + 7) / 8)%nat.
Proof.
  pose proof (f_equal (@length bool) (pack_unpack_proof c)) as H.
  rewrite unpack_length, app_length, repeat_length in H. unfold pad_len in H. lia.
Qed.

Lemma firstn_app_exact {A} (a b : list A) : firstn (length a) (a ++ b) = a.
Proof. rewrite firstn_app, Nat.sub_diag, firstn_all. cbn [firstn]. apply app_nil_r. Qed.

(* reading one code back *)
Lemma read_code c tl : (0 < length c)%nat -> (length c < 256)%nat ->
  let len := N.of_nat (length c) mod 256 in
  (len =? 0) = false /\ (length (pack c ++ tl) <? code_bytes len)%nat = false /\
  firstn (N.to_nat len) (unpack (firstn (code_bytes len) (pack c ++ tl))) = c /\
  skipn (code_bytes len) (pack c ++ tl) = tl.
Proof.
  intros Hpos Hlt len.
  assert (Hlen : len = N.of_nat (length c)) by (unfold len; rewrite N.mod_small; lia).
  assert (Hcb : code_bytes len = length (pack c)).
  { unfold code_bytes. rewrite Hlen, Nat2N.id. symmetry. apply pack_length. }
  rewrite Hcb. split; [apply N.eqb_neq; lia|]. split; [apply Nat.ltb_ge; rewrite app_length; lia|].
  split.
  - rewrite firstn_app_exact, pack_unpack_proof, Hlen, Nat2N.id. apply firstn_app_exact.
  - apply skipn_app_exact.
Qed.

(* HashMap insert of a new key *)
Lemma kv_insert_fresh {B} (m : list (N * B)) k v :
  existsb (fun p => fst p =? k) m = false -> kv_insert m k v = m ++ [(k, v)].
Proof.
  induction m as [|[k' v'] m IH]; intros H; [reflexivity|].
  cbn [existsb fst] in H. apply orb_false_iff in H. destruct H as [H1 H2].
  cbn [kv_insert app]. rewrite H1, IH by exact H2. reflexivity.
Qed.
Lemma nodup_keys_mid {B} (a : list (N * B)) k v t :
  nodup_keys (a ++ (k, v) :: t) = true ->
  existsb (fun p => fst p =? k) a = false /\ nodup_keys ((a ++ [(k, v)]) ++ t) = true.
Proof.
  intros H. split.
  - induction a as [|[k' v'] a IH]; [reflexivity|].
    cbn [app nodup_keys] in H. apply andb_true_iff in H. destruct H as [H1 H2].
    cbn [existsb fst]. rewrite (IH H2), orb_false_r.
    apply negb_true_iff in H1. rewrite existsb_app in H1. apply orb_false_iff in H1. destruct H1 as [_ H1].
    cbn [existsb fst] in H1. apply orb_false_iff in H1. destruct H1 as [H1 _].
    now rewrite N.eqb_sym.
  - now rewrite <- app_assoc.
Qed.

Definition entry_ok (e : N * list bool) : bool :=
  (fst e <? 256) && (0 <? length (snd e))%nat && (length (snd e) <? 256)%nat.

Lemma deser_entries_ser : forall tb acc tl,
  nodup_keys (acc ++ tb) = true -> forallb entry_ok tb = true ->
  deser_entries (length tb) (flat_map ser_entry tb ++ tl) acc = Some (acc ++ tb).
Proof.
  induction tb as [|[s c] tb IH]; intros acc tl Hnd Hok.
  - cbn [length deser_entries]. now rewrite app_nil_r.
  - cbn [forallb] in Hok. apply andb_true_iff in Hok. destruct Hok as [He Hok].
    unfold entry_ok in He. cbn [fst snd] in He.
    apply andb_true_iff in He. destruct He as [He H256]. apply andb_true_iff in He. destruct He as [_ Hpos].
    apply Nat.ltb_lt in Hpos. apply Nat.ltb_lt in H256.
    destruct (nodup_keys_mid acc s c tb Hnd) as [Hfresh Hnd'].
    cbn [length flat_map deser_entries]. unfold ser_entry at 1. cbn [fst snd app].
    rewrite <- app_assoc.
    destruct (read_code c (flat_map ser_entry tb ++ tl) Hpos H256) as [H0 [Hshort [Hcode Hskip]]].
    cbv zeta in H0, Hshort, Hcode, Hskip.
    rewrite H0, Hshort, Hcode, Hskip. unfold tb_insert. rewrite kv_insert_fresh by exact Hfresh.
    rewrite IH by assumption. now rewrite <- app_assoc.
Qed.

Lemma le16_value v : v < 65536 -> v mod 65536 mod 256 + 256 * ((v mod 65536 / 256) mod 256) = v.
Proof. intros H. lia. Qed.

(* deserialize(serialize(codes)) reads the same table back; what is built from it is
   build_decoding_tree_from_codes of that table in the new HashMap's order.  Bytes behind the table are ignored. *)
Theorem ht_deserialize_serialize_proof : forall hm tb extra, ser_ok tb = true ->
  ht_deserialize hm (ht_serialize tb ++ extra) =
  match build_root (hm tb) with Some r => Some (mkHT r tb) | None => None end.
Proof.
  intros hm tb extra Hok. unfold ser_ok in Hok.
  apply andb_true_iff in Hok. destruct Hok as [Hok Hall]. apply andb_true_iff in Hok. destruct Hok as [Hnd Hlen].
  apply N.ltb_lt in Hlen.
  unfold ht_serialize, le16, ht_deserialize. cbn [app].
  rewrite le16_value by exact Hlen. rewrite Nat2N.id.
  rewrite (deser_entries_ser tb [] extra); [reflexivity|exact Hnd|exact Hall].
Qed.

(* ------------------------------------------------------------------ *)
(* permutations of a table                                              *)
(* ------------------------------------------------------------------ *)
Lemma prefix_free_perm tb tb' : Permutation tb tb' -> prefix_free tb = true -> prefix_free tb' = true.
Proof.
  induction 1 as [|[s c] l l' Hp IH|[s1 c1] [s2 c2] l|l1 l2 l3 H1 IH1 H2 IH2]; intros Hpf.
  - reflexivity.
  - cbn [prefix_free] in *. apply andb_true_iff in Hpf. destruct Hpf as [Hpf Hr].
    apply andb_true_iff in Hpf. destruct Hpf as [Hne Hall].
    rewrite Hne, (IH Hr), andb_true_r. cbn [andb].
    apply forallb_forall. intros e He. rewrite forallb_forall in Hall. apply Hall.
    apply Permutation_in with l'; [now symmetry|exact He].
  - cbn [prefix_free forallb snd] in *. rewrite !andb_true_iff in *. tauto.
  - auto.
Qed.
Lemma wf_ht_perm r tb tb' : Permutation tb tb' -> wf_ht (mkHT r tb) = true -> wf_ht (mkHT r tb') = true.
Proof.
  intros Hp. unfold wf_ht. cbn [ht_root ht_codes].
  assert (Hall : forall f, forallb f tb = true -> forallb f tb' = true).
  { intros f H. apply forallb_forall. intros e He. rewrite forallb_forall in H. apply H.
    apply Permutation_in with tb'; [now symmetry|exact He]. }
  destruct r as [[s| |l r]|]; try apply Hall; try (intros; assumption).
  destruct tb; [|discriminate]. apply Permutation_nil in Hp. now subst.
Qed.

(* deserialize succeeds on the serialisation of every prefix-free table, and the copy is well-formed *)
Lemma deserialized_wf hm tb : (forall t, Permutation (hm t) t) -> ser_ok tb = true -> prefix_free tb = true ->
  exists r, build_root (hm tb) = Some r /\ wf_ht (mkHT r tb) = true /\ (tb <> [] -> r <> None).
Proof.
  intros Hhm Hok Hpf. destruct tb as [|e tb].
  - pose proof (Hhm []) as Hp. apply Permutation_sym, Permutation_nil in Hp. rewrite Hp.
    exists None. repeat split. intros H. congruence.
  - set (tb0 := e :: tb) in *.
    destruct (build_root_wf_proof (hm tb0)) as [t [Hb Hw]].
    + apply prefix_free_perm with tb0; [symmetry; apply Hhm|exact Hpf].
    + intros Hnil. pose proof (Hhm tb0) as Hp. rewrite Hnil in Hp. apply Permutation_nil in Hp. discriminate.
    + exists (Some t). split; [exact Hb|]. split; [|discriminate].
      apply wf_ht_perm with (hm tb0); [apply Hhm|exact Hw].
Qed.

(* a HuffmanDecoder on deserialize(serialize(tree)) decodes what the HuffmanEncoder on the original tree
   wrote - for every order in which serialize lists the codes (the table's list order) and every order in
   which deserialize's tree builder visits them (hm) *)
Theorem ht_serialized_decodes_proof : forall hm ht d b,
  (forall t, Permutation (hm t) t) ->
  ser_ok (ht_codes ht) = true -> prefix_free (ht_codes ht) = true ->
  huff_encode ht d = Some b ->
  exists ht', ht_deserialize hm (ht_serialize (ht_codes ht)) = Some ht' /\
              ht_codes ht' = ht_codes ht /\ wf_ht ht' = true /\
              huff_decode ht' b (length d) = Some d.
Proof.
  intros hm ht d b Hhm Hok Hpf Henc.
  destruct (deserialized_wf hm (ht_codes ht) Hhm Hok Hpf) as [r [Hb [Hw _]]].
  exists (mkHT r (ht_codes ht)).
  pose proof (ht_deserialize_serialize_proof hm (ht_codes ht) [] Hok) as Hd.
  rewrite app_nil_r, Hb in Hd. split; [exact Hd|]. split; [reflexivity|]. split; [exact Hw|].
  apply huff_roundtrip_proof; [exact Hw|]. exact Henc.
Qed.

(* the codes generate_codes writes for a tree with at least two leaves are prefix-free whenever no symbol
   occurs twice: the hypothesis of the theorem above holds for what from_frequencies builds *)
Lemma walk_app t : forall a b t', walk t a = Some t' -> walk t (a ++ b) = walk t' b.
Proof.
  intros a. revert t. induction a as [|x a IH]; intros t b t' H.
  - cbn [walk] in H. injection H as <-. reflexivity.
  - cbn [app walk] in *. destruct t; try discriminate. now apply IH.
Qed.
Lemma is_prefix_app a : forall b, is_prefix a b = true -> exists suf, b = a ++ suf.
Proof.
  induction a as [|x a IH]; intros b H; [now exists b|].
  destruct b as [|y b]; [discriminate|]. cbn [is_prefix] in H. apply andb_true_iff in H.
  destruct H as [Hxy H]. apply eqb_prop in Hxy. subst y. destruct (IH b H) as [suf ->]. now exists suf.
Qed.
Lemma wf_node_prefix_free l r : forall tb,
  wf_ht (mkHT (Some (Node l r)) tb) = true -> nodup_keys tb = true -> prefix_free tb = true.
Proof.
  induction tb as [|[s c] tb IH]; intros Hwf Hnd; [reflexivity|].
  unfold wf_ht in Hwf. cbn [ht_root ht_codes forallb fst snd] in Hwf.
  apply andb_true_iff in Hwf. destruct Hwf as [Hsc Hrest].
  apply andb_true_iff in Hsc. destruct Hsc as [Hwalk Hne].
  apply tree_eqb_leaf_true in Hwalk.
  cbn [nodup_keys] in Hnd. apply andb_true_iff in Hnd. destruct Hnd as [Hfresh Hnd].
  apply negb_true_iff in Hfresh.
  cbn [prefix_free]. rewrite Hne. cbn [andb]. apply andb_true_iff. split.
  - apply forallb_forall. intros [s2 c2] He. cbn [snd].
    rewrite forallb_forall in Hrest. pose proof (Hrest _ He) as H2. cbn [fst snd] in H2.
    apply andb_true_iff in H2. destruct H2 as [Hw2 Hne2]. apply tree_eqb_leaf_true in Hw2.
    assert (Hs : s2 <> s).
    { intros ->. assert (Hx : existsb (fun p => fst p =? s) tb = true).
      { apply existsb_exists. exists (s, c2). split; [exact He|]. cbn [fst]. apply N.eqb_refl. }
      congruence. }
    apply andb_true_iff. split; apply negb_true_iff.
    + destruct (is_prefix c c2) eqn:Hp; [|reflexivity]. exfalso.
      destruct (is_prefix_app _ _ Hp) as [suf ->]. rewrite (walk_app _ _ _ _ Hwalk) in Hw2.
      destruct suf; cbn [walk] in Hw2; [|discriminate]. injection Hw2 as Hx. congruence.
    + destruct (is_prefix c2 c) eqn:Hp; [|reflexivity]. exfalso.
      destruct (is_prefix_app _ _ Hp) as [suf ->]. rewrite (walk_app _ _ _ _ Hw2) in Hwalk.
      destruct suf; cbn [walk] in Hwalk; [|discriminate]. injection Hwalk as Hx. congruence.
  - apply IH; [|exact Hnd]. unfold wf_ht. cbn [ht_root ht_codes]. exact Hrest.
Qed.
Lemma wf_prefix_free ht : wf_ht ht = true -> nodup_keys (ht_codes ht) = true -> prefix_free (ht_codes ht) = true.
Proof.
  destruct ht as [[[s| |l r]|] tb]; intros Hwf Hnd.
  - (* single leaf: at most one entry *)
    unfold wf_ht in Hwf. cbn [ht_root ht_codes] in *.
    destruct tb as [|[s1 c1] [|[s2 c2] tb]]; [reflexivity| |].
    + cbn [forallb fst snd] in Hwf. cbn [prefix_free forallb].
      apply andb_true_iff in Hwf. destruct Hwf as [Hwf _]. apply andb_true_iff in Hwf. destruct Hwf as [_ Hne].
      now rewrite Hne.
    + exfalso. cbn [forallb fst snd] in Hwf.
      apply andb_true_iff in Hwf. destruct Hwf as [H1 Hwf]. apply andb_true_iff in Hwf. destruct Hwf as [H2 _].
      apply andb_true_iff in H1. destruct H1 as [H1 _]. apply andb_true_iff in H2. destruct H2 as [H2 _].
      apply N.eqb_eq in H1. apply N.eqb_eq in H2. subst.
      cbn [nodup_keys existsb fst] in Hnd. rewrite N.eqb_refl in Hnd. discriminate.
  - discriminate.
  - now apply wf_node_prefix_free with l r.
  - unfold wf_ht in Hwf. cbn [ht_root ht_codes] in *. destruct tb; [reflexivity|discriminate].
Qed.

(* the statement for the objects that exist: a tree / table pair that agree (every HuffmanTree) *)
Theorem tree_serialized_decodes_proof : forall hm ht d b,
  (forall t, Permutation (hm t) t) -> wf_ht ht = true -> ser_ok (ht_codes ht) = true ->
  huff_encode ht d = Some b ->
  exists ht', ht_deserialize hm (ht_serialize (ht_codes ht)) = Some ht' /\ huff_decode ht' b (length d) = Some d.
Proof.
  intros hm ht d b Hhm Hwf Hok Henc.
  assert (Hnd : nodup_keys (ht_codes ht) = true).
  { unfold ser_ok in Hok. apply andb_true_iff in Hok. destruct Hok as [Hok _].
    apply andb_true_iff in Hok. now destruct Hok. }
  destruct (ht_serialized_decodes_proof hm ht d b Hhm Hok (wf_prefix_free ht Hwf Hnd) Henc) as [ht' [H1 [_ [_ H2]]]].
  now exists ht'.
Qed.

Example ex_ser : ht_serialize (ht_codes ex_ht) = [3; 0; 97; 1; 0; 98; 2; 1; 99; 2; 3].
Proof. reflexivity. Qed.
Example ex_ser_ok : ser_ok (ht_codes ex_ht) = true /\ prefix_free (ht_codes ex_ht) = true /\
  exists ht', ht_deserialize hm_id (ht_serialize (ht_codes ex_ht)) = Some ht' /\
              huff_decode ht' [122] 5 = Some [97; 98; 99; 99; 97].
Proof. split; [reflexivity|]. split; [reflexivity|]. eexists. split; reflexivity. Qed.
