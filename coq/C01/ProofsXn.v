(* C01: the N-way interleaved order-1 coder: decode_one_symbol against the bit view, chunk boundaries,
   encoder and decoder in lock step, round trip. *)
From ZV.Common Require Import Base.
From ZV.C01 Require Import Model ModelCtx ProofsBits ProofsHuff ProofsTree ProofsIO ProofsCtx.
Open Scope N_scope.

(* ------------------------------------------------------------------ *)
(* one symbol through the reader                                       *)
(* ------------------------------------------------------------------ *)
Lemma reader_step r b bs : rrep r (b :: bs) ->
  let r1 := if r_cnt r =? 0 then r_refill r else r in
  (r_cnt r1 =? 0) = false /\ N.odd (r_peek r1 1) = b /\
  exists r2, r_consume r1 1 = Some r2 /\ rrep r2 bs.
Proof.
  intros Hr r1.
  assert (Hr1 : rrep r1 (b :: bs) /\ r_cnt r1 <> 0).
  { unfold r1. destruct (N.eqb_spec (r_cnt r) 0) as [Hz|Hz].
    - destruct (r_refill_rep r _ Hr) as [Hrr Hend]. split; [exact Hrr|].
      intros H0. rewrite H0 in Hend. specialize (Hend ltac:(lia)). cbn [length] in Hend. lia.
    - split; assumption. }
  destruct Hr1 as [Hr1 Hnz]. split; [now apply N.eqb_neq|].
  assert (H1 : N.of_nat 1 <= r_cnt r1) by lia.
  split.
  - change 1 with (N.of_nat 1). rewrite (r_peek_spec _ _ 1 Hr1 H1). cbn [firstn n_of_bits].
    apply odd_b2n_add.
  - change 1 with (N.of_nat 1). destruct (r_consume_rep _ _ 1 Hr1 H1) as [r2 [Hc Hr2]].
    exists r2. split; [exact Hc|exact Hr2].
Qed.

Lemma walk_r_spec t : forall r V s V', rrep r V -> dns_walk t V = Some (s, V') ->
  exists r', walk_r t r = Some (s, r') /\ rrep r' V'.
Proof.
  induction t as [x| |l IHl rt IHr]; intros r V s V' Hr Hd; cbn [dns_walk] in Hd.
  - injection Hd as <- <-. exists r. split; [reflexivity|exact Hr].
  - injection Hd as <- <-. exists r. split; [reflexivity|exact Hr].
  - destruct V as [|b bs]; [discriminate|].
    destruct (reader_step r b bs Hr) as [Hnz [Hbit [r2 [Hc Hr2]]]].
    cbn [walk_r]. cbv zeta in Hnz, Hbit, Hc. rewrite Hnz, Hbit, Hc.
    destruct b; [now apply (IHr r2 bs)|now apply (IHl r2 bs)].
Qed.

Lemma skip_bits_spec : forall n r V, rrep r V -> (n <= length V)%nat ->
  exists r', skip_bits n r = Some r' /\ rrep r' (skipn n V).
Proof.
  induction n as [|n IH]; intros r V Hr Hn.
  - exists r. split; [reflexivity|exact Hr].
  - destruct V as [|b bs]; [cbn [length] in Hn; lia|].
    destruct (reader_step r b bs Hr) as [Hnz [_ [r2 [Hc Hr2]]]].
    cbn [skip_bits]. cbv zeta in Hnz, Hc. rewrite Hnz, Hc. cbn [skipn].
    apply IH; [exact Hr2|cbn [length] in Hn; lia].
Qed.

Lemma dos_tree_spec ht r V s V' : rrep r V -> dns true ht V = Some (s, V') ->
  exists r', dos_tree true ht r = Some (s, r') /\ rrep r' V'.
Proof.
  intros Hr Hd. unfold dns in Hd. unfold dos_tree.
  destruct (ht_root ht) as [[x| |l rt]|]; [| | |discriminate].
  - destruct (root_code_len ht x <=? length V)%nat eqn:Hle; [|discriminate].
    injection Hd as <- <-. apply Nat.leb_le in Hle.
    destruct (skip_bits_spec _ r V Hr Hle) as [r' [Hs Hr']]. rewrite Hs. now exists r'.
  - destruct (root_code_len ht 0 <=? length V)%nat eqn:Hle; [|discriminate].
    injection Hd as <- <-. apply Nat.leb_le in Hle.
    destruct (skip_bits_spec _ r V Hr Hle) as [r' [Hs Hr']]. rewrite Hs. now exists r'.
  - now apply walk_r_spec with (V := V).
Qed.

Lemma testbit_n_of_bits l : forall i, N.testbit (n_of_bits l) (N.of_nat i) = nth i l false.
Proof.
  induction l as [|b l IH]; intros i.
  - cbn [n_of_bits]. rewrite N.bits_0. destruct i; reflexivity.
  - cbn [n_of_bits]. rewrite N.add_comm. destruct i as [|i].
    + change (N.of_nat 0) with 0. rewrite N.testbit_0_r. reflexivity.
    + rewrite Nat2N.inj_succ, N.testbit_succ_r. cbn [nth]. apply IH.
Qed.
Lemma skipn_nth_cons {A} (d : A) : forall n (l : list A), (n < length l)%nat ->
  skipn n l = nth n l d :: skipn (S n) l.
Proof.
  induction n as [|n IH]; intros [|x l] H; cbn [length] in H; try lia; [reflexivity|].
  cbn [skipn nth]. rewrite IH by lia. reflexivity.
Qed.

(* a decode-table entry is the walk over the 12 peeked bits *)
Lemma tbl_walk_spec W : length W = 12%nat -> forall t pos, (pos <= 12)%nat ->
  match dns_walk t (skipn pos W) with
  | Some (s, U') => tbl_walk t (n_of_bits W) pos = (s, N.of_nat (12 - length U'))
  | None => tbl_walk t (n_of_bits W) pos = (0, 0)
  end.
Proof.
  intros HW. induction t as [x| |l IHl rt IHr]; intros pos Hpos; cbn [dns_walk tbl_walk].
  - rewrite skipn_length, HW. do 2 f_equal. lia.
  - rewrite skipn_length, HW. do 2 f_equal. lia.
  - destruct (Nat.leb_spec 12 pos) as [H12|H12].
    + rewrite skipn_all2 by lia. reflexivity.
    + rewrite (skipn_nth_cons false) by lia. rewrite testbit_n_of_bits.
      destruct (nth pos W false); [apply IHr|apply IHl]; lia.
Qed.

Lemma dns_walk_app t : forall W s U' rest, dns_walk t W = Some (s, U') ->
  dns_walk t (W ++ rest) = Some (s, U' ++ rest).
Proof.
  induction t as [x| |l IHl rt IHr]; intros W s U' rest H; cbn [dns_walk] in *.
  - now injection H as <- <-.
  - now injection H as <- <-.
  - destruct W as [|b W]; [discriminate|]. cbn [app]. destruct b; [now apply IHr|now apply IHl].
Qed.
Lemma dns_walk_suffix t : forall U s U', dns_walk t U = Some (s, U') -> exists pre, U = pre ++ U'.
Proof.
  induction t as [x| |l IHl rt IHr]; intros U s U' H; cbn [dns_walk] in *.
  - injection H as <- <-. now exists [].
  - injection H as <- <-. now exists [].
  - destruct U as [|b U]; [discriminate|].
    destruct b; [destruct (IHr _ _ _ H) as [pre ->]; now exists (true :: pre)
                |destruct (IHl _ _ _ H) as [pre ->]; now exists (false :: pre)].
Qed.

(* decode_one_symbol returns what the cursor decoder returns on the remaining bits, whichever of the table
   path and the tree path it takes *)
Lemma dos_spec ht r V s V' : rrep r V -> dns true ht V = Some (s, V') ->
  exists r', dos true ht r = Some (s, r') /\ rrep r' V'.
Proof.
  intros Hr Hd. unfold dos.
  set (r1 := if r_cnt r <? 12 then r_refill r else r).
  assert (Hr1 : rrep r1 V) by (unfold r1; destruct (r_cnt r <? 12); [now apply r_refill_rep|exact Hr]).
  destruct (N.ltb_spec (r_cnt r1) 12) as [Hlt|Hge]; [now apply dos_tree_spec with (V := V)|].
  pose proof (rrep_cnt_le _ _ Hr1) as HlenV.
  set (W := firstn 12 V). set (rest := skipn 12 V).
  assert (HW : length W = 12%nat) by (unfold W; rewrite firstn_length; lia).
  assert (HV : V = W ++ rest) by (unfold W, rest; now rewrite firstn_skipn).
  assert (Hpeek : r_peek r1 12 = n_of_bits W).
  { change 12 with (N.of_nat 12). apply r_peek_spec; [exact Hr1|lia]. }
  rewrite Hpeek.
  destruct (ht_root ht) as [t|] eqn:Hroot.
  2:{ cbn [N.eqb]. change (0 =? 0) with true. cbv iota. now apply dos_tree_spec with (V := V). }
  pose proof (tbl_walk_spec W HW t 0 ltac:(lia)) as Ht. cbn [skipn] in Ht.
  destruct (dns_walk t W) as [[s0 U']|] eqn:Hw.
  - rewrite Ht. destruct (N.eqb_spec (N.of_nat (12 - length U')) 0) as [Hz|Hnz];
      [now apply dos_tree_spec with (V := V)|].
    destruct (N.ltb_spec (r_cnt r1) (N.of_nat (12 - length U'))) as [Hc|Hc];
      [now apply dos_tree_spec with (V := V)|].
    (* the table path *)
    assert (Hnode : is_node t = true).
    { destruct t as [x| |l rt]; [| |reflexivity]; cbn [dns_walk] in Hw; injection Hw as <- <-; lia. }
    assert (Hdv : dns true ht V = dns_walk t V).
    { unfold dns. rewrite Hroot. destruct t; try discriminate. reflexivity. }
    rewrite Hdv, HV in Hd. rewrite (dns_walk_app _ _ _ _ rest Hw) in Hd. injection Hd as <- <-.
    destruct (dns_walk_suffix _ _ _ _ Hw) as [pre Hpre].
    assert (Hlp : length pre = (12 - length U')%nat).
    { apply (f_equal (@length bool)) in Hpre. rewrite app_length in Hpre. lia. }
    destruct (r_consume_rep _ _ (12 - length U') Hr1 Hc) as [r2 [Hcons Hr2]].
    rewrite Hcons. eexists. split; [reflexivity|].
    apply r_refill_rep. replace (U' ++ rest) with (skipn (12 - length U') V); [exact Hr2|].
    rewrite HV, Hpre, <- Hlp, <- app_assoc. apply skipn_app_exact.
  - rewrite Ht. change (0 =? 0) with true. cbv iota. now apply dos_tree_spec with (V := V).
Qed.

(* ------------------------------------------------------------------ *)
(* chunk boundaries                                                    *)
(* ------------------------------------------------------------------ *)
Fixpoint span (l : list (nat * nat)) : nat :=
  match l with [] => 0%nat | (s, e) :: t => ((e - s) + span t)%nat end.
(* consecutive: each chunk starts where the previous one ended *)
Fixpoint chain (start : nat) (l : list (nat * nat)) (stop : nat) : Prop :=
  match l with
  | [] => start = stop
  | (s, e) :: t => s = start /\ (s <= e)%nat /\ chain e t stop
  end.

Lemma bounds_go_chain : forall cnt n nst len start,
  chain start (bounds_go n cnt nst len start) (start + span (bounds_go n cnt nst len start))%nat.
Proof.
  induction cnt as [|c IH]; intros n nst len start; cbn [bounds_go chain span]; [lia|].
  set (size := (len / nst + (if (n <? len mod nst)%nat then 1 else 0))%nat). clearbody size.
  split; [reflexivity|]. split; [lia|].
  replace (start + (start + size - start + span (bounds_go (S n) c nst len (start + size))))%nat
    with ((start + size) + span (bounds_go (S n) c nst len (start + size)))%nat by lia.
  apply IH.
Qed.
Lemma bounds_go_span : forall cnt n nst len start,
  span (bounds_go n cnt nst len start) =
  (cnt * (len / nst) + (Nat.min (n + cnt) (len mod nst) - Nat.min n (len mod nst)))%nat.
Proof.
  induction cnt as [|c IH]; intros n nst len start; cbn [bounds_go span]; [lia|].
  rewrite IH. generalize (len / nst)%nat (len mod nst)%nat. intros q m.
  destruct (Nat.ltb_spec n m); lia.
Qed.
Lemma bounds_span nst len : (1 <= nst)%nat -> span (bounds nst len) = len.
Proof.
  intros Hn. unfold bounds. rewrite bounds_go_span.
  pose proof (Nat.mod_upper_bound len nst ltac:(lia)) as Hm.
  pose proof (Nat.div_mod len nst ltac:(lia)) as Hd.
  revert Hm Hd. generalize (len / nst)%nat (len mod nst)%nat. intros q m Hm Hd.
  replace (Nat.min (0 + nst) m) with m by lia.
  replace (Nat.min 0 m) with 0%nat by lia. lia.
Qed.
Lemma bounds_go_length : forall cnt n nst len start, length (bounds_go n cnt nst len start) = cnt.
Proof.
  induction cnt as [|c IH]; intros n nst len start; cbn [bounds_go length]; [reflexivity|]. now rewrite IH.
Qed.
(* chunks_partition: for every stream count N >= 1 and every length, the N chunks are consecutive,
   start at 0 and end at the length *)
Theorem chunks_partition_proof : forall nst len, (1 <= nst)%nat ->
  chain 0 (bounds nst len) len /\ length (bounds nst len) = nst.
Proof.
  intros nst len Hn. split.
  - pose proof (bounds_go_chain nst 0 nst len 0) as H. fold (bounds nst len) in H.
    rewrite bounds_span in H by exact Hn. exact H.
  - apply bounds_go_length.
Qed.
Lemma chain_cover : forall l start stop, chain start l stop ->
  (forall i, (start <= i < stop)%nat -> exists s e, In (s, e) l /\ (s <= i < e)%nat) /\
  (forall s e, In (s, e) l -> (e <= stop)%nat) /\ (start <= stop)%nat.
Proof.
  induction l as [|[s e] t IH]; intros start stop Hc; cbn [chain] in Hc.
  - subst. split; [intros i Hi; lia|]. split; [intros s e []|lia].
  - destruct Hc as [-> [Hse Hc]]. destruct (IH _ _ Hc) as [Hcov [Hle Hes]]. split; [|split].
    + intros i Hi. destruct (Nat.lt_ge_cases i e) as [Hlt|Hge].
      * exists start, e. split; [now left|lia].
      * destruct (Hcov i ltac:(lia)) as [s' [e' [Hin Hr]]]. exists s', e'. split; [now right|exact Hr].
    + intros s' e' [H|Hin]; [injection H as <- <-; lia|now apply Hle with s'].
    + lia.
Qed.

(* ------------------------------------------------------------------ *)
(* encoder and decoder in lock step                                    *)
(* ------------------------------------------------------------------ *)
Fixpoint pending (sts : list stream) : nat :=
  match sts with [] => 0%nat | (p, e, _) :: t => ((e - p) + pending t)%nat end.

Lemma rr_round_exhausted {St} early (step : N -> nat -> St -> option (N * St)) :
  forall sts rem s, pending sts = 0%nat -> rr_round early step sts rem s = Some (sts, rem, s).
Proof.
  induction sts as [|[[p e] c] t IH]; intros rem s Hp; [reflexivity|].
  cbn [pending] in Hp. cbn [rr_round].
  replace (e <=? p)%nat with true by (symmetry; apply Nat.leb_le; lia).
  rewrite IH by lia. reflexivity.
Qed.

Lemma xn_tree_wf e c : wf_cenc e = true -> wf_ht (xn_tree e c) = true /\ has_root (xn_tree e c) = true.
Proof.
  intros Hwf. unfold xn_tree. destruct (c =? 256); [now apply tree0_wf|].
  destruct (map_get e c) as [i|] eqn:Hm; [|now apply tree0_wf].
  apply tree_at_wf; [assumption|]. eapply map_get_lt; eassumption.
Qed.

Lemma enc_step_spec e d c p w sym w' B :
  enc_step false e d c p w = Some (sym, w') -> wrep w B ->
  sym = nth p d 0 /\ exists cde, get_code (ht_codes (xn_tree e c)) sym = Some cde /\ wrep w' (B ++ cde).
Proof.
  unfold enc_step, fast_entry. intros He Hw.
  destruct (get_code (ht_codes (xn_tree e c)) (nth p d 0)) as [cde|] eqn:Hg.
  - destruct (16 <? length cde)%nat eqn:H16.
    + change (0 =? 0) with true in He. cbv iota in He. injection He as <- <-.
      split; [reflexivity|]. exists cde. split; [exact Hg|]. now apply write_chunks_rep.
    + apply Nat.ltb_ge in H16.
      destruct (N.eqb_spec (N.of_nat (length cde)) 0) as [Hz|Hnz]; injection He as <- <-;
        (split; [reflexivity|]); exists cde; (split; [exact Hg|]).
      * now apply write_chunks_rep.
      * apply w_write_rep; [exact Hw|lia].
  - change (0 =? 0) with true in He. cbv iota in He. discriminate.
Qed.

Section Lockstep.
  Variable e : cenc.
  Variable d : list N.
  Variable n : nat.
  Hypothesis Hwf : wf_cenc e = true.

  (* every index is still pending in some stream or already holds the right byte *)
  Definition Inv (sts : list stream) (out : list N) : Prop :=
    length out = n /\
    (forall p en c, In (p, en, c) sts -> (en <= n)%nat) /\
    forall i, (i < n)%nat ->
      (exists p en c, In (p, en, c) sts /\ (p <= i < en)%nat) \/ nth i out 0 = nth i d 0.

  Lemma set_nth_length : forall p x l, length (set_nth p x l) = length l.
  Proof.
    induction p as [|p IH]; intros x [|h t]; cbn [set_nth length]; try reflexivity. now rewrite IH.
  Qed.
  Lemma nth_set_nth_eq : forall p x l, (p < length l)%nat -> nth p (set_nth p x l) 0 = x.
  Proof.
    induction p as [|p IH]; intros x [|h t] H; cbn [length] in H; try lia; cbn [set_nth nth]; [reflexivity|].
    apply IH. lia.
  Qed.
  Lemma nth_set_nth_neq : forall p i x l, i <> p -> nth i (set_nth p x l) 0 = nth i l 0.
  Proof.
    induction p as [|p IH]; intros i x [|h t] H; cbn [set_nth]; try reflexivity.
    - destruct i; [congruence|reflexivity].
    - destruct i; [reflexivity|]. cbn [nth]. apply IH. congruence.
  Qed.

  Lemma Inv_step pre p en c rest out :
    (p < en)%nat -> Inv (pre ++ (p, en, c) :: rest) out ->
    forall c', Inv ((pre ++ [(S p, en, c')]) ++ rest) (set_nth p (nth p d 0) out).
  Proof.
    intros Hlt [Hlen [Hen Hi]] c'. rewrite <- app_assoc. cbn [app].
    assert (Hpn : (p < n)%nat).
    { specialize (Hen p en c ltac:(apply in_or_app; right; now left)). lia. }
    split; [now rewrite set_nth_length|]. split.
    - intros p0 en0 c0 Hin. apply in_app_or in Hin. destruct Hin as [Hin|[Heq|Hin]].
      + apply (Hen p0 en0 c0). apply in_or_app. now left.
      + injection Heq as <- <- <-. apply (Hen p en c). apply in_or_app. right. now left.
      + apply (Hen p0 en0 c0). apply in_or_app. right. now right.
    - intros i Hin. destruct (Nat.eq_dec i p) as [->|Hne].
      + right. apply nth_set_nth_eq. lia.
      + rewrite nth_set_nth_neq by exact Hne.
        destruct (Hi i Hin) as [[p0 [en0 [c0 [Hin0 Hr]]]]|Hok]; [|now right].
        left. apply in_app_or in Hin0. destruct Hin0 as [Hin0|[Heq|Hin0]].
        * exists p0, en0, c0. split; [apply in_or_app; now left|exact Hr].
        * injection Heq as <- <- <-. exists (S p), en, c'. split; [apply in_or_app; right; now left|lia].
        * exists p0, en0, c0. split; [apply in_or_app; right; now right|exact Hr].
  Qed.

  (* one pass over the streams *)
  Lemma round_lockstep : forall sts pre extra rem w sts' rem' w' B,
    rr_round false (enc_step false e d) sts rem w = Some (sts', rem', w') ->
    wrep w B -> rem = (extra + pending sts)%nat ->
    exists C, wrep w' (B ++ C) /\ rem' = (extra + pending sts')%nat /\ (rem <= rem' + length C)%nat /\
      forall r out REST, rrep r (C ++ REST) -> Inv (pre ++ sts) out ->
        exists r' out', rr_round true (dec_step true e) sts rem (r, out) = Some (sts', rem', (r', out')) /\
                        rrep r' REST /\ Inv (pre ++ sts') out'.
  Proof.
    induction sts as [|[[p en] c] rest IH]; intros pre extra rem w sts' rem' w' B Hrun Hw Hrem.
    - cbn [rr_round] in Hrun. injection Hrun as <- <- <-. exists []. rewrite app_nil_r.
      split; [exact Hw|]. split; [exact Hrem|]. split; [cbn [length]; lia|].
      intros r out REST Hr Hinv. exists r, out. cbn [rr_round]. split; [reflexivity|]. split; assumption.
    - cbn [rr_round] in Hrun. cbn [pending] in Hrem.
      destruct (Nat.leb_spec en p) as [Hex|Hlt].
      + (* this stream is finished *)
        destruct (rr_round false (enc_step false e d) rest rem w) as [[[rest' rem1] w1]|] eqn:Hrest; [|discriminate].
        injection Hrun as <- <- <-.
        destruct (IH (pre ++ [(p, en, c)]) extra _ _ _ _ _ _ Hrest Hw ltac:(lia)) as [C [Hw' [Hrem' [Hlen Hdec]]]].
        exists C. split; [exact Hw'|]. split; [cbn [pending]; lia|]. split; [exact Hlen|].
        intros r out REST Hr Hinv.
        destruct (Hdec r out REST Hr) as [r' [out' [Hd [Hr' Hinv']]]];
          [now rewrite <- app_assoc|].
        exists r', out'. cbn [rr_round].
        replace (en <=? p)%nat with true by (symmetry; apply Nat.leb_le; lia).
        rewrite Hd. rewrite <- app_assoc in Hinv'. split; [reflexivity|]. split; assumption.
      + destruct (enc_step false e d c p w) as [[sym w1]|] eqn:Hstep; [|discriminate].
        destruct (enc_step_spec _ _ _ _ _ _ _ _ Hstep Hw) as [Hsym [cde [Hg Hw1]]].
        destruct (xn_tree_wf e c Hwf) as [Hwt Hroot].
        cbn [andb] in Hrun.
        destruct (rr_round false (enc_step false e d) rest (rem - 1) w1) as [[[rest' rem1] w2]|] eqn:Hrest; [|discriminate].
        injection Hrun as <- <- <-.
        destruct (Nat.eqb_spec (rem - 1) 0) as [Hlast|Hmore].
        * (* the last symbol: the decoder leaves the pass here, the encoder finds nothing more to do *)
          assert (Hp0 : pending rest = 0%nat) by lia.
          rewrite (rr_round_exhausted false _ rest (rem - 1)%nat w1 Hp0) in Hrest.
          injection Hrest as <- <- <-.
          destruct (dns_code _ _ _ [] Hwt Hroot Hg) as [_ Hne].
          exists cde. split; [exact Hw1|]. split; [cbn [pending]; lia|].
          split; [destruct cde; [congruence|cbn [length]; lia]|].
          intros r out REST Hr Hinv.
          destruct (dns_code _ _ _ REST Hwt Hroot Hg) as [Hdns _].
          destruct (dos_spec _ _ _ _ _ Hr Hdns) as [r' [Hdos Hr']].
          exists r', (set_nth p sym out). cbn [rr_round].
          replace (en <=? p)%nat with false by (symmetry; apply Nat.leb_gt; lia).
          unfold dec_step at 1. cbn [fst snd]. rewrite Hdos.
          replace ((rem - 1 =? 0)%nat) with true by (symmetry; apply Nat.eqb_eq; exact Hlast).
          cbn [andb]. split; [reflexivity|]. split; [exact Hr'|].
          rewrite Hsym. pose proof (Inv_step pre p en c rest out Hlt Hinv (nth p d 0)) as H.
          rewrite <- app_assoc in H. exact H.
        * destruct (IH (pre ++ [(S p, en, sym)]) (extra + (en - S p))%nat _ _ _ _ _ _ Hrest Hw1 ltac:(lia)) as [C [Hw' [Hrem' [Hlen Hdec]]]].
          destruct (dns_code _ _ _ [] Hwt Hroot Hg) as [_ Hne].
          exists (cde ++ C). split; [now rewrite app_assoc|]. split; [cbn [pending]; lia|].
          split; [rewrite app_length; destruct cde; [congruence|cbn [length]; lia]|].
          intros r out REST Hr Hinv. rewrite <- app_assoc in Hr.
          destruct (dns_code _ _ _ (C ++ REST) Hwt Hroot Hg) as [Hdns _].
          destruct (dos_spec _ _ _ _ _ Hr Hdns) as [r1 [Hdos Hr1]].
          destruct (Hdec r1 (set_nth p sym out) REST Hr1) as [r' [out' [Hd [Hr' Hinv']]]].
          { rewrite Hsym. apply Inv_step with (c := c); assumption. }
          exists r', out'. cbn [rr_round].
          replace (en <=? p)%nat with false by (symmetry; apply Nat.leb_gt; lia).
          unfold dec_step at 1. cbn [fst snd]. rewrite Hdos.
          replace ((rem - 1 =? 0)%nat) with false by (symmetry; apply Nat.eqb_neq; exact Hmore).
          cbn [andb]. rewrite Hd. rewrite <- app_assoc in Hinv'. split; [reflexivity|]. split; assumption.
  Qed.

  Lemma pending_zero_done sts out : pending sts = 0%nat -> Inv sts out ->
    length out = n /\ forall i, (i < n)%nat -> nth i out 0 = nth i d 0.
  Proof.
    intros Hp [Hlen [_ Hi]]. split; [exact Hlen|]. intros i Hin.
    destruct (Hi i Hin) as [[p [en [c [Hin0 Hr]]]]|Hok]; [|exact Hok].
    exfalso. clear Hi. induction sts as [|[[p0 e0] c0] t IH]; [destruct Hin0|].
    cbn [pending] in Hp. destruct Hin0 as [Heq|Hin0]; [injection Heq as -> -> ->; lia|apply IH; [lia|exact Hin0]].
  Qed.

  (* while total < size *)
  Lemma loop_lockstep : forall fuel sts rem w wf B,
    rr_loop false (enc_step false e d) fuel sts rem w = Some wf ->
    wrep w B -> rem = pending sts ->
    exists C, wrep wf (B ++ C) /\ (rem <= length C)%nat /\
      forall r out REST, rrep r (C ++ REST) -> Inv sts out ->
        exists r' out', rr_loop true (dec_step true e) fuel sts rem (r, out) = Some (r', out') /\
                        length out' = n /\ forall i, (i < n)%nat -> nth i out' 0 = nth i d 0.
  Proof.
    induction fuel as [|f IH]; intros sts rem w wf B Hrun Hw Hrem.
    - destruct rem as [|rem]; [|discriminate]. cbn [rr_loop] in Hrun. injection Hrun as <-.
      exists []. rewrite app_nil_r. split; [exact Hw|]. split; [cbn [length]; lia|].
      intros r out REST Hr Hinv. exists r, out. split; [reflexivity|].
      now apply pending_zero_done with sts.
    - destruct rem as [|rem].
      + cbn [rr_loop] in Hrun. injection Hrun as <-.
        exists []. rewrite app_nil_r. split; [exact Hw|]. split; [cbn [length]; lia|].
        intros r out REST Hr Hinv. exists r, out. split; [reflexivity|].
        now apply pending_zero_done with sts.
      + cbn [rr_loop] in Hrun.
        destruct (rr_round false (enc_step false e d) sts (S rem) w) as [[[sts1 rem1] w1]|] eqn:Hround; [|discriminate].
        destruct (round_lockstep _ [] 0%nat _ _ _ _ _ _ Hround Hw Hrem) as [C1 [Hw1 [Hrem1 [Hlen1 Hdec1]]]].
        destruct (IH _ _ _ _ _ Hrun Hw1 Hrem1) as [C2 [Hwf2 [Hlen2 Hdec2]]].
        exists (C1 ++ C2). split; [now rewrite app_assoc|]. split; [rewrite app_length; lia|].
        intros r out REST Hr Hinv. rewrite <- app_assoc in Hr.
        destruct (Hdec1 r out (C2 ++ REST) Hr Hinv) as [r1 [out1 [Hd1 [Hr1 Hinv1]]]].
        destruct (Hdec2 r1 out1 REST Hr1 Hinv1) as [r' [out' [Hd2 Hres]]].
        exists r', out'. cbn [rr_loop]. rewrite Hd1. split; [exact Hd2|exact Hres].
  Qed.
End Lockstep.

Lemma pending_init nst len : pending (init_streams nst len) = span (bounds nst len).
Proof.
  unfold init_streams. induction (bounds nst len) as [|[s en] t IH]; [reflexivity|].
  cbn [map pending span fst snd]. now rewrite IH.
Qed.
Lemma in_init_streams nst len p en c : In (p, en, c) (init_streams nst len) -> In (p, en) (bounds nst len).
Proof.
  unfold init_streams. intros H. apply in_map_iff in H. destruct H as [[s e0] [Heq Hin]].
  cbn [fst snd] in Heq. injection Heq as <- <- _. exact Hin.
Qed.

(* decode_xN(encode_xN(d), |d|) = d for every stream count N >= 1 and every length *)
Theorem xn_roundtrip_proof : forall e nst d b,
  wf_cenc e = true -> (1 <= nst)%nat ->
  xn_encode e nst d = Some b -> xn_decode e nst b (length d) = Some d.
Proof.
  intros e nst d b Hwf Hn He. unfold xn_encode, xn_encode_g in He. unfold xn_decode, xn_decode_g.
  destruct (negb (c_order e =? 1)); [discriminate|].
  destruct d as [|s0 d0]; [injection He as <-; reflexivity|].
  set (d := s0 :: d0) in *.
  destruct (rr_loop false (enc_step false e d) (length d) (init_streams nst (length d)) (length d) w_new)
    as [w|] eqn:Hrun; [|discriminate].
  injection He as <-.
  destruct (chunks_partition_proof nst (length d) Hn) as [Hchain _].
  destruct (chain_cover _ _ _ Hchain) as [Hcov [Hle _]].
  destruct (loop_lockstep e d (length d) Hwf _ _ _ _ _ [] Hrun wrep_new) as [C [Hw [Hlen Hdec]]].
  { rewrite pending_init. now rewrite bounds_span. }
  cbn [app] in Hw. destruct (w_finish_rep _ _ Hw) as [pd [Hun Hok]].
  assert (Hlb : (length d <= 8 * length (w_finish w))%nat).
  { rewrite <- unpack_length, Hun, app_length. lia. }
  destruct (w_finish w) as [|b0 bs] eqn:Hfin; [unfold d in Hlb; cbn [length] in Hlb; lia|].
  rewrite <- Hfin in *.
  replace (8 * length (w_finish w) <? length d)%nat with false by (symmetry; apply Nat.ltb_ge; exact Hlb).
  destruct (Hdec (r_new (w_finish w)) (repeat 0 (length d)) (repeat false pd)) as [r' [out' [Hd [Hlo Hnth]]]].
  - rewrite <- Hun. now apply bytes_ok_unpack_new.
  - split; [apply repeat_length|]. split.
    + intros p en c Hin. apply in_init_streams in Hin. now apply Hle with p.
    + intros i Hi. left. destruct (Hcov i ltac:(lia)) as [s1 [e1 [Hin Hr]]].
      exists s1, e1, 256. split; [|exact Hr]. unfold init_streams.
      apply in_map_iff. exists (s1, e1). split; [reflexivity|exact Hin].
  - rewrite Hd. cbn [snd]. f_equal. apply nth_ext with 0 0; [exact Hlo|].
    intros i Hi. apply Hnth. lia.
Qed.

(* inhabitation, and the boundaries for a length that is not a multiple of the stream count *)
Example ex_bounds : bounds 4 10 = [(0, 3); (3, 6); (6, 8); (8, 10)]%nat. Proof. reflexivity. Qed.
Example ex_bounds_short : bounds 8 3 = [(0, 1); (1, 2); (2, 3); (3, 3); (3, 3); (3, 3); (3, 3); (3, 3)]%nat.
Proof. reflexivity. Qed.
Example ex_xn_rt : exists b, xn_encode ex_cenc 4 [97; 98; 99; 97; 97; 99; 98] = Some b /\
                             xn_decode ex_cenc 4 b 7 = Some [97; 98; 99; 97; 97; 99; 98].
Proof. eexists. split; vm_compute; reflexivity. Qed.
