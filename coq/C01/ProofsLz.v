(* LZ-style dictionary coders: every valid parse decodes to the payload (generic over the match chooser),
   the greedy longest-match search of DictionaryCompressor::compress is a sound chooser. *)
From ZV.Common Require Import Base.
From ZV.C01 Require Import ModelLz.
Open Scope N_scope.

(* ---------- list helpers ---------- *)
Lemma skipn_nth_cons {A} (d : A) : forall n (l : list A), (n < length l)%nat -> skipn n l = nth n l d :: skipn (S n) l.
Proof.
  induction n as [|n IH]; intros l H; destruct l as [|x l]; cbn [length] in H; try lia.
  - reflexivity.
  - cbn [skipn nth]. rewrite (IH l) by lia. reflexivity.
Qed.
Lemma firstn_succ_snoc {A} (d : A) : forall n (l : list A), (n < length l)%nat -> firstn (S n) l = firstn n l ++ [nth n l d].
Proof.
  induction n as [|n IH]; intros l H; destruct l as [|x l]; cbn [length] in H; try lia.
  - reflexivity.
  - cbn [firstn nth app]. f_equal. change (firstn (S n) l = firstn n l ++ [nth n l d]). apply IH. lia.
Qed.
Lemma tl_skipn {A} : forall n (l : list A), tl (skipn n l) = skipn (S n) l.
Proof.
  induction n as [|n IH]; intros l; destruct l as [|x l]; try reflexivity.
  cbn [skipn]. rewrite IH. destruct l; reflexivity.
Qed.
Lemma nth_skipn {A} (d : A) : forall n k (l : list A), nth k (skipn n l) d = nth (n + k) l d.
Proof.
  induction n as [|n IH]; intros k l; [reflexivity|].
  destruct l as [|x l]; [destruct k; reflexivity|]. cbn [skipn Nat.add nth]. apply IH.
Qed.
Lemma nth_firstn {A} (d : A) : forall n k (l : list A), (k < n)%nat -> nth k (firstn n l) d = nth k l d.
Proof.
  induction n as [|n IH]; intros k l H; [lia|].
  destruct l as [|x l]; [destruct k; reflexivity|]. destruct k as [|k]; [reflexivity|]. cbn [firstn nth]. apply IH. lia.
Qed.
Lemma firstn_add_app {A} : forall n m (l : list A), firstn (n + m) l = firstn n l ++ firstn m (skipn n l).
Proof.
  induction n as [|n IH]; intros m l; [reflexivity|].
  destruct l as [|x l]; [cbn [Nat.add firstn skipn app]; rewrite firstn_nil; reflexivity|].
  cbn [Nat.add firstn skipn app]. f_equal. apply IH.
Qed.
Lemma skipn_add {A} : forall n m (l : list A), skipn (n + m) l = skipn m (skipn n l).
Proof.
  induction n as [|n IH]; intros m l; [reflexivity|].
  destruct l as [|x l]; [cbn [Nat.add skipn]; rewrite skipn_nil; reflexivity|]. cbn [Nat.add skipn]. apply IH.
Qed.

Lemma from_le_le4 v : v < W32 -> from_le (le_bytes 4 v) = v.
Proof. unfold W32. intros H. cbn [le_bytes from_le]. lia. Qed.

(* ---------- the overlapping copy ---------- *)
Lemma copy_loop_ok pre off chunk :
  0 < off -> off <= nlen pre -> match_at pre chunk off ->
  forall todo done, done ++ todo = chunk ->
  copy_loop (length todo) (nlen done) (nlen pre - off) off (pre ++ done) = Some (pre ++ chunk).
Proof.
  intros Hoff Hle Hm. induction todo as [|b todo IH]; intros done Hsplit.
  - rewrite app_nil_r in Hsplit. subst done. reflexivity.
  - cbn [length copy_loop].
    rewrite nlen_app.
    destruct (N.ltb_spec (nlen pre - off + nlen done) (nlen pre + nlen done)) as [_|H]; [|lia].
    assert (Hb : nth (N.to_nat (nlen pre - off + nlen done)) (pre ++ done) 0 = b).
    { specialize (Hm (length done)). rewrite <- Hsplit in Hm.
      rewrite app_length in Hm. cbn [length] in Hm. specialize (Hm ltac:(lia)).
      rewrite app_nth2 in Hm by lia. rewrite PeanoNat.Nat.sub_diag in Hm. cbn [nth] in Hm.
      transitivity (nth (N.to_nat (nlen pre - off) + length done) (pre ++ done ++ b :: todo) 0); [|symmetry; exact Hm].
      rewrite (app_assoc pre done (b :: todo)).
      rewrite !nlen_length.
      replace (N.to_nat (N.of_nat (length pre) - off + N.of_nat (length done)))
        with (N.to_nat (N.of_nat (length pre) - off) + length done)%nat by lia.
      rewrite (app_nth1 (pre ++ done) (b :: todo)); [reflexivity|]. rewrite app_length. rewrite nlen_length in Hle. lia. }
    rewrite Hb.
    specialize (IH (done ++ [b])). rewrite <- app_assoc in IH. cbn [app] in IH. specialize (IH Hsplit).
    rewrite nlen_app in IH. cbn [nlen] in IH. replace (nlen done + (1 + 0)) with (nlen done + 1) in IH by lia.
    rewrite app_assoc in IH. exact IH.
Qed.

(* ---------- decoding an emitted token stream ---------- *)
Lemma dec_loop_lit k b z res : dec_loop (S k) (0 :: b :: z) res = dec_loop k z (res ++ [b]).
Proof. reflexivity. Qed.
Lemma dec_loop_mat k a b z res :
  dec_loop (S k) (1 :: le_bytes 4 a ++ le_bytes 4 b ++ z) res =
  let off := from_le (le_bytes 4 a) in
  let len := from_le (le_bytes 4 b) in
  if (off =? 0) || (nlen res <? off) then None
  else if MAX_DECOMPRESSED_SIZE - nlen res <? len then None
  else match copy_loop (N.to_nat len) 0 (nlen res - off) off res with
       | Some r => dec_loop k z r
       | None => None
       end.
Proof. reflexivity. Qed.

Lemma length_le4 v : length (le_bytes 4 v) = 4%nat.
Proof. reflexivity. Qed.

Lemma dec_loop_emit : forall pre toks rest,
  parses pre toks rest ->
  forall fuel, (length (emit toks) < fuel)%nat -> dec_loop fuel (emit toks) pre = Some (pre ++ rest).
Proof.
  intros pre toks rest Hp. induction Hp as [pre|pre b toks rest Hp IH|pre off len toks chunk rest Ho1 Ho2 Ho3 Hl3 Hcl Hmax Hm Hp IH];
    intros fuel Hfuel.
  - destruct fuel; [lia|]. cbn [emit map concat dec_loop]. rewrite app_nil_r. reflexivity.
  - unfold emit in *. cbn [map concat emit_token app length] in *.
    destruct fuel as [|k]; [lia|]. rewrite dec_loop_lit. rewrite IH by lia.
    rewrite <- app_assoc. reflexivity.
  - unfold emit in *. cbn [map concat emit_token] in *.
    rewrite <- app_comm_cons in *. rewrite <- app_assoc in *.
    cbn [length] in Hfuel. rewrite !app_length, !length_le4 in Hfuel.
    destruct fuel as [|k]; [lia|]. rewrite dec_loop_mat. cbn zeta.
    rewrite !N.mod_small by assumption. rewrite !from_le_le4 by assumption.
    destruct (N.eqb_spec off 0) as [H|_]; [lia|].
    destruct (N.ltb_spec (nlen pre) off) as [H|_]; [lia|]. cbn [orb].
    destruct (N.ltb_spec (MAX_DECOMPRESSED_SIZE - nlen pre) len) as [H|_]; [lia|].
    pose proof (copy_loop_ok pre off chunk Ho1 Ho2 Hm chunk [] eq_refl) as Hc.
    rewrite app_nil_r in Hc. cbn [nlen] in Hc.
    replace (N.to_nat len) with (length chunk) by (rewrite nlen_length in Hcl; lia).
    rewrite Hc. rewrite IH by lia. rewrite <- ?app_assoc. reflexivity.
Qed.

Lemma parses_decompress toks d : parses [] toks d -> decompress (emit toks) = Some d.
Proof.
  intros H. unfold decompress. apply (dec_loop_emit [] toks d H). lia.
Qed.

(* ---------- a sound chooser yields a valid parse ---------- *)
Lemma comp_loop_parses ch data :
  sound ch data -> nlen data <= MAX_DECOMPRESSED_SIZE ->
  forall fuel p, (p <= length data)%nat -> (length data - p <= fuel)%nat ->
  parses (firstn p data) (comp_loop ch fuel data (N.of_nat p)) (skipn p data).
Proof.
  intros Hs Hmax. induction fuel as [|k IH]; intros p Hp Hf.
  - assert (p = length data) by lia. subst p. cbn [comp_loop]. rewrite skipn_all. constructor.
  - cbn [comp_loop]. rewrite nlen_length.
    destruct (N.ltb_spec (N.of_nat p) (N.of_nat (length data))) as [Hlt|Hge].
    2:{ assert (p = length data) by lia. subst p. rewrite skipn_all. constructor. }
    pose proof (Hs (N.of_nat p) ltac:(rewrite nlen_length; lia)) as Hsa. unfold sound_at in Hsa.
    destruct (ch data (N.of_nat p)) as [off len].
    destruct (N.ltb_spec 0 len) as [Hpos|Hzero].
    + destruct Hsa as [Hz|(Ho1 & Ho2 & Ho3 & Hl3 & Hfit & Heq)]; [lia|].
      rewrite nlen_length in Hfit.
      set (l := N.to_nat len).
      assert (Hl : (p + l <= length data)%nat) by (unfold l; lia).
      rewrite (skipn_nth_cons 0) by lia.
      (* rest = chunk ++ skipn (p + l) data *)
      rewrite <- (skipn_nth_cons 0) by lia.
      rewrite <- (firstn_skipn l (skipn p data)).
      rewrite <- skipn_add.
      apply P_mat; try assumption.
      * rewrite nlen_length, firstn_length. lia.
      * rewrite nlen_length, firstn_length, skipn_length. unfold l. lia.
      * rewrite nlen_length, firstn_length. rewrite nlen_length in Hmax. unfold l in Hl. lia.
      * intros j Hj. rewrite firstn_length, skipn_length in Hj.
        rewrite nth_firstn by lia. rewrite nth_skipn.
        rewrite <- firstn_add_app. rewrite nth_firstn.
        2:{ rewrite nlen_length, firstn_length. lia. }
        specialize (Heq (N.of_nat j) ltac:(unfold l in Hj; lia)).
        rewrite nlen_length, firstn_length.
        replace (N.to_nat (N.of_nat (Nat.min p (length data)) - off) + j)%nat with (N.to_nat (N.of_nat p - off + N.of_nat j)) by lia.
        replace (p + j)%nat with (N.to_nat (N.of_nat p + N.of_nat j)) by lia.
        exact Heq.
      * rewrite <- firstn_add_app.
        replace (N.of_nat p + len) with (N.of_nat (p + l)) by (unfold l; lia).
        apply IH; lia.
    + rewrite (skipn_nth_cons 0) by lia. rewrite Nnat.Nat2N.id.
      apply P_lit.
      rewrite <- (firstn_succ_snoc 0) by lia.
      replace (N.of_nat p + 1) with (N.of_nat (S p)) by lia.
      apply IH; lia.
Qed.

Lemma compress_with_roundtrip ch data :
  sound ch data -> nlen data <= MAX_DECOMPRESSED_SIZE ->
  decompress (compress_with ch data) = Some data.
Proof.
  intros Hs Hmax. unfold compress_with. apply parses_decompress.
  exact (comp_loop_parses ch data Hs Hmax (length data) 0%nat ltac:(lia) ltac:(lia)).
Qed.

(* ---------- the search of DictionaryCompressor::compress is sound ---------- *)
Lemma cpl_spec : forall max a b,
  (cpl max a b <= max)%nat /\ (cpl max a b <= length b)%nat /\
  forall k, (k < cpl max a b)%nat -> nth k a 0 = nth k b 0.
Proof.
  induction max as [|m IH]; intros a b; [cbn [cpl]; repeat split; try lia; intros; lia|].
  destruct a as [|x a]; [cbn [cpl]; repeat split; try lia; intros; lia|].
  destruct b as [|y b]; [cbn [cpl]; repeat split; try lia; intros; lia|].
  cbn [cpl]. destruct (N.eqb_spec x y) as [->|Hne]; [|repeat split; try lia; intros; lia].
  destruct (IH a b) as (H1 & H2 & H3). cbn [length]. repeat split; try lia.
  intros k Hk. destruct k as [|k]; [reflexivity|]. cbn [nth]. apply H3. lia.
Qed.

Definition good_match (data : list N) (p : nat) (m : N * N) : Prop :=
  snd m = 0 \/
  (0 < fst m /\ fst m <= N.of_nat p /\ fst m < W32 /\ snd m < W32 /\ N.of_nat p + snd m <= nlen data /\
   forall k, k < snd m -> nth (N.to_nat (N.of_nat p + k)) data 0 = nth (N.to_nat (N.of_nat p - fst m + k)) data 0).

Lemma scan_good data p minl maxl : (p <= length data)%nat -> N.of_nat maxl < W32 ->
  forall cnt sp best, (sp + cnt = p)%nat -> N.of_nat cnt < W32 -> good_match data p best ->
  good_match data p (scan cnt (skipn sp data) (skipn p data) (N.of_nat cnt) minl maxl best).
Proof.
  intros Hp Hmaxl. induction cnt as [|c IH]; intros sp best Hsum Hc Hb; cbn [scan]; [exact Hb|].
  rewrite tl_skipn. replace (N.of_nat (S c) - 1) with (N.of_nat c) by lia.
  apply IH; [lia|lia|].
  destruct (cpl_spec maxl (skipn sp data) (skipn p data)) as (H1 & H2 & H3).
  set (ml := cpl maxl (skipn sp data) (skipn p data)) in *.
  destruct ((minl <=? N.of_nat ml) && (snd best <? N.of_nat ml)); [|exact Hb].
  right. cbn [fst snd]. rewrite skipn_length in H2. rewrite nlen_length.
  repeat split; try lia.
  intros k Hk. specialize (H3 (N.to_nat k) ltac:(lia)). rewrite !nth_skipn in H3.
  replace (N.to_nat (N.of_nat p + k)) with (p + N.to_nat k)%nat by lia.
  replace (N.to_nat (N.of_nat p - N.of_nat (S c) + k)) with (sp + N.to_nat k)%nat by lia.
  symmetry. exact H3.
Qed.

Lemma find_best_sound minl maxl data : maxl < W32 -> sound (find_best minl maxl) data.
Proof.
  intros Hmaxl pos Hpos. unfold sound_at, find_best.
  rewrite nlen_length in Hpos.
  set (p := N.to_nat pos).
  pose proof (scan_good data p (N.max minl 10) (N.to_nat maxl) ltac:(lia) ltac:(lia)
                (N.to_nat (pos - (pos - WINDOW))) (N.to_nat (pos - WINDOW)) (0, 0)
                ltac:(lia) ltac:(unfold WINDOW, W32; lia) ltac:(left; reflexivity)) as H.
  rewrite Nnat.N2Nat.id in H.
  destruct (scan (N.to_nat (pos - (pos - WINDOW))) (skipn (N.to_nat (pos - WINDOW)) data) (skipn p data)
                 (pos - (pos - WINDOW)) (N.max minl 10) (N.to_nat maxl) (0, 0)) as [off len].
  unfold good_match in H. cbn [fst snd] in H. unfold p in H. rewrite Nnat.N2Nat.id in H. exact H.
Qed.

Lemma lz_decode_encode_proof minl maxl data :
  maxl < W32 -> nlen data <= MAX_DECOMPRESSED_SIZE ->
  decompress (compress minl maxl data) = Some data.
Proof.
  intros Hm Hd. unfold compress. apply compress_with_roundtrip; [|exact Hd]. apply find_best_sound. exact Hm.
Qed.

(* hypotheses are satisfiable by non-trivial values *)
Example lz_example : decompress (compress 3 258 [7;7;7;7;7;7;7;7;7;7;7;7;7;7;1;2;3]) = Some [7;7;7;7;7;7;7;7;7;7;7;7;7;7;1;2;3]
                     /\ compress 3 258 [7;7;7;7;7;7;7;7;7;7;7;7;7;7;1;2;3] = [0;7; 1;1;0;0;0;13;0;0;0; 0;1; 0;2; 0;3].
Proof. split; vm_compute; reflexivity. Qed.
Example parses_example : parses [] [Lit 5; Lit 6; Mat 2 5; Lit 9] [5;6;5;6;5;6;5;9].
Proof.
  apply P_lit. cbn [app]. apply P_lit. cbn [app]. apply (P_mat [5;6] 2 5 [Lit 9] [5;6;5;6;5] [9]); try (vm_compute; reflexivity); try (vm_compute; discriminate).
  - intros k Hk. cbn [length] in Hk. do 5 (destruct k as [|k]; [reflexivity|]). lia.
  - apply P_lit. constructor.
Qed.
