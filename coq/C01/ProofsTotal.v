(* C01: the interleaved encoder terminates and succeeds on every byte string when every tree codes every byte
   (what new_order1 builds): no refusal, no endless loop, for every stream count. *)
From ZV.Common Require Import Base.
From ZV.C01 Require Import Model ModelCtx ProofsBits ProofsHuff ProofsTree ProofsIO ProofsCtx ProofsXn ProofsHeap.
Open Scope N_scope.

Section Total.
  Variable e : cenc.
  Variable d : list N.
  Hypothesis Hne : c_trees e <> [].
  Hypothesis Hmap : forallb (fun p => (snd p <? length (c_trees e))%nat) (c_map e) = true.
  Hypothesis Hcov : forall ht, In ht (c_trees e) -> covers_bytes ht.
  Hypothesis Hd : bytes_ok d.

  Lemma xn_tree_in c : In (xn_tree e c) (c_trees e).
  Proof.
    assert (H0 : In (tree_at e 0) (c_trees e)).
    { unfold tree_at. destruct (c_trees e) as [|h t]; [congruence|now left]. }
    unfold xn_tree. destruct (c =? 256); [exact H0|].
    destruct (map_get e c) as [i|] eqn:Hm; [|exact H0].
    unfold tree_at. apply nth_In. unfold map_get in Hm.
    destruct (find (fun p => fst p =? c) (c_map e)) as [p|] eqn:Hf; [|discriminate]. injection Hm as <-.
    apply find_some in Hf. destruct Hf as [Hin _]. rewrite forallb_forall in Hmap.
    specialize (Hmap _ Hin). now apply Nat.ltb_lt in Hmap.
  Qed.
  Lemma nth_byte p : nth p d 0 < 256.
  Proof.
    destruct (Nat.lt_ge_cases p (length d)) as [Hlt|Hge].
    - unfold bytes_ok in Hd. rewrite Forall_forall in Hd. apply Hd. now apply nth_In.
    - rewrite nth_overflow by exact Hge. lia.
  Qed.
  Lemma enc_step_succeeds c p w : exists sym w', enc_step false e d c p w = Some (sym, w').
  Proof.
    unfold enc_step, fast_entry.
    pose proof (Hcov _ (xn_tree_in c) _ (nth_byte p)) as Hc.
    destruct (get_code (ht_codes (xn_tree e c)) (nth p d 0)) as [cde|]; [|congruence].
    destruct (16 <? length cde)%nat.
    - change (0 =? 0) with true. cbv iota. now eexists; eexists.
    - destruct (N.of_nat (length cde) =? 0); now eexists; eexists.
  Qed.

  Lemma round_progress : forall sts extra rem w, rem = (extra + pending sts)%nat ->
    exists sts' rem' w', rr_round false (enc_step false e d) sts rem w = Some (sts', rem', w') /\
                         rem' = (extra + pending sts')%nat /\ (0 < pending sts -> rem' < rem)%nat /\
                         (rem' <= rem)%nat.
  Proof.
    induction sts as [|[[p en] c] rest IH]; intros extra rem w Hrem.
    - exists [], rem, w. cbn [rr_round pending] in *. repeat split; try lia.
    - cbn [rr_round pending] in *. destruct (Nat.leb_spec en p) as [Hex|Hlt].
      + destruct (IH extra rem w ltac:(lia)) as [rest' [rem' [w' [Hr [Hrem' [Hprog Hle]]]]]].
        rewrite Hr. exists ((p, en, c) :: rest'), rem', w'. cbn [pending]. repeat split; try lia; try reflexivity.
      + destruct (enc_step_succeeds c p w) as [sym [w1 Hs]]. rewrite Hs. cbn [andb].
        destruct (IH (extra + (en - S p))%nat (rem - 1)%nat w1 ltac:(lia)) as [rest' [rem' [w' [Hr [Hrem' [Hprog Hle]]]]]].
        rewrite Hr. exists ((S p, en, sym) :: rest'), rem', w'. cbn [pending]. repeat split; try lia; try reflexivity.
  Qed.
  Lemma loop_terminates : forall fuel sts rem w, rem = pending sts -> (rem <= fuel)%nat ->
    exists wf, rr_loop false (enc_step false e d) fuel sts rem w = Some wf.
  Proof.
    induction fuel as [|f IH]; intros sts rem w Hrem Hf.
    - assert (rem = 0%nat) by lia. subst rem. rewrite H. now eexists.
    - destruct rem as [|rem]; [now eexists|]. cbn [rr_loop].
      destruct (round_progress sts 0%nat (S rem) w Hrem) as [sts' [rem' [w' [Hr [Hrem' [Hprog Hle]]]]]].
      rewrite Hr. apply IH; [lia|]. specialize (Hprog ltac:(lia)). lia.
  Qed.
End Total.

Theorem xn_encode_total_proof : forall e nst d,
  c_order e = 1 -> c_trees e <> [] ->
  forallb (fun p => (snd p <? length (c_trees e))%nat) (c_map e) = true ->
  (forall ht, In ht (c_trees e) -> covers_bytes ht) -> bytes_ok d -> (1 <= nst)%nat ->
  exists b, xn_encode e nst d = Some b.
Proof.
  intros e nst d Ho Hne Hmap Hcov Hd Hn. unfold xn_encode, xn_encode_g. rewrite Ho. change (1 =? 1) with true.
  cbn [negb]. destruct d as [|s0 d0]; [now eexists|]. set (dd := s0 :: d0) in *.
  destruct (loop_terminates e dd Hne Hmap Hcov Hd (length dd) (init_streams nst (length dd)) (length dd) w_new) as [wf Hw].
  - rewrite pending_init. now rewrite bounds_span.
  - lia.
  - rewrite Hw. now eexists.
Qed.
