(* rANS-64, single stream: the decoder step inverts the encoder step, states stay in [L, 256 L),
   decode (encode d) = d for every table whose frequencies sum to at most TOTFREQ. *)
From ZV.Common Require Import Base.
From ZV.C01 Require Import ModelLz ModelRans.
Open Scope N_scope.

(* ---------- little-endian helpers ---------- *)
Fixpoint p256 (n : nat) : N := match n with O => 1 | S k => 256 * p256 k end.

Lemma length_le_bytes n x : length (le_bytes n x) = n.
Proof. revert x; induction n as [|n IH]; intros x; cbn [le_bytes length]; [reflexivity|]. rewrite IH. reflexivity. Qed.

Lemma from_le_le_bytes n : forall x, x < p256 n -> from_le (le_bytes n x) = x.
Proof.
  induction n as [|n IH]; intros x Hx; cbn [p256] in Hx; cbn [le_bytes from_le].
  - lia.
  - rewrite IH by lia. lia.
Qed.

Lemma le_bytes_bytes n : forall x, Forall (fun b => b < 256) (le_bytes n x).
Proof. induction n as [|n IH]; intros x; cbn [le_bytes]; constructor; [lia|apply IH]. Qed.

(* ---------- table facts ---------- *)
Lemma cum_bound t : forall s, cum t s + nth s t 0 <= sum_list t.
Proof.
  induction t as [|f t IH]; intros s.
  - destruct s; cbn [cum nth sum_list fold_right]; lia.
  - destruct s as [|k]; cbn [cum nth sum_list fold_right].
    + fold (sum_list t). lia.
    + fold (sum_list t). specialize (IH k). lia.
Qed.

Lemma slot_sym_spec t : forall sym acc slot s,
  acc + cum t s <= slot -> slot < acc + cum t s + nth s t 0 ->
  slot_sym t sym acc slot = sym + N.of_nat s.
Proof.
  induction t as [|f t IH]; intros sym acc slot s Hlo Hhi.
  - destruct s; cbn [cum nth] in *; lia.
  - destruct s as [|k]; cbn [cum nth slot_sym] in *.
    + destruct (N.ltb_spec slot (acc + f)); [lia|lia].
    + destruct (N.ltb_spec slot (acc + f)); [lia|].
      rewrite (IH (sym + 1) (acc + f) slot k) by lia. lia.
Qed.

Lemma slot_sym_of t s slot :
  start_of t s <= slot -> slot < start_of t s + freq_of t s -> slot_sym t 0 0 slot = s.
Proof.
  unfold start_of, freq_of. intros Hlo Hhi.
  rewrite (slot_sym_spec t 0 0 slot (N.to_nat s)) by lia. lia.
Qed.

(* ---------- renormalisation ---------- *)
Lemma dec_renorm_ge x rin : RANS_L <= x -> dec_renorm x rin = Some (x, rin).
Proof.
  intros H. destruct rin; cbn [dec_renorm]; destruct (N.leb_spec RANS_L x); try lia; reflexivity.
Qed.
Lemma dec_renorm_lt x b r : x < RANS_L -> dec_renorm x (b :: r) = dec_renorm (x * 256 + b) r.
Proof.
  intros H. cbn [dec_renorm]. destruct (N.leb_spec RANS_L x); [lia|reflexivity].
Qed.

(* the decoder's refill undoes the encoder's flush, whatever the threshold *)
Lemma enc_renorm_undone fuel : forall x xmax rout,
  x < STATE_BOUND ->
  dec_renorm (fst (enc_renorm fuel x xmax rout)) (snd (enc_renorm fuel x xmax rout)) = dec_renorm x rout.
Proof.
  induction fuel as [|k IH]; intros x xmax rout Hx; cbn [enc_renorm]; [reflexivity|].
  destruct (N.leb_spec xmax x) as [Hge|Hlt]; [|reflexivity].
  unfold STATE_BOUND in *.
  rewrite IH by (unfold STATE_BOUND; lia).
  rewrite dec_renorm_lt by (unfold RANS_L; lia).
  f_equal. lia.
Qed.

Lemma enc_renorm_upper fuel : forall x xmax rout,
  x < xmax * p256 fuel -> fst (enc_renorm fuel x xmax rout) < xmax.
Proof.
  induction fuel as [|k IH]; intros x xmax rout Hx; cbn [enc_renorm p256] in *.
  - cbn [fst]. lia.
  - destruct (N.leb_spec xmax x) as [Hge|Hlt]; [|cbn [fst]; lia].
    apply IH. nia.
Qed.

Lemma enc_renorm_lower fuel : forall x xmax rout m,
  256 * m <= xmax -> m <= x -> m <= fst (enc_renorm fuel x xmax rout).
Proof.
  induction fuel as [|k IH]; intros x xmax rout m Hm Hx; cbn [enc_renorm].
  - cbn [fst]. lia.
  - destruct (N.leb_spec xmax x) as [Hge|Hlt]; [|cbn [fst]; lia].
    apply IH; [lia|]. lia.
Qed.

Lemma enc_renorm_bytes fuel : forall x xmax rout,
  Forall (fun b => b < 256) rout -> Forall (fun b => b < 256) (snd (enc_renorm fuel x xmax rout)).
Proof.
  induction fuel as [|k IH]; intros x xmax rout H; cbn [enc_renorm]; [exact H|].
  destruct (xmax <=? x); [|exact H]. apply IH. constructor; [lia|exact H].
Qed.

(* ---------- one step ---------- *)
Lemma enc_symbol_step t st s st' :
  wf_table t -> state_ok (fst st) -> enc_symbol t st s = Some st' ->
  0 < freq_of t s /\ state_ok (fst st') /\
  exists x1, dec_symbol t st' = Some (s, (x1, snd st')) /\ dec_renorm x1 (snd st') = Some st.
Proof.
  intros Hwf [Hlo Hhi] Henc. unfold enc_symbol in Henc.
  destruct (N.eqb_spec (freq_of t s) 0) as [Hz|Hnz]; [discriminate|].
  set (f := freq_of t s) in *.
  pose proof (cum_bound t (N.to_nat s)) as Hcb. fold (start_of t s) in Hcb. fold (freq_of t s) in Hcb. fold f in Hcb.
  unfold wf_table in Hwf. unfold TOTFREQ, XMAX_UNIT, RANS_L, STATE_BOUND in *.
  destruct st as [x rout]. cbn [fst snd] in *.
  pose proof (enc_renorm_undone 8 x (4096 * f) rout ltac:(unfold STATE_BOUND; lia)) as Hun.
  pose proof (enc_renorm_upper 8 x (4096 * f) rout ltac:(cbn [p256]; nia)) as Hup.
  pose proof (enc_renorm_lower 8 x (4096 * f) rout (16 * f) ltac:(lia) ltac:(nia)) as Hlow.
  destruct (enc_renorm 8 x (4096 * f) rout) as [x1 rout1]. cbn [fst snd] in *.
  inversion Henc; subst st'; clear Henc. cbn [fst snd].
  (* q, r with x1 = f q + r *)
  pose proof (N.div_mod' x1 f) as Hdm.
  assert (Hr : x1 mod f < f) by (apply N.mod_lt; lia).
  set (q := x1 / f) in *. set (r := x1 mod f) in *.
  assert (Hq16 : 16 <= q) by nia.
  assert (Hq4095 : q <= 4095) by nia.
  split; [lia|]. split; [split; unfold RANS_L, STATE_BOUND; nia|].
  exists x1. split.
  - unfold dec_symbol. cbn [fst snd].
    rewrite dec_renorm_ge by (unfold RANS_L; nia).
    unfold TOTFREQ.
    assert (Hslot : (q * 4096 + r + start_of t s) mod 4096 = r + start_of t s).
    { replace (q * 4096 + r + start_of t s) with ((r + start_of t s) + q * 4096) by lia.
      rewrite N.mod_add by lia. apply N.mod_small. lia. }
    assert (Hdiv : (q * 4096 + r + start_of t s) / 4096 = q).
    { replace (q * 4096 + r + start_of t s) with ((r + start_of t s) + q * 4096) by lia.
      rewrite N.div_add by lia. rewrite N.div_small by lia. lia. }
    rewrite Hslot, Hdiv.
    rewrite (slot_sym_of t s (r + start_of t s)) by (fold f; lia).
    fold f. do 3 f_equal. lia.
  - rewrite Hun. apply dec_renorm_ge. unfold RANS_L. lia.
Qed.

(* ---------- all symbols ---------- *)
Lemma enc_all_inv t : forall d st,
  wf_table t -> enc_all t d = Some st ->
  state_ok (fst st) /\ covers t d /\
  forall st1, dec_renorm (fst st1) (snd st1) = Some st -> dec_all t (length d) st1 = Some d.
Proof.
  induction d as [|s d IH]; intros st Hwf Henc; cbn [enc_all] in Henc.
  - inversion Henc; subst st. cbn [fst]. split; [unfold state_ok, RANS_L, STATE_BOUND; lia|].
    split; [constructor|]. intros st1 _. reflexivity.
  - destruct (enc_all t d) as [st0|] eqn:E0; [|discriminate].
    destruct (IH st0 Hwf eq_refl) as (Hok0 & Hcov0 & Hdec0).
    destruct (enc_symbol_step t st0 s st Hwf Hok0 Henc) as (Hf & Hok & x1 & Hds & Hdr).
    split; [exact Hok|]. split; [constructor; assumption|].
    intros st1 H1. cbn [length dec_all].
    assert (Hsym : dec_symbol t st1 = Some (s, (x1, snd st))).
    { unfold dec_symbol in *. rewrite H1.
      rewrite (dec_renorm_ge (fst st) (snd st)) in Hds by (destruct Hok; assumption).
      destruct st as [x' r']. cbn [fst snd] in *. exact Hds. }
    rewrite Hsym. rewrite (Hdec0 (x1, snd st)) by (cbn [fst snd]; exact Hdr). reflexivity.
Qed.

Lemma rans_no_overflow_proof t d st :
  wf_table t -> enc_all t d = Some st -> (RANS_L <= fst st /\ fst st < STATE_BOUND) /\ covers t d.
Proof. intros Hwf H. destruct (enc_all_inv t d st Hwf H) as (Hs & Hc & _). exact (conj Hs Hc). Qed.

Lemma enc_all_bytes t : forall d st,
  enc_all t d = Some st -> Forall (fun b => b < 256) (snd st).
Proof.
  induction d as [|s d IH]; intros st Henc; cbn [enc_all] in Henc.
  - inversion Henc; constructor.
  - destruct (enc_all t d) as [st0|] eqn:E0; [|discriminate].
    unfold enc_symbol in Henc. destruct (freq_of t s =? 0); [discriminate|].
    pose proof (enc_renorm_bytes 8 (fst st0) (XMAX_UNIT * freq_of t s) (snd st0) (IH st0 eq_refl)) as Hb.
    destruct (enc_renorm 8 (fst st0) (XMAX_UNIT * freq_of t s) (snd st0)) as [x1 r1].
    inversion Henc; subst st. exact Hb.
Qed.

(* an uncovered symbol is refused: no silent substitution *)
Lemma enc_all_some_covers t : forall d st, enc_all t d = Some st -> covers t d.
Proof.
  induction d as [|s d IH]; intros st H; [constructor|].
  cbn [enc_all] in H. destruct (enc_all t d) as [st0|] eqn:E0; [|discriminate].
  unfold enc_symbol in H. destruct (N.eqb_spec (freq_of t s) 0) as [Hz|Hnz]; [discriminate|].
  constructor; [lia|]. exact (IH st0 eq_refl).
Qed.
Lemma enc_all_refuses t : forall d, ~ covers t d -> enc_all t d = None.
Proof.
  intros d Hn. destruct (enc_all t d) as [st|] eqn:E; [|reflexivity].
  exfalso. apply Hn. exact (enc_all_some_covers t d st E).
Qed.

Lemma enc_all_defined t : forall d, wf_table t -> covers t d -> exists st, enc_all t d = Some st.
Proof.
  induction d as [|s d IH]; intros Hwf Hc.
  - eexists; reflexivity.
  - inversion Hc as [|? ? Hs Hd]; subst. destruct (IH Hwf Hd) as [st0 E0].
    cbn [enc_all]. rewrite E0. unfold enc_symbol.
    destruct (N.eqb_spec (freq_of t s) 0) as [Hz|Hnz]; [lia|].
    destruct (enc_renorm 8 (fst st0) (XMAX_UNIT * freq_of t s) (snd st0)). eexists; reflexivity.
Qed.

(* ---------- byte strings ---------- *)
Lemma decode_single_encode_single t d bytes :
  wf_table t -> encode_single t d = Some bytes -> decode_single t bytes (length d) = Some d.
Proof.
  intros Hwf He. unfold encode_single in He.
  destruct (enc_all t d) as [[x rout]|] eqn:E; [|discriminate]. assert (Hb : bytes = rev rout ++ le_bytes 8 x) by congruence. subst bytes. clear He.
  destruct (enc_all_inv t d (x, rout) Hwf E) as ((Hlo & Hhi) & _ & Hdec). cbn [fst snd] in *.
  unfold decode_single. rewrite app_length, rev_length, length_le_bytes.
  destruct (Nat.ltb_spec (length rout + 8) 8) as [H|_]; [lia|].
  replace (length rout + 8 - 8)%nat with (length (rev rout)) by (rewrite rev_length; lia).
  rewrite skipn_app, firstn_app, PeanoNat.Nat.sub_diag, skipn_all, firstn_all. cbn [skipn firstn app].
  rewrite app_nil_r, rev_involutive.
  rewrite from_le_le_bytes by (unfold STATE_BOUND in Hhi; cbn [p256]; lia).
  apply Hdec. cbn [fst snd]. apply dec_renorm_ge. exact Hlo.
Qed.

Lemma rans_roundtrip_x1_proof t d bytes :
  wf_table t -> N.of_nat (length d) <= MAX_DECOMPRESSED_SIZE ->
  encode 1 t d = Some bytes -> decode 1 t bytes (length d) = Some d.
Proof.
  intros Hwf Hlen He. unfold encode, decode in *.
  destruct d as [|s d]; [reflexivity|]. cbn [Nat.eqb] in *. cbn [length].
  destruct (N.ltb_spec MAX_DECOMPRESSED_SIZE (N.of_nat (S (length d)))) as [H|_]; [cbn [length] in Hlen; lia|].
  apply (decode_single_encode_single t (s :: d) bytes Hwf He).
Qed.
