(* C01: from_frequencies end to end, for every order in which the BinaryHeap may hand out nodes.
   The heap loop (pop two, push their parent, until one node is left) is modelled as a relation that allows
   any two nodes to be merged at each step - the comparator, tie-breaking and the fact that the code's
   double reversal pops the two *largest* nodes are all irrelevant for what is proved here. *)
From ZV.Common Require Import Base.
From Coq Require Import Permutation.
From ZV.C01 Require Import Model ModelCtx ProofsBits ProofsHuff ProofsTree ProofsCtx.
Open Scope N_scope.

Fixpoint leaves (t : tree) : list N :=
  match t with Leaf s => [s] | Hole => [] | Node l r => leaves l ++ leaves r end.

Inductive heap_run : list tree -> tree -> Prop :=
| heap_done t : heap_run [t] t
| heap_merge l l' a b t : Permutation l (a :: b :: l') -> heap_run (Node a b :: l') t -> heap_run l t.

Lemma heap_run_leaves l t : heap_run l t -> Permutation (leaves t) (flat_map leaves l).
Proof.
  induction 1 as [t|l l' a b t Hp _ IH].
  - cbn [flat_map]. now rewrite app_nil_r.
  - rewrite IH. cbn [flat_map leaves]. rewrite <- app_assoc.
    change (leaves a ++ leaves b ++ flat_map leaves l') with (flat_map leaves (a :: b :: l')).
    symmetry. clear -Hp. induction Hp; cbn [flat_map].
    + reflexivity.
    + now apply Permutation_app_head.
    + rewrite !app_assoc. apply Permutation_app_tail. apply Permutation_app_comm.
    + etransitivity; eassumption.
Qed.
Lemma heap_run_node l t : heap_run l t -> (2 <= length l)%nat -> is_node t = true.
Proof.
  induction 1 as [t|l l' a b t Hp Hr IH]; intros Hlen; [cbn [length] in Hlen; lia|].
  destruct l' as [|c l'].
  - inversion Hr as [|? ? ? ? ? Hp2]; subst; [reflexivity|].
    apply Permutation_length in Hp2. cbn [length] in Hp2. lia.
  - apply IH. cbn [length]. lia.
Qed.
Lemma flat_map_leaf syms : flat_map leaves (map Leaf syms) = syms.
Proof. induction syms as [|s t IH]; [reflexivity|]. cbn [map flat_map leaves app]. now rewrite IH. Qed.

Lemma gen_codes_covers t : forall pre s, In s (leaves t) -> exists c, In (s, c) (gen_codes t pre).
Proof.
  induction t as [x| |l IHl r IHr]; intros pre s Hin; cbn [leaves gen_codes] in *.
  - destruct Hin as [->|[]]. eexists. now left.
  - destruct Hin.
  - apply in_app_or in Hin. destruct Hin as [Hin|Hin].
    + destruct (IHl (pre ++ [false]) s Hin) as [c Hc]. exists c. apply in_or_app. now left.
    + destruct (IHr (pre ++ [true]) s Hin) as [c Hc]. exists c. apply in_or_app. now right.
Qed.
Lemma in_get_code tb s c : In (s, c) tb -> get_code tb s <> None.
Proof.
  intros Hin. unfold get_code. destruct (find (fun e => fst e =? s) tb) as [e|] eqn:Hf; [discriminate|].
  exfalso. pose proof (find_none _ _ Hf _ Hin) as H. cbn [fst] in H. rewrite N.eqb_refl in H. discriminate.
Qed.
Lemma fixed_codes_covers syms : forall i s, In s syms -> exists c, In (s, c) (fixed_codes_go syms i).
Proof.
  induction syms as [|x syms IH]; intros i s Hin; [destruct Hin|].
  cbn [fixed_codes_go]. destruct Hin as [->|Hin]; [eexists; now left|].
  destruct (IH (i + 1) s Hin) as [c Hc]. exists c. now right.
Qed.

(* whatever the heap does, every present symbol gets a code *)
Theorem from_frequencies_covers_proof : forall syms heap ht,
  heap_run (map Leaf syms) heap -> ht_from_heap syms heap = Some ht ->
  forall s, In s syms -> get_code (ht_codes ht) s <> None.
Proof.
  intros syms heap ht Hrun Hht s Hin. unfold ht_from_heap in Hht.
  destruct syms as [|s1 [|s2 syms]]; [destruct Hin| |].
  - injection Hht as <-. cbn [ht_codes]. destruct Hin as [->|[]]. unfold get_code. cbn [find fst].
    now rewrite N.eqb_refl.
  - set (ss := s1 :: s2 :: syms) in *.
    destruct (64 <? max_len (gen_codes heap []))%nat.
    + destruct (build_root (fixed_codes ss)); [|discriminate]. injection Hht as <-. cbn [ht_codes].
      destruct (fixed_codes_covers ss 0 s Hin) as [c Hc]. now apply in_get_code with c.
    + injection Hht as <-. cbn [ht_codes].
      assert (Hl : In s (leaves heap)).
      { apply (Permutation_in s (Permutation_sym (heap_run_leaves _ _ Hrun))). now rewrite flat_map_leaf. }
      destruct (gen_codes_covers heap [] s Hl) as [c Hc]. now apply in_get_code with c.
Qed.

(* HuffmanEncoder::new / from_frequencies followed by encode and decode: total and lossless on every payload
   over the symbols the encoder was built for - for every heap behaviour *)
Theorem from_frequencies_roundtrip_proof : forall syms heap d,
  (length syms <= 256)%nat -> heap_run (map Leaf syms) heap -> (forall s, In s d -> In s syms) ->
  exists ht b, ht_from_heap syms heap = Some ht /\ huff_encode ht d = Some b /\
               huff_decode ht b (length d) = Some d.
Proof.
  intros syms heap d Hlen Hrun Hd.
  destruct syms as [|s1 [|s2 syms]].
  - destruct d as [|x d]; [|destruct (Hd x (or_introl eq_refl))].
    exists (mkHT None []), []. repeat split; reflexivity.
  - assert (Hwf : wf_ht (mkHT (Some (Leaf s1)) [(s1, [false])]) = true).
    { unfold wf_ht. cbn [ht_root ht_codes forallb fst snd nonempty]. now rewrite N.eqb_refl. }
    destruct (huff_encode_total_proof (mkHT (Some (Leaf s1)) [(s1, [false])]) d) as [b Hb].
    { intros s Hs. destruct (Hd s Hs) as [<-|[]]. cbn [ht_codes]. unfold get_code. cbn [find fst].
      now rewrite N.eqb_refl. }
    exists (mkHT (Some (Leaf s1)) [(s1, [false])]), b. split; [reflexivity|]. split; [exact Hb|].
    now apply huff_roundtrip_proof.
  - set (ss := s1 :: s2 :: syms) in *.
    assert (Hnode : is_node heap = true).
    { apply (heap_run_node _ _ Hrun). rewrite map_length. unfold ss. cbn [length]. lia. }
    destruct (ht_from_heap_wf_proof ss heap Hlen Hnode) as [ht [Hht Hwf]].
    destruct (huff_encode_total_proof ht d) as [b Hb].
    { intros s Hs. eapply from_frequencies_covers_proof; [exact Hrun|exact Hht|now apply Hd]. }
    exists ht, b. split; [exact Hht|]. split; [exact Hb|]. now apply huff_roundtrip_proof.
Qed.

(* new_order1 / new_order2 merge the context counts with an all-symbol baseline:
   context count * 100 where the context saw the symbol, else the order-0 count, else 1.
   None = the u32 multiplication overflows (a panic in checked builds) *)
Definition merged_freq (ctx_count order0_count : N) : option N :=
  if 0 <? ctx_count then (if ctx_count * 100 <? W32 then Some (ctx_count * 100) else None)
  else if 0 <? order0_count then Some order0_count
  else Some 1.
Theorem merged_freqs_cover_proof : forall c o, c * 100 < W32 ->
  exists f, merged_freq c o = Some f /\ 0 < f.
Proof.
  intros c o Hc. unfold merged_freq.
  destruct (N.ltb_spec 0 c) as [Hpos|Hz].
  - replace (c * 100 <? W32) with true by (symmetry; now apply N.ltb_lt). eexists. split; [reflexivity|lia].
  - destruct (N.ltb_spec 0 o); eexists; (split; [reflexivity|lia]).
Qed.

(* hence every tree of such an encoder codes every byte, and encoding cannot fail *)
Definition covers_bytes (ht : hufftree) : Prop := forall s, s < 256 -> get_code (ht_codes ht) s <> None.
Lemma ctx_tree_in e hist : c_trees e <> [] ->
  forallb (fun p => (snd p <? length (c_trees e))%nat) (c_map e) = true ->
  In (ctx_tree e hist) (c_trees e).
Proof.
  intros Hne Hmap.
  assert (H0 : In (tree_at e 0) (c_trees e)).
  { unfold tree_at. destruct (c_trees e) as [|h t]; [congruence|now left]. }
  unfold ctx_tree. destruct (ctx_key (c_order e) hist) as [k|]; [|exact H0].
  destruct (map_get e k) as [i|] eqn:Hm; [|exact H0].
  unfold tree_at. apply nth_In. unfold map_get in Hm.
  destruct (find (fun p => fst p =? k) (c_map e)) as [p|] eqn:Hf; [|discriminate]. injection Hm as <-.
  apply find_some in Hf. destruct Hf as [Hin _]. rewrite forallb_forall in Hmap.
  specialize (Hmap _ Hin). now apply Nat.ltb_lt in Hmap.
Qed.
Theorem ctx_encode_total_proof : forall e d,
  c_trees e <> [] -> forallb (fun p => (snd p <? length (c_trees e))%nat) (c_map e) = true ->
  (forall ht, In ht (c_trees e) -> covers_bytes ht) -> bytes_ok d ->
  exists b, ctx_encode e d = Some b.
Proof.
  intros e d Hne Hmap Hcov Hd. unfold ctx_encode, ctx_encode_g.
  assert (Hbits : forall hist, exists bits, ctx_bits false e hist d = Some bits).
  { induction Hd as [|s d Hs _ IH]; intros hist; [now exists []|].
    cbn [ctx_bits]. rewrite sym_code_ctx_tree.
    pose proof (Hcov _ (ctx_tree_in e hist Hne Hmap) s Hs) as Hc.
    destruct (get_code (ht_codes (ctx_tree e hist)) s) as [c|]; [|congruence].
    destruct (IH (push_hist s hist)) as [r Hr]. rewrite Hr. now eexists. }
  destruct d as [|s d]; [now eexists|]. destruct (Hbits []) as [bits Hb]. rewrite Hb. now eexists.
Qed.

Example ex_heap_run : heap_run (map Leaf [97; 98; 99]) (Node (Leaf 97) (Node (Leaf 98) (Leaf 99))).
Proof.
  apply heap_merge with (l' := [Leaf 97]) (a := Leaf 98) (b := Leaf 99).
  - cbn [map]. apply (Permutation_cons_append [Leaf 98; Leaf 99] (Leaf 97)).
  - apply heap_merge with (l' := []) (a := Leaf 97) (b := Node (Leaf 98) (Leaf 99)).
    + apply perm_swap.
    + apply heap_done.
Qed.
