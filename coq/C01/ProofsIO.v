(* C01: BitStreamWriter / BitStreamReader (u64 accumulators) refine a list of bits. *)
From ZV.Common Require Import Base.
From ZV.C01 Require Import Model ModelCtx ProofsBits ProofsTree.
Open Scope N_scope.

(* ---------------- arithmetic on bit lists ---------------- *)
Lemma n_of_bits_split k l : (k <= length l)%nat ->
  n_of_bits l = n_of_bits (firstn k l) + 2 ^ N.of_nat k * n_of_bits (skipn k l).
Proof.
  intros Hk. rewrite <- (firstn_skipn k l) at 1. rewrite n_of_bits_app.
  rewrite firstn_length. replace (Nat.min k (length l)) with k by lia. reflexivity.
Qed.
Lemma n_of_bits_firstn_lt k l : (k <= length l)%nat -> n_of_bits (firstn k l) < 2 ^ N.of_nat k.
Proof.
  intros Hk. pose proof (n_of_bits_lt (firstn k l)) as H. rewrite firstn_length in H.
  replace (Nat.min k (length l)) with k in H by lia. exact H.
Qed.
Lemma n_of_bits_mod k l : (k <= length l)%nat -> n_of_bits l mod 2 ^ N.of_nat k = n_of_bits (firstn k l).
Proof.
  intros Hk. rewrite (n_of_bits_split k l Hk).
  rewrite (N.mul_comm (2 ^ N.of_nat k)), N.mod_add by (apply N.pow_nonzero; discriminate).
  apply N.mod_small. now apply n_of_bits_firstn_lt.
Qed.
Lemma n_of_bits_div k l : (k <= length l)%nat -> n_of_bits l / 2 ^ N.of_nat k = n_of_bits (skipn k l).
Proof.
  intros Hk. symmetry. apply (N.div_unique _ _ _ (n_of_bits (firstn k l))).
  - now apply n_of_bits_firstn_lt.
  - rewrite (n_of_bits_split k l Hk) at 1. lia.
Qed.
Lemma byte_bits_n_of_bits l : length l = 8%nat -> byte_bits (n_of_bits l) = l.
Proof. intros H. unfold byte_bits. rewrite <- H. apply bits_of_n_of_bits. Qed.
Lemma n_of_byte_bits b : b < 256 -> n_of_bits (byte_bits b) = b.
Proof.
  intros H. unfold byte_bits. rewrite n_of_bits_of_n. change (2 ^ N.of_nat 8) with 256. now apply N.mod_small.
Qed.
Lemma byte_bits_length b : length (byte_bits b) = 8%nat.
Proof. apply bits_of_n_length. Qed.
Lemma unpack_snoc l x : unpack (l ++ [x]) = unpack l ++ byte_bits x.
Proof. rewrite unpack_app. cbn [unpack flat_map]. now rewrite app_nil_r. Qed.
Lemma pow2_le_mono a b : a <= b -> 2 ^ a <= 2 ^ b.
Proof. intros H. apply N.pow_le_mono_r; [discriminate|exact H]. Qed.

(* ---------------- writer ---------------- *)
Definition wrep (w : writer) (bits : list bool) : Prop :=
  exists l, (length l < 8)%nat /\ w_cur w = n_of_bits l /\ w_cnt w = N.of_nat (length l) /\
            bits = unpack (rev (w_rbuf w)) ++ l /\ bytes_ok (w_rbuf w).

Lemma wrep_new : wrep w_new [].
Proof. exists []. cbn. repeat split; try lia. constructor. Qed.

Lemma w_flush_rep : forall fuel rbuf l, bytes_ok rbuf -> (length l < 8 * fuel)%nat ->
  exists rbuf' l', w_flush fuel (mkW rbuf (n_of_bits l) (N.of_nat (length l))) =
                   mkW rbuf' (n_of_bits l') (N.of_nat (length l')) /\
                   (length l' < 8)%nat /\ unpack (rev rbuf') ++ l' = unpack (rev rbuf) ++ l /\ bytes_ok rbuf'.
Proof.
  induction fuel as [|f IH]; intros rbuf l Hok Hlen; [lia|].
  cbn [w_flush w_cnt w_cur w_rbuf].
  destruct (N.leb_spec 8 (N.of_nat (length l))) as [H8|H8].
  - assert (Hk : (8 <= length l)%nat) by lia.
    change 256 with (2 ^ N.of_nat 8). rewrite n_of_bits_mod, n_of_bits_div by exact Hk.
    replace (N.of_nat (length l) - 8) with (N.of_nat (length (skipn 8 l))) by (rewrite skipn_length; lia).
    destruct (IH (n_of_bits (firstn 8 l) :: rbuf) (skipn 8 l)) as [rbuf' [l' [Hf [Hl [Hb Hok']]]]].
    + constructor; [|exact Hok]. unfold is_byte. change 256 with (2 ^ N.of_nat 8). now apply n_of_bits_firstn_lt.
    + rewrite skipn_length. lia.
    + exists rbuf', l'. repeat split; try assumption.
      rewrite Hb. cbn [rev]. rewrite unpack_snoc, byte_bits_n_of_bits by (rewrite firstn_length; lia).
      rewrite <- app_assoc. now rewrite firstn_skipn.
  - exists rbuf, l. repeat split; try assumption. lia.
Qed.

Lemma w_write_rep w bits lb : wrep w bits -> (length lb <= 32)%nat ->
  wrep (w_write w (n_of_bits lb) (N.of_nat (length lb))) (bits ++ lb).
Proof.
  intros [l [Hl [Hcur [Hcnt [Hbits Hok]]]]] Hlb. unfold w_write. rewrite Hcur, Hcnt.
  assert (Hx : N.shiftl (n_of_bits lb) (N.of_nat (length l)) mod W64 = n_of_bits lb * 2 ^ N.of_nat (length l)).
  { rewrite N.shiftl_mul_pow2. apply N.mod_small. rewrite W64_eq.
    apply N.lt_le_trans with (2 ^ N.of_nat (length lb) * 2 ^ N.of_nat (length l)).
    - apply N.mul_lt_mono_pos_r; [apply pow2_pos|apply n_of_bits_lt].
    - rewrite <- N.pow_add_r. apply pow2_le_mono. lia. }
  rewrite Hx. rewrite lor_disjoint_add by apply n_of_bits_lt.
  replace (n_of_bits l + n_of_bits lb * 2 ^ N.of_nat (length l)) with (n_of_bits (l ++ lb))
    by (rewrite n_of_bits_app; lia).
  replace (N.of_nat (length l) + N.of_nat (length lb)) with (N.of_nat (length (l ++ lb)))
    by (rewrite app_length; lia).
  destruct (w_flush_rep 9 (w_rbuf w) (l ++ lb) Hok) as [rbuf' [l' [Hf [Hl' [Hb Hok']]]]];
    [rewrite app_length; lia|].
  rewrite Hf. exists l'. cbn [w_cur w_cnt w_rbuf]. repeat split; try assumption.
  rewrite Hb, Hbits. now rewrite <- app_assoc.
Qed.

Lemma write_chunks_rep : forall fuel c w bits, wrep w bits -> (length c <= fuel)%nat ->
  wrep (write_chunks fuel w c) (bits ++ c).
Proof.
  induction fuel as [|f IH]; intros c w bits Hw Hlen.
  - destruct c; [|cbn [length] in Hlen; lia]. cbn [write_chunks]. now rewrite app_nil_r.
  - destruct c as [|b c]; [cbn [write_chunks]; now rewrite app_nil_r|].
    cbn [write_chunks]. set (cc := b :: c) in *.
    replace (bits ++ cc) with ((bits ++ firstn 32 cc) ++ skipn 32 cc)
      by (rewrite <- app_assoc, firstn_skipn; reflexivity).
    apply IH.
    + apply w_write_rep; [exact Hw|]. rewrite firstn_length. lia.
    + rewrite skipn_length. unfold cc in *. cbn [length] in *. lia.
Qed.

Lemma bytes_ok_rev l : bytes_ok l -> bytes_ok (rev l).
Proof. unfold bytes_ok. intros H. apply Forall_rev. exact H. Qed.

Lemma w_finish_rep w bits : wrep w bits ->
  exists p, unpack (w_finish w) = bits ++ repeat false p /\ bytes_ok (w_finish w).
Proof.
  intros [l [Hl [Hcur [Hcnt [Hbits Hok]]]]]. unfold w_finish. rewrite Hcnt, Hcur.
  destruct (N.ltb_spec 0 (N.of_nat (length l))) as [Hpos|Hz].
  - assert (Hsmall : n_of_bits l mod 256 = n_of_bits l).
    { apply N.mod_small. apply N.lt_le_trans with (2 ^ N.of_nat (length l)); [apply n_of_bits_lt|].
      change 256 with (2 ^ 8). apply pow2_le_mono. lia. }
    rewrite Hsmall. exists (8 - length l)%nat. cbn [rev]. split.
    + rewrite unpack_snoc, Hbits, <- app_assoc. f_equal. unfold byte_bits.
      replace 8%nat with (length l + (8 - length l))%nat at 1 by lia. apply bits_of_n_pad.
    + unfold bytes_ok. apply Forall_app. split; [now apply bytes_ok_rev|].
      constructor; [|constructor]. unfold is_byte. rewrite <- Hsmall. apply N.mod_lt. discriminate.
  - destruct l; [|cbn [length] in Hz; lia]. exists 0%nat. cbn [repeat].
    split; [rewrite Hbits; now rewrite !app_nil_r|now apply bytes_ok_rev].
Qed.

(* ---------------- reader ---------------- *)
Definition rrep (r : reader) (V : list bool) : Prop :=
  exists l, (length l <= 64)%nat /\ r_cur r = n_of_bits l /\ r_cnt r = N.of_nat (length l) /\
            V = l ++ unpack (r_data r) /\ bytes_ok (r_data r).

Lemma refill_go_rep : forall data l, (length l <= 64)%nat -> bytes_ok data ->
  exists l' data', r_refill_go data (n_of_bits l) (N.of_nat (length l)) =
                   mkR data' (n_of_bits l') (N.of_nat (length l')) /\
                   (length l' <= 64)%nat /\ l' ++ unpack data' = l ++ unpack data /\ bytes_ok data' /\
                   ((length l' <= 56)%nat -> data' = []).
Proof.
  induction data as [|b t IH]; intros l Hl Hok; cbn [r_refill_go].
  - exists l, []. repeat split; try assumption; auto.
  - destruct (N.leb_spec (N.of_nat (length l)) 56) as [H56|H56].
    + inversion Hok as [|? ? Hb Hok']; subst. unfold is_byte in Hb.
      rewrite N.shiftl_mul_pow2. rewrite lor_disjoint_add by apply n_of_bits_lt.
      replace (n_of_bits l + b * 2 ^ N.of_nat (length l)) with (n_of_bits (l ++ byte_bits b))
        by (rewrite n_of_bits_app, n_of_byte_bits by exact Hb; lia).
      replace (N.of_nat (length l) + 8) with (N.of_nat (length (l ++ byte_bits b)))
        by (rewrite app_length, byte_bits_length; lia).
      destruct (IH (l ++ byte_bits b)) as [l' [data' [Hr [Hl' [Hv [Hok'' Hend]]]]]].
      * rewrite app_length, byte_bits_length. lia.
      * exact Hok'.
      * exists l', data'. repeat split; try assumption.
        rewrite Hv. rewrite unpack_cons. now rewrite <- app_assoc.
    + exists l, (b :: t). repeat split; try assumption. intros; lia.
Qed.

Lemma r_refill_rep r V : rrep r V ->
  rrep (r_refill r) V /\ (r_cnt (r_refill r) <= 56 -> length V = N.to_nat (r_cnt (r_refill r))).
Proof.
  intros [l [Hl [Hcur [Hcnt [HV Hok]]]]]. unfold r_refill. rewrite Hcur, Hcnt.
  destruct (refill_go_rep (r_data r) l Hl Hok) as [l' [data' [Hr [Hl' [Hv [Hok' Hend]]]]]].
  rewrite Hr. cbn [r_cnt]. split.
  - exists l'. cbn [r_cur r_cnt r_data]. repeat split; try assumption. now rewrite Hv.
  - intros H56. rewrite HV, <- Hv. rewrite Hend by lia. cbn [unpack flat_map]. rewrite app_nil_r. lia.
Qed.

Lemma bytes_ok_unpack_new data : bytes_ok data -> rrep (r_new data) (unpack data).
Proof.
  intros Hok. unfold r_new. apply r_refill_rep. exists []. cbn. repeat split; try lia; assumption.
Qed.

Lemma r_peek_spec r V k : rrep r V -> N.of_nat k <= r_cnt r ->
  r_peek r (N.of_nat k) = n_of_bits (firstn k V).
Proof.
  intros [l [Hl [Hcur [Hcnt [HV Hok]]]]] Hk. unfold r_peek. rewrite Hcur.
  rewrite N.shiftl_1_l, N.sub_1_r, <- N.ones_equiv, N.land_ones.
  rewrite Hcnt in Hk. rewrite n_of_bits_mod by lia.
  rewrite HV. rewrite firstn_app. replace (k - length l)%nat with 0%nat by lia.
  cbn [firstn]. now rewrite app_nil_r.
Qed.

Lemma r_consume_rep r V k : rrep r V -> N.of_nat k <= r_cnt r ->
  exists r', r_consume r (N.of_nat k) = Some r' /\ rrep r' (skipn k V).
Proof.
  intros [l [Hl [Hcur [Hcnt [HV Hok]]]]] Hk. unfold r_consume.
  replace (N.of_nat k <=? r_cnt r) with true by (symmetry; now apply N.leb_le).
  eexists. split; [reflexivity|]. rewrite Hcnt in Hk.
  exists (skipn k l). cbn [r_cur r_cnt r_data]. repeat split.
  - rewrite skipn_length. lia.
  - rewrite Hcur, N.shiftr_div_pow2. apply n_of_bits_div. lia.
  - rewrite Hcnt, skipn_length. lia.
  - rewrite HV. rewrite skipn_app. replace (k - length l)%nat with 0%nat by lia. reflexivity.
  - exact Hok.
Qed.

Lemma rrep_cnt_le r V : rrep r V -> (N.to_nat (r_cnt r) <= length V)%nat.
Proof.
  intros [l [Hl [Hcur [Hcnt [HV Hok]]]]]. rewrite HV, app_length, Hcnt. lia.
Qed.
