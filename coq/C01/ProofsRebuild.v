(* C01: a decoding tree is determined by its code table: rebuilding the tree from the table generate_codes
   wrote (insert_code_into_tree, placeholders and all) gives back the tree.  This is why the model may take
   the real code table alone as its input (the tree itself is private in the Rust code). *)
From ZV.Common Require Import Base.
From ZV.C01 Require Import Model ProofsBits ProofsHuff ProofsTree.
Open Scope N_scope.

Fixpoint subst_at (T : tree) (pre : list bool) (t : tree) {struct pre} : tree :=
  match pre with
  | [] => t
  | b :: p => match T with
              | Node l r => if b then Node l (subst_at r p t) else Node (subst_at l p t) r
              | _ => T
              end
  end.

Lemma insert_at_hole : forall pre T s, walk T pre = Some Hole -> insert T s pre = Some (subst_at T pre (Leaf s)).
Proof.
  induction pre as [|b p IH]; intros T s Hw; cbn [walk] in Hw.
  - injection Hw as ->. reflexivity.
  - destruct T as [x| |l r]; try discriminate. cbn [insert subst_at].
    destruct b; rewrite (IH _ _ Hw); reflexivity.
Qed.
Lemma insert_expand : forall pre T s suf, walk T pre = Some Hole -> suf <> [] ->
  insert T s (pre ++ suf) = insert (subst_at T pre (Node Hole Hole)) s (pre ++ suf).
Proof.
  induction pre as [|b p IH]; intros T s suf Hw Hne; cbn [walk] in Hw.
  - injection Hw as ->. destruct suf as [|b c]; [congruence|]. cbn [app subst_at insert].
    destruct b; destruct (insert Hole s c); reflexivity.
  - destruct T as [x| |l r]; try discriminate. cbn [app subst_at insert].
    destruct b; cbn [insert]; rewrite (IH _ s suf Hw Hne); reflexivity.
Qed.
Lemma walk_subst_app : forall pre T x t q, walk T pre = Some x ->
  walk (subst_at T pre t) (pre ++ q) = walk t q.
Proof.
  induction pre as [|b p IH]; intros T x t q Hw; cbn [walk] in Hw; [cbn [subst_at app]; reflexivity|].
  destruct T as [y| |l r]; try discriminate. cbn [subst_at app].
  destruct b; cbn [walk]; eapply IH; eassumption.
Qed.
Lemma subst_subst : forall pre T x t1 q t2, walk T pre = Some x ->
  subst_at (subst_at T pre t1) (pre ++ q) t2 = subst_at T pre (subst_at t1 q t2).
Proof.
  induction pre as [|b p IH]; intros T x t1 q t2 Hw; cbn [walk] in Hw; [cbn [subst_at app]; reflexivity|].
  destruct T as [y| |l r]; try discriminate. cbn [subst_at app].
  destruct b; cbn [subst_at]; erewrite IH by eassumption; reflexivity.
Qed.

Lemma insert_all_app a : forall T b,
  insert_all T (a ++ b) = match insert_all T a with Some T1 => insert_all T1 b | None => None end.
Proof.
  induction a as [|[s c] a IH]; intros T b; [reflexivity|].
  cbn [app insert_all]. destruct (insert T s c); [apply IH|reflexivity].
Qed.
Lemma gen_codes_head t : no_hole t = true -> forall p, exists s suf rest, gen_codes t p = (s, p ++ suf) :: rest.
Proof.
  induction t as [x| |l IHl r IHr]; intros Hn p; cbn [no_hole] in Hn; [| discriminate |].
  - exists x, [], []. cbn [gen_codes]. now rewrite app_nil_r.
  - apply andb_true_iff in Hn. destruct Hn as [Hl _].
    destruct (IHl Hl (p ++ [false])) as [s [suf [rest Hg]]]. cbn [gen_codes]. rewrite Hg.
    exists s, (false :: suf), (rest ++ gen_codes r (p ++ [true])). now rewrite <- app_assoc.
Qed.

Lemma rebuild_at t : no_hole t = true -> forall pre T, walk T pre = Some Hole ->
  insert_all T (gen_codes t pre) = Some (subst_at T pre t).
Proof.
  induction t as [x| |l IHl r IHr]; intros Hn pre T Hw; cbn [no_hole] in Hn; [| discriminate |].
  - cbn [gen_codes insert_all]. now rewrite (insert_at_hole _ _ _ Hw).
  - apply andb_true_iff in Hn. destruct Hn as [Hl Hr].
    set (T' := subst_at T pre (Node Hole Hole)).
    assert (Hexp : insert_all T (gen_codes (Node l r) pre) = insert_all T' (gen_codes (Node l r) pre)).
    { cbn [gen_codes]. destruct (gen_codes_head l Hl (pre ++ [false])) as [s [suf [rest Hg]]].
      rewrite Hg. cbn [app insert_all]. rewrite <- app_assoc.
      unfold T'. rewrite <- (insert_expand pre T s ([false] ++ suf) Hw) by discriminate. reflexivity. }
    rewrite Hexp. cbn [gen_codes]. rewrite insert_all_app.
    assert (Hwl : walk T' (pre ++ [false]) = Some Hole) by (unfold T'; now rewrite (walk_subst_app _ _ _ _ _ Hw)).
    rewrite (IHl Hl _ _ Hwl).
    assert (Hs1 : subst_at T' (pre ++ [false]) l = subst_at T pre (Node l Hole))
      by (unfold T'; now rewrite (subst_subst _ _ _ _ _ _ Hw)).
    rewrite Hs1.
    assert (Hwr : walk (subst_at T pre (Node l Hole)) (pre ++ [true]) = Some Hole)
      by now rewrite (walk_subst_app _ _ _ _ _ Hw).
    rewrite (IHr Hr _ _ Hwr). now rewrite (subst_subst _ _ _ _ _ _ Hw).
Qed.

(* build_decoding_tree_from_codes(generate_codes(t)) = t for every tree with two or more leaves *)
Theorem rebuild_tree_proof : forall t, no_hole t = true -> is_node t = true ->
  build_root (gen_codes t []) = Some (Some t).
Proof.
  intros [x| |l r] Hn Hnode; try discriminate.
  pose proof (rebuild_at (Node l r) Hn [] Hole eq_refl) as H. cbn [subst_at] in H.
  cbn [no_hole] in Hn. apply andb_true_iff in Hn. destruct Hn as [Hl Hr].
  cbn [gen_codes app] in *.
  destruct (gen_codes_head l Hl [false]) as [s1 [suf1 [rest1 Hg1]]].
  destruct (gen_codes_head r Hr [true]) as [s2 [suf2 [rest2 Hg2]]].
  rewrite Hg1, Hg2 in *. cbn [app] in *.
  assert (Hroot : insert_all Hole ((s1, false :: suf1) :: rest1 ++ (s2, true :: suf2) :: rest2) =
                  insert_all (Node Hole Hole) ((s1, false :: suf1) :: rest1 ++ (s2, true :: suf2) :: rest2)).
  { cbn [insert_all]. change (false :: suf1) with ([] ++ false :: suf1).
    rewrite (insert_expand [] Hole s1 (false :: suf1) eq_refl) by discriminate. reflexivity. }
  rewrite Hroot in H. unfold build_root.
  destruct rest1 as [|e rest1]; cbn [app] in *; now rewrite H.
Qed.

Example ex_rebuild : build_root (gen_codes (Node (Leaf 97) (Node (Leaf 98) (Leaf 99))) []) =
                     Some (Some (Node (Leaf 97) (Node (Leaf 98) (Leaf 99)))).
Proof. reflexivity. Qed.
