(* C01 mechanism model, Huffman half, part 3: the serialised byte formats a decoder on another object reads
   back.  Definitions only.

   src/entropy/huffman.rs as written:
     - HuffmanTree::serialize: symbol count as u16 LE; per entry of the `codes` HashMap the symbol, the code
       length `as u8`, and the code packed LSB first into (len + 7) / 8 bytes with the same loop as the
       encoders' packing loop (`pack`);
     - HuffmanTree::deserialize: "too short" below 2 bytes; per announced entry the two header bytes
       ("Truncated Huffman tree data"), the refusal of a zero code length, (len + 7) / 8 code bytes
       ("Truncated Huffman code data"), bit i of the code = (data[offset + i / 8] >> (i % 8)) & 1,
       `codes.insert` (a repeated symbol replaces the earlier code); trailing bytes are ignored; then
       build_decoding_tree_from_codes over the HashMap;
     - ContextualHuffmanEncoder::serialize: order byte, tree count u32 LE, context count u32 LE, the
       (context u32, tree index u32) pairs of the `context_map` HashMap, then per tree its size u32 LE and
       its serialisation;
     - ContextualHuffmanEncoder::deserialize with all its checks in their order: empty input, order > 2,
       truncated counts, per pair 8 bytes and `tree_idx >= tree_count`, `tree_count == 0`,
       `tree_count > remaining / 4`, per tree the 4 size bytes, `offset + tree_size > len`, and the
       tree's own deserialize on exactly that slice.
   A HashMap is an association list with unique keys (`tb_insert`, `map_insert` replace); the list order of a
   table handed to `ht_serialize` *is* the order in which the HashMap was iterated, and the order in which
   build_decoding_tree_from_codes iterates over the freshly built map is the parameter `hm` (any permutation:
   the theorems quantify over it).  `max_code_length` is a statistic (max of the lengths read) and not
   modelled.  The cursor `offset` is the list of bytes not yet consumed. *)
From ZV.Common Require Import Base.
From ZV.C01 Require Import Model ModelCtx.
Open Scope N_scope.

Definition le16 (v : N) : list N := [v mod 256; (v / 256) mod 256].
Definition le32 (v : N) : list N :=
  [v mod 256; (v / 256) mod 256; (v / 65536) mod 256; (v / 16777216) mod 256].
(* u32::from_le_bytes([data[o], data[o+1], data[o+2], data[o+3]]) behind an `o + 4 > len` check *)
Definition rd_le32 (l : list N) : option (N * list N) :=
  match l with
  | a :: b :: c :: d :: rest => Some (a + 256 * b + 65536 * c + 16777216 * d, rest)
  | _ => None
  end.

(* ------------------------------------------------------------------ *)
(* HuffmanTree::serialize / deserialize                                *)
(* ------------------------------------------------------------------ *)
Definition ser_entry (e : N * list bool) : list N :=
  fst e :: N.of_nat (length (snd e)) mod 256 :: pack (snd e).
(* `tb` = the entries of `codes` in the order the HashMap yields them *)
Definition ht_serialize (tb : table) : list N :=
  le16 (N.of_nat (length tb) mod 65536) ++ flat_map ser_entry tb.

(* HashMap::insert on an association list with unique keys *)
Fixpoint kv_insert {B : Type} (m : list (N * B)) (k : N) (v : B) : list (N * B) :=
  match m with
  | [] => [(k, v)]
  | (k', v') :: t => if k' =? k then (k', v) :: t else (k', v') :: kv_insert t k v
  end.
Definition tb_insert (tb : table) (s : N) (c : list bool) : table := kv_insert tb s c.
Definition code_bytes (len : N) : nat := ((N.to_nat len + 7) / 8)%nat.
(* for _ in 0..symbol_count { ... }; None = Err *)
Fixpoint deser_entries (n : nat) (l : list N) (acc : table) : option table :=
  match n with
  | O => Some acc
  | S k =>
      match l with
      | s :: len :: rest =>
          if len =? 0 then None
          else if (length rest <? code_bytes len)%nat then None
          else deser_entries k (skipn (code_bytes len) rest)
                 (tb_insert acc s (firstn (N.to_nat len) (unpack (firstn (code_bytes len) rest))))
      | _ => None
      end
  end.
(* the tree is built by iterating over the new HashMap (`hm`); the table is that HashMap *)
Definition ht_deserialize (hm : table -> table) (data : list N) : option hufftree :=
  match data with
  | lo :: hi :: rest =>
      match deser_entries (N.to_nat (lo + 256 * hi)) rest [] with
      | Some tb => match build_root (hm tb) with
                   | Some r => Some (mkHT r tb)
                   | None => None
                   end
      | None => None
      end
  | _ => None
  end.

(* ------------------------------------------------------------------ *)
(* ContextualHuffmanEncoder::serialize / deserialize                   *)
(* ------------------------------------------------------------------ *)
Definition ser_tree (ht : hufftree) : list N :=
  let td := ht_serialize (ht_codes ht) in le32 (N.of_nat (length td) mod W32) ++ td.
Definition c_serialize (e : cenc) : list N :=
  c_order e :: le32 (N.of_nat (length (c_trees e)) mod W32) ++ le32 (N.of_nat (length (c_map e)) mod W32)
  ++ flat_map (fun p => le32 (fst p) ++ le32 (N.of_nat (snd p) mod W32)) (c_map e)
  ++ flat_map ser_tree (c_trees e).

Definition map_insert (m : list (N * nat)) (k : N) (i : nat) : list (N * nat) := kv_insert m k i.
(* for _ in 0..context_count: the counter is a u32 (N); the fuel is the number of bytes left (+1), every
   iteration consumes 8 of them, so the fuel never runs out before the counter or the bytes do *)
Fixpoint deser_map (fuel : nat) (n ntrees : N) (l : list N) (acc : list (N * nat))
  : option (list (N * nat) * list N) :=
  if n =? 0 then Some (acc, l)
  else match fuel with
       | O => None
       | S f =>
           match rd_le32 l with
           | Some (ctx, l1) =>
               match rd_le32 l1 with
               | Some (idx, l2) =>
                   if ntrees <=? idx then None      (* "Context map refers to a missing tree" *)
                   else deser_map f (n - 1) ntrees l2 (map_insert acc ctx (N.to_nat idx))
               | None => None
               end
           | None => None
           end
       end.
Fixpoint deser_trees (hm : table -> table) (n : nat) (l : list N) : option (list hufftree) :=
  match n with
  | O => Some []
  | S k =>
      match rd_le32 l with
      | Some (sz, l1) =>
          if N.of_nat (length l1) <? sz then None      (* "Truncated tree data" *)
          else match ht_deserialize hm (firstn (N.to_nat sz) l1) with
               | Some ht => match deser_trees hm k (skipn (N.to_nat sz) l1) with
                            | Some r => Some (ht :: r)
                            | None => None
                            end
               | None => None
               end
      | None => None
      end
  end.
Definition c_deserialize (hm : table -> table) (data : list N) : option cenc :=
  match data with
  | [] => None
  | o :: l0 =>
      if 2 <? o then None
      else match rd_le32 l0 with
           | None => None
           | Some (tc, l1) =>
               match rd_le32 l1 with
               | None => None
               | Some (cc, l2) =>
                   match deser_map (S (length l2)) cc tc l2 [] with
                   | None => None
                   | Some (m, l3) =>
                       if tc =? 0 then None
                       else if N.of_nat (length l3) / 4 <? tc then None
                       else match deser_trees hm (N.to_nat tc) l3 with
                            | Some ts => Some (mkC o ts m)
                            | None => None
                            end
                   end
               end
           end
  end.

(* ------------------------------------------------------------------ *)
(* decidable side conditions of the theorems                            *)
(* ------------------------------------------------------------------ *)
Fixpoint nodup_keys {B : Type} (l : list (N * B)) : bool :=
  match l with
  | [] => true
  | (k, _) :: t => negb (existsb (fun p => fst p =? k) t) && nodup_keys t
  end.
(* what a `codes` HashMap over u8 with the lengths `serialize` can write looks like *)
Definition ser_ok (tb : table) : bool :=
  nodup_keys tb && (N.of_nat (length tb) <? 65536)
  && forallb (fun e => (fst e <? 256) && (0 <? length (snd e))%nat && (length (snd e) <? 256)%nat) tb.
Definition cser_ok (e : cenc) : bool :=
  (c_order e <=? 2) && nonempty (c_trees e)
  && forallb (fun p => (snd p <? length (c_trees e))%nat) (c_map e)
  && (N.of_nat (length (c_trees e)) <? W32) && (N.of_nat (length (c_map e)) <? W32)
  && nodup_keys (c_map e) && forallb (fun p => fst p <? W32) (c_map e)
  && forallb (fun ht => ser_ok (ht_codes ht) && nonempty (ht_codes ht) && prefix_free (ht_codes ht)
                        && (N.of_nat (length (ht_serialize (ht_codes ht))) <? W32)) (c_trees e).

(* ------------------------------------------------------------------ *)
(* entry points of the harness-generated case files (ops 7-10)          *)
(* ------------------------------------------------------------------ *)
(* the table as the harness reads it from the real object: get_code for the symbols 0..255 in ascending order *)
Fixpoint canon_go (tb : table) (n : nat) (s : N) : list N :=
  match n with
  | O => []
  | S k => match get_code tb s with
           | Some c => s :: N.of_nat (length c) :: n_of_bits c :: canon_go tb k (s + 1)
           | None => canon_go tb k (s + 1)
           end
  end.
Definition canon_table (tb : table) : list N := N.of_nat (length tb) :: canon_go tb 256 0.
Definition hm_id (t : table) : table := t.

Definition run_case_ser (op : N) (a b : list N) : list N :=
  match op with
  (* HuffmanTree::serialize: a = the table in the order the real bytes list it *)
  | 7 => match a with
         | n :: rest => match parse_table (N.to_nat n) rest with
                        | Some (tb, _) => 1 :: ht_serialize tb
                        | None => bad_case
                        end
         | [] => bad_case
         end
  (* HuffmanTree::deserialize(b), then HuffmanDecoder::decode(a' , outlen) in the copy: a = outlen :: a' *)
  | 8 => match a with
         | n :: enc =>
             match ht_deserialize hm_id b with
             | Some ht => 1 :: canon_table (ht_codes ht) ++ res (huff_decode ht enc (N.to_nat n))
             | None => [0]
             end
         | [] => bad_case
         end
  (* ContextualHuffmanEncoder::serialize: a = the view in the order the real bytes list it *)
  | 9 => match parse_cenc a with
         | Some e => 1 :: c_serialize e
         | None => bad_case
         end
  (* ContextualHuffmanEncoder::deserialize(b), then a decoder of the copy: a = kind :: nst :: outlen :: enc,
     kind 0 = ContextualHuffmanDecoder::decode, kind 1 = decode_xN *)
  | 10 => match a with
          | kind :: nst :: n :: enc =>
              match c_deserialize hm_id b with
              | Some e =>
                  1 :: c_order e :: N.of_nat (length (c_trees e)) :: N.of_nat (length (c_map e))
                  :: flat_map (fun p => [fst p; N.of_nat (snd p)]) (c_map e)
                  ++ flat_map (fun ht => canon_table (ht_codes ht)) (c_trees e)
                  ++ res (if kind =? 0 then ctx_decode e enc (N.to_nat n)
                          else xn_decode e (N.to_nat nst) enc (N.to_nat n))
              | None => [0]
              end
          | _ => bad_case
          end
  | _ => bad_case
  end.
