(* C01: the behaviours that were repaired in the tree under verification are refuted on the model of the
   code as it was, with concrete witnesses (the same witnesses are in corpus/C01 and run on the real code).
   Also: the quirks of the decoders that the round-trip theorems' side conditions exclude. *)
From ZV.Common Require Import Base.
From ZV.C01 Require Import Model ModelCtx ProofsHuff ProofsCtx.
Open Scope N_scope.

(* a chain: symbol i has the code 1^i 0, the last one 1^(k-1) *)
Fixpoint chain_tree (first : N) (k : nat) : tree :=
  match k with
  | O => Leaf first
  | S j => Node (Leaf first) (chain_tree (first + 1) j)
  end.
Definition chain_ht (first : N) (k : nat) : hufftree :=
  let t := chain_tree first k in mkHT (Some t) (gen_codes t []).

(* 18 symbols 100..117: the two deepest have 17-bit codes *)
Definition long_enc : cenc := mkC 1 [chain_ht 100 17] [].
Example long_enc_wf : wf_cenc long_enc = true. Proof. vm_compute. reflexivity. Qed.
Example long_enc_max : max_len (ht_codes (chain_ht 100 17)) = 17%nat. Proof. vm_compute. reflexivity. Qed.

(* the 16-bit fast symbol table as it was: a 17-bit code is cut to 16 bits, the stream does not decode *)
Theorem xn_refuted_long_codes_proof :
  exists e d b, wf_cenc e = true /\ xn_encode_g true e 1 d = Some b /\ xn_decode e 1 b (length d) <> Some d.
Proof. exists long_enc, [117; 116; 100], [255; 255; 255; 255; 0]. vm_compute. repeat split; discriminate. Qed.
(* ... and as it is: the same input round-trips *)
Example xn_long_codes_now : exists b, xn_encode long_enc 1 [117; 116; 100] = Some b /\
                                      xn_decode long_enc 1 b 3 = Some [117; 116; 100].
Proof. eexists. split; vm_compute; reflexivity. Qed.

(* the placeholder entry (0, 1) as it was: a symbol without a code was written as one 0 bit and came back
   as another symbol *)
Theorem xn_refuted_missing_symbol_proof :
  exists e d b, wf_cenc e = true /\ get_code (ht_codes (tree_at e 0)) (nth 0 d 0) = None /\
                xn_encode_g true e 1 d = Some b /\ xn_decode e 1 b (length d) <> Some d.
Proof. exists long_enc, [7], [0]. vm_compute. repeat split; discriminate. Qed.
Example xn_missing_symbol_now : xn_encode long_enc 1 [7] = None.
Proof. vm_compute. reflexivity. Qed.

(* the Order-0 fallback inside a mapped context as it was: the decoder walks the context's tree *)
Definition fb_enc : cenc :=
  mkC 1 [ex_ht; mkHT (Some (Node (Leaf 97) (Leaf 98))) [(97, [false]); (98, [true])]] [(97, 1%nat)].
Theorem ctx_refuted_fallback_proof :
  exists e d b, wf_cenc e = true /\ ctx_encode_g true e d = Some b /\ ctx_decode e b (length d) <> Some d.
Proof. exists fb_enc, [97; 99], [6]. vm_compute. repeat split; discriminate. Qed.
Example ctx_fallback_now : ctx_encode fb_enc [97; 99] = None.
Proof. vm_compute. reflexivity. Qed.

(* a single-leaf context tree as the decoders handled it (no bit consumed for its symbol) *)
Definition sl_enc : cenc := mkC 1 [ex_ht; mkHT (Some (Leaf 97)) [(97, [false])]] [(98, 1%nat)].
Theorem ctx_refuted_single_leaf_proof :
  exists e d b, wf_cenc e = true /\ ctx_encode e d = Some b /\ ctx_decode_g false e b (length d) <> Some d.
Proof. exists sl_enc, [98; 97; 98], [9]. vm_compute. repeat split; discriminate. Qed.
Theorem xn_refuted_single_leaf_proof :
  exists e d b, wf_cenc e = true /\ xn_encode e 1 d = Some b /\ xn_decode_g false e 1 b (length d) <> Some d.
Proof. exists sl_enc, [98; 97; 98], [9]. vm_compute. repeat split; discriminate. Qed.
Example single_leaf_now : ctx_decode sl_enc [9] 3 = Some [98; 97; 98] /\ xn_decode sl_enc 1 [9] 3 = Some [98; 97; 98].
Proof. split; vm_compute; reflexivity. Qed.

(* quirk kept by the code: with no input bytes the decoders answer Ok([]) whatever length is asked for *)
Theorem decode_empty_input_quirk_proof :
  forall ht n, huff_decode ht [] n = Some [].
Proof. intros ht n. reflexivity. Qed.
