(* C01 mechanism model, LZ-style dictionary coders.  Definitions only.

   src/entropy/dictionary.rs as written:
     DictionaryCompressor::compress    - greedy parse; for every position the whole window
                                         pos-32768 .. pos-1 is searched front to back, the longest match wins,
                                         the earliest position on ties, matches shorter than
                                         max(min_match_length, 10) are ignored, length <= max_match_length
     DictionaryCompressor::decompress  - token stream  0 b | 1 off32le len32le ; a match copies byte by byte
                                         from its own output (overlapping copies repeat the pattern)
     OptimizedDictionaryCompressor::decompress is the same function; its compress differs only in how
     candidates are found (hash table / suffix array over the training text, then verified against the
     payload's own history) - it is covered by the generic theorem over every sound match chooser.

   Bytes are N (< 256), u32 fields N, positions N; nat only for fuel and list indices.
   This file also holds the little-endian helpers shared with ModelRans.v / ModelFse.v. *)
From ZV.Common Require Import Base.
Open Scope N_scope.

(* ---------- little-endian integers: u32::to_le_bytes / u64::to_le_bytes / from_le_bytes ---------- *)
Fixpoint le_bytes (n : nat) (x : N) : list N :=
  match n with
  | O => []
  | S k => x mod 256 :: le_bytes k (x / 256)
  end.
Fixpoint from_le (l : list N) : N :=
  match l with
  | [] => 0
  | b :: t => b + 256 * from_le t
  end.

(* entropy::MAX_DECOMPRESSED_SIZE = 100 * 1024 * 1024 *)
Definition MAX_DECOMPRESSED_SIZE : N := 104857600.
Definition WINDOW : N := 32768.

(* ---------- token stream ---------- *)
Inductive token : Type :=
| Lit (b : N)
| Mat (off len : N).

(* result.push(0); result.push(b)  |  result.push(1); offset as u32 LE; length as u32 LE *)
Definition emit_token (tk : token) : list N :=
  match tk with
  | Lit b => [0; b]
  | Mat off len => 1 :: le_bytes 4 (off mod W32) ++ le_bytes 4 (len mod W32)
  end.
Definition emit (toks : list token) : list N := concat (map emit_token toks).

(* ---------- decompress ---------- *)
(* for i in 0..length { copy_pos = start_pos + i; if copy_pos < result.len() { push(result[copy_pos]) }
                         else { wrapped = start_pos + i % offset; if wrapped < result.len() { push } else { Err } } } *)
Fixpoint copy_loop (cnt : nat) (i start off : N) (res : list N) : option (list N) :=
  match cnt with
  | O => Some res
  | S k =>
      let copy_pos := start + i in
      if copy_pos <? nlen res
      then copy_loop k (i + 1) start off (res ++ [nth (N.to_nat copy_pos) res 0])
      else
        let wrapped := start + i mod off in
        if wrapped <? nlen res
        then copy_loop k (i + 1) start off (res ++ [nth (N.to_nat wrapped) res 0])
        else None
  end.

(* while pos < compressed.len() { flag = data[pos]; ... }   None = Err (or fuel, which S (length z) never exhausts) *)
Fixpoint dec_loop (fuel : nat) (z : list N) (res : list N) : option (list N) :=
  match fuel with
  | O => None
  | S k =>
      match z with
      | [] => Some res
      | flag :: z1 =>
          if flag =? 0 then
            match z1 with
            | [] => None
            | b :: z2 => dec_loop k z2 (res ++ [b])
            end
          else if flag =? 1 then
            match z1 with
            | o0 :: o1 :: o2 :: o3 :: l0 :: l1 :: l2 :: l3 :: z2 =>
                let off := from_le [o0; o1; o2; o3] in
                let len := from_le [l0; l1; l2; l3] in
                if (off =? 0) || (nlen res <? off) then None
                else if MAX_DECOMPRESSED_SIZE - nlen res <? len then None
                else match copy_loop (N.to_nat len) 0 (nlen res - off) off res with
                     | Some r => dec_loop k z2 r
                     | None => None
                     end
            | _ => None
            end
          else None
      end
  end.
Definition decompress (z : list N) : option (list N) := dec_loop (S (length z)) z [].

(* ---------- compress ---------- *)
(* while match_len < max_match_len && data[search_pos + match_len] == data[pos + match_len];
   a = data[search_pos..], b = data[pos..]; running out of b is the bound data.len() - pos *)
Fixpoint cpl (max : nat) (a b : list N) : nat :=
  match max, a, b with
  | S m, x :: a', y :: b' => if x =? y then S (cpl m a' b') else O
  | _, _, _ => O
  end.

(* for search_pos in search_start..pos: suf = data[search_pos..], dist = pos - search_pos *)
Fixpoint scan (cnt : nat) (suf cur : list N) (dist : N) (minl : N) (maxl : nat) (best : N * N) : N * N :=
  match cnt with
  | O => best
  | S k =>
      let ml := N.of_nat (cpl maxl suf cur) in
      let best' := if (minl <=? ml) && (snd best <? ml) then (dist, ml) else best in
      scan k (tl suf) cur (dist - 1) minl maxl best'
  end.

(* (best_match_offset, best_match_length) at position pos; length 0 = no match *)
Definition find_best (minl maxl : N) (data : list N) (pos : N) : N * N :=
  let search_start := pos - WINDOW in
  scan (N.to_nat (pos - search_start)) (skipn (N.to_nat search_start) data) (skipn (N.to_nat pos) data)
       (pos - search_start) (N.max minl 10) (N.to_nat maxl) (0, 0).

(* a match chooser: data -> pos -> (offset, length) *)
Definition chooser : Type := list N -> N -> N * N.

Fixpoint comp_loop (ch : chooser) (fuel : nat) (data : list N) (pos : N) : list token :=
  match fuel with
  | O => []
  | S k =>
      if pos <? nlen data then
        let '(off, len) := ch data pos in
        if 0 <? len then Mat off len :: comp_loop ch k data (pos + len)
        else Lit (nth (N.to_nat pos) data 0) :: comp_loop ch k data (pos + 1)
      else []
  end.
Definition compress_with (ch : chooser) (data : list N) : list N :=
  emit (comp_loop ch (length data) data 0).
(* DictionaryCompressor { min_match_length, max_match_length }::compress *)
Definition compress (minl maxl : N) (data : list N) : list N := compress_with (find_best minl maxl) data.

(* ---------- a parse of a payload into tokens (spec side of the generic theorem) ----------
   parses pre toks rest: starting with `pre` already produced, the tokens spell out `rest`;
   a match of length len at distance off repeats what lies off bytes back, byte by byte. *)
Definition match_at (pre chunk : list N) (off : N) : Prop :=
  forall k, (k < length chunk)%nat ->
            nth k chunk 0 = nth (N.to_nat (nlen pre - off) + k) (pre ++ chunk) 0.
Inductive parses : list N -> list token -> list N -> Prop :=
| P_nil pre : parses pre [] []
| P_lit pre b toks rest :
    parses (pre ++ [b]) toks rest -> parses pre (Lit b :: toks) (b :: rest)
| P_mat pre off len toks chunk rest :
    0 < off -> off <= nlen pre -> off < W32 -> len < W32 -> nlen chunk = len ->
    nlen pre + len <= MAX_DECOMPRESSED_SIZE ->
    match_at pre chunk off ->
    parses (pre ++ chunk) toks rest -> parses pre (Mat off len :: toks) (chunk ++ rest).

(* what a chooser must guarantee at a position: either no match, or a true match inside the data *)
Definition sound_at (ch : chooser) (data : list N) (pos : N) : Prop :=
  let '(off, len) := ch data pos in
  len = 0 \/
  (0 < off /\ off <= pos /\ off < W32 /\ len < W32 /\ pos + len <= nlen data /\
   forall k, k < len -> nth (N.to_nat (pos + k)) data 0 = nth (N.to_nat (pos - off + k)) data 0).
Definition sound (ch : chooser) (data : list N) : Prop := forall pos, pos < nlen data -> sound_at ch data pos.
