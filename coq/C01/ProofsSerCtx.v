(* C01: ContextualHuffmanEncoder::serialize / deserialize.  deserialize reads the order, the context map and
   every code table back; the contextual decoder and the interleaved decoders of the copy decode what the
   original object encoded. *)
From ZV.Common Require Import Base.
From Coq Require Import Permutation.
From ZV.C01 Require Import Model ModelCtx ModelSer ProofsBits ProofsHuff ProofsTree ProofsCtx ProofsXn ProofsSer.
Open Scope N_scope.

Lemma le32_rd v tl : v < W32 -> rd_le32 (le32 v ++ tl) = Some (v, tl).
Proof.
  intros H. unfold le32, rd_le32. cbn [app]. unfold W32 in H. f_equal. f_equal. lia.
Qed.

Definition pair_ok (nt : N) (p : N * nat) : bool := (fst p <? W32) && (N.of_nat (snd p) <? nt).
Definition ser_pair (p : N * nat) : list N := le32 (fst p) ++ le32 (N.of_nat (snd p) mod W32).

Lemma deser_map_ser : forall m fuel acc tl nt,
  (length m <= fuel)%nat -> nt <= W32 ->
  nodup_keys (acc ++ m) = true -> forallb (pair_ok nt) m = true ->
  deser_map fuel (N.of_nat (length m)) nt (flat_map ser_pair m ++ tl) acc = Some (acc ++ m, tl).
Proof.
  induction m as [|[k i] m IH]; intros fuel acc tl nt Hfuel Hnt Hnd Hok.
  - cbn [length flat_map app]. rewrite app_nil_r. destruct fuel; reflexivity.
  - destruct fuel as [|f]; [cbn [length] in Hfuel; lia|].
    cbn [forallb] in Hok. apply andb_true_iff in Hok. destruct Hok as [Hp Hok].
    unfold pair_ok in Hp. cbn [fst snd] in Hp. apply andb_true_iff in Hp. destruct Hp as [Hk Hi].
    apply N.ltb_lt in Hk. apply N.ltb_lt in Hi.
    destruct (nodup_keys_mid acc k i m Hnd) as [Hfresh Hnd'].
    cbn [deser_map].
    replace (N.of_nat (length ((k, i) :: m)) =? 0) with false
      by (symmetry; apply N.eqb_neq; cbn [length]; lia).
    cbn [flat_map]. unfold ser_pair at 1. cbn [fst snd]. rewrite <- !app_assoc.
    rewrite le32_rd by exact Hk.
    rewrite N.mod_small by lia. rewrite le32_rd by lia.
    replace (nt <=? N.of_nat i) with false by (symmetry; apply N.leb_gt; exact Hi).
    rewrite Nat2N.id. unfold map_insert. rewrite kv_insert_fresh by exact Hfresh.
    replace (N.of_nat (length ((k, i) :: m)) - 1) with (N.of_nat (length m)) by (cbn [length]; lia).
    rewrite IH; [now rewrite <- app_assoc|cbn [length] in Hfuel; lia|exact Hnt|exact Hnd'|exact Hok].
Qed.

(* the copy of one tree: the same code table, the decoding tree rebuilt from it *)
Definition retree (hm : table -> table) (ht : hufftree) : hufftree :=
  mkHT (match build_root (hm (ht_codes ht)) with Some r => r | None => None end) (ht_codes ht).
Definition tree_ok (ht : hufftree) : bool :=
  ser_ok (ht_codes ht) && nonempty (ht_codes ht) && prefix_free (ht_codes ht)
  && (N.of_nat (length (ht_serialize (ht_codes ht))) <? W32).

Lemma deser_trees_ser hm : (forall t, Permutation (hm t) t) -> forall ts tl,
  forallb tree_ok ts = true ->
  deser_trees hm (length ts) (flat_map ser_tree ts ++ tl) = Some (map (retree hm) ts).
Proof.
  intros Hhm. induction ts as [|ht ts IH]; intros tl Hok; [reflexivity|].
  cbn [forallb] in Hok. apply andb_true_iff in Hok. destruct Hok as [Ht Hok].
  unfold tree_ok in Ht. apply andb_true_iff in Ht. destruct Ht as [Ht Hsz].
  apply andb_true_iff in Ht. destruct Ht as [Ht Hpf]. apply andb_true_iff in Ht. destruct Ht as [Hser Hne].
  apply N.ltb_lt in Hsz.
  cbn [length flat_map deser_trees]. unfold ser_tree at 1. cbv zeta.
  set (td := ht_serialize (ht_codes ht)) in *.
  rewrite <- !app_assoc. rewrite N.mod_small by exact Hsz. rewrite le32_rd by exact Hsz.
  replace (N.of_nat (length (td ++ flat_map ser_tree ts ++ tl)) <? N.of_nat (length td)) with false
    by (symmetry; apply N.ltb_ge; rewrite app_length; lia).
  rewrite Nat2N.id, firstn_app_exact, skipn_app_exact.
  pose proof (ht_deserialize_serialize_proof hm (ht_codes ht) [] Hser) as Hd. rewrite app_nil_r in Hd.
  fold td in Hd. rewrite Hd.
  destruct (deserialized_wf hm (ht_codes ht) Hhm Hser Hpf) as [r [Hb _]].
  rewrite IH by exact Hok. rewrite Hb. cbn [map]. f_equal. f_equal. unfold retree. now rewrite Hb.
Qed.

Lemma ser_trees_length ts : (4 * length ts <= length (flat_map ser_tree ts))%nat.
Proof.
  induction ts as [|ht ts IH]; [cbn; lia|].
  cbn [flat_map length]. rewrite app_length. unfold ser_tree at 1. cbv zeta. rewrite app_length.
  unfold le32 at 1. cbn [length]. lia.
Qed.

Lemma ser_map_length m : length (flat_map ser_pair m) = (8 * length m)%nat.
Proof.
  induction m as [|p m IH]; [reflexivity|].
  cbn [flat_map length]. rewrite app_length, IH. unfold ser_pair. rewrite app_length. unfold le32. cbn [length]. lia.
Qed.

Definition twin (hm : table -> table) (e : cenc) : cenc :=
  mkC (c_order e) (map (retree hm) (c_trees e)) (c_map e).

(* deserialize(serialize(e)) = the same order, the same context map, the same code tables *)
Theorem c_deserialize_serialize_proof : forall hm e,
  (forall t, Permutation (hm t) t) -> cser_ok e = true ->
  c_deserialize hm (c_serialize e) = Some (twin hm e).
Proof.
  intros hm e Hhm Hok. unfold cser_ok in Hok.
  repeat (apply andb_true_iff in Hok; let H := fresh "H" in destruct Hok as [Hok H]).
  rename H into Htrees, H0 into Hk32, H1 into Hnd, H2 into Hnc, H3 into Hnt, H4 into Hidx, H5 into Hne.
  apply N.leb_le in Hok. apply N.ltb_lt in Hnc. apply N.ltb_lt in Hnt.
  unfold c_serialize, c_deserialize.
  replace (2 <? c_order e) with false by (symmetry; apply N.ltb_ge; exact Hok).
  rewrite !N.mod_small by assumption.
  rewrite le32_rd by exact Hnt. rewrite le32_rd by exact Hnc.
  change (flat_map (fun p : N * nat => le32 (fst p) ++ le32 (N.of_nat (snd p) mod W32)) (c_map e))
    with (flat_map ser_pair (c_map e)).
  rewrite (deser_map_ser (c_map e) _ [] _ (N.of_nat (length (c_trees e)))).
  - cbn [app].
    replace (N.of_nat (length (c_trees e)) =? 0) with false
      by (symmetry; apply N.eqb_neq; destruct (c_trees e); [discriminate|cbn [length]; lia]).
    replace (N.of_nat (length (flat_map ser_tree (c_trees e))) / 4 <? N.of_nat (length (c_trees e))) with false
      by (symmetry; apply N.ltb_ge; pose proof (ser_trees_length (c_trees e)); lia).
    rewrite Nat2N.id.
    pose proof (deser_trees_ser hm Hhm (c_trees e) [] Htrees) as Hd. rewrite app_nil_r in Hd. rewrite Hd.
    reflexivity.
  - rewrite !app_length, ser_map_length. lia.
  - lia.
  - exact Hnd.
  - apply forallb_forall. intros p Hp. unfold pair_ok.
    rewrite forallb_forall in Hk32, Hidx. rewrite (Hk32 p Hp). cbn [andb].
    specialize (Hidx p Hp). apply Nat.ltb_lt in Hidx. apply N.ltb_lt. lia.
Qed.

(* the copy is a well-formed encoder with the same code tables *)
Lemma codes_nth_retree hm : forall l i,
  ht_codes (nth i (map (retree hm) l) empty_ht) = ht_codes (nth i l empty_ht).
Proof. induction l as [|h l IH]; destruct i; cbn [map nth]; auto. Qed.
Lemma twin_wf hm e : (forall t, Permutation (hm t) t) -> cser_ok e = true -> wf_cenc (twin hm e) = true.
Proof.
  intros Hhm Hok. unfold cser_ok in Hok.
  repeat (apply andb_true_iff in Hok; let H := fresh "H" in destruct Hok as [Hok H]).
  unfold wf_cenc, twin. cbn [c_trees c_map]. rewrite map_length.
  apply andb_true_iff. split; [apply andb_true_iff; split|].
  - destruct (c_trees e); [discriminate|reflexivity].
  - apply forallb_forall. intros ht' Hin. apply in_map_iff in Hin. destruct Hin as [ht [<- Hin]].
    rewrite forallb_forall in H. specialize (H ht Hin).
    apply andb_true_iff in H. destruct H as [H _]. apply andb_true_iff in H. destruct H as [H G0].
    apply andb_true_iff in H. destruct H as [H G1].
    destruct (deserialized_wf hm (ht_codes ht) Hhm H G0) as [r [Hb [Hw Hsome]]].
    unfold retree. rewrite Hb. rewrite Hw. unfold has_root. cbn [ht_root andb].
    destruct r; [reflexivity|]. exfalso. apply Hsome; [|reflexivity].
    destruct (ht_codes ht); [discriminate|discriminate].
  - assumption.
Qed.

Lemma twin_tree_at hm e i : ht_codes (tree_at (twin hm e) i) = ht_codes (tree_at e i).
Proof. unfold tree_at, twin. cbn [c_trees]. apply codes_nth_retree. Qed.
Lemma twin_sym_code hm e fb hist s : sym_code fb (twin hm e) hist s = sym_code fb e hist s.
Proof.
  unfold sym_code. change (c_order (twin hm e)) with (c_order e).
  change (map_get (twin hm e)) with (map_get e). rewrite !twin_tree_at.
  destruct (ctx_key (c_order e) hist); [|reflexivity].
  destruct (map_get e n); [|reflexivity]. now rewrite twin_tree_at.
Qed.
Lemma twin_ctx_bits hm e fb : forall d hist, ctx_bits fb (twin hm e) hist d = ctx_bits fb e hist d.
Proof.
  induction d as [|s d IH]; intros hist; [reflexivity|].
  cbn [ctx_bits]. rewrite twin_sym_code. destruct (sym_code fb e hist s); [|reflexivity]. now rewrite IH.
Qed.

(* a ContextualHuffmanDecoder on deserialize(serialize(encoder)) decodes what the original encoder wrote *)
Theorem ctx_serialized_decodes_proof : forall hm e d b,
  (forall t, Permutation (hm t) t) -> cser_ok e = true ->
  ctx_encode e d = Some b ->
  exists e', c_deserialize hm (c_serialize e) = Some e' /\ wf_cenc e' = true /\
             ctx_decode e' b (length d) = Some d.
Proof.
  intros hm e d b Hhm Hok Henc. exists (twin hm e).
  split; [now apply c_deserialize_serialize_proof|]. split; [now apply twin_wf|].
  apply ctx_roundtrip_proof; [now apply twin_wf|].
  unfold ctx_encode, ctx_encode_g in *. destruct d as [|s d]; [exact Henc|].
  now rewrite twin_ctx_bits.
Qed.

(* the interleaved pair across the serialisation *)
Lemma rr_round_ext {St} early (f g : N -> nat -> St -> option (N * St)) :
  (forall c p s, f c p s = g c p s) ->
  forall sts rem s, rr_round early f sts rem s = rr_round early g sts rem s.
Proof.
  intros H. induction sts as [|[[p e] c] rest IH]; intros rem s; [reflexivity|].
  cbn [rr_round]. destruct (e <=? p)%nat; [now rewrite IH|].
  rewrite H. destruct (g c p s) as [[sym s1]|]; [|reflexivity].
  destruct (early && (rem - 1 =? 0)%nat); [reflexivity|now rewrite IH].
Qed.
Lemma rr_loop_ext {St} early (f g : N -> nat -> St -> option (N * St)) :
  (forall c p s, f c p s = g c p s) ->
  forall fuel sts rem s, rr_loop early f fuel sts rem s = rr_loop early g fuel sts rem s.
Proof.
  intros H. induction fuel as [|fuel IH]; intros sts rem s; destruct rem; cbn [rr_loop]; try reflexivity.
  rewrite (rr_round_ext early f g H). destruct (rr_round early g sts (S rem) s) as [[[sts' rem'] s']|]; [apply IH|reflexivity].
Qed.
Lemma twin_xn_tree hm e ctx : ht_codes (xn_tree (twin hm e) ctx) = ht_codes (xn_tree e ctx).
Proof.
  unfold xn_tree. change (map_get (twin hm e)) with (map_get e).
  destruct (ctx =? 256); [apply twin_tree_at|]. destruct (map_get e ctx); apply twin_tree_at.
Qed.
Lemma twin_enc_step hm e trunc d ctx pos w : enc_step trunc (twin hm e) d ctx pos w = enc_step trunc e d ctx pos w.
Proof. unfold enc_step, fast_entry. now rewrite twin_xn_tree. Qed.

Theorem xn_serialized_decodes_proof : forall hm e nst d b,
  (forall t, Permutation (hm t) t) -> cser_ok e = true -> (1 <= nst)%nat ->
  xn_encode e nst d = Some b ->
  exists e', c_deserialize hm (c_serialize e) = Some e' /\
             xn_decode e' nst b (length d) = Some d.
Proof.
  intros hm e nst d b Hhm Hok Hn Henc. exists (twin hm e).
  split; [now apply c_deserialize_serialize_proof|].
  apply xn_roundtrip_proof; [now apply twin_wf|exact Hn|].
  unfold xn_encode, xn_encode_g in *. change (c_order (twin hm e)) with (c_order e).
  destruct (negb (c_order e =? 1)); [exact Henc|]. destruct d as [|s d]; [exact Henc|].
  rewrite (rr_loop_ext false _ (enc_step false e (s :: d))); [exact Henc|].
  intros. apply twin_enc_step.
Qed.

Example ex_cser_ok : cser_ok ex_cenc = true. Proof. reflexivity. Qed.
Example ex_cser_rt : exists e' b, c_deserialize hm_id (c_serialize ex_cenc) = Some e' /\
  ctx_encode ex_cenc [97; 98; 99; 97; 97] = Some b /\ ctx_decode e' b 5 = Some [97; 98; 99; 97; 97].
Proof. eexists. eexists. split; [reflexivity|]. split; reflexivity. Qed.
