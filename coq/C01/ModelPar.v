(* placeholder *)
From ZV.Common Require Import Base.
