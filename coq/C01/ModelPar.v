(* C01 mechanism model, Huffman half, part 5: the parallel front end.  Definitions only.

   src/entropy/parallel.rs as written - ParallelHuffmanEncoder<P> / ParallelHuffmanDecoder<P>, P::STREAMS = 2, 4, 8:
     - train(text): `encoders.clear()`, then STREAMS times `encoders.push(HuffmanEncoder::new(text)?)` (an Err
       leaves the encoders built so far), then `shared_tree = Some(HuffmanTree::from_data(text)?)`;
     - encode(data): `if encoders.is_empty() { train(data)? }` (the encoder trains itself on the first payload it
       sees and keeps that model), then - in both branches of the `data.len() < min_parallel_size` test, which
       differ in their log line only - `encoders[0].encode(data)`: **the payload is not split into lanes**, the
       other STREAMS - 1 encoders and every field of ParallelConfig have no influence on the bytes
       (split_data_into_blocks / merge_blocks are never called);
     - decoder: set_tree(tree) fills `decoders` with STREAMS HuffmanDecoders on clones of the tree,
       decode = Err("Decoder not initialized with tree") without decoders, else `decoders[0].decode`.
   So `decode_xN (encode_xN data) = data` is the single-lane theorem for whatever model is in force; what this
   file adds is the object's state (which model is in force after a history of train / encode calls).
   HuffmanEncoder::new / HuffmanTree::from_data = the counting loop + from_frequencies of ModelNew.v with the heap
   as the parameter `heap_of`. *)
From ZV.Common Require Import Base.
From ZV.C01 Require Import Model ModelCtx ModelNew.
Open Scope N_scope.

Record penc := mkP { p_encs : list hufftree;           (* encoders (their trees) *)
                     p_shared : option hufftree }.     (* shared_tree *)
Definition p_new : penc := mkP [] None.

(* for _ in 0..P::STREAMS { encoders.push(HuffmanEncoder::new(training_data)?) } *)
Fixpoint train_loop (heap_of : list N -> tree) (k : nat) (t : list N) (encs : list hufftree)
  : list hufftree * bool :=
  match k with
  | O => (encs, true)
  | S k' => match from_data heap_of t with
            | Some ht => train_loop heap_of k' t (encs ++ [ht])
            | None => (encs, false)
            end
  end.
(* train; the boolean is Ok / Err *)
Definition p_train (heap_of : list N -> tree) (n : nat) (t : list N) (st : penc) : penc * bool :=
  let '(encs, ok) := train_loop heap_of n t [] in
  if ok then match from_data heap_of t with
             | Some ht => (mkP encs (Some ht), true)
             | None => (mkP encs (p_shared st), false)
             end
  else (mkP encs (p_shared st), false).
(* encode *)
Definition p_encode (heap_of : list N -> tree) (n : nat) (d : list N) (st : penc) : penc * option (list N) :=
  let '(st1, ok) := match p_encs st with [] => p_train heap_of n d st | _ => (st, true) end in
  if ok then match p_encs st1 with
             | e0 :: _ => (st1, huff_encode e0 d)
             | [] => (st1, None)            (* encoders[0] out of bounds: STREAMS = 0 does not exist *)
             end
  else (st1, None).

(* ParallelHuffmanDecoder *)
Definition pd_set_tree (n : nat) (ht : hufftree) : list hufftree := repeat ht n.
Definition pd_decode (decs : list hufftree) (b : list N) (outlen : nat) : option (list N) :=
  match decs with
  | [] => None
  | d0 :: _ => huff_decode d0 b outlen
  end.

(* AdaptiveParallelEncoder::encode_adaptive, the Huffman arms: the variant is chosen by the payload size alone
   (below 64 KiB x2, below 1 MiB x4, else x8; the algorithm choice - an f64 entropy estimate - is outside the model),
   then `huffman_xN.train(data)?; huffman_xN.encode(data)` on that member object, whatever state it is in *)
Definition ad_streams (len : N) : nat := if len <? 65536 then 2%nat else if len <? 1048576 then 4%nat else 8%nat.
Definition ad_huffman (heap_of : list N -> tree) (d : list N) (st : penc) : penc * option (list N) :=
  let n := ad_streams (N.of_nat (length d)) in
  let '(st1, ok) := p_train heap_of n d st in
  if ok then p_encode heap_of n d st1 else (st1, None).

(* a history of calls on one encoder object; the run records, for every encode, the payload, the answer and the
   text whose model is in force (what the user hands to HuffmanTree::from_data for the decoder): the text of the
   last successful train, or the payload the encoder trained itself on *)
Inductive pop : Type := PTrain (t : list N) | PEnc (d : list N).
Fixpoint p_run (heap_of : list N -> tree) (n : nat) (ops : list pop) (st : penc) (txt : option (list N))
  : list (list N * option (list N) * option (list N)) :=
  match ops with
  | [] => []
  | PTrain t :: rest =>
      let '(st1, ok) := p_train heap_of n t st in
      p_run heap_of n rest st1 (if ok then Some t else None)
  | PEnc d :: rest =>
      let txt1 := match p_encs st with [] => Some d | _ => txt end in
      let '(st1, out) := p_encode heap_of n d st in
      let txt2 := match p_encs st1 with [] => None | _ => txt1 end in
      (d, out, txt2) :: p_run heap_of n rest st1 txt2
  end.

(* ------------------------------------------------------------------ *)
(* entry point of the harness-generated case files (ops 12, 13)          *)
(* ------------------------------------------------------------------ *)
(* a = n :: nops :: ops, each op = kind (0 train, 1 encode) :: len :: bytes ++ the code table HuffmanTree::from_data
   of these bytes has in the real code ([nsym; s; len; val; ...]).  The heap is outside the model: `heap_of` answers
   with the decoding tree of that real table (rebuild_tree: the tree is determined by its table).
   Output: per encode op  length :: res(encoder's answer) ++ length :: res(decoder's answer), the decoder being a
   ParallelHuffmanDecoder with set_tree(from_data(text in force)) on the encoder's bytes and the payload's length
   ([0] twice when the encoder refused). *)
Fixpoint eqb_list (a b : list N) : bool :=
  match a, b with
  | [], [] => true
  | x :: a', y :: b' => (x =? y) && eqb_list a' b'
  | _, _ => false
  end.
Definition heaps_t : Type := list (list N * tree).
Definition heap_lookup (hs : heaps_t) (fr : list N) : tree :=
  match find (fun p => eqb_list (fst p) fr) hs with Some p => snd p | None => Leaf 0 end.
Fixpoint parse_pops (k : nat) (l : list N) : option (list pop * heaps_t) :=
  match k with
  | O => Some ([], [])
  | S k' =>
      match l with
      | kind :: len :: rest =>
          let text := firstn (N.to_nat len) rest in
          match skipn (N.to_nat len) rest with
          | nsym :: rest2 =>
              match parse_table (N.to_nat nsym) rest2 with
              | Some (tb, rest3) =>
                  match parse_pops k' rest3 with
                  | Some (ops, hs) =>
                      let op := if kind =? 0 then PTrain text else PEnc text in
                      let h := match count_bytes text, build_root tb with
                               | Some fr, Some (Some t) => [(fr, t)]
                               | _, _ => []
                               end in
                      Some (op :: ops, h ++ hs)
                  | None => None
                  end
              | None => None
              end
          | [] => None
          end
      | _ => None
      end
  end.
Definition lres (o : option (list N)) : list N := let r := res o in N.of_nat (length r) :: r.
Definition run_case_par (op : N) (a b : list N) : list N :=
  match (op =? 12) || (op =? 13), a with
  | true, n :: nops :: rest =>
      match parse_pops (N.to_nat nops) rest with
      | Some (ops, hs) =>
          let heap_of := heap_lookup hs in
          if n =? 0 then
            (* AdaptiveParallelEncoder::encode_adaptive(d) on a fresh object, Huffman arm: the lanes its size rule selects,
               its answer, and what a HuffmanDecoder on from_data(d) makes of it *)
            match ops with
            | PTrain d :: _ =>
                let out := snd (ad_huffman heap_of d p_new) in
                N.of_nat (ad_streams (N.of_nat (length d))) :: lres out ++
                lres (match out, from_data heap_of d with
                      | Some bts, Some ht => huff_decode ht bts (length d)
                      | _, _ => None
                      end)
            | _ => bad_case
            end
          else
          flat_map (fun r =>
            let '(d, out, txt) := r in
            match out, txt with
            | Some bts, Some t =>
                lres out ++ lres (match from_data heap_of t with
                                  | Some ht => pd_decode (pd_set_tree (N.to_nat n) ht) bts (length d)
                                  | None => None
                                  end)
            | _, _ => lres None ++ lres None
            end) (p_run heap_of (N.to_nat n) ops p_new None)
      | None => bad_case
      end
  | _, _ => bad_case
  end.
