(* C01, rANS / FSE / LZ half: property theorems (strict form). *)
From ZV.Common Require Import Base.
From ZV.C01 Require Import ModelLz ModelRans ModelFse.
Open Scope N_scope.
