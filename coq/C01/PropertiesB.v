(* C01, rANS / FSE / LZ half: property theorems.  Nothing but statements closed by `exact`, a pin, and
   Print Assumptions. *)
From ZV.Common Require Import Base.
From ZV.C01 Require Import ModelLz ModelRans ModelFse ProofsRans ProofsRansPar ProofsRansNorm ProofsLz.
Open Scope N_scope.

(* one rANS step: for a state in [L, 256 L) and a symbol with a slot, the encoder's new state is again in
   [L, 256 L), the decoder's step on it returns the symbol and the renormalised state x1, and the decoder's
   refill from x1 restores the state and byte stream the encoder started from *)
Theorem rans_step_inverse :
  forall t st s st', wf_table t -> state_ok (fst st) -> enc_symbol t st s = Some st' ->
  0 < freq_of t s /\ state_ok (fst st') /\
  exists x1, dec_symbol t st' = Some (s, (x1, snd st')) /\ dec_renorm x1 (snd st') = Some st.
Proof. exact enc_symbol_step. Qed.
Check rans_step_inverse :
  forall t st s st', wf_table t -> state_ok (fst st) -> enc_symbol t st s = Some st' ->
  0 < freq_of t s /\ state_ok (fst st') /\
  exists x1, dec_symbol t st' = Some (s, (x1, snd st')) /\ dec_renorm x1 (snd st') = Some st.
Print Assumptions rans_step_inverse.

(* every state the encoder reaches lies in [2^16, 2^24): the u64 arithmetic of encode_symbol never wraps,
   and only covered payloads are encoded *)
Theorem rans_no_overflow :
  forall t d st, wf_table t -> enc_all t d = Some st ->
  (RANS_L <= fst st /\ fst st < STATE_BOUND) /\ covers t d.
Proof. exact rans_no_overflow_proof. Qed.
Check rans_no_overflow :
  forall t d st, wf_table t -> enc_all t d = Some st ->
  (RANS_L <= fst st /\ fst st < STATE_BOUND) /\ covers t d.
Print Assumptions rans_no_overflow.

(* Rans64Encoder<ParallelX1> / Rans64Decoder<ParallelX1>: whenever encoding succeeds, decoding with the
   original length returns the payload - every table with sum <= TOTFREQ, every payload (the decoder refuses
   lengths above MAX_DECOMPRESSED_SIZE) *)
Theorem rans_roundtrip :
  forall t d bytes, wf_table t -> N.of_nat (length d) <= MAX_DECOMPRESSED_SIZE ->
  encode 1 t d = Some bytes -> decode 1 t bytes (length d) = Some d.
Proof. exact rans_roundtrip_x1_proof. Qed.
Check rans_roundtrip :
  forall t d bytes, wf_table t -> N.of_nat (length d) <= MAX_DECOMPRESSED_SIZE ->
  encode 1 t d = Some bytes -> decode 1 t bytes (length d) = Some d.
Print Assumptions rans_roundtrip.

(* Rans64Encoder<P> / Rans64Decoder<P> with n interleaved streams (the code instantiates n = 1, 2, 4, 8):
   every length, also lengths not divisible by n and lengths below n (single-stream fallback on both sides) *)
Theorem parallel_roundtrip :
  forall n t d bytes, (1 <= n)%nat -> wf_table t -> N.of_nat (length d) <= MAX_DECOMPRESSED_SIZE ->
  encode n t d = Some bytes -> decode n t bytes (length d) = Some d.
Proof. exact parallel_roundtrip_proof. Qed.
Check parallel_roundtrip :
  forall n t d bytes, (1 <= n)%nat -> wf_table t -> N.of_nat (length d) <= MAX_DECOMPRESSED_SIZE ->
  encode n t d = Some bytes -> decode n t bytes (length d) = Some d.
Print Assumptions parallel_roundtrip.

(* Rans64Encoder::normalize_frequencies (three passes, model of coq/C02/Model.v): the result sums to TOTFREQ,
   every present symbol keeps at least one slot, absent symbols get none *)
Theorem normalize_wf :
  forall f t, nlen f <= 4096 -> ZV.C02.Model.normalize_frequencies f = Some t ->
  length t = length f /\ sum_list t = TOTFREQ /\
  (forall i, 0 < nth i f 0 -> 1 <= nth i t 0) /\ (forall i, nth i f 0 = 0 -> nth i t 0 = 0).
Proof. exact normalize_wf_proof. Qed.
Check normalize_wf :
  forall f t, nlen f <= 4096 -> ZV.C02.Model.normalize_frequencies f = Some t ->
  length t = length f /\ sum_list t = TOTFREQ /\
  (forall i, 0 < nth i f 0 -> 1 <= nth i t 0) /\ (forall i, nth i f 0 = 0 -> nth i t 0 = 0).
Print Assumptions normalize_wf.

Theorem normalize_defined :
  forall f, (exists i, 0 < nth i f 0) -> exists t, ZV.C02.Model.normalize_frequencies f = Some t.
Proof. exact normalize_defined_proof. Qed.
Check normalize_defined :
  forall f, (exists i, 0 < nth i f 0) -> exists t, ZV.C02.Model.normalize_frequencies f = Some t.
Print Assumptions normalize_defined.

(* Rans64Encoder::new: the table it builds from any counts is well formed (so the round-trip theorems apply)
   and covers every payload its counts cover - trained on the same data, nothing is ever refused or lost *)
Theorem table_of_counts_wf :
  forall raw t, nlen raw <= 4096 -> table_of_counts raw = Some t ->
  wf_table t /\ forall d, covers raw d -> covers t d.
Proof. exact table_of_counts_wf_proof. Qed.
Check table_of_counts_wf :
  forall raw t, nlen raw <= 4096 -> table_of_counts raw = Some t ->
  wf_table t /\ forall d, covers raw d -> covers t d.
Print Assumptions table_of_counts_wf.

(* a symbol without a slot is refused, never substituted; covered payloads are always encoded *)
Theorem rans_encode_refuses :
  forall t d, ~ covers t d -> enc_all t d = None.
Proof. exact enc_all_refuses. Qed.
Check rans_encode_refuses :
  forall t d, ~ covers t d -> enc_all t d = None.
Print Assumptions rans_encode_refuses.

Theorem rans_encode_defined :
  forall t d, wf_table t -> covers t d -> exists st, enc_all t d = Some st.
Proof. exact enc_all_defined. Qed.
Check rans_encode_defined :
  forall t d, wf_table t -> covers t d -> exists st, enc_all t d = Some st.
Print Assumptions rans_encode_defined.

(* LZ token stream: every valid parse of a payload (literals and true, possibly overlapping, back-references)
   decodes to the payload *)
Theorem lz_parse_decodes :
  forall toks d, parses [] toks d -> decompress (emit toks) = Some d.
Proof. exact parses_decompress. Qed.
Check lz_parse_decodes :
  forall toks d, parses [] toks d -> decompress (emit toks) = Some d.
Print Assumptions lz_parse_decodes.

(* whatever the match chooser (hash chains, suffix arrays, heuristics): if it only proposes true matches, the
   greedy loop round-trips *)
Theorem lz_sound_chooser_roundtrip :
  forall ch data, sound ch data -> nlen data <= MAX_DECOMPRESSED_SIZE ->
  decompress (compress_with ch data) = Some data.
Proof. exact compress_with_roundtrip. Qed.
Check lz_sound_chooser_roundtrip :
  forall ch data, sound ch data -> nlen data <= MAX_DECOMPRESSED_SIZE ->
  decompress (compress_with ch data) = Some data.
Print Assumptions lz_sound_chooser_roundtrip.

(* DictionaryCompressor: decompress (compress d) = d for every payload and every (min, max) setting *)
Theorem lz_decode_encode :
  forall minl maxl data, maxl < W32 -> nlen data <= MAX_DECOMPRESSED_SIZE ->
  decompress (compress minl maxl data) = Some data.
Proof. exact lz_decode_encode_proof. Qed.
Check lz_decode_encode :
  forall minl maxl data, maxl < W32 -> nlen data <= MAX_DECOMPRESSED_SIZE ->
  decompress (compress minl maxl data) = Some data.
Print Assumptions lz_decode_encode.
