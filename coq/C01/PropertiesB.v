(* C01, rANS / FSE / LZ half: property theorems.  Nothing but statements closed by `exact`, a pin, and
   Print Assumptions. *)
From ZV.Common Require Import Base.
From ZV.C01 Require Import ModelLz ModelRans ModelFse ProofsRans ProofsRansPar ProofsRansNorm ProofsLz ProofsFse ProofsFseFrame.
Open Scope N_scope.

(* one rANS step: for a state in [L, 256 L) and a symbol with a slot, the encoder's new state is again in
   [L, 256 L), the decoder's step on it returns the symbol and the renormalised state x1, and the decoder's
   refill from x1 restores the state and byte stream the encoder started from *)
Theorem rans_step_inverse :
  forall t st s st', wf_table t -> state_ok (fst st) -> enc_symbol t st s = Some st' ->
  0 < freq_of t s /\ state_ok (fst st') /\
  exists x1, dec_symbol t st' = Some (s, (x1, snd st')) /\ dec_renorm x1 (snd st') = Some st.
Proof. exact enc_symbol_step. Qed.
Check rans_step_inverse :
  forall t st s st', wf_table t -> state_ok (fst st) -> enc_symbol t st s = Some st' ->
  0 < freq_of t s /\ state_ok (fst st') /\
  exists x1, dec_symbol t st' = Some (s, (x1, snd st')) /\ dec_renorm x1 (snd st') = Some st.
Print Assumptions rans_step_inverse.

(* every state the encoder reaches lies in [2^16, 2^24): the u64 arithmetic of encode_symbol never wraps,
   and only covered payloads are encoded *)
Theorem rans_no_overflow :
  forall t d st, wf_table t -> enc_all t d = Some st ->
  (RANS_L <= fst st /\ fst st < STATE_BOUND) /\ covers t d.
Proof. exact rans_no_overflow_proof. Qed.
Check rans_no_overflow :
  forall t d st, wf_table t -> enc_all t d = Some st ->
  (RANS_L <= fst st /\ fst st < STATE_BOUND) /\ covers t d.
Print Assumptions rans_no_overflow.

(* Rans64Encoder<ParallelX1> / Rans64Decoder<ParallelX1>: whenever encoding succeeds, decoding with the
   original length returns the payload - every table with sum <= TOTFREQ, every payload (the decoder refuses
   lengths above MAX_DECOMPRESSED_SIZE) *)
Theorem rans_roundtrip :
  forall t d bytes, wf_table t -> N.of_nat (length d) <= MAX_DECOMPRESSED_SIZE ->
  encode 1 t d = Some bytes -> decode 1 t bytes (length d) = Some d.
Proof. exact rans_roundtrip_x1_proof. Qed.
Check rans_roundtrip :
  forall t d bytes, wf_table t -> N.of_nat (length d) <= MAX_DECOMPRESSED_SIZE ->
  encode 1 t d = Some bytes -> decode 1 t bytes (length d) = Some d.
Print Assumptions rans_roundtrip.

(* Rans64Encoder<P> / Rans64Decoder<P> with n interleaved streams (the code instantiates n = 1, 2, 4, 8):
   every length, also lengths not divisible by n and lengths below n (single-stream fallback on both sides) *)
Theorem parallel_roundtrip :
  forall n t d bytes, (1 <= n)%nat -> wf_table t -> N.of_nat (length d) <= MAX_DECOMPRESSED_SIZE ->
  encode n t d = Some bytes -> decode n t bytes (length d) = Some d.
Proof. exact parallel_roundtrip_proof. Qed.
Check parallel_roundtrip :
  forall n t d bytes, (1 <= n)%nat -> wf_table t -> N.of_nat (length d) <= MAX_DECOMPRESSED_SIZE ->
  encode n t d = Some bytes -> decode n t bytes (length d) = Some d.
Print Assumptions parallel_roundtrip.

(* Rans64Encoder::normalize_frequencies (three passes, model of coq/C02/Model.v): the result sums to TOTFREQ,
   every present symbol keeps at least one slot, absent symbols get none *)
Theorem normalize_wf :
  forall f t, nlen f <= 4096 -> ZV.C02.Model.normalize_frequencies f = Some t ->
  length t = length f /\ sum_list t = TOTFREQ /\
  (forall i, 0 < nth i f 0 -> 1 <= nth i t 0) /\ (forall i, nth i f 0 = 0 -> nth i t 0 = 0).
Proof. exact normalize_wf_proof. Qed.
Check normalize_wf :
  forall f t, nlen f <= 4096 -> ZV.C02.Model.normalize_frequencies f = Some t ->
  length t = length f /\ sum_list t = TOTFREQ /\
  (forall i, 0 < nth i f 0 -> 1 <= nth i t 0) /\ (forall i, nth i f 0 = 0 -> nth i t 0 = 0).
Print Assumptions normalize_wf.

Theorem normalize_defined :
  forall f, (exists i, 0 < nth i f 0) -> exists t, ZV.C02.Model.normalize_frequencies f = Some t.
Proof. exact normalize_defined_proof. Qed.
Check normalize_defined :
  forall f, (exists i, 0 < nth i f 0) -> exists t, ZV.C02.Model.normalize_frequencies f = Some t.
Print Assumptions normalize_defined.

(* Rans64Encoder::new: the table it builds from any counts is well formed (so the round-trip theorems apply)
   and covers every payload its counts cover - trained on the same data, nothing is ever refused or lost *)
Theorem table_of_counts_wf :
  forall raw t, nlen raw <= 4096 -> table_of_counts raw = Some t ->
  wf_table t /\ forall d, covers raw d -> covers t d.
Proof. exact table_of_counts_wf_proof. Qed.
Check table_of_counts_wf :
  forall raw t, nlen raw <= 4096 -> table_of_counts raw = Some t ->
  wf_table t /\ forall d, covers raw d -> covers t d.
Print Assumptions table_of_counts_wf.

(* a symbol without a slot is refused, never substituted; covered payloads are always encoded *)
Theorem rans_encode_refuses :
  forall t d, ~ covers t d -> enc_all t d = None.
Proof. exact enc_all_refuses. Qed.
Check rans_encode_refuses :
  forall t d, ~ covers t d -> enc_all t d = None.
Print Assumptions rans_encode_refuses.

Theorem rans_encode_defined :
  forall t d, wf_table t -> covers t d -> exists st, enc_all t d = Some st.
Proof. exact enc_all_defined. Qed.
Check rans_encode_defined :
  forall t d, wf_table t -> covers t d -> exists st, enc_all t d = Some st.
Print Assumptions rans_encode_defined.

(* LZ token stream: every valid parse of a payload (literals and true, possibly overlapping, back-references)
   decodes to the payload *)
Theorem lz_parse_decodes :
  forall toks d, parses [] toks d -> decompress (emit toks) = Some d.
Proof. exact parses_decompress. Qed.
Check lz_parse_decodes :
  forall toks d, parses [] toks d -> decompress (emit toks) = Some d.
Print Assumptions lz_parse_decodes.

(* whatever the match chooser (hash chains, suffix arrays, heuristics): if it only proposes true matches, the
   greedy loop round-trips *)
Theorem lz_sound_chooser_roundtrip :
  forall ch data, sound ch data -> nlen data <= MAX_DECOMPRESSED_SIZE ->
  decompress (compress_with ch data) = Some data.
Proof. exact compress_with_roundtrip. Qed.
Check lz_sound_chooser_roundtrip :
  forall ch data, sound ch data -> nlen data <= MAX_DECOMPRESSED_SIZE ->
  decompress (compress_with ch data) = Some data.
Print Assumptions lz_sound_chooser_roundtrip.

(* DictionaryCompressor: decompress (compress d) = d for every payload and every (min, max) setting *)
Theorem lz_decode_encode :
  forall minl maxl data, maxl < W32 -> nlen data <= MAX_DECOMPRESSED_SIZE ->
  decompress (compress minl maxl data) = Some data.
Proof. exact lz_decode_encode_proof. Qed.
Check lz_decode_encode :
  forall minl maxl data, maxl < W32 -> nlen data <= MAX_DECOMPRESSED_SIZE ->
  decompress (compress minl maxl data) = Some data.
Print Assumptions lz_decode_encode.

(* FseTable::encode_symbol: multiplying by the Alverson reciprocal of init_enc_symbol is an exact division for
   every frequency 1..4096 and every state the renormalisation leaves (below 2^36 * freq); no u64 operation wraps;
   the result is the plain rANS step *)
Theorem alverson_exact :
  forall start f x, 0 < f -> start + f <= 4096 -> 1 <= x -> x < FSE_XMAX_UNIT * f ->
  fse_encode_symbol (init_enc_symbol start f) x = Some ((x / f) * 4096 + x mod f + start).
Proof. exact fse_encode_exact. Qed.
Check alverson_exact :
  forall start f x, 0 < f -> start + f <= 4096 -> 1 <= x -> x < FSE_XMAX_UNIT * f ->
  fse_encode_symbol (init_enc_symbol start f) x = Some ((x / f) * 4096 + x mod f + start).
Print Assumptions alverson_exact.

(* the limb version of mul_hi before the fix: for a one-slot symbol there is a reachable state on which its
   middle sum exceeds 2^64 (panic in a checked build) and the wrapped result is not the high word *)
Theorem fse_mul_hi_old_refuted :
  exists x, 1 <= x /\ x < FSE_XMAX_UNIT * 1 /\
            W64 <= mul_hi_old_middle x (e_rcp (init_enc_symbol 0 1)) /\
            mul_hi_old x (e_rcp (init_enc_symbol 0 1)) <> mul_hi x (e_rcp (init_enc_symbol 0 1)).
Proof. exact mul_hi_old_refuted_proof. Qed.
Check fse_mul_hi_old_refuted :
  exists x, 1 <= x /\ x < FSE_XMAX_UNIT * 1 /\
            W64 <= mul_hi_old_middle x (e_rcp (init_enc_symbol 0 1)) /\
            mul_hi_old x (e_rcp (init_enc_symbol 0 1)) <> mul_hi x (e_rcp (init_enc_symbol 0 1)).
Print Assumptions fse_mul_hi_old_refuted.

(* the payload coder: states stay in [1, 2^48), bytes are written four at a time, states below 2^16 occur only
   before the first write (so the decoder's "x < 2^16 and 4 bytes left" reads exactly what was written), only
   covered payloads are encoded, and decoding from the final state returns the payload *)
Theorem fse_core_roundtrip :
  forall t d x rout, fse_wf t -> fse_enc_all t d = Some (x, rout) ->
  fse_inv x rout /\ covers t d /\ fse_dec_all t (length d) x rout = d.
Proof. exact fse_enc_all_inv. Qed.
Check fse_core_roundtrip :
  forall t d x rout, fse_wf t -> fse_enc_all t d = Some (x, rout) ->
  fse_inv x rout /\ covers t d /\ fse_dec_all t (length d) x rout = d.
Print Assumptions fse_core_roundtrip.

Theorem fse_encode_refuses :
  forall t d, ~ covers t d -> fse_enc_all t d = None.
Proof. exact fse_enc_all_refuses. Qed.
Check fse_encode_refuses :
  forall t d, ~ covers t d -> fse_enc_all t d = None.
Print Assumptions fse_encode_refuses.

Theorem fse_encode_defined :
  forall t d, fse_wf t -> covers t d -> exists st, fse_enc_all t d = Some st.
Proof. exact fse_enc_all_defined. Qed.
Check fse_encode_defined :
  forall t d, fse_wf t -> covers t d -> exists st, fse_enc_all t d = Some st.
Print Assumptions fse_encode_defined.

(* one block (compress_single_internal / decompress_single): stored path below 100 bytes, otherwise header with the
   raw counts + payload + final state; for EVERY normaliser (FseTable::new is a parameter) that returns a table with
   sum <= 4096 for these counts *)
Theorem fse_single_roundtrip :
  forall norm raw t d z,
  norm raw = Some t -> fse_wf t -> length raw = 256%nat -> Forall (fun x => x < W32) raw ->
  nlen d <= MAX_DECOMPRESSED_SIZE ->
  fse_compress_single norm raw d = Some z -> fse_decompress_single norm z = Some d.
Proof. exact fse_single_roundtrip_proof. Qed.
Check fse_single_roundtrip :
  forall norm raw t d z,
  norm raw = Some t -> fse_wf t -> length raw = 256%nat -> Forall (fun x => x < W32) raw ->
  nlen d <= MAX_DECOMPRESSED_SIZE ->
  fse_compress_single norm raw d = Some z -> fse_decompress_single norm z = Some d.
Print Assumptions fse_single_roundtrip.

(* FseEncoder::compress / FseDecoder::decompress with or without parallel blocks, any block size: a single block is
   never mistaken for a container, a container (at most 64 blocks since the fix) is always recognised and every
   block decodes *)
Theorem fse_roundtrip :
  forall norm par bs raw t d z,
  norm raw = Some t -> fse_wf t -> length raw = 256%nat -> Forall (fun x => x < W32) raw ->
  nlen d <= MAX_DECOMPRESSED_SIZE ->
  fse_compress norm par bs raw d = Some z -> fse_decompress norm z = Some d.
Proof. exact fse_roundtrip_proof. Qed.
Check fse_roundtrip :
  forall norm par bs raw t d z,
  norm raw = Some t -> fse_wf t -> length raw = 256%nat -> Forall (fun x => x < W32) raw ->
  nlen d <= MAX_DECOMPRESSED_SIZE ->
  fse_compress norm par bs raw d = Some z -> fse_decompress norm z = Some d.
Print Assumptions fse_roundtrip.
