(* Rans64Encoder::normalize_frequencies (the model of coq/C02/Model.v, three passes): the normalised table
   sums to TOTFREQ exactly, every present symbol keeps at least one slot, absent symbols get none.
   Hence every table Rans64Encoder::new builds is well formed and covers its training data. *)
From ZV.Common Require Import Base.
From ZV.C02 Require Model.
From ZV.C01 Require Import ModelLz ModelRans.
Open Scope N_scope.

Definition ind (x : N) : N := if 0 <? x then 1 else 0.
Definition present (f : list N) : Prop := exists i, 0 < nth i f 0.

Lemma sum_app a b : sum_list (a ++ b) = sum_list a + sum_list b.
Proof. induction a as [|x a IH]; cbn [app sum_list fold_right]; [reflexivity|]. fold (sum_list (a ++ b)). fold (sum_list a). lia. Qed.

Lemma sum_ind_le f : sum_list (map ind f) <= nlen f.
Proof.
  induction f as [|x f IH]; cbn [map sum_list fold_right nlen]; [lia|]. fold (sum_list (map ind f)).
  unfold ind at 1. destruct (0 <? x); lia.
Qed.

(* ---------- pass 1 ---------- *)
Lemma pass1_gen : forall f acc rem used,
  fold_left (fun '(acc, remaining, used) x =>
               if 0 <? x then (acc ++ [1], remaining - 1, used + 1) else (acc ++ [0], remaining, used))
            f (acc, rem, used)
  = (acc ++ map ind f, rem - sum_list (map ind f), used + sum_list (map ind f)).
Proof.
  induction f as [|x f IH]; intros acc rem used; cbn [fold_left map sum_list fold_right].
  - rewrite app_nil_r, N.sub_0_r, N.add_0_r. reflexivity.
  - fold (sum_list (map ind f)). change (ind x) with (if 0 <? x then 1 else 0).
    destruct (0 <? x); rewrite IH, <- app_assoc; cbn [app].
    + repeat (f_equal; try lia).
    + repeat (f_equal; try lia).
Qed.

Lemma pass1_spec f : ZV.C02.Model.pass1 f = (map ind f, 4096 - sum_list (map ind f), sum_list (map ind f)).
Proof. unfold ZV.C02.Model.pass1. rewrite pass1_gen. reflexivity. Qed.

(* ---------- pass 2 ---------- *)
Lemma pass2_spec total : forall f norm remaining res rem',
  length norm = length f -> ZV.C02.Model.pass2 f norm total remaining = (res, rem') ->
  length res = length f /\ sum_list res + rem' = sum_list norm + remaining /\
  (forall i, nth i norm 0 <= nth i res 0) /\ (forall i, nth i f 0 = 0 -> nth i res 0 = nth i norm 0).
Proof.
  induction f as [|x f IH]; intros norm remaining res rem' Hl H.
  - destruct norm; [|discriminate]. cbn [ZV.C02.Model.pass2] in H. inversion H; subst.
    repeat split; try lia; intros i; destruct i; reflexivity || lia.
  - destruct norm as [|n norm]; [discriminate|]. cbn [length] in Hl. cbn [ZV.C02.Model.pass2] in H.
    destruct ((0 <? x) && (0 <? remaining)) eqn:Ec.
    + set (to_add := N.min ((x * remaining / total) mod 4294967296) remaining) in *.
      destruct (ZV.C02.Model.pass2 f norm total (remaining - to_add)) as [rest r'] eqn:E.
      inversion H; subst res rem'; clear H.
      destruct (IH norm (remaining - to_add) rest r' ltac:(lia) E) as (H1 & H2 & H3 & H4).
      assert (to_add <= remaining) by (unfold to_add; lia).
      cbn [length sum_list fold_right]. fold (sum_list rest). fold (sum_list norm).
      repeat split; try lia.
      * intros i. destruct i; cbn [nth]; [lia|apply H3].
      * intros i Hi. destruct i; cbn [nth] in *; [|apply H4; exact Hi].
        apply andb_prop in Ec. destruct Ec as [Ex _]. destruct (N.ltb_spec 0 x); [lia|discriminate].
    + destruct (ZV.C02.Model.pass2 f norm total remaining) as [rest r'] eqn:E.
      inversion H; subst res rem'; clear H.
      destruct (IH norm remaining rest r' ltac:(lia) E) as (H1 & H2 & H3 & H4).
      cbn [length sum_list fold_right]. fold (sum_list rest). fold (sum_list norm).
      repeat split; try lia.
      * intros i. destruct i; cbn [nth]; [lia|apply H3].
      * intros i Hi. destruct i; cbn [nth] in *; [reflexivity|apply H4; exact Hi].
Qed.

(* ---------- pass 3 ---------- *)
Lemma scan_max_spec : forall f norm i maxf maxi, length norm = length f ->
  let '(mf, mi) := ZV.C02.Model.scan_max f norm i maxf maxi in
  (mf = maxf /\ mi = maxi) \/
  (maxf < mf /\ i <= mi /\ mi < i + nlen f /\ nth (N.to_nat (mi - i)) f 0 = mf).
Proof.
  induction f as [|x f IH]; intros norm i maxf maxi Hl.
  - destruct norm; [|discriminate]. cbn [ZV.C02.Model.scan_max]. left; split; reflexivity.
  - destruct norm as [|n norm]; [discriminate|]. cbn [length] in Hl. cbn [ZV.C02.Model.scan_max nlen].
    destruct ((maxf <? x) && (n <? ZV.C02.Model.TOTFREQ / 4)) eqn:Ec.
    + specialize (IH norm (i + 1) x i ltac:(lia)).
      destruct (ZV.C02.Model.scan_max f norm (i + 1) x i) as [mf mi].
      apply andb_prop in Ec. destruct Ec as [Ex _]. destruct (N.ltb_spec maxf x) as [Hx|]; [|discriminate].
      right. destruct IH as [(-> & ->)|(H1 & H2 & H3 & H4)].
      * repeat split; try lia. replace (N.to_nat (i - i)) with 0%nat by lia. reflexivity.
      * repeat split; try lia. replace (N.to_nat (mi - i)) with (S (N.to_nat (mi - (i + 1)))) by lia. exact H4.
    + specialize (IH norm (i + 1) maxf maxi ltac:(lia)).
      destruct (ZV.C02.Model.scan_max f norm (i + 1) maxf maxi) as [mf mi].
      destruct IH as [H|(H1 & H2 & H3 & H4)]; [left; exact H|right].
      repeat split; try lia. replace (N.to_nat (mi - i)) with (S (N.to_nat (mi - (i + 1)))) by lia. exact H4.
Qed.

Lemma first_used_spec : forall f i, present f ->
  i <= ZV.C02.Model.first_used f i /\ ZV.C02.Model.first_used f i < i + nlen f /\
  0 < nth (N.to_nat (ZV.C02.Model.first_used f i - i)) f 0.
Proof.
  induction f as [|x f IH]; intros i [j Hj].
  - destruct j; cbn [nth] in Hj; lia.
  - cbn [ZV.C02.Model.first_used nlen]. destruct (N.ltb_spec 0 x) as [Hx|Hx].
    + replace (N.to_nat (i - i)) with 0%nat by lia. cbn [nth]. lia.
    + destruct j as [|j]; cbn [nth] in Hj; [lia|].
      destruct (IH (i + 1) (ex_intro _ j Hj)) as (H1 & H2 & H3).
      repeat split; try lia.
      replace (N.to_nat (ZV.C02.Model.first_used f (i + 1) - i)) with (S (N.to_nat (ZV.C02.Model.first_used f (i + 1) - (i + 1)))) by lia.
      exact H3.
Qed.

Lemma bump_spec : forall norm idx, idx < nlen norm ->
  length (ZV.C02.Model.bump norm idx) = length norm /\
  sum_list (ZV.C02.Model.bump norm idx) = sum_list norm + 1 /\
  (forall j, nth j norm 0 <= nth j (ZV.C02.Model.bump norm idx) 0) /\
  (forall j, j <> N.to_nat idx -> nth j (ZV.C02.Model.bump norm idx) 0 = nth j norm 0).
Proof.
  induction norm as [|n norm IH]; intros idx Hi; cbn [nlen] in Hi; [lia|].
  cbn [ZV.C02.Model.bump]. destruct (N.eqb_spec idx 0) as [->|Hnz].
  - cbn [length sum_list fold_right]. fold (sum_list norm). repeat split; try lia.
    + intros j. destruct j; cbn [nth]; lia.
    + intros j Hj. destruct j; cbn [nth]; [cbn in Hj; lia|reflexivity].
  - destruct (IH (idx - 1) ltac:(lia)) as (H1 & H2 & H3 & H4).
    cbn [length sum_list fold_right]. fold (sum_list norm). fold (sum_list (ZV.C02.Model.bump norm (idx - 1))).
    repeat split; try lia.
    + intros j. destruct j; cbn [nth]; [lia|apply H3].
    + intros j Hj. destruct j; cbn [nth]; [reflexivity|]. apply H4. lia.
Qed.

Lemma pass3_spec f : present f -> forall fuel norm remaining,
  length norm = length f -> remaining <= N.of_nat fuel ->
  length (ZV.C02.Model.pass3 fuel f norm remaining) = length f /\
  sum_list (ZV.C02.Model.pass3 fuel f norm remaining) = sum_list norm + remaining /\
  (forall i, nth i norm 0 <= nth i (ZV.C02.Model.pass3 fuel f norm remaining) 0) /\
  (forall i, nth i f 0 = 0 -> nth i (ZV.C02.Model.pass3 fuel f norm remaining) 0 = nth i norm 0).
Proof.
  intros Hp. induction fuel as [|k IH]; intros norm remaining Hl Hr.
  - cbn [ZV.C02.Model.pass3]. repeat split; try lia; intros; reflexivity || lia.
  - cbn [ZV.C02.Model.pass3]. destruct (N.ltb_spec 0 remaining) as [Hpos|Hz].
    2:{ repeat split; try lia; intros; reflexivity || lia. }
    pose proof (scan_max_spec f norm 0 0 0 Hl) as Hs.
    destruct (ZV.C02.Model.scan_max f norm 0 0 0) as [mf mi].
    set (idx := if mf =? 0 then ZV.C02.Model.first_used f 0 else mi).
    assert (Hidx : idx < nlen f /\ 0 < nth (N.to_nat idx) f 0).
    { unfold idx. destruct (N.eqb_spec mf 0) as [Hz|Hnz].
      - destruct (first_used_spec f 0 Hp) as (_ & H2 & H3). rewrite N.sub_0_r in H3. split; [lia|exact H3].
      - destruct Hs as [(Hm & _)|(H1 & _ & H3 & H4)]; [lia|]. rewrite N.sub_0_r in H4. split; [lia|lia]. }
    destruct Hidx as (Hi1 & Hi2).
    destruct (bump_spec norm idx ltac:(rewrite !nlen_length in *; lia)) as (B1 & B2 & B3 & B4).
    destruct (IH (ZV.C02.Model.bump norm idx) (remaining - 1) ltac:(lia) ltac:(lia)) as (H1 & H2 & H3 & H4).
    repeat split; try lia.
    + intros i. specialize (B3 i). specialize (H3 i). lia.
    + intros i Hi. rewrite H4 by exact Hi. apply B4. intros ->. lia.
Qed.

(* ---------- the whole function ---------- *)
Lemma normalize_wf_proof f t :
  nlen f <= 4096 -> ZV.C02.Model.normalize_frequencies f = Some t ->
  length t = length f /\ sum_list t = TOTFREQ /\
  (forall i, 0 < nth i f 0 -> 1 <= nth i t 0) /\ (forall i, nth i f 0 = 0 -> nth i t 0 = 0).
Proof.
  intros Hlen H. unfold ZV.C02.Model.normalize_frequencies in H. rewrite pass1_spec in H.
  pose proof (sum_ind_le f) as Hc.
  destruct (N.eqb_spec (sum_list (map ind f)) 0) as [|Hnz]; [discriminate|].
  destruct (ZV.C02.Model.pass2 f (map ind f) (ZV.C02.Model.sum_list f) (4096 - sum_list (map ind f))) as [n2 rem2] eqn:E2.
  assert (Ht : t = ZV.C02.Model.pass3 4096 f n2 rem2) by congruence. subst t. clear H.
  destruct (pass2_spec _ f (map ind f) _ n2 rem2 ltac:(apply map_length) E2) as (P1 & P2 & P3 & P4).
  assert (Hp : present f).
  { clear - Hnz. induction f as [|x f IH]; cbn [map sum_list fold_right] in Hnz; [lia|]. fold (sum_list (map ind f)) in Hnz.
    unfold ind at 1 in Hnz. destruct (N.ltb_spec 0 x) as [Hx|Hx].
    - exists 0%nat. exact Hx.
    - destruct (IH ltac:(lia)) as [j Hj]. exists (S j). exact Hj. }
  destruct (pass3_spec f Hp 4096 n2 rem2 P1 ltac:(lia)) as (H1 & H2 & H3 & H4).
  unfold TOTFREQ. repeat split; try lia.
  - intros i Hi. specialize (H3 i). specialize (P3 i).
    assert (nth i (map ind f) 0 = 1).
    { change 0 with (ind 0) at 1. rewrite map_nth. unfold ind. destruct (N.ltb_spec 0 (nth i f 0)); [reflexivity|lia]. }
    lia.
  - intros i Hi. rewrite H4 by exact Hi. rewrite P4 by exact Hi.
    change 0 with (ind 0) at 1. rewrite map_nth. unfold ind. rewrite Hi. reflexivity.
Qed.

Lemma normalize_defined_proof f : present f -> exists t, ZV.C02.Model.normalize_frequencies f = Some t.
Proof.
  intros [j Hj]. unfold ZV.C02.Model.normalize_frequencies. rewrite pass1_spec.
  assert (Hnz : sum_list (map ind f) <> 0).
  { revert j Hj. induction f as [|x f IH]; intros j Hj; [destruct j; cbn [nth] in Hj; lia|].
    cbn [map sum_list fold_right]. fold (sum_list (map ind f)). unfold ind at 1.
    destruct j as [|j]; cbn [nth] in Hj.
    - destruct (N.ltb_spec 0 x); lia.
    - specialize (IH j Hj). destruct (0 <? x); lia. }
  destruct (N.eqb_spec (sum_list (map ind f)) 0); [contradiction|].
  destruct (ZV.C02.Model.pass2 f (map ind f) (ZV.C02.Model.sum_list f) (4096 - sum_list (map ind f))). eexists; reflexivity.
Qed.

(* Rans64Encoder::new: the table is well formed and covers everything its counts cover *)
Lemma table_of_counts_wf_proof raw t :
  nlen raw <= 4096 -> table_of_counts raw = Some t ->
  wf_table t /\ forall d, covers raw d -> covers t d.
Proof.
  intros Hlen H. unfold table_of_counts, ZV.C02.Model.rans_table in H.
  destruct (ZV.C02.Model.sum_list raw =? 0) eqn:Ez.
  - (* all-zero counts: the all-zero table, nothing is covered by raw either *)
    assert (Ht : t = map (fun _ => 0) raw) by congruence. subst t.
    assert (Hall : forall i, nth i raw 0 = 0).
    { apply N.eqb_eq in Ez. unfold ZV.C02.Model.sum_list in Ez.
      assert (G : forall l a, fold_left N.add l a = 0 -> a = 0 /\ forall i, nth i l 0 = 0).
      { induction l as [|x l IH]; intros a Ha; cbn [fold_left] in Ha.
        - split; [exact Ha|]. intros i; destruct i; reflexivity.
        - destruct (IH _ Ha) as (H1 & H2). split; [lia|]. intros i. destruct i; cbn [nth]; [lia|apply H2]. }
      apply (G raw 0 Ez). }
    split.
    + unfold wf_table. assert (sum_list (map (fun _ : N => 0) raw) = 0) by (clear; induction raw; cbn [map sum_list fold_right] in *; [reflexivity|fold (sum_list (map (fun _ : N => 0) raw)); lia]).
      unfold TOTFREQ. lia.
    + intros d Hc. induction Hc as [|s d Hs Hd IH]; [constructor|]. unfold freq_of in Hs. rewrite Hall in Hs. lia.
  - destruct (normalize_wf_proof raw t Hlen H) as (H1 & H2 & H3 & H4). split.
    + unfold wf_table. lia.
    + intros d Hc. unfold covers in *. eapply Forall_impl; [|exact Hc]. cbn beta. intros s Hs. unfold freq_of in *.
      specialize (H3 (N.to_nat s) Hs). lia.
Qed.

Example normalize_example :
  ZV.C02.Model.normalize_frequencies [5000; 1; 0; 1] = Some [4092; 3; 0; 1].
Proof. vm_compute. reflexivity. Qed.
