(* "FSE" framing: one block (raw path below 100 bytes; header with the raw counts, payload, final state)
   round-trips for every normaliser that yields a well-formed table, and so does the block container
   (2..64 blocks) together with the sniffing heuristic of FseDecoder::decompress. *)
From ZV.Common Require Import Base.
From ZV.C01 Require Import ModelLz ModelRans ModelFse ProofsRans ProofsRansPar ProofsFse.
Open Scope N_scope.

(* ---------- the table of counts in the header ---------- *)
Definition apply_pairs (ps : list (N * N)) (acc : list N) : list N :=
  fold_left (fun a p => upd a (N.to_nat (fst p)) (snd p)) ps acc.

Lemma read_pairs_cons k s f r acc :
  read_pairs (S k) (s :: le_bytes 4 f ++ r) acc = read_pairs k r (upd acc (N.to_nat s) (from_le (le_bytes 4 f))).
Proof. reflexivity. Qed.

Lemma read_pairs_emit : forall ps rest acc, Forall (fun p => snd p < W32) ps ->
  read_pairs (length ps) (emit_pairs ps ++ rest) acc = Some (apply_pairs ps acc, rest).
Proof.
  induction ps as [|[s f] ps IH]; intros rest acc Hf; [reflexivity|].
  inversion Hf as [|? ? Hp Hps]; subst. cbn [snd] in Hp.
  unfold emit_pairs in *. cbn [map concat emit_pair fst snd length].
  unfold emit_pair at 1. cbn [fst snd]. rewrite <- app_assoc, <- app_comm_cons. rewrite read_pairs_cons.
  rewrite from_le_le_bytes by (cbn [p256]; unfold W32 in Hp; lia).
  rewrite IH by assumption. reflexivity.
Qed.

Lemma upd_mid pre x v zs : upd (pre ++ x :: zs) (length pre) v = pre ++ v :: zs.
Proof. induction pre as [|a pre IH]; cbn [app length upd]; [reflexivity|]. rewrite IH. reflexivity. Qed.

Lemma apply_pairs_from : forall l pre,
  apply_pairs (pairs_from (nlen pre) l) (pre ++ repeat 0 (length l)) = pre ++ l.
Proof.
  induction l as [|x l IH]; intros pre; cbn [pairs_from length repeat].
  - reflexivity.
  - destruct (N.ltb_spec 0 x) as [Hx|Hx].
    + unfold apply_pairs. cbn [fold_left fst snd].
      replace (N.to_nat (nlen pre)) with (length pre) by (rewrite nlen_length; lia).
      rewrite upd_mid.
      specialize (IH (pre ++ [x])). rewrite nlen_app in IH. cbn [nlen] in IH.
      replace (nlen pre + (1 + 0)) with (nlen pre + 1) in IH by lia.
      rewrite <- !app_assoc in IH. cbn [app] in IH. exact IH.
    + assert (x = 0) by lia. subst x.
      specialize (IH (pre ++ [0])). rewrite nlen_app in IH. cbn [nlen] in IH.
      replace (nlen pre + (1 + 0)) with (nlen pre + 1) in IH by lia.
      rewrite <- !app_assoc in IH. cbn [app] in IH. exact IH.
Qed.

Lemma pairs_from_bounds : forall l i, Forall (fun x => x < W32) l ->
  Forall (fun p => snd p < W32) (pairs_from i l) /\ nlen (pairs_from i l) <= nlen l.
Proof.
  induction l as [|x l IH]; intros i Hf; cbn [pairs_from nlen]; [split; [constructor|lia]|].
  inversion Hf as [|? ? Hx Hl]; subst. destruct (IH (i + 1) Hl) as (H1 & H2).
  destruct (0 <? x); cbn [nlen]; split; try lia; try assumption. constructor; assumption.
Qed.

(* ---------- one block ---------- *)
Lemma from_le_firstn4 v rest : v < W32 -> from_le (firstn 4 (le_bytes 4 v ++ rest)) = v.
Proof.
  intros H. rewrite firstn_app_exact by reflexivity. apply from_le_le_bytes. cbn [p256]. unfold W32 in H. lia.
Qed.

Section Frame.
  Variable norm : list N -> option (list N).

  Lemma fse_single_roundtrip_proof raw t d z :
    norm raw = Some t -> fse_wf t -> length raw = 256%nat -> Forall (fun x => x < W32) raw ->
    nlen d <= MAX_DECOMPRESSED_SIZE ->
    fse_compress_single norm raw d = Some z -> fse_decompress_single norm z = Some d.
  Proof.
    intros Hn Hwf Hlen Hraw Hmax Hc. unfold fse_compress_single in Hc. rewrite Hn in Hc.
    assert (Hn32 : nlen d mod W32 = nlen d) by (apply N.mod_small; unfold MAX_DECOMPRESSED_SIZE, W32 in *; lia).
    rewrite Hn32 in Hc.
    destruct (N.ltb_spec (nlen d) 100) as [Hsmall|Hbig].
    - (* stored *)
      assert (Hz : z = le_bytes 4 (nlen d) ++ [255] ++ d) by congruence. subst z. clear Hc.
      unfold fse_decompress_single.
      destruct (le_bytes 4 (nlen d) ++ [255] ++ d) as [|z0 zr] eqn:Ez; [cbn [le_bytes app] in Ez; discriminate|].
      rewrite <- Ez. clear Ez z0 zr.
      assert (Hnl : nlen (le_bytes 4 (nlen d) ++ [255] ++ d) = 5 + nlen d).
      { rewrite !nlen_app. cbn [nlen le_bytes]. lia. }
      rewrite Hnl.
      destruct (N.ltb_spec (5 + nlen d) 5); [lia|].
      rewrite from_le_firstn4 by (unfold W32; lia).
      destruct (N.eqb_spec (nlen d) 0) as [H0|H0].
      { destruct d; [reflexivity|cbn [nlen] in H0; lia]. }
      destruct (N.ltb_spec MAX_DECOMPRESSED_SIZE (nlen d)); [lia|].
      change (nth 4 (le_bytes 4 (nlen d) ++ [255] ++ d) 0) with 255.
      change (skipn 5 (le_bytes 4 (nlen d) ++ [255] ++ d)) with d. cbn [N.eqb Pos.eqb].
      change (255 =? 255) with true. cbn iota.
      destruct (N.ltb_spec (nlen d) (nlen d)); [lia|].
      rewrite nlen_length, Nnat.Nat2N.id, firstn_all. reflexivity.
    - (* coded *)
      destruct (fse_enc_all t d) as [[x rout]|] eqn:Ee; [|discriminate].
      destruct (fse_enc_all_inv t d x rout Hwf Ee) as ((Hx1 & Hxb & _ & _) & _ & Hdec).
      destruct (pairs_from_bounds raw 0 Hraw) as (Hps & Hpl).
      set (ps := pairs_from 0 raw) in *.
      assert (Hk : nlen ps mod 65536 = nlen ps).
      { apply N.mod_small. rewrite (nlen_length raw), Hlen in Hpl. lia. }
      rewrite Hk in Hc.
      assert (Hz : z = le_bytes 4 (nlen d) ++ [12] ++ le_bytes 2 (nlen ps) ++ emit_pairs ps ++ rev rout ++ le_bytes 8 x) by congruence.
      subst z. clear Hc.
      unfold fse_decompress_single.
      set (tail := emit_pairs ps ++ rev rout ++ le_bytes 8 x).
      destruct (le_bytes 4 (nlen d) ++ [12] ++ le_bytes 2 (nlen ps) ++ tail) as [|z0 zr] eqn:Ez; [cbn [le_bytes app] in Ez; discriminate|].
      rewrite <- Ez. clear Ez z0 zr.
      assert (Hnl : nlen (le_bytes 4 (nlen d) ++ [12] ++ le_bytes 2 (nlen ps) ++ tail) = 7 + nlen tail).
      { rewrite !nlen_app. cbn [nlen le_bytes]. lia. }
      rewrite Hnl.
      destruct (N.ltb_spec (7 + nlen tail) 5); [lia|].
      rewrite from_le_firstn4 by (unfold W32, MAX_DECOMPRESSED_SIZE in *; lia).
      destruct (N.eqb_spec (nlen d) 0); [lia|].
      destruct (N.ltb_spec MAX_DECOMPRESSED_SIZE (nlen d)); [lia|].
      change (nth 4 (le_bytes 4 (nlen d) ++ [12] ++ le_bytes 2 (nlen ps) ++ tail) 0) with 12.
      change (skipn 5 (le_bytes 4 (nlen d) ++ [12] ++ le_bytes 2 (nlen ps) ++ tail)) with (le_bytes 2 (nlen ps) ++ tail).
      change (12 =? 255) with false. change ((12 <? 5) || (15 <? 12)) with false. cbn iota.
      rewrite nlen_app. change (nlen (le_bytes 2 (nlen ps))) with 2.
      destruct (N.ltb_spec (2 + nlen tail) 2); [lia|].
      rewrite firstn_app_exact by reflexivity. rewrite skipn_app_exact by reflexivity.
      rewrite from_le_le_bytes by (cbn [p256]; rewrite (nlen_length raw), Hlen in Hpl; lia).
      unfold tail. rewrite nlen_length, Nnat.Nat2N.id.
      rewrite read_pairs_emit by exact Hps.
      assert (Hraw' : apply_pairs ps zeros256 = raw).
      { unfold ps, zeros256. replace 256%nat with (length raw) by exact Hlen.
        exact (apply_pairs_from raw []). }
      rewrite Hraw', Hn.
      rewrite nlen_app, (nlen_length (le_bytes 8 x)), length_le_bytes.
      destruct (N.ltb_spec (nlen (rev rout) + N.of_nat 8) 8); [lia|].
      rewrite app_length, length_le_bytes.
      replace (length (rev rout) + 8 - 8)%nat with (length (rev rout)) by lia.
      rewrite skipn_app_exact by reflexivity. rewrite firstn_app_exact by reflexivity.
      rewrite from_le_le_bytes by (cbn [p256]; unfold FSE_STATE_BOUND in Hxb; lia).
      destruct (N.eqb_spec x 0); [lia|].
      rewrite rev_involutive. rewrite nlen_length, Nnat.Nat2N.id. rewrite Hdec. reflexivity.
  Qed.
End Frame.

(* ---------- sizes ---------- *)
Lemma fse_enc_all_len t : forall d x rout, fse_enc_all t d = Some (x, rout) -> nlen rout <= 4 * nlen d.
Proof.
  induction d as [|s d IH]; intros x rout H; cbn [fse_enc_all] in H.
  - injection H as <- <-. cbn [nlen]. lia.
  - destruct (fse_enc_all t d) as [[x0 r0]|] eqn:E0; [|discriminate].
    specialize (IH x0 r0 eq_refl). cbn zeta in H. unfold fse_renorm_enc in H.
    destruct (FSE_XMAX_UNIT * e_freq (enc_of t s) <=? x0).
    + destruct (fse_encode_symbol (enc_of t s) (x0 / W32)); [|discriminate].
      assert (rout = rev (le_bytes 4 (x0 mod W32)) ++ r0) by congruence. subst rout.
      rewrite nlen_app. cbn [nlen le_bytes rev app]. lia.
    + destruct (fse_encode_symbol (enc_of t s) x0); [|discriminate].
      assert (rout = r0) by congruence. subst rout. cbn [nlen]. lia.
Qed.

Lemma nlen_emit_pairs ps : nlen (emit_pairs ps) = 5 * nlen ps.
Proof.
  unfold emit_pairs. induction ps as [|p ps IH]; [reflexivity|].
  cbn [map concat nlen]. rewrite nlen_app, IH. unfold emit_pair. cbn [nlen le_bytes]. lia.
Qed.

Section Container.
  Variable norm : list N -> option (list N).

  Lemma fse_compress_single_len raw c z : length raw = 256%nat ->
    fse_compress_single norm raw c = Some z -> 5 <= nlen z /\ nlen z <= 4 * nlen c + 2000.
  Proof.
    intros Hlen H. unfold fse_compress_single in H. destruct (norm raw) as [t|]; [|discriminate].
    destruct (nlen c <? 100).
    - assert (z = le_bytes 4 (nlen c mod W32) ++ [255] ++ c) by congruence. subst z.
      rewrite !nlen_app. cbn [nlen le_bytes]. lia.
    - destruct (fse_enc_all t c) as [[x rout]|] eqn:E; [|discriminate].
      pose proof (fse_enc_all_len t c x rout E) as Hl.
      assert (Hp : nlen (pairs_from 0 raw) <= 256).
      { assert (G : forall l i, nlen (pairs_from i l) <= nlen l).
        { induction l as [|y l IH]; intros i; cbn [pairs_from nlen]; [lia|]. specialize (IH (i + 1)). destruct (0 <? y); cbn [nlen]; lia. }
        specialize (G raw 0). rewrite (nlen_length raw), Hlen in G. lia. }
      match type of H with Some ?b = _ => assert (z = b) by congruence end. subst z.
      rewrite !nlen_app, nlen_emit_pairs. rewrite (nlen_length (rev rout)), rev_length, <- nlen_length.
      cbn [nlen le_bytes]. lia.
  Qed.

  (* ---------- chunks ---------- *)
  Lemma chunks_cons k bs (d : list N) : d <> [] -> chunks (S k) bs d = firstn bs d :: chunks k bs (skipn bs d).
  Proof. destruct d; [contradiction|reflexivity]. Qed.

  Lemma chunks_spec bs : (0 < bs)%nat -> forall fuel d, (length d <= fuel)%nat ->
    concat (chunks fuel bs d) = d /\
    Forall (fun c => c <> [] /\ (length c <= length d)%nat) (chunks fuel bs d) /\
    forall m, (length d <= m * bs)%nat -> (length (chunks fuel bs d) <= m)%nat.
  Proof.
    intros Hbs. induction fuel as [|k IH]; intros d Hf.
    - destruct d; [|cbn [length] in Hf; lia]. cbn [chunks concat]. repeat split; [constructor|]. intros; cbn [length]; lia.
    - destruct (list_eq_dec N.eq_dec d []) as [->|Hd].
      { cbn [chunks concat]. repeat split; [constructor|intros; cbn [length]; lia]. }
      assert (Hlen : (0 < length d)%nat) by (destruct d; [contradiction|cbn [length]; lia]).
      rewrite chunks_cons by exact Hd.
      assert (Hsk : (length (skipn bs d) <= k)%nat) by (rewrite skipn_length; lia).
      destruct (IH (skipn bs d) Hsk) as (H1 & H2 & H3).
      cbn [concat]. rewrite H1, firstn_skipn. split; [reflexivity|]. split.
      + constructor.
        * split; [|rewrite firstn_length; lia].
          destruct d; [contradiction|]. destruct bs; [lia|]. cbn [firstn]. discriminate.
        * eapply Forall_impl; [|exact H2]. cbn beta. intros c (Hc1 & Hc2). split; [exact Hc1|].
          rewrite skipn_length in Hc2. lia.
      + intros m Hm. cbn [length]. destruct m as [|m]; [lia|].
        specialize (H3 m). rewrite skipn_length in H3. specialize (H3 ltac:(nia)). lia.
  Qed.

  Lemma compress_blocks_spec raw : forall cs zs, fse_compress_blocks norm raw cs = Some zs ->
    Forall2 (fun c z => fse_compress_single norm raw c = Some z) cs zs.
  Proof.
    induction cs as [|c cs IH]; intros zs H; cbn [fse_compress_blocks] in H.
    - assert (zs = []) by congruence. subst. constructor.
    - destruct (fse_compress_single norm raw c) as [z|] eqn:E; [|discriminate].
      destruct (fse_compress_blocks norm raw cs) as [zs'|] eqn:E'; [|discriminate].
      assert (zs = z :: zs') by congruence. subst. constructor; [exact E|apply IH; reflexivity].
  Qed.

  (* ---------- the container parses back ---------- *)
  Lemma sniff_sizes_emit len : forall (zs : list (list N)) rest total,
    Forall (fun z => 0 < nlen z /\ nlen z <= len mod W32 /\ nlen z < W32) zs ->
    sniff_sizes (length zs) (concat (map (fun z => le_bytes 4 (nlen z mod W32)) zs) ++ rest) len total
    = Some (total + nlen (concat zs)).
  Proof.
    induction zs as [|z zs IH]; intros rest total Hf; cbn [length map concat sniff_sizes nlen].
    - f_equal. lia.
    - inversion Hf as [|? ? (Hz0 & Hz1 & Hz2) Hzs]; subst.
      rewrite N.mod_small by exact Hz2. rewrite <- app_assoc.
      cbn [le_bytes app].
      change (from_le [nlen z mod 256; (nlen z / 256) mod 256; (nlen z / 256 / 256) mod 256; (nlen z / 256 / 256 / 256) mod 256])
        with (from_le (le_bytes 4 (nlen z))).
      rewrite from_le_le_bytes by (cbn [p256]; unfold W32 in Hz2; lia).
      destruct (N.eqb_spec (nlen z) 0); [lia|]. destruct (N.ltb_spec (len mod W32) (nlen z)); [lia|]. cbn [orb].
      rewrite IH by exact Hzs. rewrite nlen_app. f_equal. lia.
  Qed.

  Lemma decompress_blocks_ok : forall (cs zs : list (list N)) out,
    Forall2 (fun c z => fse_decompress_single norm z = Some c) cs zs ->
    nlen out + nlen (concat cs) <= MAX_DECOMPRESSED_SIZE ->
    fse_decompress_blocks norm (map nlen zs) (concat zs) out = Some (out ++ concat cs).
  Proof.
    intros cs zs out H. revert out. induction H as [|c z cs zs Hcz Hrest IH]; intros out Hmax.
    - cbn [map fse_decompress_blocks concat]. rewrite app_nil_r. reflexivity.
    - cbn [map fse_decompress_blocks concat] in *. rewrite nlen_app in *.
      destruct (N.ltb_spec (nlen z + nlen (concat zs)) (nlen z)); [lia|].
      rewrite nlen_length, Nnat.Nat2N.id. rewrite firstn_app_exact by reflexivity. rewrite skipn_app_exact by reflexivity.
      rewrite Hcz. destruct (N.ltb_spec (MAX_DECOMPRESSED_SIZE - nlen out) (nlen c)); [lia|].
      rewrite IH by (rewrite nlen_app; lia). rewrite <- app_assoc. reflexivity.
  Qed.

  Lemma nlen_concat_le4 (zs : list (list N)) : nlen (concat (map (fun z => le_bytes 4 (nlen z mod W32)) zs)) = 4 * nlen zs.
  Proof. induction zs as [|z zs IH]; [reflexivity|]. cbn [map concat nlen]. rewrite nlen_app, IH. cbn [nlen le_bytes]. lia. Qed.

  Lemma Forall2_length_N {A B} (R : A -> B -> Prop) l1 l2 : Forall2 R l1 l2 -> nlen l1 = nlen l2.
  Proof. induction 1; cbn [nlen]; lia. Qed.

  Lemma sum_compressed_bound raw : length raw = 256%nat -> forall cs zs,
    Forall2 (fun c z => fse_compress_single norm raw c = Some z) cs zs ->
    nlen (concat zs) <= 4 * nlen (concat cs) + 2000 * nlen cs /\
    Forall (fun z => 5 <= nlen z /\ nlen z <= nlen (concat zs)) zs.
  Proof.
    intros Hlen cs zs H. induction H as [|c z cs zs Hcz Hrest (IH1 & IH2)]; [split; [cbn; lia|constructor]|].
    destruct (fse_compress_single_len raw c z Hlen Hcz) as (H5 & Hup).
    cbn [concat nlen]. rewrite !nlen_app. split; [lia|].
    constructor; [lia|]. eapply Forall_impl; [|exact IH2]. cbn beta. intros y (Hy1 & Hy2). lia.
  Qed.

  Lemma fse_roundtrip_proof par bs raw t d z :
    norm raw = Some t -> fse_wf t -> length raw = 256%nat -> Forall (fun x => x < W32) raw ->
    nlen d <= MAX_DECOMPRESSED_SIZE ->
    fse_compress norm par bs raw d = Some z -> fse_decompress norm z = Some d.
  Proof.
    intros Hn Hwf Hlen Hraw Hmax Hc. unfold fse_compress in Hc.
    destruct d as [|d0 d'] eqn:Ed; [assert (z = []) by congruence; subst; reflexivity|].
    rewrite <- Ed in *. assert (Hd1 : 1 <= nlen d) by (rewrite Ed; cbn [nlen]; lia). clear Ed d0 d'.
    rewrite Hn in Hc.
    (* a single block is never taken for a container *)
    assert (Hsingle : fse_compress_single norm raw d = Some z -> fse_decompress norm z = Some d).
    { intros Hs. pose proof (fse_single_roundtrip_proof norm raw t d z Hn Hwf Hlen Hraw Hmax Hs) as Hd.
      unfold fse_decompress.
      destruct z as [|z0 zr] eqn:Ez; [unfold fse_compress_single in Hs; rewrite Hn in Hs; destruct (nlen d <? 100); [discriminate|destruct (fse_enc_all t d) as [[? ?]|]; discriminate]|].
      rewrite <- Ez in *. clear Ez z0 zr.
      assert (Hk : from_le (firstn 4 z) = nlen d /\ (nlen d < 100 -> nlen z = 5 + nlen d)).
      { unfold fse_compress_single in Hs. rewrite Hn in Hs.
        assert (Hn32 : nlen d mod W32 = nlen d) by (apply N.mod_small; unfold MAX_DECOMPRESSED_SIZE, W32 in *; lia).
        rewrite Hn32 in Hs.
        destruct (N.ltb_spec (nlen d) 100).
        - assert (z = le_bytes 4 (nlen d) ++ [255] ++ d) by congruence. subst z.
          split; [apply from_le_firstn4; unfold W32; lia|]. intros _. rewrite !nlen_app. cbn [nlen le_bytes]. lia.
        - destruct (fse_enc_all t d) as [[x rout]|]; [|discriminate].
          match type of Hs with Some ?b = _ => assert (z = b) by congruence end. subst z.
          split; [apply from_le_firstn4; unfold W32, MAX_DECOMPRESSED_SIZE in *; lia|]. intros; lia. }
      destruct Hk as (Hk & Hraw5). rewrite Hk.
      destruct ((8 <=? nlen z) && (2 <=? nlen d) && (nlen d <=? 64) && (4 + 4 * nlen d <=? nlen z)) eqn:Eb; [|exact Hd].
      exfalso. apply andb_prop in Eb. destruct Eb as (Eb & E4). apply andb_prop in Eb. destruct Eb as (Eb & E3).
      apply andb_prop in Eb. destruct Eb as (_ & E2).
      apply N.leb_le in E2, E3, E4. specialize (Hraw5 ltac:(lia)). lia. }
    destruct par as [nb|]; [|exact (Hsingle Hc)].
    destruct (N.ltb_spec (bs * 2) (nlen d)) as [Hpar|_]; [|exact (Hsingle Hc)].
    set (bs' := N.max bs ((nlen d + 63) / 64)) in *.
    set (cs := chunks (length d) (N.to_nat bs') d) in *.
    destruct ((nlen cs <=? 1) || (nb <=? 1)) eqn:Efew; [exact (Hsingle Hc)|].
    apply orb_false_elim in Efew. destruct Efew as (Ecs & _). apply N.leb_gt in Ecs.
    destruct (fse_compress_blocks norm raw cs) as [zs|] eqn:Eb; [|discriminate].
    assert (z = merge_blocks zs) by congruence. subst z. clear Hc Hsingle.
    (* the chunks *)
    assert (Hbs' : (0 < N.to_nat bs')%nat).
    { unfold bs'. assert (1 <= (nlen d + 63) / 64) by (apply N.div_le_lower_bound; lia). lia. }
    destruct (chunks_spec (N.to_nat bs') Hbs' (length d) d ltac:(lia)) as (Hcat & Hne & Hcnt).
    fold cs in Hcat, Hne, Hcnt.
    assert (Hcs64 : nlen cs <= 64).
    { specialize (Hcnt 64%nat). rewrite nlen_length.
      assert (length d <= 64 * N.to_nat bs')%nat; [|lia].
      unfold bs'. pose proof (N.div_mod' (nlen d + 63) 64). rewrite nlen_length in *. lia. }
    pose proof (compress_blocks_spec raw cs zs Eb) as Hf2.
    pose proof (Forall2_length_N _ _ _ Hf2) as Hlz.
    destruct (sum_compressed_bound raw Hlen cs zs Hf2) as (Hsum & Hzs).
    rewrite Hcat in Hsum.
    (* every block decodes *)
    assert (Hdec : Forall2 (fun c z => fse_decompress_single norm z = Some c) cs zs).
    { clear - Hf2 Hne Hn Hwf Hlen Hraw Hmax. induction Hf2 as [|c z cs zs Hcz Hrest IH]; [constructor|].
      inversion Hne as [|? ? (_ & Hcl) Hne']; subst. constructor; [|exact (IH Hne')].
      apply (fse_single_roundtrip_proof norm raw t c z Hn Hwf Hlen Hraw); [|exact Hcz].
      rewrite nlen_length in *. lia. }
    unfold fse_decompress, merge_blocks.
    assert (Hk32 : nlen zs mod W32 = nlen zs) by (apply N.mod_small; unfold W32; lia). rewrite Hk32.
    set (sizes := concat (map (fun z => le_bytes 4 (nlen z mod W32)) zs)).
    assert (Hnz : nlen (le_bytes 4 (nlen zs) ++ sizes ++ concat zs) = 4 + 4 * nlen zs + nlen (concat zs)).
    { rewrite !nlen_app. unfold sizes. rewrite nlen_concat_le4. cbn [nlen le_bytes]. lia. }
    destruct (le_bytes 4 (nlen zs) ++ sizes ++ concat zs) as [|z0 zr] eqn:Ez; [cbn [le_bytes app] in Ez; discriminate|].
    rewrite <- Ez in *. clear Ez z0 zr.
    rewrite from_le_firstn4 by (unfold W32; lia). rewrite Hnz.
    assert (Hcond : (8 <=? 4 + 4 * nlen zs + nlen (concat zs)) && (2 <=? nlen zs) && (nlen zs <=? 64)
                    && (4 + 4 * nlen zs <=? 4 + 4 * nlen zs + nlen (concat zs)) = true).
    { repeat (apply andb_true_intro; split); apply N.leb_le; lia. }
    rewrite Hcond.
    rewrite skipn_app_exact by reflexivity.
    assert (Htot : 4 + 4 * nlen zs + nlen (concat zs) < W32) by (unfold W32, MAX_DECOMPRESSED_SIZE in *; lia).
    replace (N.to_nat (nlen zs)) with (length zs) by (rewrite nlen_length; lia).
    unfold sizes. rewrite sniff_sizes_emit.
    2:{ eapply Forall_impl; [|exact Hzs]. cbn beta. intros y (Hy1 & Hy2). rewrite N.mod_small by exact Htot. lia. }
    rewrite N.add_0_l. rewrite N.eqb_refl.
    unfold fse_decompress_parallel. rewrite skipn_app_exact by reflexivity.
    replace (map (fun z => le_bytes 4 (nlen z mod W32)) zs) with (map (le_bytes 4) (map nlen zs)).
    2:{ rewrite map_map. apply map_ext_in. intros y Hy. rewrite Forall_forall in Hzs. destruct (Hzs y Hy). rewrite N.mod_small by lia. reflexivity. }
    replace (N.to_nat (nlen zs)) with (length (map nlen zs)) by (rewrite map_length, nlen_length; lia).
    rewrite take_words_emit.
    2:{ apply Forall_forall. intros v Hv. apply in_map_iff in Hv. destruct Hv as (y & <- & Hy).
        rewrite Forall_forall in Hzs. destruct (Hzs y Hy). cbn [p256]. unfold W32 in Htot. lia. }
    rewrite (decompress_blocks_ok cs zs [] Hdec) by (cbn [nlen]; rewrite Hcat; lia).
    cbn [app]. rewrite Hcat. reflexivity.
  Qed.
End Container.
