(* C01 mechanism model, Huffman half, part 1: bit I/O and the order-0 coder.  Definitions only.

   src/entropy/huffman.rs as written:
     - the bit packing loop at the end of HuffmanEncoder::encode / ContextualHuffmanEncoder::encode
       (current_byte |= 1 << bit_count, a byte is pushed at 8 bits, the last partial byte is flushed)
       and the reading order of the decoders ((byte >> bit_pos) & 1 for bit_pos in 0..8): `pack`, `unpack`;
     - BitStreamWriter::{new,write,finish} (u64 accumulator, bytes flushed while bit_count >= 8): `writer`;
     - BitStreamReader::{new,refill,peek,consume} (u64 accumulator, refill while bit_count <= 56): `reader`;
     - HuffmanTree: code table (HashMap<u8, Vec<bool>>) + decoding tree; generate_codes; the single-symbol
       case of from_frequencies; from_frequencies_fixed_length; build_decoding_tree_from_codes and
       insert_code_into_tree with their placeholder leaves (`Hole`) and the collision error;
     - HuffmanEncoder::encode, HuffmanDecoder::decode with their quirks: a symbol is emitted when the *next*
       bit is seen at a leaf, the final leaf is flushed after the loop, a single-leaf tree emits one
       symbol per bit, decoding stops at output_length, empty input or output_length 0 gives Ok([]).
   Not modelled: the BinaryHeap construction of the tree in from_frequencies (its result is a parameter:
   any tree), the SIMD intrinsics of simd_huffman.rs (BitBuffer::append_bits writes the same bit order).

   Bytes and symbols are N, bit strings are list bool (first element = first bit written), lengths nat. *)
From ZV.Common Require Import Base.
Open Scope N_scope.

(* ------------------------------------------------------------------ *)
(* bits <-> numbers, least significant bit first                       *)
(* ------------------------------------------------------------------ *)
Fixpoint bits_of_n (len : nat) (v : N) : list bool :=
  match len with
  | O => []
  | S k => N.odd v :: bits_of_n k (N.div2 v)
  end.
Fixpoint n_of_bits (bs : list bool) : N :=
  match bs with
  | [] => 0
  | b :: t => N.b2n b + 2 * n_of_bits t
  end.

(* ------------------------------------------------------------------ *)
(* the byte packing loop of the order-0 and contextual encoders        *)
(* ------------------------------------------------------------------ *)
Fixpoint pack_go (bits : list bool) (cur cnt : N) : list N :=
  match bits with
  | [] => if 0 <? cnt then [cur] else []
  | b :: t =>
      let cur' := if b then N.lor cur (N.shiftl 1 cnt) else cur in
      if cnt + 1 =? 8 then cur' :: pack_go t 0 0 else pack_go t cur' (cnt + 1)
  end.
Definition pack (bits : list bool) : list N := pack_go bits 0 0.

(* for &byte in data { for bit_pos in 0..8 { (byte >> bit_pos) & 1 } } *)
Definition byte_bits (b : N) : list bool := bits_of_n 8 b.
Definition unpack (bytes : list N) : list bool := flat_map byte_bits bytes.

(* number of zero bits the last byte is padded with *)
Definition pad_len (n : nat) : nat := ((8 - n mod 8) mod 8)%nat.

(* ------------------------------------------------------------------ *)
(* BitStreamWriter                                                     *)
(* ------------------------------------------------------------------ *)
Record writer := mkW { w_rbuf : list N;  (* buffer, last byte first *)
                       w_cur : N; w_cnt : N }.
Definition w_new : writer := mkW [] 0 0.
(* while self.bit_count >= 8 { push(current as u8); current >>= 8; bit_count -= 8 } *)
Fixpoint w_flush (fuel : nat) (w : writer) : writer :=
  match fuel with
  | O => w
  | S f => if 8 <=? w_cnt w
           then w_flush f (mkW (w_cur w mod 256 :: w_rbuf w) (w_cur w / 256) (w_cnt w - 8))
           else w
  end.
(* self.current |= bits << self.bit_count (u64 shift: high bits fall off); self.bit_count += count *)
Definition w_write (w : writer) (bits count : N) : writer :=
  w_flush 9 (mkW (w_rbuf w) (N.lor (w_cur w) (N.shiftl bits (w_cnt w) mod W64)) (w_cnt w + count)).
Definition w_finish (w : writer) : list N :=
  if 0 <? w_cnt w then rev (w_cur w mod 256 :: w_rbuf w) else rev (w_rbuf w).
(* the bits a writer holds *)
Definition w_bits (w : writer) : list bool :=
  unpack (rev (w_rbuf w)) ++ bits_of_n (N.to_nat (w_cnt w)) (w_cur w).

(* ------------------------------------------------------------------ *)
(* BitStreamReader                                                     *)
(* ------------------------------------------------------------------ *)
Record reader := mkR { r_data : list N;  (* bytes not yet loaded: data[byte_pos..] *)
                       r_cur : N; r_cnt : N }.
(* while bit_count <= 56 && byte_pos < len { current |= byte << bit_count; bit_count += 8; byte_pos += 1 } *)
Fixpoint r_refill_go (data : list N) (cur cnt : N) : reader :=
  match data with
  | [] => mkR [] cur cnt
  | b :: t => if cnt <=? 56 then r_refill_go t (N.lor cur (N.shiftl b cnt)) (cnt + 8)
              else mkR data cur cnt
  end.
Definition r_refill (r : reader) : reader := r_refill_go (r_data r) (r_cur r) (r_cnt r).
Definition r_new (data : list N) : reader := r_refill (mkR data 0 0).
(* self.current & ((1u64 << count) - 1) *)
Definition r_peek (r : reader) (count : N) : N := N.land (r_cur r) (N.shiftl 1 count - 1).
(* debug_assert!(count <= bit_count); current >>= count; bit_count -= count  (None = the assertion / the
   usize subtraction fails) *)
Definition r_consume (r : reader) (count : N) : option reader :=
  if count <=? r_cnt r then Some (mkR (r_data r) (N.shiftr (r_cur r) count) (r_cnt r - count)) else None.
(* the bits a reader still has to deliver *)
Definition r_view (r : reader) : list bool :=
  bits_of_n (N.to_nat (r_cnt r)) (r_cur r) ++ unpack (r_data r).

(* ------------------------------------------------------------------ *)
(* HuffmanTree                                                         *)
(* ------------------------------------------------------------------ *)
(* Hole = the placeholder Leaf { symbol: 0, frequency: 0 } of build_decoding_tree_from_codes;
   the decoders read it as a leaf carrying symbol 0 *)
Inductive tree : Type :=
| Leaf (s : N)
| Hole
| Node (l r : tree).
Definition table : Type := list (N * list bool).
Record hufftree := mkHT { ht_root : option tree; ht_codes : table }.

Definition get_code (tb : table) (s : N) : option (list bool) :=
  match find (fun e => fst e =? s) tb with
  | Some e => Some (snd e)
  | None => None
  end.

Definition leaf_sym (t : tree) : option N :=
  match t with Leaf s => Some s | Hole => Some 0 | Node _ _ => None end.
Definition child (t : tree) (b : bool) : tree :=
  match t with Node l r => if b then r else l | _ => t end.

(* generate_codes: left = false, right = true, depth first *)
Fixpoint gen_codes (t : tree) (pre : list bool) : table :=
  match t with
  | Leaf s => [(s, pre)]
  | Hole => []
  | Node l r => gen_codes l (pre ++ [false]) ++ gen_codes r (pre ++ [true])
  end.

(* insert_code_into_tree; None = Err("Code collision ...") *)
Fixpoint insert (t : tree) (s : N) (c : list bool) : option tree :=
  match c with
  | [] => Some (Leaf s)
  | b :: c' =>
      match t with
      | Hole => match insert Hole s c' with
                | Some ch => Some (if b then Node Hole ch else Node ch Hole)
                | None => None
                end
      | Leaf _ => None
      | Node l r => if b then match insert r s c' with Some r' => Some (Node l r') | None => None end
                    else match insert l s c' with Some l' => Some (Node l' r) | None => None end
      end
  end.
Fixpoint insert_all (t : tree) (tb : table) : option tree :=
  match tb with
  | [] => Some t
  | (s, c) :: rest => match insert t s c with Some t' => insert_all t' rest | None => None end
  end.
(* build_decoding_tree_from_codes: Some None = Ok(None), None = Err *)
Definition build_root (tb : table) : option (option tree) :=
  match tb with
  | [] => Some None
  | [(s, _)] => Some (Some (Leaf s))
  | _ => match insert_all (Node Hole Hole) tb with Some t => Some (Some t) | None => None end
  end.

Definition max_len (tb : table) : nat := fold_right (fun e m => Nat.max (length (snd e)) m) 0%nat tb.

(* from_frequencies_fixed_length: the i-th present symbol gets the 8 bits of i, least significant first *)
Fixpoint fixed_codes_go (syms : list N) (i : N) : table :=
  match syms with
  | [] => []
  | s :: t => (s, bits_of_n 8 i) :: fixed_codes_go t (i + 1)
  end.
Definition fixed_codes (syms : list N) : table := fixed_codes_go syms 0.

(* from_frequencies, given the present symbols in ascending order and the tree `heap` the BinaryHeap
   loop produced for them (not modelled: any tree).  None = Err. *)
Definition ht_from_heap (syms : list N) (heap : tree) : option hufftree :=
  match syms with
  | [] => Some (mkHT None [])
  | [s] => Some (mkHT (Some (Leaf s)) [(s, [false])])
  | _ => let cs := gen_codes heap [] in
         if (64 <? max_len cs)%nat
         then match build_root (fixed_codes syms) with
              | Some r => Some (mkHT r (fixed_codes syms))
              | None => None
              end
         else Some (mkHT (Some heap) cs)
  end.

(* a tree read back from its code table alone (HuffmanTree::deserialize; also how the harness hands the
   real tables to this model) *)
Definition ht_of_table (tb : table) : option hufftree :=
  match build_root tb with Some r => Some (mkHT r tb) | None => None end.

(* ------------------------------------------------------------------ *)
(* HuffmanEncoder::encode                                              *)
(* ------------------------------------------------------------------ *)
Fixpoint code_bits (tb : table) (d : list N) : option (list bool) :=
  match d with
  | [] => Some []
  | s :: t => match get_code tb s with
              | None => None     (* Err("Symbol {} not in Huffman tree") *)
              | Some c => match code_bits tb t with Some r => Some (c ++ r) | None => None end
              end
  end.
Definition huff_encode (ht : hufftree) (d : list N) : option (list N) :=
  match d with
  | [] => Some []
  | _ => match code_bits (ht_codes ht) d with Some bits => Some (pack bits) | None => None end
  end.

(* ------------------------------------------------------------------ *)
(* HuffmanDecoder::decode                                              *)
(* ------------------------------------------------------------------ *)
(* the double loop over bytes and bit positions with its two `break`s is a loop over the bit string that
   stops as soon as `k` (= output_length - result.len()) reaches 0; the result is returned in order *)
Fixpoint dec_loop (root cur : tree) (bits : list bool) (k : nat) : list N :=
  match bits with
  | [] => (* "Handle final symbol if we're at a leaf" *)
      match leaf_sym cur, k with
      | Some s, S _ => [s]
      | _, _ => []
      end
  | b :: bs =>
      match k with
      | O => []
      | S k' =>
          match leaf_sym cur with
          | Some s =>
              (* push the symbol, restart at the root and process the current bit there;
                 a single-leaf tree stays where it is *)
              s :: dec_loop root (match root with Node _ _ => child root b | _ => root end) bs k'
          | None => dec_loop root (child cur b) bs k
          end
      end
  end.
Definition length_is {A} (l : list A) (n : nat) : bool := Nat.eqb (length l) n.
Definition huff_decode (ht : hufftree) (bytes : list N) (outlen : nat) : option (list N) :=
  match bytes, outlen with
  | [], _ => Some []
  | _, O => Some []
  | _, _ =>
      match ht_root ht with
      | None => None     (* Err("Empty Huffman tree") *)
      | Some root =>
          let out := dec_loop root root (unpack bytes) outlen in
          if length_is out outlen then Some out else None
      end
  end.

(* ------------------------------------------------------------------ *)
(* well-formedness: decidable side conditions of the theorems           *)
(* ------------------------------------------------------------------ *)
(* follow a code from a node; None when it runs into a leaf early *)
Fixpoint walk (t : tree) (c : list bool) {struct c} : option tree :=
  match c with
  | [] => Some t
  | b :: c' => match t with Node l r => walk (if b then r else l) c' | _ => None end
  end.
Definition tree_eqb_leaf (o : option tree) (s : N) : bool :=
  match o with Some (Leaf x) => x =? s | _ => false end.
Definition nonempty {A} (l : list A) : bool := match l with [] => false | _ => true end.
(* the table and the decoding tree agree: every code is non-empty and leads from the root to a leaf with
   its symbol; for a single-leaf tree every entry is for that symbol *)
Definition wf_ht (ht : hufftree) : bool :=
  match ht_root ht with
  | None => match ht_codes ht with [] => true | _ => false end
  | Some (Leaf s) => forallb (fun e => (fst e =? s) && nonempty (snd e)) (ht_codes ht)
  | Some Hole => false
  | Some (Node l r) => forallb (fun e => tree_eqb_leaf (walk (Node l r) (snd e)) (fst e) && nonempty (snd e)) (ht_codes ht)
  end.

Fixpoint is_prefix (a b : list bool) : bool :=
  match a, b with
  | [], _ => true
  | x :: a', y :: b' => Bool.eqb x y && is_prefix a' b'
  | _ :: _, [] => false
  end.
(* no code is a prefix of a later or earlier one, none is empty *)
Fixpoint prefix_free (tb : table) : bool :=
  match tb with
  | [] => true
  | (s, c) :: rest =>
      nonempty c && forallb (fun e => negb (is_prefix c (snd e)) && negb (is_prefix (snd e) c)) rest
      && prefix_free rest
  end.
Fixpoint no_hole (t : tree) : bool :=
  match t with Leaf _ => true | Hole => false | Node l r => no_hole l && no_hole r end.
Definition is_node (t : tree) : bool := match t with Node _ _ => true | _ => false end.
