(* C01: contextual coder (orders 0/1/2) round trip. *)
From ZV.Common Require Import Base.
From ZV.C01 Require Import Model ModelCtx ProofsBits ProofsHuff.
Open Scope N_scope.

Lemma dns_walk_code s c : forall t rest, walk t c = Some (Leaf s) -> dns_walk t (c ++ rest) = Some (s, rest).
Proof.
  induction c as [|b c IH]; intros t rest Hw; cbn [walk] in Hw.
  - injection Hw as ->. reflexivity.
  - destruct t as [x| |l r]; try discriminate. cbn [app dns_walk]. now apply IH.
Qed.

Lemma skipn_app_exact {A} (a b : list A) : skipn (length a) (a ++ b) = b.
Proof. induction a as [|x a IH]; [reflexivity|]. cbn [length app skipn]. exact IH. Qed.

(* one code, read by the decoder's cursor routine with the tree the code came from *)
Lemma dns_code ht s c rest :
  wf_ht ht = true -> has_root ht = true -> get_code (ht_codes ht) s = Some c ->
  dns true ht (c ++ rest) = Some (s, rest) /\ c <> [].
Proof.
  destruct ht as [root tb]. cbn [ht_codes]. intros Hwf Hr Hg.
  destruct root as [[x| |l r]|]; try discriminate.
  - destruct (wf_leaf_code _ _ _ _ Hwf Hg) as [-> Hne]. split; [|assumption].
    unfold dns, root_code_len. cbn [ht_root ht_codes]. rewrite Hg.
    replace (length c <=? length (c ++ rest))%nat with true
      by (symmetry; apply Nat.leb_le; rewrite app_length; lia).
    now rewrite skipn_app_exact.
  - destruct (wf_node_code _ _ _ _ _ Hwf Hg) as [Hw Hne]. split; [|assumption].
    unfold dns. cbn [ht_root]. now apply dns_walk_code.
Qed.

Lemma tree_at_wf e i : wf_cenc e = true -> (i < length (c_trees e))%nat ->
  wf_ht (tree_at e i) = true /\ has_root (tree_at e i) = true.
Proof.
  unfold wf_cenc. intros Hwf Hi. apply andb_true_iff in Hwf. destruct Hwf as [Hwf _].
  apply andb_true_iff in Hwf. destruct Hwf as [_ Hall]. rewrite forallb_forall in Hall.
  specialize (Hall (tree_at e i)). unfold tree_at in *.
  assert (Hin : In (nth i (c_trees e) empty_ht) (c_trees e)) by now apply nth_In.
  specialize (Hall Hin). now apply andb_true_iff in Hall.
Qed.
Lemma tree0_wf e : wf_cenc e = true -> wf_ht (tree_at e 0) = true /\ has_root (tree_at e 0) = true.
Proof.
  intros Hwf. apply tree_at_wf; [assumption|].
  unfold wf_cenc in Hwf. apply andb_true_iff in Hwf. destruct Hwf as [Hwf _].
  apply andb_true_iff in Hwf. destruct Hwf as [Hne _]. destruct (c_trees e); [discriminate|cbn [length]; lia].
Qed.
Lemma map_get_lt e k i : wf_cenc e = true -> map_get e k = Some i -> (i < length (c_trees e))%nat.
Proof.
  unfold wf_cenc, map_get. intros Hwf Hg. apply andb_true_iff in Hwf. destruct Hwf as [_ Hm].
  rewrite forallb_forall in Hm. destruct (find _ (c_map e)) as [p|] eqn:Hf; [|discriminate].
  injection Hg as <-. apply find_some in Hf. destruct Hf as [Hin _].
  specialize (Hm _ Hin). now apply Nat.ltb_lt in Hm.
Qed.
Lemma ctx_tree_wf e hist : wf_cenc e = true ->
  wf_ht (ctx_tree e hist) = true /\ has_root (ctx_tree e hist) = true.
Proof.
  intros Hwf. unfold ctx_tree. destruct (ctx_key (c_order e) hist) as [k|]; [|now apply tree0_wf].
  destruct (map_get e k) as [i|] eqn:Hm; [|now apply tree0_wf].
  apply tree_at_wf; [assumption|]. eapply map_get_lt; eassumption.
Qed.
(* the repaired encoder codes every symbol with the tree the decoder will pick *)
Lemma sym_code_ctx_tree e hist s : sym_code false e hist s = get_code (ht_codes (ctx_tree e hist)) s.
Proof.
  unfold sym_code, ctx_tree. destruct (ctx_key (c_order e) hist) as [k|]; [|reflexivity].
  destruct (map_get e k) as [i|]; [|reflexivity].
  destruct (get_code (ht_codes (tree_at e i)) s); reflexivity.
Qed.

Lemma ctx_loop_codes e : wf_cenc e = true ->
  forall d hist bits p, ctx_bits false e hist d = Some bits ->
  ctx_loop true e hist (bits ++ repeat false p) (length d) = d.
Proof.
  intros Hwf. induction d as [|s d IH]; intros hist bits p Hc; [reflexivity|].
  cbn [ctx_bits] in Hc. rewrite sym_code_ctx_tree in Hc.
  destruct (get_code (ht_codes (ctx_tree e hist)) s) as [c|] eqn:Hg; [|discriminate].
  destruct (ctx_bits false e (push_hist s hist) d) as [r|] eqn:Hr; [|discriminate]. injection Hc as <-.
  destruct (ctx_tree_wf e hist Hwf) as [Hw Hroot].
  destruct (dns_code _ _ _ (r ++ repeat false p) Hw Hroot Hg) as [Hd Hne].
  cbn [length ctx_loop]. rewrite <- app_assoc.
  destruct (c ++ r ++ repeat false p) as [|b0 bs] eqn:Hb; [destruct c; [congruence|discriminate]|].
  rewrite Hd. f_equal. now apply IH.
Qed.

Lemma ctx_bits_order0 e d : c_order e = 0 -> forall hist,
  ctx_bits false e hist d = code_bits (ht_codes (tree_at e 0)) d.
Proof.
  intros Ho. induction d as [|s d IH]; intros hist; [reflexivity|].
  cbn [ctx_bits code_bits]. unfold sym_code, ctx_key. rewrite Ho. cbn [N.eqb].
  change (0 =? 1) with false. change (0 =? 2) with false. cbv iota.
  destruct (get_code (ht_codes (tree_at e 0)) s); [|reflexivity]. now rewrite IH.
Qed.

Lemma ctx_decode_order0 e bytes n : c_order e = 0 ->
  ctx_decode e bytes n = huff_decode (tree_at e 0) bytes n.
Proof.
  intros Ho. unfold ctx_decode, ctx_decode_g, huff_decode. rewrite Ho. change (0 =? 0) with true. cbv iota.
  destruct bytes as [|b0 bs]; [reflexivity|]. destruct n as [|n]; [reflexivity|].
  destruct (ht_root (tree_at e 0)); reflexivity.
Qed.

Lemma ctx_key_nil o : ctx_key o [] = None.
Proof. unfold ctx_key. destruct (o =? 1); [reflexivity|]. destruct (o =? 2); reflexivity. Qed.
Lemma ctx_tree_nil e : ctx_tree e [] = tree_at e 0.
Proof. unfold ctx_tree. now rewrite ctx_key_nil. Qed.
Lemma ctx_tree_one_order2 e s : (c_order e =? 1) = false -> ctx_tree e [s] = tree_at e 0.
Proof.
  intros H1. unfold ctx_tree, ctx_key. rewrite H1. destruct (c_order e =? 2); reflexivity.
Qed.

(* decode(encode(d), |d|) = d for every order, every family of trees that agree with their tables *)
Theorem ctx_roundtrip_proof : forall e d b,
  wf_cenc e = true -> ctx_encode e d = Some b -> ctx_decode e b (length d) = Some d.
Proof.
  intros e d b Hwf He.
  destruct (N.eqb_spec (c_order e) 0) as [H0|H0].
  - (* order 0: the plain decoder *)
    rewrite ctx_decode_order0 by assumption.
    apply huff_roundtrip_proof; [now apply tree0_wf|].
    unfold ctx_encode, ctx_encode_g in He. unfold huff_encode.
    destruct d as [|s d]; [assumption|]. now rewrite <- (ctx_bits_order0 e (s :: d) H0 []).
  - destruct d as [|s1 d]; [cbn in He; injection He as <-; reflexivity|].
    unfold ctx_encode, ctx_encode_g in He.
    destruct (ctx_bits false e [] (s1 :: d)) as [bits|] eqn:Hc; [|discriminate]. injection He as <-.
    cbn [ctx_bits] in Hc. rewrite sym_code_ctx_tree, ctx_tree_nil in Hc.
    destruct (get_code (ht_codes (tree_at e 0)) s1) as [c1|] eqn:Hg1; [|discriminate].
    destruct (ctx_bits false e (push_hist s1 []) d) as [r1|] eqn:Hr1; [|discriminate]. injection Hc as <-.
    destruct (tree0_wf e Hwf) as [Hw0 Hroot0].
    destruct (dns_code _ _ _ (r1 ++ repeat false (pad_len (length (c1 ++ r1)))) Hw0 Hroot0 Hg1) as [Hd1 Hne1].
    unfold ctx_decode, ctx_decode_g.
    destruct (pack (c1 ++ r1)) as [|b0 bs] eqn:Hp;
      [apply pack_nonempty in Hp; [destruct Hp|destruct c1; [congruence|discriminate]]|].
    cbn [length]. rewrite <- Hp. rewrite pack_unpack_proof.
    replace (c_order e =? 0) with false by (symmetry; now apply N.eqb_neq).
    rewrite <- app_assoc. rewrite Hd1.
    destruct (c_order e =? 1) eqn:H1.
    + (* order 1 *)
      replace (S (length d) - 1)%nat with (length d) by lia.
      change [s1] with (push_hist s1 []).
      rewrite (ctx_loop_codes e Hwf d _ _ _ Hr1).
      change (S (length d)) with (length (s1 :: d)). now rewrite length_is_refl.
    + (* order 2: the first two symbols use tree 0 *)
      destruct d as [|s2 d]; [reflexivity|].
      cbn [ctx_bits] in Hr1. rewrite sym_code_ctx_tree in Hr1.
      change (push_hist s1 []) with [s1] in Hr1. rewrite (ctx_tree_one_order2 e s1 H1) in Hr1.
      destruct (get_code (ht_codes (tree_at e 0)) s2) as [c2|] eqn:Hg2; [|discriminate].
      destruct (ctx_bits false e (push_hist s2 [s1]) d) as [r2|] eqn:Hr2; [|discriminate]. injection Hr1 as <-.
      destruct (dns_code _ _ _ (r2 ++ repeat false (pad_len (length (c1 ++ c2 ++ r2)))) Hw0 Hroot0 Hg2) as [Hd2 _].
      cbn [length]. rewrite <- app_assoc. rewrite Hd2.
      replace (S (S (length d)) - 2)%nat with (length d) by lia.
      change [s2; s1] with (push_hist s2 [s1]).
      rewrite (ctx_loop_codes e Hwf d _ _ _ Hr2).
      change (S (S (length d))) with (length (s1 :: s2 :: d)). now rewrite length_is_refl.
Qed.

(* the encoder refuses a symbol the chosen tree has no code for (no fallback to another tree) *)
Theorem ctx_encode_rejects_proof : forall e d pre s post,
  d = pre ++ s :: post ->
  get_code (ht_codes (ctx_tree e (firstn 2 (rev pre)))) s = None ->
  ctx_encode e d = None.
Proof.
  intros e d pre s post -> Hg. unfold ctx_encode, ctx_encode_g.
  assert (Hgen : forall pre hist, get_code (ht_codes (ctx_tree e (firstn 2 (rev pre ++ hist)))) s = None ->
                 (length hist <= 2)%nat ->
                 ctx_bits false e (firstn 2 hist) (pre ++ s :: post) = None).
  { clear Hg pre. induction pre as [|x pre IH]; intros hist Hg Hl.
    - cbn [app rev] in Hg. cbn [app ctx_bits]. rewrite sym_code_ctx_tree.
      replace (firstn 2 hist) with hist in * by (symmetry; apply firstn_all2; lia). now rewrite Hg.
    - cbn [app ctx_bits]. destruct (sym_code false e (firstn 2 hist) x); [|reflexivity].
      assert (Hp : push_hist x (firstn 2 hist) = firstn 2 (x :: firstn 1 hist)).
      { unfold push_hist. destruct hist as [|h1 [|h2 hist]]; reflexivity. }
      rewrite Hp. rewrite IH; [reflexivity| |cbn [length]; rewrite firstn_length; lia].
      cbn [rev] in Hg. rewrite <- app_assoc in Hg. cbn [app] in Hg.
      destruct (rev pre) as [|r1 [|r2 rp]] eqn:Hrp; cbn [app firstn] in *;
        destruct hist as [|h1 [|h2 hist]]; cbn [firstn app] in *; exact Hg. }
  specialize (Hgen pre []). rewrite app_nil_r in Hgen. cbn [firstn] in Hgen.
  assert (Hc : ctx_bits false e [] (pre ++ s :: post) = None) by (apply Hgen; [exact Hg|cbn [length]; lia]).
  remember (pre ++ s :: post) as dd eqn:Hd. destruct dd as [|y l]; [destruct pre; discriminate|].
  now rewrite Hc.
Qed.

(* inhabitation: an order-1 encoder with two trees *)
Definition ex_cenc : cenc :=
  mkC 1 [ex_ht; mkHT (Some (Node (Leaf 98) (Node (Leaf 97) (Leaf 99))))
                     [(98, [false]); (97, [true; false]); (99, [true; true])]]
      [(97, 1%nat)].
Example ex_cenc_wf : wf_cenc ex_cenc = true. Proof. reflexivity. Qed.
Example ex_cenc_rt : exists b, ctx_encode ex_cenc [97; 98; 99; 97; 97] = Some b /\
                               ctx_decode ex_cenc b 5 = Some [97; 98; 99; 97; 97].
Proof. eexists. split; reflexivity. Qed.
