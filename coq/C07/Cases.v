(* C07: the case type of the harness-written case files (model vs. implementation on the same histories).
   Definitions only. *)
From ZV.Common Require Import Base Run.
From ZV.C07 Require Import Model ModelFive ModelTL ModelTiered ModelSecure ModelMmap.
Open Scope N_scope.

Inductive xcase :=
| XOld (c : Model.case_t)
(* five-level family: configuration, whether the constructor accepted it, whether remaining_capacity() is observed,
   the history, and per operation: result, used_memory, fragment_size[, remaining_capacity] *)
| X5 (c : fcfg) (impl_new rem : bool) (ops : list op5) (expect : list (option Z))
(* level 4, ThreadLocalPool: configuration, arena_size, constructor result, history, offsets *)
| X5T (c : fcfg) (arena : N) (impl_new : bool) (ops : list op5) (expect : list (option Z))
(* ThreadLocalMemoryPool: TLS_SIZE_CLASSES as read from the source, configuration, history, and per allocation the
   arena index (in order of first appearance) and the offset inside the arena *)
| XTl (impl_classes : list N) (c : tlcfg) (ops : list tlop) (expect : list (option Z))
(* TieredMemoryAllocator: configuration, history, and per allocation: tier, serving pool, pool hit, creating pool and
   serial of the chunk; per deallocation: receiving pool, kept / released *)
| XTi (c : tcfg) (ops : list top) (expect : list (option Z))
(* SecureMemoryPool: local_cache_size, history, and after every operation the result and the whole bookkeeping state
   (local cache, shared stack, size of the active table) *)
| XSec (lcache : N) (ops : list sop) (expect : list (option Z))
(* MemoryPool: max_chunks, history, per allocation: pool hit, serial of the chunk; per deallocation: kept / released *)
| XMp (max : N) (ops : list mop) (expect : list (option Z))
(* MemoryMappedAllocator: min_mmap_size, page size, history, per allocation: cache hit, serial, usable size; per
   deallocation: kept / unmapped *)
| XMm (min pg : N) (ops : list mmop) (expect : list (option Z)).

Definition xok (x : xcase) : bool :=
  match x with
  | XOld c => Model.ok c
  | X5 c impl_new rem ops e =>
      if new_ok5 Fixed c
      then (if impl_new then eqb_loz (observe5 Fixed c rem ops) e else 1073741824 <? f_cap c)   (* a huge arena may fail to allocate *)
      else negb impl_new
  | X5T c arena impl_new ops e =>
      if new_ok5 Fixed c
      then (if impl_new then eqb_loz (observe5t c arena ops) e else 1073741824 <? f_cap c)
      else negb impl_new
  | XTl ic c ops e => eqb_ln' ic TLS_SIZE_CLASSES && eqb_loz (tl_observe c ops) e
  | XTi c ops e => eqb_loz (t_observe c ops) e
  | XSec lc ops e => eqb_loz (s_observe lc ops) e
  | XMp mx ops e => eqb_loz (m_observe mx ops) e
  | XMm mn pg ops e => eqb_loz (mm_observe mn pg ops) e
  end.
