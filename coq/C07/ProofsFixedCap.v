(* C07: FixedCapacityMemoryPool - live blocks are distinct whole blocks of the arena, for every history. *)
From ZV.Common Require Import Base.
From ZV.C07 Require Import Model ProofsArith.
Open Scope N_scope.

Lemma nth_repeat0 (c : N) : forall n b, (b < n)%nat -> nth b (repeat c n) 0 = c.
Proof. induction n as [|n IH]; intros [|b] H; cbn [repeat nth]; try lia; auto. apply IH. lia. Qed.
Lemma cov_offs_app c l1 l2 x : cov_offs c (l1 ++ l2) x = cov_offs c l1 x + cov_offs c l2 x.
Proof. induction l1 as [|o t IH]; cbn [cov_offs app]; [reflexivity|]. rewrite IH. lia. Qed.

Lemma cov_blocks_from s : 0 < s -> forall n i x,
  cov_offs s (blocks_from n i s) x <= 1 /\ (x < i * s -> cov_offs s (blocks_from n i s) x = 0).
Proof.
  intros Hs. induction n as [|n IH]; intros i x; cbn [blocks_from cov_offs]; [split; [lia|reflexivity]|].
  destruct (IH (i + 1) x) as [H1 H2]. split.
  - destruct (N.lt_ge_cases x ((i + 1) * s)) as [Hlt|Hge].
    + rewrite (H2 Hlt). pose proof (inb_01 (i * s) s x). lia.
    + rewrite (inb_0_above (i * s) s x) by lia. lia.
  - intros Hx. rewrite inb_0_below by exact Hx. rewrite H2 by lia. reflexivity.
Qed.
Lemma blocks_from_bound s : forall n i o, In o (blocks_from n i s) -> o + s <= (i + N.of_nat n) * s.
Proof.
  induction n as [|n IH]; intros i o Hin; cbn [blocks_from] in Hin; [destruct Hin|].
  destruct Hin as [<-|Hin]; [nia|]. specialize (IH (i + 1) o Hin). nia.
Qed.

Lemma cov_bins_empty_prefix c : forall k l x,
  cov_bins (repeat c (k + 1)) (repeat [] k ++ [l]) x = cov_offs c l x.
Proof.
  induction k as [|k IH]; intros l x; cbn [repeat Nat.add app cov_bins cov_offs].
  - lia.
  - rewrite IH. lia.
Qed.

Lemma first_nonempty_spec : forall ls k j, first_nonempty k ls = Some j ->
  (j < length ls)%nat /\ nth j ls [] <> [].
Proof.
  induction ls as [|l t IH]; intros k j H; cbn [first_nonempty] in H; [discriminate|].
  destruct k as [|k].
  - destruct l as [|o r].
    + destruct (first_nonempty 0 t) as [j'|] eqn:E; cbn in H; [|discriminate]. inversion H; subst.
      destruct (IH _ _ E). cbn [length nth]. split; [lia|assumption].
    + inversion H; subst. cbn. split; [lia|discriminate].
  - destruct (first_nonempty k t) as [j'|] eqn:E; cbn in H; [|discriminate]. inversion H; subst.
    destruct (IH _ _ E). cbn [length nth]. split; [lia|assumption].
Qed.

Definition total (p : fpool) : N := fnblocks p * fstride p.
Record Finv (s : fstate) : Prop := {
  fi_pos : 0 < fstride (fp s);
  fi_len : length (flists (fp s)) = length (fclasses (fp s));
  fi_cls : Forall (fun e => (snd e < length (fclasses (fp s)))%nat /\ fst e + fstride (fp s) <= total (fp s)) (flive s);
  fi_lst : Forall (Forall (fun o => o + fstride (fp s) <= total (fp s))) (flists (fp s));
  fi_cov : forall x, cov_offs (fstride (fp s)) (map fst (flive s)) x +
                     cov_bins (repeat (fstride (fp s)) (length (flists (fp s)))) (flists (fp s)) x <= 1
}.

Lemma size_classes_nonempty mx al : (1 <= length (size_classes mx al))%nat.
Proof.
  unfold size_classes. destruct (gen_classes 200 al mx al) as [|c t]; [cbn [length]; apply le_n|].
  destruct (last (c :: t) 0 =? mx); [cbn [length]; lia|]. rewrite app_length. cbn [length]. lia.
Qed.

Lemma Finv_start mx al nb : 0 < mx -> Finv (fstart mx al nb).
Proof.
  intros Hmx. pose proof (size_classes_nonempty mx al) as Hne.
  set (cls := size_classes mx al) in *.
  assert (Hl : length (repeat (@nil N) (length cls - 1) ++ [blocks_from (N.to_nat nb) 0 mx]) = length cls).
  { rewrite app_length, repeat_length. cbn. lia. }
  constructor; cbn [fstart fp flive finit fstride flists fclasses fnblocks total]; fold cls.
  - exact Hmx.
  - exact Hl.
  - constructor.
  - apply Forall_app. split.
    + apply Forall_forall. intros l Hin. apply repeat_spec in Hin. subst. constructor.
    + constructor; [|constructor]. apply Forall_forall. intros o Hin.
      apply blocks_from_bound in Hin. rewrite N2Nat.id, N.add_0_l in Hin. exact Hin.
  - intros x. cbn [map cov_offs]. rewrite Hl. clear Hl.
    destruct (length cls) as [|k]; [lia|].
    replace (S k - 1)%nat with k by lia. replace (S k) with (k + 1)%nat by lia.
    rewrite cov_bins_empty_prefix. destruct (cov_blocks_from mx Hmx (N.to_nat nb) 0 x). lia.
Qed.

Lemma falloc_inv s size r p' : Finv s -> falloc (fp s) size = (r, p') ->
  match r with
  | Some (off, k) => Finv (mkFS p' (flive s ++ [(off, k)]))
  | None => p' = fp s
  end.
Proof.
  intros [Hpos Hlen Hcls Hlst Hcov]. unfold falloc.
  destruct (_ || _); [intros H; inversion H; reflexivity|].
  destruct (bin_of_go (fclasses (fp s)) 0 size) as [k|] eqn:Hk; [|intros H; inversion H; reflexivity].
  destruct (first_nonempty k (flists (fp s))) as [j|] eqn:Hj; [|intros H; inversion H; reflexivity].
  destruct (nth j (flists (fp s)) []) as [|off rest] eqn:Hn; [intros H; inversion H; reflexivity|].
  intros H; inversion H; subst. clear H.
  apply bin_of_go_spec in Hk as (k' & -> & Hk' & _). cbn [Nat.add] in *.
  apply first_nonempty_spec in Hj as [Hjl _].
  assert (Hoff : Forall (fun o => o + fstride (fp s) <= total (fp s)) (off :: rest)).
  { rewrite <- Hn. apply (proj1 (Forall_forall _ _) Hlst). apply nth_In. exact Hjl. }
  inversion Hoff as [|? ? Ho Hrest]; subst.
  constructor; cbn [fp flive fstride flists fclasses fnblocks total] in *.
  - exact Hpos.
  - rewrite upd_length. exact Hlen.
  - apply Forall_app. split; [exact Hcls|]. constructor; [|constructor]. cbn [fst snd]. split; [exact Hk'|exact Ho].
  - clear - Hlst Hrest Hjl. revert j Hjl. induction Hlst as [|l t Hl Ht IH]; intros [|j] Hj; cbn [upd length] in *; try lia.
    + constructor; assumption.
    + constructor; [assumption|]. apply IH. lia.
  - intros x. rewrite map_app, cov_offs_app, upd_length. cbn [map fst cov_offs].
    pose proof (cov_bins_upd (repeat (fstride (fp s)) (length (flists (fp s)))) (flists (fp s)) j rest x) as E.
    rewrite repeat_length in E. specialize (E Hjl Hjl). rewrite nth_repeat0 in E by exact Hjl.
    rewrite Hn in E. cbn [cov_offs] in E. specialize (Hcov x). lia.
Qed.

Lemma ffree_inv s l1 l2 off k : Finv s -> flive s = l1 ++ (off, k) :: l2 ->
  Finv (mkFS (ffree (fp s) off k) (l1 ++ l2)).
Proof.
  intros [Hpos Hlen Hcls Hlst Hcov] Hl. rewrite Hl in *.
  apply Forall_app in Hcls as [Hc1 Hc2]. inversion Hc2 as [|? ? [Hk Ho] Hc2']; subst. cbn [fst snd] in *.
  rewrite <- Hlen in Hk.
  constructor; cbn [fp flive ffree fstride flists fclasses fnblocks] in *;
    try replace (total (ffree (fp s) off k)) with (total (fp s)) by reflexivity.
  - exact Hpos.
  - rewrite upd_length. exact Hlen.
  - apply Forall_app. split; assumption.
  - assert (Hnew : Forall (fun o => o + fstride (fp s) <= total (fp s)) (off :: nth k (flists (fp s)) [])).
    { constructor; [exact Ho|]. apply (proj1 (Forall_forall _ _) Hlst). apply nth_In. exact Hk. }
    clear - Hlst Hnew Hk. revert k Hk Hnew. induction Hlst as [|l t Hl Ht IH]; intros [|k] Hk Hnew; cbn [upd length nth] in *; try lia.
    + constructor; assumption.
    + constructor; [assumption|]. apply IH; [lia|assumption].
  - intros x. rewrite upd_length.
    pose proof (cov_bins_upd (repeat (fstride (fp s)) (length (flists (fp s)))) (flists (fp s)) k
                  (off :: nth k (flists (fp s)) []) x) as E.
    rewrite repeat_length in E. specialize (E Hk Hk). rewrite nth_repeat0 in E by exact Hk. cbn [cov_offs] in E.
    specialize (Hcov x). rewrite map_app, cov_offs_app in Hcov. cbn [map fst cov_offs] in Hcov.
    rewrite map_app, cov_offs_app. lia.
Qed.

Lemma fstep_inv s o : Finv s -> Finv (fst (fstep s o)).
Proof.
  intros HI. destruct o as [size|k]; cbn [fstep].
  - destruct (falloc (fp s) size) as [[[off c]|] p'] eqn:Ha; pose proof (falloc_inv _ _ _ _ HI Ha) as H; cbn beta iota in H.
    + exact H.
    + subst p'. cbn [fst]. destruct s; exact HI.
  - destruct (flive s) as [|e t] eqn:Hl; [exact HI|]. rewrite <- Hl.
    set (i := N.to_nat (k mod nlen (flive s))).
    assert (Hi : (i < length (flive s))%nat).
    { subst i. rewrite nlen_length. assert (0 < length (flive s))%nat by (rewrite Hl; cbn; lia). lia. }
    destruct (nth_split_remove (0, O) (flive s) i Hi) as (l1 & l2 & E1 & E2 & _).
    destruct (nth i (flive s) (0, O)) as [off c] eqn:Hn. cbn [fst]. rewrite E2.
    apply ffree_inv; assumption.
Qed.
Lemma frun_inv : forall ops s, Finv s -> Finv (fst (frun s ops)).
Proof.
  induction ops as [|o t IH]; intros s HI; cbn [frun]; [exact HI|].
  pose proof (fstep_inv s o HI) as H1. destruct (fstep s o) as [s1 r]. cbn [fst] in H1.
  specialize (IH s1 H1). destruct (frun s1 t) as [s2 rs]. exact IH.
Qed.

Lemma cov_offs_two c : forall (l : list N) i j o1 o2 x, i <> j ->
  nth_error l i = Some o1 -> nth_error l j = Some o2 -> inb o1 c x + inb o2 c x <= cov_offs c l x.
Proof.
  assert (One : forall (l : list N) i o x, nth_error l i = Some o -> inb o c x <= cov_offs c l x).
  { induction l as [|o0 t IH]; intros [|i] o x H; cbn [nth_error] in H; try discriminate; cbn [cov_offs].
    - inversion H; subst. lia.
    - specialize (IH i o x H). lia. }
  induction l as [|o0 t IH]; intros [|i] [|j] o1 o2 x Hij H1 H2; cbn [nth_error] in *; try discriminate; try lia; cbn [cov_offs].
  - inversion H1; subst. pose proof (One t j o2 x H2). lia.
  - inversion H2; subst. pose proof (One t i o1 x H1). lia.
  - specialize (IH i j o1 o2 x ltac:(lia) H1 H2). lia.
Qed.

Lemma fixedcap_live_disjoint_within_proof mx al nb ops :
  0 < mx ->
  let s := fst (frun (fstart mx al nb) ops) in
  (forall i j o1 k1 o2 k2, i <> j -> nth_error (flive s) i = Some (o1, k1) -> nth_error (flive s) j = Some (o2, k2) ->
     disjoint o1 mx o2 mx) /\
  (forall o k, In (o, k) (flive s) -> o + mx <= nb * mx).
Proof.
  intros Hmx s. assert (HI : Finv s) by (apply frun_inv, Finv_start; exact Hmx).
  assert (Hst : fstride (fp s) = mx /\ fnblocks (fp s) = nb).
  { subst s. generalize (Finv_start mx al nb Hmx).
    assert (G : forall ops s0, fstride (fp (fst (frun s0 ops))) = fstride (fp s0) /\ fnblocks (fp (fst (frun s0 ops))) = fnblocks (fp s0)).
    { induction ops0 as [|o t IH]; intros s0; cbn [frun]; [auto|].
      assert (E : fstride (fp (fst (fstep s0 o))) = fstride (fp s0) /\ fnblocks (fp (fst (fstep s0 o))) = fnblocks (fp s0)).
      { destruct o as [size|k]; cbn [fstep].
        - unfold falloc. destruct (_ || _); [cbn; auto|]. destruct (bin_of_go _ _ _); [|cbn; auto].
          destruct (first_nonempty _ _); [|cbn; auto]. destruct (nth _ _ _); cbn; auto.
        - destruct (flive s0); [cbn; auto|]. destruct (nth _ _ _). cbn. auto. }
      destruct (fstep s0 o) as [s1 r]. cbn [fst] in E. specialize (IH s1). destruct (frun s1 t) as [s2 rs]. cbn [fst] in *.
      destruct IH, E. split; congruence. }
    intros _. apply (G ops (fstart mx al nb)). }
  destruct Hst as [Hs Hn]. destruct HI as [_ _ Hcls _ Hcov]. rewrite Hs in *. unfold total in Hcls. rewrite Hs, Hn in Hcls.
  split.
  - intros i j o1 k1 o2 k2 Hij H1 H2. unfold disjoint.
    destruct (N.le_gt_cases (o1 + mx) o2) as [|G1]; [left; assumption|].
    destruct (N.le_gt_cases (o2 + mx) o1) as [|G2]; [right; assumption|].
    exfalso. set (x := N.max o1 o2).
    assert (M1 : nth_error (map fst (flive s)) i = Some o1) by (rewrite nth_error_map, H1; reflexivity).
    assert (M2 : nth_error (map fst (flive s)) j = Some o2) by (rewrite nth_error_map, H2; reflexivity).
    pose proof (cov_offs_two mx _ i j o1 o2 x Hij M1 M2) as T.
    rewrite (inb_1 o1 mx x) in T by (subst x; lia). rewrite (inb_1 o2 mx x) in T by (subst x; lia).
    specialize (Hcov x). lia.
  - intros o k Hin. apply (proj1 (Forall_forall _ _) Hcls) in Hin. cbn [fst] in Hin. lia.
Qed.

Example fixedcap_example :
  snd (frun (fstart 64 8 3) [FAlloc 8; FAlloc 64; FFree 0; FAlloc 9; FAlloc 16; FAlloc 8; FAlloc 65]) =
  [Some 0%Z; Some 64%Z; Some 0%Z; Some 128%Z; None; Some 0%Z; None].
Proof. vm_compute. reflexivity. Qed.
