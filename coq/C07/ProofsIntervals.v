(* C07: byte-cover counting over lists of intervals (start, length) - shared by the five-level and the thread-local
   pool proofs.  cov l x = number of intervals of l that contain byte x; the pool invariants state cov <= 1 for the
   live blocks together with the free-list blocks. *)
From ZV.Common Require Import Base.
From ZV.C07 Require Import Model ProofsArith.
Open Scope N_scope.

Fixpoint cov (l : list (N * N)) (x : N) : N :=
  match l with [] => 0 | (o, n) :: t => inb o n x + cov t x end.
Fixpoint tot (l : list (N * N)) : N :=
  match l with [] => 0 | (_, n) :: t => n + tot t end.
Definition below (n : N) (e : N * N) : Prop := fst e + snd e <= n.
Definition ipos (e : N * N) : Prop := 0 < snd e.

Lemma cov_app l1 l2 x : cov (l1 ++ l2) x = cov l1 x + cov l2 x.
Proof. induction l1 as [|[o n] t IH]; cbn [cov app]; [reflexivity|]. rewrite IH. lia. Qed.
Lemma tot_app l1 l2 : tot (l1 ++ l2) = tot l1 + tot l2.
Proof. induction l1 as [|[o n] t IH]; cbn [tot app]; [reflexivity|]. rewrite IH. lia. Qed.

Lemma below_mono n n' e : n <= n' -> below n e -> below n' e.
Proof. unfold below. lia. Qed.
Lemma Forall_below_mono n n' l : n <= n' -> Forall (below n) l -> Forall (below n') l.
Proof. intros H. apply Forall_impl. intros e. apply below_mono. exact H. Qed.

Lemma cov_above n l x : Forall (below n) l -> n <= x -> cov l x = 0.
Proof.
  induction 1 as [|[o k] t H _ IH]; intros Hx; cbn [cov]; [reflexivity|].
  rewrite IH by assumption. unfold below in H. cbn [fst snd] in H. rewrite inb_0_above by lia. reflexivity.
Qed.

(* a block [o, o+n) that is covered once, all other blocks non-empty and ending at or below o+n:
   the others end at or below o (used when the top block of the bump region is given back) *)
Lemma merge_below o n l :
  0 < n -> Forall ipos l -> Forall (below (o + n)) l -> (forall x, inb o n x + cov l x <= 1) -> Forall (below o) l.
Proof.
  intros Hn Hp Hb. revert Hp. induction Hb as [|[o2 n2] t Hh _ IH]; intros Hp Hc; [constructor|].
  inversion Hp as [|? ? Hp1 Hp2]; subst. unfold ipos, below in *. cbn [fst snd] in *.
  constructor.
  - cbn [fst snd]. destruct (N.le_gt_cases (o2 + n2) o) as [|G]; [assumption|]. exfalso.
    set (x := N.max o o2). specialize (Hc x). cbn [cov] in Hc.
    rewrite (inb_1 o n x) in Hc by (subst x; lia). rewrite (inb_1 o2 n2 x) in Hc by (subst x; lia). lia.
  - apply IH; [assumption|]. intros x. specialize (Hc x). cbn [cov] in Hc. lia.
Qed.

Lemma cov_one l : forall i o n x, nth_error l i = Some (o, n) -> inb o n x <= cov l x.
Proof.
  induction l as [|[o0 n0] t IH]; intros [|i] o n x H; cbn [nth_error] in H; try discriminate.
  - inversion H; subst. cbn [cov]. lia.
  - cbn [cov]. specialize (IH i o n x H). lia.
Qed.
Lemma cov_two l : forall i j o1 n1 o2 n2 x, i <> j ->
  nth_error l i = Some (o1, n1) -> nth_error l j = Some (o2, n2) -> inb o1 n1 x + inb o2 n2 x <= cov l x.
Proof.
  induction l as [|[o0 n0] t IH]; intros [|i] [|j] o1 n1 o2 n2 x Hij H1 H2; cbn [nth_error] in *; try discriminate; try lia.
  - inversion H1; subst. cbn [cov]. pose proof (cov_one t j o2 n2 x H2). lia.
  - inversion H2; subst. cbn [cov]. pose proof (cov_one t i o1 n1 x H1). lia.
  - cbn [cov]. specialize (IH i j o1 n1 o2 n2 x ltac:(lia) H1 H2). lia.
Qed.

(* two non-empty intervals that never cover the same byte are disjoint *)
Lemma inb_disjoint o1 n1 o2 n2 :
  0 < n1 -> 0 < n2 -> (forall x, inb o1 n1 x + inb o2 n2 x <= 1) -> disjoint o1 n1 o2 n2.
Proof.
  intros P1 P2 H. unfold disjoint.
  destruct (N.le_gt_cases (o1 + n1) o2) as [|G1]; [left; assumption|].
  destruct (N.le_gt_cases (o2 + n2) o1) as [|G2]; [right; assumption|].
  exfalso. set (x := N.max o1 o2). specialize (H x).
  rewrite (inb_1 o1 n1 x) in H by (subst x; lia). rewrite (inb_1 o2 n2 x) in H by (subst x; lia). lia.
Qed.
Lemma cov_disjoint l i j o1 n1 o2 n2 :
  (forall x, cov l x <= 1) -> 0 < n1 -> 0 < n2 -> i <> j ->
  nth_error l i = Some (o1, n1) -> nth_error l j = Some (o2, n2) -> disjoint o1 n1 o2 n2.
Proof.
  intros Hc P1 P2 Hij H1 H2. apply inb_disjoint; [assumption|assumption|].
  intros x. pose proof (cov_two l i j o1 n1 o2 n2 x Hij H1 H2). specialize (Hc x). lia.
Qed.

(* an interval of l and an interval of l' (live block / free-list block) *)
Lemma cov_cross l l' i j o1 n1 o2 n2 :
  (forall x, cov l x + cov l' x <= 1) -> 0 < n1 -> 0 < n2 ->
  nth_error l i = Some (o1, n1) -> nth_error l' j = Some (o2, n2) -> disjoint o1 n1 o2 n2.
Proof.
  intros Hc P1 P2 H1 H2. apply inb_disjoint; [assumption|assumption|].
  intros x. pose proof (cov_one l i o1 n1 x H1). pose proof (cov_one l' j o2 n2 x H2). specialize (Hc x). lia.
Qed.

Lemma tot_ge_in l o n : In (o, n) l -> n <= tot l.
Proof.
  induction l as [|[o0 n0] t IH]; intros H; [destruct H|]. cbn [tot]. destruct H as [E|H].
  - inversion E; subst. lia.
  - specialize (IH H). lia.
Qed.
