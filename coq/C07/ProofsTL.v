(* C07, ThreadLocalMemoryPool: the invariant over every history of allocate / guard drop, for every arena size and
   cache bound.  Blocks (arena, offset) are laid out in one flat address space arena * arena_size + offset (every
   block ends inside its arena), so that the byte-cover counting of ProofsIntervals applies. *)
From ZV.Common Require Import Base.
From ZV.C07 Require Import Model ModelTL ProofsArith ProofsIntervals.
Open Scope N_scope.

(* ---------- the class table ---------- *)
Definition tl_class_okb (c : N) : bool := (16 <=? c) && (c mod 8 =? 0) && (c <=? 4096).
Lemma tl_classes_okb : forallb tl_class_okb TLS_SIZE_CLASSES = true.
Proof. vm_compute. reflexivity. Qed.
Lemma tl_classes_len : length TLS_SIZE_CLASSES = 16%nat.
Proof. reflexivity. Qed.
Lemma tl_class_of_spec s i : tl_class_of s = Some i ->
  (i < 16)%nat /\ s <= tl_class_size i /\ 16 <= tl_class_size i /\ tl_class_size i mod 8 = 0 /\ tl_class_size i <= 4096.
Proof.
  unfold tl_class_of. intros H. apply bin_of_go_spec in H as (j & -> & Hj & Hs). cbn [Nat.add].
  rewrite tl_classes_len in Hj. unfold tl_class_size.
  assert (Hin : In (nth j TLS_SIZE_CLASSES 0) TLS_SIZE_CLASSES) by (apply nth_In; rewrite tl_classes_len; exact Hj).
  pose proof tl_classes_okb as Hall. rewrite forallb_forall in Hall. specialize (Hall _ Hin).
  unfold tl_class_okb in Hall. apply andb_true_iff in Hall as [Hall H3]. apply andb_true_iff in Hall as [H1 H2].
  apply N.leb_le in H1. apply N.eqb_eq in H2. apply N.leb_le in H3. auto.
Qed.
Lemma tl_class_of_none s : tl_class_of s = None -> 4096 < s.
Proof.
  intros H. destruct (N.le_gt_cases s 4096) as [Hle|]; [|assumption]. exfalso.
  unfold tl_class_of in H. destruct (bin_of_go_some TLS_SIZE_CLASSES 0 s 4096) as [b Hb]; [|exact Hle|congruence].
  vm_compute. repeat (try (left; reflexivity); right).
Qed.

Lemma align8_some s a : align8 s = Some a -> a = (s + 7) / 8 * 8 /\ s <= a /\ a mod 8 = 0 /\ a < s + 8.
Proof. unfold align8. destruct (W64 <=? s + 7); [discriminate|]. intros H. inversion H; subst. lia. Qed.
Lemma align8_mult s : s mod 8 = 0 -> s + 7 < W64 -> align8 s = Some s.
Proof. intros Hm Hs. unfold align8. destruct (N.leb_spec W64 (s + 7)); [lia|]. f_equal. lia. Qed.

Lemma tl_cap_props r : 0 < r -> r <= tl_cap r /\ tl_cap r mod 8 = 0 /\ 0 < tl_cap r.
Proof.
  intros Hr. unfold tl_cap. destruct (tl_class_of r) as [i|] eqn:E.
  - apply tl_class_of_spec in E. intuition lia.
  - lia.
Qed.

(* ---------- flat addresses and intervals ---------- *)
Definition flat (S : N) (b : blk) : N := fst b * S + snd b.
Definition ivtl (S : N) (l : list (blk * N)) : list (N * N) := map (fun e => (flat S (fst e), tl_cap (snd e))) l.
Definition ivtf (S : N) (l : list (nat * blk)) : list (N * N) := map (fun e => (flat S (snd e), tl_class_size (fst e))) l.
Definition liveokT (S n : N) (e : blk * N) : Prop :=
  0 < snd e /\ snd (fst e) mod 8 = 0 /\ snd (fst e) + tl_cap (snd e) <= S /\ fst (fst e) < n.
Definition flokT (S n : N) (e : nat * blk) : Prop :=
  (fst e < 16)%nat /\ snd (snd e) mod 8 = 0 /\ snd (snd e) + tl_class_size (fst e) <= S /\ fst (snd e) < n.
Definition topT (S : N) (st : tlst) : N := match tl_hot st with Some (ar, pos) => ar * S + pos | None => 0 end.
Definition hotokT (S : N) (st : tlst) : Prop :=
  match tl_hot st with Some (ar, pos) => ar + 1 = tl_n st /\ pos <= S /\ pos mod 8 = 0 | None => tl_n st = 0 end.

Lemma ivtl_app S l1 l2 : ivtl S (l1 ++ l2) = ivtl S l1 ++ ivtl S l2.
Proof. apply map_app. Qed.
Lemma ivtf_app S l1 l2 : ivtf S (l1 ++ l2) = ivtf S l1 ++ ivtf S l2.
Proof. apply map_app. Qed.
Lemma ivtf_cons S i b l : ivtf S ((i, b) :: l) = (flat S b, tl_class_size i) :: ivtf S l.
Proof. reflexivity. Qed.
Lemma ivtl_cons S b r l : ivtl S ((b, r) :: l) = (flat S b, tl_cap r) :: ivtl S l.
Proof. reflexivity. Qed.
Lemma liveokT_mono S n n' e : n <= n' -> liveokT S n e -> liveokT S n' e.
Proof. unfold liveokT. intuition lia. Qed.
Lemma flokT_mono S n n' e : n <= n' -> flokT S n e -> flokT S n' e.
Proof. unfold flokT. intuition lia. Qed.

Record InvT (c : tlcfg) (s : tlstate) : Prop := {
  iT_hot : hotokT (tl_arena c) (tl_p s);
  iT_live : Forall (liveokT (tl_arena c) (tl_n (tl_p s))) (tl_live s);
  iT_fl : Forall (flokT (tl_arena c) (tl_n (tl_p s))) (tl_fl (tl_p s));
  iT_lb : Forall (below (topT (tl_arena c) (tl_p s))) (ivtl (tl_arena c) (tl_live s));
  iT_fb : Forall (below (topT (tl_arena c) (tl_p s))) (ivtf (tl_arena c) (tl_fl (tl_p s)));
  iT_cov : forall x, cov (ivtl (tl_arena c) (tl_live s)) x + cov (ivtf (tl_arena c) (tl_fl (tl_p s))) x <= 1
}.
Lemma InvT_start c : InvT c tl_start.
Proof. constructor; cbn; try constructor. intros x. lia. Qed.

(* ---------- pop ---------- *)
Lemma popk_split i : forall l b rest, popk i l = Some (b, rest) ->
  exists l1 l2, l = l1 ++ (i, b) :: l2 /\ rest = l1 ++ l2.
Proof.
  induction l as [|[j b'] t IH]; intros b rest H; cbn [popk] in H; [discriminate|].
  destruct (Nat.eqb_spec j i) as [->|Hne].
  - inversion H; subst. exists [], rest. auto.
  - destruct (popk i t) as [[b2 t2]|] eqn:E; [|discriminate]. inversion H; subst.
    destruct (IH _ _ eq_refl) as (l1 & l2 & -> & ->). exists ((j, b') :: l1), l2. auto.
Qed.
Lemma popk_head i b l : popk i ((i, b) :: l) = Some (b, l).
Proof. cbn [popk]. rewrite Nat.eqb_refl. reflexivity. Qed.

(* ---------- carving a fresh block ---------- *)
Lemma tl_carve_cases c st sz r st' : tl_carve c st sz = (r, st') ->
  (r = None /\ st' = st) \/
  (exists a, align8 sz = Some a /\
     ((exists ar pos, tl_hot st = Some (ar, pos) /\ pos + a <= tl_arena c /\ r = Some (ar, pos) /\
                      st' = mkTL (Some (ar, pos + a)) (tl_n st) (tl_fl st)) \/
      (sz <= tl_arena c / 4 /\ a <= tl_arena c /\ r = Some (tl_n st, 0) /\
       st' = mkTL (Some (tl_n st, a)) (tl_n st + 1) (tl_fl st)))).
Proof.
  unfold tl_carve. destruct (tl_try_hot c st sz) as [[b st1]|] eqn:Eh.
  - intros H; inversion H; subst. right. unfold tl_try_hot in Eh.
    destruct (tl_hot st) as [[ar pos]|] eqn:Ehot; [|discriminate].
    destruct (align8 sz) as [a|] eqn:Ea; [|discriminate].
    destruct (N.leb_spec (pos + a) (tl_arena c)); [|discriminate]. inversion Eh; subst.
    exists a. split; [reflexivity|]. left. exists ar, pos. auto.
  - destruct (tl_new_area c st sz) as [[b st1]|] eqn:En; intros H; inversion H; subst; [|auto].
    right. unfold tl_new_area in En.
    destruct (N.ltb_spec (tl_arena c / 4) sz); [discriminate|].
    destruct (W63 <=? (tl_arena c + 7) / 8 * 8); [discriminate|].
    destruct (align8 sz) as [a|] eqn:Ea; [|discriminate].
    destruct (N.leb_spec a (tl_arena c)); [|discriminate]. inversion En; subst.
    exists a. split; [reflexivity|]. right. auto.
Qed.

Lemma carve_inv c s sz size r st' : InvT c s -> 0 < size -> tl_cap size = (sz + 7) / 8 * 8 ->
  tl_carve c (tl_p s) sz = (r, st') ->
  match r with
  | Some b => InvT c (mkTLS st' (tl_live s ++ [(b, size)]))
  | None => st' = tl_p s
  end.
Proof.
  intros [Hhot Hlive Hfl Hlb Hfb Hcov] Hs Hcap Hc. set (S := tl_arena c) in *.
  apply tl_carve_cases in Hc. destruct Hc as [(-> & ->)|(a & Ea & Hc)]; [reflexivity|].
  apply align8_some in Ea as (Ea & Ea1 & Ea2 & Ea3). rewrite <- Ea in Hcap.
  unfold hotokT in Hhot. unfold topT in Hlb, Hfb.
  assert (Hnew : forall b n' hot', r = Some b -> st' = mkTL hot' n' (tl_fl (tl_p s)) ->
            tl_n (tl_p s) <= n' -> fst b < n' -> snd b mod 8 = 0 -> snd b + a <= S ->
            hotokT S st' -> topT S st' = flat S b + a ->
            match tl_hot (tl_p s) with Some (ar, pos) => ar * S + pos | None => 0 end <= flat S b ->
            InvT c (mkTLS st' (tl_live s ++ [(b, size)]))).
  { intros b n' hot' -> -> Hn Hb1 Hb2 Hb3 Hh Ht Hold.
    constructor; cbn [tl_p tl_live tl_n tl_fl]; fold S.
    - exact Hh.
    - apply Forall_app. split.
      + eapply Forall_impl; [|exact Hlive]. intros e. apply liveokT_mono. exact Hn.
      + constructor; [|constructor]. unfold liveokT. cbn [fst snd]. rewrite Hcap. auto.
    - eapply Forall_impl; [|exact Hfl]. intros e. apply flokT_mono. exact Hn.
    - rewrite Ht, ivtl_app. apply Forall_app. split.
      + eapply Forall_below_mono; [|exact Hlb]. lia.
      + constructor; [|constructor]. unfold below. cbn [fst snd]. rewrite Hcap. lia.
    - rewrite Ht. eapply Forall_below_mono; [|exact Hfb]. lia.
    - intros x. rewrite ivtl_app, cov_app. cbn [ivtl map cov fst snd]. rewrite Hcap.
      destruct (N.lt_ge_cases x (flat S b)) as [Hlt|Hge].
      + rewrite inb_0_below by exact Hlt. specialize (Hcov x). lia.
      + rewrite (cov_above _ _ x Hlb) by lia. rewrite (cov_above _ _ x Hfb) by lia.
        pose proof (inb_01 (flat S b) a x). lia. }
  destruct Hc as [(ar & pos & Ehot & Hfit & -> & ->)|(Hq & Hfit & -> & ->)].
  - rewrite Ehot in *. destruct Hhot as (Hn & Hp & Hpm).
    eapply Hnew; try reflexivity; cbn [fst snd tl_n tl_hot]; unfold flat, hotokT, topT; cbn [fst snd tl_hot tl_n]; try lia.
  - eapply Hnew; try reflexivity; cbn [fst snd tl_n tl_hot]; unfold flat, hotokT, topT; cbn [fst snd tl_hot tl_n]; try lia.
    destruct (tl_hot (tl_p s)) as [[ar pos]|]; [|lia]. destruct Hhot as (Hn & Hp & _). nia.
Qed.

(* ---------- allocate ---------- *)
Lemma tl_alloc_inv c s size r st' : InvT c s -> tl_alloc c (tl_p s) size = (r, st') ->
  match r with
  | Some b => InvT c (mkTLS st' (tl_live s ++ [(b, size)]))
  | None => st' = tl_p s
  end.
Proof.
  intros HI. unfold tl_alloc.
  destruct (N.eqb_spec size 0) as [->|Hnz]; [intros H; inversion H; reflexivity|].
  assert (Hs : 0 < size) by lia.
  destruct (tl_class_of size) as [i|] eqn:Ec.
  - pose proof (tl_class_of_spec _ _ Ec) as (Hi & Hle & H16 & Hm & H4096).
    assert (Hcap : tl_cap size = tl_class_size i) by (unfold tl_cap; rewrite Ec; reflexivity).
    destruct (popk i (tl_fl (tl_p s))) as [[b rest]|] eqn:Ep.
    + intros H; inversion H; subst. clear H.
      destruct HI as [Hhot Hlive Hfl Hlb Hfb Hcov]. set (S := tl_arena c) in *.
      destruct (popk_split _ _ _ _ Ep) as (l1 & l2 & El & ->). rewrite El in *.
      apply Forall_app in Hfl as [Hfl1 Hfl2]. inversion Hfl2 as [|? ? Hfe Hfl2']; subst.
      rewrite ivtf_app, ivtf_cons in Hfb. apply Forall_app in Hfb as [Hfb1 Hfb2]. inversion Hfb2 as [|? ? Hbe Hfb2']; subst.
      unfold flokT in Hfe. unfold below in Hbe. cbn [fst snd] in *.
      assert (Hcov' : forall x, cov (ivtl S (tl_live s)) x + (cov (ivtf S l1) x + (inb (flat S b) (tl_class_size i) x + cov (ivtf S l2) x)) <= 1).
      { intros x. specialize (Hcov x). rewrite ivtf_app, ivtf_cons, cov_app in Hcov. cbn [cov] in Hcov. exact Hcov. }
      constructor; cbn [tl_p tl_live tl_n tl_fl]; fold S.
      * exact Hhot.
      * apply Forall_app. split; [assumption|]. constructor; [|constructor]. unfold liveokT. cbn [fst snd]. rewrite Hcap. tauto.
      * apply Forall_app. split; assumption.
      * rewrite ivtl_app. apply Forall_app. split; [assumption|]. constructor; [|constructor]. unfold below. cbn [fst snd]. rewrite Hcap. exact Hbe.
      * rewrite ivtf_app. apply Forall_app. split; assumption.
      * intros x. rewrite ivtl_app, ivtf_app, !cov_app. cbn [ivtl map cov fst snd]. rewrite Hcap. specialize (Hcov' x). lia.
    + intros H. eapply carve_inv; eauto. rewrite Hcap. lia.
  - intros H. eapply carve_inv; eauto. unfold tl_cap. rewrite Ec. reflexivity.
Qed.

(* ---------- guard drop of a live block ---------- *)
Lemma tl_free_inv c s l1 l2 b req : InvT c s -> tl_live s = l1 ++ (b, req) :: l2 ->
  InvT c (mkTLS (tl_free c (tl_p s) b req) (l1 ++ l2)).
Proof.
  intros [Hhot Hlive Hfl Hlb Hfb Hcov] Hl. rewrite Hl in *. set (S := tl_arena c) in *.
  apply Forall_app in Hlive as [Hl1 Hl2]. inversion Hl2 as [|? ? He Hl2']; subst.
  rewrite ivtl_app, ivtl_cons in Hlb. apply Forall_app in Hlb as [Hlb1 Hlb2]. inversion Hlb2 as [|? ? Hbe Hlb2']; subst.
  unfold liveokT in He. unfold below in Hbe. cbn [fst snd] in *. destruct He as (Hpos & Hm & Hfit & Har).
  assert (Hcov' : forall x, (cov (ivtl S l1) x + (inb (flat S b) (tl_cap req) x + cov (ivtl S l2) x)) + cov (ivtf S (tl_fl (tl_p s))) x <= 1).
  { intros x. specialize (Hcov x). rewrite ivtl_app, ivtl_cons, cov_app in Hcov. cbn [cov] in Hcov. exact Hcov. }
  assert (Hdrop : InvT c (mkTLS (tl_p s) (l1 ++ l2))).
  { constructor; cbn [tl_p tl_live]; fold S; try assumption.
    - apply Forall_app. split; assumption.
    - rewrite ivtl_app. apply Forall_app. split; assumption.
    - intros x. rewrite ivtl_app, cov_app. specialize (Hcov' x). lia. }
  unfold tl_free. destruct (tl_class_of req) as [i|] eqn:Ec; [|exact Hdrop].
  destruct (countk i (tl_fl (tl_p s)) <? tl_maxc c); [|exact Hdrop].
  pose proof (tl_class_of_spec _ _ Ec) as (Hi & _).
  assert (Hcap : tl_cap req = tl_class_size i) by (unfold tl_cap; rewrite Ec; reflexivity). rewrite Hcap in *.
  constructor; cbn [tl_p tl_live tl_n tl_fl tl_hot]; fold S.
  - exact Hhot.
  - apply Forall_app. split; assumption.
  - constructor; [|assumption]. unfold flokT. cbn [fst snd]. auto.
  - rewrite ivtl_app. apply Forall_app. split; assumption.
  - rewrite ivtf_cons. constructor; [|exact Hfb]. unfold below. cbn [fst snd]. exact Hbe.
  - intros x. rewrite ivtl_app, cov_app, ivtf_cons. cbn [cov]. specialize (Hcov' x). lia.
Qed.

(* ---------- one step, whole histories ---------- *)
Lemma tl_step_inv c s o : InvT c s -> InvT c (fst (tl_step c s o)).
Proof.
  intros HI. destruct o as [size|k]; cbn [tl_step].
  - destruct (tl_alloc c (tl_p s) size) as [[b|] p'] eqn:Ha; cbn [fst].
    + exact (tl_alloc_inv c s size _ _ HI Ha).
    + pose proof (tl_alloc_inv c s size _ _ HI Ha) as E. cbn beta iota in E. subst p'. destruct s; exact HI.
  - destruct (tl_live s) as [|e t] eqn:Hl; [exact HI|]. rewrite <- Hl.
    set (i := N.to_nat (k mod nlen (tl_live s))).
    assert (Hi : (i < length (tl_live s))%nat).
    { subst i. rewrite nlen_length. assert (0 < length (tl_live s))%nat by (rewrite Hl; cbn; lia). lia. }
    destruct (nth_split_remove ((0, 0), 0) (tl_live s) i Hi) as (l1 & l2 & E1 & E2 & _).
    destruct (nth i (tl_live s) ((0, 0), 0)) as [b req] eqn:Hn. cbn [fst]. rewrite E2.
    exact (tl_free_inv c s l1 l2 b req HI E1).
Qed.
Lemma tl_run_inv c : forall ops s, InvT c s -> InvT c (fst (tl_run c s ops)).
Proof.
  induction ops as [|o t IH]; intros s HI; cbn [tl_run]; [exact HI|].
  pose proof (tl_step_inv c s o HI) as H1. destruct (tl_step c s o) as [s1 r]. cbn [fst] in H1.
  specialize (IH s1 H1). destruct (tl_run c s1 t) as [s2 rs]. exact IH.
Qed.
Lemma tl_final_inv c ops : InvT c (tl_final c ops).
Proof. unfold tl_final. apply tl_run_inv. apply InvT_start. Qed.
