(* C07, SecureMemoryPool chunk bookkeeping: over every history of allocate / guard drop every chunk ever created is in
   exactly one place (local cache, shared stack, handed out), and the active table mirrors the handed-out chunks. *)
From ZV.Common Require Import Base.
From ZV.C07 Require Import Model ModelSecure ProofsArith.
Open Scope N_scope.

Lemma occ_app x l1 l2 : occ x (l1 ++ l2) = occ x l1 + occ x l2.
Proof. induction l1 as [|ch t IH]; cbn [occ app]; [reflexivity|]. rewrite IH. lia. Qed.
Lemma occ_in x l ch : In ch l -> fst ch = x -> 1 <= occ x l.
Proof.
  induction l as [|h t IH]; intros Hin E; [destruct Hin|]. cbn [occ]. destruct Hin as [->|Hin].
  - rewrite E, N.eqb_refl. lia.
  - specialize (IH Hin E). lia.
Qed.
Lemma occ_0_notin x l : occ x l = 0 -> forall ch, In ch l -> fst ch <> x.
Proof. intros H ch Hin E. pose proof (occ_in x l ch Hin E). lia. Qed.

Lemma lookup_remove_same id a : act_lookup id (act_remove id a) = None.
Proof.
  induction a as [|[i g] t IH]; cbn [act_remove act_lookup]; [reflexivity|].
  destruct (N.eqb_spec i id) as [->|Hne]; [exact IH|]. cbn [act_lookup].
  destruct (N.eqb_spec i id); [contradiction|exact IH].
Qed.
Lemma lookup_remove_other id id' a : id' <> id -> act_lookup id' (act_remove id a) = act_lookup id' a.
Proof.
  intros Hne. induction a as [|[i g] t IH]; cbn [act_remove act_lookup]; [reflexivity|].
  destruct (N.eqb_spec i id) as [->|Hi].
  - destruct (N.eqb_spec id id'); [congruence|exact IH].
  - cbn [act_lookup]. destruct (N.eqb_spec i id'); [reflexivity|exact IH].
Qed.
Lemma lookup_insert_same ch a : act_lookup (fst ch) (act_insert ch a) = Some (snd ch).
Proof. destruct ch as [i g]. unfold act_insert. cbn [act_lookup fst snd]. rewrite N.eqb_refl. reflexivity. Qed.
Lemma lookup_insert_other ch id' a : id' <> fst ch -> act_lookup id' (act_insert ch a) = act_lookup id' a.
Proof.
  intros Hne. destruct ch as [i g]. unfold act_insert. cbn [act_lookup fst snd] in *.
  destruct (N.eqb_spec i id'); [congruence|]. apply lookup_remove_other. exact Hne.
Qed.

Record InvS (s : sstate) : Prop := {
  is_cnt : forall x, occ x (sc_cache (ss_p s)) + occ x (sc_stack (ss_p s)) + occ x (ss_live s)
                     = if x <? sc_n (ss_p s) then 1 else 0;
  is_a : Forall (fun ch => act_lookup (fst ch) (sc_active (ss_p s)) = Some (snd ch)) (ss_live s);
  is_b : forall id g, act_lookup id (sc_active (ss_p s)) = Some g -> In (id, g) (ss_live s)
}.
Lemma InvS_start : InvS s_start.
Proof. constructor; cbn; try constructor. - intros x. destruct (x <? 0) eqn:E; [apply N.ltb_lt in E; lia|reflexivity]. - intros; discriminate. Qed.

(* handing out chunk ch, which is not live before: the table gets its entry *)
Lemma hand_out_act live act ch :
  occ (fst ch) live = 0 ->
  Forall (fun c => act_lookup (fst c) act = Some (snd c)) live ->
  (forall id g, act_lookup id act = Some g -> In (id, g) live) ->
  Forall (fun c => act_lookup (fst c) (act_insert ch act) = Some (snd c)) (live ++ [ch]) /\
  (forall id g, act_lookup id (act_insert ch act) = Some g -> In (id, g) (live ++ [ch])).
Proof.
  intros Hocc Ha Hb. split.
  - apply Forall_app. split.
    + apply Forall_forall. intros c Hin. pose proof (occ_0_notin _ _ Hocc c Hin) as Hne.
      rewrite lookup_insert_other by exact Hne. exact (proj1 (Forall_forall _ _) Ha c Hin).
    + constructor; [|constructor]. apply lookup_insert_same.
  - intros id g H. apply in_or_app. destruct (N.eq_dec id (fst ch)) as [->|Hne].
    + rewrite lookup_insert_same in H. inversion H; subst. right. left. destruct ch; reflexivity.
    + rewrite lookup_insert_other in H by exact Hne. left. apply Hb. exact H.
Qed.

Lemma s_alloc_inv s ch p' lst : InvS s -> s_alloc (ss_p s) = (ch, p') -> InvS (mkSSt p' (ss_live s ++ [ch]) lst).
Proof.
  intros [Hcnt Ha Hb]. unfold s_alloc.
  destruct (sc_cache (ss_p s)) as [|c0 t] eqn:Ec.
  - destruct (sc_stack (ss_p s)) as [|c1 t1] eqn:Es.
    + (* a new chunk *)
      intros H; inversion H; subst ch p'. clear H.
      assert (Hfresh : occ (sc_n (ss_p s)) (ss_live s) = 0).
      { specialize (Hcnt (sc_n (ss_p s))). rewrite N.ltb_irrefl in Hcnt. lia. }
      destruct (hand_out_act (ss_live s) (sc_active (ss_p s)) (sc_n (ss_p s), sc_gen (ss_p s)) Hfresh Ha Hb) as [Ha' Hb'].
      constructor; cbn [ss_p ss_live sc_cache sc_stack sc_n sc_active]; [|exact Ha'|exact Hb'].
      intros x. rewrite occ_app. cbn [occ fst]. specialize (Hcnt x). cbn [occ] in Hcnt.
      destruct (N.eqb_spec (sc_n (ss_p s)) x) as [<-|Hne].
      * rewrite N.ltb_irrefl in Hcnt. destruct (N.ltb_spec (sc_n (ss_p s)) (sc_n (ss_p s) + 1)); lia.
      * destruct (N.ltb_spec x (sc_n (ss_p s))); destruct (N.ltb_spec x (sc_n (ss_p s) + 1)); lia.
    + (* from the shared stack *)
      intros H; inversion H; subst ch p'. clear H.
      assert (Hnl : occ (fst c1) (ss_live s) = 0).
      { specialize (Hcnt (fst c1)). cbn [occ] in Hcnt. rewrite N.eqb_refl in Hcnt. destruct (_ <? _); lia. }
      destruct (hand_out_act (ss_live s) (sc_active (ss_p s)) c1 Hnl Ha Hb) as [Ha' Hb'].
      constructor; cbn [ss_p ss_live sc_cache sc_stack sc_n sc_active]; [|exact Ha'|exact Hb'].
      intros x. rewrite occ_app. specialize (Hcnt x). cbn [occ] in *. lia.
  - (* from the local cache *)
    intros H; inversion H; subst ch p'. clear H.
    assert (Hnl : occ (fst c0) (ss_live s) = 0).
    { specialize (Hcnt (fst c0)). cbn [occ] in Hcnt. rewrite N.eqb_refl in Hcnt. destruct (_ <? _); lia. }
    destruct (hand_out_act (ss_live s) (sc_active (ss_p s)) c0 Hnl Ha Hb) as [Ha' Hb'].
    constructor; cbn [ss_p ss_live sc_cache sc_stack sc_n sc_active]; [|exact Ha'|exact Hb'].
    intros x. rewrite occ_app. specialize (Hcnt x). cbn [occ] in *. lia.
Qed.

Lemma s_free_inv lcache s l1 l2 ch lst : InvS s -> ss_live s = l1 ++ ch :: l2 ->
  exists p', s_free lcache (ss_p s) ch = (true, p') /\ InvS (mkSSt p' (l1 ++ l2) lst).
Proof.
  intros [Hcnt Ha Hb] Hl. rewrite Hl in *.
  apply Forall_app in Ha as [Ha1 Ha2]. inversion Ha2 as [|? ? Hch Ha2']; subst.
  (* no other live chunk has this serial *)
  assert (Huniq : occ (fst ch) l1 = 0 /\ occ (fst ch) l2 = 0).
  { specialize (Hcnt (fst ch)). rewrite occ_app in Hcnt. cbn [occ] in Hcnt. rewrite N.eqb_refl in Hcnt. destruct (_ <? _); lia. }
  destruct Huniq as [Hu1 Hu2].
  assert (Ha' : Forall (fun c => act_lookup (fst c) (act_remove (fst ch) (sc_active (ss_p s))) = Some (snd c)) (l1 ++ l2)).
  { apply Forall_app. split; apply Forall_forall; intros c Hin.
    - rewrite lookup_remove_other by (exact (occ_0_notin _ _ Hu1 c Hin)). exact (proj1 (Forall_forall _ _) Ha1 c Hin).
    - rewrite lookup_remove_other by (exact (occ_0_notin _ _ Hu2 c Hin)). exact (proj1 (Forall_forall _ _) Ha2' c Hin). }
  assert (Hb' : forall id g, act_lookup id (act_remove (fst ch) (sc_active (ss_p s))) = Some g -> In (id, g) (l1 ++ l2)).
  { intros id g H. destruct (N.eq_dec id (fst ch)) as [->|Hne]; [rewrite lookup_remove_same in H; discriminate|].
    rewrite lookup_remove_other in H by exact Hne. apply Hb in H. apply in_app_or in H. apply in_or_app.
    destruct H as [H|[H|H]]; [left; exact H| |right; exact H]. subst ch. cbn [fst] in Hne. congruence. }
  unfold s_free. rewrite Hch, N.eqb_refl.
  destruct (nlen (sc_cache (ss_p s)) <? lcache); eexists; (split; [reflexivity|]);
    (constructor; cbn [ss_p ss_live sc_cache sc_stack sc_n sc_active]; [|exact Ha'|exact Hb']);
    intros x; specialize (Hcnt x); rewrite !occ_app in *; cbn [occ] in *; lia.
Qed.

(* a chunk that is not handed out is not in the active table: freeing it again is refused, nothing changes *)
Lemma s_free_not_live lcache s ch : InvS s -> occ (fst ch) (ss_live s) = 0 -> s_free lcache (ss_p s) ch = (false, ss_p s).
Proof.
  intros [_ _ Hb] Hnl. unfold s_free.
  destruct (act_lookup (fst ch) (sc_active (ss_p s))) as [g|] eqn:E; [|reflexivity].
  exfalso. apply Hb in E. pose proof (occ_in (fst ch) _ _ E eq_refl). lia.
Qed.

Lemma s_step_inv lcache s o : InvS s -> InvS (fst (s_step lcache s o)).
Proof.
  intros HI. destruct o as [|k|]; cbn [s_step].
  - destruct (s_alloc (ss_p s)) as [ch p'] eqn:Ha. cbn [fst]. exact (s_alloc_inv s ch p' _ HI Ha).
  - destruct (ss_live s) as [|e t] eqn:Hl; [exact HI|]. rewrite <- Hl.
    set (i := N.to_nat (k mod nlen (ss_live s))).
    assert (Hi : (i < length (ss_live s))%nat).
    { subst i. rewrite nlen_length. assert (0 < length (ss_live s))%nat by (rewrite Hl; cbn; lia). lia. }
    destruct (nth_split_remove (0, 0) (ss_live s) i Hi) as (l1 & l2 & E1 & E2 & _).
    destruct (s_free_inv lcache s l1 l2 (nth i (ss_live s) (0, 0)) (Some (nth i (ss_live s) (0, 0))) HI E1) as (p' & Hf & HI').
    rewrite Hf. cbn [fst]. rewrite E2. exact HI'.
  - destruct (ss_last s) as [ch|]; [|exact HI].
    destruct (N.eqb_spec (occ (fst ch) (ss_live s)) 0) as [Hnl|_]; [|exact HI].
    rewrite (s_free_not_live lcache s ch HI Hnl). cbn [fst]. destruct HI as [A B C]. constructor; assumption.
Qed.
Lemma s_run_inv lcache : forall ops s, InvS s -> InvS (fst (s_run lcache s ops)).
Proof.
  induction ops as [|o t IH]; intros s HI; cbn [s_run]; [exact HI|].
  pose proof (s_step_inv lcache s o HI) as H1. destruct (s_step lcache s o) as [s1 r]. cbn [fst] in H1.
  specialize (IH s1 H1). destruct (s_run lcache s1 t) as [s2 rs]. exact IH.
Qed.
Lemma s_final_inv lcache ops : InvS (s_final lcache ops).
Proof. unfold s_final. apply s_run_inv. apply InvS_start. Qed.

(* ---------- the statements ---------- *)
Lemma secure_no_chunk_lost_proof lcache ops x :
  let s := s_final lcache ops in
  occ x (sc_cache (ss_p s)) + occ x (sc_stack (ss_p s)) + occ x (ss_live s) = if x <? sc_n (ss_p s) then 1 else 0.
Proof. intros s. destruct (s_final_inv lcache ops) as [Hcnt _ _]. apply Hcnt. Qed.

Lemma secure_free_accepted_proof lcache ops l1 l2 ch :
  ss_live (s_final lcache ops) = l1 ++ ch :: l2 ->
  exists p', s_free lcache (ss_p (s_final lcache ops)) ch = (true, p') /\
    (sc_cache p' = ch :: sc_cache (ss_p (s_final lcache ops)) \/ sc_stack p' = ch :: sc_stack (ss_p (s_final lcache ops))).
Proof.
  intros Hl. pose proof (s_final_inv lcache ops) as HI. set (s := s_final lcache ops) in *.
  destruct (s_free_inv lcache s l1 l2 ch None HI Hl) as (p' & Hf & _). exists p'. split; [exact Hf|].
  destruct HI as [_ Ha _]. rewrite Hl in Ha. apply Forall_app in Ha as [_ Ha2]. inversion Ha2 as [|? ? Hch _]; subst.
  unfold s_free in Hf. rewrite Hch, N.eqb_refl in Hf.
  destruct (nlen (sc_cache (ss_p s)) <? lcache); inversion Hf; subst; cbn; auto.
Qed.

(* the active table mirrors the handed-out chunks *)
Lemma secure_active_exact_proof lcache ops :
  let s := s_final lcache ops in
  (forall ch, In ch (ss_live s) -> act_lookup (fst ch) (sc_active (ss_p s)) = Some (snd ch)) /\
  (forall id g, act_lookup id (sc_active (ss_p s)) = Some g -> In (id, g) (ss_live s)).
Proof.
  intros s. destruct (s_final_inv lcache ops) as [_ Ha Hb]. split; [|exact Hb].
  intros ch Hin. exact (proj1 (Forall_forall _ _) Ha ch Hin).
Qed.

(* a second free of a chunk that was already given back (it sits in the cache or on the stack), or of a chunk the pool
   never created, is reported as an error and changes nothing *)
Lemma secure_double_free_detected_proof lcache ops ch :
  let s := s_final lcache ops in
  occ (fst ch) (ss_live s) = 0 -> s_free lcache (ss_p s) ch = (false, ss_p s).
Proof. intros s Hnl. apply s_free_not_live; [apply s_final_inv|exact Hnl]. Qed.

(* ---------- the hypotheses are inhabited ---------- *)
Example secure_history_example :
  s_final 1 [SAl; SAl; SAl; SFr 0; SDbl; SFr 0; SAl; SFr 1] =
  mkSSt (mkSS [(0, 1)] [(1, 2)] 4 3 [(2, 3)]) [(2, 3)] (Some (0, 1)).
Proof. vm_compute. reflexivity. Qed.
Example secure_free_example : exists l1 l2 ch, ss_live (s_final 1 [SAl; SAl; SAl; SFr 0]) = l1 ++ ch :: l2.
Proof. exists [], [(2, 3)], (1, 2). vm_compute. reflexivity. Qed.
Example secure_double_free_example : occ 0 (ss_live (s_final 1 [SAl; SAl; SAl; SFr 0])) = 0.
Proof. vm_compute. reflexivity. Qed.
