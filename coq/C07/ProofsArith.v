(* C07: arithmetic of size classes (align_size, size_to_bin_index, class sizes) and the byte-cover counting
   used by the pool invariants. *)
From ZV.Common Require Import Base.
From ZV.C07 Require Import Model.
Open Scope N_scope.

(* ---------- align_size ---------- *)
Lemma align_size_ge s : s <= align_size s.
Proof. unfold align_size. lia. Qed.
Lemma align_size_lt s : align_size s < s + 8.
Proof. unfold align_size. lia. Qed.
Lemma align_size_mod s : align_size s mod 8 = 0.
Proof. unfold align_size. apply N.mod_mul. discriminate. Qed.
Lemma align_size_pos s : 0 < s -> 8 <= align_size s.
Proof. unfold align_size. lia. Qed.

(* ---------- the class table (re-proved against the table in Model.v, which every Coq-evaluated case
   compares with the table read from the Rust source) ---------- *)
Definition class_okb (c : N) : bool := (8 <=? c) && (c mod 8 =? 0) && (c <=? FAST_BIN_THRESHOLD).
Lemma classes_okb : forallb class_okb FAST_BIN_SIZES = true.
Proof. vm_compute. reflexivity. Qed.
Lemma classes_ok c : In c FAST_BIN_SIZES -> 8 <= c /\ c mod 8 = 0 /\ c <= FAST_BIN_THRESHOLD.
Proof.
  intros Hin. pose proof classes_okb as H. rewrite forallb_forall in H. specialize (H c Hin).
  unfold class_okb in H. apply andb_true_iff in H as [H H3]. apply andb_true_iff in H as [H1 H2].
  apply N.leb_le in H1. apply N.eqb_eq in H2. apply N.leb_le in H3. auto.
Qed.
Lemma classes_len : length FAST_BIN_SIZES = 64%nat.
Proof. reflexivity. Qed.
Lemma classes_last : In FAST_BIN_THRESHOLD FAST_BIN_SIZES.
Proof. vm_compute. repeat (try (left; reflexivity); right). Qed.

Lemma bin_of_go_spec sizes : forall i s b,
  bin_of_go sizes i s = Some b ->
  exists j, b = (i + j)%nat /\ (j < length sizes)%nat /\ s <= nth j sizes 0.
Proof.
  induction sizes as [|c t IH]; intros i s b H; cbn [bin_of_go] in H; [discriminate|].
  destruct (N.leb_spec s c) as [Hle|Hgt].
  - inversion H; subst. exists 0%nat. cbn [nth length]. repeat split; lia.
  - apply IH in H as (j & -> & Hj & Hs). exists (S j). cbn [nth length]. repeat split; lia.
Qed.
Lemma bin_of_go_some sizes : forall i s c, In c sizes -> s <= c -> exists b, bin_of_go sizes i s = Some b.
Proof.
  induction sizes as [|c0 t IH]; intros i s c Hin Hs; [destruct Hin|].
  cbn [bin_of_go]. destruct (N.leb_spec s c0) as [Hle|Hgt]; [eauto|].
  destruct Hin as [->|Hin]; [lia|]. eapply IH; eauto.
Qed.

Lemma bin_of_spec s b : bin_of s = Some b ->
  (b < 64)%nat /\ s <= class_size b /\ 8 <= class_size b /\ class_size b mod 8 = 0 /\ class_size b <= FAST_BIN_THRESHOLD.
Proof.
  unfold bin_of. intros H. apply bin_of_go_spec in H as (j & -> & Hj & Hs). cbn [Nat.add].
  rewrite classes_len in Hj. unfold class_size.
  assert (Hin : In (nth j FAST_BIN_SIZES 0) FAST_BIN_SIZES) by (apply nth_In; rewrite classes_len; exact Hj).
  apply classes_ok in Hin. tauto.
Qed.
Lemma bin_of_some s : s <= FAST_BIN_THRESHOLD -> exists b, bin_of s = Some b.
Proof. intros H. unfold bin_of. eapply bin_of_go_some; [apply classes_last|exact H]. Qed.

(* ---------- block_cap ---------- *)
Lemma block_cap_small r b : align_size r <= FAST_BIN_THRESHOLD -> bin_of (align_size r) = Some b -> block_cap r = class_size b.
Proof. intros Ha Hb. unfold block_cap. apply N.leb_le in Ha. rewrite Ha, Hb. reflexivity. Qed.
Lemma block_cap_large r : FAST_BIN_THRESHOLD < align_size r -> block_cap r = align_size r.
Proof. intros Ha. unfold block_cap. apply N.leb_gt in Ha. rewrite Ha. reflexivity. Qed.
Lemma block_cap_props r : 0 < r -> r <= block_cap r /\ 8 <= block_cap r /\ block_cap r mod 8 = 0.
Proof.
  intros Hr. pose proof (align_size_ge r). pose proof (align_size_mod r). pose proof (align_size_pos r Hr).
  destruct (N.le_gt_cases (align_size r) FAST_BIN_THRESHOLD) as [Hs|Hl].
  - destruct (bin_of_some _ Hs) as [b Hb]. rewrite (block_cap_small r b Hs Hb).
    apply bin_of_spec in Hb. intuition lia.
  - rewrite (block_cap_large r Hl). intuition lia.
Qed.

(* ---------- list surgery ---------- *)
Lemma nth_split_remove {A} (d : A) : forall (l : list A) i, (i < length l)%nat ->
  exists l1 l2, l = l1 ++ nth i l d :: l2 /\ remove_nth i l = l1 ++ l2 /\ length l1 = i.
Proof.
  induction l as [|h t IH]; intros i Hi; cbn [length] in Hi; [lia|].
  destruct i as [|i].
  - exists [], t. cbn. auto.
  - destruct (IH i ltac:(lia)) as (l1 & l2 & E1 & E2 & E3).
    exists (h :: l1), l2. cbn [nth remove_nth app length]. rewrite <- E1, E2, E3. auto.
Qed.

Lemma upd_length {A} (x : A) : forall l i, length (upd i x l) = length l.
Proof. induction l as [|h t IH]; intros [|i]; cbn [upd length]; auto. Qed.
Lemma nth_upd_same {A} (x d : A) : forall l i, (i < length l)%nat -> nth i (upd i x l) d = x.
Proof. induction l as [|h t IH]; intros [|i] Hi; cbn [upd nth length] in *; try lia; auto. apply IH; lia. Qed.

(* ---------- byte cover ---------- *)
Definition inb (o c x : N) : N := if (o <=? x) && (x <? o + c) then 1 else 0.
Lemma inb_01 o c x : inb o c x <= 1.
Proof. unfold inb. destruct (_ && _); lia. Qed.
Lemma inb_1 o c x : o <= x -> x < o + c -> inb o c x = 1.
Proof. intros H1 H2. unfold inb. apply N.leb_le in H1. apply N.ltb_lt in H2. rewrite H1, H2. reflexivity. Qed.
Lemma inb_0_above o c x : o + c <= x -> inb o c x = 0.
Proof. intros H. unfold inb. destruct (N.ltb_spec x (o + c)); [lia|]. rewrite andb_false_r. reflexivity. Qed.
Lemma inb_0_below o c x : x < o -> inb o c x = 0.
Proof. intros H. unfold inb. destruct (N.leb_spec o x); [lia|]. reflexivity. Qed.

Fixpoint cov_live (l : list (N * N)) (x : N) : N :=
  match l with [] => 0 | (o, r) :: t => inb o (block_cap r) x + cov_live t x end.
Fixpoint cov_offs (c : N) (l : list N) (x : N) : N :=
  match l with [] => 0 | o :: t => inb o c x + cov_offs c t x end.
Fixpoint cov_bins (sizes : list N) (bs : list (list N)) (x : N) : N :=
  match sizes, bs with
  | c :: st, b :: bt => cov_offs c b x + cov_bins st bt x
  | _, _ => 0
  end.

Lemma cov_live_app l1 l2 x : cov_live (l1 ++ l2) x = cov_live l1 x + cov_live l2 x.
Proof. induction l1 as [|[o r] t IH]; cbn [cov_live app]; [reflexivity|]. rewrite IH. lia. Qed.

Lemma cov_bins_upd : forall sizes bs b newl x,
  (b < length sizes)%nat -> (b < length bs)%nat ->
  cov_bins sizes (upd b newl bs) x + cov_offs (nth b sizes 0) (nth b bs []) x
  = cov_bins sizes bs x + cov_offs (nth b sizes 0) newl x.
Proof.
  induction sizes as [|c st IH]; intros bs b newl x Hs Hb; cbn [length] in Hs; [lia|].
  destruct bs as [|h bt]; cbn [length] in Hb; [lia|].
  destruct b as [|b]; cbn [upd cov_bins nth].
  - lia.
  - specialize (IH bt b newl x ltac:(lia) ltac:(lia)). lia.
Qed.

(* all blocks end at or below n *)
Definition live_ok (n : N) (e : N * N) : Prop :=
  let '(o, r) := e in 0 < r /\ r < W63 /\ 8 <= o /\ o mod 8 = 0 /\ o + block_cap r <= n.
Definition bin_ok (n c o : N) : Prop := 8 <= o /\ o mod 8 = 0 /\ o + c <= n.
Fixpoint bins_ok (n : N) (sizes : list N) (bs : list (list N)) : Prop :=
  match sizes, bs with
  | c :: st, b :: bt => Forall (bin_ok n c) b /\ bins_ok n st bt
  | _, _ => True
  end.

Lemma live_ok_mono n n' e : n <= n' -> live_ok n e -> live_ok n' e.
Proof. destruct e as [o r]. unfold live_ok. intuition lia. Qed.
Lemma bins_ok_mono n n' : n <= n' -> forall sizes bs, bins_ok n sizes bs -> bins_ok n' sizes bs.
Proof.
  intros Hn. induction sizes as [|c st IH]; intros bs H; [exact I|].
  destruct bs as [|b bt]; [exact I|]. cbn [bins_ok] in *. destruct H as [H1 H2]. split; [|auto].
  eapply Forall_impl; [|exact H1]. unfold bin_ok. intros; intuition lia.
Qed.

Lemma cov_live_above n l x : Forall (live_ok n) l -> n <= x -> cov_live l x = 0.
Proof.
  induction 1 as [|[o r] t H _ IH]; intros Hx; cbn [cov_live]; [reflexivity|].
  rewrite IH by assumption. unfold live_ok in H. rewrite inb_0_above by lia. reflexivity.
Qed.
Lemma cov_offs_above n c l x : Forall (bin_ok n c) l -> n <= x -> cov_offs c l x = 0.
Proof.
  induction 1 as [|o t H _ IH]; intros Hx; cbn [cov_offs]; [reflexivity|].
  rewrite IH by assumption. unfold bin_ok in H. rewrite inb_0_above by lia. reflexivity.
Qed.
Lemma cov_bins_above n : forall sizes bs x, bins_ok n sizes bs -> n <= x -> cov_bins sizes bs x = 0.
Proof.
  induction sizes as [|c st IH]; intros bs x H Hx; [reflexivity|].
  destruct bs as [|b bt]; [reflexivity|]. cbn [bins_ok cov_bins] in *. destruct H as [H1 H2].
  rewrite (cov_offs_above n c b x H1 Hx), (IH bt x H2 Hx). reflexivity.
Qed.

Lemma bins_ok_nth n : forall sizes bs b, bins_ok n sizes bs -> (b < length sizes)%nat -> (b < length bs)%nat ->
  Forall (bin_ok n (nth b sizes 0)) (nth b bs []).
Proof.
  induction sizes as [|c st IH]; intros bs b H Hs Hb; cbn [length] in Hs; [lia|].
  destruct bs as [|h bt]; cbn [length] in Hb; [lia|]. cbn [bins_ok] in H. destruct H as [H1 H2].
  destruct b as [|b]; cbn [nth]; [exact H1|]. apply IH; [exact H2|lia|lia].
Qed.
Lemma bins_ok_upd n : forall sizes bs b newl, bins_ok n sizes bs -> (b < length sizes)%nat ->
  Forall (bin_ok n (nth b sizes 0)) newl -> bins_ok n sizes (upd b newl bs).
Proof.
  induction sizes as [|c st IH]; intros bs b newl H Hs Hn; cbn [length] in Hs; [lia|].
  destruct bs as [|h bt]; [destruct b; exact I|]. cbn [bins_ok] in H. destruct H as [H1 H2].
  destruct b as [|b]; cbn [upd bins_ok nth] in *; [split; assumption|].
  split; [assumption|]. apply IH; [assumption|lia|assumption].
Qed.

(* two entries at different positions both count *)
Lemma cov_live_one l : forall i o r x, nth_error l i = Some (o, r) -> inb o (block_cap r) x <= cov_live l x.
Proof.
  induction l as [|[o0 r0] t IH]; intros [|i] o r x H; cbn [nth_error] in H; try discriminate.
  - inversion H; subst. cbn [cov_live]. lia.
  - cbn [cov_live]. specialize (IH i o r x H). lia.
Qed.
Lemma cov_live_two l : forall i j o1 r1 o2 r2 x, i <> j ->
  nth_error l i = Some (o1, r1) -> nth_error l j = Some (o2, r2) ->
  inb o1 (block_cap r1) x + inb o2 (block_cap r2) x <= cov_live l x.
Proof.
  induction l as [|[o0 r0] t IH]; intros [|i] [|j] o1 r1 o2 r2 x Hij H1 H2; cbn [nth_error] in *; try discriminate; try lia.
  - inversion H1; subst. cbn [cov_live]. pose proof (cov_live_one t j o2 r2 x H2). lia.
  - inversion H2; subst. cbn [cov_live]. pose proof (cov_live_one t i o1 r1 x H1). lia.
  - cbn [cov_live]. specialize (IH i j o1 r1 o2 r2 x ltac:(lia) H1 H2). lia.
Qed.
