(* C07 mechanism model (sequential semantics; concurrency is C08).

   LockFreeMemoryPool (src/memory/lockfree_pool.rs): allocate / deallocate / allocate_from_fast_bin /
   deallocate_to_fast_bin / allocate_new_block / size_to_bin_index / align_size / ptr_to_offset, with
   FAST_BIN_SIZES, ALIGN_SIZE = 8, FAST_BIN_THRESHOLD = 8192, LIST_TAIL = 0, first block at offset 8.
   Two variants of the code are modelled:
     Pinned  the tree as pinned: a fresh block is carved at the *aligned request* size although it is
             filed (on free) under the *class* size, and the bump offset is a u32 fetch_add performed
             before the bound check (truncating `as u32`, wrapping);
     Fixed   after the fix: commits: a fresh fast-bin block is carved at the class size, the bump offset
             only advances when the block fits (checked, compare-exchange), foreign pointers are refused
             on the large-block path too.
   A free list is an intrusive stack threaded through the first 4 bytes of the freed blocks; here it is
   the list of its offsets (head first).  That abstraction is exact as long as no client write hits a free
   block, which is what the invariant proved in ProofsLockFree.v guarantees (theorem free_link_write_safe).
   Machine integers are N; offsets of foreign pointers relative to the pool base are Z.

   BumpAllocator / BumpArena / BumpScope (src/memory/bump.rs): alloc_bytes with alignment rounding,
   scope drop resetting the offset.  The base address of the buffer is a parameter (it is only known to
   be 8-aligned: Layout::from_size_align(capacity, 8)).

   Definitions only - no proofs in this file. *)
From ZV.Common Require Import Base Run.  (* Run: the case-file helpers (mismatches) must be built with the model *)
Open Scope N_scope.

(* ------------------------------------------------------------------------------------------- *)
(* LockFreeMemoryPool                                                                          *)
(* ------------------------------------------------------------------------------------------- *)
Definition FAST_BIN_SIZES : list N :=
  [8; 16; 24; 32; 40; 48; 56; 64; 72; 80; 88; 96; 104; 112; 120; 128;
   144; 160; 176; 192; 208; 224; 240; 256; 288; 320; 352; 384; 416; 448; 480; 512;
   576; 640; 704; 768; 832; 896; 960; 1024; 1152; 1280; 1408; 1536; 1664; 1792; 1920; 2048;
   2304; 2560; 2816; 3072; 3328; 3584; 3840; 4096; 4608; 5120; 5632; 6144; 6656; 7168; 7680; 8192].
Definition FAST_BIN_THRESHOLD : N := 8192.
Definition FIRST_OFFSET : N := 8.           (* next_offset starts at ALIGN_SIZE *)

(* (size + ALIGN_SIZE - 1) & !(ALIGN_SIZE - 1), for size + 7 < 2^64 *)
Definition align_size (s : N) : N := (s + 7) / 8 * 8.

(* size_to_bin_index: first class that is large enough *)
Fixpoint bin_of_go (sizes : list N) (i : nat) (s : N) : option nat :=
  match sizes with
  | [] => None
  | c :: t => if s <=? c then Some i else bin_of_go t (S i) s
  end.
Definition bin_of (s : N) : option nat := bin_of_go FAST_BIN_SIZES 0 s.
Definition class_size (b : nat) : N := nth b FAST_BIN_SIZES 0.

Inductive variant := Pinned | Fixed.

Record pool := mkPool { msize : N; next_off : N; bins : list (list N) }.
Definition init (m : N) : pool := mkPool m FIRST_OFFSET (repeat [] 64).
Definition set_next (p : pool) (n : N) : pool := mkPool (msize p) n (bins p).
Definition set_bins (p : pool) (b : list (list N)) : pool := mkPool (msize p) (next_off p) b.

Fixpoint upd {A} (i : nat) (x : A) (l : list A) : list A :=
  match l, i with
  | [], _ => []
  | _ :: t, O => x :: t
  | h :: t, S j => h :: upd j x t
  end.

(* allocate_new_block *)
Definition bump (v : variant) (p : pool) (sz : N) : option N * pool :=
  match v with
  | Fixed =>
      let e := next_off p + sz in
      if (e <=? msize p) && (e <? W32) then (Some (next_off p), set_next p e) else (None, p)
  | Pinned =>
      let off := next_off p in
      let p' := set_next p ((off + sz mod W32) mod W32) in       (* fetch_add(aligned_size as u32) *)
      if msize p <? off + sz then (None, p')                     (* bound check after the add *)
      else if off =? 0 then (None, p')                           (* offset_to_ptr(LIST_TAIL) is an error *)
      else (Some off, p')
  end.

(* the number of bytes a fresh block of a request of `size` bytes occupies *)
Definition carve (v : variant) (b : nat) (aligned : N) : N :=
  match v with Fixed => class_size b | Pinned => aligned end.

(* allocate(size): None = Err (or, in the pinned tree, an overflow panic) *)
Definition alloc (v : variant) (p : pool) (size : N) : option N * pool :=
  if size =? 0 then (None, p)
  else if W63 <=? size then (None, p)
  else
    let a := align_size size in
    if a <=? FAST_BIN_THRESHOLD then
      match bin_of a with
      | None => (None, p)
      | Some b =>
          match nth b (bins p) [] with
          | off :: rest => (Some off, set_bins p (upd b rest (bins p)))     (* pop *)
          | [] => bump v p (carve v b a)
          end
      end
    else bump v p a.

(* deallocate(ptr, size) with ptr = base + off; true = Ok(()) *)
Definition dealloc (v : variant) (p : pool) (off : Z) (size : N) : bool * pool :=
  if size =? 0 then (true, p)
  else if W63 <=? size then (false, p)
  else
    let a := align_size size in
    let inrange := ((0 <=? off) && (off <? Z.of_N (msize p)))%Z in
    if a <=? FAST_BIN_THRESHOLD then
      match bin_of a with
      | None => (false, p)
      | Some b =>
          if inrange
          then (true, set_bins p (upd b (Z.to_N off :: nth b (bins p) []) (bins p)))   (* push *)
          else (false, p)
      end
    else match v with
         | Fixed => (inrange, p)
         | Pinned => (true, p)           (* deallocate_to_skip_list accepts anything *)
         end.

(* Histories.  The client keeps the list of its live allocations (offset, requested size) in
   allocation order; OFree k frees the (k mod n)-th of them with the size it was allocated with. *)
Inductive op :=
| OAlloc (size : N)
| OFree (k : N)
| OForeign (off : Z) (size : N).      (* deallocate a pointer the client did not get from the pool *)

Record state := mkState { pl : pool; live : list (N * N) }.

Fixpoint remove_nth {A} (i : nat) (l : list A) : list A :=
  match l, i with
  | [], _ => []
  | _ :: t, O => t
  | h :: t, S j => h :: remove_nth j t
  end.

Definition step (v : variant) (s : state) (o : op) : state * option Z :=
  match o with
  | OAlloc size =>
      match alloc v (pl s) size with
      | (Some off, p') => (mkState p' (live s ++ [(off, size)]), Some (Z.of_N off))
      | (None, p') => (mkState p' (live s), None)
      end
  | OFree k =>
      match live s with
      | [] => (s, Some 0%Z)
      | _ =>
          let i := N.to_nat (k mod nlen (live s)) in
          let '(off, req) := nth i (live s) (0, 0) in
          let '(ok, p') := dealloc v (pl s) (Z.of_N off) req in
          (mkState p' (remove_nth i (live s)), if ok then Some 0%Z else None)
      end
  | OForeign off size =>
      let '(ok, p') := dealloc v (pl s) off size in
      (mkState p' (live s), if ok then Some 0%Z else None)
  end.

Fixpoint run (v : variant) (s : state) (ops : list op) : state * list (option Z) :=
  match ops with
  | [] => (s, [])
  | o :: t => let '(s1, r) := step v s o in
              let '(s2, rs) := run v s1 t in (s2, r :: rs)
  end.
Definition start (m : N) : state := mkState (init m) [].
Definition final (v : variant) (m : N) (ops : list op) : state := fst (run v (start m) ops).

(* what the harness compares: allocation results relative to the first successful allocation
   (addresses are not observable, differences are) *)
Fixpoint first_some (l : list (option Z)) : Z :=
  match l with [] => 0%Z | Some z :: _ => z | None :: t => first_some t end.
Definition is_alloc (o : op) : bool := match o with OAlloc _ => true | _ => false end.
Fixpoint alloc_results (ops : list op) (rs : list (option Z)) : list (option Z) :=
  match ops, rs with
  | o :: ot, r :: rt => if is_alloc o then r :: alloc_results ot rt else alloc_results ot rt
  | _, _ => []
  end.
Fixpoint normalise (base : Z) (ops : list op) (rs : list (option Z)) : list (option Z) :=
  match ops, rs with
  | o :: ot, r :: rt =>
      (if is_alloc o then match r with Some z => Some (z - base)%Z | None => None end else r)
      :: normalise base ot rt
  | _, _ => []
  end.
Definition observe (v : variant) (m : N) (ops : list op) : list (option Z) :=
  let rs := snd (run v (start m) ops) in
  normalise (first_some (alloc_results ops rs)) ops rs.

(* ---- the property on the client's live list ---- *)
Definition disjoint (o1 s1 o2 s2 : N) : Prop := o1 + s1 <= o2 \/ o2 + s2 <= o1.
Definition live_disjoint (l : list (N * N)) : Prop :=
  forall i j o1 r1 o2 r2, i <> j -> nth_error l i = Some (o1, r1) -> nth_error l j = Some (o2, r2) ->
    disjoint o1 r1 o2 r2.
Definition overlapb (a b : N * N) : bool :=
  let '(o1, r1) := a in let '(o2, r2) := b in (o1 <? o2 + r2) && (o2 <? o1 + r1).

(* capacity of the block a request occupies in the fixed code *)
Definition block_cap (req : N) : N :=
  let a := align_size req in
  if a <=? FAST_BIN_THRESHOLD then match bin_of a with Some b => class_size b | None => a end else a.

(* a foreign-pointer op is legal client behaviour only when the pointer is outside the arena *)
Definition legal (m : N) (o : op) : Prop :=
  match o with OForeign off _ => (off < 0 \/ Z.of_N m <= off)%Z | _ => True end.

(* ------------------------------------------------------------------------------------------- *)
(* BumpAllocator                                                                               *)
(* ------------------------------------------------------------------------------------------- *)
Definition align_up (x a : N) : N := (x + a - 1) / a * a.      (* (x + a - 1) & !(a - 1), a a power of two *)

Record bstate := mkB { bcap : N; bbase : N; bcur : N; blive : list (N * N) }.   (* live: offset, size *)

Inductive bop :=
| BAlloc (size align : N)
| BScope (inner : list (N * N)).   (* a BumpScope: allocations made inside, then the scope is dropped *)

(* alloc_bytes(size, align): Some offset (relative to the buffer) or None = Err *)
Definition balloc (v : variant) (s : bstate) (size align : N) : option N * bstate :=
  if size =? 0 then (None, s)
  else if negb (N.land align (align - 1) =? 0) || (align =? 0) then (None, s)   (* !is_power_of_two *)
  else if W64 <=? (match v with Pinned => 0 | Fixed => bbase s end) + bcur s + (align - 1) then (None, s)  (* checked_add / overflow panic *)
  else
    let aligned := match v with
                   | Pinned => align_up (bcur s) align
                   | Fixed => align_up (bbase s + bcur s) align - bbase s
                   end in
    let e := aligned + size in
    if (W64 <=? e) || (bcap s <? e) then (None, s)
    else (Some aligned, mkB (bcap s) (bbase s) e (blive s ++ [(aligned, size)])).

Fixpoint ballocs (v : variant) (s : bstate) (l : list (N * N)) : bstate * list (option Z) :=
  match l with
  | [] => (s, [])
  | (size, align) :: t =>
      let '(r, s1) := balloc v s size align in
      let '(s2, rs) := ballocs v s1 t in
      (s2, (match r with Some o => Some (Z.of_N o) | None => None end) :: rs)
  end.

Definition bstep (v : variant) (s : bstate) (o : bop) : bstate * list (option Z) :=
  match o with
  | BAlloc size align => ballocs v s [(size, align)]
  | BScope inner =>
      let '(s1, rs) := ballocs v s inner in
      (* Drop for BumpScope: current := initial_offset; everything allocated inside is dead *)
      (mkB (bcap s) (bbase s) (bcur s) (blive s), rs)
  end.
Fixpoint brun (v : variant) (s : bstate) (ops : list bop) : bstate * list (option Z) :=
  match ops with
  | [] => (s, [])
  | o :: t => let '(s1, r) := bstep v s o in
              let '(s2, rs) := brun v s1 t in (s2, r ++ rs)
  end.
Definition bstart (cap base : N) : bstate := mkB cap base 0 [].

(* ------------------------------------------------------------------------------------------- *)
(* FixedCapacityMemoryPool (src/memory/fixed_capacity_pool.rs)                                 *)
(* ------------------------------------------------------------------------------------------- *)
(* total_blocks blocks of max_block_size bytes, back to back; one free list per size class (stack of block
   offsets, threaded through the 16-byte BlockHeader of the free blocks); initially every block is on the list of
   the largest class; allocate(size) pops the list of the request's class or, if that is empty, the first
   non-empty list of a larger class ("splitting" hands out the whole block); the RAII guard pushes the block on
   the list of the class it was requested under. *)
Fixpoint gen_classes (fuel : nat) (cur max align : N) : list N :=
  match fuel with
  | O => []
  | S f =>
      if cur <=? max then
        let nxt := if cur <? 128 then cur + align else if cur <? 1024 then cur * 3 / 2 else cur * 2 in
        cur :: gen_classes f (align_up nxt align) max align
      else []
  end.
Definition size_classes (max align : N) : list N :=
  let c := gen_classes 200 align max align in
  match c with
  | [] => [max]
  | _ => if last c 0 =? max then c else c ++ [max]
  end.

Record fpool := mkF { fstride : N; fnblocks : N; fclasses : list N; flists : list (list N) }.
Fixpoint blocks_from (n : nat) (i stride : N) : list N :=
  match n with O => [] | S m => i * stride :: blocks_from m (i + 1) stride end.
Definition finit (max align nblocks : N) : fpool :=
  let cls := size_classes max align in
  mkF max nblocks cls (repeat [] (length cls - 1) ++ [blocks_from (N.to_nat nblocks) 0 max]).

Fixpoint first_nonempty (i : nat) (ls : list (list N)) : option nat :=
  match ls with
  | [] => None
  | l :: t => match i with
              | O => match l with [] => option_map S (first_nonempty O t) | _ => Some O end
              | S j => option_map S (first_nonempty j t)
              end
  end.

(* allocate(size): Some (offset, class index recorded in the guard) or None = Err *)
Definition falloc (p : fpool) (size : N) : option (N * nat) * fpool :=
  if (size =? 0) || (fstride p <? size) then (None, p) else
  match bin_of_go (fclasses p) 0 size with
  | None => (None, p)
  | Some k =>
      match first_nonempty k (flists p) with
      | None => (None, p)
      | Some j =>
          match nth j (flists p) [] with
          | off :: rest => (Some (off, k), mkF (fstride p) (fnblocks p) (fclasses p) (upd j rest (flists p)))
          | [] => (None, p)
          end
      end
  end.
(* Drop of the guard: deallocate(ptr, size_class_index) *)
Definition ffree (p : fpool) (off : N) (k : nat) : fpool :=
  mkF (fstride p) (fnblocks p) (fclasses p) (upd k (off :: nth k (flists p) []) (flists p)).

Record fstate := mkFS { fp : fpool; flive : list (N * nat) }.
Inductive fop := FAlloc (size : N) | FFree (k : N).
Definition fstep (s : fstate) (o : fop) : fstate * option Z :=
  match o with
  | FAlloc size =>
      match falloc (fp s) size with
      | (Some (off, k), p') => (mkFS p' (flive s ++ [(off, k)]), Some (Z.of_N off))
      | (None, p') => (mkFS p' (flive s), None)
      end
  | FFree k =>
      match flive s with
      | [] => (s, Some 0%Z)
      | _ => let i := N.to_nat (k mod nlen (flive s)) in
             let '(off, c) := nth i (flive s) (0, O) in
             (mkFS (ffree (fp s) off c) (remove_nth i (flive s)), Some 0%Z)
      end
  end.
Fixpoint frun (s : fstate) (ops : list fop) : fstate * list (option Z) :=
  match ops with
  | [] => (s, [])
  | o :: t => let '(s1, r) := fstep s o in let '(s2, rs) := frun s1 t in (s2, r :: rs)
  end.
Definition fstart (max align nblocks : N) : fstate := mkFS (finit max align nblocks) [].

(* allocation results of the fixed-capacity pool relative to the first successful allocation *)
Fixpoint fnormalise (base : Z) (ops : list fop) (rs : list (option Z)) : list (option Z) :=
  match ops, rs with
  | FAlloc _ :: ot, r :: rt => (match r with Some z => Some (z - base)%Z | None => None end) :: fnormalise base ot rt
  | FFree _ :: ot, r :: rt => r :: fnormalise base ot rt
  | _, _ => []
  end.
Fixpoint ffirst (ops : list fop) (rs : list (option Z)) : Z :=
  match ops, rs with
  | FAlloc _ :: _, Some z :: _ => z
  | _ :: ot, _ :: rt => ffirst ot rt
  | _, _ => 0%Z
  end.
Definition fobserve (mx al nb : N) (ops : list fop) : list (option Z) :=
  let rs := snd (frun (fstart mx al nb) ops) in fnormalise (ffirst ops rs) ops rs.

(* ------------------------------------------------------------------------------------------- *)
(* what the harness-generated case files evaluate                                              *)
(* ------------------------------------------------------------------------------------------- *)
Definition eqb_oz (a b : option Z) : bool :=
  match a, b with Some x, Some y => Z.eqb x y | None, None => true | _, _ => false end.
Fixpoint eqb_loz (a b : list (option Z)) : bool :=
  match a, b with
  | [], [] => true
  | x :: a', y :: b' => eqb_oz x y && eqb_loz a' b'
  | _, _ => false
  end.
Fixpoint eqb_ln' (a b : list N) : bool :=
  match a, b with
  | [], [] => true
  | x :: a', y :: b' => N.eqb x y && eqb_ln' a' b'
  | _, _ => false
  end.
Inductive case_t :=
| CLf (impl_bins : list N) (m : N) (ops : list op) (expect : list (option Z))
| CBump (cap base : N) (ops : list bop) (expect : list (option Z))
| CFc (max align nblocks : N) (ops : list fop) (expect : list (option Z)).
Definition ok (c : case_t) : bool :=
  match c with
  | CLf ib m ops e => eqb_ln' ib FAST_BIN_SIZES && eqb_loz (observe Fixed m ops) e
  | CBump cap base ops e => eqb_loz (snd (brun Fixed (bstart cap base) ops)) e
  | CFc mx al nb ops e => eqb_loz (fobserve mx al nb ops) e
  end.

