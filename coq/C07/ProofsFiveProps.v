(* C07, five-level pools: the statements of the property derived from the invariant; refutations on the pinned code. *)
From ZV.Common Require Import Base.
From ZV.C07 Require Import Model ModelFive ProofsArith ProofsIntervals ProofsFiveArith ProofsFive.
Open Scope N_scope.

Lemma nth_error_ivl c l i o r : nth_error l i = Some (o, r) -> nth_error (ivl c l) i = Some (o, cap5 c r).
Proof. intros H. unfold ivl. rewrite nth_error_map, H. reflexivity. Qed.
Lemma live_bytes5_tot c l : live_bytes5 c l = tot (ivl c l).
Proof. induction l as [|[o r] t IH]; cbn [live_bytes5 ivl map tot fst snd]; [reflexivity|]. fold (ivl c t). rewrite IH. reflexivity. Qed.

(* ---------- live blocks: disjoint at their full (aligned) sizes, inside the pool, aligned, large enough ---------- *)
Lemma five_level_inv_proof c ops : new_ok5 Fixed c = true ->
  let s := final5 Fixed c ops in
  (forall i j o1 r1 o2 r2, i <> j -> nth_error (live5 s) i = Some (o1, r1) -> nth_error (live5 s) j = Some (o2, r2) ->
     disjoint o1 (cap5 c r1) o2 (cap5 c r2)) /\
  (forall o r, In (o, r) (live5 s) ->
     0 < r /\ r <= cap5 c r /\ o mod f_al c = 0 /\ o + cap5 c r <= f_cap c /\ o + cap5 c r <= U32MAX).
Proof.
  intros Hnew s. pose proof (final5_inv c ops Hnew) as HI. fold s in HI. pose proof (new_ok5_cfg_ok c Hnew) as Hc.
  destruct HI as [[Ht1 Ht2] Hlive Hfl Hlb Hfb Hcov Hsum Hused Hfrag]. split.
  - intros i j o1 r1 o2 r2 Hij H1 H2.
    pose proof (proj1 (Forall_forall _ _) Hlive _ (nth_error_In _ _ H1)) as (P1 & _).
    pose proof (proj1 (Forall_forall _ _) Hlive _ (nth_error_In _ _ H2)) as (P2 & _). cbn [fst snd] in *.
    pose proof (cap5_props c r1 Hc). pose proof (cap5_props c r2 Hc).
    apply (cov_disjoint (ivl c (live5 s)) i j); try lia; try (apply nth_error_ivl; assumption).
    intros x. specialize (Hcov x). lia.
  - intros o r Hin. pose proof (proj1 (Forall_forall _ _) Hlive _ Hin) as (P & P63 & Pm). cbn [fst snd] in *.
    assert (Hb : below (top5 (p5 s)) (o, cap5 c r)).
    { apply (proj1 (Forall_forall _ _) Hlb). unfold ivl. apply in_map_iff. exists (o, r). auto. }
    unfold below in Hb. cbn [fst snd] in Hb. pose proof (cap5_props c r Hc). destruct Hc as [_ Hcap _ _]. intuition lia.
Qed.

(* ---------- refusal ---------- *)
Definition body5 (c : fcfg) (p : fst5) (a : N) : option N * fst5 :=
  if a <=? f_fast c then alloc_fast5 Fixed c p a else alloc_end5 Fixed c p a.
Lemma alloc_inner5_body c p size : 0 < size -> size < W63 ->
  alloc_inner5 Fixed c p size = body5 c p (cap5 c size).
Proof.
  intros Hs Hs63. unfold alloc_inner5, body5, cap5.
  destruct (N.eqb_spec size 0) as [E|_]; [lia|]. destruct (N.leb_spec W63 size) as [E|_]; [lia|]. reflexivity.
Qed.

Lemma body5_none_iff c p a : 0 < f_al c -> a mod f_al c = 0 -> f_al c <= a ->
  fst (body5 c p a) = None <-> ((a <= f_fast c -> pop5 (bin5 c a) (fl5 p) = None) /\ f_cap c < top5 p + a).
Proof.
  intros H0 A3 A5. unfold body5.
  destruct (N.leb_spec a (f_fast c)) as [Hf|Hl].
  - unfold alloc_fast5.
    assert (Hb : bin5 c a < nbins5 c) by (apply bin5_in_range; assumption). apply N.ltb_lt in Hb. rewrite Hb.
    destruct (pop5 (bin5 c a) (fl5 p)) as [[o rest]|] eqn:Ep; cbn [fst].
    + split; [discriminate|]. intros [H _]. specialize (H Hf). discriminate.
    + unfold alloc_end5. destruct (N.leb_spec (top5 p + a) (f_cap c)) as [Hle|Hgt]; cbn [fst].
      * split; [discriminate|]. intros [_ ?]. lia.
      * split; [|reflexivity]. intros _. split; [reflexivity|assumption].
  - unfold alloc_end5. destruct (N.leb_spec (top5 p + a) (f_cap c)) as [Hle|Hgt]; cbn [fst].
    + split; [discriminate|]. intros [_ ?]. lia.
    + split; [|reflexivity]. intros _. split; [intros; lia|assumption].
Qed.

Lemma alloc5_none_iff c s size : cfg_ok c -> Inv5 c s -> 0 < size -> size < W63 ->
  let a := cap5 c size in
  fst (alloc5 Fixed c (p5 s) size) = None <->
  ((a <= f_fast c -> pop5 (bin5 c a) (fl5 (p5 s)) = None) /\ f_cap c < top5 (p5 s) + a).
Proof.
  intros Hc HI Hs Hs63 a.
  pose proof (cap5_props c size Hc) as (A1 & A2 & A3 & A4 & A5). specialize (A5 Hs). fold a in A1, A2, A3, A4, A5.
  assert (H0 : 0 < f_al c) by (destruct Hc; lia).
  destruct HI as [[Ht1 Ht2] Hlive Hfl Hlb Hfb Hcov Hsum Hused Hfrag].
  (* a block filed under the class of a lies inside the capacity *)
  assert (Hentry : forall o rest, pop5 (bin5 c a) (fl5 (p5 s)) = Some (o, rest) ->
                   o + a <= f_cap c /\ a <= tot (ivf c (fl5 (p5 s)))).
  { intros o rest Ep. destruct (pop5_split _ _ _ _ Ep) as (l1 & l2 & El & _).
    assert (Hin : In (o, a) (ivf c (fl5 (p5 s)))).
    { unfold ivf. apply in_map_iff. exists (bin5 c a, o). cbn [fst snd]. rewrite (class5_bin5 c a H0 A3 A5).
      split; [reflexivity|]. rewrite El. apply in_or_app. right. left. reflexivity. }
    split; [|eapply tot_ge_in; exact Hin].
    pose proof (proj1 (Forall_forall _ _) Hfb _ Hin) as Hb. unfold below in Hb. cbn [fst snd] in Hb. lia. }
  unfold alloc5. destruct (f_kind c) eqn:Ek.
  1-3: (rewrite (alloc_inner5_body c (p5 s) size Hs Hs63); fold a; apply body5_none_iff; assumption).
  (* FixedCapacityPool: the capacity check in front never refuses a request the pool could serve *)
  destruct (N.eqb_spec size 0) as [E|_]; [lia|]. destruct (N.leb_spec W63 size) as [E|_]; [lia|]. cbn [orb].
  fold (cap5 c size). fold a.
  specialize (Hused eq_refl).
  destruct (N.ltb_spec (f_cap c) (N.min (used5 (p5 s) + a) (W64 - 1))) as [Hchk|Hnchk]; cbn [fst].
  - split; [intros _|reflexivity].
    assert (Hover : f_cap c < used5 (p5 s) + a) by lia.
    split; [|lia].
    intros Hf. destruct (pop5 (bin5 c a) (fl5 (p5 s))) as [[o rest]|] eqn:Ep; [|reflexivity]. exfalso.
    destruct (Hentry o rest eq_refl) as [_ Hge]. lia.
  - destruct (N.le_gt_cases W63 a) as [Hbig|Hsmall].
    + (* cannot fit: the inner pool refuses the size *)
      unfold alloc_inner5. destruct (N.eqb_spec a 0) as [E|_]; [lia|].
      destruct (N.leb_spec W63 a) as [_|E]; [|lia]. cbn [orb fst].
      destruct Hc as [_ Hcap _ _]. unfold U32MAX, W63 in *.
      split; [intros _|reflexivity]. split; [|lia].
      intros Hf. destruct (pop5 (bin5 c a) (fl5 (p5 s))) as [[o rest]|] eqn:Ep; [|reflexivity]. exfalso.
      destruct (Hentry o rest eq_refl) as [Hle _]. lia.
    + rewrite (alloc_inner5_body c (p5 s) a ltac:(lia) Hsmall). rewrite A4. apply body5_none_iff; assumption.
Qed.

Lemma five_level_refusal_exact_proof c ops size : new_ok5 Fixed c = true -> 0 < size -> size < W63 ->
  let p := p5 (final5 Fixed c ops) in
  let a := cap5 c size in
  fst (alloc5 Fixed c p size) = None <->
  ((a <= f_fast c -> pop5 (bin5 c a) (fl5 p) = None) /\ f_cap c < top5 p + a).
Proof.
  intros Hnew Hs Hs63. apply alloc5_none_iff; try assumption; [apply new_ok5_cfg_ok|apply final5_inv]; assumption.
Qed.

Lemma five_level_refuses_proof c ops size : new_ok5 Fixed c = true -> f_cap c < size ->
  alloc5 Fixed c (p5 (final5 Fixed c ops)) size = (None, p5 (final5 Fixed c ops)).
Proof.
  intros Hnew Hbig. pose proof (new_ok5_cfg_ok c Hnew) as Hc. pose proof (final5_inv c ops Hnew) as HI.
  set (s := final5 Fixed c ops) in *.
  destruct (alloc5 Fixed c (p5 s) size) as [[off|] p'] eqn:Ha.
  - exfalso. pose proof (alloc5_inv c s size _ _ Hc HI Ha) as HI'. cbn beta iota in HI'.
    destruct HI' as [[Ht1 _] _ _ Hlb _ _ _ _ _]. cbn [p5 live5] in *.
    rewrite ivl_app in Hlb. apply Forall_app in Hlb as [_ Hl]. inversion Hl as [|? ? He _]; subst.
    unfold below in He. cbn [fst snd] in He. pose proof (cap5_props c size Hc). lia.
  - pose proof (alloc5_inv c s size _ _ Hc HI Ha) as E. cbn beta iota in E. subst p'. reflexivity.
Qed.

(* ---------- size class round trip: what is carved for a request is what it is filed under on free ---------- *)
Lemma five_level_class_roundtrip_proof c size : new_ok5 Fixed c = true -> 0 < size -> size < W63 ->
  let a := cap5 c size in
  let b := bin5 c a in
  size <= a /\ a < size + f_al c /\ a mod f_al c = 0 /\ cap5 c a = a /\ class5 c b = a /\ bin5 c (class5 c b) = b /\
  (a <= f_fast c -> b < nbins5 c) /\
  (forall p r p', alloc5 Fixed c p size = (r, p') -> top5 p' = top5 p \/ (top5 p' = top5 p + class5 c b /\ r = Some (top5 p))) /\
  (forall p off, a <= f_fast c -> exists p', free5 c p off size = (true, p') /\
     (fl5 p' = (b, off) :: fl5 p \/ (has_merge (f_kind c) = true /\ off + class5 c b = top5 p /\ top5 p' = off /\ fl5 p' = fl5 p))).
Proof.
  intros Hnew Hs Hs63 a b. pose proof (new_ok5_cfg_ok c Hnew) as Hc.
  pose proof (cap5_props c size Hc) as (A1 & A2 & A3 & A4 & A5). specialize (A5 Hs). fold a in A1, A2, A3, A4, A5.
  assert (H0 : 0 < f_al c) by (destruct Hc; lia).
  assert (Hcb : class5 c b = a) by (apply class5_bin5; assumption).
  repeat split; try assumption.
  - rewrite Hcb. reflexivity.
  - intros Hf. apply bin5_in_range; assumption.
  - intros p r p' Ha. apply alloc5_cases in Ha; [|assumption].
    destruct Ha as [(-> & ->)|(_ & _ & [(o & rest & _ & _ & -> & ->)|(_ & -> & _ & ->)])]; cbn [top5]; auto.
    right. fold a. rewrite Hcb. auto.
  - intros p off Hf. destruct (free5_cases c p off size Hc Hs Hs63) as (p' & Hfr & Hcases). cbn zeta in Hcases. fold a in Hcases.
    exists p'. split; [exact Hfr|].
    destruct Hcases as [(Hm & Et & ->)|[(_ & _ & _ & ->)|(_ & Hl & _)]]; cbn [fl5 top5]; [|left; reflexivity|lia].
    right. rewrite Hcb. auto.
Qed.

(* ---------- reuse: a freed fast block goes to the next request of its class, and only to such a request ---------- *)
Lemma five_level_free_reuse_proof c ops l1 l2 off req : new_ok5 Fixed c = true ->
  live5 (final5 Fixed c ops) = l1 ++ (off, req) :: l2 ->
  let p := p5 (final5 Fixed c ops) in
  exists p', free5 c p off req = (true, p') /\
    (cap5 c req <= f_fast c -> ~ (has_merge (f_kind c) = true /\ off + cap5 c req = top5 p) ->
     forall req2, 0 < req2 -> req2 < W63 -> cap5 c req2 = cap5 c req -> fst (alloc5 Fixed c p' req2) = Some off).
Proof.
  intros Hnew Hl p. pose proof (new_ok5_cfg_ok c Hnew) as Hc. pose proof (final5_inv c ops Hnew) as HI.
  set (s := final5 Fixed c ops) in *. fold p.
  destruct (free5_inv c s l1 l2 off req Hc HI Hl) as (p' & Hf & HI').
  exists p'. split; [exact Hf|]. intros Hfast Hnm req2 P2 P63 Ecap.
  pose proof HI as [_ Hlive _ _ _ _ _ _ _]. rewrite Hl in Hlive. apply Forall_app in Hlive as [_ Hl2].
  inversion Hl2 as [|? ? (Hpos & H63 & _) _]; subst. cbn [fst snd] in *.
  destruct (free5_cases c p off req Hc Hpos H63) as (p'' & Hf' & Hcases). cbn zeta in Hcases.
  fold p in Hf. rewrite Hf in Hf'. inversion Hf'; subst p''. clear Hf'.
  destruct Hcases as [(Hm & Et & _)|[(_ & _ & _ & Ep')|(_ & Hl' & _)]]; [exfalso; apply Hnm; auto| |lia].
  (* the block is on top of its bin: the allocation cannot be refused and pops it *)
  destruct (alloc5 Fixed c p' req2) as [r q] eqn:Ha. cbn [fst].
  pose proof (alloc5_none_iff c (mkS5 p' (l1 ++ l2)) req2 Hc HI' P2 P63) as Hnone. cbn zeta in Hnone. cbn [p5] in Hnone.
  rewrite Ha in Hnone. cbn [fst] in Hnone. rewrite Ecap in Hnone.
  pose proof Ha as Ha'. apply alloc5_cases in Ha'; [|assumption]. rewrite Ecap in Ha'.
  assert (Hpop : pop5 (bin5 c (cap5 c req)) (fl5 p') = Some (off, fl5 p)).
  { rewrite Ep'. cbn [fl5]. apply pop5_head. }
  destruct Ha' as [(-> & _)|(_ & _ & [(o & rest & _ & Hp & -> & _)|(_ & _ & Hp & _)])].
  - exfalso. destruct (proj1 Hnone eq_refl) as [Hp _]. specialize (Hp Hfast). rewrite Hpop in Hp. discriminate.
  - rewrite Hpop in Hp. inversion Hp; subst. reflexivity.
  - specialize (Hp Hfast). rewrite Hpop in Hp. discriminate.
Qed.

Lemma five_level_reissue_fits_proof c p size o p' : new_ok5 Fixed c = true ->
  alloc5 Fixed c p size = (Some o, p') -> top5 p' = top5 p ->
  In (bin5 c (cap5 c size), o) (fl5 p) /\ size <= class5 c (bin5 c (cap5 c size)).
Proof.
  intros Hnew Ha Ht. pose proof (new_ok5_cfg_ok c Hnew) as Hc. apply alloc5_cases in Ha; [|assumption].
  destruct Ha as [(E & _)|(Hs & Hs63 & [(o' & rest & _ & Hp & E & ->)|(_ & _ & _ & ->)])]; [discriminate| |].
  - inversion E; subst o'. destruct (pop5_split _ _ _ _ Hp) as (l1 & l2 & -> & _).
    pose proof (cap5_props c size Hc) as (A1 & A2 & A3 & A4 & A5). specialize (A5 Hs).
    assert (H0 : 0 < f_al c) by (destruct Hc; lia).
    rewrite (class5_bin5 c _ H0 A3 A5). split; [|assumption]. apply in_or_app. right. left. reflexivity.
  - cbn [top5] in Ht. pose proof (cap5_props c size Hc) as (A1 & A2 & A3 & A4 & A5). specialize (A5 Hs). destruct Hc. lia.
Qed.

(* ---------- accounting: used_memory is exactly the bytes of the live blocks (no underflow, remaining_capacity exact) ---------- *)
Lemma five_level_used_exact_proof c ops : new_ok5 Fixed c = true -> has_merge (f_kind c) = true ->
  let s := final5 Fixed c ops in
  used5 (p5 s) = live_bytes5 c (live5 s) /\ remaining5 c (p5 s) + live_bytes5 c (live5 s) = f_cap c /\
  live_bytes5 c (live5 s) <= top5 (p5 s) /\ top5 (p5 s) <= f_cap c.
Proof.
  intros Hnew Hm s. pose proof (final5_inv c ops Hnew) as HI. fold s in HI.
  destruct HI as [[Ht1 Ht2] Hlive Hfl Hlb Hfb Hcov Hsum Hused Hfrag]. specialize (Hused Hm).
  rewrite live_bytes5_tot. unfold remaining5. lia.
Qed.

(* fragment_size covers every block on a free list: `fragment_size -= size` on a pop never underflows *)
Lemma five_level_frag_covers_proof c ops b o : new_ok5 Fixed c = true ->
  In (b, o) (fl5 (p5 (final5 Fixed c ops))) -> class5 c b <= frag5 (p5 (final5 Fixed c ops)).
Proof.
  intros Hnew Hin. pose proof (final5_inv c ops Hnew) as [_ _ _ _ _ _ _ _ Hfrag].
  assert (H : In (o, class5 c b) (ivf c (fl5 (p5 (final5 Fixed c ops))))).
  { unfold ivf. apply in_map_iff. exists (b, o). auto. }
  pose proof (tot_ge_in _ _ _ H). lia.
Qed.

(* ---------- the 4-byte free-list link ---------- *)
Lemma pow2_div4 al o : 4 <= al -> (exists k, al = 2 ^ k) -> o mod al = 0 -> o mod 4 = 0.
Proof.
  intros H4 [k ->] Hm.
  assert (Hk : 2 <= k).
  { destruct (N.le_gt_cases 2 k) as [|G]; [assumption|]. exfalso.
    assert (k = 0 \/ k = 1) as [->| ->] by lia; cbn in H4; lia. }
  replace k with (2 + (k - 2)) in Hm by lia. rewrite N.pow_add_r in Hm. change (2 ^ 2) with 4 in Hm.
  assert (Hp : 0 < 2 ^ (k - 2)) by apply pow2_pos.
  apply N.div_exact in Hm; [|lia]. rewrite Hm. rewrite <- N.mul_assoc, N.mul_comm. apply N.mod_mul. lia.
Qed.

Lemma five_link_write_safe_proof c ops i j o1 r1 o2 r2 : new_ok5 Fixed c = true -> i <> j ->
  nth_error (live5 (final5 Fixed c ops)) i = Some (o1, r1) -> nth_error (live5 (final5 Fixed c ops)) j = Some (o2, r2) ->
  o1 mod 4 = 0 /\ o1 + 4 <= o1 + cap5 c r1 /\ disjoint o1 4 o2 (cap5 c r2).
Proof.
  intros Hnew Hij H1 H2. pose proof (new_ok5_cfg_ok c Hnew) as Hc.
  destruct (five_level_inv_proof c ops Hnew) as [Hd Hw]. cbn zeta in Hd, Hw.
  pose proof (Hd i j o1 r1 o2 r2 Hij H1 H2) as D.
  destruct (Hw o1 r1 (nth_error_In _ _ H1)) as (P1 & _ & M1 & _).
  pose proof (cap5_props c r1 Hc) as (_ & _ & _ & _ & A5). specialize (A5 P1).
  destruct Hc as [H4 _ _ Hp]. repeat split.
  - eapply pow2_div4; eauto.
  - lia.
  - unfold disjoint in *. lia.
Qed.

(* ---------- the pinned code ---------- *)
(* capacity above 4 GiB: the third block is issued at offset 2^32, which MemOffset::new truncates to 0 *)
Definition wrap_cfg : fcfg := mkFC KNoLock 8 4294967304 64.
Definition wrap_ops : list op5 := [A5 4294967288; A5 8; A5 8].
Lemma five_offset_wrap_refuted_proof :
  exists c ops, new_ok5 Pinned c = true /\
    live5 (final5 Pinned c ops) = [(0, 4294967288); (4294967288, 8); (0, 8)] /\
    ~ disjoint 0 4294967288 0 8.
Proof.
  exists wrap_cfg, wrap_ops. split; [vm_compute; reflexivity|]. split; [vm_compute; reflexivity|].
  unfold disjoint. lia.
Qed.
(* alignment 2: the 4-byte link written into the freed block [2,4) is misaligned and covers the live block [4,6) *)
Definition small_align_cfg : fcfg := mkFC KMutex 2 1024 64.
Lemma five_small_align_refuted_proof :
  exists c ops, new_ok5 Pinned c = true /\
    live5 (final5 Pinned c ops) = [(0, 2); (2, 2); (4, 2)] /\
    2 mod 4 <> 0 /\ ~ disjoint 2 4 4 (cap5 c 2).
Proof.
  exists small_align_cfg, [A5 2; A5 2; A5 2]. split; [vm_compute; reflexivity|]. split; [vm_compute; reflexivity|].
  split; [vm_compute; discriminate|]. unfold disjoint. vm_compute. intros [H|H]; apply H; reflexivity.
Qed.

(* ---------- the hypotheses of the theorems above are inhabited ---------- *)
Definition five_example_cfg : fcfg := mkFC KFixedCap 16 4096 256.
Definition five_example_ops : list op5 := [A5 17; A5 100; A5 300; F5 0; A5 30; F5 2].
Example five_cfg_example : new_ok5 Fixed five_example_cfg = true /\ has_merge (f_kind five_example_cfg) = true.
Proof. vm_compute. auto. Qed.
Example five_history_example :
  final5 Fixed five_example_cfg five_example_ops = mkS5 (mk5 448 [(1, 0)] 416 32) [(32, 100); (144, 300)].
Proof. vm_compute. reflexivity. Qed.
(* a request that is refused although it is below the capacity (448 + 4000 > 4096), and one beyond the capacity *)
Example five_refusal_example :
  fst (alloc5 Fixed five_example_cfg (p5 (final5 Fixed five_example_cfg five_example_ops)) 4000) = None /\
  f_cap five_example_cfg < 5000.
Proof. vm_compute. auto. Qed.
(* a live fast block that is not at the end of used memory: freeing it and asking for its class again returns it *)
Example five_reuse_example :
  exists l1 l2 off req, live5 (final5 Fixed five_example_cfg five_example_ops) = l1 ++ (off, req) :: l2 /\
    cap5 five_example_cfg req <= f_fast five_example_cfg /\
    off + cap5 five_example_cfg req <> top5 (p5 (final5 Fixed five_example_cfg five_example_ops)) /\
    cap5 five_example_cfg 97 = cap5 five_example_cfg req.
Proof. exists [], [(144, 300)], 32, 100. vm_compute. repeat split; discriminate. Qed.

(* ---------- level 4 (ThreadLocalPool): arena offsets and shared-pool offsets alias - finding five_tl_offset_alias ---------- *)
Lemma five_tl_offset_alias_refuted_proof :
  exists c arena ops, new_ok5 Fixed c = true /\
    live5t (final5t c arena ops) = [(0, 8); (0, 1024)] /\ ~ disjoint 0 8 0 1024.
Proof.
  exists (mkFC KMutex 8 1024 1024), 512, [A5 8; A5 1024]. split; [vm_compute; reflexivity|]. split; [vm_compute; reflexivity|].
  unfold disjoint. lia.
Qed.
